(* DynCoreInv.v — the inductive invariant of the DynamicPGMIndex model and its preservation (C15). *)
From Coq Require Import ZArith List Bool Lia ZifyBool.
Require Import Base GenLeaf DynModel DynSpec DynCoreLemmas.
Local Open Scope Z_scope.

Section InvSec.
Context {P : Type} (ops : pgmops P) (kmax : Z).
Notation dynP := (@dyn P).

(* wf_state strengthened to something inductive *)
Record Inv (d : dynP) : Prop := mkInv {
  iv_wf : wf_state ops d;
  iv_kmax : d_kmax d = kmax;
  iv_b : 1 <= ceil_log2 (d_base d);
  iv_bufmax : d_buffer_max d = buffer_sum (d_base d) (zseq 0 (Z.to_nat (d_min_level d + 1)));
  iv_pgms : zlen (d_pgms d) = Z.max 0 (d_used d - d_min_index_level d);
  iv_buf : 1 <= zlen (d_levels d);
  iv_used : d_used d <= 255;
  iv_mil : d_min_index_level d <= 255
}.

Definition same_cfg (d d' : dynP) : Prop :=
  d_base d' = d_base d /\ d_min_level d' = d_min_level d /\ d_min_index_level d' = d_min_index_level d /\
  d_buffer_max d' = d_buffer_max d /\ d_tomb d' = d_tomb d /\ d_kmax d' = d_kmax d.

Lemma same_cfg_refl : forall d, same_cfg d d.
Proof. unfold same_cfg; tauto. Qed.
Lemma same_cfg_trans : forall a b c, same_cfg a b -> same_cfg b c -> same_cfg a c.
Proof. unfold same_cfg; intros; intuition congruence. Qed.

Lemma set_level_spec : forall d i l d', set_level d i l = Ok d' ->
  same_cfg d d' /\ d_used d' = d_used d /\ d_pgms d' = d_pgms d /\
  zlen (d_levels d') = zlen (d_levels d) /\
  0 <= i - d_min_level d < zlen (d_levels d) /\
  d_levels d' = set_nth (d_levels d) (Z.to_nat (i - d_min_level d)) l /\
  (forall j, level d' j = if j =? i then Ok l else level d j) /\
  (forall j, pgm d' j = pgm d j).
Proof.
  intros d i l d' H. unfold set_level in H.
  destruct ((i - d_min_level d <? 0) || (i - d_min_level d >=? zlen (d_levels d))) eqn:E; [discriminate|].
  inversion H; subst; clear H. unfold same_cfg, level, pgm; cbn.
  repeat split; auto; try lia.
  - unfold zlen. rewrite set_nth_length. auto.
  - intros j. rewrite nth_res_set_nth by lia.
    destruct (j =? i) eqn:E1, (j - d_min_level d =? i - d_min_level d) eqn:E2; try lia; auto.
Qed.

Lemma set_level_total : forall (d : dynP) i l, 0 <= i - d_min_level d < zlen (d_levels d) ->
  exists d', set_level d i l = Ok d'.
Proof.
  intros d i l H. unfold set_level.
  destruct ((i - d_min_level d <? 0) || (i - d_min_level d >=? zlen (d_levels d))) eqn:E; [lia|eauto].
Qed.

Lemma set_pgm_spec : forall d i p d', set_pgm d i p = Ok d' ->
  same_cfg d d' /\ d_used d' = d_used d /\ d_levels d' = d_levels d /\
  zlen (d_pgms d') = zlen (d_pgms d) /\
  0 <= i - d_min_index_level d < zlen (d_pgms d) /\
  (forall j, level d' j = level d j) /\
  (forall j, pgm d' j = if j =? i then Ok p else pgm d j).
Proof.
  intros d i p d' H. unfold set_pgm in H.
  destruct ((i - d_min_index_level d <? 0) || (i - d_min_index_level d >=? zlen (d_pgms d))) eqn:E; [discriminate|].
  inversion H; subst; clear H. unfold same_cfg, level, pgm; cbn.
  repeat split; auto; try lia.
  - unfold zlen. rewrite set_nth_length. auto.
  - intros j. rewrite nth_res_set_nth by lia.
    destruct (j =? i) eqn:E1, (j - d_min_index_level d =? i - d_min_index_level d) eqn:E2; try lia; auto.
Qed.

Lemma set_pgm_total : forall (d : dynP) i p, 0 <= i - d_min_index_level d < zlen (d_pgms d) ->
  exists d', set_pgm d i p = Ok d'.
Proof.
  intros d i p H. unfold set_pgm.
  destruct ((i - d_min_index_level d <? 0) || (i - d_min_index_level d >=? zlen (d_pgms d))) eqn:E; [lia|eauto].
Qed.

(* ---------- constructor ---------- *)
Definition ctor_ok (base bl il : Z) : Prop := 0 <= bl <= 31 /\ 0 <= il <= 255 /\ base < 2 ^ 64.

Lemma nth_res_nil : forall A j, @nth_res A [] j = Err OutOfBounds.
Proof. intros A j. unfold nth_res. destruct (j <? 0); auto. destruct (Z.to_nat j); auto. Qed.

Lemma Inv_empty : forall base ml mil n tomb,
  1 <= ceil_log2 base -> 0 <= ml < mil -> mil <= 255 -> (1 <= n)%nat ->
  Inv (@mkDyn P base ml mil (buffer_sum base (zseq 0 (Z.to_nat (ml + 1)))) ml (repeat [] n) [] tomb kmax).
Proof.
  intros base ml mil n tomb Hb Hml Hml2 Hn.
  assert (Hlv : forall i l, level (@mkDyn P base ml mil (buffer_sum base (zseq 0 (Z.to_nat (ml + 1)))) ml
                                   (repeat [] n) [] tomb kmax) i = Ok l -> l = []).
  { intros i l H. unfold level in H; cbn in H. eapply nth_res_repeat; eauto. }
  assert (Hpg : forall i p, pgm (@mkDyn P base ml mil (buffer_sum base (zseq 0 (Z.to_nat (ml + 1)))) ml
                                   (repeat [] n) [] tomb kmax) i = Ok p -> False).
  { intros i p H. unfold pgm in H; cbn in H. rewrite nth_res_nil in H. discriminate. }
  constructor; cbn; auto; try lia.
  - constructor; cbn.
    + constructor; cbn.
      * intros i l H. apply Hlv in H. subst; reflexivity.
      * intros l H. apply Hlv in H. subst. cbn.
        apply buffer_sum_nonneg. apply Forall_forall. intros j Hj. apply zseq_in in Hj. destruct Hj; assumption.
      * intros i l Hi H. apply Hlv in H. subst. cbn. pose proof (max_size_pos base i). lia.
      * intros i l _ H. apply Hlv in H; auto.
      * intros i l _ H Hne. apply Hlv in H. contradiction.
      * intros i l p _ _ H. apply Hpg in H. contradiction.
    + unfold zlen. rewrite repeat_length. lia.
    + intros i l e H Hin. apply Hlv in H. subst. destruct Hin.
    + lia.
  - unfold zlen. rewrite repeat_length. lia.
Qed.

Lemma ceil_log2_128 : ceil_log2 128 = 7.
Proof. reflexivity. Qed.
Lemma ceil_log2_2p24 : ceil_log2 (Z.shiftl (wrapU 64 1) 24) = 24.
Proof. reflexivity. Qed.

Lemma ceil_log_base_small : forall base c, 1 <= ceil_log2 base -> 0 <= c <= 255 ->
  0 <= wrapU 8 (Z.quot (c + ceil_log2 base - 1) (ceil_log2 base)) <= c.
Proof.
  intros base c Hb Hc. set (b := ceil_log2 base) in *.
  rewrite Z.quot_div_nonneg by lia.
  assert (c + b - 1 = b * ((c + b - 1) / b) + (c + b - 1) mod b) by (apply Z.div_mod; lia).
  assert (0 <= (c + b - 1) mod b < b) by (apply Z.mod_pos_bound; lia).
  assert (0 <= (c + b - 1) / b) by (apply Z.div_pos; lia).
  assert ((c + b - 1) / b <= c) by nia.
  rewrite wrapU_small by (change (2 ^ 8) with 256; lia). lia.
Qed.

Lemma min_level_range : forall base bl, 2 <= base < 2 ^ 64 -> 0 <= bl <= 31 ->
  0 <= dyn_min_level base bl <= 31.
Proof.
  intros base bl Hbase Hbl. unfold dyn_min_level.
  destruct (ceil_log2_big base Hbase) as [_ Hb].
  destruct (bl =? 0) eqn:E; cbn [negb].
  - unfold dyn_ceil_log_base. rewrite ceil_log2_128.
    pose proof (ceil_log_base_small base 7 ltac:(lia) ltac:(lia)) as Hq.
    set (q := wrapU 8 (Z.quot (7 + ceil_log2 base - 1) (ceil_log2 base))) in *.
    assert (base =? 2 = true -> 1 <= q).
    { intros E2. assert (base = 2) by lia. subst base. subst q. vm_compute. discriminate. }
    destruct (base =? 2); rewrite wrapU_small; change (2 ^ 8) with 256; lia.
  - rewrite wrapU_small; change (2 ^ 8) with 256; lia.
Qed.

Lemma min_index_level_range : forall base ml il, 2 <= base < 2 ^ 64 -> 0 <= ml <= 254 -> 0 <= il <= 255 ->
  ml < dyn_min_index_level base ml il <= 255.
Proof.
  intros base ml il Hbase Hml Hil. unfold dyn_min_index_level.
  destruct (ceil_log2_big base Hbase) as [_ Hb].
  assert (Hx : 0 <= (if negb (il =? 0) then il else dyn_ceil_log_base base (Z.shiftl (wrapU 64 1) 24)) <= 255).
  { destruct (il =? 0); cbn [negb]; [|lia]. unfold dyn_ceil_log_base. rewrite ceil_log2_2p24.
    pose proof (ceil_log_base_small base 24 ltac:(lia) ltac:(lia)). lia. }
  set (x := if negb (il =? 0) then il else dyn_ceil_log_base base (Z.shiftl (wrapU 64 1) 24)) in *.
  clearbody x.
  rewrite wrapU_small; change (2 ^ 8) with 256; lia.
Qed.

Lemma dyn_ctor_eq : forall tomb base bl il (d : dynP),
  dyn_ctor tomb kmax base bl il = Ok d ->
  2 <= base /\
  let ml := dyn_min_level base bl in
  d = mkDyn base ml (dyn_min_index_level base ml il) (buffer_sum base (zseq 0 (Z.to_nat (ml + 1)))) ml
            (repeat [] (Z.to_nat (32 - ml))) [] tomb kmax.
Proof.
  intros tomb base bl il d H. unfold dyn_ctor in H.
  destruct ((base <? 2) && ((bl =? 0) || (il =? 0))); [discriminate|].
  destruct (base <? 2) eqn:E2; [discriminate|].
  destruct (negb (Z.land base (base - 1) =? 0)); [discriminate|].
  split; [lia|]. cbv zeta in *. injection H as H. symmetry. exact H.
Qed.

Theorem ctor_Inv : forall tomb base bl il d, ctor_ok base bl il ->
  dyn_ctor tomb kmax base bl il = Ok d -> Inv d.
Proof.
  intros tomb base bl il d [Hbl [Hil Hbase]] H.
  apply dyn_ctor_eq in H. destruct H as [H2 H]. cbv zeta in H. subst d.
  assert (Hb2 : 2 <= base < 2 ^ 64) by lia.
  pose proof (min_level_range base bl Hb2 Hbl) as Hml.
  assert (Hml' : 0 <= dyn_min_level base bl <= 254) by lia.
  pose proof (min_index_level_range base _ il Hb2 Hml' Hil) as Hmil.
  destruct (ceil_log2_big base Hb2) as [_ Hb].
  apply Inv_empty; lia.
Qed.

Ltac csplit := repeat match goal with |- _ /\ _ => refine (conj _ _) end.

(* ---------- merge_levels ---------- *)
Definition levels_from (d : dynP) (s : Z) (n : nat) : list (list item) :=
  firstn n (skipn (Z.to_nat (s - d_min_level d)) (d_levels d)).

Lemma level_nth_error : forall (d : dynP) i l, level d i = Ok l ->
  0 <= i - d_min_level d < zlen (d_levels d) /\
  nth_error (d_levels d) (Z.to_nat (i - d_min_level d)) = Some l.
Proof.
  intros d i l H. unfold level in H. split; [eapply nth_res_bound; eauto|].
  apply nth_res_ok in H. tauto.
Qed.

Lemma levels_from_step : forall (d d1 : dynP) s n li,
  level d s = Ok li -> d_min_level d1 = d_min_level d ->
  d_levels d1 = set_nth (d_levels d) (Z.to_nat (s - d_min_level d)) [] ->
  levels_from d s (S n) = li :: levels_from d1 (s + 1) n.
Proof.
  intros d d1 s n li Hl Hml HL. apply level_nth_error in Hl. destruct Hl as [Hr Hn].
  unfold levels_from. rewrite Hml, HL. rewrite (skipn_nth_error _ _ _ _ Hn). cbn [firstn]. f_equal.
  replace (Z.to_nat (s + 1 - d_min_level d)) with (S (Z.to_nat (s - d_min_level d))) by lia.
  rewrite skipn_set_nth by lia. reflexivity.
Qed.

Lemma merge_levels_spec : forall n (d : dynP) s tmp d' out,
  merge_levels ops d (zseq s n) tmp = Ok (d', out) ->
  same_cfg d d' /\ d_used d' = d_used d /\
  zlen (d_levels d') = zlen (d_levels d) /\ zlen (d_pgms d') = zlen (d_pgms d) /\
  (forall j, level d' j = if (s <=? j) && (j <? s + Z.of_nat n) then Ok [] else level d j) /\
  (forall j, pgm d' j = if (s <=? j) && (j <? s + Z.of_nat n) && has_pgm d j
                        then Ok (pg_empty ops) else pgm d j) /\
  length (levels_from d s n) = n /\
  out = mrun (d_used d) s tmp (levels_from d s n).
Proof.
  induction n as [|n IH]; intros d s tmp d' out H.
  - cbn [zseq merge_levels] in H. inversion H; subst; clear H.
    csplit; try apply same_cfg_refl; auto.
    + intros j. destruct ((s <=? j) && (j <? s + Z.of_nat 0)) eqn:E; [lia|auto].
    + intros j. destruct ((s <=? j) && (j <? s + Z.of_nat 0)) eqn:E; [lia|auto].
  - cbn [zseq merge_levels] in H.
    destruct (level d s) as [li|] eqn:El; [|discriminate]. cbn [bind] in H.
    destruct (set_level d s []) as [d1|] eqn:E1; [|discriminate]. cbn [bind] in H.
    apply set_level_spec in E1.
    destruct E1 as [Hc1 [Hu1 [Hp1 [Hz1 [Hr1 [HL1 [Hlv1 Hpg1]]]]]]].
    assert (Hstep : exists d2, merge_levels ops d2 (zseq (s + 1) n) (merge (s =? d_used d - 1) tmp li) = Ok (d', out) /\
              same_cfg d d2 /\ d_used d2 = d_used d /\ d_levels d2 = d_levels d1 /\
              zlen (d_pgms d2) = zlen (d_pgms d) /\
              (forall j, level d2 j = if j =? s then Ok [] else level d j) /\
              (forall j, pgm d2 j = if (j =? s) && has_pgm d j then Ok (pg_empty ops) else pgm d j)).
    { destruct (has_pgm d s) eqn:Eh.
      - destruct (set_pgm d1 s (pg_empty ops)) as [d2|] eqn:E2; [|discriminate]. cbn [bind] in H.
        apply set_pgm_spec in E2. destruct E2 as [Hc2 [Hu2 [HL2 [Hz2 [Hr2 [Hlv2 Hpg2]]]]]].
        exists d2. csplit; auto; try congruence.
        + eapply same_cfg_trans; eauto.
        + intros j. rewrite Hlv2. apply Hlv1.
        + intros j. rewrite Hpg2, Hpg1. destruct (j =? s) eqn:Ej; cbn [andb]; auto.
          assert (j = s) by lia. subst j. rewrite Eh. auto.
      - cbn [bind] in H. exists d1. csplit; auto; try congruence.
        intros j. rewrite Hpg1. destruct (j =? s) eqn:Ej; cbn [andb]; auto.
        assert (j = s) by lia. subst j. rewrite Eh. auto. }
    destruct Hstep as [d2 [Hm [Hc2 [Hu2 [HL2 [Hz2 [Hlv2 Hpg2]]]]]]].
    apply IH in Hm. destruct Hm as [Hc [Hu [Hz [Hzp [Hlv [Hpg [Hlen Hout]]]]]]].
    assert (Hml2 : d_min_level d2 = d_min_level d) by (destruct Hc2 as [_ [? _]]; auto).
    assert (Hmil2 : d_min_index_level d2 = d_min_index_level d) by (destruct Hc2 as [_ [_ [? _]]]; auto).
    assert (Hfrom : levels_from d s (S n) = li :: levels_from d2 (s + 1) n).
    { apply levels_from_step; auto. congruence. }
    csplit.
    + eapply same_cfg_trans; eauto.
    + congruence.
    + unfold zlen in *. rewrite Hz, HL2. lia.
    + lia.
    + intros j. rewrite Hlv, Hlv2.
      destruct ((s + 1 <=? j) && (j <? s + 1 + Z.of_nat n)) eqn:Ea,
               ((s <=? j) && (j <? s + Z.of_nat (S n))) eqn:Eb, (j =? s) eqn:Ec; try lia; auto.
    + intros j. rewrite Hpg, Hpg2. unfold has_pgm. rewrite Hmil2.
      destruct ((s + 1 <=? j) && (j <? s + 1 + Z.of_nat n)) eqn:Ea,
               ((s <=? j) && (j <? s + Z.of_nat (S n))) eqn:Eb, (j =? s) eqn:Ec,
               (j >=? d_min_index_level d) eqn:Ed; try lia; auto.
    + rewrite Hfrom. cbn [length]. congruence.
    + rewrite Hfrom. cbn [mrun]. rewrite Hout, Hu2. reflexivity.
Qed.

(* ---------- find_target ---------- *)
Lemma levels_from_cons : forall (d : dynP) s n li,
  level d s = Ok li -> levels_from d s (S n) = li :: levels_from d (s + 1) n.
Proof.
  intros d s n li Hl. apply level_nth_error in Hl. destruct Hl as [Hr Hn].
  unfold levels_from. rewrite (skipn_nth_error _ _ _ _ Hn). cbn [firstn]. f_equal.
  replace (Z.to_nat (s + 1 - d_min_level d)) with (S (Z.to_nat (s - d_min_level d))) by lia.
  reflexivity.
Qed.

Lemma find_target_spec : forall fuel (d : dynP) i sr t sr',
  0 <= i <= d_used d -> d_used d <= 255 ->
  find_target d fuel i sr = Ok (t, sr') ->
  i <= t <= d_used d /\
  sr' = sr + sumlen (levels_from d i (Z.to_nat (t - i))) /\
  length (levels_from d i (Z.to_nat (t - i))) = Z.to_nat (t - i) /\
  (t < d_used d -> exists lt, level d t = Ok lt /\ sr' + zlen lt <= max_size d t).
Proof.
  induction fuel as [|fuel IH]; intros d i sr t sr' Hi Hu H; [discriminate|].
  cbn [find_target] in H. destruct (i <? d_used d) eqn:Ei.
  - destruct (level d i) as [li|] eqn:El; [|discriminate]. cbn [bind] in H.
    destruct (sr <=? max_size d i - zlen li) eqn:Es.
    + inversion H; subst; clear H. replace (t - t) with 0 by lia. cbn [Z.to_nat].
      unfold levels_from; cbn [firstn sumlen length]. csplit; try lia; auto.
      intros _. exists li. split; auto. lia.
    + rewrite wrapU_small in H by (change (2 ^ 8) with 256; lia).
      apply IH in H; try lia. destruct H as [Ht [Hsr [Hlen Hroom]]].
      replace (Z.to_nat (t - i)) with (S (Z.to_nat (t - (i + 1)))) by lia.
      rewrite (levels_from_cons d i _ li El). cbn [sumlen length]. csplit; try lia; auto.
  - inversion H; subst; clear H. replace (t - t) with 0 by lia. cbn [Z.to_nat].
    unfold levels_from; cbn [firstn sumlen length]. csplit; try lia; auto.
Qed.

Lemma level_total : forall (d : dynP) i, 0 <= i - d_min_level d < zlen (d_levels d) ->
  exists l, level d i = Ok l.
Proof. intros d i H. unfold level. apply nth_res_total; auto. Qed.

Lemma levels_from_in : forall n (d : dynP) s l,
  d_min_level d <= s -> s - d_min_level d + Z.of_nat n <= zlen (d_levels d) ->
  In l (levels_from d s n) -> exists j, s <= j < s + Z.of_nat n /\ level d j = Ok l.
Proof.
  induction n as [|n IH]; intros d s l Hs Hr Hin.
  - unfold levels_from in Hin. cbn in Hin. destruct Hin.
  - destruct (level_total d s) as [li Hli]; [lia|].
    rewrite (levels_from_cons d s n li Hli) in Hin. destruct Hin as [->|Hin].
    + exists s. split; [lia|auto].
    + apply IH in Hin; try lia. destruct Hin as [j [Hj Hl]]. exists j. split; [lia|auto].
Qed.

Lemma levels_from_length : forall n (d : dynP) s,
  d_min_level d <= s -> s - d_min_level d + Z.of_nat n <= zlen (d_levels d) ->
  length (levels_from d s n) = n.
Proof.
  intros n d s Hs Hr. unfold levels_from. rewrite firstn_length, skipn_length. unfold zlen in Hr. lia.
Qed.

Lemma sumlen_bound : forall n (d : dynP) s,
  (forall j l, d_min_level d < j -> level d j = Ok l -> zlen l <= dyn_max_size (d_base d) j) ->
  d_min_level d < s -> s - d_min_level d + Z.of_nat n <= zlen (d_levels d) ->
  sumlen (levels_from d s n) <= buffer_sum (d_base d) (zseq s n).
Proof.
  induction n as [|n IH]; intros d s Hsz Hs Hr.
  - unfold levels_from. cbn. lia.
  - destruct (level_total d s) as [li Hli]; [lia|].
    rewrite (levels_from_cons d s n li Hli). cbn [sumlen zseq buffer_sum].
    specialize (IH d (s + 1) Hsz). specialize (Hsz s li Hs Hli). lia.
Qed.

Lemma firstn_plus : forall A n m (X : list A), firstn (n + m) X = firstn n X ++ firstn m (skipn n X).
Proof.
  induction n as [|n IH]; intros m X; [reflexivity|].
  destruct X as [|x X]; cbn [plus firstn skipn app].
  - destruct m; reflexivity.
  - f_equal. apply IH.
Qed.
Lemma skipn_plus : forall A p n (L : list A), skipn (n + p) L = skipn n (skipn p L).
Proof.
  induction p as [|p IH]; intros n L.
  - replace (n + 0)%nat with n by lia. reflexivity.
  - replace (n + S p)%nat with (S (n + p)) by lia. destruct L as [|x L]; cbn [skipn].
    + destruct n; reflexivity.
    + apply IH.
Qed.

Lemma levels_from_app : forall n m (d : dynP) s, d_min_level d <= s ->
  levels_from d s (n + m) = levels_from d s n ++ levels_from d (s + Z.of_nat n) m.
Proof.
  intros n m d s Hs. unfold levels_from.
  replace (Z.to_nat (s + Z.of_nat n - d_min_level d)) with (n + Z.to_nat (s - d_min_level d))%nat by lia.
  rewrite skipn_plus. apply firstn_plus.
Qed.

(* ---------- buffer-only updates (overwrite / insert into the buffer) ---------- *)
Lemma Inv_set_buffer : forall (d d1 : dynP) buf' u',
  Inv d -> set_level d (d_min_level d) buf' = Ok d1 ->
  isrt buf' -> zlen buf' <= d_buffer_max d -> (forall e, In e buf' -> it_key e < kmax) ->
  (u' = d_used d \/ (d_used d = d_min_level d /\ u' = d_min_level d + 1)) -> d_min_level d < u' ->
  Inv (set_used d1 u').
Proof.
  intros d d1 buf' u' HI Hset Hsrt Hsz Hk Hu Hmu.
  destruct HI as [[Hlsm [Hlen1 Hlen2] Hkeys [Ho1 Ho2]] Hkm Hb Hbm Hpg Hbuf Hus Hmil].
  destruct Hlsm as [Lsort Lbuf Lsz Lun Lidx Lres].
  apply set_level_spec in Hset.
  destruct Hset as [[Hc1 [Hc2 [Hc3 [Hc4 [Hc5 Hc6]]]]] [Hu1 [Hp1 [Hz1 [Hr1 [HL1 [Hlv1 Hpg1]]]]]]].
  assert (Hlv : forall j, level (set_used d1 u') j = if j =? d_min_level d then Ok buf' else level d j).
  { intros j. rewrite <- Hlv1. unfold level, set_used; cbn. reflexivity. }
  assert (Hpgm : forall j, pgm (set_used d1 u') j = pgm d j).
  { intros j. rewrite <- Hpg1. unfold pgm, set_used; cbn. reflexivity. }
  constructor.
  - constructor.
    + constructor.
      * intros i l H. rewrite Hlv in H. destruct (i =? d_min_level d).
        -- inversion H; subst. apply isrt_iff; auto.
        -- eapply Lsort; eauto.
      * intros l H. cbn in H. rewrite Hlv in H. cbn. rewrite Hc2 in H. rewrite Z.eqb_refl in H.
        inversion H; subst. lia.
      * cbn. intros i l Hi H. rewrite Hlv in H. destruct (i =? d_min_level d) eqn:E; [lia|].
        rewrite Hc1. apply Lsz; auto. lia.
      * cbn. intros i l Hi H. rewrite Hlv in H. destruct (i =? d_min_level d) eqn:E; [lia|].
        apply (Lun i); auto. lia.
      * cbn. intros i l Hi H Hne. rewrite Hlv in H. rewrite Hpgm.
        destruct (i =? d_min_level d) eqn:E; [lia|]. apply Lidx; auto. lia.
      * intros i l p H Hnil Hp. rewrite Hlv in H. rewrite Hpgm in Hp.
        destruct (i =? d_min_level d) eqn:E.
        -- unfold pgm in Hp. apply nth_res_bound in Hp. lia.
        -- eapply Lres; eauto.
    + cbn. unfold zlen in *. lia.
    + cbn. intros i l e H Hin. rewrite Hlv in H. rewrite Hc6, Hkm.
      destruct (i =? d_min_level d).
      * inversion H; subst. auto.
      * rewrite <- Hkm. eapply Hkeys; eauto.
    + cbn. lia.
  - cbn. congruence.
  - cbn. rewrite Hc1. lia.
  - cbn. rewrite Hc4, Hc1, Hc2. auto.
  - cbn. rewrite Hp1, Hc3. lia.
  - cbn. unfold zlen in *. lia.
  - cbn. lia.
  - cbn. lia.
Qed.

(* ---------- case analysis of insert ---------- *)
Definition grow (d : dynP) (i : Z) : dynP :=
  if i =? d_used d then
    let dd := set_used d (wrapU 8 (d_used d + 1)) in
    mkDyn (d_base dd) (d_min_level dd) (d_min_index_level dd) (d_buffer_max dd) (d_used dd)
          (d_levels dd ++ [[]])
          (if i - d_min_index_level dd >=? zlen (d_pgms dd) then d_pgms dd ++ [pg_empty ops] else d_pgms dd)
          (d_tomb dd) (d_kmax dd)
  else d.

Lemma Inv_sorted : forall d i l, Inv d -> level d i = Ok l -> isrt l.
Proof. intros d i l HI H. apply isrt_iff. eapply lp_sorted; eauto. apply HI. Qed.

Inductive insert_case (d : dynP) (x : item) (d' : dynP) : Prop :=
| ic_hit : forall buf e,
    level d (d_min_level d) = Ok buf ->
    nth_error buf (Z.to_nat (lbk buf (it_key x))) = Some e -> it_key e = it_key x ->
    set_level d (d_min_level d) (set_nth buf (Z.to_nat (lbk buf (it_key x))) x) = Ok d' ->
    insert_case d x d'
| ic_room : forall buf d1,
    level d (d_min_level d) = Ok buf ->
    level_lookup buf (it_key x) = None -> zlen buf < d_buffer_max d ->
    set_level d (d_min_level d) (insert_at buf (Z.to_nat (lbk buf (it_key x))) x) = Ok d1 ->
    d' = set_used d1 (if d_used d =? d_min_level d then d_min_level d + 1 else d_used d) ->
    insert_case d x d'
| ic_merge : forall buf i sr,
    level d (d_min_level d) = Ok buf ->
    level_lookup buf (it_key x) = None -> d_buffer_max d <= zlen buf ->
    find_target d 300 (d_min_level d + 1) (d_buffer_max d + 1) = Ok (i, sr) ->
    pairwise_merge ops (grow d i) x i (lbk buf (it_key x)) = Ok d' ->
    insert_case d x d'.

Lemma insert_cases : forall d x d', Inv d -> insert ops d x = Ok d' -> insert_case d x d'.
Proof.
  intros d x d' HI H. unfold insert in H.
  destruct (level d (d_min_level d)) as [buf|] eqn:Eb; [|discriminate]. cbn [bind] in H.
  pose proof (Inv_sorted d _ buf HI Eb) as Hs.
  destruct (lower_bound_bl buf 0 (zlen buf) (it_key x)) as [ip|] eqn:Eip; [|discriminate]. cbn [bind] in H.
  pose proof (lbk_range buf (it_key x)) as Hr.
  apply lower_bound_bl_correct in Eip; auto; try lia. subst ip.
  pose proof (lbk_nth buf (it_key x) Hs) as Hlk.
  destruct (lbk buf (it_key x) <? zlen buf) eqn:Elt.
  - destruct (nth_res_total _ buf (lbk buf (it_key x))) as [e He]; [lia|].
    unfold key_at in H. rewrite He in H. cbn [bind] in H.
    apply nth_res_ok in He. destruct He as [_ He]. rewrite He in Hlk.
    destruct (it_key e =? it_key x) eqn:Ek.
    + eapply ic_hit; eauto. lia.
    + destruct (zlen buf <? d_buffer_max d) eqn:Ez.
      * destruct (set_level d (d_min_level d) _) as [d1|] eqn:E1; [|discriminate]. cbn [bind] in H.
        inversion H; subst. eapply ic_room; eauto. lia.
      * destruct (find_target d 300 (d_min_level d + 1) (d_buffer_max d + 1)) as [[i sr]|] eqn:Ef; [|discriminate].
        cbn [bind] in H. eapply ic_merge; eauto. lia.
  - cbn [bind] in H.
    assert (Hn : nth_error buf (Z.to_nat (lbk buf (it_key x))) = None).
    { apply nth_error_None. unfold zlen in *. lia. }
    rewrite Hn in Hlk.
    destruct (zlen buf <? d_buffer_max d) eqn:Ez.
    + destruct (set_level d (d_min_level d) _) as [d1|] eqn:E1; [|discriminate]. cbn [bind] in H.
      inversion H; subst. eapply ic_room; eauto. lia.
    + destruct (find_target d 300 (d_min_level d + 1) (d_buffer_max d + 1)) as [[i sr]|] eqn:Ef; [|discriminate].
      cbn [bind] in H. eapply ic_merge; eauto. lia.
Qed.

Lemma Inv_keys : forall d i l e, Inv d -> level d i = Ok l -> In e l -> it_key e < kmax.
Proof. intros d i l e HI H Hin. rewrite <- (iv_kmax d HI). eapply wf_keys; eauto. apply HI. Qed.

Lemma Inv_insert_hit : forall d x d' buf e, Inv d -> it_key x < kmax ->
  level d (d_min_level d) = Ok buf ->
  nth_error buf (Z.to_nat (lbk buf (it_key x))) = Some e -> it_key e = it_key x ->
  set_level d (d_min_level d) (set_nth buf (Z.to_nat (lbk buf (it_key x))) x) = Ok d' ->
  Inv d'.
Proof.
  intros d x d' buf e HI Hk Hb Hn He Hset.
  pose proof (Inv_sorted d _ buf HI Hb) as Hs.
  assert (Hused : d_min_level d < d_used d).
  { destruct (Z_lt_dec (d_min_level d) (d_used d)); auto.
    assert (buf = []). { eapply lp_unused; [apply HI| |eauto]. lia. }
    subst buf. destruct (Z.to_nat (lbk [] (it_key x))); discriminate. }
  replace d' with (set_used d' (d_used d)).
  - eapply Inv_set_buffer; eauto.
    + eapply set_nth_sorted; eauto.
    + unfold zlen. rewrite set_nth_length. eapply lp_buffer; eauto. apply HI.
    + intros e' Hin. apply set_nth_in in Hin. destruct Hin as [->|Hin]; auto.
      eapply Inv_keys; eauto.
  - apply set_level_spec in Hset. destruct Hset as [_ [Hu _]]. destruct d'; unfold set_used; cbn in *. congruence.
Qed.

Lemma Inv_insert_room : forall d x d1 buf, Inv d -> it_key x < kmax ->
  level d (d_min_level d) = Ok buf ->
  level_lookup buf (it_key x) = None -> zlen buf < d_buffer_max d ->
  set_level d (d_min_level d) (insert_at buf (Z.to_nat (lbk buf (it_key x))) x) = Ok d1 ->
  Inv (set_used d1 (if d_used d =? d_min_level d then d_min_level d + 1 else d_used d)).
Proof.
  intros d x d1 buf HI Hk Hb Hn Hz Hset.
  pose proof (Inv_sorted d _ buf HI Hb) as Hs.
  pose proof (wf_levels_len ops d (iv_wf d HI)) as [Hl1 Hl2].
  eapply Inv_set_buffer; eauto.
  - apply insert_at_sorted; auto.
  - unfold zlen in *. rewrite insert_at_length. lia.
  - intros e Hin. apply insert_at_in in Hin. destruct Hin as [->|Hin]; auto. eapply Inv_keys; eauto.
  - destruct (d_used d =? d_min_level d) eqn:E; [right|left]; lia.
  - destruct (d_used d =? d_min_level d) eqn:E; lia.
Qed.

(* ---------- pairwise_merge: effect on the state ---------- *)
Definition merge_n (d : dynP) (t : Z) (lt : list item) : nat :=
  Z.to_nat ((if zlen lt =? 0 then t - 1 else t) - d_min_level d).

Definition cleared (d : dynP) (n : nat) (j : Z) : bool :=
  (d_min_level d + 1 <=? j) && (j <? d_min_level d + 1 + Z.of_nat n).

Lemma pairwise_merge_spec : forall (d : dynP) x t ip d',
  0 <= d_min_level d < t -> t <= 255 ->
  pairwise_merge ops d x t ip = Ok d' ->
  exists buf lt out,
    level d (d_min_level d) = Ok buf /\ level d t = Ok lt /\
    let n := merge_n d t lt in
    out = mrun (d_used d) (d_min_level d + 1) (insert_at buf (Z.to_nat ip) x) (levels_from d (d_min_level d + 1) n) /\
    length (levels_from d (d_min_level d + 1) n) = n /\
    same_cfg d d' /\ d_used d' = d_used d /\
    zlen (d_levels d') = zlen (d_levels d) /\ zlen (d_pgms d') = zlen (d_pgms d) /\
    (forall j, level d' j = if j =? t then Ok out else
                            if (j =? d_min_level d) || cleared d n j then Ok [] else level d j) /\
    (if has_pgm d t then
       exists p, pg_build ops (map it_key out) = Ok p /\
       forall j, pgm d' j = if j =? t then Ok p else
                            if cleared d n j && has_pgm d j then Ok (pg_empty ops) else pgm d j
     else forall j, pgm d' j = if cleared d n j && has_pgm d j then Ok (pg_empty ops) else pgm d j).
Proof.
  intros d x t ip d' Ht Ht2 H. unfold pairwise_merge in H.
  destruct (level d (d_min_level d)) as [buf|] eqn:Eb; [|discriminate]. cbn [bind] in H.
  destruct (level d t) as [lt|] eqn:Et; [|discriminate]. cbn [bind] in H.
  rewrite wrapU_small in H by (change (2 ^ 8) with 256; lia).
  replace (1 + d_min_level d) with (d_min_level d + 1) in H by lia.
  fold (merge_n d t lt) in H.
  destruct (merge_levels ops d _ _) as [[d1 out]|] eqn:Em; [|discriminate]. cbn [bind] in H.
  apply merge_levels_spec in Em. destruct Em as [Hc1 [Hu1 [Hz1 [Hzp1 [Hlv1 [Hpg1 [Hlen Hout]]]]]]].
  destruct (set_level d1 (d_min_level d) []) as [d2|] eqn:E2; [|discriminate]. cbn [bind] in H.
  apply set_level_spec in E2. destruct E2 as [Hc2 [Hu2 [Hp2 [Hz2 [_ [_ [Hlv2 Hpg2]]]]]]].
  destruct (set_level d2 t out) as [d3|] eqn:E3; [|discriminate]. cbn [bind] in H.
  apply set_level_spec in E3. destruct E3 as [Hc3 [Hu3 [Hp3 [Hz3 [_ [_ [Hlv3 Hpg3]]]]]]].
  assert (Hc13 : same_cfg d d3) by (eapply same_cfg_trans; [eauto|eapply same_cfg_trans; eauto]).
  assert (Hlv : forall j, level d3 j = if j =? t then Ok out else
                  if (j =? d_min_level d) || cleared d (merge_n d t lt) j then Ok [] else level d j).
  { intros j. rewrite Hlv3, Hlv2, Hlv1. unfold cleared.
    destruct (j =? t); auto. destruct (j =? d_min_level d); auto. }
  assert (Hpg : forall j, pgm d3 j = if cleared d (merge_n d t lt) j && has_pgm d j
                                     then Ok (pg_empty ops) else pgm d j).
  { intros j. rewrite Hpg3, Hpg2, Hpg1. reflexivity. }
  assert (Hh3 : has_pgm d3 t = has_pgm d t).
  { unfold has_pgm. destruct Hc13 as [_ [_ [-> _]]]. auto. }
  assert (Hz13 : zlen (d_levels d3) = zlen (d_levels d)) by (unfold zlen in *; congruence).
  assert (Hzp13 : zlen (d_pgms d3) = zlen (d_pgms d)) by (unfold zlen in *; congruence).
  exists buf, lt, out. cbv zeta. destruct (has_pgm d t) eqn:Eh.
  - destruct (pg_build ops (map it_key out)) as [p|] eqn:Ep; [|discriminate]. cbn [bind] in H.
    apply set_pgm_spec in H. destruct H as [Hc4 [Hu4 [HL4 [Hz4 [_ [Hlv4 Hpg4]]]]]].
    csplit; auto; try congruence; try (unfold zlen in *; congruence).
    + eapply same_cfg_trans; eauto.
    + intros j. rewrite Hlv4. apply Hlv.
    + exists p. split; auto. intros j. rewrite Hpg4, Hpg. reflexivity.
  - inversion H; subst d3. csplit; auto; congruence.
Qed.

Lemma sumlen_nonneg : forall ls, 0 <= sumlen ls.
Proof. induction ls as [|l ls IH]; cbn [sumlen]; unfold zlen in *; lia. Qed.
Lemma sumlen_app : forall a b, sumlen (a ++ b) = sumlen a + sumlen b.
Proof. induction a as [|l a IH]; intros b; cbn [app sumlen]; [lia|]. rewrite IH. lia. Qed.

Lemma sumlen_mono : forall (d : dynP) s n m, d_min_level d <= s -> (n <= m)%nat ->
  sumlen (levels_from d s n) <= sumlen (levels_from d s m).
Proof.
  intros d s n m Hs Hnm. replace m with (n + (m - n))%nat by lia.
  rewrite levels_from_app by auto. rewrite sumlen_app.
  pose proof (sumlen_nonneg (levels_from d (s + Z.of_nat n) (m - n))). lia.
Qed.

(* PGMType(first, first) over an empty range is the default-constructed index; needed for lp_reset
   when a merge with tombstones empties the target level (not part of pgm_contract). *)
Hypothesis Hempty : forall p, pg_build ops [] = Ok p -> p = pg_empty ops.

Lemma pgm_err_low : forall (d : dynP) j p, j < d_min_index_level d -> pgm d j = Ok p -> False.
Proof. intros d j p Hj H. unfold pgm in H. apply nth_res_bound in H. lia. Qed.

Lemma pairwise_merge_Inv : forall (d : dynP) x t d' buf,
  Inv d -> d_min_level d < t < d_used d -> it_key x < kmax ->
  level d (d_min_level d) = Ok buf -> level_lookup buf (it_key x) = None ->
  zlen buf + 1 + sumlen (levels_from d (d_min_level d + 1) (Z.to_nat (t - d_min_level d)))
     <= dyn_max_size (d_base d) t ->
  pairwise_merge ops d x t (lbk buf (it_key x)) = Ok d' -> Inv d'.
Proof.
  intros d x t d' buf HI Ht Hk Hb Hn Hcap H.
  pose proof HI as HI0.
  destruct HI as [[Hlsm [Hlen1 Hlen2] Hkeys [Ho1 Ho2]] Hkm Hbb Hbm Hpgz Hbuf Hus Hmil].
  destruct Hlsm as [Lsort Lbuf Lsz Lun Lidx Lres].
  apply pairwise_merge_spec in H; try lia.
  destruct H as [buf' [lt [out [Hb' [Hlt H]]]]]. cbv zeta in H.
  rewrite Hb in Hb'. inversion Hb'; subst buf'; clear Hb'.
  set (n := merge_n d t lt) in *.
  destruct H as [Hout [Hlen [Hc [Hu [Hz [Hzp [Hlv Hpg]]]]]]].
  destruct Hc as [Hc1 [Hc2 [Hc3 [Hc4 [Hc5 Hc6]]]]].
  assert (Hn1 : (n <= Z.to_nat (t - d_min_level d))%nat).
  { subst n. unfold merge_n. destruct (zlen lt =? 0); lia. }
  assert (Hrange : d_min_level d + 1 - d_min_level d + Z.of_nat n <= zlen (d_levels d)) by lia.
  (* facts about out *)
  assert (Hsrt : isrt out).
  { rewrite Hout. apply mrun_sorted.
    - apply insert_at_sorted; auto. eapply Inv_sorted; eauto.
    - apply Forall_forall. intros l Hin. apply levels_from_in in Hin; try lia.
      destruct Hin as [j [_ Hj]]. eapply Inv_sorted; eauto. }
  assert (Hosz : zlen out <= dyn_max_size (d_base d) t).
  { rewrite Hout. eapply Z.le_trans; [apply mrun_length|].
    pose proof (sumlen_mono d (d_min_level d + 1) n _ ltac:(lia) Hn1).
    unfold zlen in *. rewrite insert_at_length. lia. }
  assert (Hokeys : forall e, In e out -> it_key e < kmax).
  { intros e Hin. rewrite Hout in Hin. apply mrun_in in Hin. destruct Hin as [Hin|[l [Hl Hin]]].
    - apply insert_at_in in Hin. destruct Hin as [->|Hin]; auto. eapply (Inv_keys d _ buf); eauto.
    - apply levels_from_in in Hl; try lia. destruct Hl as [j [_ Hj]]. eapply Inv_keys; eauto. }
  assert (Hcl : forall j, cleared d n j = true -> d_min_level d < j <= t).
  { intros j Hj. unfold cleared in Hj. lia. }
  assert (Hhp : forall j, has_pgm d j = (j >=? d_min_index_level d)) by reflexivity.
  assert (Hpg' : forall j, j <> t -> pgm d' j = if cleared d n j && has_pgm d j then Ok (pg_empty ops) else pgm d j).
  { intros j Hj. destruct (has_pgm d t).
    - destruct Hpg as [p [_ Hp]]. rewrite Hp. destruct (j =? t) eqn:E; [lia|auto].
    - apply Hpg. }
  constructor.
  - constructor.
    + constructor.
      * intros i l Hl. rewrite Hlv in Hl. destruct (i =? t).
        { inversion Hl; subst. apply isrt_iff; auto. }
        destruct ((i =? d_min_level d) || cleared d n i).
        { inversion Hl; subst. reflexivity. }
        eapply Lsort; eauto.
      * intros l Hl. rewrite Hlv in Hl. rewrite Hc2 in Hl. destruct (d_min_level d =? t) eqn:E; [lia|].
        rewrite Z.eqb_refl in Hl. cbn [orb] in Hl. inversion Hl; subst. cbn.
        rewrite Hc4, Hbm. apply buffer_sum_nonneg. apply Forall_forall. intros j Hj.
        apply zseq_in in Hj. destruct Hj; assumption.
      * intros i l Hi Hl. rewrite Hlv in Hl. rewrite Hc1. destruct (i =? t) eqn:E.
        { inversion Hl; subst. assert (i = t) by lia. subst i. auto. }
        destruct ((i =? d_min_level d) || cleared d n i).
        { inversion Hl; subst. cbn. pose proof (max_size_pos (d_base d) i). lia. }
        apply Lsz; auto. lia.
      * intros i l Hi Hl. rewrite Hlv in Hl. destruct (i =? t) eqn:E; [lia|].
        destruct ((i =? d_min_level d) || cleared d n i).
        { inversion Hl; auto. }
        apply (Lun i); auto. lia.
      * intros i l Hi Hl Hne. rewrite Hlv in Hl. rewrite Hc3 in Hi. destruct (i =? t) eqn:E.
        { assert (i = t) by lia. subst i. inversion Hl; subst l.
          assert (Eh : has_pgm d t = true) by (rewrite Hhp; lia). rewrite Eh in Hpg.
          destruct Hpg as [p [Hp1 Hp2]]. exists p. rewrite Hp2, Z.eqb_refl. split; auto. }
        destruct ((i =? d_min_level d) || cleared d n i) eqn:Ec.
        { inversion Hl; subst. contradiction. }
        rewrite Hpg' by lia.
        assert (Ec2 : cleared d n i = false) by (destruct (cleared d n i); auto; rewrite orb_true_r in Ec; discriminate).
        rewrite Ec2. cbn [andb]. apply Lidx; auto.
      * intros i l p Hl Hnil Hp. subst l. rewrite Hlv in Hl. destruct (i =? t) eqn:E.
        { assert (i = t) by lia. subst i. inversion Hl as [Ho].
          destruct (has_pgm d t) eqn:Eh.
          - destruct Hpg as [p' [Hp1 Hp2]]. rewrite Hp2, Z.eqb_refl in Hp. inversion Hp; subst p'.
            rewrite Ho in Hp1. cbn in Hp1. auto.
          - rewrite Hpg in Hp. rewrite Eh, andb_false_r in Hp. exfalso.
            eapply (pgm_err_low d t); eauto. rewrite Hhp in Eh. lia. }
        rewrite Hpg' in Hp by lia.
        destruct (cleared d n i && has_pgm d i) eqn:Ec; [inversion Hp; auto|].
        destruct ((i =? d_min_level d) || cleared d n i) eqn:Ec2.
        { exfalso. eapply (pgm_err_low d i); eauto. rewrite Hhp in Ec.
          destruct (i =? d_min_level d) eqn:E3; [lia|]. cbn [orb] in Ec2. rewrite Ec2 in Ec. cbn [andb] in Ec. lia. }
        eapply Lres; eauto.
    + lia.
    + intros i l e Hl Hin. rewrite Hc6, Hkm. rewrite Hlv in Hl. destruct (i =? t).
      { inversion Hl; subst. auto. }
      destruct ((i =? d_min_level d) || cleared d n i).
      { inversion Hl; subst. destruct Hin. }
      eapply Inv_keys; eauto.
    + lia.
  - congruence.
  - rewrite Hc1; auto.
  - rewrite Hc4, Hc1, Hc2; auto.
  - rewrite Hzp, Hu, Hc3. auto.
  - lia.
  - lia.
  - lia.
Qed.

(* ---------- opening a new level ---------- *)
Lemma grow_spec : forall (d : dynP), d_used d < 255 -> 0 <= d_used d ->
  let g := grow d (d_used d) in
  same_cfg d g /\ d_used g = d_used d + 1 /\ d_levels g = d_levels d ++ [[]] /\
  (forall j, level g j = if j - d_min_level d =? zlen (d_levels d) then Ok [] else level d j) /\
  d_pgms g = (if d_used d - d_min_index_level d >=? zlen (d_pgms d) then d_pgms d ++ [pg_empty ops] else d_pgms d) /\
  (forall j, pgm g j = if (d_used d - d_min_index_level d >=? zlen (d_pgms d)) &&
                          (j - d_min_index_level d =? zlen (d_pgms d))
                       then Ok (pg_empty ops) else pgm d j).
Proof.
  intros d Hu Hu0. unfold grow. rewrite Z.eqb_refl. cbv zeta.
  rewrite wrapU_small by (change (2 ^ 8) with 256; lia).
  unfold same_cfg, level, pgm. cbn. csplit; auto.
  - intros j. apply nth_res_snoc.
  - intros j. destruct (d_used d - d_min_index_level d >=? zlen (d_pgms d)); cbn [andb]; auto.
    apply nth_res_snoc.
Qed.

Lemma Inv_grow : forall d, Inv d -> d_used d < 255 -> Inv (grow d (d_used d)).
Proof.
  intros d HI Hu. pose proof HI as HI0.
  destruct HI as [[Hlsm [Hlen1 Hlen2] Hkeys [Ho1 Ho2]] Hkm Hbb Hbm Hpgz Hbuf Hus Hmil].
  destruct Hlsm as [Lsort Lbuf Lsz Lun Lidx Lres].
  destruct (grow_spec d Hu ltac:(lia)) as [Hc [Hu' [HL [Hlv [HP Hpg]]]]].
  set (g := grow d (d_used d)) in *. clearbody g.
  destruct Hc as [Hc1 [Hc2 [Hc3 [Hc4 [Hc5 Hc6]]]]].
  assert (Hold : forall j l, level g j = Ok l -> l = [] \/ level d j = Ok l).
  { intros j l H. rewrite Hlv in H. destruct (j - d_min_level d =? zlen (d_levels d)); auto.
    inversion H; auto. }
  assert (Hpold : forall j p, pgm g j = Ok p ->
            (p = pg_empty ops /\ j = d_used d /\ d_min_index_level d <= j) \/ pgm d j = Ok p).
  { intros j p H. rewrite Hpg in H.
    destruct ((d_used d - d_min_index_level d >=? zlen (d_pgms d)) &&
              (j - d_min_index_level d =? zlen (d_pgms d))) eqn:E; auto.
    inversion H; subst. left. split; auto. unfold zlen in *. lia. }
  assert (Hpin : forall j p, pgm d j = Ok p -> d_min_index_level d <= j < d_used d).
  { intros j p H. unfold pgm in H. apply nth_res_bound in H. lia. }
  constructor.
  - constructor.
    + constructor.
      * intros i l H. apply Hold in H. destruct H as [->|H]; [reflexivity|eapply Lsort; eauto].
      * intros l H. rewrite Hc2 in H. apply Hold in H. rewrite Hc4.
        destruct H as [->|H]; [|apply Lbuf; auto]. cbn. rewrite Hbm.
        apply buffer_sum_nonneg. apply Forall_forall. intros j Hj.
        apply zseq_in in Hj. destruct Hj; assumption.
      * intros i l Hi H. rewrite Hc2 in Hi. rewrite Hc1. apply Hold in H.
        destruct H as [->|H]; [|apply Lsz; auto]. cbn. pose proof (max_size_pos (d_base d) i). lia.
      * intros i l Hi H. apply Hold in H. destruct H as [->|H]; auto. apply (Lun i); auto. lia.
      * intros i l Hi H Hne. rewrite Hc3 in Hi. apply Hold in H. destruct H as [->|H]; [contradiction|].
        destruct (Lidx i l Hi H Hne) as [p [Hp1 Hp2]]. exists p. split; auto.
        rewrite Hpg. pose proof (Hpin _ _ Hp1) as Hr.
        destruct ((d_used d - d_min_index_level d >=? zlen (d_pgms d)) &&
                  (i - d_min_index_level d =? zlen (d_pgms d))) eqn:E; auto. lia.
      * intros i l p H Hnil Hp. subst l. apply Hpold in Hp. destruct Hp as [[-> _]|Hp]; auto.
        pose proof (Hpin _ _ Hp) as Hr. rewrite Hlv in H.
        destruct (i - d_min_level d =? zlen (d_levels d)) eqn:E; [lia|].
        eapply Lres; eauto.
    + rewrite Hc2, Hu', HL. unfold zlen in *. rewrite app_length. cbn. lia.
    + intros i l e H Hin. rewrite Hc6, Hkm. apply Hold in H. destruct H as [->|H]; [destruct Hin|].
      eapply Inv_keys; eauto.
    + lia.
  - congruence.
  - rewrite Hc1; auto.
  - rewrite Hc4, Hc1, Hc2; auto.
  - rewrite HP, Hu', Hc3. unfold zlen in *.
    destruct (d_used d - d_min_index_level d >=? Z.of_nat (length (d_pgms d))) eqn:E.
    + rewrite app_length. cbn. lia.
    + lia.
  - rewrite HL. unfold zlen in *. rewrite app_length. cbn. lia.
  - lia.
  - lia.
Qed.

Lemma buffer_max_pos : forall d, Inv d -> 1 <= d_buffer_max d.
Proof.
  intros d HI. rewrite (iv_bufmax d HI).
  pose proof (wf_levels_order ops d (iv_wf d HI)) as [H0 _].
  replace (Z.to_nat (d_min_level d + 1)) with (S (Z.to_nat (d_min_level d))) by lia.
  cbn [zseq buffer_sum]. pose proof (max_size_pos (d_base d) 0 ltac:(lia)).
  assert (0 <= buffer_sum (d_base d) (zseq (0 + 1) (Z.to_nat (d_min_level d)))).
  { apply buffer_sum_nonneg. apply Forall_forall. intros j Hj. apply zseq_in in Hj. lia. }
  lia.
Qed.

Lemma levels_from_one : forall (d : dynP) s l, level d s = Ok l -> levels_from d s 1 = [l].
Proof. intros d s l H. rewrite (levels_from_cons d s 0 l H). unfold levels_from. reflexivity. Qed.

Lemma levels_from_snoc : forall (d : dynP) s n l, d_min_level d <= s ->
  level d (s + Z.of_nat n) = Ok l -> levels_from d s (S n) = levels_from d s n ++ [l].
Proof.
  intros d s n l Hs H. replace (S n) with (n + 1)%nat by lia.
  rewrite levels_from_app by auto. rewrite (levels_from_one _ _ _ H). reflexivity.
Qed.

Lemma Inv_insert_merge_old : forall d x d' buf i sr, Inv d -> it_key x < kmax ->
  level d (d_min_level d) = Ok buf -> level_lookup buf (it_key x) = None ->
  d_min_level d < i < d_used d ->
  sr = d_buffer_max d + 1 + sumlen (levels_from d (d_min_level d + 1) (Z.to_nat (i - (d_min_level d + 1)))) ->
  (exists lt, level d i = Ok lt /\ sr + zlen lt <= max_size d i) ->
  pairwise_merge ops d x i (lbk buf (it_key x)) = Ok d' -> Inv d'.
Proof.
  intros d x d' buf i sr HI Hk Hb Hn Hi Hsr [lt [Hlt Hroom]] H.
  eapply pairwise_merge_Inv; eauto.
  replace (Z.to_nat (i - d_min_level d)) with (S (Z.to_nat (i - (d_min_level d + 1)))) by lia.
  rewrite (levels_from_snoc d _ _ lt) by (try lia; rewrite <- Hlt; f_equal; lia).
  rewrite sumlen_app. cbn [sumlen]. unfold max_size in Hroom.
  pose proof (lp_buffer ops d (wf_lsm ops d (iv_wf d HI)) buf Hb). lia.
Qed.

Lemma grow_level_used : forall d, Inv d -> d_used d < 255 ->
  level (grow d (d_used d)) (d_used d) = Ok [].
Proof.
  intros d HI Hu.
  pose proof (wf_levels_len ops d (iv_wf d HI)) as [Hl1 Hl2].
  pose proof (wf_levels_order ops d (iv_wf d HI)) as [H0 _].
  destruct (grow_spec d Hu ltac:(lia)) as [_ [_ [_ [Hlv _]]]]. rewrite Hlv.
  destruct (d_used d - d_min_level d =? zlen (d_levels d)) eqn:E; auto.
  destruct (level_total d (d_used d)) as [l Hl]; [lia|].
  rewrite Hl. f_equal. eapply lp_unused; [apply HI| |eauto]. lia.
Qed.

Lemma Inv_insert_merge_new : forall d x d' buf, Inv d -> d_used d < 255 -> it_key x < kmax ->
  level d (d_min_level d) = Ok buf -> level_lookup buf (it_key x) = None ->
  d_min_level d < d_used d ->
  pairwise_merge ops (grow d (d_used d)) x (d_used d) (lbk buf (it_key x)) = Ok d' -> Inv d'.
Proof.
  intros d x d' buf HI Hu Hk Hb Hn Hmu H.
  pose proof (Inv_grow d HI Hu) as HG.
  pose proof (grow_level_used d HI Hu) as Hgu.
  pose proof (wf_levels_len ops d (iv_wf d HI)) as [Hl1 Hl2].
  pose proof (wf_levels_order ops d (iv_wf d HI)) as [H0 _].
  destruct (grow_spec d Hu ltac:(lia)) as [Hc [Hu' [HL [Hlv _]]]].
  set (g := grow d (d_used d)) in *. clearbody g.
  destruct Hc as [Hc1 [Hc2 [Hc3 [Hc4 [Hc5 Hc6]]]]].
  assert (Hgb : level g (d_min_level g) = Ok buf).
  { rewrite Hc2, Hlv. apply level_nth_error in Hb as Hb'.
    destruct (d_min_level d - d_min_level d =? zlen (d_levels d)) eqn:E; [lia|auto]. }
  eapply (pairwise_merge_Inv g x (d_used d) d' buf); eauto; try lia.
  rewrite Hc2, Hc1.
  replace (Z.to_nat (d_used d - d_min_level d)) with (S (Z.to_nat (d_used d - d_min_level d - 1))) by lia.
  rewrite (levels_from_snoc g _ _ []) by (try lia; rewrite <- Hgu; f_equal; lia).
  rewrite sumlen_app. cbn [sumlen].
  assert (HzL : zlen (d_levels g) = zlen (d_levels d) + 1).
  { rewrite HL. unfold zlen. rewrite app_length. cbn. lia. }
  pose proof (sumlen_bound (Z.to_nat (d_used d - d_min_level d - 1)) g (d_min_level d + 1)) as Hsb.
  rewrite Hc1, Hc2 in Hsb.
  assert (Hsum : sumlen (levels_from g (d_min_level d + 1) (Z.to_nat (d_used d - d_min_level d - 1)))
                 <= buffer_sum (d_base d) (zseq (d_min_level d + 1) (Z.to_nat (d_used d - d_min_level d - 1)))).
  { apply Hsb; try lia. intros j l Hj Hl. rewrite <- Hc1.
    eapply lp_sizes; [apply HG| |eauto]. lia. }
  pose proof (lp_buffer ops d (wf_lsm ops d (iv_wf d HI)) buf Hb) as Hbuf.
  rewrite (iv_bufmax d HI) in Hbuf.
  pose proof (buffer_sum_geom (d_base d) (Z.to_nat (d_used d)) (iv_b d HI)) as Hgeo.
  replace (Z.to_nat (d_used d)) with (Z.to_nat (d_min_level d + 1) + Z.to_nat (d_used d - d_min_level d - 1))%nat in Hgeo at 1 by lia.
  rewrite zseq_app, buffer_sum_app in Hgeo.
  replace (0 + Z.of_nat (Z.to_nat (d_min_level d + 1))) with (d_min_level d + 1) in Hgeo by lia.
  rewrite Z2Nat.id in Hgeo by lia. change (zlen []) with 0. lia.
Qed.

(* no uint8_t wrap-around of used_levels when a new level is opened *)
Definition size_ok (d : dynP) : Prop := d_used d < 255.

Lemma merge_case_facts : forall d buf i sr, Inv d ->
  level d (d_min_level d) = Ok buf -> d_buffer_max d <= zlen buf ->
  find_target d 300 (d_min_level d + 1) (d_buffer_max d + 1) = Ok (i, sr) ->
  d_min_level d < d_used d /\ d_min_level d < i <= d_used d /\
  sr = d_buffer_max d + 1 + sumlen (levels_from d (d_min_level d + 1) (Z.to_nat (i - (d_min_level d + 1)))) /\
  (i < d_used d -> exists lt, level d i = Ok lt /\ sr + zlen lt <= max_size d i).
Proof.
  intros d buf i sr HI Hb Hfull Hf.
  pose proof (wf_levels_order ops d (iv_wf d HI)) as [H0 _].
  pose proof (buffer_max_pos d HI) as Hbp.
  assert (Hmu : d_min_level d < d_used d).
  { destruct (Z_lt_dec (d_min_level d) (d_used d)); auto.
    assert (buf = []). { eapply lp_unused; [apply HI| |eauto]. lia. }
    subst buf. cbn in Hfull. lia. }
  apply find_target_spec in Hf; try lia; [|apply (iv_used d HI)].
  destruct Hf as [Hi [Hsr [_ Hroom]]]. csplit; auto; lia.
Qed.

Theorem insert_Inv : forall d x d', Inv d -> size_ok d -> it_key x < kmax ->
  insert ops d x = Ok d' -> Inv d'.
Proof.
  intros d x d' HI Hsz Hk H. apply insert_cases in H; auto.
  destruct H as [buf e Hb Hn He Hset | buf d1 Hb Hn Hz Hset -> | buf i sr Hb Hn Hfull Hf Hpm].
  - eapply Inv_insert_hit; eauto.
  - eapply Inv_insert_room; eauto.
  - destruct (merge_case_facts d buf i sr HI Hb Hfull Hf) as [Hmu [Hi [Hsr Hroom]]].
    destruct (Z_lt_dec i (d_used d)) as [Hlt|Hge].
    + assert (Eg : grow d i = d). { unfold grow. destruct (i =? d_used d) eqn:E; [lia|auto]. }
      rewrite Eg in Hpm. eapply Inv_insert_merge_old; eauto. lia.
    + assert (i = d_used d) by lia. subst i. eapply Inv_insert_merge_new; eauto.
Qed.

(* ---------- bulk load ---------- *)
Lemma Inv_single : forall (d : dynP) items,
  1 <= ceil_log2 (d_base d) -> 0 <= d_min_level d < d_min_index_level d -> d_min_index_level d <= 255 ->
  d_buffer_max d = buffer_sum (d_base d) (zseq 0 (Z.to_nat (d_min_level d + 1))) -> d_kmax d = kmax ->
  d_min_level d < d_used d <= 255 -> d_used d - d_min_level d <= zlen (d_levels d) ->
  zlen (d_pgms d) = Z.max 0 (d_used d - d_min_index_level d) ->
  level d (d_used d - 1) = Ok items ->
  (forall j l, j <> d_used d - 1 -> level d j = Ok l -> l = []) ->
  isrt items -> items <> [] -> (forall e, In e items -> it_key e < kmax) ->
  (d_used d - 1 = d_min_level d -> zlen items <= d_buffer_max d) ->
  (d_min_level d < d_used d - 1 -> zlen items <= dyn_max_size (d_base d) (d_used d - 1)) ->
  (d_min_index_level d <= d_used d - 1 -> exists p, pgm d (d_used d - 1) = Ok p /\ pg_build ops (keys_of items) = Ok p) ->
  (forall j p, j <> d_used d - 1 -> pgm d j = Ok p -> p = pg_empty ops) ->
  Inv d.
Proof.
  intros d items Hb Hml Hmil Hbm Hkm Hu Hlen Hpz Hit Hoth Hs Hne Hk Hsz1 Hsz2 Hidx Hpoth.
  assert (Hbm0 : 0 <= d_buffer_max d).
  { rewrite Hbm. apply buffer_sum_nonneg. apply Forall_forall. intros j Hj.
    apply zseq_in in Hj. destruct Hj; assumption. }
  assert (Hcase : forall j l, level d j = Ok l -> (j = d_used d - 1 /\ l = items) \/ (j <> d_used d - 1 /\ l = [])).
  { intros j l H. destruct (Z.eq_dec j (d_used d - 1)) as [->|Hj].
    - left. split; auto. congruence.
    - right. split; auto. eapply Hoth; eauto. }
  constructor; auto; try lia.
  constructor; try lia.
  - constructor.
    + intros i l H. apply Hcase in H. destruct H as [[_ ->]|[_ ->]]; [apply isrt_iff; auto|reflexivity].
    + intros l H. apply Hcase in H. destruct H as [[H1 ->]|[_ ->]]; [apply Hsz1; lia|cbn; lia].
    + intros i l Hi H. apply Hcase in H. destruct H as [[H1 ->]|[_ ->]].
      * subst i. apply Hsz2. lia.
      * cbn. pose proof (max_size_pos (d_base d) i). lia.
    + intros i l Hi H. apply Hcase in H. destruct H as [[H1 ->]|[_ ->]]; [lia|auto].
    + intros i l Hi H Hnil. apply Hcase in H. destruct H as [[H1 ->]|[_ ->]]; [|contradiction].
      subst i. apply Hidx. auto.
    + intros i l p H Hnil Hp. apply Hcase in H. destruct H as [[H1 H2]|[H1 _]].
      * rewrite Hnil in H2. symmetry in H2. contradiction.
      * eapply Hpoth; eauto.
  - intros i l e H Hin. rewrite Hkm. apply Hcase in H. destruct H as [[_ ->]|[_ ->]]; [auto|destruct Hin].
Qed.

Definition bulk_used (base bl n : Z) : Z :=
  wrapU 8 (Z.max (dyn_ceil_log_base base n) (dyn_min_level base bl) + 1).
Definition bulk_d1 (tomb : option Z) (base bl il n : Z) : dynP :=
  let ml := dyn_min_level base bl in
  let used := bulk_used base bl n in
  mkDyn base ml (dyn_min_index_level base ml il) (buffer_sum base (zseq 0 (Z.to_nat (ml + 1)))) used
        (repeat [] (Z.to_nat (wrapU 8 (Z.max used 32) - ml + 1))) [] tomb kmax.
Definition bulk_d3 (tomb : option Z) (d2 : dynP) (used : Z) : dynP :=
  mkDyn (d_base d2) (d_min_level d2) (d_min_index_level d2) (d_buffer_max d2) (d_used d2) (d_levels d2)
        (repeat (pg_empty ops) (Z.to_nat (used - d_min_index_level d2))) tomb kmax.

Inductive bulk_case (tomb : option Z) (pairs : list (Z * Z)) (base bl il : Z) (d : dynP) : Prop :=
| bc_nil : pairs = [] ->
    d = set_used (bulk_d1 tomb base bl il 0) (dyn_min_level base bl) -> bulk_case tomb pairs base bl il d
| bc_cons : forall k0 v0 tl rest d2,
    pairs = (k0, v0) :: tl -> dedup_sorted k0 tl = Ok rest ->
    let used := bulk_used base bl (zlen pairs) in
    let items := mkItem k0 (Some v0) :: rest in
    set_level (bulk_d1 tomb base bl il (zlen pairs)) (used - 1) items = Ok d2 ->
    (if has_pgm d2 (used - 1)
     then exists p, pg_build ops (map it_key items) = Ok p /\ set_pgm (bulk_d3 tomb d2 used) (used - 1) p = Ok d
     else d = d2) ->
    bulk_case tomb pairs base bl il d.

Lemma Ok_inj : forall A (a b : A), Ok a = Ok b -> a = b.
Proof. intros A a b H. congruence. Qed.

Lemma dyn_bulk_cases : forall tomb pairs base bl il d,
  dyn_bulk ops tomb kmax pairs base bl il = Ok d -> 2 <= base /\ bulk_case tomb pairs base bl il d.
Proof.
  intros tomb pairs base bl il d H. unfold dyn_bulk in H.
  destruct (dyn_ctor tomb kmax base bl il) as [d0|] eqn:E0; [|discriminate]. cbn [bind] in H.
  apply dyn_ctor_eq in E0. destruct E0 as [Hb E0]. cbv zeta in E0. subst d0.
  cbn [d_base d_min_level d_min_index_level d_buffer_max d_used d_levels d_pgms d_tomb d_kmax] in H.
  split; auto. destruct pairs as [|[k0 v0] tl].
  - apply bc_nil; auto. apply Ok_inj in H. subst d. reflexivity.
  - destruct (dedup_sorted k0 tl) as [rest|] eqn:Ed; cbn [bind] in H; [|discriminate].
    destruct (check_values tomb (mkItem k0 (Some v0) :: rest)); [discriminate|].
    destruct (set_level _ _ _) as [d2|] eqn:E2; [|discriminate]. cbn [bind] in H.
    eapply bc_cons with (rest := rest) (d2 := d2); [reflexivity|exact Ed|exact E2|].
    cbv zeta. unfold bulk_used, bulk_d3.
    match type of H with context [if ?c then _ else _] => destruct c eqn:Eh end.
    + destruct (pg_build ops (map it_key _)) as [p|] eqn:Ep; cbn [bind] in H; [|discriminate].
      exists p. split; auto.
    + apply Ok_inj in H. auto.
Qed.

Definition bulk_ok (base bl il : Z) (pairs : list (Z * Z)) : Prop :=
  ctor_ok base bl il /\ zlen pairs < 2 ^ 64.

Lemma bulk_params : forall base bl il n, 2 <= base -> ctor_ok base bl il -> 0 <= n < 2 ^ 64 ->
  let ml := dyn_min_level base bl in
  let mil := dyn_min_index_level base ml il in
  let used := bulk_used base bl n in
  1 <= ceil_log2 base /\ 0 <= ml <= 31 /\ ml < mil <= 255 /\
  used = Z.max (dyn_ceil_log_base base n) ml + 1 /\ ml < used <= 65 /\
  n <= dyn_max_size base (used - 1) /\
  wrapU 8 (Z.max used 32) - ml + 1 = Z.max used 32 - ml + 1.
Proof.
  intros base bl il n Hb [Hbl [Hil Hbase]] Hn. cbv zeta.
  assert (Hb2 : 2 <= base < 2 ^ 64) by lia.
  pose proof (min_level_range base bl Hb2 Hbl) as Hml.
  assert (Hml' : 0 <= dyn_min_level base bl <= 254) by lia.
  pose proof (min_index_level_range base _ il Hb2 Hml' Hil) as Hmil.
  destruct (ceil_log2_big base Hb2) as [_ Hbb].
  destruct (ceil_log_base_spec base n ltac:(lia) Hn) as [Hc1 Hc2].
  unfold bulk_used.
  rewrite (wrapU_small 8 (Z.max _ _ + 1)) by (change (2 ^ 8) with 256; lia).
  rewrite wrapU_small by (change (2 ^ 8) with 256; lia).
  csplit; try lia.
  replace (Z.max (dyn_ceil_log_base base n) (dyn_min_level base bl) + 1 - 1)
    with (Z.max (dyn_ceil_log_base base n) (dyn_min_level base bl)) by lia.
  eapply Z.le_trans; [exact Hc2|]. apply max_size_mono. lia.
Qed.

Lemma buffer_max_ge_last : forall base ml, 0 <= ml ->
  dyn_max_size base ml <= buffer_sum base (zseq 0 (Z.to_nat (ml + 1))).
Proof.
  intros base ml Hml. replace (Z.to_nat (ml + 1)) with (Z.to_nat ml + 1)%nat by lia.
  rewrite zseq_app, buffer_sum_app. cbn [zseq buffer_sum].
  replace (0 + Z.of_nat (Z.to_nat ml)) with ml by lia.
  assert (0 <= buffer_sum base (zseq 0 (Z.to_nat ml))).
  { apply buffer_sum_nonneg. apply Forall_forall. intros j Hj. apply zseq_in in Hj. lia. }
  lia.
Qed.

Theorem bulk_Inv : forall tomb pairs base bl il d, bulk_ok base bl il pairs ->
  Forall (fun p => fst p < kmax) pairs ->
  dyn_bulk ops tomb kmax pairs base bl il = Ok d -> Inv d.
Proof.
  intros tomb pairs base bl il d [Hcok Hn] Hkeys H.
  apply dyn_bulk_cases in H. destruct H as [Hb2 H].
  assert (Hn0 : 0 <= zlen pairs < 2 ^ 64) by (unfold zlen in *; lia).
  destruct H as [Hnil Hd | k0 v0 tl rest d2 Hp Hdd used items Hset Hfin].
  - subst pairs d.
    destruct (bulk_params base bl il 0 Hb2 Hcok ltac:(lia)) as [Hb [Hml [Hmil [Hu [Hur [_ Hnl]]]]]].
    unfold bulk_d1, set_used. cbn [d_base d_min_level d_min_index_level d_buffer_max d_levels d_pgms d_tomb d_kmax].
    apply Inv_empty; try lia.
  - destruct (bulk_params base bl il (zlen pairs) Hb2 Hcok Hn0) as [Hb [Hml [Hmil [Hu [Hur [Hcap Hnl]]]]]].
    fold used in Hu, Hur, Hcap, Hnl.
    apply dedup_sorted_spec in Hdd. destruct Hdd as [Hf [Hs [Hz [Hin Hall]]]].
    assert (Hsi : isrt items) by (subst items; cbn [isrt]; auto).
    assert (Hzi : zlen items <= zlen pairs).
    { subst items pairs. unfold zlen in *. cbn [length]. lia. }
    assert (Hki : forall e, In e items -> it_key e < kmax).
    { rewrite Forall_forall in Hkeys. intros e [<-|He].
      - apply (Hkeys (k0, v0)). subst pairs. left; auto.
      - destruct (Hin e He) as [v [H1 _]]. apply (Hkeys (it_key e, v)). subst pairs. right; auto. }
    apply set_level_spec in Hset.
    destruct Hset as [[Hc1 [Hc2 [Hc3 [Hc4 [Hc5 Hc6]]]]] [Hu2 [Hp2 [Hz2 [Hr2 [HL2 [Hlv2 Hpg2]]]]]]].
    unfold bulk_d1 in Hc1, Hc2, Hc3, Hc4, Hc5, Hc6, Hu2, Hp2, Hz2, Hr2.
    cbn [d_base d_min_level d_min_index_level d_buffer_max d_used d_levels d_pgms d_tomb d_kmax] in *.
    fold used in Hu2, Hz2, Hr2.
    assert (Hl1 : forall j l, level (bulk_d1 tomb base bl il (zlen pairs)) j = Ok l -> l = []).
    { intros j l Hl. unfold level, bulk_d1 in Hl. cbn in Hl. eapply nth_res_repeat; eauto. }
    assert (HzL : zlen (d_levels d2) = Z.max used 32 - dyn_min_level base bl + 1).
    { rewrite Hz2. unfold zlen. rewrite repeat_length. lia. }
    assert (Hbmge : zlen pairs <= dyn_max_size base (used - 1)) by auto.
    assert (Hne : items <> []) by (subst items; discriminate).
    assert (Hsz1 : used - 1 = dyn_min_level base bl -> zlen items <= buffer_sum base (zseq 0 (Z.to_nat (dyn_min_level base bl + 1)))).
    { intros E. pose proof (buffer_max_ge_last base (dyn_min_level base bl) ltac:(lia)). rewrite E in Hbmge. lia. }
    unfold has_pgm in Hfin. rewrite Hc3 in Hfin.
    destruct (used - 1 >=? dyn_min_index_level base (dyn_min_level base bl) il) eqn:Eh.
    + destruct Hfin as [p [Hbuild Hsp]]. apply set_pgm_spec in Hsp.
      destruct Hsp as [[Hd1 [Hd2 [Hd3 [Hd4 [Hd5 Hd6]]]]] [Hdu [HdL [Hdz [Hdr [Hdlv Hdpg]]]]]].
      unfold bulk_d3 in Hd1, Hd2, Hd3, Hd4, Hd5, Hd6, Hdu, HdL, Hdz, Hdr.
      cbn [d_base d_min_level d_min_index_level d_buffer_max d_used d_levels d_pgms d_tomb d_kmax] in *.
      assert (Hlvd : forall j, level d j = if j =? used - 1 then Ok items else level (bulk_d1 tomb base bl il (zlen pairs)) j).
      { intros j. rewrite Hdlv, <- Hlv2. unfold level, bulk_d3. reflexivity. }
      assert (Hzp : zlen (d_pgms d) = used - dyn_min_index_level base (dyn_min_level base bl) il).
      { rewrite Hdz. unfold zlen. rewrite repeat_length. rewrite Hc3. lia. }
      apply (Inv_single d items); rewrite ?Hd1, ?Hd2, ?Hd3, ?Hd4, ?Hd6, ?Hdu, ?Hc1, ?Hc2, ?Hc3, ?Hc4, ?Hu2; auto; try lia.
      * rewrite HdL. lia.
      * rewrite Hlvd, Z.eqb_refl. auto.
      * intros j l Hj Hl. rewrite Hlvd in Hl. destruct (j =? used - 1) eqn:E; [lia|]. eapply Hl1; eauto.
      * intros _. exists p. split; auto. rewrite Hdpg, Z.eqb_refl. auto.
      * intros j q Hj Hq. rewrite Hdpg in Hq. destruct (j =? used - 1) eqn:E; [lia|].
        unfold pgm, bulk_d3 in Hq. cbn in Hq. eapply nth_res_repeat; eauto.
    + subst d.
      apply (Inv_single d2 items); rewrite ?Hc1, ?Hc2, ?Hc3, ?Hc4, ?Hc6, ?Hu2; auto; try lia.
      * rewrite Hp2. cbn. lia.
      * rewrite Hlv2, Z.eqb_refl. auto.
      * intros j l Hj Hl. rewrite Hlv2 in Hl. destruct (j =? used - 1) eqn:E; [lia|]. eapply Hl1; eauto.
      * intros j q Hj Hq. rewrite Hpg2 in Hq. unfold pgm, bulk_d1 in Hq. cbn in Hq.
        rewrite nth_res_nil in Hq. discriminate.
Qed.

End InvSec.

(* ComposeEf.v — C10 end to end: EliasFanoPGMIndex::search satisfies the index contract (Floating = double).
   Route: the Elias-Fano predecessor structure (EfPred.ef_pred_spec) selects the same segment as the
   one-level PGMIndex; on that segment min(SegmentData::operator(), next intercept) equals
   min(Segment::operator(), next intercept) (ef_min_eq: same double product, the two saturation rules
   agree below the cap); hence ef_search = PGMIndex<K,Epsilon,0>::search (ef_search_eq_search) and the
   contract is ComposeIdx.search_contract_at_cap with FloatOkCap.float_ok_cap_double.
   Two structural facts of the one-level layout are proved here because the EF container needs them:
   the keys handed to sd_vector are STRICTLY increasing (also across the optional extra segment
   (last+1, 0, n): it is only added when the last real segment does not start at last+1), and every
   intercept fits the int32 field (zlen data + eps < 2^31). *)
Require Import Base Fp PlaModel PlaSpec PlaCert Greedy PlaComplete PlaSoundGeom PlaSoundInv PlaSound GenLeaf
  IndexModel IndexProofs MappedQueries IdxFed IdxSeg IdxBlock IdxLevel IdxSearch0 IdxRoute IdxChain IdxMain IdxFuel
  FloatOkLemmas FloatOk FloatOkFar FloatOkAll FloatOkCap VariantsModel EfPred ComposeIdx ComposeBuild CmpMono BucketTop ComposeBucket.
From Coq Require Import ZifyBool Reals Lra.
From Flocq Require Import Core BinarySingleNaN.
Local Open Scope Z_scope.

(* ================= 1. singleton blocks: the segment is the one-point rectangle ================= *)
Definition seg_rel3 (eps : Z) (c : cseg) (b : list (Z * Z)) : Prop :=
  seg_rel2 eps c b /\
  (zlen b = 1 -> one_point c = true /\ upper_of eps b (c_r0 c) /\ lower_of eps b (c_r1 c)).

Lemma R3_of_inv eps cur s :
  0 <= eps -> cur <> [] -> rect_inv eps cur s -> sinv eps cur s -> seg_rel3 eps (get_segment s) cur.
Proof.
  intros Heps Hne Hrect Hs. split; [apply R2_of_inv; assumption|].
  destruct Hrect as (_ & Hn & I1 & _). intros H1. rewrite <- Hn in H1.
  destruct (I1 ltac:(lia)) as (U0 & L1 & _).
  unfold get_segment. replace (p_n s =? 1) with true by lia.
  unfold one_point. cbn [c_r0 c_r1 c_r2 c_r3]. rewrite !pt_eqb_refl. cbn [andb]. tauto.
Qed.

Lemma P_R3 eps : 0 <= eps -> forall cur s,
  cur <> [] -> rect_inv eps cur s -> sinv eps cur s -> seg_rel3 eps (get_segment s) cur.
Proof. intros Heps cur s. apply R3_of_inv. exact Heps. Qed.
Lemma P_R3_reject eps : 0 <= eps -> forall cur s x y s',
  cur <> [] -> rect_inv eps cur s -> sinv eps cur s ->
  add_point y_size_t s x y = Ok (false, s') -> seg_rel3 eps (get_segment s') cur.
Proof.
  intros Heps cur s x y s' Hne Hr Hs H. rewrite (reject_same_segment s x y s' H).
  apply R3_of_inv; assumption.
Qed.

Theorem make_segmentation_par_blocks3 kt threshold par n eps data segs fed count :
  make_segmentation_par kt threshold par n eps data = Ok (segs, fed, count) ->
  1 <= par -> zlen data <= n -> n + eps < 2 ^ 64 - 1 ->
  exists g, concat g = fed /\ Forall (fun b => b <> []) g /\ Forall2 (seg_rel3 eps) segs g /\ 0 <= eps.
Proof.
  intros H Hpar Hd Hn. unfold make_segmentation_par in H.
  destruct ((par =? 1) || (n <? threshold)) eqn:Eseq.
  - unfold make_segmentation in H.
    pose proof (eps_nonneg_of_chunk _ _ _ _ _ _ _ H) as Heps.
    destruct (make_segmentation_chunk_greedy eps (feasible eps) (seg_rel3 eps) (sinv eps)
                (P_first eps Heps) (P_step eps Heps) (P_ok eps) (P_R3 eps Heps) (P_R3_reject eps Heps)
                kt n 0 data [] segs fed count H ltac:(lia) ltac:(lia) Hn) as (g & G1 & G2 & _ & G4 & G5).
    exists g. split; [exact G1|]. split; [|split; [exact G5|exact Heps]].
    eapply Forall_impl; [|exact G2]. cbn beta. intros b [Hb _]. exact Hb.
  - assert (Hz : zseq 0 (Z.to_nat par) = 0 :: zseq (0 + 1) (Z.to_nat par - 1)).
    { destruct (Z.to_nat par) as [|k] eqn:Ek; [lia|]. cbn [zseq]. f_equal. f_equal. lia. }
    assert (Heps : 0 <= eps).
    { rewrite Hz in H. exact (par_chunks_eps_nonneg _ _ _ _ _ _ _ _ H). }
    pose proof (zlen_ge0 data) as Hd0.
    assert (Hn0 : 0 <= n) by lia.
    assert (Hcs : 0 <= Z.quot n par) by (apply Z.quot_pos; lia).
    assert (Hmul : par * Z.quot n par <= n) by (apply Z.mul_quot_le; lia).
    destruct (par_chunks_greedy eps (feasible eps) (seg_rel3 eps) (sinv eps)
                (P_first eps Heps) (P_step eps Heps) (P_ok eps) (P_R3 eps Heps) (P_R3_reject eps Heps)
                kt n (Z.quot n par) par data (zseq 0 (Z.to_nat par)) segs fed count H Hcs Hn)
      as (chunks & gs & C1 & C2 & C3 & C4 & C5).
    { eapply Forall_impl; [|exact (zseq_range (Z.to_nat par) 0)].
      intros i Hi. cbn beta in Hi. split; [lia|].
      assert ((i + 1) * Z.quot n par <= par * Z.quot n par).
      { apply Z.mul_le_mono_nonneg_r; lia. }
      lia. }
    destruct (chunk_shape_concat eps chunks gs C2) as [D1 D2].
    exists (concat gs). split; [rewrite D1; exact C1|].
    split; [|split; [exact C5|exact Heps]].
    eapply Forall_impl; [|exact D2]. cbn beta. intros b [Hb _]. exact Hb.
Qed.

Lemma incr_same_x l p q : incr l -> In p l -> In q l -> fst p = fst q -> p = q.
Proof.
  induction l as [|a t IH]; intros Hi Hp Hq E; [contradiction|].
  cbn [incr] in Hi. destruct Hi as [Hf Hi]. rewrite Forall_forall in Hf.
  destruct Hp as [<-|Hp]; destruct Hq as [<-|Hq]; [reflexivity| | |apply IH; assumption].
  - destruct (Hf q Hq). lia.
  - destruct (Hf p Hp). lia.
Qed.

Lemma Forall2_last_split {A B} (P : A -> B -> Prop) l1 l2 : Forall2 P l1 l2 -> l2 <> [] ->
  exists l1' a l2' b, l1 = l1' ++ [a] /\ l2 = l2' ++ [b] /\ P a b /\ Forall2 P l1' l2'.
Proof.
  intros H Hne. destruct (exists_last Hne) as (l2' & b & ->).
  apply Forall2_app_inv_r in H. destruct H as (l1' & la & H1 & H2 & ->).
  inversion H2 as [|a b' la' lb' Pab Hn]; subst. inversion Hn; subst.
  exists l1', a, l2', b. auto.
Qed.

(* a block that starts at the largest fed abscissa is the closing point alone *)
Lemma block_at_max (fed : list (Z * Z)) g' b X Y :
  incr fed -> concat (g' ++ [b]) = fed -> b <> [] -> fst (hd (0, 0) b) = X ->
  (forall p, In p fed -> fst p <= X) -> In (X, Y) fed -> b = [(X, Y)].
Proof.
  intros Hi Hcat Hb Hx Hmax Hin. destruct b as [|p [|q t]]; [contradiction| |].
  - cbn [hd] in Hx. f_equal. apply (incr_same_x fed); [exact Hi | | exact Hin | exact Hx].
    rewrite <- Hcat, concat_app. apply in_or_app. right. cbn. left. reflexivity.
  - exfalso. cbn [hd] in Hx. assert (Hib : incr (p :: q :: t)).
    { rewrite <- Hcat, concat_app in Hi. apply incr_app in Hi. destruct Hi as (_ & Hi & _).
      cbn [concat] in Hi. rewrite app_nil_r in Hi. exact Hi. }
    cbn [incr] in Hib. destruct Hib as [Hf _]. apply Forall_inv in Hf. destruct Hf as [Hf _].
    assert (Hq : In q fed).
    { rewrite <- Hcat, concat_app. apply in_or_app. right. cbn. right. left. reflexivity. }
    specialize (Hmax q Hq). lia.
Qed.

Lemma last_seg_closing c eps keys css fed cnt new :
  make_segmentation_par (c_kt c) par_threshold (c_par c) (zlen keys) eps keys = Ok (css, fed, cnt) ->
  map_res (segment_of_cseg c) css = Ok new ->
  1 <= c_par c -> keys <> [] -> sortedb keys = true -> nowrap (c_kt c) keys -> zlen keys + eps < 2 ^ 64 - 1 ->
  new <> [] -> sg_key (last new dseg) = last keys 0 + 1 ->
  sg_slope (last new dseg) = f64_zero /\ zlen keys <= sg_icpt (last new dseg).
Proof.
  intros M1 M2 Hpar Hne Hs Hw Hn Hnn Hk.
  destruct (make_segmentation_par_blocks3 _ _ _ _ _ _ _ _ _ M1 Hpar ltac:(lia) Hn) as (g & G1 & G2 & G3 & Heps).
  rewrite (make_segmentation_par_fed _ _ _ _ _ _ _ _ M1 Hpar) in G1.
  pose proof (map_res_Forall2 _ _ _ M2) as F2.
  destruct (Forall2_last_split _ _ _ F2 Hnn) as (css' & cs & new' & s & -> & -> & Hso & _).
  rewrite last_last in *.
  apply Forall2_app_inv_l in G3. destruct G3 as (g' & gb & _ & G3 & ->).
  inversion G3 as [|cs0 b l0 l1 R3 Hnil]; subst. inversion Hnil; subst.
  destruct R3 as [[(Hf & _) _] H1].
  destruct (seg_of_cseg_spec c cs s Hso) as (Ek & Ei & _).
  assert (Hb : b <> []).
  { rewrite Forall_forall in G2. apply G2. apply in_or_app. right. left. reflexivity. }
  pose proof (fed_spec_incr (c_kt c) keys Hne Hs Hw) as Hi.
  assert (Eb : b = [(last keys 0 + 1, zlen keys)]).
  { apply (block_at_max (fed_spec (c_kt c) keys) g'); try assumption.
    - rewrite <- Hf, <- Ek. exact Hk.
    - intros p Hp. apply (fed_spec_x_le (c_kt c) keys p Hne Hs Hw Hp).
    - apply spec_closing; assumption. }
  subst b. destruct (H1 eq_refl) as (Hop & (y0 & [E0|[]] & U0) & (y1 & [E1|[]] & L1)).
  injection E0 as _ <-. injection E1 as _ <-.
  pose proof (seg_of_slope c cs s Hso) as Hsl. rewrite Hop in Hsl. split; [exact Hsl|].
  rewrite Ei. unfold cseg_line. rewrite Hop. cbn [snd]. rewrite U0, L1.
  pose proof (zlen_ge0 keys) as Hn0.
  unfold band_hi, band_lo, band, y_size_t. cbn [fst snd ymin ymax].
  destruct (zlen keys >=? 2 ^ 64 - 1 - eps) eqn:E1; [lia|].
  destruct (zlen keys <=? 0 + eps) eqn:E2; apply Z.quot_le_lower_bound; lia.
Qed.

(* ================= 2. SegmentData::operator() against Segment::operator() (Floating = double) ================= *)
Lemma wrapS32_small z : - 2 ^ 31 <= z < 2 ^ 31 -> wrapS 32 z = z.
Proof. intros H. unfold wrapS. rewrite Z.mod_small by lia. lia. Qed.
Lemma wrapS64_small z : - 2 ^ 63 <= z < 2 ^ 63 -> wrapS 64 z = z.
Proof. intros H. unfold wrapS. rewrite Z.mod_small by lia. lia. Qed.
Lemma wrapU64_small z : 0 <= z < 2 ^ 64 -> wrapU 64 z = z.
Proof. intros H. unfold wrapU. apply Z.mod_small. lia. Qed.

Lemma ef_key_diff c k key : ksigned (c_kt c) = false ->
  (if kbits (c_kt c) >=? 32 then wrapK (c_kt c) (k - key) else k - key) = key_diff c k key.
Proof. intros Hu. unfold key_diff, wrapK. rewrite Hu. cbn [andb negb]. destruct (kbits (c_kt c) >=? 32); reflexivity. Qed.

Lemma ef_min_eq c s k cap :
  c_fdouble c = true -> ksigned (c_kt c) = false ->
  is_finite (sg_slope s) = true -> (0 <= B2R (sg_slope s))%R ->
  0 <= sg_icpt s < 2 ^ 31 -> 0 <= cap < 2 ^ 62 ->
  0 <= key_diff c k (sg_key s) <= 2 ^ 64 ->
  Z.min (efseg_eval c (mkEfseg (sg_slope s) (wrapS 32 (sg_icpt s))) (sg_key s) k) cap
  = Z.min (seg_eval c s k) cap.
Proof.
  intros Hf Hu Fs Ps Hi Hc Hd. unfold efseg_eval, seg_eval. rewrite Hf. cbv zeta. cbn [es_slope es_icpt].
  rewrite (ef_key_diff c k (sg_key s) Hu). set (D := key_diff c k (sg_key s)) in *.
  rewrite (wrapS32_small (sg_icpt s)) by lia.
  destruct (ofZ_fin 53 1024 p53 e53 D ltac:(lia) Hd) as [RD FD]. fold (ofZ64 D) in RD, FD.
  assert (PD : (0 <= B2R (ofZ64 D))%R).
  { rewrite RD. apply (RN_ge_0 53 1024 p53). apply IZR_le. lia. }
  destruct (mult_cases 53 1024 p53 e53 (sg_slope s) (ofZ64 D) Fs FD) as [E|[_ E]];
    fold (mul64 (sg_slope s) (ofZ64 D)) in E.
  - rewrite E. reflexivity.
  - set (p := mul64 (sg_slope s) (ofZ64 D)) in *.
    assert (Z0 : 0 <= Ztrunc (RN 53 1024 (B2R (sg_slope s) * B2R (ofZ64 D)))).
    { apply Ztrunc_nonneg. apply (RN_ge_0 53 1024 p53). nra. }
    set (z := Ztrunc (RN 53 1024 (B2R (sg_slope s) * B2R (ofZ64 D)))) in *.
    rewrite E. unfold double_to_size_t, cvtt_u64_avx512, cvtt_i64. rewrite E.
    destruct (z >=? 2 ^ 63) eqn:G63.
    + replace (z >=? 2 ^ 62) with true by lia. reflexivity.
    + destruct (z >=? 2 ^ 62) eqn:G62.
      * assert (Hv : wrapU 64 ((if c_avx512 c then if (0 <=? z) && (z <? 2 ^ 64) then z else 2 ^ 64 - 1
                       else if z <? 2 ^ 63 then wrapU 64 (if - 2 ^ 63 <=? z then z else - 2 ^ 63)
                            else if z <? 2 ^ 64 then z else 0) + sg_icpt s) = z + sg_icpt s).
        { destruct (c_avx512 c).
          - replace ((0 <=? z) && (z <? 2 ^ 64)) with true by lia. apply wrapU64_small. lia.
          - replace (z <? 2 ^ 63) with true by lia. replace (- 2 ^ 63 <=? z) with true by lia.
            rewrite (wrapU64_small z) by lia. apply wrapU64_small. lia. }
        rewrite Hv. lia.
      * replace ((- 2 ^ 63 <=? z) && (z <? 2 ^ 63)) with true by lia.
        rewrite wrapS64_small by lia.
        assert (Hv : wrapU 64 ((if c_avx512 c then if (0 <=? z) && (z <? 2 ^ 64) then z else 2 ^ 64 - 1
                       else if z <? 2 ^ 63 then wrapU 64 (if - 2 ^ 63 <=? z then z else - 2 ^ 63)
                            else if z <? 2 ^ 64 then z else 0) + sg_icpt s) = z + sg_icpt s).
        { destruct (c_avx512 c).
          - replace ((0 <=? z) && (z <? 2 ^ 64)) with true by lia. apply wrapU64_small. lia.
          - replace (z <? 2 ^ 63) with true by lia. replace (- 2 ^ 63 <=? z) with true by lia.
            rewrite (wrapU64_small z) by lia. apply wrapU64_small. lia. }
        rewrite Hv. destruct (z + sg_icpt s >? 0) eqn:G0; lia.
Qed.

(* ================= 3. the one-level layout, with what the EF container needs ================= *)
Lemma ssortedb_app_single l y : ssortedb l = true -> (forall x, In x l -> x < y) -> ssortedb (l ++ [y]) = true.
Proof.
  induction l as [|a t IH]; intros Hs H; [reflexivity|].
  destruct (ssortedb_inv a t Hs) as [H1 H2]. cbn [app]. apply ssortedb_cons_intro.
  - intros z Hz. apply in_app_or in Hz. destruct Hz as [Hz|[<-|[]]]; [apply H1; exact Hz | apply H; left; reflexivity].
  - apply IH; [exact H2|]. intros x Hx. apply H. right. exact Hx.
Qed.

Lemma ssortedb_removelast l : ssortedb l = true -> ssortedb (removelast l) = true.
Proof. intros H. rewrite <- firstn_removelast. apply ssortedb_firstn. exact H. Qed.

Lemma Forall2_and_r {A B} (P : A -> B -> Prop) (R : B -> Prop) l l' :
  Forall2 P l l' -> Forall R l' -> Forall2 (fun a b => P a b /\ R b) l l'.
Proof. induction 1; intros HR; inversion HR; subst; constructor; auto. Qed.

Lemma Forall2_transfer {A B C} (P : A -> B -> Prop) (S : A -> C -> Prop) (Q : C -> Prop) l :
  (forall a b s, P a b -> S a s -> Q s) -> forall g new, Forall2 P l g -> Forall2 S l new -> Forall Q new.
Proof.
  intros H. induction l as [|a l IH]; intros g new H1 H2; inversion H1; inversion H2; subst; constructor; eauto.
Qed.

(* what the EF container needs to know about one stored segment *)
Definition seg_fine (c : cfg) (B : Z) (s : segment) : Prop :=
  0 <= sg_icpt s <= B /\ is_finite (sg_slope s) = true /\ (0 <= B2R (sg_slope s))%R /\
  kmin (c_kt c) <= sg_key s <= kmax (c_kt c).

Lemma real_seg_fine c eps n cs b s :
  1 <= kbits (c_kt c) -> kbits (c_kt c) <= 64 -> 0 <= eps ->
  seg_rel2 eps cs b -> line_ok eps cs b -> pts_ok (c_kt c) eps b -> Forall (fun p => snd p <= n) b ->
  seg_of c cs s -> seg_fine c (n + eps) s.
Proof.
  intros Hb H64 He Hrel Hlo Hp Hr Hso.
  destruct (line_ok_close c eps cs b s Hlo Hso) as (Hdx & Hdy & Hk0 & Hcl). fold (slope_of cs) in Hdx, Hdy, Hcl.
  destruct (seg_of_cseg_spec c cs s Hso) as (Ekey & _ & Hicpt).
  pose proof Hlo as (Hbne & _). pose proof (hd_In_ne b Hbne) as Hin.
  unfold pts_ok in Hp. rewrite Forall_forall in Hp, Hr, Hcl.
  destruct (hd (0, 0) b) as [x y] eqn:Eh. cbn [fst] in Hk0.
  pose proof (Hcl _ Hin) as Hc. rewrite Hk0 in Hc. apply close_at_first in Hc; [|exact Hdx].
  pose proof (Hr _ Hin) as Hy. pose proof (Hp _ Hin) as (Hx & _). cbn [fst snd] in *.
  split; [lia|]. split; [|split; [|lia]].
  - rewrite (seg_of_slope c cs s Hso). destruct (one_point cs) eqn:Hop; [reflexivity|].
    destruct (slope_bounds c eps cs b Hb He Hrel ltac:(apply Forall_forall; exact Hp) Hop) as [Bx By].
    assert (P64 : 2 ^ kbits (c_kt c) <= 2 ^ 64) by (apply Z.pow_le_mono_r; lia).
    rewrite (surjective_pairing (slope_of cs)).
    destruct (slope_R c (fst (slope_of cs)) (snd (slope_of cs)) ltac:(lia) ltac:(lia)) as (F & _). exact F.
  - rewrite (seg_of_slope c cs s Hso). destruct (one_point cs) eqn:Hop; [cbn; lra|].
    destruct (slope_bounds c eps cs b Hb He Hrel ltac:(apply Forall_forall; exact Hp) Hop) as [Bx By].
    assert (P64 : 2 ^ kbits (c_kt c) <= 2 ^ 64) by (apply Z.pow_le_mono_r; lia).
    rewrite (surjective_pairing (slope_of cs)).
    destruct (slope_R c (fst (slope_of cs)) (snd (slope_of cs)) ltac:(lia) ltac:(lia)) as (_ & [P0 _] & _). exact P0.
Qed.

Lemma seg_eval_zero c s k : std_width c -> sg_slope s = f64_zero -> 0 <= sg_icpt s < 2 ^ 32 ->
  Z.abs (k - sg_key s) <= 2 ^ 64 -> seg_eval c s k = sg_icpt s.
Proof.
  intros W Hs Hi Hk. apply eval_flat. apply eval_ok_zero_bounded; [exact Hs | exact Hi|].
  apply key_diff_bounded; assumption.
Qed.

Lemma wrapK_range kt z : 1 <= kbits kt -> kmin kt <= wrapK kt z <= kmax kt.
Proof.
  intros Hb. assert (Hp : 2 ^ kbits kt = 2 * 2 ^ (kbits kt - 1)).
  { replace (kbits kt) with (1 + (kbits kt - 1)) at 1 by lia. rewrite Z.pow_add_r by lia. reflexivity. }
  assert (0 < 2 ^ (kbits kt - 1)) by (apply Z.pow_pos_nonneg; lia).
  unfold wrapK, wrapS, wrapU, kmin, kmax. destruct (ksigned kt).
  - pose proof (Z.mod_pos_bound (z + 2 ^ (kbits kt - 1)) (2 ^ kbits kt) ltac:(lia)). lia.
  - pose proof (Z.mod_pos_bound z (2 ^ kbits kt) ltac:(lia)). lia.
Qed.

Record ef_layout_facts (c : cfg) (data : list Z) (L : list segment) : Prop := mkEfLayout {
  el_len : 2 <= zlen L;
  el_strict : ssortedb (map sg_key (removelast L)) = true;
  el_sorted : sortedb (map sg_key L) = true;
  el_hd : sg_key (hd dseg L) = hd 0 data;
  el_last : sg_key (last L dseg) = sentinel c;
  el_fine : Forall (seg_fine c (zlen data + c_eps c)) L
}.

(* the extra segment (last+1, 0, n) is never added behind a real segment that starts at last+1 *)
Lemma extra_not_at_closing c data css fed cnt new :
  std_width c -> 1 <= c_par c -> data_ok c data -> zlen data + c_eps c < 2 ^ 32 ->
  make_segmentation_par (c_kt c) par_threshold (c_par c) (zlen data) (c_eps c) data = Ok (css, fed, cnt) ->
  map_res (segment_of_cseg c) css = Ok new -> new <> [] ->
  seg_fine c (zlen data + c_eps c) (last new dseg) ->
  extra_test c (zlen data) (last new dseg) = true -> sg_key (last new dseg) <> last_z data + 1.
Proof.
  intros W Hpar [Hne Hs Hkt Hlast Hn32] Hsm M1 M2 Hnn (Hi & _ & _ & Hk) Ht Heq.
  destruct (std_width_bits c W) as [Hbits H64].
  pose proof (nowrap_data c data Hbits Hne Hs Hkt Hlast) as Hw.
  destruct (last_seg_closing c (c_eps c) data css fed cnt new M1 M2 Hpar Hne Hs Hw ltac:(lia) Hnn Heq) as [Hz Hge].
  unfold extra_test in Ht.
  pose proof (wrapK_range (c_kt c) (sentinel c - 1) Hbits) as Hr. pose proof (kspan (c_kt c) Hbits) as Hsp.
  rewrite (seg_eval_zero c (last new dseg) (wrapK (c_kt c) (sentinel c - 1)) W Hz ltac:(lia) ltac:(lia)) in Ht. lia.
Qed.

Lemma Forall2_weaken {A B} (P Q : A -> B -> Prop) l l' : (forall a b, P a b -> Q a b) -> Forall2 P l l' -> Forall2 Q l l'.
Proof. intros H. induction 1; constructor; auto. Qed.

Lemma map_removelast_key (l : list segment) : map sg_key (removelast l) = removelast (map sg_key l).
Proof. induction l as [|a [|b t] IH]; [reflexivity|reflexivity|]. cbn [removelast map] in *. rewrite IH. reflexivity. Qed.

Lemma flat_seg_fine c B key icpt : 1 <= kbits (c_kt c) -> 0 <= icpt <= B ->
  kmin (c_kt c) <= key <= kmax (c_kt c) -> seg_fine c B (mkSeg key f64_zero icpt).
Proof. intros Hb Hi Hk. unfold seg_fine. cbn. repeat split; try lia; lra. Qed.

Theorem ef_layout c data ix :
  std_width c -> c_epsrec c = 0 -> 1 <= c_par c -> 1 <= c_eps c -> data_ok c data ->
  zlen data + c_eps c < 2 ^ 32 -> build c data = Ok ix ->
  exists L, ix = mkIndex (zlen data) (hd 0 data) L [0; zlen L] /\ ef_layout_facts c data L.
Proof.
  intros W Hrec Hpar Heps Hd Hsm Hb. pose proof Hd as [Hne Hs Hkt Hlast Hn32].
  destruct (std_width_bits c W) as [Hbits H64p].
  assert (H64 : kbits (c_kt c) <= 64) by (destruct W as [E|[E|[E|E]]]; rewrite E; lia).
  destruct (index0_keys c data ix Hbits Hrec Hpar Hd ltac:(lia) Hb) as (L & Eix & Hsorted & Hhd & Hlk & Hlen).
  exists L. split; [exact Eix|].
  destruct (build0_shape c data ix Hrec Hne Hb) as (segs & ln & E2 & Eix' & Hls).
  rewrite Eix in Eix'. injection Eix' as EL _.
  destruct (build_level_shape _ _ _ _ _ _ _ _ E2) as (css & fed & cnt & new & T & M1 & M2 & Es & HT).
  cbn [app] in Es, HT. rewrite <- EL in Es. clear EL segs E2.
  pose proof (data_key_ok c data Hs Hkt Hlast) as Hko.
  pose proof (key_ok_nowrap _ _ Hbits Hko) as Hw.
  destruct (level_blocks_full _ _ _ _ _ _ _ _ M1 Hbits Hpar Hne Hs Hko ltac:(lia)) as (g & Hcat & He & _ & F).
  pose proof (map_res_Forall2 _ _ _ M2) as F2.
  set (n := zlen data) in *. set (eps := c_eps c) in *.
  assert (Hrk : Forall (Forall (fun p : Z * Z => snd p <= n)) g).
  { apply Forall_concat_blocks. rewrite Hcat. apply Forall_forall. intros p Hp.
    apply (spec_only (c_kt c) data Hne Hs Hw) in Hp. apply fed_kind_rank in Hp. fold n in Hp. lia. }
  assert (Hfn : Forall (seg_fine c (n + eps)) new).
  { refine (Forall2_transfer _ (seg_of c) _ css _ g new (Forall2_and_r _ _ _ _ F Hrk) F2).
    intros cs b s [(R1 & R2 & R3) R4] Hso. exact (real_seg_fine c eps n cs b s Hbits H64 He R1 R2 R3 R4 Hso). }
  assert (HL : Lv c eps (fun _ _ _ => True) css g new).
  { apply Lv_of_Forall2; [|exact F2|exact (EvL_all _ css new (fun _ _ _ => I) F2)].
    eapply Forall2_weaken; [|exact F]. cbn beta. tauto. }
  destruct (Lv_keys _ _ _ _ _ _ HL) as [Hk Hgne].
  pose proof (fed_spec_incr (c_kt c) data Hne Hs Hw) as Hi. rewrite <- Hcat in Hi.
  assert (Hss : ssortedb (map sg_key new) = true) by (rewrite Hk; apply bkeys_ssorted; assumption).
  destruct (Lv_first_key c eps _ (c_kt c) data css g new Hne Hcat HL) as [Hnn _].
  pose proof (kspan (c_kt c) Hbits) as Hsp.
  assert (P0 : 0 < 2 ^ kbits (c_kt c)) by (apply Z.pow_pos_nonneg; lia).
  pose proof (zlen_ge0 data) as Hn0. fold n in Hn0.
  assert (Hsent : seg_fine c (n + eps) (sent_seg c n)).
  { apply flat_seg_fine; [exact Hbits | rewrite wrapU32_small by lia; lia | unfold sentinel; lia]. }
  assert (Hext : seg_fine c (n + eps) (extra_seg c (last_z data) n)).
  { apply flat_seg_fine; [exact Hbits | rewrite wrapU32_small by lia; lia | apply wrapK_range; exact Hbits]. }
  assert (Hfine : Forall (seg_fine c (n + eps)) L).
  { rewrite Es. apply Forall_app. split; [exact Hfn|].
    destruct HT as [(-> & _)|(_ & _ & X & -> & [->|[-> _]])]; cbn [app]; repeat (apply Forall_cons; [assumption|]); apply Forall_nil. }
  constructor; try assumption. rewrite Es.
  destruct HT as [(-> & _)|(Hns & _ & X & -> & [->|[-> Htest]])].
  - rewrite app_nil_r, map_removelast_key. apply ssortedb_removelast. exact Hss.
  - cbn [app]. rewrite removelast_last. exact Hss.
  - rewrite removelast_app by discriminate. cbn [app removelast]. rewrite map_app. cbn [map extra_seg sg_key].
    rewrite (wrap_last c data Hbits Hne Hs Hkt Hlast).
    apply ssortedb_app_single; [exact Hss|]. intros x Hx.
    pose proof (IdxChain.sorted_le_last _ x 0 (ssortedb_sorted _ Hss) Hx) as Hle.
    rewrite (last_map_key new Hnn) in Hle.
    assert (Hfl : Forall (seg_fine c (n + eps)) new) by exact Hfn. rewrite Forall_forall in Hfl.
    assert (Hlin : In (last new dseg) new).
    { destruct (exists_last Hnn) as (l' & a & ->). rewrite last_last. apply in_or_app. right. left. reflexivity. }
    pose proof (extra_not_at_closing c data css fed cnt new W Hpar Hd Hsm M1 M2 Hnn (Hfl _ Hlin) Htest) as Hneq.
    assert (Hkl : In (sg_key (last new dseg)) (bkeys g)) by (rewrite <- Hk; apply in_map; exact Hlin).
    destruct (bkeys_In g _ Hgne Hkl) as (y & Hy). rewrite Hcat in Hy.
    pose proof (fed_spec_x_le (c_kt c) data _ Hne Hs Hw Hy) as Hxl. cbn [fst] in Hxl.
    unfold last_z in *. lia.
Qed.

(* ================= 4. the segment found by pred ================= *)
Lemma ub_shift l f k : ub (map (fun x => x - f) l) (k - f) = ub l k.
Proof.
  induction l as [|x t IH]; [reflexivity|]. cbn [map ub]. rewrite IH.
  destruct (x <=? k) eqn:E1; destruct (x - f <=? k - f) eqn:E2; lia.
Qed.

Lemma ub_app_last l z k : k < z -> ub (l ++ [z]) k = ub l k.
Proof.
  intros H. induction l as [|x t IH]; cbn [app ub].
  - replace (z <=? k) with false by lia. reflexivity.
  - rewrite IH. reflexivity.
Qed.

Lemma nth_res_map {A B} (f : A -> B) (l : list A) i d : 0 <= i < zlen l ->
  nth_res (map f l) i = Ok (f (nth (Z.to_nat i) l d)).
Proof.
  intros Hi. rewrite (nth_res_ok (map f l) i (f d)) by (rewrite zlen_map; exact Hi).
  rewrite map_nth. reflexivity.
Qed.

Lemma sorted_hd_le_nth (l : list Z) i : sortedb l = true -> 0 <= i < zlen l -> hd 0 l <= nth (Z.to_nat i) l 0.
Proof.
  intros Hs Hi. destruct l as [|x t]; [unfold zlen in Hi; cbn in Hi; lia|]. cbn [hd].
  change x with (nth (Z.to_nat 0) (x :: t) 0) at 1. apply sorted_nth_mono; [exact Hs | lia | lia].
Qed.

(* the stored values: segment keys rebased to the first key, without wrap *)
Lemma rebased_eq kt (L : list segment) first :
  ksigned kt = false -> 1 <= kbits kt -> 0 <= first ->
  Forall (fun s => first <= sg_key s <= kmax kt) L ->
  map (fun s => wrapK kt (sg_key s - first)) L = map (fun x => x - first) (map sg_key L).
Proof.
  intros Hu Hb Hf H. rewrite map_map. apply map_ext_in. intros s Hs. rewrite Forall_forall in H.
  specialize (H s Hs). unfold wrapK, kmax in *. rewrite Hu in *. unfold wrapU. apply Z.mod_small. lia.
Qed.

Lemma ssortedb_shift l f : ssortedb (map (fun x => x - f) l) = ssortedb l.
Proof.
  induction l as [|a [|b t] IH]; [reflexivity|reflexivity|].
  change (ssortedb (map (fun x => x - f) (a :: b :: t))) with ((a - f <? b - f) && ssortedb (map (fun x => x - f) (b :: t))).
  rewrite IH. change (ssortedb (a :: b :: t)) with ((a <? b) && ssortedb (b :: t)).
  destruct (a <? b) eqn:E1; destruct (a - f <? b - f) eqn:E2; try reflexivity; lia.
Qed.

(* ================= 5. ef_search = PGMIndex<K,Epsilon,0>::search on the same segments ================= *)
Definition einner (c : cfg) : cfg := mkCfg (c_kt c) (c_eps c) 0 (c_fdouble c) (c_par c) (c_avx512 c).
Definition ef_seg (s : segment) : efseg := mkEfseg (sg_slope s) (wrapS 32 (sg_icpt s)).
Definition ef_rebase (c : cfg) (first : Z) (s : segment) : Z := wrapK (c_kt c) (sg_key s - first).

Lemma ef_index_build_inv c wl data x : data <> [] -> ef_index_build c wl data = Ok x ->
  exists ix, build (einner c) data = Ok ix /\
    x = mkEfindex (zlen data) (hd 0 data) (map ef_seg (ix_segments ix))
          (ef_build wl (map (ef_rebase c (hd 0 data)) (removelast (ix_segments ix)))).
Proof.
  intros Hne H. unfold ef_index_build in H.
  assert (Hn : zlen data <> 0) by (destruct data; [contradiction|]; rewrite zlen_cons; pose proof (zlen_ge0 data); lia).
  replace (zlen data =? 0) with false in H by lia. fold (einner c) in H.
  destruct (build (einner c) data) as [ix|e] eqn:E1; cbn [bind] in H; [|discriminate].
  injection H as <-. exists ix. split; reflexivity.
Qed.

Lemma removelast_app_last (L : list segment) : L <> [] -> L = removelast L ++ [last L dseg].
Proof. intros H. apply app_removelast_last. exact H. Qed.

Lemma zlen_removelast (L : list segment) : L <> [] -> zlen (removelast L) = zlen L - 1.
Proof.
  intros H. rewrite (removelast_app_last L H) at 2. rewrite zlen_app. change (zlen [last L dseg]) with 1. lia.
Qed.

Lemma nth_removelast (L : list segment) J : L <> [] -> 0 <= J < zlen L - 1 ->
  nth (Z.to_nat J) (removelast L) dseg = nth (Z.to_nat J) L dseg.
Proof.
  intros H HJ. rewrite (removelast_app_last L H) at 2. rewrite app_nth1; [reflexivity|].
  pose proof (zlen_removelast L H). unfold zlen in *. lia.
Qed.

Lemma nth_map_removelast {B} (f : segment -> B) (L : list segment) J d : L <> [] -> 0 <= J < zlen L - 1 ->
  nth (Z.to_nat J) (map f (removelast L)) d = f (nth (Z.to_nat J) L dseg).
Proof.
  intros H HJ. rewrite <- (nth_removelast L J H HJ).
  rewrite (nth_indep _ d (f dseg)); [apply map_nth|].
  rewrite map_length. pose proof (zlen_removelast L H). unfold zlen in *. lia.
Qed.

Lemma nth_In_Z (L : list segment) J : 0 <= J < zlen L -> In (nth (Z.to_nat J) L dseg) L.
Proof. intros H. apply nth_In. unfold zlen in H. lia. Qed.

Lemma ef_pred_segment c wl data L k :
  ksigned (c_kt c) = false -> 1 <= kbits (c_kt c) -> 0 <= wl ->
  ef_layout_facts (einner c) data L -> zlen L < 2 ^ 62 -> 0 <= hd 0 data ->
  hd 0 data <= k < sentinel c ->
  let J := ub (map sg_key L) k - 1 in
  ef_pred (ef_build wl (map (ef_rebase c (hd 0 data)) (removelast L))) (wrapK (c_kt c) (k - hd 0 data))
    = Ok (J, sg_key (nth (Z.to_nat J) L dseg) - hd 0 data) /\
  0 <= J /\ J + 1 < zlen L /\ sg_key (nth (Z.to_nat J) L dseg) <= k.
Proof.
  intros Hu Hb Hwl [Hlen Hstrict Hsorted Hhd Hlast Hfine] H62 Hf0 Hk J. set (first := hd 0 data) in *.
  assert (HLne : L <> []) by (intros ->; unfold zlen in Hlen; cbn in Hlen; lia).
  pose proof (zlen_removelast L HLne) as Hzr.
  assert (Hkm : sentinel c = 2 ^ kbits (c_kt c) - 1) by (unfold sentinel, kmax; rewrite Hu; reflexivity).
  assert (Hwk : wrapK (c_kt c) (k - first) = k - first).
  { unfold wrapK. rewrite Hu. unfold wrapU. apply Z.mod_small. lia. }
  assert (Hzm : zlen (map sg_key L) = zlen L) by apply zlen_map.
  assert (Hkeys : Forall (fun s => first <= sg_key s <= kmax (c_kt c)) L).
  { apply Forall_forall. intros s Hs. rewrite Forall_forall in Hfine. destruct (Hfine s Hs) as (_ & _ & _ & Hr).
    cbn [einner c_kt] in Hr. split; [|lia].
    destruct (In_nth L s dseg Hs) as (i & Hi & <-).
    pose proof (sorted_hd_le_nth (map sg_key L) (Z.of_nat i) Hsorted ltac:(rewrite Hzm; unfold zlen; lia)) as Hle.
    rewrite Nat2Z.id, nth_map_key in Hle.
    replace (hd 0 (map sg_key L)) with (sg_key (hd dseg L)) in Hle by (destruct L; [contradiction|reflexivity]).
    rewrite Hhd in Hle. exact Hle. }
  assert (Hkeysr : Forall (fun s => first <= sg_key s <= kmax (c_kt c)) (removelast L)).
  { rewrite (removelast_app_last L HLne) in Hkeys. apply Forall_app in Hkeys. tauto. }
  set (vals := map (ef_rebase c first) (removelast L)).
  assert (Ev : vals = map (fun x => x - first) (map sg_key (removelast L))).
  { unfold vals, ef_rebase. apply rebased_eq; assumption. }
  assert (Hub : ub vals (k - first) = ub (map sg_key L) k).
  { rewrite Ev, ub_shift. rewrite (removelast_app_last L HLne) at 2. rewrite map_app. cbn [map].
    symmetry. apply ub_app_last. rewrite Hlast. change (sentinel (einner c)) with (sentinel c). lia. }
  assert (Hrne : removelast L <> []).
  { intros E. rewrite E in Hzr. unfold zlen in Hzr at 1. cbn in Hzr. lia. }
  assert (Hvne : vals <> []) by (unfold vals; destruct (removelast L); [contradiction|discriminate]).
  assert (Hvs : ssortedb vals = true) by (rewrite Ev, ssortedb_shift; exact Hstrict).
  assert (Hvh : hd 0 vals = 0).
  { rewrite Ev. destruct L as [|a [|b t]]; [contradiction|unfold zlen in Hlen; cbn in Hlen; lia|].
    cbn [removelast map hd] in *. lia. }
  assert (Hvl : zlen vals < 2 ^ 62) by (unfold vals; rewrite zlen_map; lia).
  rewrite Hwk, (ef_pred_spec wl vals (k - first) Hwl Hvne Hvs Hvh ltac:(lia) Hvl), Hub. fold J.
  pose proof (ub_below_last L k Hsorted ltac:(lia) ltac:(rewrite Hlast; change (sentinel (einner c)) with (sentinel c); lia)) as Hub1.
  assert (Hub0 : 1 <= ub (map sg_key L) k).
  { destruct L as [|a t]; [contradiction|]. cbn [map ub hd] in *. pose proof (ub_nonneg (map sg_key t) k).
    replace (sg_key a <=? k) with true by lia. lia. }
  assert (HJ : 0 <= J < zlen L - 1) by (unfold J; lia).
  split; [|split; [lia|split; [lia|]]].
  - f_equal. f_equal. unfold vals. rewrite (nth_map_removelast _ L J 0 HLne HJ). unfold ef_rebase.
    rewrite Forall_forall in Hkeys. specialize (Hkeys _ (nth_In_Z L J ltac:(lia))).
    unfold wrapK. rewrite Hu. unfold wrapU, kmax in *. rewrite Hu in Hkeys. apply Z.mod_small. lia.
  - destruct (ub_spec (map sg_key L) k Hsorted) as [U1 _]. specialize (U1 J ltac:(unfold J; lia)).
    rewrite nth_map_key in U1. exact U1.
Qed.

(* EliasFanoPGMIndex::search unfolded (either Floating type): the segment is the one PGMIndex selects *)
Lemma ef_search_unfold c wl data L q :
  ksigned (c_kt c) = false -> std_width c -> 0 <= wl ->
  ef_layout_facts (einner c) data L -> zlen L < 2 ^ 62 -> 0 <= hd 0 data ->
  zlen data + c_eps c < 2 ^ 31 -> Z.max (hd 0 data) q < sentinel c ->
  let k := Z.max (hd 0 data) q in
  let J := ub (map sg_key L) k - 1 in
  let s := nth (Z.to_nat J) L dseg in
  let nx := nth (Z.to_nat (J + 1)) L dseg in
  let pos := Z.min (efseg_eval c (ef_seg s) (sg_key s) k) (sg_icpt nx) in
  ef_search c (mkEfindex (zlen data) (hd 0 data) (map ef_seg L)
                 (ef_build wl (map (ef_rebase c (hd 0 data)) (removelast L)))) q
  = Ok (mkApprox pos (PGM_SUB_EPS pos (c_eps c)) (PGM_ADD_EPS pos (c_eps c) (zlen data))) /\
  0 <= J /\ J + 1 < zlen L /\ sg_key s <= k.
Proof.
  intros Hu W Hwl Hlay H62 Hf0 Hsm Hk k J s nx pos. destruct (std_width_bits c W) as [Hb H64].
  pose proof Hlay as [Hlen Hstrict Hsorted Hhd Hlast Hfine].
  destruct (ef_pred_segment c wl data L k Hu Hb Hwl Hlay H62 Hf0 ltac:(unfold k; lia)) as (Ep & HJ0 & HJ1 & HJk).
  cbv zeta in Ep. fold J in Ep, HJ0, HJ1, HJk. fold s in Ep, HJk.
  split; [|split; [exact HJ0|split; [exact HJ1|exact HJk]]].
  unfold ef_search. cbn [ei_first ei_ef ei_segments ei_n]. fold k. rewrite Ep. cbn [bind].
  rewrite (nth_res_map ef_seg L J dseg) by lia. rewrite (nth_res_map ef_seg L (J + 1) dseg) by lia. cbn [bind].
  fold s nx. rewrite Forall_forall in Hfine.
  destruct (Hfine s (nth_In_Z L J ltac:(lia))) as (Hi & Fs & Ps & Hks).
  destruct (Hfine nx (nth_In_Z L (J + 1) ltac:(lia))) as (Hin & _).
  cbn [einner c_kt c_eps] in Hi, Hks, Hin.
  assert (Hkm : sentinel c = 2 ^ kbits (c_kt c) - 1) by (unfold sentinel, kmax; rewrite Hu; reflexivity).
  assert (Hk0 : kmin (c_kt c) = 0) by (unfold kmin; rewrite Hu; reflexivity).
  assert (Ew : wrapK (c_kt c) (sg_key s - hd 0 data + hd 0 data) = sg_key s).
  { replace (sg_key s - hd 0 data + hd 0 data) with (sg_key s) by lia.
    apply wrapK_id; [exact Hb|]. unfold in_ktype. lia. }
  rewrite Ew. cbn [ef_seg es_icpt]. rewrite (wrapS32_small (sg_icpt nx)) by lia.
  rewrite (wrapU64_small (sg_icpt nx)) by lia. reflexivity.
Qed.

Theorem ef_search_eq_search c wl data L q :
  ksigned (c_kt c) = false -> std_width c -> c_fdouble c = true -> 0 <= wl ->
  ef_layout_facts (einner c) data L -> zlen L < 2 ^ 62 -> 0 <= hd 0 data ->
  zlen data + c_eps c < 2 ^ 31 -> Z.max (hd 0 data) q < sentinel c ->
  ef_search c (mkEfindex (zlen data) (hd 0 data) (map ef_seg L)
                 (ef_build wl (map (ef_rebase c (hd 0 data)) (removelast L)))) q
  = search (einner c) (mkIndex (zlen data) (hd 0 data) L [0; zlen L]) q.
Proof.
  intros Hu W Hfd Hwl Hlay H62 Hf0 Hsm Hk. destruct (std_width_bits c W) as [Hb H64].
  pose proof Hlay as [Hlen Hstrict Hsorted Hhd Hlast Hfine].
  rewrite (search0_unfold (einner c) (zlen data) (hd 0 data) L q eq_refl Hlen Hsorted ltac:(rewrite Hlast; exact Hk)).
  destruct (ef_search_unfold c wl data L q Hu W Hwl Hlay H62 Hf0 Hsm Hk) as (Es & HJ0 & HJ1 & HJk).
  cbv zeta in Es, HJ0, HJ1, HJk. rewrite Es. set (k := Z.max (hd 0 data) q) in *.
  set (J := ub (map sg_key L) k - 1) in *.
  rewrite (nth_res_get L J) by lia. rewrite (nth_res_get L (J + 1)) by lia. cbn [bind].
  set (s := nth (Z.to_nat J) L dseg) in *. set (nx := nth (Z.to_nat (J + 1)) L dseg).
  rewrite Forall_forall in Hfine.
  destruct (Hfine s (nth_In_Z L J ltac:(lia))) as (Hi & Fs & Ps & Hks).
  destruct (Hfine nx (nth_In_Z L (J + 1) ltac:(lia))) as (Hin & _).
  cbn [einner c_kt c_eps] in Hi, Hks, Hin.
  assert (Hkm : sentinel c = 2 ^ kbits (c_kt c) - 1) by (unfold sentinel, kmax; rewrite Hu; reflexivity).
  assert (Hk0 : kmin (c_kt c) = 0) by (unfold kmin; rewrite Hu; reflexivity).
  change (ef_seg s) with (mkEfseg (sg_slope s) (wrapS 32 (sg_icpt s))).
  rewrite (ef_min_eq c s k (sg_icpt nx) Hfd Hu Fs Ps ltac:(lia) ltac:(lia)).
  - reflexivity.
  - rewrite (key_diff_exact c k (sg_key s) W) by lia. lia.
Qed.

(* ================= 6. the contract, Floating = double ================= *)
Record ef_ok (c : cfg) : Prop := mkEfOk {
  eo_unsigned : ksigned (c_kt c) = false;        (* static_assert(std::is_unsigned_v<K>) *)
  eo_width : std_width c;
  eo_eps : 1 <= c_eps c;
  eo_par : 1 <= c_par c <= 20
}.

Lemma einner_data_ok c data : data_ok c data -> data_ok (einner c) data.
Proof. intros [H1 H2 H3 H4 H5]. constructor; assumption. Qed.

Lemma float_ok0_cap_double c data k :
  std_width c -> 1 <= c_par c -> data_ok c data -> zlen data + c_eps c < 2 ^ 64 - 1 -> c_fdouble c = true ->
  float_ok0_cap c data k.
Proof.
  intros W Hp [Hne Hs Hkt Hlast Hn32] Hn Hf. unfold float_ok0_cap. apply level_float_ok_cap_of.
  apply level_float_ok_of_zone; try assumption.
  - apply data_key_ok; assumption.
  - apply last_z_key_ok; assumption.
  - apply level_zone_ok_double. exact Hf.
Qed.

Lemma data_first_nonneg c data : ksigned (c_kt c) = false -> data_ok c data -> 0 <= hd 0 data.
Proof.
  intros Hu [Hne _ Hkt _ _]. rewrite Forall_forall in Hkt.
  assert (Hin : In (hd 0 data) data) by (destruct data; [contradiction|left; reflexivity]).
  specialize (Hkt _ Hin). unfold in_ktype, kmin in Hkt. rewrite Hu in Hkt. lia.
Qed.

(* the segments of a one-level build: at most 3n + 4037 (ComposeBuild.build_total_sz) *)
Lemma einner_build_sz c data ix : ef_ok c -> data_ok c data -> zlen data + c_eps c < 2 ^ 31 ->
  build (einner c) data = Ok ix -> zlen (ix_segments ix) < 2 ^ 62.
Proof.
  intros [Hu W He Hp] [Hne Hs Hkt Hlast Hn32] Hsm Hb. destruct (std_width_bits c W) as [Hbits _].
  pose proof (zlen_ge0 data) as Hn0.
  destruct (build_total_sz (einner c) data Hbits Hp ltac:(cbn; lia) ltac:(cbn; lia) Hne Hs Hkt Hlast
              ltac:(cbn; lia) ltac:(cbn; lia)) as (ix' & E & Hsz).
  rewrite Hb in E. injection E as <-. lia.
Qed.

Theorem ef_search_contract_double c wl data x :
  ef_ok c -> c_fdouble c = true -> 0 <= wl -> data_ok c data -> zlen data + c_eps c < 2 ^ 31 ->
  ef_index_build c wl data = Ok x ->
  forall q, q < sentinel c ->
    exists a, ef_search c x q = Ok a /\
      0 <= a_lo a <= lb data q /\ lb data q <= a_hi a <= zlen data /\
      (In q data -> lb data q < a_hi a) /\ a_hi a - a_lo a <= 2 * c_eps c + 2.
Proof.
  intros Hok Hfd Hwl Hd Hsm Hbx q Hq. pose proof Hok as [Hu W He Hp].
  pose proof Hd as [Hne Hs Hkt Hlast Hn32]. destruct (std_width_bits c W) as [Hbits _].
  destruct (ef_index_build_inv c wl data x Hne Hbx) as (ix & Hb & ->).
  pose proof (einner_data_ok c data Hd) as Hd'.
  destruct (ef_layout (einner c) data ix W eq_refl ltac:(cbn; lia) He Hd' ltac:(cbn; lia) Hb) as (L & Eix & Hlay).
  pose proof (einner_build_sz c data ix Hok Hd Hsm Hb) as H62. rewrite Eix in H62 |- *. cbn [ix_segments] in *.
  pose proof (data_first_nonneg c data Hu Hd) as Hf0.
  assert (Hd0 : hd 0 data <= last_z data).
  { apply (data_le_last data Hne Hs). destruct data; [contradiction|]. left. reflexivity. }
  rewrite (ef_search_eq_search c wl data L q Hu W Hfd Hwl Hlay H62 Hf0 Hsm ltac:(lia)).
  rewrite <- Eix.
  assert (Hfl : float_ok0_cap (einner c) data (Z.max (hd 0 data) q)).
  { apply float_ok0_cap_double; try assumption; cbn; lia. }
  destruct (C02_search0_cap (einner c) data ix Hbits eq_refl He ltac:(cbn; lia) Hne Hs Hkt Hlast Hn32
              ltac:(cbn; lia) Hb q Hq Hfl) as (a & Es & H1 & H2 & H3 & H4 & H5 & _).
  exists a. split; [exact Es|]. cbn [einner c_eps] in H5. repeat split; try assumption.
  intros Hin.
  destruct (C01_search0_cap (einner c) data ix Hbits eq_refl He ltac:(cbn; lia) Hne Hs Hkt Hlast Hn32
              ltac:(cbn; lia) Hb q Hq Hfl Hin) as (a' & Es' & _ & _ & H3' & _).
  rewrite Es in Es'. injection Es' as <-. exact H3'.
Qed.

Lemma ef_index_build_total c wl data : ef_ok c -> data_ok c data -> zlen data + c_eps c < 2 ^ 31 ->
  exists x, ef_index_build c wl data = Ok x.
Proof.
  intros [Hu W He Hp] [Hne Hs Hkt Hlast Hn32] Hsm. destruct (std_width_bits c W) as [Hbits _].
  pose proof (zlen_ge0 data) as Hn0.
  destruct (build_total_sz (einner c) data Hbits Hp ltac:(cbn; lia) ltac:(cbn; lia) Hne Hs Hkt Hlast
              ltac:(cbn; lia) ltac:(cbn; lia)) as (ix & E & _).
  unfold ef_index_build.
  assert (Hn : zlen data <> 0) by (destruct data; [contradiction|]; rewrite zlen_cons; pose proof (zlen_ge0 data); lia).
  replace (zlen data =? 0) with false by lia. fold (einner c). rewrite E. cbn [bind]. eexists. reflexivity.
Qed.

(* EliasFanoPGMIndex<K, Epsilon, double>: the constructor succeeds and every search below the reserved
   key satisfies the contract; no hypothesis about the floating-point evaluation, the built segments or
   the Elias-Fano low width wl >= 0 *)
Theorem ef_contract_total_double c wl data :
  ef_ok c -> c_fdouble c = true -> 0 <= wl -> data_ok c data -> zlen data + c_eps c < 2 ^ 31 ->
  exists x, ef_index_build c wl data = Ok x /\
    forall q, q < sentinel c ->
      exists a, ef_search c x q = Ok a /\
        0 <= a_lo a <= lb data q /\ lb data q <= a_hi a <= zlen data /\
        (In q data -> lb data q < a_hi a) /\ a_hi a - a_lo a <= 2 * c_eps c + 2.
Proof.
  intros Hok Hfd Hwl Hd Hsm. destruct (ef_index_build_total c wl data Hok Hd Hsm) as (x & E).
  exists x. split; [exact E|]. exact (ef_search_contract_double c wl data x Hok Hfd Hwl Hd Hsm E).
Qed.

Print Assumptions ef_contract_total_double.

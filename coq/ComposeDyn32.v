(* ComposeDyn32.v -- C05 / C06 / C15 for DynamicPGMIndex over the concrete PGMIndex with NO floating-point
   hypothesis, for Floating = float (the default) as well as double.
   float_ok_valid (the hypothesis of ComposeDyn.v / ComposeDynGood.v) is false for float slopes
   (FloatOkAll.cx_not_float_ok); the search proofs only consume float_ok_cap, which
   FloatOkCap.float_ok_cap_float proves for every key from a size bound: a level with n keys needs
   n + Epsilon <= 2^22 - 1 and n + 1 + EpsilonRecursive <= 2^22 - 1, i.e. n <= lim22 c.
   ComposeDynN.v / ComposeDynGoodN.v redo the composition for an arbitrary bound N on the level sizes;
   here N := lim22 c (float) or 2^30 (double).
   * cap22 / fhist: the checkable capacity condition and the typed histories for float;
   * C05_find_float, C05_count_float, C05_lower_bound_float, C06_range_float, C06_iter_float,
     C06_size_float, C06_empty_float, C15_float;
   * shist and the *_std versions: float or double in one statement;
   * fhist_instance: non-vacuity on the configuration and the keys of FloatOkAll.cx_not_float_ok. *)
Require Import Base Fp PlaModel GenLeaf IndexModel IndexProofs IdxFed IdxChain FloatOk FloatOkAll FloatOkCap
  DynModel DynSpec DynExec DynCoreLemmas DynCoreInv DynCoreRefine DynCoreQuery DynCore DynIter
  ComposeIdx ComposeBuild ComposeDyn ComposeDynGood ComposeFloat ComposeFloat32 ComposeDynN ComposeDynGoodN.
From Coq Require Import ZifyBool.
Local Open Scope Z_scope.

(* the largest level a float index is proved correct on *)
Definition lim22 (c : cfg) : Z := 2 ^ 22 - 1 - Z.max (c_eps c) (c_epsrec c + 1).
(* the same for either Floating type *)
Definition lim_std (c : cfg) : Z := if c_fdouble c then 2 ^ 30 else lim22 c.

Lemma lim22_le c : idx_ok c -> lim22 c <= 2 ^ 30.
Proof. intros [_ He _ _ _ _]. unfold lim22. lia. Qed.

Lemma lim_std_le c : idx_ok c -> lim_std c <= 2 ^ 30.
Proof. intros Hc. unfold lim_std. destruct (c_fdouble c); [lia|apply lim22_le; exact Hc]. Qed.

Lemma data_ok_len c data : data_ok c data -> 1 <= zlen data.
Proof.
  intros [Hne _ _ _ _]. destruct data; [contradiction|]. unfold zlen. cbn [length]. lia.
Qed.

(* Floating = float: the interface float_ok_cap on every input of the constructor with at most
   lim22 c keys (no hypothesis on the floating-point evaluation) *)
Theorem float_ok_cap_valid_on_float c N :
  idx_ok c -> cfg_small c -> std_width c -> c_fdouble c = false -> N <= Z.max 0 (lim22 c) ->
  float_ok_cap_valid_on c N.
Proof.
  intros [Hb He He64 Hr0 Hr64 Hp] [Hp20 He31 Hr31] W Hf HN data k Hd Hn.
  pose proof (data_ok_len c data Hd) as H1. destruct Hd as [Hne Hs Hkt Hlast Hn32].
  unfold lim22 in HN. apply float_ok_cap_float; try assumption; lia.
Qed.

(* Floating = double: on every input of the constructor *)
Theorem float_ok_cap_valid_on_double c N :
  idx_ok c -> cfg_small c -> std_width c -> c_fdouble c = true -> float_ok_cap_valid_on c N.
Proof.
  intros Hc Hsm W Hf data k Hd _. apply float_ok_cap_of.
  exact (float_ok_valid_double c Hc Hsm W Hf data k Hd).
Qed.

Theorem float_ok_cap_valid_on_std c :
  idx_ok c -> cfg_small c -> std_width c -> float_ok_cap_valid_on c (Z.max 0 (lim_std c)).
Proof.
  intros Hc Hsm W. unfold lim_std. destruct (c_fdouble c) eqn:Ef.
  - apply float_ok_cap_valid_on_double; assumption.
  - apply float_ok_cap_valid_on_float; try assumption. lia.
Qed.

(* ---------------- the capacity condition and the histories ---------------- *)
(* every used level holds at most lim22 c items: the capacity 2^(used_levels * ceil_log2 base) of the
   levels in use, plus max(Epsilon, EpsilonRecursive + 1), stays below 2^22 *)
Definition cap22 {P} (c : cfg) (d : @dyn P) : Prop :=
  2 ^ (d_used d * ceil_log2 (d_base d)) + Z.max (c_eps c) (c_epsrec c + 1) <= 2 ^ 22 - 1.

Lemma cap22_capN {P} c (d : @dyn P) : cap22 c d <-> capN (lim22 c) d.
Proof. unfold cap22, capN, lim22. lia. Qed.

(* a sufficient condition in the style of ComposeDynGood.cap30 *)
Lemma cap22_of_21 {P} c (d : @dyn P) :
  d_used d * ceil_log2 (d_base d) <= 21 -> Z.max (c_eps c) (c_epsrec c + 1) <= 2 ^ 21 - 1 -> cap22 c d.
Proof.
  intros H1 H2. unfold cap22.
  assert (2 ^ (d_used d * ceil_log2 (d_base d)) <= 2 ^ 21) by (apply Z.pow_le_mono_r; lia). lia.
Qed.

(* the capacity condition for either Floating type: cap22 for float, cap30 (as 2^.. <= 2^30) for double *)
Definition cap_std {P} (c : cfg) (d : @dyn P) : Prop := capN (lim_std c) d.

Lemma cap_std_float {P} c (d : @dyn P) : c_fdouble c = false -> (cap_std c d <-> cap22 c d).
Proof. intros Hf. unfold cap_std, lim_std. rewrite Hf. symmetry. apply cap22_capN. Qed.

Lemma cap_std_double {P} c (d : @dyn P) : c_fdouble c = true -> cap30 d -> cap_std c d.
Proof. intros Hf H. unfold cap_std, lim_std. rewrite Hf. apply cap30_capN. exact H. Qed.

(* typed histories (ComposeDynGood.thist with cap30 replaced by cap22, resp. cap_std) *)
Definition fhist (c : cfg) : @dyn index -> amap -> Prop := thistN (lim22 c) c.
Definition shist (c : cfg) : @dyn index -> amap -> Prop := thistN (lim_std c) c.

Lemma fh_ctor c tomb base bl il d :
  ctor_ok base bl il -> dyn_ctor tomb (sentinel c) base bl il = Ok d -> fhist c d [].
Proof. intros. eapply th_ctorN; eassumption. Qed.

Lemma fh_bulk c tomb pairs base bl il d :
  bulk_ok base bl il pairs ->
  Forall (fun p => in_ktype (c_kt c) (fst p) = true) pairs -> Forall (fun p => fst p < sentinel c) pairs ->
  dyn_bulk (idx_ops c) tomb (sentinel c) pairs base bl il = Ok d -> cap22 c d ->
  fhist c d (am_bulk pairs).
Proof. intros. eapply th_bulkN; try eassumption. apply cap22_capN. assumption. Qed.

Lemma fh_ins c d m k v d' :
  fhist c d m -> size_ok d -> in_ktype (c_kt c) k = true -> k < sentinel c ->
  insert_or_assign (idx_ops c) d k v = Ok d' -> cap22 c d' -> fhist c d' (am_insert k v m).
Proof. intros. eapply th_insN; try eassumption. apply cap22_capN. assumption. Qed.

Lemma fh_del c d m k d' :
  fhist c d m -> size_ok d -> in_ktype (c_kt c) k = true -> k < sentinel c ->
  erase (idx_ops c) d k = Ok d' -> cap22 c d' -> fhist c d' (am_erase k m).
Proof. intros. eapply th_delN; try eassumption. apply cap22_capN. assumption. Qed.

Lemma fhist_shist c d m : c_fdouble c = false -> fhist c d m -> shist c d m.
Proof. intros Hf H. unfold shist, lim_std. rewrite Hf. exact H. Qed.

Lemma thist_shist c d m : c_fdouble c = true -> thist c d m -> shist c d m.
Proof. intros Hf H. unfold shist, lim_std. rewrite Hf. apply thist_thistN. exact H. Qed.

Lemma maxlim_le c : idx_ok c -> Z.max 0 (lim_std c) <= 2 ^ 30.
Proof. intros Hc. pose proof (lim_std_le c Hc). lia. Qed.

Lemma shist_max c d m : shist c d m -> thistN (Z.max 0 (lim_std c)) c d m.
Proof. apply thistN_mono. apply Z.le_max_r. Qed.

(* ---------------- C05 / C06 / C15, float or double, no floating-point hypothesis ---------------- *)
Section DynStd.
  Variable c : cfg.
  Hypothesis Hc : idx_ok c.
  Hypothesis Hsm : cfg_small c.
  Hypothesis W : std_width c.
  Variables (d : @dyn index) (m : amap).
  Hypothesis Hh : shist c d m.
  Hypothesis Hsz : DynCoreQuery.sizes_ok d.

  Let HN0 := Z.le_max_l 0 (lim_std c).
  Let HN := maxlim_le c Hc.
  Let Hf := float_ok_cap_valid_on_std c Hc Hsm W.
  Let HhN := shist_max c d m Hh.

  Theorem C15_std : wf_state (idx_ops c) d /\ lsm_props (idx_ops c) d.
  Proof. exact (C15_typedN _ c d m HhN). Qed.

  Theorem C05_find_std q : q < sentinel c ->
    exists r, dfind (idx_ops c) d q = Ok r /\ obs r = option_map (fun v => (q, v)) (am_find q m).
  Proof. exact (C05_find_typedN _ HN0 HN c Hc Hf Hsm d m HhN Hsz q). Qed.

  Theorem C05_count_std q : q < sentinel c ->
    count (idx_ops c) d q = Ok (match am_find q m with Some _ => 1 | None => 0 end).
  Proof. exact (C05_count_typedN _ HN0 HN c Hc Hf Hsm d m HhN Hsz q). Qed.

  Theorem C05_lower_bound_std q : q < sentinel c ->
    exists r, lower_bound (idx_ops c) d q = Ok r /\ obs r = am_lower_bound q m.
  Proof. exact (C05_lower_bound_typedN _ HN0 HN c Hc Hf Hsm d m HhN Hsz q). Qed.

  Theorem C06_range_std lo hi : lo <= hi -> hi < sentinel c -> range (idx_ops c) d lo hi = Ok (am_range lo hi m).
  Proof. exact (C06_range_typedN _ HN0 HN c Hc Hf Hsm d m HhN Hsz lo hi). Qed.

  Theorem C06_iter_std q : q < sentinel c ->
    exists r, lower_bound (idx_ops c) d q = Ok r /\ to_list_from (idx_ops c) d (iter_of r) = Ok (am_from q m).
  Proof. exact (C06_iter_typedN _ HN0 HN c Hc Hf Hsm d m HhN Hsz q). Qed.

  Theorem C06_size_std kmin_ : kmin_ < sentinel c -> Forall (fun p => kmin_ <= fst p) m ->
    dyn_size (idx_ops c) d kmin_ = Ok (zlen m).
  Proof. exact (C06_size_typedN _ HN0 HN c Hc Hf Hsm d m HhN Hsz kmin_). Qed.

  Theorem C06_empty_std kmin_ : kmin_ < sentinel c -> Forall (fun p => kmin_ <= fst p) m ->
    dyn_empty (idx_ops c) d kmin_ = Ok (match m with [] => true | _ => false end).
  Proof. exact (C06_empty_typedN _ HN0 HN c Hc Hf Hsm d m HhN Hsz kmin_). Qed.
End DynStd.

(* ---------------- Floating = float (the default): histories with cap22 ---------------- *)
Section DynFloat.
  Variable c : cfg.
  Hypothesis Hc : idx_ok c.
  Hypothesis Hsm : cfg_small c.
  Hypothesis W : std_width c.
  Hypothesis Hfl : c_fdouble c = false.
  Variables (d : @dyn index) (m : amap).
  Hypothesis Hh : fhist c d m.
  Hypothesis Hsz : DynCoreQuery.sizes_ok d.

  Let Hs := fhist_shist c d m Hfl Hh.

  Theorem C15_float : wf_state (idx_ops c) d /\ lsm_props (idx_ops c) d.
  Proof. exact (C15_std c d m Hs). Qed.

  Theorem C05_find_float q : q < sentinel c ->
    exists r, dfind (idx_ops c) d q = Ok r /\ obs r = option_map (fun v => (q, v)) (am_find q m).
  Proof. exact (C05_find_std c Hc Hsm W d m Hs Hsz q). Qed.

  Theorem C05_count_float q : q < sentinel c ->
    count (idx_ops c) d q = Ok (match am_find q m with Some _ => 1 | None => 0 end).
  Proof. exact (C05_count_std c Hc Hsm W d m Hs Hsz q). Qed.

  Theorem C05_lower_bound_float q : q < sentinel c ->
    exists r, lower_bound (idx_ops c) d q = Ok r /\ obs r = am_lower_bound q m.
  Proof. exact (C05_lower_bound_std c Hc Hsm W d m Hs Hsz q). Qed.

  Theorem C06_range_float lo hi : lo <= hi -> hi < sentinel c -> range (idx_ops c) d lo hi = Ok (am_range lo hi m).
  Proof. exact (C06_range_std c Hc Hsm W d m Hs Hsz lo hi). Qed.

  Theorem C06_iter_float q : q < sentinel c ->
    exists r, lower_bound (idx_ops c) d q = Ok r /\ to_list_from (idx_ops c) d (iter_of r) = Ok (am_from q m).
  Proof. exact (C06_iter_std c Hc Hsm W d m Hs Hsz q). Qed.

  Theorem C06_size_float kmin_ : kmin_ < sentinel c -> Forall (fun p => kmin_ <= fst p) m ->
    dyn_size (idx_ops c) d kmin_ = Ok (zlen m).
  Proof. exact (C06_size_std c Hc Hsm W d m Hs Hsz kmin_). Qed.

  Theorem C06_empty_float kmin_ : kmin_ < sentinel c -> Forall (fun p => kmin_ <= fst p) m ->
    dyn_empty (idx_ops c) d kmin_ = Ok (match m with [] => true | _ => false end).
  Proof. exact (C06_empty_std c Hc Hsm W d m Hs Hsz kmin_). Qed.
End DynFloat.

(* Floating = double through the same route (the statements of ComposeFloat.v, plus range / count / size):
   the histories of ComposeDynGood.v are histories in the sense of shist *)
Theorem C06_range_double c d m lo hi :
  idx_ok c -> cfg_small c -> std_width c -> c_fdouble c = true ->
  thist c d m -> sizes_ok d -> lo <= hi -> hi < sentinel c ->
  range (idx_ops c) d lo hi = Ok (am_range lo hi m).
Proof. intros Hc Hsm W Hf Hh Hsz. exact (C06_range_std c Hc Hsm W d m (thist_shist c d m Hf Hh) Hsz lo hi). Qed.

Theorem C05_count_double c d m q :
  idx_ok c -> cfg_small c -> std_width c -> c_fdouble c = true ->
  thist c d m -> sizes_ok d -> q < sentinel c ->
  count (idx_ops c) d q = Ok (match am_find q m with Some _ => 1 | None => 0 end).
Proof. intros Hc Hsm W Hf Hh Hsz. exact (C05_count_std c Hc Hsm W d m (thist_shist c d m Hf Hh) Hsz q). Qed.

Print Assumptions float_ok_cap_valid_on_std.
Print Assumptions C15_float.
Print Assumptions C05_find_float.
Print Assumptions C05_count_float.
Print Assumptions C05_lower_bound_float.
Print Assumptions C06_range_float.
Print Assumptions C06_iter_float.
Print Assumptions C06_size_float.
Print Assumptions C05_find_std.
Print Assumptions C06_iter_std.

(* ---------------- non-vacuity: a float history on which float_ok is FALSE ----------------
   cx_c = PGMIndex<uint64_t, 1, 0, float>; the container (base 4, buffer level 1, index level 2) is
   bulk-loaded with the six keys cx_data = [0; 3; 6; 9; 12; 2^40] of FloatOkAll.cx_not_float_ok, which land in
   level 2 and get a real index; then 7 is inserted and 6 erased (both go to the buffer).  The query
   cx_k = 3 * 2^30 is routed through that index: `float_ok cx_c cx_data cx_k` is false there, yet the
   results below come from C05_find_float. *)
Definition fx_pairs : list (Z * Z) := [(0,10);(3,30);(6,60);(9,90);(12,120);(2^40,400)].
Definition fx_map : amap := am_erase 6 (am_insert 7 77 (am_bulk fx_pairs)).

Definition fx_shape (d : @dyn index) : bool := (d_used d =? 3) && (d_base d =? 4).

Fixpoint zlist_eqb (a b : list Z) : bool :=
  match a, b with
  | [], [] => true
  | x :: a', y :: b' => (x =? y) && zlist_eqb a' b'
  | _, _ => false
  end.

Lemma zlist_eqb_eq a : forall b, zlist_eqb a b = true -> a = b.
Proof.
  induction a as [|x a IH]; intros [|y b] H; cbn in H; try discriminate; [reflexivity|].
  apply andb_prop in H. destruct H as [H1 H2]. f_equal; [lia|apply IH; exact H2].
Qed.

(* level 2 holds exactly cx_data and owns an index over 6 keys *)
Definition fx_indexed (d : @dyn index) : bool :=
  match level d 2, pgm d 2 with
  | Ok l, Ok p => has_pgm d 2 && zlist_eqb (map it_key l) cx_data && (ix_n p =? 6)
  | _, _ => false
  end.

Definition fx_check : bool :=
  match dyn_bulk (idx_ops cx_c) None (sentinel cx_c) fx_pairs 4 1 2 with
  | Ok d0 =>
      match insert_or_assign (idx_ops cx_c) d0 7 77 with
      | Ok d1 =>
          match erase (idx_ops cx_c) d1 6 with
          | Ok d2 => fx_shape d0 && fx_shape d1 && fx_shape d2 && fx_indexed d2
          | Err _ => false
          end
      | Err _ => false
      end
  | Err _ => false
  end.

Lemma fx_checked : fx_check = true.
Proof. vm_compute. reflexivity. Qed.

Lemma fx_shape_cap (d : @dyn index) : fx_shape d = true -> cap22 cx_c d /\ size_ok d /\ DynCoreQuery.sizes_ok d.
Proof.
  unfold fx_shape. intros H. apply andb_prop in H. destruct H as [H1 H2].
  assert (Hu : d_used d = 3) by lia. assert (Hb : d_base d = 4) by lia.
  unfold cap22, size_ok, DynCoreQuery.sizes_ok. rewrite Hu, Hb. vm_compute. repeat split; discriminate.
Qed.

Definition fx_found (d : @dyn index) (q : Z) (o : option (Z * Z)) : Prop :=
  exists r, dfind (idx_ops cx_c) d q = Ok r /\ obs r = o.

Example fhist_instance :
  ~ float_ok cx_c cx_data cx_k /\
  exists d, fhist cx_c d fx_map /\ DynCoreQuery.sizes_ok d /\ fx_indexed d = true /\
    (* from C05_find_float *)
    fx_found d cx_k None /\ fx_found d 7 (Some (7, 77)) /\ fx_found d 6 None /\
    fx_found d (2 ^ 40) (Some (2 ^ 40, 400)) /\
    (* from C05_count_float, C06_range_float, C06_size_float *)
    count (idx_ops cx_c) d cx_k = Ok 0 /\ count (idx_ops cx_c) d 7 = Ok 1 /\
    range (idx_ops cx_c) d 5 cx_k = Ok [(7, 77); (9, 90); (12, 120)] /\
    dyn_size (idx_ops cx_c) d 0 = Ok 6.
Proof.
  split; [exact cx_not_float_ok|].
  pose proof fx_checked as H. unfold fx_check in H.
  destruct (dyn_bulk (idx_ops cx_c) None (sentinel cx_c) fx_pairs 4 1 2) as [d0|e] eqn:E0; [|discriminate].
  destruct (insert_or_assign (idx_ops cx_c) d0 7 77) as [d1|e] eqn:E1; [|discriminate].
  destruct (erase (idx_ops cx_c) d1 6) as [d2|e] eqn:E2; [|discriminate].
  do 3 (apply andb_prop in H; destruct H as [H ?H]).
  destruct (fx_shape_cap d0 H) as (C0 & S0 & _). destruct (fx_shape_cap d1 H2) as (C1 & S1 & _).
  destruct (fx_shape_cap d2 H1) as (C2 & _ & Z2).
  assert (Hh : fhist cx_c d2 fx_map).
  { apply (fh_del cx_c d1 _ 6 d2); [|exact S1|reflexivity|reflexivity|exact E2|exact C2].
    apply (fh_ins cx_c d0 _ 7 77 d1); [|exact S0|reflexivity|reflexivity|exact E1|exact C1].
    apply (fh_bulk cx_c None fx_pairs 4 1 2 d0); [| | |exact E0|exact C0].
    - unfold bulk_ok, ctor_ok. vm_compute. repeat split; discriminate.
    - unfold fx_pairs. repeat constructor.
    - unfold fx_pairs. repeat constructor. }
  exists d2. split; [exact Hh|]. split; [exact Z2|]. split; [exact H0|].
  pose proof (C05_find_float cx_c cx_idx_ok cx_cfg_small cx_std_width eq_refl d2 fx_map Hh Z2) as HF.
  pose proof (C05_count_float cx_c cx_idx_ok cx_cfg_small cx_std_width eq_refl d2 fx_map Hh Z2) as HC.
  assert (Hfind : forall q o, q < sentinel cx_c -> option_map (fun v => (q, v)) (am_find q fx_map) = o -> fx_found d2 q o).
  { intros q o Hq Ho. destruct (HF q Hq) as (r & Er & Or). exists r. split; [exact Er|]. rewrite Or. exact Ho. }
  repeat split.
  - apply Hfind; vm_compute; reflexivity.
  - apply Hfind; vm_compute; reflexivity.
  - apply Hfind; vm_compute; reflexivity.
  - apply Hfind; vm_compute; reflexivity.
  - rewrite (HC cx_k ltac:(vm_compute; reflexivity)). vm_compute. reflexivity.
  - rewrite (HC 7 ltac:(vm_compute; reflexivity)). vm_compute. reflexivity.
  - rewrite (C06_range_float cx_c cx_idx_ok cx_cfg_small cx_std_width eq_refl d2 fx_map Hh Z2 5 cx_k
               ltac:(vm_compute; discriminate) ltac:(vm_compute; reflexivity)).
    vm_compute. reflexivity.
  - rewrite (C06_size_float cx_c cx_idx_ok cx_cfg_small cx_std_width eq_refl d2 fx_map Hh Z2 0
               ltac:(vm_compute; reflexivity)).
    + vm_compute. reflexivity.
    + unfold fx_map, fx_pairs. vm_compute. repeat constructor; discriminate.
Qed.

(* cross-check: the same queries on the same state, computed *)
Definition fx_state : res (@dyn index) :=
  bind (dyn_bulk (idx_ops cx_c) None (sentinel cx_c) fx_pairs 4 1 2) (fun d0 =>
  bind (insert_or_assign (idx_ops cx_c) d0 7 77) (fun d1 => erase (idx_ops cx_c) d1 6)).

Definition fx_obs (q : Z) : res (option (Z * Z)) :=
  bind fx_state (fun d => bind (dfind (idx_ops cx_c) d q) (fun r => Ok (obs r))).

Example fx_computed :
  fx_obs cx_k = Ok None /\ fx_obs 7 = Ok (Some (7, 77)) /\ fx_obs 6 = Ok None /\
  fx_obs (2 ^ 40) = Ok (Some (2 ^ 40, 400)) /\
  bind fx_state (fun d => count (idx_ops cx_c) d cx_k) = Ok 0 /\
  bind fx_state (fun d => count (idx_ops cx_c) d 7) = Ok 1 /\
  bind fx_state (fun d => range (idx_ops cx_c) d 5 cx_k) = Ok [(7, 77); (9, 90); (12, 120)] /\
  bind fx_state (fun d => dyn_size (idx_ops cx_c) d 0) = Ok 6.
Proof. vm_compute. repeat split; reflexivity. Qed.

Print Assumptions fhist_instance.

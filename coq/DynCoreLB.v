(* DynCoreLB.v — lower_bound of the DynamicPGMIndex model returns the map's lower bound (C05). *)
From Coq Require Import ZArith List Bool Lia ZifyBool.
Require Import Base GenLeaf DynModel DynSpec DynCoreLemmas DynCoreInv DynCoreRefine DynCoreQuery.
Local Open Scope Z_scope.

Ltac csplit := repeat match goal with |- _ /\ _ => refine (conj _ _) end.

Definition below (cur : option Z) (k : Z) : Prop := match cur with Some b => k < b | None => True end.
Definition belowb (cur : option Z) (k : Z) : bool := match cur with Some b => k <? b | None => true end.
Lemma belowb_spec : forall cur k, belowb cur k = true <-> below cur k.
Proof. intros [b|] k; cbn; [lia|tauto]. Qed.

Lemma inb_In : forall k del, existsb (Z.eqb k) del = true <-> In k del.
Proof.
  intros k del. rewrite existsb_exists. split.
  - intros [x [H1 H2]]. assert (x = k) by lia. subst; auto.
  - intros H. exists k. split; auto. lia.
Qed.

Lemma lb_scan_spec : forall fuel li it q cur del, 0 <= it -> (Z.to_nat (zlen li - it) < fuel)%nat ->
  exists del' cand exact, lb_scan fuel li it q cur del = Ok (del', cand, exact) /\
    (forall k, In k del -> In k del') /\
    (forall k, In k del' -> In k del \/
        exists j e, it <= j /\ nth_res li j = Ok e /\ it_key e = k /\ deleted e = true /\ below cur k) /\
    match cand with
    | Some (j, e) =>
        it <= j /\ nth_res li j = Ok e /\ deleted e = false /\ ~ In (it_key e) del' /\
        below cur (it_key e) /\ exact = (it_key e =? q) /\
        (forall j' e', it <= j' < j -> nth_res li j' = Ok e' -> In (it_key e') del')
    | None =>
        exact = false /\ exists stop, it <= stop /\
          (forall j' e', it <= j' < stop -> nth_res li j' = Ok e' -> In (it_key e') del') /\
          (stop < zlen li -> exists e, nth_res li stop = Ok e /\ ~ below cur (it_key e))
    end.
Proof.
  induction fuel as [|fuel IH]; intros li it q cur del Hit Hf; [lia|].
  cbn [lb_scan]. destruct (it <? zlen li) eqn:Elt.
  - destruct (nth_res_total _ li it ltac:(lia)) as [e He]. rewrite He. cbn [bind].
    change (match cur with Some b => it_key e <? b | None => true end) with (belowb cur (it_key e)).
    destruct (belowb cur (it_key e)) eqn:Eb.
    + apply belowb_spec in Eb. destruct (deleted e) eqn:Ed.
      * destruct (IH li (it + 1) q cur (it_key e :: del) ltac:(lia) ltac:(lia))
          as [del' [cand [exact [Hs [Hinc [Hnew Hc]]]]]].
        exists del', cand, exact. csplit; auto.
        -- intros k Hk. apply Hinc. right; auto.
        -- intros k Hk. apply Hnew in Hk. destruct Hk as [[<-|Hk]|[j [e' [H1 H2]]]]; auto.
           ++ right. exists it, e. csplit; auto; lia.
           ++ right. exists j, e'. split; [lia|auto].
        -- destruct cand as [[j e']|].
           ++ destruct Hc as [H1 [H2 [H3 [H4 [H5 [H6 H7]]]]]]. csplit; auto; try lia.
              intros j' e'' Hj' Hn. destruct (Z.eq_dec j' it) as [->|Hne].
              ** rewrite He in Hn. inversion Hn; subst. apply Hinc. left; auto.
              ** apply (H7 j'); auto. lia.
           ++ destruct Hc as [H1 [stop [H2 [H3 H4]]]]. split; auto. exists stop. csplit; auto; try lia.
              intros j' e'' Hj' Hn. destruct (Z.eq_dec j' it) as [->|Hne].
              ** rewrite He in Hn. inversion Hn; subst. apply Hinc. left; auto.
              ** apply (H3 j'); auto. lia.
      * destruct (negb (existsb (Z.eqb (it_key e)) del)) eqn:En.
        -- exists del, (Some (it, e)), (it_key e =? q). csplit; auto; try lia.
           intros Hin. apply inb_In in Hin. rewrite Hin in En. discriminate.
        -- assert (Hin : In (it_key e) del).
           { apply inb_In. destruct (existsb _ del); auto; discriminate. }
           destruct (IH li (it + 1) q cur del ltac:(lia) ltac:(lia))
             as [del' [cand [exact [Hs [Hinc [Hnew Hc]]]]]].
           exists del', cand, exact. csplit; auto.
           ++ intros k Hk. apply Hnew in Hk. destruct Hk as [Hk|[j [e' [H1 H2]]]]; auto.
              right. exists j, e'. split; [lia|auto].
           ++ destruct cand as [[j e']|].
              ** destruct Hc as [H1 [H2 [H3 [H4 [H5 [H6 H7]]]]]]. csplit; auto; try lia.
                 intros j' e'' Hj' Hn. destruct (Z.eq_dec j' it) as [->|Hne].
                 --- rewrite He in Hn. inversion Hn; subst. apply Hinc; auto.
                 --- apply (H7 j'); auto. lia.
              ** destruct Hc as [H1 [stop [H2 [H3 H4]]]]. split; auto. exists stop. csplit; auto; try lia.
                 intros j' e'' Hj' Hn. destruct (Z.eq_dec j' it) as [->|Hne].
                 --- rewrite He in Hn. inversion Hn; subst. apply Hinc; auto.
                 --- apply (H3 j'); auto. lia.
    + exists del, None, false. csplit; auto. exists it. csplit; try lia.
      intros _. exists e. split; auto. intros Hb. apply belowb_spec in Hb. congruence.
  - exists del, None, false. csplit; auto. exists it. csplit; try lia.
Qed.

(* ---------- positions in a sorted run ---------- *)
Lemma isrt_nth_mono : forall l a b x y, isrt l ->
  nth_error l a = Some x -> nth_error l b = Some y -> (a < b)%nat -> it_key x < it_key y.
Proof.
  induction l as [|z l IH]; intros a b x y Hs Ha Hb Hab; [destruct a; discriminate|].
  destruct Hs as [Hf Hs]. destruct b as [|b]; [lia|]. cbn [nth_error] in Hb.
  destruct a as [|a]; cbn [nth_error] in Ha.
  - inversion Ha; subst. rewrite Forall_forall in Hf. apply Hf. eapply nth_error_In; eauto.
  - eapply IH; eauto. lia.
Qed.

Lemma isrt_pos_lt : forall l a b x y, isrt l ->
  nth_res l a = Ok x -> nth_res l b = Ok y -> it_key x < it_key y -> a < b.
Proof.
  intros l a b x y Hs Ha Hb Hk. apply nth_res_ok in Ha. apply nth_res_ok in Hb.
  destruct Ha as [Ha0 Ha]. destruct Hb as [Hb0 Hb].
  destruct (Z_lt_dec a b); auto. exfalso.
  destruct (Z.eq_dec a b) as [->|Hne].
  - rewrite Ha in Hb. inversion Hb; subst. lia.
  - pose proof (isrt_nth_mono l _ _ y x Hs Hb Ha ltac:(lia)). lia.
Qed.

Lemma isrt_pos_of_in : forall l e q, isrt l -> In e l -> q <= it_key e ->
  exists j, lbk l q <= j /\ nth_res l j = Ok e.
Proof.
  intros l e q Hs Hin Hq. apply In_nth_error in Hin. destruct Hin as [n Hn].
  exists (Z.of_nat n). pose proof (lbk_spec l q n e Hs Hn). split; [lia|].
  apply nth_res_ok. rewrite Nat2Z.id. split; [lia|auto].
Qed.

Lemma isrt_key_ge : forall l j e q, isrt l -> lbk l q <= j -> nth_res l j = Ok e -> q <= it_key e.
Proof.
  intros l j e q Hs Hj Hn. apply nth_res_ok in Hn. destruct Hn as [H0 Hn].
  pose proof (lbk_spec l q _ e Hs Hn). lia.
Qed.

Lemma isrt_unique : forall l e e', isrt l -> In e l -> In e' l -> it_key e = it_key e' -> e = e'.
Proof.
  intros l e e' Hs H1 H2 Hk. pose proof (lookup_some_of_in l e Hs H1) as L1.
  pose proof (lookup_some_of_in l e' Hs H2) as L2. rewrite Hk in L1. congruence.
Qed.

(* ---------- the loop invariant of lower_bound ---------- *)
Definition curkey (lb_ : option (Z * Z * item)) : option Z :=
  match lb_ with Some (_, _, e) => Some (it_key e) | None => None end.

Record lbinv (Pre : list (list item)) (q : Z) (lb_ : option (Z * Z * item)) (del : list Z) : Prop := mkLbinv {
  li_cand : forall i j e, lb_ = Some (i, j, e) ->
            look_levels Pre (it_key e) = Some e /\ deleted e = false /\ q <= it_key e;
  li_gap : forall k, q <= k -> below (curkey lb_) k ->
           look_levels Pre k = None \/
           (exists e, look_levels Pre k = Some e /\ deleted e = true /\ In k del);
  li_del : forall k, In k del -> exists e, look_levels Pre k = Some e /\ deleted e = true
}.

Lemma look_snoc : forall Pre li k,
  look_levels (Pre ++ [li]) k = match look_levels Pre k with Some e => Some e | None => level_lookup li k end.
Proof.
  intros Pre li k. rewrite look_app. destruct (look_levels Pre k); auto.
  cbn. destruct (level_lookup li k); auto.
Qed.

Lemma lbinv_extend : forall Pre q lb_ del li lb' del',
  isrt li -> lbinv Pre q lb_ del ->
  (forall e', In e' li -> q <= it_key e' -> below (curkey lb') (it_key e') -> In (it_key e') del') ->
  (forall k, In k del' -> In k del \/
     exists e', In e' li /\ it_key e' = k /\ deleted e' = true /\ q <= k /\ below (curkey lb_) k) ->
  (forall k, In k del -> In k del') ->
  (forall k, below (curkey lb') k -> below (curkey lb_) k) ->
  (lb' = lb_ \/ exists i j e, lb' = Some (i, j, e) /\ In e li /\ deleted e = false /\ q <= it_key e /\
                              ~ In (it_key e) del' /\ below (curkey lb_) (it_key e)) ->
  lbinv (Pre ++ [li]) q lb' del'.
Proof.
  intros Pre q lb_ del li lb' del' Hs [Ic Ig Id] S1 S2 S3 S4 Hlb.
  constructor.
  - intros i j e E. rewrite look_snoc. destruct Hlb as [->|[i' [j' [e' [E' [Hin [Hd [Hq [Hnd Hb]]]]]]]]].
    + destruct (Ic i j e E) as [H1 [H2 H3]]. rewrite H1. auto.
    + rewrite E' in E. inversion E; subst i' j' e'. csplit; auto.
      destruct (Ig (it_key e) Hq Hb) as [Hn|[e0 [H1 [H2 H3]]]].
      * rewrite Hn. apply lookup_some_of_in; auto.
      * exfalso. apply Hnd. apply S3. auto.
  - intros k Hq Hb. rewrite look_snoc. destruct (Ig k Hq (S4 k Hb)) as [Hn|[e0 [H1 [H2 H3]]]].
    + rewrite Hn. destruct (level_lookup li k) as [e'|] eqn:El; [|left; auto].
      right. exists e'. apply lookup_in in El. destruct El as [Hin Hk]. subst k.
      pose proof (S1 e' Hin Hq Hb) as Hd'. csplit; auto.
      destruct (S2 _ Hd') as [Hold|[e'' [Hin' [Hk' [Hdel _]]]]].
      * destruct (Id _ Hold) as [e0 [H1 _]]. congruence.
      * rewrite (isrt_unique li e' e'' Hs Hin Hin'); auto.
    + rewrite H1. right. exists e0. csplit; auto.
  - intros k Hk. rewrite look_snoc. destruct (S2 k Hk) as [Hold|[e' [Hin [Hk' [Hdel [Hq Hb]]]]]].
    + destruct (Id _ Hold) as [e0 [H1 H2]]. rewrite H1. eauto.
    + destruct (Ig k Hq Hb) as [Hn|[e0 [H1 [H2 H3]]]].
      * rewrite Hn. exists e'. split; auto. subst k. apply lookup_some_of_in; auto.
      * rewrite H1. eauto.
Qed.

Definition newlb (i : Z) (lb_ : option (Z * Z * item)) (cand : option (Z * item)) : option (Z * Z * item) :=
  match cand with Some (j, e) => Some (i, j, e) | None => lb_ end.

Lemma scan_level : forall fuel Pre q lb_ del li i, isrt li -> lbinv Pre q lb_ del ->
  (Z.to_nat (zlen li) < fuel)%nat ->
  exists del' cand exact,
    lb_scan fuel li (lbk li q) q (curkey lb_) del = Ok (del', cand, exact) /\
    lbinv (Pre ++ [li]) q (newlb i lb_ cand) del' /\
    exact = match cand with Some (_, e) => it_key e =? q | None => false end.
Proof.
  intros fuel Pre q lb_ del li i Hs HI Hf. pose proof (lbk_range li q) as Hr.
  destruct (lb_scan_spec fuel li (lbk li q) q (curkey lb_) del ltac:(lia) ltac:(lia))
    as [del' [cand [exact [Hscan [Hinc [Hnew Hc]]]]]].
  exists del', cand, exact. split; auto.
  assert (S2 : forall k, In k del' -> In k del \/
     exists e', In e' li /\ it_key e' = k /\ deleted e' = true /\ q <= k /\ below (curkey lb_) k).
  { intros k Hk. destruct (Hnew k Hk) as [H|[j [e [H1 [H2 [H3 [H4 H5]]]]]]]; auto.
    right. exists e. csplit; auto.
    - eapply nth_res_in; eauto.
    - subst k. eapply isrt_key_ge; eauto. }
  destruct cand as [[j e]|].
  - destruct Hc as [H1 [H2 [H3 [H4 [H5 [H6 H7]]]]]]. split; auto.
    pose proof (isrt_key_ge li j e q Hs H1 H2) as Hqe.
    eapply lbinv_extend; eauto.
    + cbn [newlb curkey below]. intros e' Hin Hq Hlt.
      destruct (isrt_pos_of_in li e' q Hs Hin Hq) as [j' [Hj' Hn']].
      pose proof (isrt_pos_lt li j' j e' e Hs Hn' H2 Hlt). apply (H7 j' e'); auto; lia.
    + cbn [newlb curkey below]. intros k Hk. destruct (curkey lb_); cbn in *; auto. lia.
    + right. exists i, j, e. csplit; auto. eapply nth_res_in; eauto.
  - destruct Hc as [H1 [stop [H2 [H3 H4]]]]. split; auto.
    eapply lbinv_extend; eauto. cbn [newlb].
    intros e' Hin Hq Hb. destruct (isrt_pos_of_in li e' q Hs Hin Hq) as [j' [Hj' Hn']].
    destruct (Z_lt_dec j' stop) as [Hlt|Hge]; [apply (H3 j' e'); auto; lia|].
    exfalso. pose proof (nth_res_bound _ _ _ _ Hn') as Hb'.
    destruct (H4 ltac:(lia)) as [es [Hes Hnb]]. apply Hnb.
    destruct (Z.eq_dec j' stop) as [->|Hne].
    + rewrite Hes in Hn'. inversion Hn'; subst. auto.
    + assert (it_key es < it_key e').
      { apply nth_res_ok in Hes. apply nth_res_ok in Hn'. destruct Hes as [? Hes]. destruct Hn' as [? Hn'].
        eapply (isrt_nth_mono li _ _ es e' Hs Hes Hn'). lia. }
      destruct (curkey lb_); cbn in *; auto. lia.
Qed.

(* what the final answer must satisfy w.r.t. a list of levels *)
Definition Fin (Ls : list (list item)) (q : Z) (r : option (Z * Z * item)) : Prop :=
  match r with
  | Some (_, _, e) => look_levels Ls (it_key e) = Some e /\ deleted e = false /\ q <= it_key e /\
                      forall k, q <= k < it_key e -> val_of (look_levels Ls k) = None
  | None => forall k, q <= k -> val_of (look_levels Ls k) = None
  end.

Lemma lbinv_Fin : forall Ls q r del, lbinv Ls q r del -> Fin Ls q r.
Proof.
  intros Ls q r del [Ic Ig Id]. unfold Fin.
  assert (Hgap : forall k, q <= k -> below (curkey r) k -> val_of (look_levels Ls k) = None).
  { intros k Hq Hb. destruct (Ig k Hq Hb) as [Hn|[e [H1 [H2 _]]]]; rewrite ?Hn, ?H1; cbn; auto.
    unfold deleted in H2. destruct (it_val e); [discriminate|auto]. }
  destruct r as [[[i j] e]|].
  - destruct (Ic i j e eq_refl) as [H1 [H2 H3]]. csplit; auto.
    intros k Hk. apply Hgap; [lia|cbn; lia].
  - intros k Hk. apply Hgap; [lia|cbn; auto].
Qed.

Lemma lbinv_init : forall q, lbinv [] q None [].
Proof.
  intros q. constructor.
  - intros i j e H. discriminate.
  - intros k _ _. left. reflexivity.
  - intros k [].
Qed.

Lemma lbinv_skip_empty : forall Pre q lb_ del, lbinv Pre q lb_ del -> lbinv (Pre ++ [[]]) q lb_ del.
Proof.
  intros Pre q lb_ del H. eapply lbinv_extend; eauto; cbn; auto.
  intros e' [].
Qed.

Section LBSec.
Context {P : Type} (ops : pgmops P) (kmax : Z).
Hypothesis Hc : pgm_contract ops kmax.
Notation dynP := (@dyn P).
Notation Inv := (Inv ops kmax).

Lemma lower_bound_levels_spec : forall n d s q lb_ del Pre, Inv d -> sizes_ok d -> q < kmax ->
  d_min_level d <= s -> s - d_min_level d + Z.of_nat n <= zlen (d_levels d) ->
  lbinv Pre q lb_ del ->
  exists r, lower_bound_levels ops d (zseq s n) q lb_ del = Ok r /\
            Fin (Pre ++ levels_from d s n) q r.
Proof.
  induction n as [|n IH]; intros d s q lb_ del Pre HI Hsz Hq Hs Hr HL.
  - exists lb_. split; [reflexivity|]. unfold levels_from. cbn [firstn]. rewrite app_nil_r.
    eapply lbinv_Fin; eauto.
  - destruct (level_total d s ltac:(lia)) as [li Hli].
    rewrite (levels_from_cons d s n li Hli). cbn [zseq lower_bound_levels].
    rewrite Hli. cbn [bind].
    replace (Pre ++ li :: levels_from d (s + 1) n) with ((Pre ++ [li]) ++ levels_from d (s + 1) n)
      by (rewrite <- app_assoc; reflexivity).
    destruct (zlen li =? 0) eqn:Ez.
    + assert (li = []) by (destruct li; auto; cbn in Ez; lia). subst li.
      apply IH; auto; try lia. apply lbinv_skip_empty; auto.
    + assert (Hne : li <> []) by (intros ->; cbn in Ez; lia).
      destruct (level_search_ok ops kmax Hc d s li q HI Hsz Hli Hne Hq) as [w [Hw Hlb]].
      rewrite Hw. cbn [bind]. rewrite Hlb. cbn [bind].
      pose proof (Inv_sorted ops kmax d s li HI Hli) as Hsrt.
      destruct (scan_level (S (length li)) Pre q lb_ del li s Hsrt HL ltac:(unfold zlen; lia))
        as [del' [cand [exact [Hscan [HL' Hex]]]]].
      unfold curkey in Hscan. rewrite Hscan. cbn [bind].
      destruct cand as [[j e]|]; cbn [newlb] in HL'.
      * destruct exact.
        -- exists (Some (s, j, e)). split; [reflexivity|].
           destruct (li_cand _ _ _ _ HL' s j e eq_refl) as [H1 [H2 H3]].
           unfold Fin. csplit; auto; [rewrite look_app, H1; auto|].
           intros k Hk. symmetry in Hex. lia.
        -- apply IH; auto; lia.
      * apply IH; auto; lia.
Qed.

Lemma am_lower_bound_some : forall m q k v, amsrt m ->
  am_find k m = Some v -> q <= k -> (forall k', q <= k' < k -> am_find k' m = None) ->
  am_lower_bound q m = Some (k, v).
Proof.
  induction m as [|[k0 v0] m IH]; intros q k v Hs Hf Hq Hgap; [discriminate|].
  destruct Hs as [Hall Hs]. cbn [am_lower_bound]. cbn [am_find] in Hf.
  destruct (q <=? k0) eqn:E.
  - destruct (k =? k0) eqn:Ek.
    + inversion Hf; subst. f_equal. f_equal. lia.
    + exfalso. destruct (Z_lt_dec k0 k) as [Hlt|Hge].
      * specialize (Hgap k0 ltac:(lia)). cbn [am_find] in Hgap. rewrite Z.eqb_refl in Hgap. discriminate.
      * rewrite am_find_none_gt in Hf; [discriminate|].
        eapply Forall_impl; [|exact Hall]. cbn; intros; lia.
  - destruct (k =? k0) eqn:Ek; [lia|]. apply IH; auto.
    intros k' Hk'. specialize (Hgap k' Hk'). cbn [am_find] in Hgap.
    destruct (k' =? k0) eqn:E2; [lia|auto].
Qed.

Lemma am_lower_bound_none : forall m q, (forall k', q <= k' -> am_find k' m = None) ->
  am_lower_bound q m = None.
Proof.
  induction m as [|[k0 v0] m IH]; intros q Hgap; [reflexivity|].
  cbn [am_lower_bound]. destruct (q <=? k0) eqn:E.
  - specialize (Hgap k0 ltac:(lia)). cbn [am_find] in Hgap. rewrite Z.eqb_refl in Hgap. discriminate.
  - apply IH. intros k' Hk'. specialize (Hgap k' Hk'). cbn [am_find] in Hgap.
    destruct (k' =? k0) eqn:E2; [lia|auto].
Qed.

(* amsrt m (strictly increasing keys) is the well-formedness of an amap; every map of a history has it *)
Theorem lower_bound_spec : forall d m q, Inv d -> sizes_ok d -> represents d m -> amsrt m -> q < kmax ->
  exists r, lower_bound ops d q = Ok r /\ obs r = am_lower_bound q m.
Proof.
  intros d m q HI Hsz Hrep Hm Hq. unfold lower_bound, used_range.
  pose proof (wf_levels_len ops d (iv_wf _ _ d HI)) as [Hl1 Hl2].
  destruct (lower_bound_levels_spec (Z.to_nat (d_used d - d_min_level d)) d (d_min_level d) q None [] []
              HI Hsz Hq ltac:(lia) ltac:(lia) (lbinv_init q)) as [r [H1 H2]].
  exists r. split; auto. cbn [app] in H2.
  assert (Hlook : forall k, val_of (look_levels (levels_from d (d_min_level d) (Z.to_nat (d_used d - d_min_level d))) k)
                            = am_find k m).
  { intros k. rewrite (look_used ops kmax d k HI), <- abs_look. apply Hrep. }
  unfold Fin in H2. destruct r as [[[i j] e]|]; cbn [obs].
  - destruct H2 as [F1 [F2 [F3 F4]]]. unfold deleted in F2.
    destruct (it_val e) as [v|] eqn:Ev; [|discriminate].
    symmetry. apply am_lower_bound_some; auto.
    + rewrite <- Hlook, F1. cbn. auto.
    + intros k' Hk'. rewrite <- Hlook. auto.
  - symmetry. apply am_lower_bound_none. intros k' Hk'. rewrite <- Hlook. auto.
Qed.

End LBSec.

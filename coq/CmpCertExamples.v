(* CmpCertExamples.v — validation of the certificate of CmpCertDefs.v on indexes built by the model of the
   constructor (compressed_build, c_par = 1): it holds on every legitimately built instance below, fails on a
   corrupted object, and fails (with a concrete failing query) on the residual far-key overflow. *)
Require Import Base Fp PlaModel GenLeaf IndexModel CompressedModel CmpCertDefs.
Local Open Scope Z_scope.

(* deterministic pseudo-random data *)
Fixpoint lcg (n : nat) (s : Z) (m : Z) : list Z :=
  match n with O => [] | S k => (s mod m) :: lcg k ((s * 6364136223846793005 + 1442695040888963407) mod 2 ^ 64) m end.
Fixpoint isort_ins (x : Z) (l : list Z) : list Z :=
  match l with [] => [x] | y :: t => if x <=? y then x :: l else y :: isort_ins x t end.
Definition isort (l : list Z) : list Z := fold_right isort_ins [] l.
Fixpoint cumsum (acc : Z) (l : list Z) : list Z :=
  match l with [] => [] | g :: t => (acc + g) :: cumsum (acc + g) t end.

Definition cert_of (c : cfg) (d : list Z) : bool :=
  match compressed_build c d with Ok cp => cmp_cert_b c d cp | Err _ => false end.
Definition level_sizes (c : cfg) (d : list Z) : list Z :=
  match compressed_build c d with Ok cp => map (fun l => zlen (cl_keys l)) (cp_levels cp) | Err _ => [] end.
Definition has_dup (d : list Z) : bool := negb (ssortedb d).

(* 1. u64, EpsilonRecursive = 0, double *)
Definition c1 := mkCfg (mkK 64 false) 4 0 true 1 false.
Definition d1 := isort (map (fun v => v / 2 ^ 20) (lcg 300 12345 (2 ^ 40))).
Example ex1 : cert_of c1 d1 = true. Proof. vm_compute. reflexivity. Qed.

(* 2. u8 with duplicates, linear scan, two levels, double *)
Definition c2 := mkCfg (mkK 8 false) 1 1 true 1 false.
Definition d2 := isort (lcg 150 99 250).
Example ex2_shape : (has_dup d2, level_sizes c2 d2) = (true, [3; 17]). Proof. vm_compute. reflexivity. Qed.
Example ex2 : cert_of c2 d2 = true. Proof. vm_compute. reflexivity. Qed.

(* 3. u16, linear scan, two levels, float *)
Definition c3 := mkCfg (mkK 16 false) 1 1 false 1 false.
Definition d3 := cumsum 0 (map (fun v => 2 ^ ((v / 2 ^ 33) mod 9)) (lcg 300 999 (2 ^ 62))).
Example ex3_shape : level_sizes c3 d3 = [4; 49]. Proof. vm_compute. reflexivity. Qed.
Example ex3 : cert_of c3 d3 = true. Proof. vm_compute. reflexivity. Qed.

(* 4. u64, EpsilonRecursive = 65 > 64 = threshold: binary-search routing, double *)
Definition c4 := mkCfg (mkK 64 false) 1 65 true 1 false.
Definition d4 := cumsum 0 (map (fun v => 2 ^ ((v / 2 ^ 33) mod 30)) (lcg 400 31337 (2 ^ 62))).
Example ex4_thr : (c_epsrec c4 <=? compressed_linear_search_threshold (kbits (c_kt c4) / 8)) = false.
Proof. vm_compute. reflexivity. Qed.
Example ex4 : cert_of c4 d4 = true. Proof. vm_compute. reflexivity. Qed.

(* 5. u16, EpsilonRecursive = 257 > 256 = threshold: binary-search routing, float *)
Definition c5 := mkCfg (mkK 16 false) 2 257 false 1 false.
Example ex5_thr : (c_epsrec c5 <=? compressed_linear_search_threshold (kbits (c_kt c5) / 8)) = false.
Proof. vm_compute. reflexivity. Qed.
Example ex5 : cert_of c5 d3 = true. Proof. vm_compute. reflexivity. Qed.

(* 6. u8 with duplicates, EpsilonRecursive = 0, float *)
Definition c6 := mkCfg (mkK 8 false) 2 0 false 1 false.
Example ex6 : cert_of c6 d2 = true. Proof. vm_compute. reflexivity. Qed.

(* 7. u32, linear scan, two levels, double; data with duplicates (zero gaps) *)
Definition c7 := mkCfg (mkK 32 false) 2 2 true 1 false.
Definition d7 := cumsum 0 (map (fun v => (v / 2 ^ 33) mod 3 * 2 ^ ((v / 2 ^ 40) mod 20)) (lcg 300 4711 (2 ^ 62))).
Example ex7_shape : (has_dup d7, level_sizes c7 d7) = (true, [3; 36]). Proof. vm_compute. reflexivity. Qed.
Example ex7 : cert_of c7 d7 = true. Proof. vm_compute. reflexivity. Qed.

(* 8. u64 keys near the top of the type, linear scan *)
Definition c8 := mkCfg (mkK 64 false) 2 4 true 1 false.
Definition d8 := map (fun x => 2 ^ 64 - 2 - x) (rev d1).
Example ex8 : (last d8 0, cert_of c8 d8) = (2 ^ 64 - 2, true). Proof. vm_compute. reflexivity. Qed.

(* 9. the far-key instance that violated C08 before the saturation limit was lowered to 2^62 (u64, steep last
   segment with intercept >= 1024): the certificate now holds, and the former failing queries are fine *)
Definition c9 := mkCfg (mkK 64 false) 4 0 true 1 false.
Definition d9 := map (fun i => i * i) (zseq 0 1100) ++ map (fun j => 2000000 + j) (zseq 0 60).
Example ex9 : cert_of c9 d9 = true. Proof. vm_compute. reflexivity. Qed.
Example ex9_far :
  match compressed_build c9 d9 with
  | Ok cp => forallb (rep_ok c9 d9 cp) [2000000 + 2 ^ 63 - 513; 2000000 + 2 ^ 63 - 1024; 2000000 + 2 ^ 62; 2000000 + 2 ^ 62 - 1]
  | Err _ => false
  end = true.
Proof. vm_compute. reflexivity. Qed.

(* 10. a corrupted object: one intercept of the bottom level of instance 3 shifted by 20 *)
Fixpoint shift_nth (n : nat) (dlt : Z) (l : list Z) : list Z :=
  match l, n with
  | [], _ => []
  | v :: t, O => (v + dlt) :: t
  | v :: t, S k => v :: shift_nth k dlt t
  end.
Definition corrupt_level (n : nat) (dlt : Z) (l : clevel) : clevel :=
  mkClevel (cl_keys l) (cl_slopes_map l) (cl_offset l) (shift_nth n dlt (cl_vals l)) (cl_max l).
Fixpoint corrupt_last (n : nat) (dlt : Z) (ls : list clevel) : list clevel :=
  match ls with
  | [] => []
  | [l] => [corrupt_level n dlt l]
  | l :: t => l :: corrupt_last n dlt t
  end.
Definition corrupt (n : nat) (dlt : Z) (cp : compressed) : compressed :=
  mkCompressed (cp_n cp) (cp_first_key cp) (cp_root_slope cp) (cp_root_intercept cp) (cp_root_range cp)
               (cp_table cp) (corrupt_last n dlt (cp_levels cp)).
Example ex10 :
  match compressed_build c3 d3 with
  | Ok cp => let cp' := corrupt 20 20 cp in
             (cmp_cert_b c3 d3 cp', negb (match cmp_cert_failing c3 d3 cp' with [] => true | _ => false end))
  | Err _ => (true, false)
  end = (false, true).
Proof. vm_compute. reflexivity. Qed.
(* every reported query really violates the contract (or makes the search fail) on the corrupted object *)
Example ex10_failing_are_failing :
  match compressed_build c3 d3 with
  | Ok cp => let cp' := corrupt 20 20 cp in
             forallb (fun q => negb (rep_ok c3 d3 cp' q)) (cmp_cert_failing c3 d3 cp')
  | Err _ => false
  end = true.
Proof. vm_compute. reflexivity. Qed.

(* ComposeCapi.v — C18: the C wrapper (c-interface/cpgm.cpp) is PGMIndex<K, 1, EPSILON_RECURSIVE> built
   and searched at a run-time epsilon; in the model: IndexModel at c_eps = the run-time epsilon and
   c_epsrec = GenLeaf.c_epsilon_recursive (= 4, linear-scan routing).  The index contract of
   ComposeIdx.v instantiated at every run-time epsilon >= 1, and the NULL result of create. *)
Require Import Base Fp PlaModel GenLeaf IndexModel IndexProofs IdxChain Reject ComposeIdx ComposeBuild.
From Coq Require Import ZifyBool.
Local Open Scope Z_scope.

(* the configuration of pgm_index_<type>_create(data, n, epsilon) *)
Definition capi_cfg (kt : ktype) (eps : Z) (fdouble : bool) (par : Z) (avx : bool) : cfg :=
  mkCfg kt eps c_epsilon_recursive fdouble par avx.

Record capi_like (c : cfg) : Prop := mkCapi {
  cl_rec : c_epsrec c = c_epsilon_recursive;
  cl_bits : 8 <= kbits (c_kt c) <= 64;
  cl_eps : 1 <= c_eps c;
  cl_eps64 : c_eps c + 2 ^ 32 < 2 ^ 64 - 1;
  cl_par : 1 <= c_par c
}.

Lemma quot_le_lower a b q : 0 < b -> q * b <= a -> q <= Z.quot a b.
Proof. intros Hb H. apply Z.quot_le_lower_bound; lia. Qed.

Lemma capi_idx_ok c : capi_like c -> idx_ok c.
Proof.
  intros [Hr Hb He He64 Hp]. constructor; try lia; rewrite Hr; unfold c_epsilon_recursive; lia.
Qed.

Lemma capi_cfg_like kt eps fd par avx :
  8 <= kbits kt <= 64 -> 1 <= eps -> eps + 2 ^ 32 < 2 ^ 64 - 1 -> 1 <= par -> capi_like (capi_cfg kt eps fd par avx).
Proof. intros. constructor; cbn; (reflexivity || lia). Qed.

(* pgm_index_<type>_search at every run-time epsilon >= 1 *)
Theorem C18_search_contract kt eps fd par avx data ix q :
  let c := capi_cfg kt eps fd par avx in
  8 <= kbits kt <= 64 -> 1 <= eps -> eps + 2 ^ 32 < 2 ^ 64 - 1 -> 1 <= par ->
  float_ok_valid c -> data_ok c data -> build c data = Ok ix -> zlen (ix_segments ix) < 2 ^ 32 ->
  q < sentinel c ->
  exists a, search c ix q = Ok a /\
    0 <= a_lo a <= lb data q /\ lb data q <= a_hi a <= zlen data /\
    (In q data -> lb data q < a_hi a) /\ a_hi a - a_lo a <= 2 * eps + 2.
Proof.
  intros c Hb He He64 Hp Hf Hd Hbd Hs32 Hq.
  exact (search_contract_valid c data ix q (capi_idx_ok c (capi_cfg_like kt eps fd par avx Hb He He64 Hp)) Hf Hd Hbd Hs32 Hq).
Qed.

(* the same with the floating-point interface asked only at the evaluated key *)
Theorem C18_search_contract_at c data ix q :
  capi_like c -> data_ok c data -> build c data = Ok ix -> zlen (ix_segments ix) < 2 ^ 32 ->
  q < sentinel c -> float_ok c data (Z.max (hd 0 data) q) ->
  exists a, search c ix q = Ok a /\
    0 <= a_lo a /\ a_lo a <= lb data q /\ lb data q <= a_hi a /\ a_hi a <= zlen data /\
    (In q data -> lb data q < a_hi a) /\ a_hi a - a_lo a <= 2 * c_eps c + 2 /\ a_lo a <= a_pos a.
Proof. intros Hc. exact (search_contract_at c data ix q (capi_idx_ok c Hc)). Qed.

(* create returns NULL (the constructor throws invalid_argument) iff the data ends with the reserved value *)
Theorem C18_create_null_iff c data : capi_like c ->
  (build c data = Err ThrowInvalidArgument <-> data <> [] /\ last_z data = sentinel c).
Proof.
  intros Hc. pose proof (capi_idx_ok c Hc) as H.
  apply build_rejects_iff; [pose proof (io_eps c H); lia | exact (io_rec0 c H)].
Qed.

(* hence, on data satisfying the precondition, create never fails with invalid_argument *)
Corollary C18_create_not_null c data : capi_like c -> data_ok c data -> build c data <> Err ThrowInvalidArgument.
Proof.
  intros Hc Hd H. apply (C18_create_null_iff c data Hc) in H. destruct H as [_ H].
  pose proof (do_last c data Hd). lia.
Qed.

(* create + search: on valid data of at most 2^30 keys create succeeds (no exception of any kind) and
   every search below the reserved value satisfies the contract *)
Theorem C18_create_search c data :
  capi_like c -> c_par c <= 20 -> c_eps c <= 2 ^ 31 -> float_ok_valid c -> data_ok c data -> zlen data <= 2 ^ 30 ->
  exists ix, build c data = Ok ix /\
    forall q, q < sentinel c ->
      exists a, search c ix q = Ok a /\
        0 <= a_lo a <= lb data q /\ lb data q <= a_hi a <= zlen data /\
        (In q data -> lb data q < a_hi a) /\ a_hi a - a_lo a <= 2 * c_eps c + 2.
Proof.
  intros Hc Hp He Hf Hd Hn. apply build_search_contract; try assumption; [exact (capi_idx_ok c Hc)|].
  constructor; try assumption. rewrite (cl_rec c Hc). unfold c_epsilon_recursive. lia.
Qed.

Print Assumptions C18_create_search.
Print Assumptions C18_search_contract.
Print Assumptions C18_create_null_iff.

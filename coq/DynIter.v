(* DynIter.v — the Iterator of the DynamicPGMIndex model (lazy_initialize / advance / iterate) visits exactly
   the live keys of the ordered map, in increasing order; begin / size / empty (C06). *)
From Coq Require Import ZArith List Bool Lia ZifyBool.
Require Import Base GenLeaf DynModel DynSpec DynCoreLemmas DynCoreInv DynCoreRefine DynCoreQuery DynCoreLB.
Require Import DynIterRange DynIterTree.
Local Open Scope Z_scope.

(* ---------- rows: what is left of each level behind its cursor ---------- *)
Definition headkey (row : list item) : option Z := match row with [] => None | e :: _ => Some (it_key e) end.
Definition is_nil {A} (l : list A) : bool := match l with [] => true | _ => false end.
Fixpoint ncount (rows : list (list item)) : Z :=
  match rows with [] => 0 | r :: t => (if is_nil r then 0 else 1) + ncount t end.

Lemma ncount_nonneg : forall rows, 0 <= ncount rows.
Proof. induction rows as [|r t IH]; cbn [ncount]; [lia|]. destruct (is_nil r); lia. Qed.

Lemma ncount_zero : forall rows, ncount rows = 0 -> Forall (fun r => r = []) rows.
Proof.
  induction rows as [|r t IH]; intros H; [constructor|]. cbn [ncount] in H. pose proof (ncount_nonneg t).
  destruct r; cbn [is_nil] in H; [|lia]. constructor; auto.
Qed.

Lemma ncount_pos : forall rows, 0 < ncount rows -> exists j k, nth_error (map headkey rows) j = Some (Some k).
Proof.
  induction rows as [|r t IH]; intros H; cbn [ncount] in H; [lia|].
  destruct r as [|e r].
  - cbn [is_nil] in H. destruct (IH ltac:(lia)) as [j [k Hj]]. exists (S j), k. exact Hj.
  - exists 0%nat, (it_key e). reflexivity.
Qed.

Lemma ncount_all : forall rows, Forall (fun r => r <> []) rows -> ncount rows = zlen rows.
Proof.
  unfold zlen. induction rows as [|r t IH]; intros H; [reflexivity|]. inversion H; subst.
  cbn [ncount length]. rewrite IH by auto. destruct r; [contradiction|cbn [is_nil]; lia].
Qed.

Lemma ncount_set_nth : forall rows s e rest, nth_error rows s = Some (e :: rest) ->
  ncount (set_nth rows s rest) = ncount rows - (if is_nil rest then 1 else 0).
Proof.
  induction rows as [|r t IH]; intros s e rest H; [destruct s; discriminate|].
  destruct s as [|s]; cbn [nth_error] in H; cbn [set_nth ncount].
  - inversion H; subst. cbn [is_nil]. destruct (is_nil rest); lia.
  - rewrite (IH s e rest H). lia.
Qed.

(* ---------- list lemmas ---------- *)
Lemma skipn_cons_inv : forall A (l : list A) n e rest, skipn n l = e :: rest ->
  nth_error l n = Some e /\ skipn (S n) l = rest /\ (n < length l)%nat.
Proof.
  induction l as [|x l IH]; intros n e rest H.
  - destruct n; discriminate.
  - destruct n as [|n]; cbn [skipn] in H.
    + inversion H; subst. cbn. split; [auto|split; [auto|lia]].
    + destruct (IH n e rest H) as [H1 [H2 H3]]. cbn [nth_error length]. split; [auto|split; [auto|lia]].
Qed.

Lemma skipn_nil_iff : forall A (l : list A) n, skipn n l = [] <-> (length l <= n)%nat.
Proof.
  induction l as [|x l IH]; intros n.
  - rewrite skipn_nil. cbn. split; [lia|auto].
  - destruct n as [|n]; cbn [skipn length].
    + split; [discriminate|lia].
    + rewrite IH. lia.
Qed.

Lemma map_set_nth_same : forall A B (f : A -> B) l n x y, nth_error l n = Some y -> f y = f x ->
  map f (set_nth l n x) = map f l.
Proof.
  induction l as [|a l IH]; intros n x y Hn Hf; [destruct n; discriminate|].
  destruct n as [|n]; cbn [nth_error set_nth map] in *.
  - inversion Hn; subst. congruence.
  - f_equal. eapply IH; eauto.
Qed.

Lemma map_set_nth : forall A B (f : A -> B) l n x, map f (set_nth l n x) = set_nth (map f l) n (f x).
Proof.
  induction l as [|a l IH]; intros n x; [destruct n; reflexivity|].
  destruct n as [|n]; cbn [set_nth map]; [reflexivity|]. f_equal. apply IH.
Qed.

Lemma Forall_set_nth : forall A (Q : A -> Prop) l n x, Forall Q l -> Q x -> Forall Q (set_nth l n x).
Proof.
  induction l as [|a l IH]; intros n x Hf Hx; [destruct n; constructor|].
  inversion Hf; subst. destruct n as [|n]; cbn [set_nth]; constructor; auto.
Qed.

Lemma Forall_nth_error : forall A (Q : A -> Prop) l n x, Forall Q l -> nth_error l n = Some x -> Q x.
Proof. intros A Q l n x Hf Hn. rewrite Forall_forall in Hf. apply Hf. eapply nth_error_In; eauto. Qed.

Lemma sumlen_set_nth : forall rows s (e : item) rest, nth_error rows s = Some (e :: rest) ->
  sumlen (set_nth rows s rest) = sumlen rows - 1.
Proof.
  induction rows as [|r t IH]; intros s e rest H; [destruct s; discriminate|].
  destruct s as [|s]; cbn [nth_error] in H; cbn [set_nth sumlen].
  - inversion H; subst. unfold zlen. cbn [length]. lia.
  - rewrite (IH s e rest H). lia.
Qed.

Lemma filter_len_le : forall A (f : A -> bool) l, (length (filter f l) <= length l)%nat.
Proof. induction l as [|x l IH]; cbn [filter length]; [lia|]. destruct (f x); cbn [length]; lia. Qed.

Lemma sumlen_kfilter_le : forall f rows, sumlen (map (kfilter f) rows) <= sumlen rows.
Proof.
  induction rows as [|r t IH]; cbn [map sumlen]; [lia|].
  assert (zlen (kfilter f r) <= zlen r).
  { unfold zlen, kfilter. pose proof (filter_len_le _ (fun e => f (it_key e)) r). lia. }
  lia.
Qed.

(* ---------- first hit across rows ---------- *)
Lemma look_map_kfilter : forall f Ls k,
  look_levels (map (kfilter f) Ls) k = if f k then look_levels Ls k else None.
Proof.
  induction Ls as [|l Ls IH]; intros k; cbn [map look_levels].
  - destruct (f k); reflexivity.
  - rewrite kfilter_lookup, IH. destruct (f k); auto.
Qed.

Lemma look_none_all : forall Ls k, Forall (fun l => level_lookup l k = None) Ls -> look_levels Ls k = None.
Proof.
  induction Ls as [|l Ls IH]; intros k H; [reflexivity|]. inversion H; subst.
  cbn [look_levels]. rewrite H2. auto.
Qed.

Lemma look_at : forall rows s r k e, nth_error rows s = Some r -> level_lookup r k = Some e ->
  (forall j r', (j < s)%nat -> nth_error rows j = Some r' -> level_lookup r' k = None) ->
  look_levels rows k = Some e.
Proof.
  induction rows as [|r0 rows IH]; intros s r k e Hn Hl Hb; [destruct s; discriminate|].
  destruct s as [|s]; cbn [nth_error] in Hn; cbn [look_levels].
  - inversion Hn; subst. rewrite Hl. reflexivity.
  - rewrite (Hb 0%nat r0 ltac:(lia) eq_refl). eapply IH; eauto.
    intros j r' Hj Hn'. apply (Hb (S j) r'); [lia|exact Hn'].
Qed.

Lemma isrt_head_lookup_none : forall row k, isrt row ->
  match row with [] => True | e :: _ => k < it_key e end -> level_lookup row k = None.
Proof.
  intros [|e rest] k Hs H; [reflexivity|]. destruct Hs as [Hf _].
  apply lookup_none_gt. constructor; auto. eapply Forall_lt_trans; [|exact Hf]. lia.
Qed.

Lemma kfilter_kfilter_lt : forall K K' l, K <= K' ->
  kfilter (fun k => K' <? k) (kfilter (fun k => K <? k) l) = kfilter (fun k => K' <? k) l.
Proof.
  intros K K' l H. unfold kfilter. induction l as [|x l IH]; [reflexivity|]. cbn [filter].
  destruct (K <? it_key x) eqn:E1; cbn [filter]; rewrite IH; auto.
  destruct (K' <? it_key x) eqn:E2; [lia|auto].
Qed.

Lemma isrt_all_ge_head : forall e rest, isrt (e :: rest) -> Forall (fun x => it_key e <= it_key x) (e :: rest).
Proof.
  intros e rest [Hf _]. constructor; [lia|]. eapply Forall_impl; [|exact Hf]. cbn. intros. lia.
Qed.

Lemma Forall2_nth_error_r : forall A B (R : A -> B -> Prop) l l' n y, Forall2 R l l' ->
  nth_error l' n = Some y -> exists x, nth_error l n = Some x /\ R x y.
Proof.
  intros A B R l l' n y H. revert n. induction H as [|a b l l' Hab H IH]; intros n Hn; [destruct n; discriminate|].
  destruct n as [|n]; cbn [nth_error] in *.
  - inversion Hn; subst. eauto.
  - apply IH; auto.
Qed.

Lemma Forall2_set_nth : forall A B (R : A -> B -> Prop) l l' n x y, Forall2 R l l' -> R x y ->
  Forall2 R (set_nth l n x) (set_nth l' n y).
Proof.
  intros A B R l l' n x y H Hxy. revert n. induction H as [|a b l l' Hab H IH]; intros n.
  - destruct n; constructor.
  - destruct n as [|n]; cbn [set_nth]; constructor; auto.
Qed.

Lemma Forall2_len : forall A B (R : A -> B -> Prop) l l', Forall2 R l l' -> length l = length l'.
Proof. intros A B R l l' H. induction H; cbn [length]; auto. Qed.

Section IterSec.
Context {P : Type} (ops : pgmops P) (kmax : Z).
Hypothesis Hc : pgm_contract ops kmax.
Variable tree_ok : ltree -> list (option Z) -> Prop.
Hypothesis HT : tree_iface kmax tree_ok.
Notation dynP := (@dyn P).
Notation Inv := (Inv ops kmax).

(* cursor c of the implementation stands for the row (suffix of its level) *)
Definition clink (d : dynP) (c : cursor) (row : list item) : Prop :=
  exists li, level d (cu_level c) = Ok li /\ 0 <= cu_idx c /\ row = skipn (Z.to_nat (cu_idx c)) li.

Record ist_ok (d : dynP) (it : iter) (rows : list (list item)) : Prop := mkIst {
  io_link : Forall2 (clink d) (i_its it) rows;
  io_unc : i_unconsumed it = ncount rows;
  io_tree : 0 < ncount rows -> tree_ok (i_tree it) (map headkey rows);
  io_srt : Forall isrt rows;
  io_keys : Forall (Forall (fun e => it_key e < kmax)) rows;
  io_len : zlen rows <= 64
}.

Lemma ist_ok_step : forall d it rows sn c li e rest t',
  ist_ok d it rows -> nth_error rows sn = Some (e :: rest) -> nth_error (i_its it) sn = Some c ->
  level d (cu_level c) = Ok li -> 0 <= cu_idx c -> e :: rest = skipn (Z.to_nat (cu_idx c)) li ->
  tree_ok t' (set_nth (map headkey rows) sn (headkey rest)) ->
  ist_ok d (mkIter (i_cur it) (i_init it) (i_unconsumed it - (if is_nil rest then 1 else 0)) t'
                   (set_nth (i_its it) sn (mkCur (cu_level c) (cu_idx c + 1))))
         (set_nth rows sn rest).
Proof.
  intros d it rows sn c li e rest t' [L U T Sr K N] Hr Hc' Hl H0 Hsk Ht.
  symmetry in Hsk. destruct (skipn_cons_inv _ _ _ _ _ Hsk) as [_ [Hrest _]].
  pose proof (Forall_nth_error _ _ _ _ _ Sr Hr) as Hse. pose proof (Forall_nth_error _ _ _ _ _ K Hr) as Hke.
  constructor; cbn [i_its i_unconsumed i_tree].
  - apply Forall2_set_nth; auto. exists li. cbn [cu_level cu_idx]. csplit; auto; [lia|].
    replace (Z.to_nat (cu_idx c + 1)) with (S (Z.to_nat (cu_idx c))) by lia. auto.
  - rewrite (ncount_set_nth rows sn e rest Hr). lia.
  - intros _. rewrite map_set_nth. exact Ht.
  - apply Forall_set_nth; auto. apply Hse.
  - apply Forall_set_nth; auto. inversion Hke; auto.
  - unfold zlen in *. rewrite set_nth_length. auto.
Qed.

Lemma iter_step_ok : forall d it rows, d_kmax d = kmax -> ist_ok d it rows -> 0 < ncount rows ->
  exists s c e rest it',
    min_source (i_tree it) = Ok s /\ nth_res (i_its it) s = Ok c /\ cur_item d c = Ok e /\
    iter_step d it = Ok (it', c) /\
    is_min_src kmax (map headkey rows) s /\ nth_error rows (Z.to_nat s) = Some (e :: rest) /\
    ist_ok d it' (set_nth rows (Z.to_nat s) rest) /\ i_cur it' = i_cur it /\ i_init it' = i_init it.
Proof.
  intros d it rows Hk HI Hpos. assert (HI' := HI). destruct HI' as [L U T Sr K N].
  destruct (ti_min _ _ HT _ _ (T Hpos) (ncount_pos rows Hpos)) as [s [Hmin Hms]].
  assert (Hms' := Hms). destruct Hms' as [Hs0 [k [Hk1 Hk2]]].
  rewrite nth_error_map in Hk1. destruct (nth_error rows (Z.to_nat s)) as [row|] eqn:Hrow; [|discriminate].
  cbn [option_map] in Hk1. destruct row as [|e rest]; [discriminate|]. cbn [headkey] in Hk1.
  destruct (Forall2_nth_error_r _ _ _ _ _ _ _ L Hrow) as [c [Hc1 [li [Hl [Hi0 Hsk]]]]].
  assert (Hn : nth_res (i_its it) s = Ok c) by (apply nth_res_ok; auto).
  symmetry in Hsk. destruct (skipn_cons_inv _ _ _ _ _ Hsk) as [He [Hrest Hlt]].
  assert (Hcur : cur_item d c = Ok e).
  { unfold cur_item. rewrite Hl. cbn [bind]. apply nth_res_ok. auto. }
  assert (Hke : Forall (fun x => it_key x < kmax) (e :: rest)) by (eapply Forall_nth_error; eauto).
  assert (Hh : nth_error (map headkey rows) (Z.to_nat s) = Some (Some (it_key e))).
  { rewrite nth_error_map, Hrow. reflexivity. }
  assert (Hnk : match headkey rest with Some k' => k' < kmax | None => True end).
  { destruct rest as [|e2 r2]; cbn [headkey]; auto. inversion Hke as [|? ? _ Hke2]; subst.
    inversion Hke2; auto. }
  destruct (ti_step _ _ HT _ _ s (it_key e) (headkey rest) (T Hpos) Hmin Hs0 Hh Hnk) as [t' [Hd Ht']].
  pose proof (ist_ok_step d it rows (Z.to_nat s) c li e rest t' HI Hrow Hc1 Hl Hi0 (eq_sym Hsk) Ht') as HI2.
  exists s, c, e, rest. eexists. csplit; [exact Hmin|exact Hn|exact Hcur| |exact Hms|exact Hrow|exact HI2|reflexivity|reflexivity].
  unfold iter_step. rewrite Hmin. cbn [bind]. rewrite Hn. cbn [bind]. rewrite Hl. cbn [bind cu_idx].
  rewrite Hk. destruct rest as [|e2 r2].
  - apply skipn_nil_iff in Hrest. assert (E : (cu_idx c + 1 =? zlen li) = true) by (unfold zlen; lia).
    rewrite E. cbn [headkey] in Hd. rewrite Hd. cbn [bind is_nil]. reflexivity.
  - destruct (skipn_cons_inv _ _ _ _ _ Hrest) as [He2 [_ Hlt2]].
    assert (E : (cu_idx c + 1 =? zlen li) = false) by (unfold zlen; lia). rewrite E.
    assert (Hn2 : nth_res li (cu_idx c + 1) = Ok e2).
    { apply nth_res_ok. split; [lia|]. replace (Z.to_nat (cu_idx c + 1)) with (S (Z.to_nat (cu_idx c))) by lia. auto. }
    rewrite Hn2. cbn [bind headkey] in Hd |- *. rewrite Hd. cbn [bind is_nil].
    replace (i_unconsumed it - 0) with (i_unconsumed it) by lia. reflexivity.
Qed.

(* ---------- skip_equal ---------- *)
Definition allge (K : Z) (rows : list (list item)) : Prop := Forall (Forall (fun e => K <= it_key e)) rows.
Definition gtf (K : Z) : Z -> bool := fun k => K <? k.

Fixpoint count_eq (K : Z) (rows : list (list item)) : nat :=
  match rows with
  | [] => 0%nat
  | r :: t => Nat.add (match r with e :: _ => if it_key e =? K then 1%nat else 0%nat | [] => 0%nat end) (count_eq K t)
  end.

Lemma count_eq_le : forall K rows, (count_eq K rows <= length rows)%nat.
Proof.
  induction rows as [|r t IH]; cbn [count_eq length]; [lia|].
  destruct r as [|e r]; [lia|]. destruct (it_key e =? K); lia.
Qed.

Lemma count_eq_set_nth : forall K rows sn e rest, nth_error rows sn = Some (e :: rest) ->
  it_key e = K -> isrt (e :: rest) -> (count_eq K (set_nth rows sn rest) < count_eq K rows)%nat.
Proof.
  induction rows as [|r t IH]; intros sn e rest Hn Hk Hs; [destruct sn; discriminate|].
  destruct sn as [|sn]; cbn [nth_error] in Hn; cbn [set_nth count_eq].
  - inversion Hn; subst r. assert (E : (it_key e =? K) = true) by lia. rewrite E.
    destruct rest as [|e2 r2]; [lia|]. destruct Hs as [Hf _]. inversion Hf; subst.
    assert (E2 : (it_key e2 =? it_key e) = false) by lia. rewrite E2. lia.
  - specialize (IH sn e rest Hn Hk Hs). lia.
Qed.

Lemma map_id_in : forall A (f : A -> A) l, (forall x, In x l -> f x = x) -> map f l = l.
Proof.
  induction l as [|a l IH]; intros H; [reflexivity|]. cbn [map]. rewrite H by (left; auto).
  f_equal. apply IH. intros x Hx. apply H. right; auto.
Qed.

Lemma gtf_id_head : forall K row, isrt row -> match row with [] => True | e :: _ => K < it_key e end ->
  kfilter (gtf K) row = row.
Proof.
  intros K [|e rest] Hs H; [reflexivity|]. apply kfilter_all_true.
  pose proof (isrt_all_ge_head e rest Hs) as Hge. eapply Forall_impl; [|exact Hge].
  cbn. unfold gtf. intros. lia.
Qed.

Lemma gtf_drop_head : forall K e rest, it_key e = K -> kfilter (gtf K) (e :: rest) = kfilter (gtf K) rest.
Proof.
  intros K e rest Hk. unfold kfilter, gtf. cbn [filter]. assert (E : (K <? it_key e) = false) by lia.
  rewrite E. reflexivity.
Qed.

Lemma min_all_heads_gt : forall rows s e K, is_min_src kmax (map headkey rows) s ->
  nth_error rows (Z.to_nat s) = Some e -> Forall isrt rows ->
  (forall x rest, e = x :: rest -> K < it_key x) ->
  forall row, In row rows -> kfilter (gtf K) row = row.
Proof.
  intros rows s e K [Hs0 [k [Hk1 Hk2]]] He Hsrt HK row Hin.
  rewrite nth_error_map, He in Hk1. cbn [option_map] in Hk1.
  destruct e as [|x rest]; [discriminate|]. cbn [headkey] in Hk1. inversion Hk1; subst k.
  specialize (HK x rest eq_refl).
  apply In_nth_error in Hin. destruct Hin as [j Hj].
  apply gtf_id_head; [eapply Forall_nth_error; eauto|].
  destruct row as [|y r]; auto.
  destruct (Hk2 j (Some (it_key y))) as [Hle _]; [rewrite nth_error_map, Hj; reflexivity|].
  cbn [hkey] in Hle. lia.
Qed.

Lemma skip_equal_ok : forall fuel d it rows K, d_kmax d = kmax -> ist_ok d it rows -> allge K rows ->
  (count_eq K rows < fuel)%nat ->
  exists it', skip_equal fuel d it K = Ok it' /\ ist_ok d it' (map (kfilter (gtf K)) rows) /\
              i_cur it' = i_cur it /\ i_init it' = i_init it.
Proof.
  induction fuel as [|fuel IH]; intros d it rows K Hk HI Hge Hf; [lia|].
  cbn [skip_equal]. destruct (i_unconsumed it >? 0) eqn:Eu.
  - assert (Hpos : 0 < ncount rows) by (rewrite <- (io_unc _ _ _ HI); lia).
    destruct (iter_step_ok d it rows Hk HI Hpos) as [s [c [e [rest [it1 [Hmin [Hn [Hcur [Hst [Hms [Hrow [HI1 [Hc1 Hi1]]]]]]]]]]]]].
    rewrite Hmin. cbn [bind]. rewrite Hn. cbn [bind]. rewrite Hcur. cbn [bind].
    pose proof (Forall_nth_error _ _ _ _ _ (io_srt _ _ _ HI) Hrow) as Hse.
    pose proof (Forall_nth_error _ _ _ _ _ Hge Hrow) as Hgee.
    destruct (it_key e =? K) eqn:Ek.
    + rewrite Hst. cbn [bind fst].
      destruct (IH d it1 (set_nth rows (Z.to_nat s) rest) K Hk HI1) as [it' [H1 [H2 [H3 H4]]]].
      * apply Forall_set_nth; auto. inversion Hgee; auto.
      * pose proof (count_eq_set_nth K rows (Z.to_nat s) e rest Hrow ltac:(lia) Hse). lia.
      * exists it'. csplit; auto; try congruence.
        rewrite (map_set_nth_same _ _ (kfilter (gtf K)) rows (Z.to_nat s) rest (e :: rest) Hrow) in H2; auto.
        apply gtf_drop_head. lia.
    + exists it. csplit; auto. rewrite map_id_in; auto.
      apply (min_all_heads_gt rows s (e :: rest) K Hms Hrow (io_srt _ _ _ HI)).
      intros x r Hx. inversion Hx; subst x r. inversion Hgee; subst. lia.
  - exists it. csplit; auto. rewrite map_id_in; auto. intros row Hin.
    assert (Hz : ncount rows = 0) by (pose proof (ncount_nonneg rows); pose proof (io_unc _ _ _ HI); lia).
    apply ncount_zero in Hz. rewrite Forall_forall in Hz. rewrite (Hz row Hin). reflexivity.
Qed.

(* ---------- one round of advance(): the minimum over all cursors ---------- *)
Lemma min_facts : forall rows s e rest, is_min_src kmax (map headkey rows) s ->
  nth_error rows (Z.to_nat s) = Some (e :: rest) -> Forall isrt rows ->
  allge (it_key e) rows /\ look_levels rows (it_key e) = Some e /\
  forall k, k < it_key e -> look_levels rows k = None.
Proof.
  intros rows s e rest [Hs0 [k [Hk1 Hk2]]] Hrow Hsrt.
  rewrite nth_error_map, Hrow in Hk1. cbn [option_map headkey] in Hk1. inversion Hk1; subst k. clear Hk1.
  assert (Hhead : forall j y r, nth_error rows j = Some (y :: r) ->
            it_key e <= it_key y /\ (Z.of_nat j < s -> it_key e < it_key y)).
  { intros j y r Hj. apply (Hk2 j (Some (it_key y))). rewrite nth_error_map, Hj. reflexivity. }
  csplit.
  - apply Forall_forall. intros row Hin. apply In_nth_error in Hin. destruct Hin as [j Hj].
    destruct row as [|y r]; [constructor|]. destruct (Hhead j y r Hj) as [Hle _].
    pose proof (isrt_all_ge_head y r (Forall_nth_error _ _ _ _ _ Hsrt Hj)) as Hge.
    eapply Forall_impl; [|exact Hge]. cbn. intros. lia.
  - eapply look_at; [exact Hrow| |].
    + rewrite lookup_cons, Z.eqb_refl. reflexivity.
    + intros j r' Hj Hn. apply isrt_head_lookup_none; [eapply Forall_nth_error; eauto|].
      destruct r' as [|y r]; auto. destruct (Hhead j y r Hn) as [_ Hlt]. apply Hlt. lia.
  - intros k Hk. apply look_none_all. apply Forall_forall. intros row Hin.
    apply In_nth_error in Hin. destruct Hin as [j Hj].
    apply isrt_head_lookup_none; [eapply Forall_nth_error; eauto|].
    destruct row as [|y r]; auto. destruct (Hhead j y r Hj) as [Hle _]. lia.
Qed.

Lemma map_gtf_gtf : forall K K' rows, K <= K' ->
  map (kfilter (gtf K')) (map (kfilter (gtf K)) rows) = map (kfilter (gtf K')) rows.
Proof.
  intros K K' rows H. rewrite map_map. apply map_ext. intros l. apply kfilter_kfilter_lt; auto.
Qed.

Lemma advance_loop_ok : forall fuel d it rows, d_kmax d = kmax -> ist_ok d it rows -> 0 < ncount rows ->
  sumlen rows < Z.of_nat fuel ->
  exists it' e tmp, advance_loop fuel d it = Ok (it', e, tmp) /\ cur_item d tmp = Ok e /\
    ist_ok d it' (map (kfilter (gtf (it_key e))) rows) /\
    look_levels rows (it_key e) = Some e /\
    (forall k, k < it_key e -> val_of (look_levels rows k) = None) /\
    (deleted e = false \/ ncount (map (kfilter (gtf (it_key e))) rows) = 0) /\
    sumlen (map (kfilter (gtf (it_key e))) rows) < sumlen rows /\
    i_cur it' = i_cur it /\ i_init it' = i_init it.
Proof.
  induction fuel as [|fuel IH]; intros d it rows Hk HI Hpos Hf.
  { pose proof (sumlen_nonneg rows). lia. }
  cbn [advance_loop].
  destruct (iter_step_ok d it rows Hk HI Hpos) as [s [c [e [rest [it1 [Hmin [Hn [Hcur [Hst [Hms [Hrow [HI1 [Hc1 Hi1]]]]]]]]]]]]].
  rewrite Hst. cbn [bind]. rewrite Hcur. cbn [bind].
  destruct (min_facts rows s e rest Hms Hrow (io_srt _ _ _ HI)) as [Hge [Hlook Hnone]].
  pose proof (Forall_nth_error _ _ _ _ _ Hge Hrow) as Hgee.
  set (K := it_key e) in *. set (rows1 := set_nth rows (Z.to_nat s) rest) in *.
  assert (Hge1 : allge K rows1). { apply Forall_set_nth; auto. inversion Hgee; auto. }
  assert (Hcnt : (count_eq K rows1 < 300)%nat).
  { pose proof (count_eq_le K rows1). pose proof (io_len _ _ _ HI1). unfold zlen in *. lia. }
  destruct (skip_equal_ok 300 d it1 rows1 K Hk HI1 Hge1 Hcnt) as [it2 [Hsk [HI2 [Hc2 Hi2]]]].
  rewrite Hsk. cbn [bind].
  assert (Hmap : map (kfilter (gtf K)) rows1 = map (kfilter (gtf K)) rows).
  { apply (map_set_nth_same _ _ (kfilter (gtf K)) rows (Z.to_nat s) rest (e :: rest) Hrow).
    apply gtf_drop_head. reflexivity. }
  rewrite Hmap in HI2. set (rows2 := map (kfilter (gtf K)) rows) in *.
  assert (Hsum : sumlen rows2 < sumlen rows).
  { pose proof (sumlen_kfilter_le (gtf K) rows1). rewrite Hmap in H. fold rows2 in H.
    pose proof (sumlen_set_nth rows (Z.to_nat s) e rest Hrow). fold rows1 in H0. lia. }
  destruct ((i_unconsumed it2 >? 0) && deleted e) eqn:Eb.
  - apply andb_true_iff in Eb. destruct Eb as [Eu Ed].
    assert (Hpos2 : 0 < ncount rows2) by (rewrite <- (io_unc _ _ _ HI2); lia).
    destruct (IH d it2 rows2 Hk HI2 Hpos2 ltac:(lia)) as [it' [e' [tmp [Ha [Hcu [HI' [Hl' [Hn' [Hd' [Hs' [Hc' Hi']]]]]]]]]]].
    unfold rows2 in Hl'. rewrite look_map_kfilter in Hl'. unfold gtf in Hl' at 1.
    destruct (K <? it_key e') eqn:EK; [|discriminate].
    pose proof (map_gtf_gtf K (it_key e') rows ltac:(lia)) as Hmm. fold rows2 in Hmm.
    rewrite Hmm in HI'. rewrite Hmm in Hd'. rewrite Hmm in Hs'.
    exists it', e', tmp. csplit; auto; try lia; try congruence.
    intros k Hk'. destruct (Z_lt_dec k K) as [H1|H1]; [rewrite Hnone; auto|].
    destruct (Z.eq_dec k K) as [->|H2].
    + rewrite Hlook. cbn [val_of]. unfold deleted in Ed. destruct (it_val e); [discriminate|reflexivity].
    + specialize (Hn' k Hk'). unfold rows2 in Hn'. rewrite look_map_kfilter in Hn'. unfold gtf in Hn' at 1.
      assert (E : (K <? k) = true) by lia. rewrite E in Hn'. exact Hn'.
  - exists it2, e, c. fold K. fold rows2. csplit; auto; try congruence.
    + intros k Hk'. rewrite Hnone; auto.
    + apply andb_false_iff in Eb. destruct Eb as [Eu|Ed]; [right|left; auto].
      pose proof (ncount_nonneg rows2). pose proof (io_unc _ _ _ HI2). lia.
Qed.

(* ---------- advance() ---------- *)
(* rows hold exactly the items of the levels U with key > c *)
Definition Rinv (U : list (list item)) (c : Z) (rows : list (list item)) : Prop :=
  forall k, look_levels rows k = if c <? k then look_levels U k else None.

Lemma ist_ok_cur_irrel : forall d it rows x b, ist_ok d it rows ->
  ist_ok d (mkIter x b (i_unconsumed it) (i_tree it) (i_its it)) rows.
Proof. intros d it rows x b [L U T Sr K N]. constructor; auto. Qed.

Lemma Rinv_step : forall U c K rows, c < K -> Rinv U c rows -> Rinv U K (map (kfilter (gtf K)) rows).
Proof.
  intros U c K rows H HR k. rewrite look_map_kfilter, HR. unfold gtf.
  destruct (K <? k) eqn:E; auto. assert (E2 : (c <? k) = true) by lia. rewrite E2. auto.
Qed.

Definition adv_post (d : dynP) (U : list (list item)) (c : Z) (it : iter) (rows : list (list item)) (it' : iter) : Prop :=
  (i_cur it' = None /\ forall k, c < k -> val_of (look_levels U k) = None) \/
  (exists tmp e v, i_cur it' = Some tmp /\ cur_item d tmp = Ok e /\ it_val e = Some v /\ c < it_key e /\
     look_levels U (it_key e) = Some e /\ (forall k, c < k < it_key e -> val_of (look_levels U k) = None) /\
     i_init it' = i_init it /\
     exists rows', ist_ok d it' rows' /\ Rinv U (it_key e) rows' /\ sumlen rows' < sumlen rows).

Lemma advance_ok : forall d it rows c U, d_kmax d = kmax -> ist_ok d it rows -> Rinv U c rows ->
  sumlen rows <= Z.of_nat (total_items d) ->
  exists it', advance d it = Ok it' /\ adv_post d U c it rows it'.
Proof.
  intros d it rows c U Hk HI HR Hsum. unfold advance. destruct (i_unconsumed it =? 0) eqn:Eu.
  - exists (iter_at None). split; auto. left. split; auto. intros k Hck.
    assert (Hz : ncount rows = 0) by (pose proof (io_unc _ _ _ HI); lia).
    apply ncount_zero in Hz. specialize (HR k). assert (E : (c <? k) = true) by lia. rewrite E in HR.
    rewrite <- HR. rewrite look_none_all; auto. eapply Forall_impl; [|exact Hz]. cbn. intros a ->. reflexivity.
  - assert (Hpos : 0 < ncount rows).
    { pose proof (ncount_nonneg rows). pose proof (io_unc _ _ _ HI). lia. }
    destruct (advance_loop_ok (S (total_items d)) d it rows Hk HI Hpos ltac:(lia))
      as [it1 [e [tmp [Ha [Hcu [HI1 [Hl [Hn [Hd [Hs [Hc1 Hi1]]]]]]]]]]].
    rewrite Ha. cbn [bind]. set (K := it_key e) in *.
    pose proof (HR K) as HRK. rewrite Hl in HRK. destruct (c <? K) eqn:EcK; [|discriminate].
    assert (Hbelow : forall k, c < k < K -> val_of (look_levels U k) = None).
    { intros k Hk'. specialize (Hn k ltac:(lia)). rewrite HR in Hn.
      assert (E : (c <? k) = true) by lia. rewrite E in Hn. exact Hn. }
    destruct (deleted e) eqn:Ed.
    + exists (iter_at None). split; auto. left. split; auto. intros k Hck.
      destruct (Z_lt_dec k K) as [H1|H1]; [apply Hbelow; lia|].
      destruct (Z.eq_dec k K) as [->|H2].
      * rewrite <- HRK. cbn [val_of]. unfold deleted in Ed. destruct (it_val e); [discriminate|reflexivity].
      * destruct Hd as [Hd|Hd]; [discriminate|]. apply ncount_zero in Hd.
        pose proof (Rinv_step U c K rows ltac:(lia) HR k) as HRk. unfold gtf in HRk.
        assert (E : (K <? k) = true) by lia. rewrite E in HRk. rewrite <- HRk.
        rewrite look_none_all; auto. eapply Forall_impl; [|exact Hd]. cbn. intros a ->. reflexivity.
    + eexists. split; [reflexivity|]. right. unfold deleted in Ed.
      destruct (it_val e) as [v|] eqn:Ev; [|discriminate].
      exists tmp, e, v. cbn [i_cur i_init]. csplit; auto; try lia.
      exists (map (kfilter (gtf K)) rows). csplit; auto.
      * apply ist_ok_cur_irrel. exact HI1.
      * apply Rinv_step with (c := c); auto. lia.
Qed.

(* ---------- lazy_initialize ---------- *)
Lemma Rinv_cons : forall U c rows li, Rinv U c rows ->
  Rinv (li :: U) c (kfilter (gtf c) li :: rows).
Proof.
  intros U c rows li HR k. cbn [look_levels]. rewrite kfilter_lookup, HR. unfold gtf.
  destruct (c <? k); auto.
Qed.

Lemma Rinv_cons_nil : forall U c rows li, Rinv U c rows -> kfilter (gtf c) li = [] -> Rinv (li :: U) c rows.
Proof.
  intros U c rows li HR Hnil k. pose proof (Rinv_cons U c rows li HR k) as H. rewrite Hnil in H. exact H.
Qed.

Lemma lazy_levels_spec : forall n d s c, Inv d -> c < kmax ->
  d_min_level d <= s -> s - d_min_level d + Z.of_nat n <= zlen (d_levels d) ->
  exists its rows, lazy_levels ops d (zseq s n) c = Ok its /\ Forall2 (clink d) its rows /\
    Forall (fun r => r <> []) rows /\ Rinv (levels_from d s n) c rows /\ Forall isrt rows /\
    Forall (Forall (fun e => it_key e < kmax)) rows /\
    sumlen rows <= sumlen (levels_from d s n) /\ zlen rows <= Z.of_nat n.
Proof.
  induction n as [|n IH]; intros d s c HI Hck Hs Hr.
  - exists [], []. csplit; auto; try (cbn; lia). intros k. cbn. destruct (c <? k); reflexivity.
  - destruct (level_total d s ltac:(lia)) as [li Hli].
    rewrite (levels_from_cons d s n li Hli). cbn [zseq lazy_levels]. rewrite Hli. cbn [bind].
    destruct (IH d (s + 1) c HI Hck ltac:(lia) ltac:(lia)) as [tl [rows [Hll [HL [Hne [HR [Hsr [Hks [Hsum Hlen]]]]]]]]].
    pose proof (Inv_sorted ops kmax d s li HI Hli) as Hsrt.
    destruct (zlen li =? 0) eqn:Ez.
    + assert (li = []) by (destruct li; auto; cbn in Ez; lia). subst li.
      exists tl, rows. cbn [sumlen]. csplit; auto; try (unfold zlen in *; cbn [length]; lia).
    + assert (Hnel : li <> []) by (intros ->; cbn in Ez; lia).
      destruct (level_window_ok2 ops kmax Hc d s li c HI Hli Hnel Hck) as [lo [hi [Hw [W1 [W2 W3]]]]].
      rewrite Hw. cbn [bind fst snd]. rewrite Hll. cbn [bind].
      pose proof (ubk_lbk li c Hsrt) as [Hu _]. pose proof (ubk_range li c) as Hur.
      change (map it_key li) with (keys_of li).
      assert (E3 : ub_range (keys_of li) lo hi c = ubk li c).
      { apply ub_range_exact; fold (ubk li c); lia. }
      rewrite E3. pose proof (skipn_ubk li c Hsrt) as Hrow. fold (gtf c) in Hrow.
      destruct (ubk li c <? zlen li) eqn:Ep.
      * exists (mkCur s (ubk li c) :: tl), (kfilter (gtf c) li :: rows). cbn [sumlen].
        csplit; auto.
        -- constructor; auto. exists li. cbn [cu_level cu_idx]. csplit; auto; lia.
        -- constructor; auto. rewrite <- Hrow. intros E. apply skipn_nil_iff in E. unfold zlen in *. lia.
        -- apply Rinv_cons; auto.
        -- constructor; auto. apply kfilter_sorted; auto.
        -- constructor; auto. apply Forall_forall. intros e He. apply kfilter_in in He.
           eapply Inv_keys; eauto. apply He.
        -- assert (zlen (kfilter (gtf c) li) <= zlen li).
           { unfold zlen, kfilter. pose proof (filter_len_le _ (fun e => gtf c (it_key e)) li). lia. }
           lia.
        -- unfold zlen in *. cbn [length]. lia.
      * exists tl, rows. cbn [sumlen]. csplit; auto; try (unfold zlen in *; lia).
        apply Rinv_cons_nil; auto. rewrite <- Hrow. apply skipn_nil_iff. unfold zlen in *. lia.
Qed.

Lemma clink_cur_item : forall d c e rest, clink d c (e :: rest) -> cur_item d c = Ok e.
Proof.
  intros d c e rest [li [Hl [H0 Hsk]]]. symmetry in Hsk.
  destruct (skipn_cons_inv _ _ _ _ _ Hsk) as [He _]. unfold cur_item. rewrite Hl. cbn [bind].
  apply nth_res_ok. auto.
Qed.

Definition hk (row : list item) : Z := match row with e :: _ => it_key e | [] => 0 end.

Lemma insert_starts_keys : forall d its rows t i, Forall2 (clink d) its rows -> Forall (fun r => r <> []) rows ->
  insert_starts d t its i = insert_keys t (map hk rows) i.
Proof.
  intros d its rows t i H. revert t i. induction H as [|c row its rows Hc' H IH]; intros t i Hne; [reflexivity|].
  inversion Hne; subst. destruct row as [|e rest]; [contradiction|].
  cbn [insert_starts map insert_keys hk]. rewrite (clink_cur_item d c e rest Hc'). cbn [bind].
  destruct (lt_set t (lt_k t + i) (it_key e, i)) as [t1|]; cbn [bind]; auto.
Qed.

Lemma map_hk_heads : forall rows, Forall (fun r => r <> []) rows -> map Some (map hk rows) = map headkey rows.
Proof.
  induction rows as [|r t IH]; intros H; [reflexivity|]. inversion H; subst.
  cbn [map]. rewrite IH by auto. destruct r; [contradiction|reflexivity].
Qed.

Lemma lt_init_zero : forall km, exists t, lt_init (lt_new km 0) = Ok t.
Proof. intros km. eexists. vm_compute. reflexivity. Qed.

Lemma sumlen_firstn_le : forall n (L : list (list item)), sumlen (firstn n L) <= sumlen L.
Proof.
  induction n as [|n IH]; intros L; cbn [firstn sumlen]; [apply sumlen_nonneg|].
  destruct L as [|l L]; cbn [sumlen]; [lia|]. specialize (IH L). lia.
Qed.

Lemma sumlen_concat : forall (L : list (list item)), sumlen L = Z.of_nat (length (concat L)).
Proof.
  induction L as [|l L IH]; [reflexivity|]. cbn [sumlen concat]. rewrite app_length, IH. unfold zlen. lia.
Qed.

Lemma used_levels_sum : forall (d : dynP), sumlen (used_levels d) <= Z.of_nat (total_items d).
Proof.
  intros d. unfold used_levels, levels_from, total_items. rewrite <- sumlen_concat.
  replace (d_min_level d - d_min_level d) with 0 by lia. cbn [Z.to_nat skipn]. apply sumlen_firstn_le.
Qed.

Lemma used_count_bound : forall d, Inv d -> sizes_ok d -> 0 <= d_used d - d_min_level d <= 63.
Proof.
  intros d HI Hsz. unfold sizes_ok in Hsz. pose proof (iv_b _ _ d HI) as Hb.
  pose proof (wf_levels_len ops d (iv_wf _ _ d HI)) as [Hl1 _].
  pose proof (wf_levels_order ops d (iv_wf _ _ d HI)) as [H0 _]. nia.
Qed.

Lemma lazy_initialize_ok : forall d it c0 e0, Inv d -> sizes_ok d ->
  i_init it = false -> i_cur it = Some c0 -> cur_item d c0 = Ok e0 -> it_key e0 < kmax ->
  exists it1 rows, lazy_initialize ops d it = Ok it1 /\ i_cur it1 = Some c0 /\ i_init it1 = true /\
    ist_ok d it1 rows /\ Rinv (used_levels d) (it_key e0) rows /\ sumlen rows <= Z.of_nat (total_items d).
Proof.
  intros d it c0 e0 HI Hsz Hini Hcur He0 Hk0. unfold lazy_initialize. rewrite Hini, Hcur, He0. cbn [bind].
  pose proof (wf_levels_len ops d (iv_wf _ _ d HI)) as [Hl1 Hl2].
  pose proof (used_count_bound d HI Hsz) as Hub.
  destruct (lazy_levels_spec (Z.to_nat (d_used d - d_min_level d)) d (d_min_level d) (it_key e0) HI Hk0
              ltac:(lia) ltac:(lia)) as [its [rows [Hll [HL [Hne [HR [Hsr [Hks [Hsum Hlen]]]]]]]]].
  unfold used_range. rewrite Hll. cbn [bind]. fold (used_levels d) in HR, Hsum.
  pose proof (used_levels_sum d) as Hus.
  assert (Hlen2 : zlen its = zlen rows).
  { unfold zlen. rewrite (Forall2_len _ _ _ _ _ HL). reflexivity. }
  rewrite (insert_starts_keys d its rows _ 0 HL Hne). rewrite (iv_kmax _ _ d HI).
  destruct rows as [|r0 rows'].
  - inversion HL; subst its. cbn [map insert_keys bind]. change (zlen (@nil cursor)) with 0.
    destruct (lt_init_zero kmax) as [t Ht]. rewrite Ht. cbn [bind].
    eexists. exists []. csplit; [reflexivity|reflexivity|reflexivity| |exact HR|cbn; lia].
    constructor; cbn [i_its i_unconsumed i_tree ncount]; auto; try lia.
  - set (rows := r0 :: rows') in *.
    assert (Hkk : Forall (fun k => k < kmax) (map hk rows)).
    { apply Forall_forall. intros k Hin. apply in_map_iff in Hin. destruct Hin as [r [<- Hr]].
      rewrite Forall_forall in Hks, Hne. specialize (Hks r Hr). specialize (Hne r Hr).
      destruct r as [|e r]; [contradiction|]. inversion Hks; auto. }
    assert (Hzl : zlen (map hk rows) = zlen rows) by (unfold zlen; rewrite map_length; reflexivity).
    destruct (ti_init _ _ HT (map hk rows)) as [t1 [t2 [H1 [H2 H3]]]]; auto.
    { rewrite Hzl. unfold zlen, rows in *. cbn [length] in *. lia. }
    rewrite Hlen2, <- Hzl, H1. cbn [bind]. rewrite H2. cbn [bind].
    eexists. exists rows. csplit; [reflexivity|reflexivity|reflexivity| |exact HR|lia].
    constructor; cbn [i_its i_unconsumed i_tree]; auto.
    + rewrite ncount_all by auto. lia.
    + intros _. rewrite <- map_hk_heads by auto. exact H3.
    + lia.
Qed.

(* ---------- iterate ---------- *)
Lemma am_from_nil : forall m q, (forall k, q <= k -> am_find k m = None) -> am_from q m = [].
Proof.
  induction m as [|[k0 v0] m IH]; intros q H; [reflexivity|].
  unfold am_from. cbn [filter fst]. destruct (q <=? k0) eqn:E.
  - specialize (H k0 ltac:(lia)). cbn [am_find] in H. rewrite Z.eqb_refl in H. discriminate.
  - apply IH. intros k Hk. specialize (H k Hk). cbn [am_find] in H.
    destruct (k =? k0) eqn:E2; [lia|auto].
Qed.

Lemma am_from_cons : forall m q K v, amsrt m -> am_find K m = Some v -> q <= K ->
  (forall k, q <= k < K -> am_find k m = None) ->
  am_from q m = (K, v) :: am_from (K + 1) m.
Proof.
  intros m q K v Hm Hf Hq Hgap. destruct (am_from_spec q m Hm) as [A1 A2].
  destruct (am_from_spec (K + 1) m Hm) as [B1 B2].
  apply am_ext; auto.
  - split; auto. apply Forall_forall. intros p Hp. unfold am_from in Hp. apply filter_In in Hp.
    destruct Hp as [_ Hp]. cbn [fst]. lia.
  - intros k. cbn [am_find]. rewrite A2, B2. destruct (k =? K) eqn:E.
    + assert (k = K) by lia. subst k. assert (E2 : (q <=? K) = true) by lia. rewrite E2. auto.
    + destruct (q <=? k) eqn:E2, (K + 1 <=? k) eqn:E3; auto; try lia.
      apply Hgap. lia.
Qed.

Lemma iterate_init_ok : forall fuel d m it rows cu e v, Inv d -> represents d m -> amsrt m ->
  ist_ok d it rows -> Rinv (used_levels d) (it_key e) rows ->
  i_cur it = Some cu -> cur_item d cu = Ok e -> it_val e = Some v -> i_init it = true ->
  sumlen rows + 2 <= Z.of_nat fuel -> sumlen rows <= Z.of_nat (total_items d) ->
  iterate ops fuel d it = Ok ((it_key e, v) :: am_from (it_key e + 1) m).
Proof.
  induction fuel as [|fuel IH]; intros d m it rows cu e v HI Hrep Hm Hok HR Hcur Hce Hv Hini Hf Htot.
  { pose proof (sumlen_nonneg rows). lia. }
  cbn [iterate]. rewrite Hcur, Hce. cbn [bind]. unfold iter_next, lazy_initialize. rewrite Hini. cbn [bind].
  destruct (advance_ok d it rows (it_key e) (used_levels d) (iv_kmax _ _ d HI) Hok HR Htot) as [it' [Ha Hpost]].
  rewrite Ha. cbn [bind]. rewrite Hv.
  destruct Hpost as [[Hend Hdead]|[tmp [e' [v' [Hc' [Hce' [Hv' [Hlt [Hlook [Hgap [Hini' [rows' [Hok' [HR' Hs']]]]]]]]]]]]]].
  - pose proof (sumlen_nonneg rows). destruct fuel as [|fuel]; [lia|]. cbn [iterate]. rewrite Hend. cbn [bind].
    rewrite am_from_nil; auto. intros k Hk. rewrite <- (used_levels_look ops kmax d m k HI Hrep). apply Hdead. lia.
  - assert (Hini2 : i_init it' = true) by congruence.
    rewrite (IH d m it' rows' tmp e' v' HI Hrep Hm Hok' HR' Hc' Hce' Hv' Hini2 ltac:(lia) ltac:(lia)).
    cbn [bind]. f_equal. f_equal. symmetry. apply am_from_cons; auto; try lia.
    + rewrite <- (used_levels_look ops kmax d m _ HI Hrep), Hlook. cbn [val_of]. auto.
    + intros k Hk. rewrite <- (used_levels_look ops kmax d m k HI Hrep). apply Hgap. lia.
Qed.

Lemma to_list_from_ok : forall d m cu e v, Inv d -> sizes_ok d -> represents d m -> amsrt m ->
  cur_item d cu = Ok e -> it_val e = Some v -> it_key e < kmax ->
  to_list_from ops d (iter_at (Some cu)) = Ok ((it_key e, v) :: am_from (it_key e + 1) m).
Proof.
  intros d m cu e v HI Hsz Hrep Hm Hce Hv Hke. unfold to_list_from.
  remember (S (total_items d)) as f1. cbn [iterate iter_at i_cur]. rewrite Hce. cbn [bind]. unfold iter_next.
  destruct (lazy_initialize_ok d (iter_at (Some cu)) cu e HI Hsz eq_refl eq_refl Hce Hke)
    as [it1 [rows [Hli [Hc1 [Hi1 [Hok [HR Htot]]]]]]].
  rewrite Hli. cbn [bind].
  destruct (advance_ok d it1 rows (it_key e) (used_levels d) (iv_kmax _ _ d HI) Hok HR Htot) as [it' [Ha Hpost]].
  rewrite Ha. cbn [bind]. rewrite Hv.
  destruct Hpost as [[Hend Hdead]|[tmp [e' [v' [Hc' [Hce' [Hv' [Hlt [Hlook [Hgap [Hini' [rows' [Hok' [HR' Hs']]]]]]]]]]]]]].
  - subst f1. cbn [iterate]. rewrite Hend. cbn [bind].
    rewrite am_from_nil; auto. intros k Hk. rewrite <- (used_levels_look ops kmax d m k HI Hrep). apply Hdead. lia.
  - assert (Hini2 : i_init it' = true) by congruence.
    rewrite (iterate_init_ok f1 d m it' rows' tmp e' v' HI Hrep Hm Hok' HR' Hc' Hce' Hv' Hini2 ltac:(lia) ltac:(lia)).
    cbn [bind]. f_equal. f_equal. symmetry. apply am_from_cons; auto; try lia.
    + rewrite <- (used_levels_look ops kmax d m _ HI Hrep), Hlook. cbn [val_of]. auto.
    + intros k Hk. rewrite <- (used_levels_look ops kmax d m k HI Hrep). apply Hgap. lia.
Qed.

(* ---------- lower_bound returns a position holding its item ---------- *)
Lemma lb_scan_pos : forall fuel li it q cur del del' j e ex,
  lb_scan fuel li it q cur del = Ok (del', Some (j, e), ex) -> nth_res li j = Ok e.
Proof.
  induction fuel as [|fuel IH]; intros li it q cur del del' j e ex H; [discriminate|].
  cbn [lb_scan] in H. destruct (it <? zlen li); [|discriminate].
  destruct (nth_res li it) as [e0|] eqn:En; [|discriminate]. cbn [bind] in H.
  destruct (match cur with Some b => it_key e0 <? b | None => true end); [|discriminate].
  destruct (deleted e0).
  - eapply IH; eauto.
  - destruct (negb (existsb (Z.eqb (it_key e0)) del)).
    + inversion H; subst. exact En.
    + eapply IH; eauto.
Qed.

Definition located (d : dynP) (r : option (Z * Z * item)) : Prop :=
  forall i j e, r = Some (i, j, e) -> cur_item d (mkCur i j) = Ok e.

Lemma lower_bound_levels_pos : forall is_ d q lb_ del r, located d lb_ ->
  lower_bound_levels ops d is_ q lb_ del = Ok r -> located d r.
Proof.
  induction is_ as [|i rest IH]; intros d q lb_ del r Hloc H; cbn [lower_bound_levels] in H.
  - inversion H; subst. exact Hloc.
  - destruct (level d i) as [li|] eqn:Hli; [|discriminate]. cbn [bind] in H.
    destruct (zlen li =? 0); [eapply IH; eauto|].
    destruct (level_window ops d i li q) as [w|]; [|discriminate]. cbn [bind] in H.
    destruct (lower_bound_bl li (fst w) (snd w) q) as [it|]; [|discriminate]. cbn [bind] in H.
    destruct (lb_scan (S (length li)) li it q _ del) as [[[del1 cand] exact]|] eqn:Hscan; [|discriminate].
    cbn [bind] in H. destruct cand as [[j e]|].
    + apply lb_scan_pos in Hscan.
      assert (Hl2 : located d (Some (i, j, e))).
      { intros i' j' e' E. inversion E; subst. unfold cur_item. cbn [cu_level cu_idx]. rewrite Hli. exact Hscan. }
      destruct exact.
      * inversion H; subst. exact Hl2.
      * eapply IH; eauto.
    + eapply IH; eauto.
Qed.

Lemma cur_item_key : forall d c e, Inv d -> cur_item d c = Ok e -> it_key e < kmax.
Proof.
  intros d c e HI H. unfold cur_item in H. destruct (level d (cu_level c)) as [li|] eqn:Hl; [|discriminate].
  cbn [bind] in H. eapply Inv_keys; eauto. eapply nth_res_in; eauto.
Qed.

(* iteration from any lower_bound result, relative to the abstract tree interface *)
Theorem iter_from_spec_gen : forall d m q r, Inv d -> sizes_ok d -> represents d m -> amsrt m ->
  q < kmax -> lower_bound ops d q = Ok r -> to_list_from ops d (iter_of r) = Ok (am_from q m).
Proof.
  intros d m q r HI Hsz Hrep Hm Hq Hlb. unfold lower_bound, used_range in Hlb.
  pose proof (wf_levels_len ops d (iv_wf _ _ d HI)) as [Hl1 Hl2].
  destruct (lower_bound_levels_spec ops kmax Hc (Z.to_nat (d_used d - d_min_level d)) d (d_min_level d) q None [] []
              HI Hsz Hq ltac:(lia) ltac:(lia) (lbinv_init q)) as [r' [H1 H2]].
  rewrite Hlb in H1. inversion H1; subst r'. clear H1. cbn [app] in H2. fold (used_levels d) in H2.
  assert (Hloc : located d r).
  { eapply lower_bound_levels_pos; [|exact Hlb]. intros i j e E. discriminate. }
  assert (Hfind : forall k, val_of (look_levels (used_levels d) k) = am_find k m).
  { intros k. apply (used_levels_look ops kmax); auto. }
  unfold Fin in H2. destruct r as [[[i j] e]|].
  - destruct H2 as [F1 [F2 [F3 F4]]]. specialize (Hloc i j e eq_refl).
    unfold deleted in F2. destruct (it_val e) as [v|] eqn:Ev; [|discriminate].
    unfold iter_of. rewrite (to_list_from_ok d m (mkCur i j) e v HI Hsz Hrep Hm Hloc Ev (cur_item_key d _ e HI Hloc)).
    f_equal. symmetry. apply am_from_cons; auto.
    + rewrite <- Hfind, F1. cbn [val_of]. auto.
    + intros k Hk. rewrite <- Hfind. apply F4. lia.
  - unfold iter_of, to_list_from. cbn [iterate iter_at i_cur]. f_equal. symmetry.
    apply am_from_nil. intros k Hk. rewrite <- Hfind. apply H2. lia.
Qed.

(* ---------- begin / size / empty ---------- *)
Lemma lower_bound_fin : forall d q, Inv d -> sizes_ok d -> q < kmax ->
  exists r, lower_bound ops d q = Ok r /\ Fin (used_levels d) q r.
Proof.
  intros d q HI Hsz Hq. unfold lower_bound, used_range.
  pose proof (wf_levels_len ops d (iv_wf _ _ d HI)) as [Hl1 Hl2].
  destruct (lower_bound_levels_spec ops kmax Hc (Z.to_nat (d_used d - d_min_level d)) d (d_min_level d) q None [] []
              HI Hsz Hq ltac:(lia) ltac:(lia) (lbinv_init q)) as [r [H1 H2]].
  exists r. split; auto.
Qed.

Lemma am_from_all : forall m q, Forall (fun p => q <= fst p) m -> am_from q m = m.
Proof.
  induction m as [|p m IH]; intros q H; [reflexivity|]. inversion H; subst.
  unfold am_from. cbn [filter]. assert (E : (q <=? fst p) = true) by lia. rewrite E. f_equal. apply IH; auto.
Qed.

Theorem size_spec_gen : forall d m kmin_, Inv d -> sizes_ok d -> represents d m -> amsrt m ->
  kmin_ < kmax -> Forall (fun p => kmin_ <= fst p) m -> dyn_size ops d kmin_ = Ok (zlen m).
Proof.
  intros d m q HI Hsz Hrep Hm Hq Hall. unfold dyn_size, dyn_begin.
  destruct (lower_bound_fin d q HI Hsz Hq) as [r [Hlb _]]. rewrite Hlb. cbn [bind].
  rewrite (iter_from_spec_gen d m q r HI Hsz Hrep Hm Hq Hlb). cbn [bind]. rewrite am_from_all; auto.
Qed.

Theorem empty_spec_gen : forall d m kmin_, Inv d -> sizes_ok d -> represents d m ->
  kmin_ < kmax -> Forall (fun p => kmin_ <= fst p) m ->
  dyn_empty ops d kmin_ = Ok (match m with [] => true | _ => false end).
Proof.
  intros d m q HI Hsz Hrep Hq Hall. unfold dyn_empty, dyn_begin.
  destruct (lower_bound_fin d q HI Hsz Hq) as [r [Hlb HF]]. rewrite Hlb. cbn [bind]. f_equal.
  assert (Hfind : forall k, val_of (look_levels (used_levels d) k) = am_find k m).
  { intros k. apply (used_levels_look ops kmax); auto. }
  unfold Fin in HF. destruct r as [[[i j] e]|]; unfold iter_of, iter_at; cbn [i_cur].
  - destruct HF as [F1 [F2 _]]. pose proof (Hfind (it_key e)) as H. rewrite F1 in H. cbn [val_of] in H.
    unfold deleted in F2. destruct m; auto. destruct (it_val e); discriminate.
  - destruct m as [|[k0 v0] m]; auto. inversion Hall; subst. cbn [fst] in *.
    pose proof (Hfind k0) as H. rewrite (HF k0 ltac:(lia)) in H. cbn [am_find] in H.
    rewrite Z.eqb_refl in H. discriminate.
Qed.

End IterSec.

(* ================================================================================================
   Main theorems: the abstract selection interface is discharged by the concrete loser-tree invariant
   tree_ok_c of DynIterTree.v (tree_iface_holds).
   ================================================================================================ *)
Require Import DynCoreTotal.

Section MainIter.
Context {P : Type} (ops : pgmops P) (kmax : Z).
Hypothesis Hc : pgm_contract ops kmax.
Hypothesis Hbuild0 : pg_build ops [] = Ok (pg_empty ops).
Notation dynP := (@dyn P).
Notation Inv := (DynCoreInv.Inv ops kmax).
Notation ghist := (DynCoreRefine.ghist ops kmax).

Let HT := tree_iface_holds kmax.
Let Hempty := Hempty_of_build0 ops Hbuild0.

(* range(lo, hi) = the entries of the map with lo <= key <= hi, in key order (proved in DynIterRange.v) *)
Theorem range_spec : forall (d : dynP) m lo hi, Inv d -> sizes_ok d -> represents d m -> amsrt m ->
  lo <= hi -> hi < kmax -> range ops d lo hi = Ok (am_range lo hi m).
Proof. intros. eapply DynIterRange.range_spec; eauto. Qed.

(* iterating from any lower_bound result visits exactly the live keys >= q, in strictly increasing order,
   each once, with its current value, and reaches end() within the fuel total_items + 2 *)
Theorem iter_from_spec : forall (d : dynP) m q r, Inv d -> sizes_ok d -> represents d m -> amsrt m ->
  q < kmax -> lower_bound ops d q = Ok r -> to_list_from ops d (iter_of r) = Ok (am_from q m).
Proof. intros. eapply (iter_from_spec_gen ops kmax Hc _ HT); eauto. Qed.

(* begin() = lower_bound(kmin): iterating from it yields the whole map, when kmin <= every key *)
Theorem begin_spec : forall (d : dynP) m kmin_, Inv d -> sizes_ok d -> represents d m -> amsrt m ->
  kmin_ < kmax -> Forall (fun p => kmin_ <= fst p) m ->
  exists b, dyn_begin ops d kmin_ = Ok b /\ to_list_from ops d b = Ok m.
Proof.
  intros d m q HI Hsz Hrep Hm Hq Hall. unfold dyn_begin.
  destruct (lower_bound_fin ops kmax Hc d q HI Hsz Hq) as [r [Hlb _]]. rewrite Hlb. cbn [bind].
  eexists. split; [reflexivity|]. rewrite (iter_from_spec d m q r HI Hsz Hrep Hm Hq Hlb).
  rewrite am_from_all; auto.
Qed.

Theorem size_spec : forall (d : dynP) m kmin_, Inv d -> sizes_ok d -> represents d m -> amsrt m ->
  kmin_ < kmax -> Forall (fun p => kmin_ <= fst p) m -> dyn_size ops d kmin_ = Ok (zlen m).
Proof. intros. eapply (size_spec_gen ops kmax Hc _ HT); eauto. Qed.

Theorem empty_spec : forall (d : dynP) m kmin_, Inv d -> sizes_ok d -> represents d m ->
  kmin_ < kmax -> Forall (fun p => kmin_ <= fst p) m ->
  dyn_empty ops d kmin_ = Ok (match m with [] => true | _ => false end).
Proof. intros. eapply (empty_spec_gen ops kmax Hc); eauto. Qed.

(* ---------------- C06 on histories ---------------- *)
Theorem C06_range : forall (d : dynP) m lo hi, ghist d m -> sizes_ok d -> lo <= hi -> hi < kmax ->
  range ops d lo hi = Ok (am_range lo hi m).
Proof.
  intros d m lo hi Hg Hsz Hle Hhi. pose proof (ghist_Inv ops kmax Hempty d m Hg) as HI.
  destruct (ghist_represents ops kmax Hempty d m Hg) as [Hr Hm]. apply range_spec; auto.
Qed.

Theorem C06_iter : forall (d : dynP) m q, ghist d m -> sizes_ok d -> q < kmax ->
  exists r, lower_bound ops d q = Ok r /\ to_list_from ops d (iter_of r) = Ok (am_from q m).
Proof.
  intros d m q Hg Hsz Hq. pose proof (ghist_Inv ops kmax Hempty d m Hg) as HI.
  destruct (ghist_represents ops kmax Hempty d m Hg) as [Hr Hm].
  destruct (lower_bound_fin ops kmax Hc d q HI Hsz Hq) as [r [Hlb _]]. exists r. split; auto.
  apply iter_from_spec; auto.
Qed.

Theorem C06_begin : forall (d : dynP) m kmin_, ghist d m -> sizes_ok d -> kmin_ < kmax ->
  Forall (fun p => kmin_ <= fst p) m ->
  exists b, dyn_begin ops d kmin_ = Ok b /\ to_list_from ops d b = Ok m.
Proof.
  intros d m q Hg Hsz Hq Hall. pose proof (ghist_Inv ops kmax Hempty d m Hg) as HI.
  destruct (ghist_represents ops kmax Hempty d m Hg) as [Hr Hm]. apply begin_spec; auto.
Qed.

Theorem C06_size : forall (d : dynP) m kmin_, ghist d m -> sizes_ok d -> kmin_ < kmax ->
  Forall (fun p => kmin_ <= fst p) m -> dyn_size ops d kmin_ = Ok (zlen m).
Proof.
  intros d m q Hg Hsz Hq Hall. pose proof (ghist_Inv ops kmax Hempty d m Hg) as HI.
  destruct (ghist_represents ops kmax Hempty d m Hg) as [Hr Hm]. apply size_spec; auto.
Qed.

Theorem C06_empty : forall (d : dynP) m kmin_, ghist d m -> sizes_ok d -> kmin_ < kmax ->
  Forall (fun p => kmin_ <= fst p) m ->
  dyn_empty ops d kmin_ = Ok (match m with [] => true | _ => false end).
Proof.
  intros d m q Hg Hsz Hq Hall. pose proof (ghist_Inv ops kmax Hempty d m Hg) as HI.
  destruct (ghist_represents ops kmax Hempty d m Hg) as [Hr Hm]. apply empty_spec; auto.
Qed.

End MainIter.

Print Assumptions range_spec.
Print Assumptions iter_from_spec.
Print Assumptions begin_spec.
Print Assumptions size_spec.
Print Assumptions empty_spec.
Print Assumptions C06_range.
Print Assumptions C06_iter.
Print Assumptions C06_begin.
Print Assumptions C06_size.
Print Assumptions C06_empty.

(* EfLevel.v — IdxBlock.level_query_split and IdxLevel.level_pos for an ARBITRARY evaluation function
   ev : segment -> Z in place of Segment::operator() (IndexModel.seg_eval) at the query key.  The proofs
   of IdxBlock/IdxLevel only consume the interface eval_ok_cap; here the same interface is stated about
   ev s (gev_ok_cap) so that EliasFanoPGMIndex::SegmentData::operator(), which computes the product in
   Floating arithmetic and saturates at 2^62, can be plugged in (ComposeEfFloat.v). *)
Require Import Base Fp PlaModel PlaSpec GenLeaf IndexModel IndexProofs MappedQueries IdxFed IdxSeg IdxBlock IdxLevel.
From Coq Require Import ZifyBool.
Local Open Scope Z_scope.

Definition gev_ok (v : Z) (dx dy : Z) (s : segment) (k : Z) : Prop :=
  (exists t, v = t + sg_icpt s /\ 0 <= t /\ ev_close dx dy (k - sg_key s) t)
  \/ (2 ^ 32 <= v /\ 2 ^ 32 * dx <= dy * (k - sg_key s)).

Definition gev_ok_cap (T : Z) (v : Z) (dx dy : Z) (s : segment) (k : Z) : Prop :=
  gev_ok v dx dy s k \/ (T <= v /\ T * dx <= dy * (k - sg_key s)).

Lemma gev_nonneg v dx dy s k : gev_ok v dx dy s k -> 0 <= sg_icpt s -> 0 <= v.
Proof. intros [(t & -> & Ht & _)|[H _]] Hi; lia. Qed.

Lemma gev_lower v eps dx dy s k p :
  gev_ok v dx dy s k -> 0 < dx -> 0 <= dy -> fst p <= k ->
  close_at eps dx dy (sg_key s) (sg_icpt s) p -> snd p - eps - 1 <= 2 ^ 32 ->
  snd p - eps - 1 <= v.
Proof.
  intros [(t & -> & Ht & Hc)|[H _]] Hdx Hdy Hk Hcl Hb; [|lia].
  eapply ev_lower; eauto.
Qed.

Lemma gev_upper_cap v eps dx dy s k p cap :
  gev_ok v dx dy s k -> 0 < dx -> 0 <= dy -> k <= fst p ->
  close_at eps dx dy (sg_key s) (sg_icpt s) p -> cap < 2 ^ 32 -> 0 <= sg_icpt s ->
  Z.min v cap <= snd p + eps.
Proof.
  intros [(t & -> & Ht & Hc)|[H Hf]] Hdx Hdy Hk Hcl Hcap Hi.
  - pose proof (ev_upper eps dx dy (sg_key s) (sg_icpt s) p k t Hdx Hdy Hk Hcl Hc). lia.
  - pose proof (far_upper eps dx dy (sg_key s) (sg_icpt s) p k Hdx Hdy Hk Hcl Hf). lia.
Qed.

Lemma gev_cap_nonneg T v dx dy s k : gev_ok_cap T v dx dy s k -> 0 <= T -> 0 <= sg_icpt s -> 0 <= v.
Proof. intros [H|[H _]] HT Hi; [exact (gev_nonneg v dx dy s k H Hi) | lia]. Qed.

Lemma gev_cap_lower T v eps dx dy s k p :
  gev_ok_cap T v dx dy s k -> 0 < dx -> 0 <= dy -> fst p <= k ->
  close_at eps dx dy (sg_key s) (sg_icpt s) p -> snd p - eps - 1 <= 2 ^ 32 -> snd p - eps - 1 <= T ->
  snd p - eps - 1 <= v.
Proof.
  intros [H|[H _]] Hdx Hdy Hk Hcl Hb HbT; [|lia].
  exact (gev_lower v eps dx dy s k p H Hdx Hdy Hk Hcl Hb).
Qed.

Lemma gev_cap_upper_cap T v eps dx dy s k p cap :
  gev_ok_cap T v dx dy s k -> 0 < dx -> 0 <= dy -> k <= fst p ->
  close_at eps dx dy (sg_key s) (sg_icpt s) p -> cap < 2 ^ 32 -> cap <= T -> 0 <= sg_icpt s ->
  Z.min v cap <= snd p + eps.
Proof.
  intros [H|[H Hf]] Hdx Hdy Hk Hcl Hcap HcapT Hi.
  - exact (gev_upper_cap v eps dx dy s k p cap H Hdx Hdy Hk Hcl Hcap Hi).
  - pose proof (far_upper_T T eps dx dy (sg_key s) (sg_icpt s) p k Hdx Hdy Hk Hcl Hf). lia.
Qed.

Lemma gev_flat v s k : gev_ok v 1 0 s k -> v = sg_icpt s.
Proof. intros [(t & -> & Ht & [H1 H2])|[_ H]]; [|lia]. lia. Qed.

Section GLevel.
  Variables (v : Z) (eps dx dy k cap T : Z) (s : segment).
  Variables (g1 g2 : list (list (Z * Z))) (b : list (Z * Z)).
  Hypothesis Hincr : incr (concat g1 ++ b ++ concat g2).
  Hypothesis Hb : b <> [].
  Hypothesis Hdx : 0 < dx.
  Hypothesis Hdy : 0 <= dy.
  Hypothesis Hclose : Forall (close_at eps dx dy (sg_key s) (sg_icpt s)) b.
  Hypothesis Hev : gev_ok_cap T v dx dy s k.
  Hypothesis Hkey : fst (hd (0, 0) b) <= k.
  Hypothesis Hnext : next_ok eps k cap g2.

  Lemma g_hd_In_b : In (hd (0, 0) b) b.
  Proof. apply hd_In_ne. exact Hb. Qed.

  Lemma g_g2_after p q : In p b -> In q (concat g2) -> plt p q.
  Proof.
    intros Hp Hq. apply incr_app in Hincr. destruct Hincr as (_ & H & _).
    apply incr_app in H. destruct H as (_ & _ & H). apply H; assumption.
  Qed.
  Lemma g_g1_before p q : In p (concat g1) -> In q b -> plt p q.
  Proof.
    intros Hp Hq. apply incr_app in Hincr. destruct Hincr as (_ & _ & H).
    apply H; [exact Hp | apply in_or_app; left; exact Hq].
  Qed.

  Lemma g_g2_gt q : In q (concat g2) -> k < fst q /\ cap <= snd q + eps.
  Proof.
    intros Hq. destruct g2 as [|b' g2']; [contradiction|]. cbn [next_ok] in Hnext.
    destruct Hnext as (Hb' & Hk & Hc). cbn [concat] in Hq.
    destruct b' as [|a t]; [contradiction|]. cbn [hd] in *.
    assert (Hi : incr ((a :: t) ++ concat g2')).
    { apply incr_app in Hincr. destruct Hincr as (_ & H & _). apply incr_app in H.
      destruct H as (_ & H & _). exact H. }
    cbn [app] in Hi, Hq. destruct (incr_hd_min a _ q Hi Hq). lia.
  Qed.

  Hypothesis Hsmall : forall p, In p b -> snd p - eps - 1 <= 2 ^ 32 /\ snd p - eps - 1 <= T.

  Lemma g_block_point Q : In Q (concat g1 ++ b ++ concat g2) -> fst Q <= k ->
    exists P, In P b /\ fst P <= k /\ snd Q <= snd P.
  Proof.
    intros HQ Hx. apply in_app_or in HQ. destruct HQ as [HQ|HQ].
    - exists (hd (0, 0) b). split; [exact g_hd_In_b|]. split; [exact Hkey|].
      destruct (g_g1_before Q _ HQ g_hd_In_b). lia.
    - apply in_app_or in HQ. destruct HQ as [HQ|HQ].
      + exists Q. split; [exact HQ|]. split; [exact Hx | lia].
      + destruct (g_g2_gt Q HQ). lia.
  Qed.

  Lemma g_level_lower Q : In Q (concat g1 ++ b ++ concat g2) -> fst Q <= k ->
    (g2 = [] -> snd Q - eps - 1 <= cap) ->
    snd Q - eps - 1 <= Z.min v cap.
  Proof.
    intros HQ Hx Hcap. destruct (g_block_point Q HQ Hx) as (P & HP & HPx & HPy).
    assert (Hclp : close_at eps dx dy (sg_key s) (sg_icpt s) P) by (rewrite Forall_forall in Hclose; auto).
    pose proof (gev_cap_lower T v eps dx dy s k P Hev Hdx Hdy HPx Hclp (proj1 (Hsmall P HP)) (proj2 (Hsmall P HP))) as Hl.
    apply Z.min_glb; [lia|].
    pose proof (g_g2_after P) as HA. clear Hl Hclp HQ.
    destruct g2 as [|b' g2']; [apply Hcap; reflexivity|].
    cbn [next_ok] in Hnext. destruct Hnext as (Hb' & Hk & Hc).
    assert (Hin : In (hd (0, 0) b') (concat (b' :: g2'))).
    { cbn [concat]. apply in_or_app. left. destruct b'; [contradiction|]. left. reflexivity. }
    destruct (HA _ HP Hin). lia.
  Qed.

  Lemma g_level_upper Q' : In Q' (concat g1 ++ b ++ concat g2) -> k <= fst Q' ->
    cap < 2 ^ 32 -> cap <= T -> 0 <= sg_icpt s ->
    Z.min v cap <= snd Q' + eps.
  Proof.
    intros HQ Hx Hcap HcapT Hi. apply in_app_or in HQ. destruct HQ as [HQ|HQ].
    - destruct (g_g1_before Q' _ HQ g_hd_In_b). lia.
    - apply in_app_or in HQ. destruct HQ as [HQ|HQ].
      + assert (Hclp : close_at eps dx dy (sg_key s) (sg_icpt s) Q') by (rewrite Forall_forall in Hclose; auto).
        exact (gev_cap_upper_cap T v eps dx dy s k Q' cap Hev Hdx Hdy Hx Hclp Hcap HcapT Hi).
      + destruct (g_g2_gt Q' HQ). lia.
  Qed.
End GLevel.

Theorem g_level_query_split (v : Z) c kt eps data (g1 g2 : list (list (Z * Z))) b cs (c2 : list cseg) s (S2 : list segment) k cap :
  data <> [] -> sortedb data = true -> nowrap kt data -> zlen data < 2 ^ 32 -> 0 <= eps ->
  concat (g1 ++ b :: g2) = fed_spec kt data ->
  line_ok eps cs b -> seg_of c cs s -> Forall2 (line_ok eps) c2 g2 -> Forall2 (seg_of c) c2 S2 ->
  gev_ok_cap (zlen data + eps) v (fst (slope_of cs)) (snd (slope_of cs)) s k ->
  sg_key s <= k ->
  match S2 with s' :: _ => k < sg_key s' /\ cap = sg_icpt s' | [] => cap = zlen data end ->
  let r := lb data k in
  let pos := Z.min v cap in
  r - eps - 2 <= pos <= r + eps /\ (In k data -> r - eps - 1 <= pos) /\ 0 <= pos.
Proof.
  intros Hne Hs Hw Hn32 Heps Hcat Hlo Hso Hl2 Hs2 Hev Hkey Hnx r pos.
  set (n := zlen data) in *.
  destruct (line_ok_close c eps cs b s Hlo Hso) as (Hdx & Hdy & Hk0 & Hcl). fold (slope_of cs) in Hdx, Hdy, Hcl.
  destruct (seg_of_cseg_spec c cs s Hso) as (_ & _ & Hicpt).
  assert (Hb : b <> []) by (destruct Hlo; assumption).
  assert (Hincr : incr (concat g1 ++ b ++ concat g2)).
  { pose proof (fed_spec_incr kt data Hne Hs Hw) as Hi. rewrite <- Hcat in Hi.
    rewrite concat_app in Hi. cbn [concat] in Hi. exact Hi. }
  assert (Hfed : forall p, In p (concat g1 ++ b ++ concat g2) <-> In p (fed_spec kt data)).
  { intros p. rewrite <- Hcat, concat_app. cbn [concat]. reflexivity. }
  assert (Hrank : forall p, In p (concat g1 ++ b ++ concat g2) -> 0 <= snd p <= n).
  { intros p Hp. apply Hfed in Hp. apply (spec_only kt data Hne Hs Hw) in Hp. exact (fed_kind_rank data p Hp). }
  assert (Hnext : next_ok eps k cap g2 /\ 0 <= cap < 2 ^ 32 /\ (g2 = [] -> cap = n) /\ cap <= n + eps).
  { inversion Hl2 as [|cs' b' c2' g2' Hlo' Hl2' E1 E2]; subst.
    - inversion Hs2; subst. cbn [next_ok]. pose proof (zlen_ge0 data). fold n in H. repeat split; try lia.
    - inversion Hs2 as [|cs'' s' c2'' S2' Hso' Hs2' E3 E4]; subst. destruct Hnx as [Hk1 ->].
      destruct (line_ok_close c eps cs' b' s' Hlo' Hso') as (Hdx' & _ & Hk' & Hcl').
      destruct (seg_of_cseg_spec c cs' s' Hso') as (_ & _ & Hicpt').
      assert (Hb' : b' <> []) by (destruct Hlo'; assumption).
      assert (Hrk' : snd (hd (0, 0) b') <= n).
      { assert (Hin' : In (hd (0, 0) b') (concat g1 ++ b ++ concat (b' :: g2'))).
        { apply in_or_app. right. apply in_or_app. right. cbn [concat]. apply in_or_app. left.
          apply hd_In_ne. exact Hb'. }
        pose proof (Hrank _ Hin'). lia. }
      destruct b' as [|[x y] t]; [contradiction|]. cbn [hd fst snd] in *.
      apply Forall_inv in Hcl'. rewrite Hk' in Hcl'.
      pose proof (close_at_first eps _ _ x (sg_icpt s') y Hdx' Hcl') as Hcf.
      split; [|split; [exact Hicpt' | split; [discriminate | lia]]]. cbn [next_ok hd fst snd]. split; [exact Hb'|].
      rewrite <- Hk'. split; [exact Hk1 | exact Hcf]. }
  destruct Hnext as (Hnext & Hcap & Hcapn & HcapT).
  rewrite Hk0 in Hkey.
  assert (Hsmall : forall p, In p b -> snd p - eps - 1 <= 2 ^ 32 /\ snd p - eps - 1 <= n + eps).
  { intros p Hp. assert (Hp' : In p (concat g1 ++ b ++ concat g2)) by (apply in_or_app; right; apply in_or_app; left; exact Hp).
    pose proof (Hrank p Hp'). lia. }
  pose proof (r_range data k) as Hrr. fold r n in Hrr.
  assert (Hk00 : dat data 0 <= k).
  { assert (Hin0 : In (dat data 0, 0) (fed_spec kt data)).
    { apply (spec_first_occ kt data Hne Hs Hw). split; [|left; reflexivity].
      pose proof (n_pos kt data Hne Hs Hw). lia. }
    apply Hfed in Hin0.
    assert (Hh : In (hd (0,0) b) (concat g1 ++ b ++ concat g2)) by (apply in_or_app; right; apply in_or_app; left; apply hd_In_ne; exact Hb).
    destruct (Z_lt_ge_dec (fst (hd (0, 0) b)) (dat data 0)) as [Hlt|Hge]; [|lia].
    pose proof (incr_In_lt _ _ _ Hincr Hh Hin0 Hlt) as Hy. cbn [snd] in Hy.
    pose proof (Hrank _ Hh). lia. }
  destruct (claimA kt data Hne Hs Hw k Hk00) as (Q & HQ & HQx & HQy & HQp). fold r in HQy, HQp.
  apply Hfed in HQ.
  assert (Hlow : snd Q - eps - 1 <= pos).
  { apply (g_level_lower v eps _ _ k cap (n + eps) s g1 g2 b Hincr Hb Hdx Hdy Hcl Hev Hkey Hnext Hsmall Q HQ HQx).
    intros E. rewrite (Hcapn E). pose proof (Hrank Q HQ). lia. }
  assert (Hpos0 : 0 <= pos).
  { unfold pos. apply Z.min_glb; [|lia]. apply (gev_cap_nonneg _ v _ _ s k Hev); lia. }
  split; [split; [lia|]|split; [intros Hin; specialize (HQp Hin); lia | exact Hpos0]].
  destruct (Z.eq_dec r n) as [En|En].
  - unfold pos. destruct g2 as [|b' g2'] eqn:Eg; [rewrite (Hcapn eq_refl); lia|].
    cbn [next_ok] in Hnext. destruct Hnext as (Hb' & _ & Hc).
    assert (Hin : In (hd (0, 0) b') (concat g1 ++ b ++ concat (b' :: g2'))).
    { apply in_or_app. right. apply in_or_app. right. cbn [concat]. apply in_or_app. left.
      destruct b'; [contradiction|]. left. reflexivity. }
    pose proof (Hrank _ Hin). lia.
  - destruct (claimB kt data Hne Hs Hw k ltac:(fold n r; lia)) as [HB HBk]. fold r in HB, HBk.
    apply Hfed in HB.
    pose proof (g_level_upper v eps _ _ k cap (n + eps) s g1 g2 b Hincr Hb Hdx Hdy Hcl Hev Hkey Hnext (dat data r, r) HB HBk ltac:(lia) HcapT ltac:(lia)) as Hu.
    cbn [snd] in Hu. exact Hu.
Qed.

Definition GEvalOKc (ev : segment -> Z) (T : Z) (c : cfg) (k : Z) (cs : cseg) (s : segment) (rest : list segment) : Prop :=
  sg_key s <= k -> match rest with s' :: _ => k < sg_key s' | [] => True end -> k < sentinel c ->
  gev_ok_cap T (ev s) (fst (slope_of cs)) (snd (slope_of cs)) s k.

Theorem g_level_pos (ev : segment -> Z) c eps keys ldk css g new T k J :
  keys <> [] -> sortedb keys = true -> nowrap (c_kt c) keys -> zlen keys < 2 ^ 32 -> 1 <= eps ->
  concat g = fed_spec (c_kt c) keys -> Lv c eps (GEvalOKc ev (zlen keys + eps) c k) css g new ->
  tail_shape c ldk (zlen keys) (last new dseg) T ->
  wrapK (c_kt c) (ldk + 1) = ldk + 1 -> zlen keys - 1 <= lb keys (ldk + 1) ->
  (sg_key (extra_seg c ldk (zlen keys)) <= k -> k < sentinel c ->
   ev (extra_seg c ldk (zlen keys)) = sg_icpt (extra_seg c ldk (zlen keys))) ->
  0 <= J -> J + 1 < zlen (new ++ T) ->
  sg_key (nth (Z.to_nat J) (new ++ T) dseg) <= k ->
  k < sg_key (nth (Z.to_nat (J + 1)) (new ++ T) dseg) -> k < sentinel c ->
  let s := nth (Z.to_nat J) (new ++ T) dseg in
  let nx := nth (Z.to_nat (J + 1)) (new ++ T) dseg in
  let r := lb keys k in
  let pos := Z.min (ev s) (sg_icpt nx) in
  r - eps - 2 <= pos <= r + eps /\ (In k keys -> r - eps - 1 <= pos) /\ 0 <= pos.
Proof.
  intros Hne Hs Hw Hn32 Heps Hcat HL HT Hwk Hlast Hext HJ0 HJ1 Hk1 Hk2 Hksent.
  set (n := zlen keys) in *. pose proof (zlen_ge0 keys) as Hn0. fold n in Hn0.
  rewrite zlen_app in HJ1.
  destruct (Z_lt_ge_dec J (zlen new)) as [HJn|HJn].
  - destruct (Lv_split _ _ _ _ _ _ J HL ltac:(lia))
      as (c1 & cs & c2 & g1 & b & g2 & n1 & s & n2 & E1 & E2 & E3 & E4 & R1 & R2 & R3 & R4).
    destruct (Lv_Forall2 _ _ _ _ _ _ R4) as [F1 F2].
    assert (EL : new ++ T = n1 ++ s :: (n2 ++ T)) by (rewrite E3, <- app_assoc; reflexivity).
    rewrite EL in *. rewrite <- E4 in *. rewrite nth_mid in *. rewrite nth_mid_next in *.
    cbn zeta. rewrite E2 in Hcat.
    apply (g_level_query_split (ev s) c (c_kt c) eps keys g1 g2 b cs c2 s n2 k); try assumption;
      [lia | apply R3; [exact Hk1 | destruct n2; [exact I | exact Hk2] | exact Hksent] |].
    destruct n2 as [|s' n2']; [|cbn [app hd] in *; split; [exact Hk2 | reflexivity]].
    cbn [app] in *. rewrite E3, zlen_app, zlen_cons in HJ1. change (zlen (@nil segment)) with 0 in HJ1.
    destruct HT as [->|(X & -> & [->|[-> _]])].
    + change (zlen (@nil segment)) with 0 in HJ1. lia.
    + cbn [app hd sent_seg sg_icpt]. apply wrapU32_small. lia.
    + cbn [app hd extra_seg sg_icpt]. apply wrapU32_small. lia.
  - destruct HT as [->|(X & -> & [->|[-> Htest]])];
      [change (zlen (@nil segment)) with 0 in HJ1; lia | change (zlen ([] ++ [sent_seg c n])) with 1 in HJ1; lia |].
    change (zlen ([extra_seg c ldk n] ++ [sent_seg c n])) with 2 in HJ1.
    assert (EJ : J = zlen new) by lia. rewrite EJ in *. cbn [app] in *.
    rewrite nth_mid in *. rewrite nth_mid_next in *. cbn [hd] in *. cbn zeta.
    rewrite (Hext Hk1 Hksent).
    cbn [extra_seg sent_seg sg_icpt sg_key] in *. rewrite wrapU32_small by lia. rewrite Z.min_id.
    rewrite Hwk in Hk1. pose proof (lb_mono keys _ _ Hk1). pose proof (lb_le_len keys k). fold n in H0.
    repeat split; lia.
Qed.

Print Assumptions g_level_pos.

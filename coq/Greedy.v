(* Greedy.v — greedy longest-prefix segmentation is optimal.
   Abstract part: any type A, any predicate `ok` on blocks that is hereditary for contiguous
   sub-blocks (prefix-closed and suffix-closed).  Then the chunked corollary (make_segmentation_par:
   each chunk is segmented greedily on its own, costing at most one extra segment per chunk boundary)
   and the instance ok := feasible eps. *)
From Coq Require Import List Arith Lia.
Import ListNotations.

Section Greedy.
  Variable A : Type.
  Variable ok : list A -> Prop.

  (* bs is a partition of l into non-empty ok blocks *)
  Definition is_partition (l : list A) (bs : list (list A)) : Prop :=
    concat bs = l /\ Forall (fun b => b <> [] /\ ok b) bs.

  (* every block except the last is maximal: it cannot absorb the first element of the next block *)
  Fixpoint greedy (g : list (list A)) : Prop :=
    match g with
    | b1 :: ((b2 :: _) as tl) =>
        match b2 with
        | [] => True
        | x :: _ => ~ ok (b1 ++ [x])
        end /\ greedy tl
    | _ => True
    end.

  (* building a greedy list block by block (used by the driver proofs) *)
  Lemma greedy_snoc : forall g b x r,
    greedy (g ++ [b]) -> ~ ok (b ++ [x]) -> greedy ((g ++ [b]) ++ [x :: r]).
  Proof.
    induction g as [|a g' IH]; intros b x r Hg Hmax.
    - cbn [app greedy]. split; [exact Hmax | exact I].
    - destruct g' as [|c g''].
      + cbn [app greedy] in Hg |- *. destruct Hg as [H1 _].
        split; [exact H1|]. split; [exact Hmax | exact I].
      + cbn [app greedy] in Hg |- *. destruct Hg as [H1 H2]. split; [exact H1|].
        apply (IH b x r); [exact H2 | exact Hmax].
  Qed.

  Lemma greedy_last_extend : forall g c d,
    c <> [] -> greedy (g ++ [c]) -> greedy (g ++ [c ++ d]).
  Proof.
    induction g as [|a g' IH]; intros c d Hc Hg.
    - cbn [app greedy]. exact I.
    - destruct g' as [|c0 g''].
      + cbn [app greedy] in Hg |- *. destruct c as [|x c']; [contradiction|].
        cbn [app]. exact Hg.
      + cbn [app greedy] in Hg |- *. destruct Hg as [H1 H2]. split; [exact H1|].
        apply (IH c d Hc). exact H2.
  Qed.

  Hypothesis ok_prefix : forall a b, ok (a ++ b) -> ok a.
  Hypothesis ok_suffix : forall a b, ok (a ++ b) -> ok b.

  Lemma is_partition_nil_inv : forall bs, is_partition [] bs -> bs = [].
  Proof.
    intros bs [Hc Hall]. destruct bs as [|b bs']; [reflexivity|].
    inversion Hall as [|b0 bs0 [Hne _] _]; subst.
    cbn [concat] in Hc. apply app_eq_nil in Hc. destruct Hc as [Hb _]. contradiction.
  Qed.

  Lemma is_partition_cons : forall l b bs,
    is_partition l (b :: bs) -> b <> [] /\ ok b /\ l = b ++ concat bs /\ is_partition (concat bs) bs.
  Proof.
    intros l b bs [Hc Hall]. inversion Hall as [|b0 bs0 [Hne Hok] Hall']; subst.
    split; [assumption|]. split; [assumption|]. split; [reflexivity|].
    split; [reflexivity | assumption].
  Qed.

  Lemma greedy_tail : forall b g, greedy (b :: g) -> greedy g.
  Proof.
    intros b g H. destruct g as [|b2 g']; [exact I|]. cbn [greedy] in H. exact (proj2 H).
  Qed.

  (* Generalisation for the induction: p partitions a list that extends l to the left. *)
  Lemma greedy_optimal_gen : forall g l pre p,
    is_partition l g -> greedy g -> is_partition (pre ++ l) p -> length g <= length p.
  Proof.
    induction g as [|b1 g' IH]; intros l pre p Hg Hgr Hp.
    - cbn [length]. lia.
    - apply is_partition_cons in Hg. destruct Hg as (Hb1ne & Hb1ok & Hl & Hg').
      destruct p as [|q1 p'].
      + (* p empty: impossible, l is non-empty *)
        destruct Hp as [Hc _]. cbn [concat] in Hc. symmetry in Hc.
        apply app_eq_nil in Hc. destruct Hc as [_ Hc]. rewrite Hl in Hc.
        apply app_eq_nil in Hc. destruct Hc as [Hc _]. contradiction.
      + apply is_partition_cons in Hp. destruct Hp as (Hq1ne & Hq1ok & Hpl & Hp').
        cbn [length]. apply le_n_S.
        subst l. rewrite app_assoc in Hpl. symmetry in Hpl.
        (* Hpl : q1 ++ concat p' = (pre ++ b1) ++ concat g' *)
        apply app_eq_app in Hpl. destruct Hpl as [l2 [[Hq1 Hcg] | [Hpb Hcp]]].
        * (* q1 = (pre ++ b1) ++ l2 : q1 reaches at least the end of b1 *)
          destruct l2 as [|x r].
          -- rewrite app_nil_l in Hcg.
             apply (IH (concat g') [] p' Hg' (greedy_tail _ _ Hgr)).
             rewrite app_nil_l. rewrite Hcg. exact Hp'.
          -- (* q1 strictly longer: contradicts maximality of b1 *)
             exfalso.
             destruct g' as [|b2 g''].
             ++ cbn [concat] in Hcg. discriminate Hcg.
             ++ pose proof (is_partition_cons _ _ _ Hg') as (Hb2ne & _ & _ & _).
                destruct b2 as [|x2 b2']; [contradiction|].
                cbn [concat] in Hcg. cbn [app] in Hcg. injection Hcg as Hx _. subst x2.
                cbn [greedy] in Hgr. destruct Hgr as [Hmax _].
                apply Hmax.
                (* q1 = pre ++ (b1 ++ [x]) ++ r *)
                assert (E : q1 = pre ++ ((b1 ++ [x]) ++ r)).
                { rewrite Hq1. rewrite <- !app_assoc. reflexivity. }
                rewrite E in Hq1ok.
                apply ok_suffix in Hq1ok. apply ok_prefix in Hq1ok. exact Hq1ok.
        * (* pre ++ b1 = q1 ++ l2 : q1 stops inside pre ++ b1 *)
          apply (IH (concat g') l2 p' Hg' (greedy_tail _ _ Hgr)).
          rewrite <- Hcp. exact Hp'.
  Qed.

  Theorem greedy_optimal : forall l g p,
    is_partition l g -> greedy g -> is_partition l p -> length g <= length p.
  Proof.
    intros l g p Hg Hgr Hp. apply (greedy_optimal_gen g l [] p Hg Hgr). exact Hp.
  Qed.

  (* ---- restriction of a partition to the two sides of a cut: at most one block is split ---- *)
  Lemma partition_split : forall p l1 l2,
    is_partition (l1 ++ l2) p ->
    exists p1 p2, is_partition l1 p1 /\ is_partition l2 p2 /\ length p1 + length p2 <= length p + 1.
  Proof.
    induction p as [|q p' IH]; intros l1 l2 Hp.
    - destruct Hp as [Hc _]. cbn [concat] in Hc. symmetry in Hc.
      apply app_eq_nil in Hc. destruct Hc as [H1 H2]. subst l1 l2.
      exists [], []. split; [split; [reflexivity | constructor]|].
      split; [split; [reflexivity | constructor]|]. cbn [length]. lia.
    - apply is_partition_cons in Hp. destruct Hp as (Hqne & Hqok & Hl & Hp').
      symmetry in Hl. apply app_eq_app in Hl. destruct Hl as [m [[Hq Hl2] | [Hl1 Hcp]]].
      + (* q = l1 ++ m, l2 = m ++ concat p' : the cut falls inside (or at the end of) q *)
        assert (P1 : exists p1, is_partition l1 p1 /\ length p1 <= 1).
        { destruct l1 as [|a l1'].
          - exists []. split; [split; [reflexivity | constructor]|]. cbn [length]. lia.
          - exists [a :: l1']. split.
            + split; [cbn [concat]; apply app_nil_r|].
              constructor; [|constructor]. split; [discriminate|].
              rewrite Hq in Hqok. apply ok_prefix in Hqok. exact Hqok.
            + cbn [length]. lia. }
        assert (P2 : exists p2, is_partition l2 p2 /\ length p2 <= length p' + 1).
        { destruct m as [|a m'].
          - exists p'. split; [|lia]. rewrite app_nil_l in Hl2. rewrite Hl2. exact Hp'.
          - exists ((a :: m') :: p'). split.
            + split; [cbn [concat]; symmetry; exact Hl2|].
              constructor; [|exact (proj2 Hp')]. split; [discriminate|].
              rewrite Hq in Hqok. apply ok_suffix in Hqok. exact Hqok.
            + cbn [length]. lia. }
        destruct P1 as (p1 & Hp1 & Hn1). destruct P2 as (p2 & Hp2 & Hn2).
        exists p1, p2. split; [assumption|]. split; [assumption|]. cbn [length]. lia.
      + (* l1 = q ++ m, concat p' = m ++ l2 : q lies entirely inside l1 *)
        rewrite Hcp in Hp'. destruct (IH m l2 Hp') as (p1 & p2 & Hp1 & Hp2 & Hn).
        exists (q :: p1), p2. split.
        * split.
          -- cbn [concat]. rewrite (proj1 Hp1). symmetry. exact Hl1.
          -- constructor; [split; assumption | exact (proj2 Hp1)].
        * split; [assumption|]. cbn [length]. lia.
  Qed.

  (* ---- chunked greedy: every chunk segmented greedily on its own ---- *)
  Definition chunk_greedy (li : list A) (gi : list (list A)) : Prop :=
    is_partition li gi /\ greedy gi.

  Theorem chunked_greedy_bound : forall chunks gs p,
    Forall2 chunk_greedy chunks gs ->
    is_partition (concat chunks) p ->
    length (concat gs) <= length p + (length chunks - 1).
  Proof.
    induction chunks as [|c1 cs IH]; intros gs p HF Hp.
    - inversion HF; subst. cbn [concat length]. lia.
    - inversion HF as [|c1' g1 cs' gs' [Hg1 Hgr1] HF']; subst.
      cbn [concat] in Hp |- *. rewrite app_length.
      destruct cs as [|c2 cs''].
      + inversion HF'; subst. cbn [concat] in Hp |- *. rewrite app_nil_r in Hp.
        cbn [length]. pose proof (greedy_optimal c1 g1 p Hg1 Hgr1 Hp). lia.
      + destruct (partition_split p c1 (concat (c2 :: cs'')) Hp) as (p1 & p2 & Hp1 & Hp2 & Hn).
        pose proof (greedy_optimal c1 g1 p1 Hg1 Hgr1 Hp1) as H1.
        pose proof (IH gs' p2 HF' Hp2) as H2.
        cbn [length] in H2 |- *. lia.
  Qed.

  (* the concatenation of the per-chunk partitions is itself a partition of the whole list *)
  Lemma chunked_is_partition : forall chunks gs,
    Forall2 chunk_greedy chunks gs -> is_partition (concat chunks) (concat gs).
  Proof.
    intros chunks gs HF. induction HF as [|c g cs gs' [[Hc Hall] _] _ IH].
    - split; [reflexivity | constructor].
    - cbn [concat]. destruct IH as [IHc IHall]. split.
      + rewrite concat_app. rewrite Hc, IHc. reflexivity.
      + apply Forall_app. split; assumption.
  Qed.

End Greedy.

Arguments is_partition {A} ok l bs.
Arguments greedy {A} ok g.
Arguments chunk_greedy {A} ok li gi.

(* ---------- instance: blocks fitted by one line within eps ---------- *)
Require Import Base PlaModel PlaSpec PlaCert.

Theorem feasible_greedy_optimal : forall eps (l : list (Z * Z)) g p,
  is_partition (feasible eps) l g -> greedy (feasible eps) g -> is_partition (feasible eps) l p ->
  length g <= length p.
Proof.
  intros eps l g p. apply (greedy_optimal (Z * Z) (feasible eps)).
  - intros a b. apply feasible_app_l.
  - intros a b. apply feasible_app_r.
Qed.

Theorem feasible_chunked_greedy_bound : forall eps (chunks : list (list (Z * Z))) gs p,
  Forall2 (chunk_greedy (feasible eps)) chunks gs ->
  is_partition (feasible eps) (concat chunks) p ->
  length (concat gs) <= length p + (length chunks - 1).
Proof.
  intros eps chunks gs p. apply (chunked_greedy_bound (Z * Z) (feasible eps)).
  - intros a b. apply feasible_app_l.
  - intros a b. apply feasible_app_r.
Qed.

Print Assumptions greedy_optimal.
Print Assumptions chunked_greedy_bound.
Print Assumptions feasible_greedy_optimal.
Print Assumptions feasible_chunked_greedy_bound.

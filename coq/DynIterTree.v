(* DynIterTree.v — the LoserTree of DynModel.v as an abstract selection structure.
   Part 1: the interface (tree_iface) the iterator proofs of DynIter.v rely on.
   Part 2: the concrete invariant of the array-embedded loser tree and the proof that it implements the interface. *)
From Coq Require Import ZArith List Bool Lia ZifyBool.
Require Import Base GenLeaf DynModel DynSpec DynCoreLemmas.
Local Open Scope Z_scope.

(* head key of a cursor: None = exhausted, which the tree stores as the sentinel kmax *)
Definition hkey (kmax : Z) (o : option Z) : Z := match o with Some k => k | None => kmax end.

(* s is the least index among the cursors whose head key is minimal (and that key is a real one) *)
Definition is_min_src (kmax : Z) (heads : list (option Z)) (s : Z) : Prop :=
  0 <= s /\ exists k, nth_error heads (Z.to_nat s) = Some (Some k) /\
    forall j o, nth_error heads j = Some o -> k <= hkey kmax o /\ (Z.of_nat j < s -> k < hkey kmax o).

(* insert_starts of lazy_initialize, on the keys alone *)
Fixpoint insert_keys (t : ltree) (keys : list Z) (i : Z) : res ltree :=
  match keys with
  | [] => Ok t
  | key :: rest => do t1 <- lt_set t (lt_k t + i) (key, i); insert_keys t1 rest (i + 1)
  end.

(* tree_ok t heads: the tree t selects among cursors whose current head keys are heads *)
Record tree_iface (kmax : Z) (tree_ok : ltree -> list (option Z) -> Prop) : Prop := mkTI {
  ti_init : forall keys, 0 < zlen keys <= 64 -> Forall (fun k => k < kmax) keys ->
    exists t1 t2, insert_keys (lt_new kmax (zlen keys)) keys 0 = Ok t1 /\ lt_init t1 = Ok t2 /\
                  tree_ok t2 (map Some keys);
  ti_min : forall t heads, tree_ok t heads -> (exists j k, nth_error heads j = Some (Some k)) ->
    exists s, min_source t = Ok s /\ is_min_src kmax heads s;
  ti_step : forall t heads s k nk, tree_ok t heads -> min_source t = Ok s -> 0 <= s ->
    nth_error heads (Z.to_nat s) = Some (Some k) ->
    match nk with Some k' => k' < kmax | None => True end ->
    exists t', delete_min_insert kmax t nk = Ok t' /\ tree_ok t' (set_nth heads (Z.to_nat s) nk)
}.

(* DynIterTree.v — the LoserTree of DynModel.v as an abstract selection structure.
   Part 1: the interface (tree_iface) the iterator proofs of DynIter.v rely on.
   Part 2: the concrete invariant of the array-embedded loser tree and the proof that it implements the interface. *)
From Coq Require Import ZArith List Bool Lia ZifyBool.
Require Import Base GenLeaf DynModel DynSpec DynCoreLemmas.
Local Open Scope Z_scope.

Ltac csplit := repeat match goal with |- _ /\ _ => refine (conj _ _) end.

(* head key of a cursor: None = exhausted, which the tree stores as the sentinel kmax *)
Definition hkey (kmax : Z) (o : option Z) : Z := match o with Some k => k | None => kmax end.

(* s is the least index among the cursors whose head key is minimal (and that key is a real one) *)
Definition is_min_src (kmax : Z) (heads : list (option Z)) (s : Z) : Prop :=
  0 <= s /\ exists k, nth_error heads (Z.to_nat s) = Some (Some k) /\
    forall j o, nth_error heads j = Some o -> k <= hkey kmax o /\ (Z.of_nat j < s -> k < hkey kmax o).

(* insert_starts of lazy_initialize, on the keys alone *)
Fixpoint insert_keys (t : ltree) (keys : list Z) (i : Z) : res ltree :=
  match keys with
  | [] => Ok t
  | key :: rest => do t1 <- lt_set t (lt_k t + i) (key, i); insert_keys t1 rest (i + 1)
  end.

(* tree_ok t heads: the tree t selects among cursors whose current head keys are heads *)
Record tree_iface (kmax : Z) (tree_ok : ltree -> list (option Z) -> Prop) : Prop := mkTI {
  ti_init : forall keys, 0 < zlen keys <= 64 -> Forall (fun k => k < kmax) keys ->
    exists t1 t2, insert_keys (lt_new kmax (zlen keys)) keys 0 = Ok t1 /\ lt_init t1 = Ok t2 /\
                  tree_ok t2 (map Some keys);
  ti_min : forall t heads, tree_ok t heads -> (exists j k, nth_error heads j = Some (Some k)) ->
    exists s, min_source t = Ok s /\ is_min_src kmax heads s;
  ti_step : forall t heads s k nk, tree_ok t heads -> min_source t = Ok s -> 0 <= s ->
    nth_error heads (Z.to_nat s) = Some (Some k) ->
    match nk with Some k' => k' < kmax | None => True end ->
    exists t', delete_min_insert kmax t nk = Ok t' /\ tree_ok t' (set_nth heads (Z.to_nat s) nk)
}.

(* ================================================================================================
   Part 2: the concrete loser tree.
   ================================================================================================ *)

(* strict order on (key, source): smaller key first, ties to the smaller source *)
Definition lt2b (a b : loser) : bool := (fst a <? fst b) || ((fst a =? fst b) && (snd a <? snd b)).
Definition win (a b : loser) : loser := if lt2b b a then b else a.
Definition lose (a b : loser) : loser := if lt2b b a then a else b.

Lemma lt2b_spec : forall a b, lt2b a b = true <-> (fst a < fst b \/ (fst a = fst b /\ snd a < snd b)).
Proof. intros [a1 a2] [b1 b2]. unfold lt2b. cbn [fst snd]. lia. Qed.

Lemma lt2b_false_both : forall a b, lt2b a b = false -> lt2b b a = false -> a = b.
Proof.
  intros [a1 a2] [b1 b2] H1 H2. unfold lt2b in *. cbn [fst snd] in *. f_equal; lia.
Qed.

Lemma win_comm : forall a b, win a b = win b a.
Proof.
  intros a b. unfold win. destruct (lt2b b a) eqn:E1, (lt2b a b) eqn:E2; auto.
  - apply lt2b_spec in E1. apply lt2b_spec in E2. lia.
  - apply lt2b_false_both; auto.
Qed.

Lemma lose_comm : forall a b, lose a b = lose b a.
Proof.
  intros a b. unfold lose. destruct (lt2b b a) eqn:E1, (lt2b a b) eqn:E2; auto.
  - apply lt2b_spec in E1. apply lt2b_spec in E2. lia.
  - symmetry. apply lt2b_false_both; auto.
Qed.

(* le2 a b: a is not worse than b *)
Definition le2 (a b : loser) : Prop := lt2b b a = false.

Lemma le2_refl : forall a, le2 a a.
Proof. intros [a1 a2]. unfold le2, lt2b. cbn [fst snd]. lia. Qed.
Lemma le2_trans : forall a b c, le2 a b -> le2 b c -> le2 a c.
Proof. intros [a1 a2] [b1 b2] [c1 c2]. unfold le2, lt2b. cbn [fst snd]. lia. Qed.
Lemma le2_antisym : forall a b, le2 a b -> le2 b a -> a = b.
Proof. intros a b H1 H2. apply lt2b_false_both; auto. Qed.
Lemma le2_total : forall a b, le2 a b \/ le2 b a.
Proof. intros [a1 a2] [b1 b2]. unfold le2, lt2b. cbn [fst snd]. lia. Qed.

Lemma win_le_l : forall a b, le2 (win a b) a.
Proof. intros a b. unfold win. destruct (lt2b b a) eqn:E; [|apply le2_refl].
  destruct a, b. unfold le2, lt2b in *. cbn [fst snd] in *. lia. Qed.
Lemma win_le_r : forall a b, le2 (win a b) b.
Proof. intros a b. rewrite win_comm. apply win_le_l. Qed.
Lemma win_cases : forall a b, win a b = a \/ win a b = b.
Proof. intros a b. unfold win. destruct (lt2b b a); auto. Qed.
Lemma lose_of_le : forall a b, le2 a b -> lose a b = b.
Proof. intros a b H. unfold lose. unfold le2 in H. rewrite H. reflexivity. Qed.
Lemma win_of_le : forall a b, le2 a b -> win a b = a.
Proof. intros a b H. unfold win. unfold le2 in H. rewrite H. reflexivity. Qed.

(* ---------- powers of two ---------- *)
Fixpoint p2 (h : nat) : Z := match h with O => 1 | S h' => 2 * p2 h' end.

Lemma p2_pos : forall h, 0 < p2 h.
Proof. induction h; cbn [p2]; lia. Qed.
Lemma p2_add : forall a b, p2 (a + b) = p2 a * p2 b.
Proof. induction a; intros b; cbn [p2 plus]; [lia|]. rewrite IHa. ring. Qed.
Lemma p2_mono : forall a b, (a <= b)%nat -> p2 a <= p2 b.
Proof.
  intros a b H. replace b with (a + (b - a))%nat by lia. rewrite p2_add.
  pose proof (p2_pos a). pose proof (p2_pos (b - a)). nia.
Qed.
Lemma p2_mono_lt : forall a b, (a < b)%nat -> 2 * p2 a <= p2 b.
Proof. intros a b H. change (2 * p2 a) with (p2 (S a)). apply p2_mono. lia. Qed.

(* the subtrees of the two children of r occupy disjoint index ranges at every pair of depths *)
Lemma sib_disjoint : forall r d d' i, 1 <= r ->
  (2 * r + 1) * p2 d' <= i < (2 * r + 2) * p2 d' -> ~ (2 * r * p2 d <= i < (2 * r + 1) * p2 d).
Proof.
  intros r d d' i Hr H1 H2. pose proof (p2_pos d). pose proof (p2_pos d').
  destruct (Nat.le_gt_cases d d') as [Hd|Hd].
  - pose proof (p2_mono d d' Hd). nia.
  - pose proof (p2_mono_lt d' d Hd). nia.
Qed.

(* node r lies at depth d of the heap-ordered complete tree (root 1 at depth 0) *)
Definition dep (d : nat) (r : Z) : Prop := p2 d <= r < 2 * p2 d.

Lemma dep_children : forall d r, dep d r -> dep (S d) (2 * r) /\ dep (S d) (2 * r + 1).
Proof. unfold dep. intros d r H. cbn [p2]. lia. Qed.

Lemma dep_parent : forall d r, dep (S d) r -> dep d (r / 2).
Proof.
  unfold dep. intros d r H. cbn [p2] in H.
  pose proof (Z.div_mod r 2 ltac:(lia)). pose proof (Z.mod_pos_bound r 2 ltac:(lia)). lia.
Qed.

Lemma dep_zero : forall r, dep 0 r -> r = 1.
Proof. unfold dep. cbn [p2]. intros. lia. Qed.

(* ---------- the winner of a subtree ---------- *)
Section WSec.
Variable k : Z.                       (* number of leaves; leaf j is node k + j *)

Fixpoint W (vals : Z -> loser) (h : nat) (node : Z) : loser :=
  match h with
  | O => vals (node - k)
  | S h' => win (W vals h' (2 * node)) (W vals h' (2 * node + 1))
  end.

(* leaves below node r of height h: k + j in [r * 2^h, (r+1) * 2^h) *)
Definition under (h : nat) (r j : Z) : Prop := r * p2 h <= k + j < (r + 1) * p2 h.

Lemma under_split : forall h r j, under (S h) r j <-> under h (2 * r) j \/ under h (2 * r + 1) j.
Proof. unfold under. intros h r j. cbn [p2]. pose proof (p2_pos h). nia. Qed.

Lemma W_in : forall vals h r, exists j, under h r j /\ W vals h r = vals j.
Proof.
  intros vals. induction h as [|h IH]; intros r.
  - exists (r - k). unfold under. cbn [p2 W]. split; [lia|reflexivity].
  - cbn [W]. destruct (IH (2 * r)) as [j1 [U1 E1]]. destruct (IH (2 * r + 1)) as [j2 [U2 E2]].
    destruct (win_cases (W vals h (2 * r)) (W vals h (2 * r + 1))) as [E|E]; rewrite E.
    + exists j1. split; auto. apply under_split. auto.
    + exists j2. split; auto. apply under_split. auto.
Qed.

Lemma W_min : forall vals h r j, under h r j -> le2 (W vals h r) (vals j).
Proof.
  intros vals. induction h as [|h IH]; intros r j U.
  - unfold under in U. cbn [p2 W] in *. replace (r - k) with j by lia. apply le2_refl.
  - cbn [W]. apply under_split in U. destruct U as [U|U].
    + eapply le2_trans; [apply win_le_l|apply IH; auto].
    + eapply le2_trans; [apply win_le_r|apply IH; auto].
Qed.

Lemma W_ext : forall vals vals' h r, (forall j, under h r j -> vals j = vals' j) ->
  W vals h r = W vals' h r.
Proof.
  intros vals vals'. induction h as [|h IH]; intros r H.
  - cbn [W]. apply H. unfold under. cbn [p2]. lia.
  - cbn [W]. rewrite (IH (2 * r)), (IH (2 * r + 1)); auto.
    + intros j U. apply H. apply under_split. auto.
    + intros j U. apply H. apply under_split. auto.
Qed.

(* a subtree containing a globally minimal leaf has that value as its winner *)
Lemma W_of_min : forall vals h r s, under h r s -> (forall j, under h r j -> le2 (vals s) (vals j)) ->
  W vals h r = vals s.
Proof.
  intros vals h r s U Hmin. destruct (W_in vals h r) as [j [Uj Ej]].
  apply le2_antisym; [apply W_min; auto|]. rewrite Ej. apply Hmin; auto.
Qed.

(* ---------- the array ---------- *)
Definition ga (arr : list loser) (i : Z) : loser :=
  match nth_error arr (Z.to_nat i) with Some x => x | None => (0, 0) end.

Lemma lt_get_ga : forall kk arr i, 0 <= i < zlen arr -> lt_get (mkLt kk arr) i = Ok (ga arr i).
Proof.
  intros kk arr i H. unfold lt_get, ga. cbn [lt_losers].
  destruct (nth_res_total _ arr i H) as [a Ha]. rewrite Ha. apply nth_res_ok in Ha.
  destruct Ha as [_ Ha]. rewrite Ha. reflexivity.
Qed.

Lemma lt_set_ok : forall kk arr i v, 0 <= i < zlen arr ->
  lt_set (mkLt kk arr) i v = Ok (mkLt kk (set_nth arr (Z.to_nat i) v)).
Proof.
  intros kk arr i v H. unfold lt_set. cbn [lt_losers lt_k].
  assert (E : ((i <? 0) || (i >=? zlen arr)) = false) by lia. rewrite E. reflexivity.
Qed.

Lemma ga_set : forall arr n v i, 0 <= n < zlen arr -> 0 <= i ->
  ga (set_nth arr (Z.to_nat n) v) i = if i =? n then v else ga arr i.
Proof.
  intros arr n v i Hn Hi. unfold ga. rewrite set_nth_nth_error. unfold zlen in Hn.
  destruct (i =? n) eqn:E.
  - assert (E1 : Nat.eqb (Z.to_nat i) (Z.to_nat n) = true) by (apply Nat.eqb_eq; lia). rewrite E1.
    assert (E2 : Nat.ltb (Z.to_nat n) (length arr) = true) by (apply Nat.ltb_lt; lia). rewrite E2. reflexivity.
  - assert (E1 : Nat.eqb (Z.to_nat i) (Z.to_nat n) = false) by (apply Nat.eqb_neq; lia). rewrite E1. reflexivity.
Qed.

Lemma zlen_set_nth : forall A (l : list A) n v, zlen (set_nth l n v) = zlen l.
Proof. intros. unfold zlen. rewrite set_nth_length. reflexivity. Qed.

Lemma under_inj : forall h r r' j, under h r j -> under h r' j -> r = r'.
Proof.
  unfold under. intros h r r' j H1 H2. pose proof (p2_pos h).
  destruct (Z_lt_dec r r'); [nia|]. destruct (Z_lt_dec r' r); [nia|]. lia.
Qed.

Variable H : nat.
Hypothesis Hk : k = p2 H.

Lemma under_range : forall d h r j, (d + h = H)%nat -> dep d r -> under h r j -> 0 <= j < k.
Proof.
  unfold dep, under. intros d h r j E Hd Hu. subst k. rewrite <- E, p2_add in *.
  pose proof (p2_pos h). pose proof (p2_pos d). nia.
Qed.

Lemma dep_lt_k : forall d r, (d < H)%nat -> dep d r -> 1 <= r < k.
Proof.
  unfold dep. intros d r E Hd. pose proof (p2_pos d). pose proof (p2_mono_lt d H E). lia.
Qed.

Lemma dep_neq : forall d d' r r', (d < d')%nat -> dep d r -> dep d' r' -> r < r'.
Proof. unfold dep. intros d d' r r' E H1 H2. pose proof (p2_mono_lt d d' E). lia. Qed.

Definition nodes_ok (vals : Z -> loser) (arr : list loser) : Prop :=
  forall d h r, (d + S h = H)%nat -> dep d r ->
    ga arr r = lose (W vals h (2 * r)) (W vals h (2 * r + 1)).

Definition tree_inv (vals : Z -> loser) (arr : list loser) : Prop :=
  zlen arr = 2 * k /\ nodes_ok vals arr /\ ga arr 0 = W vals H 1.

Lemma dmi_test : forall (lp : loser) key source,
  ((fst lp <? key) || ((key >=? fst lp) && (snd lp <? source))) = lt2b lp (key, source).
Proof. intros [a b] key source. unfold lt2b. cbn [fst snd]. lia. Qed.

(* ---------- replaying the path of the deleted minimum ---------- *)
Section Replay.
Variable vals : Z -> loser.
Variable s : Z.
Variable nv : loser.
Hypothesis Hs : 0 <= s < k.
Hypothesis Hmin : forall j, 0 <= j < k -> le2 (vals s) (vals j).
Definition upd : Z -> loser := fun j => if j =? s then nv else vals j.

Lemma upd_same_off : forall h r, ~ under h r s -> W upd h r = W vals h r.
Proof.
  intros h r Hn. apply W_ext. intros j U. unfold upd. destruct (j =? s) eqn:E; auto.
  assert (j = s) by lia. subst j. contradiction.
Qed.

Lemma sibling_value : forall d0 hh pos c, (d0 + S hh = H)%nat -> dep d0 pos ->
  c = 2 * pos \/ c = 2 * pos + 1 -> under hh c s ->
  lose (W vals hh (2 * pos)) (W vals hh (2 * pos + 1)) = W upd hh (4 * pos + 1 - c).
Proof.
  intros d0 hh pos c E Hd Hc Hu.
  assert (Hdc : dep (S d0) c) by (destruct (dep_children d0 pos Hd); destruct Hc; subst; auto).
  assert (Hds : dep (S d0) (4 * pos + 1 - c)).
  { destruct (dep_children d0 pos Hd). destruct Hc; subst c.
    - replace (4 * pos + 1 - 2 * pos) with (2 * pos + 1) by lia. auto.
    - replace (4 * pos + 1 - (2 * pos + 1)) with (2 * pos) by lia. auto. }
  assert (Hwc : W vals hh c = vals s).
  { apply W_of_min; auto. intros j Uj. apply Hmin. eapply (under_range (S d0) hh c); eauto. lia. }
  assert (Hle : le2 (W vals hh c) (W vals hh (4 * pos + 1 - c))).
  { rewrite Hwc. destruct (W_in vals hh (4 * pos + 1 - c)) as [j [Uj Ej]]. rewrite Ej.
    apply Hmin. eapply (under_range (S d0) hh); eauto. lia. }
  assert (Hoff : ~ under hh (4 * pos + 1 - c) s).
  { intros U. pose proof (under_inj _ _ _ _ Hu U). lia. }
  rewrite (upd_same_off _ _ Hoff).
  destruct Hc; subst c.
  - replace (4 * pos + 1 - 2 * pos) with (2 * pos + 1) in * by lia. apply lose_of_le; auto.
  - replace (4 * pos + 1 - (2 * pos + 1)) with (2 * pos) in * by lia. rewrite lose_comm. apply lose_of_le; auto.
Qed.

Lemma parent_W : forall hh pos c, c = 2 * pos \/ c = 2 * pos + 1 ->
  win (W upd hh c) (W upd hh (4 * pos + 1 - c)) = W upd (S hh) pos /\
  lose (W upd hh c) (W upd hh (4 * pos + 1 - c)) = lose (W upd hh (2 * pos)) (W upd hh (2 * pos + 1)).
Proof.
  intros hh pos c Hc. cbn [W]. destruct Hc; subst c.
  - replace (4 * pos + 1 - 2 * pos) with (2 * pos + 1) by lia. auto.
  - replace (4 * pos + 1 - (2 * pos + 1)) with (2 * pos) by lia. split; [apply win_comm|apply lose_comm].
Qed.

Lemma dmi_loop_ok : forall fuel hh d c arr cand,
  (d + hh = H)%nat -> (d + 1 <= fuel)%nat -> dep d c -> under hh c s -> zlen arr = 2 * k ->
  cand = W upd hh c ->
  (forall d' h' r, (d' + S h' = H)%nat -> (h' < hh)%nat -> dep d' r ->
     ga arr r = lose (W upd h' (2 * r)) (W upd h' (2 * r + 1))) ->
  (forall d' h' r, (d' + S h' = H)%nat -> (hh <= h')%nat -> dep d' r ->
     ga arr r = lose (W vals h' (2 * r)) (W vals h' (2 * r + 1))) ->
  exists arr', dmi_loop fuel (mkLt k arr) (c / 2) (fst cand) (snd cand)
                 = Ok (mkLt k arr', fst (W upd H 1), snd (W upd H 1)) /\
               zlen arr' = 2 * k /\ nodes_ok upd arr'.
Proof.
  induction fuel as [|fuel IH]; intros hh d c arr cand E Hf Hd Hu Hz Hcand I1 I2; [lia|].
  destruct d as [|d0].
  - apply dep_zero in Hd. subst c. change (1 / 2) with 0. cbn [dmi_loop]. cbn [plus] in E. subst hh.
    exists arr. rewrite Hcand. csplit; auto. intros d' h' r E' Hd'. apply (I1 d' h' r); auto. lia.
  - pose proof (dep_parent d0 c Hd) as Hdp. remember (c / 2) as pos eqn:Epos.
    destruct (dep_lt_k d0 pos ltac:(lia) Hdp) as [Hp1 Hpk].
    assert (Hc : c = 2 * pos \/ c = 2 * pos + 1).
    { subst pos. pose proof (Z.div_mod c 2 ltac:(lia)). pose proof (Z.mod_pos_bound c 2 ltac:(lia)). lia. }
    assert (Hup : under (S hh) pos s) by (apply under_split; destruct Hc; subst c; auto).
    set (lp := ga arr pos).
    assert (Hlp : lp = W upd hh (4 * pos + 1 - c)).
    { unfold lp. rewrite (I2 d0 hh pos ltac:(lia) ltac:(lia) Hdp). eapply sibling_value; eauto. lia. }
    destruct (parent_W hh pos c Hc) as [PW PL]. rewrite <- Hcand, <- Hlp in PW, PL.
    assert (Hgen : forall arr1 cand1, zlen arr1 = 2 * k -> ga arr1 pos = lose cand lp ->
              (forall r, 0 <= r -> r <> pos -> ga arr1 r = ga arr r) -> cand1 = win cand lp ->
              exists arr', dmi_loop fuel (mkLt k arr1) (pos / 2) (fst cand1) (snd cand1)
                             = Ok (mkLt k arr', fst (W upd H 1), snd (W upd H 1)) /\
                           zlen arr' = 2 * k /\ nodes_ok upd arr').
    { intros arr1 cand1 Hz1 Hpos1 Hoth Hc1. apply (IH (S hh) d0 pos arr1 cand1); auto; try lia.
      - congruence.
      - intros d' h' r E' Hlt Hd'. assert (Hr0 : 0 <= r) by (unfold dep in Hd'; pose proof (p2_pos d'); lia).
        destruct (Nat.eq_dec h' hh) as [->|Hne].
        + assert (d' = d0) by lia. subst d'. destruct (Z.eq_dec r pos) as [->|Hrp].
          * rewrite Hpos1. exact PL.
          * rewrite Hoth by auto. rewrite (I2 d0 hh r ltac:(lia) ltac:(lia) Hd').
            assert (Hnu : ~ under (S hh) r s) by (intros U; apply Hrp; eapply under_inj; eauto).
            rewrite !upd_same_off; auto; intros U; apply Hnu; apply under_split; auto.
        + rewrite Hoth; auto; [apply (I1 d' h' r); auto; lia|].
          pose proof (dep_neq d0 d' pos r ltac:(lia) Hdp Hd'). lia.
      - intros d' h' r E' Hle Hd'. assert (Hr0 : 0 <= r) by (unfold dep in Hd'; pose proof (p2_pos d'); lia).
        rewrite Hoth; auto; [apply (I2 d' h' r); auto; lia|].
        pose proof (dep_neq d' d0 r pos ltac:(lia) Hd' Hdp). lia. }
    cbn [dmi_loop]. assert (Ep : (pos >? 0) = true) by lia. rewrite Ep.
    rewrite (lt_get_ga k arr pos ltac:(lia)). fold lp. cbn [bind]. rewrite dmi_test.
    replace (fst cand, snd cand) with cand by (destruct cand; reflexivity).
    destruct (lt2b lp cand) eqn:Et.
    + rewrite (lt_set_ok k arr pos _ ltac:(lia)). cbn [bind].
      replace (fst cand, snd cand) with cand by (destruct cand; reflexivity).
      apply Hgen.
      * rewrite zlen_set_nth. auto.
      * rewrite ga_set by lia. rewrite Z.eqb_refl. unfold lose. rewrite Et. reflexivity.
      * intros r Hr Hne. rewrite ga_set by lia. destruct (r =? pos) eqn:Er; [lia|reflexivity].
      * unfold win. rewrite Et. reflexivity.
    + apply Hgen; auto.
      * fold lp. unfold lose. rewrite Et. reflexivity.
      * unfold win. rewrite Et. reflexivity.
Qed.

Lemma dmi_ok : forall km arr nk, tree_inv vals arr -> snd (vals s) = s -> (H + 1 <= 12)%nat ->
  nv = (hkey km nk, s) ->
  exists arr', delete_min_insert km (mkLt k arr) nk = Ok (mkLt k arr') /\ tree_inv upd arr'.
Proof.
  intros km arr nk [Hz [Hn H0]] Hsnd HH Hnv. pose proof (p2_pos H) as Hp.
  assert (Hw : W vals H 1 = vals s).
  { apply W_of_min.
    - unfold under. lia.
    - intros j U. apply Hmin. eapply (under_range 0 H 1); eauto. unfold dep. cbn [p2]. lia. }
  unfold delete_min_insert. rewrite (lt_get_ga k arr 0 ltac:(lia)). cbn [bind lt_k].
  rewrite H0, Hw, Hsnd.
  assert (Hkey : match nk with Some k0 => k0 | None => km end = fst nv) by (rewrite Hnv; destruct nk; reflexivity).
  rewrite Hkey. assert (Hs2 : snd nv = s) by (rewrite Hnv; reflexivity).
  destruct (dmi_loop_ok 12 0 H (k + s) arr nv) as [arr1 [Hl [Hz1 Hn1]]]; auto; try lia.
  - unfold dep. lia.
  - unfold under. cbn [p2]. lia.
  - cbn [W]. unfold upd. replace (k + s - k) with s by lia. rewrite Z.eqb_refl. reflexivity.
  - intros d' h' r E _ Hd. apply (Hn d' h' r); auto.
  - rewrite Hs2 in Hl. rewrite Hl. cbn [bind]. rewrite (lt_set_ok k arr1 0 _ ltac:(lia)).
    exists (set_nth arr1 (Z.to_nat 0) (fst (W upd H 1), snd (W upd H 1))). split; [reflexivity|].
    split; [rewrite zlen_set_nth; auto|]. split.
    + intros d h r E Hd. rewrite ga_set by (try lia; unfold dep in Hd; pose proof (p2_pos d); lia).
      assert (Er : (r =? 0) = false) by (unfold dep in Hd; pose proof (p2_pos d); lia). rewrite Er.
      apply (Hn1 d h r); auto.
    + rewrite ga_set by lia. cbn. destruct (W upd H 1); reflexivity.
Qed.

End Replay.

(* ---------- building the tree ---------- *)
Section Build.
Variable vals : Z -> loser.
(* equal keys are ordered by leaf position: the source numbers grow with the leaf index *)
Hypothesis Hmono : forall i j, 0 <= i -> i < j -> j < k -> fst (vals i) = fst (vals j) -> snd (vals i) <= snd (vals j).

Definition leaves_ok (arr : list loser) : Prop := forall j, 0 <= j < k -> ga arr (k + j) = vals j.

Definition outside (h : nat) (r i : Z) : Prop :=
  forall e, (e < h)%nat -> ~ (r * p2 e <= i < (r + 1) * p2 e).

Lemma outside_children : forall h r i, outside (S h) r i -> outside h (2 * r) i /\ outside h (2 * r + 1) i.
Proof.
  unfold outside. intros h r i Ho. split; intros e He Hin; apply (Ho (S e) ltac:(lia)); cbn [p2];
    pose proof (p2_pos e); nia.
Qed.

Lemma left_before_right : forall h r i j, under h (2 * r) i -> under h (2 * r + 1) j -> i < j.
Proof. unfold under. intros h r i j H1 H2. pose proof (p2_pos h). nia. Qed.

Lemma pick_left : forall ll lr, (fst lr >=? fst ll) = true -> (fst ll = fst lr -> snd ll <= snd lr) ->
  win ll lr = ll /\ lose ll lr = lr.
Proof.
  intros [a1 a2] [b1 b2] H1 H2. unfold win, lose, lt2b. cbn [fst snd] in *.
  assert (E : ((b1 <? a1) || ((b1 =? a1) && (b2 <? a2))) = false) by lia. rewrite E. auto.
Qed.

Lemma pick_right : forall ll lr, (fst lr >=? fst ll) = false -> win ll lr = lr /\ lose ll lr = ll.
Proof.
  intros [a1 a2] [b1 b2] H1. unfold win, lose, lt2b. cbn [fst snd] in *.
  assert (E : ((b1 <? a1) || ((b1 =? a1) && (b2 <? a2))) = true) by lia. rewrite E. auto.
Qed.

Definition sub_nodes_ok (h : nat) (r : Z) (arr : list loser) : Prop :=
  forall e h' r', (e + S h' = h)%nat -> r * p2 e <= r' < (r + 1) * p2 e ->
    ga arr r' = lose (W vals h' (2 * r')) (W vals h' (2 * r' + 1)).

Lemma init_winner_ok : forall fuel h d r arr, (h < fuel)%nat -> (d + h = H)%nat -> dep d r ->
  zlen arr = 2 * k -> leaves_ok arr ->
  exists arr' w, init_winner fuel (mkLt k arr) r = Ok (mkLt k arr', w) /\ zlen arr' = 2 * k /\
    leaves_ok arr' /\ k <= w < 2 * k /\ under h r (w - k) /\ vals (w - k) = W vals h r /\
    (forall i, 0 <= i -> outside h r i -> ga arr' i = ga arr i) /\ sub_nodes_ok h r arr'.
Proof.
  induction fuel as [|fuel IH]; intros h d r arr Hf E Hd Hz Hl; [lia|].
  cbn [init_winner lt_k]. destruct h as [|h0].
  - assert (Hrk : k <= r < 2 * k) by (unfold dep in Hd; replace d with H in Hd by lia; lia).
    assert (Et : (r >=? k) = true) by lia. rewrite Et. exists arr, r. csplit; auto; try lia.
    + unfold under. cbn [p2]. lia.
    + intros e h' r' E'. lia.
  - destruct (dep_lt_k d r ltac:(lia) Hd) as [Hr1 Hrk].
    assert (Et : (r >=? k) = false) by lia. rewrite Et.
    destruct (dep_children d r Hd) as [Hdl Hdr].
    destruct (IH h0 (S d) (2 * r) arr ltac:(lia) ltac:(lia) Hdl Hz Hl)
      as [arr1 [w1 [R1 [Z1 [L1 [B1 [U1 [V1 [F1 N1]]]]]]]]].
    rewrite R1. cbn [bind].
    destruct (IH h0 (S d) (2 * r + 1) arr1 ltac:(lia) ltac:(lia) Hdr Z1 L1)
      as [arr2 [w2 [R2 [Z2 [L2 [B2 [U2 [V2 [F2 N2]]]]]]]]].
    rewrite R2. cbn [bind].
    rewrite (lt_get_ga k arr2 w2 ltac:(lia)), (lt_get_ga k arr2 w1 ltac:(lia)). cbn [bind].
    pose proof (under_range (S d) h0 _ _ ltac:(lia) Hdl U1) as Hr1'.
    pose proof (under_range (S d) h0 _ _ ltac:(lia) Hdr U2) as Hr2'.
    assert (G1 : ga arr2 w1 = W vals h0 (2 * r)).
    { rewrite <- V1, <- (L2 (w1 - k) Hr1'). f_equal. lia. }
    assert (G2 : ga arr2 w2 = W vals h0 (2 * r + 1)).
    { rewrite <- V2, <- (L2 (w2 - k) Hr2'). f_equal. lia. }
    rewrite G1, G2.
    set (ll := W vals h0 (2 * r)) in *. set (lr := W vals h0 (2 * r + 1)) in *.
    assert (Hpost : forall X, X = lose ll lr ->
              zlen (set_nth arr2 (Z.to_nat r) X) = 2 * k /\ leaves_ok (set_nth arr2 (Z.to_nat r) X) /\
              (forall i, 0 <= i -> outside (S h0) r i -> ga (set_nth arr2 (Z.to_nat r) X) i = ga arr i) /\
              sub_nodes_ok (S h0) r (set_nth arr2 (Z.to_nat r) X)).
    { intros X HX. csplit.
      - rewrite zlen_set_nth. auto.
      - intros j Hj. rewrite ga_set by lia. assert (E1 : (k + j =? r) = false) by lia. rewrite E1. auto.
      - intros i Hi Ho. rewrite ga_set by lia. assert (E1 : (i =? r) = false).
        { specialize (Ho 0%nat ltac:(lia)). cbn [p2] in Ho. lia. }
        rewrite E1. destruct (outside_children h0 r i Ho) as [O1 O2]. rewrite F2, F1; auto.
      - intros e h' r' E' Hin. destruct e as [|e0].
        + cbn [p2] in Hin. assert (r' = r) by lia. subst r'. assert (h' = h0) by lia. subst h'.
          rewrite ga_set by lia. rewrite Z.eqb_refl. exact HX.
        + cbn [p2] in Hin. pose proof (p2_pos e0). rewrite ga_set by nia.
          assert (E1 : (r' =? r) = false) by nia. rewrite E1.
          destruct (Z_lt_dec r' ((2 * r + 1) * p2 e0)) as [Hlt|Hge].
          * rewrite F2; [apply (N1 e0 h' r'); [lia|nia]|nia|].
            intros e2 He2 Hin2. replace (2 * r + 1 + 1) with (2 * r + 2) in Hin2 by lia.
            apply (sib_disjoint r e0 e2 r' Hr1 Hin2). nia.
          * apply (N2 e0 h' r'); [lia|nia]. }
    destruct (fst lr >=? fst ll) eqn:Eg.
    + destruct (pick_left ll lr Eg) as [PW PL].
      { intros Ek. rewrite <- V1, <- V2 in *. apply Hmono; try lia.
        apply (left_before_right h0 r); auto. }
      rewrite (lt_set_ok k arr2 r _ ltac:(lia)). cbn [bind].
      destruct (Hpost lr (eq_sym PL)) as [P1 [P2 [P3 P4]]].
      exists (set_nth arr2 (Z.to_nat r) lr), w1. csplit; auto; try lia.
      * apply under_split. auto.
      * rewrite V1. cbn [W]. fold ll lr. auto.
    + destruct (pick_right ll lr Eg) as [PW PL].
      rewrite (lt_set_ok k arr2 r _ ltac:(lia)). cbn [bind].
      destruct (Hpost ll (eq_sym PL)) as [P1 [P2 [P3 P4]]].
      exists (set_nth arr2 (Z.to_nat r) ll), w2. csplit; auto; try lia.
      * apply under_split. auto.
      * rewrite V2. cbn [W]. fold ll lr. auto.
Qed.

Lemma lt_init_ok : forall arr, (H < 12)%nat -> zlen arr = 2 * k -> leaves_ok arr ->
  exists arr', lt_init (mkLt k arr) = Ok (mkLt k arr') /\ tree_inv vals arr'.
Proof.
  intros arr HH Hz Hl. pose proof (p2_pos H) as Hp.
  assert (Hd1 : dep 0 1) by (unfold dep; cbn [p2]; lia).
  destruct (init_winner_ok 12 H 0 1 arr HH ltac:(lia) Hd1 Hz Hl)
    as [arr1 [w [R1 [Z1 [L1 [B1 [U1 [V1 [F1 N1]]]]]]]]].
  unfold lt_init. rewrite R1. cbn [bind fst snd].
  rewrite (lt_get_ga k arr1 w ltac:(lia)). cbn [bind].
  rewrite (lt_set_ok k arr1 0 _ ltac:(lia)).
  exists (set_nth arr1 (Z.to_nat 0) (ga arr1 w)). split; [reflexivity|].
  split; [rewrite zlen_set_nth; auto|]. split.
  - intros d h r E Hd. assert (Hr : 1 <= r) by (unfold dep in Hd; pose proof (p2_pos d); lia).
    rewrite ga_set by lia. assert (Er : (r =? 0) = false) by lia. rewrite Er.
    apply (N1 d h r); auto. unfold dep in Hd. lia.
  - rewrite ga_set by lia. cbn. rewrite <- V1. rewrite <- (L1 (w - k)).
    + f_equal. lia.
    + eapply (under_range 0 H 1); eauto.
Qed.

End Build.
End WSec.

Lemma tree_inv_ext : forall k H vals vals' arr, k = p2 H -> (forall j, 0 <= j < k -> vals j = vals' j) ->
  tree_inv k H vals arr -> tree_inv k H vals' arr.
Proof.
  intros k H vals vals' arr Hk Hext [Hz [Hn H0]].
  assert (HW : forall d h r, (d + h = H)%nat -> dep d r -> W k vals h r = W k vals' h r).
  { intros d h r E Hd. apply W_ext. intros j U. apply Hext. eapply (under_range k H Hk d h r); eauto. }
  split; auto. split.
  - intros d h r E Hd. rewrite (Hn d h r E Hd). destruct (dep_children d r Hd) as [D1 D2].
    rewrite (HW (S d) h (2 * r)), (HW (S d) h (2 * r + 1)); auto; lia.
  - rewrite H0. apply (HW 0%nat H 1); [lia|]. unfold dep. cbn [p2]. lia.
Qed.

(* ---------- LoserTree(ik) for 1 <= ik <= 64 ---------- *)
Definition Hof (n : Z) : nat :=
  if n <=? 1 then 0 else if n <=? 2 then 1 else if n <=? 4 then 2 else if n <=? 8 then 3
  else if n <=? 16 then 4 else if n <=? 32 then 5 else 6.

Lemma np2_table : forall n, 1 <= n <= 64 ->
  wrapU 8 (next_pow2 n) = p2 (Hof n) /\ n <= p2 (Hof n) /\ (Hof n <= 6)%nat.
Proof.
  intros n Hn.
  assert (Hall : forallb (fun n => (wrapU 8 (next_pow2 n) =? p2 (Hof n)) && (n <=? p2 (Hof n)) && (Nat.leb (Hof n) 6))
                         (zseq 1 64) = true) by (vm_compute; reflexivity).
  rewrite forallb_forall in Hall. specialize (Hall n).
  assert (Hin : In n (zseq 1 64)) by (apply zseq_in; lia). specialize (Hall Hin).
  apply andb_true_iff in Hall. destruct Hall as [Hall H3]. apply andb_true_iff in Hall. destruct Hall as [H1 H2].
  apply Nat.leb_le in H3. split; [lia|split; [lia|auto]].
Qed.

Lemma ga_repeat : forall n i, ga (repeat ((0, 0) : loser) n) i = (0, 0).
Proof.
  intros n i. unfold ga. destruct (nth_error (repeat ((0, 0) : loser) n) (Z.to_nat i)) as [x|] eqn:E; [|reflexivity].
  apply nth_error_In in E. apply repeat_spec in E. exact E.
Qed.

Lemma fold_pad : forall m a k v base, 0 <= a + k -> a + k + Z.of_nat m <= zlen base ->
  let r := fold_left (fun l i => set_nth l (Z.to_nat (i + k)) v) (zseq a m) base in
  zlen r = zlen base /\
  forall j, 0 <= j -> ga r j = if (a + k <=? j) && (j <? a + k + Z.of_nat m) then v else ga base j.
Proof.
  induction m as [|m IH]; intros a k v base H0 H1; cbn [zseq fold_left].
  - split; auto. intros j Hj. assert (E : ((a + k <=? j) && (j <? a + k + Z.of_nat 0)) = false) by lia.
    rewrite E. reflexivity.
  - destruct (IH (a + 1) k v (set_nth base (Z.to_nat (a + k)) v)) as [I1 I2]; try lia.
    { rewrite zlen_set_nth. lia. }
    cbn zeta in *. split; [rewrite I1, zlen_set_nth; auto|].
    intros j Hj. rewrite I2 by auto. rewrite ga_set by lia.
    destruct (j =? a + k) eqn:E1.
    + assert (E2 : ((a + k <=? j) && (j <? a + k + Z.of_nat (S m))) = true) by lia. rewrite E2.
      destruct ((a + 1 + k <=? j) && (j <? a + 1 + k + Z.of_nat m)); reflexivity.
    + destruct ((a + 1 + k <=? j) && (j <? a + 1 + k + Z.of_nat m)) eqn:E3,
               ((a + k <=? j) && (j <? a + k + Z.of_nat (S m))) eqn:E4; auto; lia.
Qed.

Lemma insert_keys_ok : forall keys k arr i0, 0 <= i0 -> 0 <= k -> i0 + zlen keys <= k -> zlen arr = 2 * k ->
  exists arr', insert_keys (mkLt k arr) keys i0 = Ok (mkLt k arr') /\ zlen arr' = 2 * k /\
    forall j, 0 <= j -> ga arr' j =
      if (k + i0 <=? j) && (j <? k + i0 + zlen keys) then (nth (Z.to_nat (j - k - i0)) keys 0, j - k) else ga arr j.
Proof.
  induction keys as [|key keys IH]; intros k arr i0 H0 Hk0 Hle Hz; cbn [insert_keys].
  - exists arr. csplit; auto. intros j Hj. unfold zlen. cbn [length].
    assert (E : ((k + i0 <=? j) && (j <? k + i0 + Z.of_nat 0)) = false) by lia. rewrite E. reflexivity.
  - unfold zlen in Hle. cbn [length] in Hle. cbn [lt_k].
    rewrite (lt_set_ok k arr (k + i0) _ ltac:(lia)). cbn [bind].
    destruct (IH k (set_nth arr (Z.to_nat (k + i0)) (key, i0)) (i0 + 1)) as [arr' [R [Z' G]]]; try lia.
    { unfold zlen. lia. }
    { rewrite zlen_set_nth. auto. }
    exists arr'. csplit; auto. intros j Hj. rewrite G by auto. rewrite ga_set by lia.
    unfold zlen. cbn [length].
    destruct (j =? k + i0) eqn:E1.
    + assert (E2 : ((k + (i0 + 1) <=? j) && (j <? k + (i0 + 1) + Z.of_nat (length keys))) = false) by lia.
      assert (E3 : ((k + i0 <=? j) && (j <? k + i0 + Z.of_nat (S (length keys)))) = true) by lia.
      rewrite E2, E3. replace (j - k - i0) with 0 by lia. cbn [Z.to_nat nth]. f_equal. lia.
    + destruct ((k + (i0 + 1) <=? j) && (j <? k + (i0 + 1) + Z.of_nat (length keys))) eqn:E2.
      * assert (E3 : ((k + i0 <=? j) && (j <? k + i0 + Z.of_nat (S (length keys)))) = true) by lia.
        rewrite E3. replace (Z.to_nat (j - k - i0)) with (S (Z.to_nat (j - k - (i0 + 1)))) by lia.
        reflexivity.
      * assert (E3 : ((k + i0 <=? j) && (j <? k + i0 + Z.of_nat (S (length keys)))) = false) by lia.
        rewrite E3. reflexivity.
Qed.

(* leaf values the tree stands for *)
Definition hvals (kmax : Z) (heads : list (option Z)) : Z -> loser :=
  fun j => match nth_error heads (Z.to_nat j) with Some o => (hkey kmax o, j) | None => (kmax, 255) end.

Definition padded (kmax k n : Z) : list loser :=
  fold_left (fun (l : list loser) (i : Z) => set_nth l (Z.to_nat (i + k)) ((kmax, 255) : loser))
            (zseq (n - 1) (Z.to_nat (k - (n - 1)))) (repeat ((0, 0) : loser) (Z.to_nat (2 * k))).

Lemma lt_new_padded : forall kmax n, n <> 0 ->
  lt_new kmax n = mkLt (wrapU 8 (next_pow2 n)) (padded kmax (wrapU 8 (next_pow2 n)) n).
Proof.
  intros kmax n Hn. unfold lt_new, padded. assert (E0 : (n =? 0) = false) by lia. rewrite E0. reflexivity.
Qed.

Lemma padded_spec : forall kmax k n, 1 <= n <= k ->
  zlen (padded kmax k n) = 2 * k /\ forall j, 0 <= j -> ga (padded kmax k n) j = if (n - 1 + k <=? j) && (j <? 2 * k) then (kmax, 255) else (0, 0).
Proof.
  intros kmax k n Hn. unfold padded.
  remember (repeat ((0, 0) : loser) (Z.to_nat (2 * k))) as base eqn:Eb.
  assert (Hzb : zlen base = 2 * k) by (unfold zlen; rewrite Eb, repeat_length; lia).
  assert (Hp0 : 0 <= n - 1 + k) by lia.
  assert (Hp1 : n - 1 + k + Z.of_nat (Z.to_nat (k - (n - 1))) <= zlen base) by lia.
  pose proof (fold_pad (Z.to_nat (k - (n - 1))) (n - 1) k (kmax, 255) base Hp0 Hp1) as Hfp.
  cbn zeta in Hfp. destruct Hfp as [P1 P2]. split; [exact (eq_trans P1 Hzb)|].
  intros j Hj. etransitivity; [exact (P2 j Hj)|]. rewrite Eb, ga_repeat.
  destruct ((n - 1 + k <=? j) && (j <? n - 1 + k + Z.of_nat (Z.to_nat (k - (n - 1))))) eqn:E1,
           ((n - 1 + k <=? j) && (j <? 2 * k)) eqn:E2; auto; lia.
Qed.

Lemma lt_new_insert : forall kmax keys, 1 <= zlen keys <= 64 ->
  exists arr, insert_keys (lt_new kmax (zlen keys)) keys 0 = Ok (mkLt (p2 (Hof (zlen keys))) arr) /\
    zlen arr = 2 * p2 (Hof (zlen keys)) /\ leaves_ok (p2 (Hof (zlen keys))) (hvals kmax (map Some keys)) arr.
Proof.
  intros kmax keys Hn. remember (zlen keys) as n eqn:En. destruct (np2_table n Hn) as [T1 [T2 T3]].
  remember (p2 (Hof n)) as k eqn:Ek. rewrite (lt_new_padded kmax n ltac:(lia)), T1.
  destruct (padded_spec kmax k n ltac:(lia)) as [P1 P2].
  destruct (insert_keys_ok keys k (padded kmax k n) 0 ltac:(lia) ltac:(lia) ltac:(lia) P1) as [arr [R [Z' G]]].
  exists arr. csplit; auto. intros j Hj. rewrite G by lia. rewrite <- En. unfold hvals.
  destruct (Z_lt_dec j n) as [Hlt|Hge].
  - assert (E1 : ((k + 0 <=? k + j) && (k + j <? k + 0 + n)) = true) by lia. rewrite E1.
    replace (k + j - k - 0) with j by lia. rewrite nth_error_map.
    assert (Hjn : (Z.to_nat j < length keys)%nat) by (unfold zlen in En; lia).
    rewrite (nth_error_nth' keys 0 Hjn). cbn [option_map hkey]. f_equal. lia.
  - assert (E1 : ((k + 0 <=? k + j) && (k + j <? k + 0 + n)) = false) by lia. rewrite E1.
    rewrite P2 by lia.
    assert (E2 : ((n - 1 + k <=? k + j) && (k + j <? 2 * k)) = true) by lia.
    rewrite E2. assert (Hn2 : nth_error (map Some keys) (Z.to_nat j) = None).
    { apply nth_error_None. rewrite map_length. unfold zlen in En. lia. }
    rewrite Hn2. reflexivity.
Qed.

(* ---------- the concrete tree_ok ---------- *)
Definition headok (kmax : Z) (o : option Z) : Prop := match o with Some x => x < kmax | None => True end.

Definition tree_ok_c (kmax : Z) (t : ltree) (heads : list (option Z)) : Prop :=
  exists H, (H <= 6)%nat /\ lt_k t = p2 H /\ zlen heads <= lt_k t /\ Forall (headok kmax) heads /\
            tree_inv (lt_k t) H (hvals kmax heads) (lt_losers t).

Lemma p2_le_64 : forall H, (H <= 6)%nat -> p2 H <= 64.
Proof. intros H HH. pose proof (p2_mono H 6 HH). cbn [p2] in *. lia. Qed.

Lemma hvals_cases : forall kmax heads j, 0 <= j ->
  (j < zlen heads /\ exists o, nth_error heads (Z.to_nat j) = Some o /\ hvals kmax heads j = (hkey kmax o, j)) \/
  (zlen heads <= j /\ hvals kmax heads j = (kmax, 255)).
Proof.
  intros kmax heads j Hj. unfold hvals, zlen. destruct (nth_error heads (Z.to_nat j)) as [o|] eqn:E.
  - left. split; [|eauto]. assert (Hn : nth_error heads (Z.to_nat j) <> None) by congruence.
    apply nth_error_Some in Hn. lia.
  - right. split; auto. apply nth_error_None in E. lia.
Qed.

Lemma hvals_nth : forall kmax heads j o, nth_error heads j = Some o ->
  hvals kmax heads (Z.of_nat j) = (hkey kmax o, Z.of_nat j).
Proof. intros kmax heads j o Hn. unfold hvals. rewrite Nat2Z.id, Hn. reflexivity. Qed.

Lemma hvals_mono : forall kmax heads, zlen heads <= 255 -> forall i j, 0 <= i -> i < j ->
  snd (hvals kmax heads i) <= snd (hvals kmax heads j).
Proof.
  intros kmax heads Hn i j Hi Hij.
  destruct (hvals_cases kmax heads i Hi) as [[Hi1 [oi [_ Ei]]]|[Hi1 Ei]];
  destruct (hvals_cases kmax heads j ltac:(lia)) as [[Hj1 [oj [_ Ej]]]|[Hj1 Ej]];
    rewrite Ei, Ej; cbn [snd]; lia.
Qed.

Lemma hvals_set : forall kmax heads s nk j, 0 <= s < zlen heads -> 0 <= j ->
  hvals kmax (set_nth heads (Z.to_nat s) nk) j = upd (hvals kmax heads) s (hkey kmax nk, s) j.
Proof.
  intros kmax heads s nk j Hs Hj. unfold hvals, upd. rewrite set_nth_nth_error. unfold zlen in Hs.
  destruct (j =? s) eqn:E.
  - assert (E1 : Nat.eqb (Z.to_nat j) (Z.to_nat s) = true) by (apply Nat.eqb_eq; lia). rewrite E1.
    assert (E2 : Nat.ltb (Z.to_nat s) (length heads) = true) by (apply Nat.ltb_lt; lia). rewrite E2.
    f_equal. lia.
  - assert (E1 : Nat.eqb (Z.to_nat j) (Z.to_nat s) = false) by (apply Nat.eqb_neq; lia). rewrite E1. reflexivity.
Qed.

Lemma root_min : forall k H vals arr, k = p2 H -> tree_inv k H vals arr ->
  exists j0, 0 <= j0 < k /\ ga arr 0 = vals j0 /\ forall j, 0 <= j < k -> le2 (vals j0) (vals j).
Proof.
  intros k H vals arr Hk [Hz [Hn H0]]. pose proof (p2_pos H) as Hp.
  assert (Hd : dep 0 1) by (unfold dep; cbn [p2]; lia).
  destruct (W_in k vals H 1) as [j0 [U0 E0]]. exists j0.
  split; [eapply (under_range k H Hk 0 H 1); eauto|]. split; [congruence|].
  intros j Hj. rewrite <- E0. apply W_min. unfold under. lia.
Qed.

Theorem ti_init_c : forall kmax keys, 0 < zlen keys <= 64 -> Forall (fun k => k < kmax) keys ->
  exists t1 t2, insert_keys (lt_new kmax (zlen keys)) keys 0 = Ok t1 /\ lt_init t1 = Ok t2 /\
                tree_ok_c kmax t2 (map Some keys).
Proof.
  intros kmax keys Hn Hk. destruct (lt_new_insert kmax keys ltac:(lia)) as [arr [R [Hz Hl]]].
  destruct (np2_table (zlen keys) ltac:(lia)) as [_ [T2 T3]].
  set (H := Hof (zlen keys)) in *. set (k := p2 H) in *.
  assert (Hzh : zlen (map Some keys) = zlen keys) by (unfold zlen; rewrite map_length; reflexivity).
  destruct (lt_init_ok k H eq_refl (hvals kmax (map Some keys))) with (arr := arr) as [arr' [Hi Ht]]; auto.
  - intros i j Hi Hij _ _. apply hvals_mono; auto. lia.
  - lia.
  - eexists. eexists. split; [exact R|]. split; [exact Hi|].
    exists H. cbn [lt_k lt_losers]. csplit; auto; try lia.
    apply Forall_forall. intros o Ho. apply in_map_iff in Ho. destruct Ho as [x [<- Hx]].
    rewrite Forall_forall in Hk. cbn. auto.
Qed.

Lemma min_source_ga : forall k arr, 0 < zlen arr -> min_source (mkLt k arr) = Ok (snd (ga arr 0)).
Proof. intros k arr Hz. unfold min_source. rewrite (lt_get_ga k arr 0 ltac:(lia)). reflexivity. Qed.

Theorem ti_min_c : forall kmax t heads, tree_ok_c kmax t heads ->
  (exists j k, nth_error heads j = Some (Some k)) ->
  exists s, min_source t = Ok s /\ is_min_src kmax heads s.
Proof.
  intros kmax [k arr] heads [H [HH [Hk [Hn [Hok Ht]]]]] [j1 [k1 Hj1]]. cbn [lt_k lt_losers] in *.
  pose proof (p2_pos H) as Hp. pose proof (p2_le_64 H HH) as H64.
  destruct (root_min k H _ arr Hk Ht) as [j0 [Hj0 [E0 Hmin]]].
  assert (Hz : zlen arr = 2 * k) by apply Ht.
  rewrite (min_source_ga k arr ltac:(lia)), E0.
  assert (Hj1n : Z.of_nat j1 < zlen heads).
  { assert (Hne : nth_error heads j1 <> None) by congruence. apply nth_error_Some in Hne. unfold zlen. lia. }
  pose proof (Hmin (Z.of_nat j1) ltac:(lia)) as Hle1. rewrite (hvals_nth kmax heads j1 _ Hj1) in Hle1.
  assert (Hk1 : k1 < kmax) by (apply (Forall_forall (headok kmax) heads) with (x := Some k1) in Hok; [exact Hok|eapply nth_error_In; eauto]).
  destruct (hvals_cases kmax heads j0 ltac:(lia)) as [[Hlt [o [Ho Ev]]]|[Hge Ev]]; rewrite Ev in *.
  - exists j0. cbn [snd]. split; [reflexivity|]. unfold is_min_src. split; [lia|].
    destruct o as [kk|].
    + exists kk. split; [exact Ho|]. intros j o Hj. assert (Hjn : Z.of_nat j < zlen heads).
      { assert (Hne : nth_error heads j <> None) by congruence. apply nth_error_Some in Hne. unfold zlen. lia. }
      pose proof (Hmin (Z.of_nat j) ltac:(lia)) as Hle. rewrite (hvals_nth kmax heads j _ Hj) in Hle.
      unfold le2, lt2b in Hle. cbn [fst snd hkey] in Hle. lia.
    + exfalso. unfold le2, lt2b in Hle1. cbn [fst snd hkey] in Hle1. lia.
  - exfalso. unfold le2, lt2b in Hle1. cbn [fst snd hkey] in Hle1. lia.
Qed.

Theorem ti_step_c : forall kmax t heads s k nk, tree_ok_c kmax t heads -> min_source t = Ok s -> 0 <= s ->
  nth_error heads (Z.to_nat s) = Some (Some k) ->
  match nk with Some k' => k' < kmax | None => True end ->
  exists t', delete_min_insert kmax t nk = Ok t' /\ tree_ok_c kmax t' (set_nth heads (Z.to_nat s) nk).
Proof.
  intros kmax [k arr] heads s kk nk [H [HH [Hk [Hn [Hok Ht]]]]] Hms Hs0 Hs Hnk. cbn [lt_k lt_losers] in *.
  pose proof (p2_pos H) as Hp. pose proof (p2_le_64 H HH) as H64.
  destruct (root_min k H _ arr Hk Ht) as [j0 [Hj0 [E0 Hmin]]].
  assert (Hz : zlen arr = 2 * k) by apply Ht.
  rewrite (min_source_ga k arr ltac:(lia)), E0 in Hms.
  assert (Hsn : s < zlen heads).
  { assert (Hne : nth_error heads (Z.to_nat s) <> None) by congruence. apply nth_error_Some in Hne. unfold zlen. lia. }
  assert (Hj0s : j0 = s).
  { destruct (hvals_cases kmax heads j0 ltac:(lia)) as [[Hlt [o [Ho Ev]]]|[Hge Ev]]; rewrite Ev in Hms;
      cbn [snd] in Hms; inversion Hms; lia. }
  subst j0.
  assert (Hsnd : snd (hvals kmax heads s) = s).
  { unfold hvals. rewrite Hs. reflexivity. }
  destruct (dmi_ok k H Hk (hvals kmax heads) s (hkey kmax nk, s) ltac:(lia) Hmin kmax arr nk Ht Hsnd ltac:(lia) eq_refl)
    as [arr' [Hd Ht']].
  exists (mkLt k arr'). split; [exact Hd|]. exists H. cbn [lt_k lt_losers]. csplit; auto.
  - rewrite zlen_set_nth. auto.
  - apply Forall_forall. intros o Ho. apply set_nth_in in Ho. destruct Ho as [->|Ho].
    + destruct nk; cbn; auto.
    + rewrite Forall_forall in Hok. auto.
  - eapply tree_inv_ext; [exact Hk| |exact Ht']. intros j Hj. symmetry. apply hvals_set; lia.
Qed.

Theorem tree_iface_holds : forall kmax, tree_iface kmax (tree_ok_c kmax).
Proof.
  intros kmax. constructor.
  - apply ti_init_c.
  - apply ti_min_c.
  - apply ti_step_c.
Qed.

Print Assumptions tree_iface_holds.

(* IdxGap.v — queries above the last key (last < q < sentinel) on the binary-search routing path
   (EpsilonRecursive > linear_search_threshold), closing the gap documented at the end of IdxBeyond.v. *)
Require Import Base Fp PlaModel PlaSpec GenLeaf IndexModel IndexProofs MappedQueries IdxFed IdxSeg IdxBlock IdxLevel IdxSearch0 IdxRoute IdxChain IdxMain IdxBeyond.
From Coq Require Import ZifyBool.
From Flocq Require Import IEEE754.BinarySingleNaN.
Local Open Scope Z_scope.

(* ---- a slope-0 segment evaluates to its intercept (or saturates), whatever the key ---- *)
Lemma mul64_zero_l (d : f64) :
  (exists s, mul64 f64_zero d = B754_zero s) \/ mul64 f64_zero d = B754_nan.
Proof.
  unfold mul64, f64_zero. destruct d as [s|s| |s m e He]; cbn.
  - left. eexists. reflexivity.
  - right. reflexivity.
  - right. reflexivity.
  - left. eexists. reflexivity.
Qed.

Lemma seg_eval_flat c key icpt k : 0 <= icpt < 2 ^ 64 ->
  seg_eval c (mkSeg key f64_zero icpt) k = icpt \/ seg_eval c (mkSeg key f64_zero icpt) k = 2 ^ 63 - 1.
Proof.
  intros Hi. unfold seg_eval. cbn [sg_slope sg_key sg_icpt].
  destruct (mul64_zero_l (ofZ64 (key_diff c k key))) as [[s E]|E]; rewrite E; cbn [truncZ].
  - left. replace (0 >=? 2 ^ 63) with false by lia. unfold double_to_size_t, cvtt_u64_avx512. cbn [truncZ].
    destruct (c_avx512 c).
    + replace ((0 <=? 0) && (0 <? 2 ^ 64)) with true by lia. unfold wrapU. rewrite Z.add_0_l. apply Z.mod_small. lia.
    + replace (0 <? 2 ^ 63) with true by lia. replace (- 2 ^ 63 <=? 0) with true by lia.
      unfold wrapU. rewrite (Z.mod_small 0) by lia. rewrite Z.add_0_l. apply Z.mod_small. lia.
  - right. reflexivity.
Qed.

(* ---- the prediction of a real segment that is responsible for k among the real segments ---- *)
Theorem level_pos_real c eps keys ldk css g new T k J :
  keys <> [] -> sortedb keys = true -> nowrap (c_kt c) keys -> zlen keys < 2 ^ 32 -> 0 <= eps ->
  concat g = fed_spec (c_kt c) keys -> Lv c eps (EvalOKc (zlen keys + eps) c k) css g new ->
  tail_shape c ldk (zlen keys) (last new dseg) T ->
  0 <= J < zlen new -> J + 1 < zlen (new ++ T) ->
  sg_key (nth (Z.to_nat J) new dseg) <= k ->
  (J + 1 < zlen new -> k < sg_key (nth (Z.to_nat (J + 1)) new dseg)) -> k < sentinel c ->
  let s := nth (Z.to_nat J) (new ++ T) dseg in
  let nx := nth (Z.to_nat (J + 1)) (new ++ T) dseg in
  let r := lb keys k in
  let pos := Z.min (seg_eval c s k) (sg_icpt nx) in
  r - eps - 2 <= pos <= r + eps /\ (In k keys -> r - eps - 1 <= pos) /\ 0 <= pos.
Proof.
  intros Hne Hs Hw Hn32 Heps Hcat HL HT HJ HJ1 Hk1 Hk2 Hksent.
  set (n := zlen keys) in *. pose proof (zlen_ge0 keys) as Hn0. fold n in Hn0.
  rewrite zlen_app in HJ1.
  destruct (Lv_split _ _ _ _ _ _ J HL ltac:(lia))
    as (c1 & cs & c2 & g1 & b & g2 & n1 & s & n2 & E1 & E2 & E3 & E4 & R1 & R2 & R3 & R4).
  destruct (Lv_Forall2 _ _ _ _ _ _ R4) as [F1 F2].
  assert (EL : new ++ T = n1 ++ s :: (n2 ++ T)) by (rewrite E3, <- app_assoc; reflexivity).
  assert (Hk1' : sg_key s <= k) by (rewrite E3, <- E4, nth_mid in Hk1; exact Hk1).
  assert (Hn2 : n2 <> [] -> k < sg_key (hd dseg n2)).
  { intros Hn2. rewrite E3, <- E4, nth_mid_next in Hk2. apply Hk2. rewrite zlen_app, zlen_cons.
    destruct n2; [contradiction|]. rewrite zlen_cons. pose proof (zlen_ge0 n2). lia. }
  rewrite EL. rewrite <- E4 in *. rewrite nth_mid. rewrite nth_mid_next.
  cbn zeta. rewrite E2 in Hcat. clear Hk1 Hk2. rename Hk1' into Hk1.
  apply (level_query_split c (c_kt c) eps keys g1 g2 b cs c2 s n2 k); try assumption;
    [apply R3; [exact Hk1 | destruct n2; [exact I | apply Hn2; discriminate] | exact Hksent] |].
  destruct n2 as [|s' n2']; [|cbn [app hd] in *; split; [apply Hn2; discriminate | reflexivity]].
  cbn [app] in *. rewrite E3, zlen_app, zlen_cons in HJ1. change (zlen (@nil segment)) with 0 in HJ1.
  destruct HT as [->|(X & -> & [->|[-> _]])].
  + change (zlen (@nil segment)) with 0 in HJ1. lia.
  + cbn [app hd sent_seg sg_icpt]. apply wrapU32_small. lia.
  + cbn [app hd extra_seg sg_icpt]. apply wrapU32_small. lia.
Qed.

(* ---- the prediction of the extra segment: min(value, intercept of the sentinel) = last_n ---- *)
Lemma level_pos_extra c ldk n new k :
  0 <= n < 2 ^ 32 ->
  let L := new ++ [extra_seg c ldk n] ++ [sent_seg c n] in
  let J := zlen new in
  Z.min (seg_eval c (nth (Z.to_nat J) L dseg) k) (sg_icpt (nth (Z.to_nat (J + 1)) L dseg)) = n.
Proof.
  intros Hn L J. unfold L, J. cbn [app]. rewrite nth_mid, nth_mid_next. cbn [hd sent_seg sg_icpt].
  rewrite wrapU32_small by lia. unfold extra_seg. rewrite wrapU32_small by lia.
  destruct (seg_eval_flat c (wrapK (c_kt c) (ldk + 1)) n k ltac:(lia)) as [E|E]; rewrite E; lia.
Qed.

(* ---- upper_bound over a window whose keys are all <= k ---- *)
Lemma ub_all_le l k : Forall (fun y => y <= k) l -> ub l k = zlen l.
Proof.
  induction 1 as [|a t Ha _ IH]; [reflexivity|]. cbn [ub]. replace (a <=? k) with true by lia.
  rewrite IH, zlen_cons. lia.
Qed.

Lemma ub_range_block (segs pre A B C : list segment) k :
  segs = pre ++ A ++ B ++ C -> Forall (kle k) B ->
  ub_range (map sg_key segs) (zlen pre + zlen A) (zlen pre + zlen A + zlen B) k = zlen pre + zlen A + zlen B.
Proof.
  intros -> HB. unfold ub_range, slice. rewrite app_assoc, map_app.
  set (P := map sg_key (pre ++ A)).
  assert (EP : zlen pre + zlen A = zlen P) by (unfold P; rewrite zlen_map, zlen_app; reflexivity).
  rewrite EP. rewrite skipn_zlen_app. rewrite map_app.
  replace (Z.to_nat (zlen P + zlen B - zlen P)) with (length (map sg_key B))
    by (rewrite map_length; unfold zlen; lia).
  rewrite firstn_app_le by lia. rewrite firstn_all. rewrite ub_all_le.
  - rewrite !zlen_map. reflexivity.
  - rewrite Forall_map. exact HB.
Qed.

(* ---- the segments a routing step may legitimately end on ---- *)
(* all real keys of a level except the last one are at most last_data_key + 1 *)
Definition tail1 (ldk : Z) (new : list segment) : Prop :=
  forall i, 0 <= i -> i + 1 < zlen new -> sg_key (nth (Z.to_nat i) new dseg) <= ldk + 1.

(* J is the last segment with key <= k before the first key > k, or it is the last real segment and
   that position is taken by the extra segment *)
Definition good (L : list segment) (m k J : Z) : Prop :=
  resp L k J \/ (resp L k (J + 1) /\ J + 1 = m).

Lemma tail_len c ldk n new T ln cnt : tail_ok c ldk n new T ln cnt ->
  T = [] \/ T = [sent_seg c n] \/ T = [extra_seg c ldk n; sent_seg c n].
Proof.
  intros [(E & _)|(_ & _ & X & E & [EX|[EX _]])]; subst; [left|right; left|right; right]; reflexivity.
Qed.

(* the prediction made from a good segment of level r' *)
Lemma good_pos c ldk k r' J' :
  1 <= kbits (c_kt c) -> lrec_ok c ldk k r' -> zlen (lr_keys r') < 2 ^ 32 -> k < sentinel c ->
  good (lr_L r') (zlen (lr_new r')) k J' ->
  let pos := Z.min (seg_eval c (nth (Z.to_nat J') (lr_L r') dseg) k)
                   (sg_icpt (nth (Z.to_nat (J' + 1)) (lr_L r') dseg)) in
  let r := lb (lr_keys r') k in
  0 <= J' /\ J' + 1 < zlen (lr_L r') /\
  ((r - lr_eps r' - 2 <= pos <= r + lr_eps r' /\ (In k (lr_keys r') -> r - lr_eps r' - 1 <= pos) /\ 0 <= pos)
   \/ pos = zlen (lr_keys r')).
Proof.
  intros Hb Hok Hn32 Hks Hg pos r.
  pose proof Hok as (Hne & Hs & Hk & He & Hcat & HL & Ht).
  pose proof (lf_nowrap c ldk k r' Hb Hok) as Hw. pose proof (zlen_ge0 (lr_keys r')) as Hn0.
  assert (Hm0 : 1 <= zlen (lr_new r')).
  { destruct (lf_first c ldk k r' Hok) as [Hnn _]. destruct (lr_new r'); [contradiction|].
    rewrite zlen_cons. pose proof (zlen_ge0 l). lia. }
  assert (HT2 : zlen (lr_T r') <= 2).
  { destruct (tail_len _ _ _ _ _ _ _ Ht) as [-> | [-> | ->]]; cbn; lia. }
  assert (Hreal : forall J, 0 <= J < zlen (lr_new r') -> J + 1 < zlen (lr_L r') ->
            (forall i, 0 <= i <= J -> sg_key (nth (Z.to_nat i) (lr_L r') dseg) <= k) ->
            (J + 1 < zlen (lr_new r') -> k < sg_key (nth (Z.to_nat (J + 1)) (lr_L r') dseg)) ->
            let p := Z.min (seg_eval c (nth (Z.to_nat J) (lr_L r') dseg) k)
                           (sg_icpt (nth (Z.to_nat (J + 1)) (lr_L r') dseg)) in
            r - lr_eps r' - 2 <= p <= r + lr_eps r' /\ (In k (lr_keys r') -> r - lr_eps r' - 1 <= p) /\ 0 <= p).
  { intros J HJ HJ1 Hle Hgt.
    apply (level_pos_real c (lr_eps r') (lr_keys r') ldk _ _ _ _ k J Hne Hs Hw Hn32 He Hcat HL
             (tail_ok_shape _ _ _ _ _ _ _ Ht) HJ HJ1); [| |exact Hks].
    - specialize (Hle J ltac:(lia)). unfold lr_L in Hle. rewrite app_nth1 in Hle by (unfold zlen in *; lia). exact Hle.
    - intros H. specialize (Hgt H). unfold lr_L in Hgt. rewrite app_nth1 in Hgt by (unfold zlen in *; lia). exact Hgt. }
  destruct Hg as [(HJ0 & HJ1 & Hle & Hgt)|[(HJ0 & HJ1 & Hle & Hgt) Em]].
  - split; [exact HJ0|]. split; [exact HJ1|].
    destruct (Z_lt_ge_dec J' (zlen (lr_new r'))) as [Hlt|Hge].
    + left. apply Hreal; [lia | exact HJ1 | exact Hle | intros _; exact Hgt].
    + right. unfold lr_L in HJ1. rewrite zlen_app in HJ1.
      destruct (tail_len _ _ _ _ _ _ _ Ht) as [E|[E|E]]; rewrite E in HJ1; unfold zlen in HJ1, Hge; cbn [length] in HJ1; try lia.
      assert (EJ : J' = zlen (lr_new r')) by (unfold zlen; lia). unfold pos, lr_L. rewrite E, EJ.
      apply (level_pos_extra c ldk (zlen (lr_keys r')) (lr_new r') k). lia.
  - split; [lia|]. unfold lr_L in HJ1. rewrite zlen_app in HJ1. split; [unfold lr_L; rewrite zlen_app; lia|].
    left. apply Hreal; [lia | unfold lr_L; rewrite zlen_app; lia | intros i Hi; apply Hle; lia | intros H; lia].
Qed.

(* ---- the responsible position of a level for a key above the last data key ---- *)
Lemma level_resp c ldk k r :
  1 <= kbits (c_kt c) -> lrec_ok c ldk k r -> wrapK (c_kt c) (ldk + 1) = ldk + 1 ->
  ldk + 1 <= k -> k < sentinel c -> hd 0 (lr_keys r) <= k -> 1 <= lr_ln r ->
  let keys' := map sg_key (firstn (Z.to_nat (lr_ln r)) (lr_L r)) in
  let u := ub keys' k in
  1 <= u <= lr_ln r /\
  exists J, resp (lr_L r) k J /\
    (J = u - 1 \/ (J = u /\ u = lr_ln r /\ lr_ln r = zlen (lr_new r) /\ zlen (lr_L r) = zlen (lr_new r) + 2)).
Proof.
  intros Hb Hok Hwk Hk1 Hks Hhd Hln1 keys' u.
  destruct (next_keys c ldk k r Hb Hok) as (Hl1 & Hl2 & Hz & Ek & Hss & Hko & Hhd'). fold keys' in Hz, Ek, Hss, Hko, Hhd'.
  specialize (Hhd' Hln1). pose proof (ssortedb_sorted _ Hss) as Hs'.
  destruct (ub_spec keys' k Hs') as [U1 U2]. rewrite Hz in U2. fold u in U1, U2.
  pose proof (ub_nonneg keys' k) as Hu0. pose proof (ub_le_len keys' k) as Hul. fold u in Hu0, Hul. rewrite Hz in Hul.
  assert (Hne' : keys' <> []) by (intros E; rewrite E in Hz; cbn in Hz; lia).
  assert (Hu1 : 1 <= u).
  { destruct (Z_lt_ge_dec u 1) as [Hlt|]; [|lia]. specialize (U2 0 ltac:(lia)).
    destruct keys' as [|x0 t]; [contradiction|]. cbn [Z.to_nat nth hd] in *. lia. }
  assert (Hnth : forall i, 0 <= i < lr_ln r -> nth (Z.to_nat i) keys' 0 = sg_key (nth (Z.to_nat i) (lr_L r) dseg)).
  { intros i Hi. unfold keys'. rewrite nth_map_key. rewrite nth_firstn_lt by lia. reflexivity. }
  split; [lia|].
  assert (Hle : forall i, 0 <= i <= u - 1 -> sg_key (nth (Z.to_nat i) (lr_L r) dseg) <= k).
  { intros i Hi. rewrite <- Hnth by lia. apply U1. lia. }
  destruct (Z_lt_ge_dec u (lr_ln r)) as [Hlt|Hge].
  { exists (u - 1). split; [|left; reflexivity]. unfold resp. split; [lia|]. split; [lia|]. split; [exact Hle|].
    replace (u - 1 + 1) with u by lia. rewrite <- Hnth by lia. apply U2. lia. }
  assert (Eu : u = lr_ln r) by lia.
  destruct (lf_first c ldk k r Hok) as [Hnn _].
  pose proof Hok as (_ & _ & _ & _ & _ & _ & Ht). clear Hnth U1 U2 Ek Hss Hko Hhd' Hs' Hz. clearbody u. clear keys' Hne'.
  unfold lr_L in *.
  destruct Ht as [(ET & Hsent & Eln)|(_ & Eln & X & ET & HX)]; rewrite ET in Hl2, Hle |- *.
  - exists (u - 1). split; [|left; reflexivity]. rewrite app_nil_r in *.
    unfold resp. split; [lia|]. split; [lia|]. split; [exact Hle|].
    destruct (exists_last Hnn) as (l' & a & E). rewrite E in *. rewrite last_last in Hsent.
    rewrite zlen_app in Eln. change (zlen [a]) with 1 in Eln.
    replace (u - 1 + 1) with (zlen l') by lia. rewrite nth_mid. lia.
  - destruct HX as [EX|[EX _]]; rewrite EX in Hl2, Hle |- *.
    + exists (u - 1). split; [|left; reflexivity]. cbn [app] in *.
      unfold resp. split; [lia|]. split; [lia|]. split; [exact Hle|].
      replace (u - 1 + 1) with (zlen (lr_new r)) by lia. rewrite nth_mid. cbn [sent_seg sg_key]. lia.
    + exists u. cbn [app] in *. split; [|right; split; [reflexivity|]; split; [lia|]; split; [lia|]].
      * assert (EZ : zlen (lr_new r ++ [extra_seg c ldk (zlen (lr_keys r)); sent_seg c (zlen (lr_keys r))]) = zlen (lr_new r) + 2)
          by (rewrite zlen_app; reflexivity).
        unfold resp. rewrite EZ. split; [lia|]. split; [lia|]. split.
        -- intros i Hi. destruct (Z.eq_dec i u) as [->|Hne]; [|apply Hle; lia].
           replace u with (zlen (lr_new r)) by lia. rewrite nth_mid. cbn [extra_seg sg_key]. lia.
        -- replace (u + 1) with (zlen (lr_new r) + 1) by lia. rewrite nth_mid_next. cbn [hd sent_seg sg_key]. lia.
      * rewrite zlen_app. reflexivity.
Qed.

(* ---- one routing step for a key above the last data key: where the window lies ---- *)
Lemma step_window c ldk k r r' J' :
  1 <= kbits (c_kt c) -> lrec_ok c ldk k r -> lrec_ok c ldk k r' -> link c r r' ->
  wrapK (c_kt c) (ldk + 1) = ldk + 1 -> ldk + 1 <= k -> k < sentinel c -> hd 0 (lr_keys r) <= k ->
  zlen (lr_keys r') < 2 ^ 32 -> 1 <= c_epsrec c -> tail1 ldk (lr_new r) ->
  good (lr_L r') (zlen (lr_new r')) k J' ->
  let pos := Z.min (seg_eval c (nth (Z.to_nat J') (lr_L r') dseg) k)
                   (sg_icpt (nth (Z.to_nat (J' + 1)) (lr_L r') dseg)) in
  let e := c_epsrec c in
  let lo := PGM_SUB_EPS pos (e + 1) in
  let hi := PGM_ADD_EPS pos e (zlen (lr_L r) - 1) in
  exists Jr, resp (lr_L r) k Jr /\ 0 <= lo <= Jr /\ lo <= hi /\ hi <= zlen (lr_L r) - 1 /\
    (Jr + 1 <= hi \/ (hi = Jr /\ Jr = zlen (lr_new r) /\ zlen (lr_L r) = zlen (lr_new r) + 2)) /\
    Jr - lo <= 2 * e + 3 /\ (Jr <> zlen (lr_new r) -> Jr - lo <= 2 * e + 2).
Proof.
  intros Hb Hok Hok' Hlink Hwk Hk1 Hks Hhd Hn32 He1 Ht1 Hg pos e lo hi.
  pose proof (link_ln_pos c r r' ldk k Hok' Hlink) as Hln1.
  destruct Hlink as (Lk & Le & Lz).
  destruct (level_resp c ldk k r Hb Hok Hwk Hk1 Hks Hhd Hln1) as (Hu & Jr & Hresp & HJr).
  rewrite <- Lk in Hu, HJr. set (u := ub (lr_keys r') k) in *.
  destruct (next_keys c ldk k r Hb Hok) as (Hl1 & Hl2 & Hz & Ek & Hss & Hko & Hhd').
  rewrite <- Lk in Hz, Ek, Hss, Hko, Hhd'.
  pose proof (ssortedb_sorted _ Hss) as Hs'.
  pose proof (ssorted_ub_lb (lr_keys r') k Hss) as Hul. fold u in Hul.
  destruct (good_pos c ldk k r' J' Hb Hok' Hn32 Hks Hg) as (HJ0' & HJ1' & Hp). cbn zeta in Hp. fold pos in Hp. rewrite Le in Hp. fold e in Hp.
  pose proof Hresp as (HR0 & HR1 & HRle & HRgt).
  exists Jr. split; [exact Hresp|].
  destruct Hp as [(Hp1 & Hp2 & Hp3)|Hp].
  - assert (Hpu : u - e - 2 <= pos <= u + e).
    { destruct (Z.eq_dec u (lb (lr_keys r') k)) as [E|E]; [lia|].
      assert (Hin : In k (lr_keys r')) by (apply (lb_lt_ub_In _ _ Hs'); fold u; lia).
      specialize (Hp2 Hin). lia. }
    unfold lo, hi, PGM_SUB_EPS, PGM_ADD_EPS.
    destruct (pos <=? e + 1) eqn:E1; destruct (pos + e + 2 >=? zlen (lr_L r) - 1) eqn:E2; lia.
  - (* the extra segment of the level above predicts its last_n *)
    assert (Hu2 : lr_ln r - 1 <= u).
    { destruct (Z_lt_ge_dec u (lr_ln r - 1)) as [Hlt|]; [exfalso|lia].
      destruct (ub_spec (lr_keys r') k Hs') as [_ U2]. fold u in U2. specialize (U2 u ltac:(lia)).
      rewrite Lk, nth_map_key, nth_firstn_lt in U2 by lia. unfold lr_L in U2.
      rewrite app_nth1 in U2 by (unfold zlen in *; lia).
      specialize (Ht1 u ltac:(lia) ltac:(lia)). lia. }
    rewrite Lz in Hp. unfold lo, hi, PGM_SUB_EPS, PGM_ADD_EPS.
    destruct (pos <=? e + 1) eqn:E1; destruct (pos + e + 2 >=? zlen (lr_L r) - 1) eqn:E2; lia.
Qed.

Lemma Forall_kle_new (new T : list segment) k :
  (forall i, 0 <= i <= zlen new -> sg_key (nth (Z.to_nat i) (new ++ T) dseg) <= k) -> Forall (kle k) new.
Proof.
  intros H. apply Forall_forall. intros x Hx. destruct (In_nth new x dseg Hx) as (i & Hi & Ei).
  specialize (H (Z.of_nat i) ltac:(unfold zlen; lia)). rewrite Nat2Z.id in H.
  rewrite app_nth1 in H by exact Hi. rewrite Ei in H. exact H.
Qed.

(* the binary search over the window ends on a good segment *)
Lemma window_bsearch (new T : list segment) k Jr lo hi :
  resp (new ++ T) k Jr -> 0 <= lo <= Jr -> lo <= hi ->
  (Jr + 1 <= hi \/ (hi = Jr /\ Jr = zlen new /\ zlen (new ++ T) = zlen new + 2)) ->
  exists J, good (new ++ T) (zlen new) k J /\ lo <= J + 1 /\ J <= Jr /\
    forall segs pre post, segs = pre ++ (new ++ T) ++ post ->
      ub_range (map sg_key segs) (zlen pre + lo) (zlen pre + hi) k - 1 = zlen pre + J.
Proof.
  intros Hresp Hlo Hlh [Hhi|(Ehi & EJ & EZ)].
  - exists Jr. split; [left; exact Hresp|]. split; [lia|]. split; [lia|]. intros segs pre post Hseg.
    apply (step_ub segs pre (new ++ T) post k Jr lo hi Hseg Hresp Hlo Hhi).
  - exists (Jr - 1). split; [right; split; [replace (Jr - 1 + 1) with Jr by lia; exact Hresp | lia]|].
    split; [lia|]. split; [lia|]. intros segs pre post Hseg.
    destruct Hresp as (_ & _ & Hle & _). rewrite EJ in Hle.
    pose proof (Forall_kle_new new T k Hle) as Hall.
    rewrite <- (firstn_skipn (Z.to_nat lo) new) in Hall. apply Forall_app in Hall. destruct Hall as [_ HB].
    assert (HzA : zlen (firstn (Z.to_nat lo) new) = lo) by (apply zlen_firstn; lia).
    assert (HzB : zlen (skipn (Z.to_nat lo) new) = zlen new - lo).
    { pose proof (firstn_skipn (Z.to_nat lo) new) as Efs. apply (f_equal zlen) in Efs. rewrite zlen_app in Efs. lia. }
    assert (Hseg' : segs = pre ++ firstn (Z.to_nat lo) new ++ skipn (Z.to_nat lo) new ++ (T ++ post)).
    { rewrite Hseg. rewrite <- (firstn_skipn (Z.to_nat lo) new) at 1. rewrite <- !app_assoc. reflexivity. }
    pose proof (ub_range_block segs pre _ _ _ k Hseg' HB) as Hub. rewrite HzA, HzB in Hub.
    replace (zlen pre + lo + (zlen new - lo)) with (zlen pre + hi) in Hub by lia. rewrite Hub. lia.
Qed.

Definition entry_le (b : Z) (t : Z * Z * Z * Z) : Prop :=
  let '(l, wlo, f, la) := t in la - f + 1 <= b /\ wlo <= f.

(* one routing step (either regime) for a key above the last data key *)
Lemma route_gap_step c ldk k ix up r' r rl' J' tr rest_ls :
  1 <= kbits (c_kt c) -> 1 <= c_epsrec c ->
  wrapK (c_kt c) (ldk + 1) = ldk + 1 -> ldk + 1 <= k -> k < sentinel c ->
  ix_segments ix = below (up ++ r' :: r :: rl') -> ix_offsets ix = offs_of (up ++ r' :: r :: rl') ->
  lrec_ok c ldk k r -> lrec_ok c ldk k r' -> link c r r' ->
  zlen (lr_keys r') < 2 ^ 32 -> hd 0 (lr_keys r) <= k -> tail1 ldk (lr_new r) ->
  good (lr_L r') (zlen (lr_new r')) k J' ->
  exists J entry,
    good (lr_L r) (zlen (lr_new r)) k J /\
    entry_le (2 * c_epsrec c + 3 +
              (if c_epsrec c <=? pgm_linear_search_threshold (sizeof_segment c) then 1 else 0)) entry /\
    route_levels c ix (Z.of_nat (length rl') :: rest_ls) (zlen (below (r :: rl')) + J') k tr =
    route_levels c ix rest_ls (zlen (below rl') + J) k (entry :: tr).
Proof.
  intros Hb He1 Hwk Hk1 Hks Hseg Hoffs Hok Hok' Hlink Hn32 Hhd Ht1 Hg.
  destruct (good_pos c ldk k r' J' Hb Hok' Hn32 Hks Hg) as (HJ0' & HJ1' & _).
  destruct (step_window c ldk k r r' J' Hb Hok Hok' Hlink Hwk Hk1 Hks Hhd Hn32 He1 Ht1 Hg)
    as (Jr & Hresp & Hlo & Hlh & Hhi & Hcase & Hw3 & Hw2).
  set (pos := Z.min (seg_eval c (nth (Z.to_nat J') (lr_L r') dseg) k)
                    (sg_icpt (nth (Z.to_nat (J' + 1)) (lr_L r') dseg))) in *.
  set (e := c_epsrec c) in *. set (lo := PGM_SUB_EPS pos (e + 1)) in *.
  assert (Hseg' : ix_segments ix = below (r :: rl') ++ lr_L r' ++ below up).
  { rewrite Hseg, below_app, below_cons, <- app_assoc. reflexivity. }
  assert (Hseg2 : ix_segments ix = below rl' ++ lr_L r ++ (lr_L r' ++ below up)).
  { rewrite Hseg', below_cons, <- app_assoc. reflexivity. }
  assert (Hoff1 : nth_res (ix_offsets ix) (Z.of_nat (length rl')) = Ok (zlen (below rl'))).
  { rewrite Hoffs. rewrite nth_res_Z.
    - rewrite Nat2Z.id. f_equal.
      replace (up ++ r' :: r :: rl') with ((up ++ [r'; r]) ++ rl') by (rewrite <- app_assoc; reflexivity).
      apply offs_nth.
    - unfold zlen. rewrite offs_len, app_length. cbn [length]. lia. }
  assert (Hoff2 : nth_res (ix_offsets ix) (Z.of_nat (length rl') + 1) = Ok (zlen (below (r :: rl')))).
  { rewrite Hoffs. rewrite nth_res_Z.
    - replace (Z.to_nat (Z.of_nat (length rl') + 1)) with (length (r :: rl')) by (cbn [length]; lia). f_equal.
      replace (up ++ r' :: r :: rl') with ((up ++ [r']) ++ r :: rl') by (rewrite <- app_assoc; reflexivity).
      apply offs_nth.
    - unfold zlen. rewrite offs_len, app_length. cbn [length]. lia. }
  cbn [route_levels]. rewrite Hoff1. cbn [bind].
  rewrite (seg_at_level ix _ _ _ J' Hseg' ltac:(lia)). cbn [bind].
  replace (zlen (below (r :: rl')) + J' + 1) with (zlen (below (r :: rl')) + (J' + 1)) by lia.
  rewrite (seg_at_level ix _ _ _ (J' + 1) Hseg' ltac:(lia)). cbn [bind]. fold pos. fold e. fold lo.
  destruct (e <=? pgm_linear_search_threshold (sizeof_segment c)) eqn:Ethr.
  - rewrite (step_scan ix _ _ _ k Jr lo Hseg2 Hresp ltac:(lia)). cbn [bind].
    exists Jr. eexists. split; [left; exact Hresp|]. split; [|reflexivity]. unfold entry_le. lia.
  - rewrite Hoff2. cbn [bind].
    set (lsz := zlen (below (r :: rl')) - zlen (below rl') - 1).
    assert (Hlsz : lsz = zlen (lr_L r) - 1) by (unfold lsz; rewrite below_cons, zlen_app; lia).
    rewrite Hlsz. set (hi := PGM_ADD_EPS pos e (zlen (lr_L r) - 1)) in *.
    assert (Hhi_le : zlen (below rl') + hi <= zlen (ix_segments ix)).
    { rewrite Hseg2, !zlen_app. pose proof (zlen_ge0 (lr_L r')). pose proof (zlen_ge0 (below up)). lia. }
    pose proof (zlen_ge0 (below rl')) as Hb0.
    replace ((zlen (below rl') + lo <? 0) || (zlen (below rl') + hi >? zlen (ix_segments ix)) || (zlen (below rl') + hi <? zlen (below rl') + lo)) with false by lia.
    destruct (window_bsearch (lr_new r) (lr_T r) k Jr lo hi Hresp Hlo Hlh Hcase) as (J & HgJ & _ & _ & Hub).
    fold (lr_L r) in Hub, HgJ. rewrite (Hub _ _ _ Hseg2).
    exists J. eexists. split; [exact HgJ|]. split; [|reflexivity].
    unfold entry_le. unfold hi, lo, PGM_SUB_EPS, PGM_ADD_EPS.
    destruct (pos <=? e + 1) eqn:E1; destruct (pos + e + 2 >=? zlen (lr_L r) - 1) eqn:E2; lia.
Qed.

Lemma route_gap_all c ldk k ix :
  1 <= kbits (c_kt c) -> 1 <= c_epsrec c ->
  wrapK (c_kt c) (ldk + 1) = ldk + 1 -> ldk + 1 <= k -> k < sentinel c ->
  let B := 2 * c_epsrec c + 3 +
           (if c_epsrec c <=? pgm_linear_search_threshold (sizeof_segment c) then 1 else 0) in
  forall rl r' up J' tr,
    ix_segments ix = below (up ++ r' :: rl) -> ix_offsets ix = offs_of (up ++ r' :: rl) ->
    chainR c ldk k (r' :: rl) -> Forall (fun r => zlen (lr_keys r) < 2 ^ 32) (r' :: rl) ->
    Forall (fun r => tail1 ldk (lr_new r)) (r' :: rl) ->
    hd 0 (lr_keys r') <= k -> good (lr_L r') (zlen (lr_new r')) k J' -> Forall (entry_le B) tr ->
    exists J0 tr',
      route_levels c ix (rev (zseq 0 (length rl))) (zlen (below rl) + J') k tr = Ok (J0, tr') /\
      good (lr_L (last rl r')) (zlen (lr_new (last rl r'))) k J0 /\ Forall (entry_le B) tr'.
Proof.
  intros Hb He1 Hwk Hk1 Hks B. induction rl as [|r rl' IH]; intros r' up J' tr Hseg Hoffs Hch Hsz Ht1 Hhd Hg Htr.
  - cbn [length zseq rev route_levels last]. exists J', tr. split; [|split; assumption].
    reflexivity.
  - cbn [length]. rewrite zseq_snoc, rev_app_distr. cbn [rev app]. rewrite Z.add_0_l.
    pose proof Hch as Hch0. cbn [chainR] in Hch. destruct Hch as (Hok' & Hlink & Hch').
    pose proof (chainR_hd_ok _ _ _ _ _ Hch') as Hok.
    inversion Hsz as [|x l Hsz1 Hsz']; subst. inversion Ht1 as [|x l Ht11 Ht1']; subst.
    pose proof (link_ln_pos c r r' ldk k Hok' Hlink) as Hln1.
    pose proof (hd_keys_link c ldk k r r' Hb Hok Hlink Hln1) as Ehd.
    destruct (route_gap_step c ldk k ix up r' r rl' J' tr (rev (zseq 0 (length rl'))) Hb He1 Hwk Hk1 Hks Hseg Hoffs
                Hok Hok' Hlink Hsz1 ltac:(lia) (Forall_inv Ht1') Hg) as (J & entry & HgJ & Hent & Eroute).
    rewrite Eroute.
    assert (Hseg2 : ix_segments ix = below ((up ++ [r']) ++ r :: rl')) by (rewrite <- app_assoc; exact Hseg).
    assert (Hoffs2 : ix_offsets ix = offs_of ((up ++ [r']) ++ r :: rl')) by (rewrite <- app_assoc; exact Hoffs).
    destruct (IH r (up ++ [r']) J (entry :: tr) Hseg2 Hoffs2 Hch' Hsz' Ht1' ltac:(lia) HgJ ltac:(constructor; assumption))
      as (J0 & tr' & E & R & T).
    exists J0, tr'. split; [exact E|]. split; [|exact T].
    rewrite last_cons_gen. exact R.
Qed.

(* the descent starts on the first segment of the top level, which is good *)
Lemma top_good c ldk k r :
  1 <= kbits (c_kt c) -> lrec_ok c ldk k r -> wrapK (c_kt c) (ldk + 1) = ldk + 1 ->
  ldk + 1 <= k -> k < sentinel c -> hd 0 (lr_keys r) <= k -> lr_ln r <= 1 ->
  good (lr_L r) (zlen (lr_new r)) k 0.
Proof.
  intros Hb Hok Hwk Hk1 Hks Hhd Hln.
  destruct (lf_first c ldk k r Hok) as [Hnn Hk0].
  assert (Hln1 : 1 <= lr_ln r).
  { pose proof Hok as (_ & _ & _ & _ & _ & _ & Ht).
    assert (Hzn : 1 <= zlen (lr_new r)) by (destruct (lr_new r); [contradiction|]; rewrite zlen_cons; pose proof (zlen_ge0 l); lia).
    destruct Ht as [(_ & Hsent & Eln)|(_ & Eln & _)]; [|lia].
    destruct (Z.eq_dec (zlen (lr_new r)) 1) as [E1|E1]; [|lia].
    destruct (lr_new r) as [|s0 [|s1 t]]; [contradiction| |rewrite !zlen_cons in E1; pose proof (zlen_ge0 t); lia].
    cbn [last hd] in *. lia. }
  destruct (level_resp c ldk k r Hb Hok Hwk Hk1 Hks Hhd Hln1) as (Hu & J & Hresp & HJ).
  cbn zeta in Hu, HJ. destruct HJ as [EJ|(EJ & Eu & Em & _)].
  - left. replace 0 with J by lia. exact Hresp.
  - right. split; [replace (0 + 1) with J by lia; exact Hresp | lia].
Qed.

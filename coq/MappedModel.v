(* MappedModel.v — MappedPGMIndex: multiset queries over the mapped key array (C11) and the file
   layout written by serialize_and_map / read back by the load constructor (C12). *)
Require Import Base Fp PlaModel GenLeaf IndexModel.
From Flocq Require Import IEEE754.BinarySingleNaN.
Local Open Scope Z_scope.

(* ---- bytes ---- *)
Fixpoint le_bytes_nat (w : nat) (z : Z) : list Z :=
  match w with O => [] | S k => (z mod 256) :: le_bytes_nat k (z / 256) end.
Definition le_bytes (w : Z) (z : Z) : list Z := le_bytes_nat (Z.to_nat w) (z mod 2 ^ (8 * w)).
Fixpoint le_value (bs : list Z) : Z :=
  match bs with [] => 0 | b :: t => b + 256 * le_value t end.

(* IEEE-754 bit pattern of a finite value of the given format (prec, emax); w = total width in bits *)
Definition float_bits {p0 e0} (prec emax w : Z) (x : binary_float p0 e0) : Z :=
  match x with
  | B754_zero s => if s then 2 ^ (w - 1) else 0
  | B754_infinity s => (if s then 2 ^ (w - 1) else 0) + (2 ^ (w - prec) - 1) * 2 ^ (prec - 1)
  | B754_nan => (2 ^ (w - prec) - 1) * 2 ^ (prec - 1) + 2 ^ (prec - 2)
  | B754_finite s m e _ =>
      let sign := if s then 2 ^ (w - 1) else 0 in
      if Zpos m <? 2 ^ (prec - 1) then sign + Zpos m                                   (* subnormal *)
      else sign + (e + (emax - 1) + (prec - 1)) * 2 ^ (prec - 1) + (Zpos m - 2 ^ (prec - 1))
  end.
Definition slope_bits (c : cfg) (x : f64) : Z :=
  if c_fdouble c then float_bits 53 1024 64 x else float_bits 24 128 32 (f64_to_f32 x).
Definition slope_bytes (c : cfg) : Z := if c_fdouble c then 8 else 4.
Definition key_bytes (c : cfg) : Z := kbits (c_kt c) / 8.

(* inverse of float_bits on the patterns float_bits produces for finite values *)
Definition bits_float (prec emax w : Z) (b : Z) : f64 :=
  let sign := b / 2 ^ (w - 1) =? 1 in
  let rest := b mod 2 ^ (w - 1) in
  let ef := rest / 2 ^ (prec - 1) in
  let mf := rest mod 2 ^ (prec - 1) in
  let z := if ef =? 0 then mf else mf + 2 ^ (prec - 1) in
  let e := if ef =? 0 then 3 - emax - prec else ef - (emax - 1) - (prec - 1) in
  Fp.conv (binary_normalize 53 1024 p53 e53 mode_NE (if sign then - z else z) e sign) 53 1024 p53 e53.
Definition bits_slope (c : cfg) (b : Z) : f64 :=
  if c_fdouble c then bits_float 53 1024 64 b else bits_float 24 128 32 b.

(* ---- file layout: header_bytes | n | first_key | levels_offsets | segments | keys ---- *)
Definition segment_image (c : cfg) (s : segment) : list Z :=
  le_bytes (key_bytes c) (sg_key s) ++ le_bytes (slope_bytes c) (slope_bits c (sg_slope s)) ++ le_bytes 4 (sg_icpt s).

Definition header_size (c : cfg) (ix : index) : Z :=
  8 + 8 + key_bytes c + (8 + 8 * zlen (ix_offsets ix)) + (8 + sizeof_segment c * zlen (ix_segments ix)).

Definition serialize (c : cfg) (ix : index) (keys : list Z) : list Z :=
  le_bytes 8 (header_size c ix) ++ le_bytes 8 (ix_n ix) ++ le_bytes (key_bytes c) (ix_first_key ix) ++
  le_bytes 8 (zlen (ix_offsets ix)) ++ flat_map (le_bytes 8) (ix_offsets ix) ++
  le_bytes 8 (zlen (ix_segments ix)) ++ flat_map (segment_image c) (ix_segments ix) ++
  flat_map (le_bytes (key_bytes c)) keys.

(* reading *)
Definition take_bytes (w : Z) (bs : list Z) : res (Z * list Z) :=
  if zlen bs <? w then Err OutOfBounds else Ok (le_value (firstn (Z.to_nat w) bs), skipn (Z.to_nat w) bs).
Definition as_key (c : cfg) (v : Z) : Z := wrapK (c_kt c) v.

Fixpoint read_many {A} (f : list Z -> res (A * list Z)) (count : nat) (bs : list Z) : res (list A * list Z) :=
  match count with
  | O => Ok ([], bs)
  | S k => do r <- f bs; do r2 <- read_many f k (snd r); Ok (fst r :: fst r2, snd r2)
  end.

Definition read_segment (c : cfg) (bs : list Z) : res (segment * list Z) :=
  do k <- take_bytes (key_bytes c) bs;
  do s <- take_bytes (slope_bytes c) (snd k);
  do i <- take_bytes 4 (snd s);
  Ok (mkSeg (as_key c (fst k)) (bits_slope c (fst s)) (fst i), snd i).

(* the load constructor: header members, then the keys mapped at header_bytes *)
Definition load (c : cfg) (file : list Z) : res (index * list Z) :=
  do hb <- take_bytes 8 file;
  do n <- take_bytes 8 (snd hb);
  do fk <- take_bytes (key_bytes c) (snd n);
  do no <- take_bytes 8 (snd fk);
  do offs <- read_many (take_bytes 8) (Z.to_nat (fst no)) (snd no);
  do ns <- take_bytes 8 (snd offs);
  do segs <- read_many (read_segment c) (Z.to_nat (fst ns)) (snd ns);
  let keys_region := skipn (Z.to_nat (fst hb)) file in
  do keys <- read_many (fun bs => do r <- take_bytes (key_bytes c) bs; Ok (as_key c (fst r), snd r)) (Z.to_nat (fst n)) keys_region;
  Ok (mkIndex (fst n) (as_key c (fst fk)) (fst segs) (fst offs), fst keys).

(* ---- the three constructors ---- *)
Record mapped := mkMapped { mp_ix : index; mp_data : list Z; mp_file : list Z }.

Definition from_range (c : cfg) (data : list Z) : res mapped :=
  do ix <- build c data;
  Ok (mkMapped ix data (serialize c ix data)).

(* raw key file: bytes of the keys, native endianness *)
Definition raw_file (c : cfg) (data : list Z) : list Z := flat_map (le_bytes (key_bytes c)) data.
Definition from_raw (c : cfg) (raw : list Z) : res mapped :=
  let kb := key_bytes c in
  if negb (Z.rem (zlen raw) kb =? 0) then Err ThrowRuntimeError else
  do keys <- read_many (fun bs => do r <- take_bytes kb bs; Ok (as_key c (fst r), snd r)) (Z.to_nat (zlen raw / kb)) raw;
  do ix <- build c (fst keys);
  Ok (mkMapped ix (fst keys) (serialize c ix (fst keys))).

Definition reopen (c : cfg) (file : list Z) : res mapped :=
  do r <- load c file; Ok (mkMapped (fst r) (snd r) file).

(* ---- queries ---- *)
Definition mapped_range (c : cfg) (m : mapped) (q : Z) : res (Z * Z) :=
  do a <- search c (mp_ix m) q;
  if (a_lo a <? 0) || (a_hi a >? zlen (mp_data m)) || (a_hi a <? a_lo a) then Err OutOfBounds
  else Ok (a_lo a, a_hi a).

Definition mapped_lower_bound (c : cfg) (m : mapped) (q : Z) : res Z :=
  do r <- mapped_range c m q; Ok (lb_range (mp_data m) (fst r) (snd r) q).

Definition mapped_contains (c : cfg) (m : mapped) (q : Z) : res bool :=
  do r <- mapped_range c m q;
  let i := lb_range (mp_data m) (fst r) (snd r) q in              (* std::binary_search *)
  if i <? snd r then do x <- nth_res (mp_data m) i; Ok (x =? q) else Ok false.

(* exponential search past the range to skip duplicates *)
Fixpoint gallop (fuel : nat) (data : list Z) (it step q : Z) : res Z :=
  match fuel with
  | O => Err OutOfFuel
  | S f =>
      if it + step <? zlen data then
        do x <- nth_res data (it + step);
        if x =? q then gallop f data it (step * 2) q else Ok step
      else Ok step
  end.
Definition mapped_upper_bound (c : cfg) (m : mapped) (q : Z) : res Z :=
  do r <- mapped_range c m q;
  let data := mp_data m in
  let it := ub_range data (fst r) (snd r) q in
  do step <- gallop 70 data it 1 q;
  Ok (ub_range data (it + step / 2) (Z.min (it + step) (zlen data)) q).

Definition mapped_count (c : cfg) (m : mapped) (q : Z) : res Z :=
  do l <- mapped_lower_bound c m q;
  if l =? zlen (mp_data m) then Ok 0 else
  do x <- nth_res (mp_data m) l;
  if negb (x =? q) then Ok 0 else
  do u <- mapped_upper_bound c m q; Ok (u - l).

(* CmpStructFp.v — the floating-point half of the structural certificate: every slope merge_slopes stores is
   finite, non-negative and accepted by slope_ok; every intercept lies in [-2^63, Y].
   Only monotonicity of rounding is used (no error analysis). *)
From Coq Require Import ZArith Reals Lra Lia Bool List.
From Flocq Require Import Core Relative BinarySingleNaN.
Require Import Base Fp PlaModel GenLeaf IndexModel IndexProofs IdxBlock FloatOkLemmas FloatOk CompressedModel CmpCertDefs CmpStructDefs.
Require Export CmpStructFp1.
Import ListNotations.
Local Open Scope Z_scope.

(* ---------- slope ranges ---------- *)
Definition f80ok (x : f80) : Prop := is_finite x = true /\ (Rabs (B2R x) <= bpow radix2 64)%R.
Definition range_ok (r : f80 * f80) : Prop :=
  f80ok (fst r) /\ f80ok (snd r) /\ (0 <= B2R (fst r) + B2R (snd r))%R.

Lemma f80ok_ofZ z : Z.abs z <= 2 ^ 64 -> f80ok (ofZ80 z).
Proof.
  intros H. destruct (ofZ80_exact z H) as [E F]. split; [exact F|]. rewrite E.
  rewrite <- abs_IZR, <- IZR_pow2 by lia. now apply IZR_le.
Qed.

Lemma get_slope_range_ok Y cs : seg_good Y cs -> range_ok (get_slope_range cs).
Proof.
  intros (_ & _ & _ & G). unfold get_slope_range. destruct (one_point cs) eqn:OP.
  - split; [apply f80ok_ofZ; lia|]. split; [apply f80ok_ofZ; lia|]. cbn [fst snd].
    destruct (ofZ80_exact 0 ltac:(lia)) as [E0 _]. destruct (ofZ80_exact 1 ltac:(lia)) as [E1 _].
    rewrite E0, E1. lra.
  - specialize (G eq_refl). cbv zeta in G. unfold psub in *. cbn [fst snd] in *.
    set (dx1 := fst (c_r2 cs) - fst (c_r0 cs)) in *. set (dy1 := snd (c_r2 cs) - snd (c_r0 cs)) in *.
    set (dx2 := fst (c_r3 cs) - fst (c_r1 cs)) in *. set (dy2 := snd (c_r3 cs) - snd (c_r1 cs)) in *.
    destruct G as (X1 & X2 & Y1 & Y2 & S & _).
    destruct (slope_ld_R dx1 dy1 X1 Y1) as (F1 & V1 & B1).
    destruct (slope_ld_R dx2 dy2 X2 ltac:(lia)) as (F2 & V2 & B2).
    split; [split; assumption|]. split; [split; assumption|].
    cbn [fst snd]. rewrite V1, V2. apply R80_sum_nonneg.
    assert (P1 : (0 < IZR dx1)%R) by (apply IZR_lt; lia).
    assert (P2 : (0 < IZR dx2)%R) by (apply IZR_lt; lia).
    apply IZR_le in S. rewrite plus_IZR, !mult_IZR in S.
    replace (IZR dy1 / IZR dx1 + IZR dy2 / IZR dx2)%R
      with ((IZR dy1 * IZR dx2 + IZR dy2 * IZR dx1) * / (IZR dx1 * IZR dx2))%R by (field; lra).
    apply Rmult_le_pos; [exact S|]. left. apply Rinv_0_lt_compat. nra.
Qed.

(* ---------- sorting only permutes ---------- *)
Lemma Forall_insert_by {A} (P : A -> Prop) lt x l : P x -> Forall P l -> Forall P (insert_by lt x l).
Proof.
  intros Hx H. induction H as [|y t Hy Ht IH]; cbn [insert_by].
  - constructor; [exact Hx|constructor].
  - destruct (lt x y); constructor; auto.
Qed.

Lemma Forall_sort_by {A} (P : A -> Prop) lt l : Forall P l -> Forall P (sort_by lt l).
Proof.
  intros H. induction H as [|y t Hy Ht IH]; cbn [sort_by fold_right]; [constructor|].
  apply Forall_insert_by; assumption.
Qed.

Lemma Forall_nth {A} (P : A -> Prop) l d n : Forall P l -> P d -> P (nth n l d).
Proof.
  intros H Hd. revert n. induction H as [|y t Hy Ht IH]; intros [|n]; cbn [nth]; auto.
Qed.

Lemma zseq_len len : forall start, length (zseq start len) = len.
Proof. induction len as [|k IH]; intros s; [reflexivity|]. cbn [zseq length]. now rewrite IH. Qed.

(* ---------- comparisons of finite values ---------- *)
Lemma gt80_max a b : is_finite a = true -> is_finite b = true ->
  let m := if gt80 a b then a else b in (B2R a <= B2R m)%R /\ (B2R b <= B2R m)%R.
Proof.
  intros Fa Fb. unfold gt80, cmp80. rewrite (Bcompare_correct _ _ a b Fa Fb).
  destruct (Rcompare_spec (B2R a) (B2R b)); cbv zeta; lra.
Qed.

(* ---------- the value stored in the table ---------- *)
Lemma emit_ok c cmin cmax : f80ok cmin -> f80ok cmax -> (0 <= B2R cmin + B2R cmax)%R ->
  tbl_ok c (to_floating c (mul80 half80 (add80 cmin cmax))).
Proof.
  intros [F1 B1] [F2 B2] S. destruct half80_R as [FH VH].
  assert (S1 : (B2R cmin + B2R cmax <= bpow radix2 65)%R).
  { change 65 with (64 + 1). rewrite bpow_plus. change (bpow radix2 1) with 2%R.
    pose proof (Rle_abs (B2R cmin)). pose proof (Rle_abs (B2R cmax)). lra. }
  destruct (add80_R cmin cmax 65) as [FA VA]; auto; try lia.
  { rewrite Rabs_pos_eq; lra. }
  assert (RA : (0 <= B2R (add80 cmin cmax) <= bpow radix2 65)%R).
  { rewrite VA. apply R80_between; [apply R80_0|apply R80_bpow; lia|lra]. }
  pose proof (bpow_ge_0 radix2 65).
  destruct (mul80_R half80 (add80 cmin cmax) 65) as [FM VM]; auto; try lia.
  { rewrite VH. rewrite Rabs_pos_eq; lra. }
  apply to_floating_ok; [exact FM|]. rewrite VM, VH.
  apply R80_between; [apply R80_0|apply R80_bpow; lia|lra].
Qed.

(* ---------- the sweep ---------- *)
Lemma sweep_ok c l : forall cmin cmax table mapping,
  f80ok cmin -> f80ok cmax -> (0 <= B2R cmin + B2R cmax)%R ->
  Forall (fun p : Z * (f80 * f80) => range_ok (snd p)) l -> Forall (tbl_ok c) table ->
  Forall (tbl_ok c) (fst (sweep c l cmin cmax table mapping)).
Proof.
  induction l as [|[i [mn mx]] rest IH]; intros cmin cmax table mapping K1 K2 S HL HT; cbn [sweep].
  - cbn [fst]. apply Forall_app. split; [exact HT|]. constructor; [|constructor]. now apply emit_ok.
  - inversion HL as [|? ? HR HL']; subst. destruct HR as (R1 & R2 & RS). cbn [fst snd] in R1, R2, RS.
    destruct (gt80 mn cmax).
    + apply IH; auto. apply Forall_app. split; [exact HT|]. constructor; [|constructor]. now apply emit_ok.
    + set (cm := if gt80 mn cmin then mn else cmin).
      assert (M : (B2R mn <= B2R cm)%R /\ (B2R cmin <= B2R cm)%R) by (apply gt80_max; [apply R1|apply K1]).
      destruct M as [M1 M2].
      assert (K1' : f80ok cm) by (unfold cm; destruct (gt80 mn cmin); assumption).
      assert (K2' : f80ok (if lt80 mx cmax then mx else cmax)) by (destruct (lt80 mx cmax); assumption).
      apply IH; auto.
      destruct (lt80 mx cmax); lra.
Qed.

(* ---------- get_intersection ---------- *)
(* the coefficient b = num / a of the intersection lies in [0,1] *)
Lemma b_R num a : 0 <= num <= a -> 1 <= a -> a <= 2 ^ 130 ->
  is_finite (div80 (ofZ80 num) (ofZ80 a)) = true /\ (0 <= B2R (div80 (ofZ80 num) (ofZ80 a)) <= 1)%R.
Proof.
  intros Hn Ha Hb.
  destruct (ofZ80_R num 130 ltac:(lia) ltac:(lia)) as [FN VN].
  destruct (ofZ80_R a 130 ltac:(lia) ltac:(lia)) as [FA VA].
  assert (N0 : (0 <= R80 (IZR num))%R) by (apply R80_ge_0, IZR_le; lia).
  assert (NA : (R80 (IZR num) <= R80 (IZR a))%R) by (apply R80_le, IZR_le; lia).
  assert (A1 : (1 <= R80 (IZR a))%R) by (rewrite <- R80_1; apply R80_le, IZR_le; lia).
  set (n := R80 (IZR num)) in *. set (d := R80 (IZR a)) in *.
  assert (Q : (0 <= n / d <= 1)%R).
  { assert (0 < / d)%R by (apply Rinv_0_lt_compat; lra). split.
    - apply Rmult_le_pos; lra.
    - apply Rmult_le_reg_r with d; [lra|]. replace (n / d * d)%R with n by (field; lra). lra. }
  destruct (div80_R (ofZ80 num) (ofZ80 a) 0) as [F V]; auto; try lia.
  - rewrite VA. fold d. lra.
  - rewrite VN, VA. fold n d. rewrite Rabs_pos_eq by lra. change (bpow radix2 0) with 1%R. lra.
  - split; [exact F|]. rewrite V, VN, VA. fold n d.
    apply R80_between; [apply R80_0|apply R80_1|exact Q].
Qed.

(* b * z stays between 0 and z *)
Lemma mulb_R (b : f80) z : is_finite b = true -> (0 <= B2R b <= 1)%R -> Z.abs z <= 2 ^ 64 ->
  is_finite (mul80 b (ofZ80 z)) = true /\
  (IZR (Z.min 0 z) <= B2R (mul80 b (ofZ80 z)) <= IZR (Z.max 0 z))%R.
Proof.
  intros Fb Hb Hz. destruct (ofZ80_exact z Hz) as [EZ FZ].
  assert (AZ : (Rabs (IZR z) <= bpow radix2 64)%R).
  { rewrite <- abs_IZR, <- IZR_pow2 by lia. now apply IZR_le. }
  assert (BT : (IZR (Z.min 0 z) <= B2R b * IZR z <= IZR (Z.max 0 z))%R).
  { destruct (Z_le_gt_dec 0 z) as [L|L].
    - rewrite Z.min_l, Z.max_r by lia. apply IZR_le in L. nra.
    - rewrite Z.min_r, Z.max_l by lia. assert (IZR z <= 0)%R by (apply IZR_le; lia). nra. }
  destruct (mul80_R b (ofZ80 z) 64) as [F V]; auto; try lia.
  - rewrite EZ. rewrite Rabs_mult. rewrite (Rabs_pos_eq (B2R b)) by lra.
    pose proof (Rabs_pos (IZR z)). nra.
  - split; [exact F|]. rewrite V, EZ. apply R80_between; try exact BT; apply R80_IZR; lia.
Qed.

(* z + m where the sum lies between two representable values *)
Lemma addz_R z (m : f80) lo hi k : is_finite m = true -> Z.abs z <= 2 ^ 64 ->
  R80 lo = lo -> R80 hi = hi -> -16445 <= k < 16384 ->
  (Rabs lo <= bpow radix2 k)%R -> (Rabs hi <= bpow radix2 k)%R -> (lo <= IZR z + B2R m <= hi)%R ->
  is_finite (add80 (ofZ80 z) m) = true /\ (lo <= B2R (add80 (ofZ80 z) m) <= hi)%R.
Proof.
  intros Fm Hz Hlo Hhi Hk Alo Ahi Hb. destruct (ofZ80_exact z Hz) as [EZ FZ].
  destruct (add80_R (ofZ80 z) m k) as [F V]; auto; try lia.
  - rewrite EZ. eapply Rle_trans; [apply Rabs_le_between; exact Hb|]. now apply Rmax_lub.
  - split; [exact F|]. rewrite V, EZ. apply R80_between; assumption.
Qed.

Lemma IZR_le_bpow z k : 0 <= k -> Z.abs z <= 2 ^ k -> (Rabs (IZR z) <= bpow radix2 k)%R.
Proof. intros Hk H. rewrite <- abs_IZR, <- IZR_pow2 by lia. now apply IZR_le. Qed.

Lemma get_intersection_ok Y cs : 0 <= Y < 2 ^ 63 -> seg_good Y cs ->
  let r := get_intersection cs (c_first cs) in
  is_finite (fst r) = true /\ (0 <= B2R (fst r) <= bpow radix2 65)%R /\
  is_finite (snd r) = true /\ (0 <= B2R (snd r) <= IZR Y)%R.
Proof.
  intros HY (G1 & G2 & G3 & G). unfold get_intersection. cbv zeta.
  set (x0 := fst (c_r0 cs) - c_first cs) in *. set (y0 := snd (c_r0 cs)) in *.
  destruct (ofZ80_exact x0 ltac:(lia)) as [EX FX].
  destruct (ofZ80_exact y0 ltac:(lia)) as [EY FY].
  assert (X0 : (0 <= IZR x0 <= bpow radix2 64)%R).
  { split; [apply IZR_le; lia|]. rewrite <- IZR_pow2 by lia. apply IZR_le. lia. }
  assert (B65 : bpow radix2 65 = (2 * bpow radix2 64)%R).
  { change 65 with (1 + 64). rewrite bpow_plus. reflexivity. }
  pose proof (bpow_ge_0 radix2 64) as P64.
  assert (SIMPLE : is_finite (ofZ80 x0) = true /\ (0 <= B2R (ofZ80 x0) <= bpow radix2 65)%R /\
     is_finite (ofZ80 y0) = true /\ (0 <= B2R (ofZ80 y0) <= IZR Y)%R).
  { rewrite EX, EY. split; [exact FX|]. split; [lra|]. split; [exact FY|]. split; apply IZR_le; lia. }
  destruct (one_point cs) eqn:OP; [exact SIMPLE|]. cbn [orb].
  destruct (seq_ _ _) eqn:SQ; [exact SIMPLE|]. clear SIMPLE.
  specialize (G eq_refl). cbv zeta in G. unfold seq_ in SQ. unfold psub in *. cbn [fst snd] in *.
  set (dx1 := fst (c_r2 cs) - fst (c_r0 cs)) in *. set (dy1 := snd (c_r2 cs) - y0) in *.
  set (dx2 := fst (c_r3 cs) - fst (c_r1 cs)) in *. set (dy2 := snd (c_r3 cs) - snd (c_r1 cs)) in *.
  set (ex := fst (c_r1 cs) - fst (c_r0 cs)) in *. set (ey := snd (c_r1 cs) - y0) in *.
  destruct G as (X1 & X2 & Y1 & Y2 & _ & LE & N0 & NA).
  apply Z.eqb_neq in SQ.
  set (a := dx1 * dy2 - dy1 * dx2) in *. set (num := ex * dy2 - ey * dx2) in *.
  assert (A1 : 1 <= a) by (unfold a; lia).
  assert (A2 : a <= 2 ^ 130).
  { assert (dx1 * dy2 <= 2 ^ 64 * 2 ^ 64) by (apply Z.mul_le_mono_nonneg; lia).
    assert (- dy1 * dx2 <= 2 ^ 64 * 2 ^ 64).
    { destruct (Z_le_gt_dec 0 dy1); [nia|]. apply Z.mul_le_mono_nonneg; lia. }
    unfold a. lia. }
  destruct (b_R num a (conj N0 NA) A1 A2) as [Fb Hb].
  set (b := div80 (ofZ80 num) (ofZ80 a)) in *.
  destruct (mulb_R b dx1 Fb Hb ltac:(lia)) as [F1 M1].
  destruct (mulb_R b dy1 Fb Hb ltac:(lia)) as [F2 M2].
  rewrite Z.min_l, Z.max_r in M1 by lia.
  assert (DX : (IZR dx1 <= bpow radix2 64)%R) by (rewrite <- IZR_pow2 by lia; apply IZR_le; lia).
  assert (T1 : (Rabs 0 <= bpow radix2 65)%R) by (rewrite Rabs_R0; apply bpow_ge_0).
  assert (T2 : (Rabs (bpow radix2 65) <= bpow radix2 65)%R) by (rewrite Rabs_pos_eq; [lra|apply bpow_ge_0]).
  assert (T3 : (0 <= IZR x0 + B2R (mul80 b (ofZ80 dx1)) <= bpow radix2 65)%R) by lra.
  destruct (addz_R x0 (mul80 b (ofZ80 dx1)) 0 (bpow radix2 65) 65 F1 ltac:(lia) R80_0
              (R80_bpow 65 ltac:(lia)) ltac:(lia) T1 T2 T3) as [FI VI].
  assert (YY : (0 <= IZR Y <= bpow radix2 64)%R).
  { split; [apply IZR_le; lia|]. rewrite <- IZR_pow2 by lia. apply IZR_le. lia. }
  assert (U1 : (Rabs 0 <= bpow radix2 64)%R) by (rewrite Rabs_R0; lra).
  assert (U2 : (Rabs (IZR Y) <= bpow radix2 64)%R) by (rewrite Rabs_pos_eq; lra).
  assert (U3 : (0 <= IZR y0 + B2R (mul80 b (ofZ80 dy1)) <= IZR Y)%R).
  { assert (E : IZR dy1 = (IZR (snd (c_r2 cs)) - IZR y0)%R) by (unfold dy1; apply minus_IZR).
    assert (0 <= IZR y0 <= IZR Y)%R by (split; apply IZR_le; lia).
    assert (0 <= IZR (snd (c_r2 cs)) <= IZR Y)%R by (split; apply IZR_le; lia).
    destruct (Z_le_gt_dec 0 dy1) as [L|L].
    - rewrite Z.min_l, Z.max_r in M2 by lia. lra.
    - rewrite Z.min_r, Z.max_l in M2 by lia. lra. }
  destruct (addz_R y0 (mul80 b (ofZ80 dy1)) 0 (IZR Y) 64 F2 ltac:(lia) R80_0
              (R80_IZR Y ltac:(lia)) ltac:(lia) U1 U2 U3) as [FJ VJ].
  cbn [fst snd]. split; [exact FI|]. split; [exact VI|]. split; [exact FJ|exact VJ].
Qed.

(* ---------- one intercept ---------- *)
Lemma icpt_ok c Y cs (s : f64) : 0 <= Y < 2 ^ 63 -> seg_good Y cs -> tbl_ok c s ->
  - 2 ^ 63 <= (let '(ix, iy) := get_intersection cs (c_first cs) in
               to_i64 (round80_away (sub80 iy (mul80 ix (f64_to_f80 s))))) <= Y.
Proof.
  intros HY HG (Fs & [S0 S1] & _).
  pose proof (get_intersection_ok Y cs HY HG) as K. cbv zeta in K.
  destruct (get_intersection cs (c_first cs)) as [ix iy]. cbn [fst snd] in K.
  destruct K as (FI & [I0 I1] & FJ & [J0 J1]).
  destruct (conv_exact s 64 16384 p64 e64 65) as [VS FS]; try lia; auto.
  { rewrite Rabs_pos_eq; lra. }
  fold (f64_to_f80 s) in VS, FS. set (sl := f64_to_f80 s) in *.
  assert (B130 : bpow radix2 130 = (bpow radix2 65 * bpow radix2 65)%R).
  { rewrite <- bpow_plus. reflexivity. }
  assert (B131 : bpow radix2 131 = (2 * bpow radix2 130)%R).
  { change 131 with (1 + 130). rewrite bpow_plus. reflexivity. }
  pose proof (bpow_ge_0 radix2 65) as P65.
  assert (PR : (0 <= B2R ix * B2R sl <= bpow radix2 130)%R) by (rewrite VS, B130; nra).
  destruct (mul80_R ix sl 130) as [FP VP]; auto; try lia.
  { rewrite Rabs_pos_eq; lra. }
  set (pr := mul80 ix sl) in *.
  assert (PB : (0 <= B2R pr <= bpow radix2 130)%R).
  { rewrite VP. apply R80_between; [apply R80_0|apply R80_bpow; lia|exact PR]. }
  assert (YY : (0 <= IZR Y <= bpow radix2 64)%R).
  { split; [apply IZR_le; lia|]. rewrite <- IZR_pow2 by lia. apply IZR_le. lia. }
  assert (B64 : (bpow radix2 64 <= bpow radix2 130)%R) by (apply bpow_le; lia).
  destruct (sub80_R iy pr 131) as [FD VD]; auto; try lia.
  { apply Rabs_le. lra. }
  assert (DB : (B2R (sub80 iy pr) <= IZR Y)%R).
  { rewrite VD. rewrite <- (R80_IZR Y) by lia. apply R80_le. lra. }
  destruct (round80_away_le (sub80 iy pr) Y FD DB ltac:(lia)) as (v & EV & LV).
  rewrite EV. apply to_i64_le; lia.
Qed.

(* ---------- merge_slopes ---------- *)
Lemma insert_by_not_nil {A} lt (x : A) l : insert_by lt x l <> [].
Proof. destruct l as [|y t]; cbn [insert_by]; [discriminate|]. destruct (lt x y); discriminate. Qed.

Lemma sort_by_nil {A} lt (l : list A) : sort_by lt l = [] -> l = [].
Proof.
  destruct l as [|y t]; [reflexivity|]. cbn [sort_by fold_right]. intros H.
  exfalso. exact (insert_by_not_nil _ _ _ H).
Qed.

Theorem merge_slopes_ok c Y segs table maps icpts :
  0 <= Y < 2 ^ 63 ->
  Forall (seg_good Y) segs ->
  merge_slopes c segs = (table, maps, icpts) ->
  Forall (tbl_ok c) table /\ Forall (fun v => - 2 ^ 63 <= v <= Y) icpts /\ zlen icpts = zlen segs.
Proof.
  intros HY HS. unfold merge_slopes. cbv zeta.
  set (idx := zseq 0 (length segs)).
  assert (LC : length (combine idx segs) = length segs).
  { rewrite combine_length. unfold idx. rewrite zseq_len. apply Nat.min_id. }
  set (ranges := map (fun p : Z * cseg => (fst p, get_slope_range (snd p))) (combine idx segs)).
  assert (HR : Forall (fun p : Z * (f80 * f80) => range_ok (snd p)) ranges).
  { apply Forall_forall. intros p Hp. apply in_map_iff in Hp. destruct Hp as ([i cs] & <- & Hin).
    cbn [fst snd]. apply in_combine_r in Hin. rewrite Forall_forall in HS.
    eapply get_slope_range_ok. apply HS. exact Hin. }
  pose proof (Forall_sort_by _ (fun a b : Z * (f80 * f80) => range_lt (snd a) (snd b)) _ HR) as HSo.
  destruct (sort_by _ ranges) as [|[i0 [mn0 mx0]] rest] eqn:ES.
  - intros E. inversion E; subst. split; [constructor|]. split; [constructor|].
    apply sort_by_nil in ES. unfold ranges in ES. apply (f_equal (@length _)) in ES.
    rewrite map_length, LC in ES. unfold zlen. rewrite ES. reflexivity.
  - destruct (sweep c rest mn0 mx0 [] [(i0, 0)]) as [tb mp] eqn:SW.
    intros E. inversion E; subst. clear E.
    inversion HSo as [|? ? H0 HRest]; subst. destruct H0 as (K1 & K2 & KS). cbn [fst snd] in K1, K2, KS.
    assert (HT : Forall (tbl_ok c) table).
    { pose proof (sweep_ok c rest mn0 mx0 [] [(i0, 0)] K1 K2 KS HRest (Forall_nil _)) as T.
      rewrite SW in T. exact T. }
    split; [exact HT|]. split.
    + apply Forall_forall. intros v Hv. apply in_map_iff in Hv. destruct Hv as ([i cs] & <- & Hin).
      apply in_combine_r in Hin. rewrite Forall_forall in HS.
      apply (icpt_ok c Y cs); [exact HY|apply HS; exact Hin|].
      apply Forall_nth; [exact HT|apply tbl_ok_zero].
    + unfold zlen. rewrite map_length, LC. reflexivity.
Qed.

Print Assumptions tbl_ok_zero.
Print Assumptions root_slope_ok.
Print Assumptions merge_slopes_ok.

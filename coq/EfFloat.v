(* EfFloat.v — rounding-error analysis of EliasFanoPGMIndex::SegmentData::operator() for Floating = float:
   int64_t(slope * float(k - origin)) + intercept with the product computed in binary32
   (VariantsModel.efseg_eval, branch c_fdouble = false).  Four roundings: x87 quotient (2^-64), slope to
   float (2^-24), key difference to float (2^-24), product to float (2^-24): relative error below 2^-22.
   Hence the computed product is within 1/2 of the exact one when that is below 2^21, and at least
   2^21 - 1 when it is at least 2^21: the interface EfLevel.gev_ok_cap T for every T <= 2^21 - 1. *)
From Coq Require Import ZArith Reals Lra Lia Bool List.
From Flocq Require Import Core Relative BinarySingleNaN.
Require Import Base Fp PlaModel GenLeaf IndexModel IndexProofs IdxBlock FloatOkLemmas FloatOk FloatOkFar FloatOkCap
  VariantsModel CmpMono EfLevel.
Import ListNotations.
Local Open Scope Z_scope.

(* float -> double -> float is the identity on values *)
Lemma f32_roundtrip (y : f32) : is_finite (f32_to_f64 y) = true ->
  B2R (f64_to_f32 (f32_to_f64 y)) = B2R (f32_to_f64 y) /\ is_finite (f64_to_f32 (f32_to_f64 y)) = true.
Proof.
  intros Hf. assert (Fy : is_finite y = true) by (destruct y; try discriminate; reflexivity).
  pose proof (abs_B2R_lt_emax 24 128 y) as Hb.
  destruct (conv_exact y 53 1024 p53 e53 128) as [A B]; try lia; auto; [left; exact Hb|].
  fold (f32_to_f64 y) in A, B.
  assert (G : RN 24 128 (B2R (f32_to_f64 y)) = B2R (f32_to_f64 y)).
  { rewrite A. unfold RN, ffexp. apply round_generic; auto with typeclass_instances.
    apply (generic_format_B2R 24 128). }
  destruct (conv_R 24 128 p24 e24 (f32_to_f64 y) B) as [C D].
  { rewrite G, A. exact Hb. }
  fold (f64_to_f32 (f32_to_f64 y)) in C, D. split; [rewrite C; exact G | exact D].
Qed.

(* the float slope stored in the segment, read back as a float *)
Lemma slope32_R c dx dy : 0 < dx < 2 ^ 64 -> 0 <= dy < 2 ^ 64 -> c_fdouble c = false ->
  let s := f64_to_f32 (slope_to_floating c (dx, dy)) in
  is_finite s = true /\ (0 <= B2R s <= bpow radix2 64)%R /\
  (B2R s = 0%R \/ (bpow radix2 (-64) <= B2R s)%R) /\
  exists e1 e2, (Rabs e1 <= bpow radix2 (-64))%R /\ (Rabs e2 <= bpow radix2 (-24))%R /\
    B2R s = (IZR dy / IZR dx * (1 + e1) * (1 + e2))%R.
Proof.
  intros Hdx Hdy Hf s.
  destruct (slope_R c dx dy Hdx Hdy) as (F & Bd & Zr & e1 & e2 & E1 & E2 & V). cbv zeta in *.
  unfold fprec in E2. rewrite Hf in E2.
  assert (Es : slope_to_floating c (dx, dy) = f32_to_f64 (f80_to_f32 (div80 (ofZ80 dy) (ofZ80 dx)))).
  { unfold slope_to_floating. rewrite Hf. reflexivity. }
  rewrite Es in F, Bd, Zr, V. unfold s. rewrite Es.
  destruct (f32_roundtrip _ F) as [A B]. rewrite A.
  split; [exact B|]. split; [exact Bd|]. split; [exact Zr|]. exists e1, e2. auto.
Qed.

(* float(dk): a correctly rounded non-negative value, relative error 2^-24 *)
Lemma ofZ32_R z : 0 <= z < 2 ^ 64 ->
  is_finite (ofZ32 z) = true /\ (0 <= B2R (ofZ32 z) <= bpow radix2 64)%R /\
  (B2R (ofZ32 z) = 0%R \/ (bpow radix2 0 <= B2R (ofZ32 z))%R) /\
  exists e, (Rabs e <= bpow radix2 (-24))%R /\ B2R (ofZ32 z) = (IZR z * (1 + e))%R.
Proof.
  intros Hz.
  assert (A : (Rabs (IZR z) <= bpow radix2 64)%R).
  { rewrite <- abs_IZR, <- IZR_pow2 by lia. apply IZR_le. lia. }
  assert (B : (Rabs (RN 24 128 (IZR z)) < bpow radix2 128)%R).
  { eapply Rle_lt_trans; [apply (RN_abs_le 24 128 p24 64); [unfold femin; lia|exact A]|].
    apply bpow_lt. lia. }
  destruct (ofZ_R 24 128 p24 e24 z false B) as [E F]. fold (ofZ32 z) in E, F.
  assert (Z0 : (0 <= IZR z)%R) by (apply IZR_le; lia).
  split; [exact F|]. rewrite E. split.
  { split; [apply (RN_ge_0 24 128 p24); exact Z0|].
    eapply Rle_trans; [apply Rle_abs|]. apply (RN_abs_le 24 128 p24); [unfold femin; lia|exact A]. }
  split.
  { destruct (Z.eq_dec z 0) as [->|N]; [left; unfold RN; apply round_0; auto with typeclass_instances|right].
    apply (RN_ge_bpow 24 128 p24); [unfold femin; lia|]. change (bpow radix2 0) with (IZR 1).
    apply IZR_le. lia. }
  apply (RN_relerr 24 128 p24).
  destruct (Z.eq_dec z 0) as [->|N]; [now left|right].
  rewrite <- abs_IZR. apply Rle_trans with (bpow radix2 0).
  - apply bpow_le. unfold femin. lia.
  - change (bpow radix2 0) with (IZR 1). apply IZR_le. lia.
Qed.

(* the exact product of the two floats, and its rounding to float, against the exact position *)
Lemma prod32_R c dx dy dk : 0 < dx < 2 ^ 64 -> 0 <= dy < 2 ^ 64 -> 0 <= dk < 2 ^ 64 -> c_fdouble c = false ->
  let sf := f64_to_f32 (slope_to_floating c (dx, dy)) in
  let df := ofZ32 dk in
  is_finite sf = true /\ is_finite df = true /\ (0 <= B2R sf)%R /\ (0 <= B2R df)%R /\
  exists e1 e2 e3 e4, (Rabs e1 <= bpow radix2 (-64))%R /\ (Rabs e2 <= bpow radix2 (-24))%R /\
    (Rabs e3 <= bpow radix2 (-24))%R /\ (Rabs e4 <= bpow radix2 (-24))%R /\
    RN 24 128 (B2R sf * B2R df) = (IZR dy * IZR dk / IZR dx * (1 + e1) * (1 + e2) * (1 + e3) * (1 + e4))%R.
Proof.
  intros Hdx Hdy Hdk Hf sf df.
  destruct (slope32_R c dx dy Hdx Hdy Hf) as (Fs & [S0 S1] & SL & e1 & e2 & E1 & E2 & Vs). cbv zeta in *. fold sf in Fs, S0, S1, SL, Vs.
  destruct (ofZ32_R dk Hdk) as (Fd & [D0 D1] & DL & e3 & E3 & Vd). fold df in Fd, D0, D1, DL, Vd.
  split; [exact Fs|]. split; [exact Fd|]. split; [exact S0|]. split; [exact D0|].
  set (P := (B2R sf * B2R df)%R).
  assert (P0 : (0 <= P)%R) by (unfold P; nra).
  assert (PL : P = 0%R \/ (bpow radix2 (-64) <= P)%R).
  { destruct SL as [SL|SL]; [left; unfold P; rewrite SL; ring|].
    destruct DL as [DL|DL]; [left; unfold P; rewrite DL; ring|right].
    change (bpow radix2 0) with 1%R in DL. pose proof (bpow_gt_0 radix2 (-64)). unfold P. nra. }
  destruct (RN_relerr 24 128 p24 P) as (e4 & E4 & V4).
  { destruct PL as [PL|PL]; [now left|right]. rewrite Rabs_pos_eq by exact P0.
    eapply Rle_trans; [|exact PL]. apply bpow_le. unfold femin. lia. }
  exists e1, e2, e3, e4. repeat (split; [assumption|]).
  rewrite V4. unfold P. rewrite Vs, Vd. field.
  apply IZR_neq. lia.
Qed.

Lemma const_ef_float :
  ((1 + bpow radix2 (-64)) * (1 + bpow radix2 (-24)) * (1 + bpow radix2 (-24)) * (1 + bpow radix2 (-24)) - 1
   < / 4194304)%R.
Proof. rewrite bpow_m64, bpow_m24. lra. Qed.

Lemma prod_low_ef E e1 e2 e3 e4 :
  (0 <= E)%R -> (Rabs e1 <= bpow radix2 (-64))%R -> (Rabs e2 <= bpow radix2 (-24))%R ->
  (Rabs e3 <= bpow radix2 (-24))%R -> (Rabs e4 <= bpow radix2 (-24))%R ->
  (E * (1 - / 4194304) <= E * (1 + e1) * (1 + e2) * (1 + e3) * (1 + e4))%R.
Proof.
  intros HE H1 H2 H3 H4.
  apply one_minus in H1, H2, H3, H4. rewrite bpow_m64 in H1. rewrite bpow_m24 in H2, H3, H4.
  match type of H1 with (?q <= _)%R => set (q1 := q) in * end.
  match type of H2 with (?q <= _)%R => set (q2 := q) in * end.
  assert (Q1 : (0 <= q1)%R) by (unfold q1; lra). assert (Q2 : (0 <= q2)%R) by (unfold q2; lra).
  pose proof (step_low E E q1 e1 ltac:(lra) (conj Q1 H1)) as A1.
  pose proof (step_low _ _ q2 e2 A1 (conj Q2 H2)) as A2.
  pose proof (step_low _ _ q2 e3 A2 (conj Q2 H3)) as A3.
  pose proof (step_low _ _ q2 e4 A3 (conj Q2 H4)) as A4.
  eapply Rle_trans; [|apply A4].
  replace (E * q1 * q2 * q2 * q2)%R with (E * (q1 * q2 * q2 * q2))%R by ring.
  apply Rmult_le_compat_l; [exact HE|]. unfold q1, q2. lra.
Qed.

(* the tail of SegmentData::operator(): conversion, saturation at 2^62, int32 intercept, clamp at 0 *)
Definition ef_tail {p e} (x : binary_float p e) (icpt : Z) : Z :=
  if match truncZ x with Some z => z >=? 2 ^ 62 | None => true end then 2 ^ 63 - 1
  else let pos := wrapS 64 (cvtt_i64 x + wrapS 32 icpt) in if pos >? 0 then pos else 0.

Lemma efseg_eval_float c slope icpt origin k : c_fdouble c = false ->
  efseg_eval c (mkEfseg slope (wrapS 32 icpt)) origin k =
  ef_tail (mul32 (f64_to_f32 slope)
             (ofZ32 (if kbits (c_kt c) >=? 32 then wrapK (c_kt c) (k - origin) else k - origin))) icpt.
Proof. intros Hf. unfold efseg_eval, ef_tail. rewrite Hf. reflexivity. Qed.

Lemma ef_tail_none {p e} (x : binary_float p e) icpt : truncZ x = None -> ef_tail x icpt = 2 ^ 63 - 1.
Proof. intros H. unfold ef_tail. rewrite H. reflexivity. Qed.

Lemma ef_tail_some {p e} (x : binary_float p e) icpt z : truncZ x = Some z -> 0 <= z -> 0 <= icpt < 2 ^ 31 ->
  ef_tail x icpt = if z >=? 2 ^ 62 then 2 ^ 63 - 1 else z + icpt.
Proof.
  intros H Hz Hi. unfold ef_tail, cvtt_i64. rewrite H. destruct (z >=? 2 ^ 62) eqn:G; [reflexivity|].
  assert (Hz2 : z < 2 ^ 62) by (rewrite Z.geb_leb in G; apply Z.leb_gt in G; lia).
  replace ((- 2 ^ 63 <=? z) && (z <? 2 ^ 63)) with true
    by (symmetry; apply andb_true_intro; split; [apply Z.leb_le|apply Z.ltb_lt]; lia).
  assert (W32 : wrapS 32 icpt = icpt) by (unfold wrapS; rewrite Z.mod_small by lia; lia).
  rewrite W32. assert (W64 : wrapS 64 (z + icpt) = z + icpt) by (unfold wrapS; rewrite Z.mod_small by lia; lia).
  rewrite W64. cbv zeta. destruct (z + icpt >? 0) eqn:G0; [reflexivity|].
  rewrite Z.gtb_ltb in G0. apply Z.ltb_ge in G0. lia.
Qed.

Section EfCapFloat.
Variables (c : cfg) (dx dy : Z) (s : segment) (k : Z).
Hypothesis Hdx : 0 < dx < 2 ^ 64.
Hypothesis Hdy : 0 <= dy < 2 ^ 64.
Hypothesis Hslope : sg_slope s = slope_to_floating c (dx, dy).
Hypothesis Hicpt : 0 <= sg_icpt s < 2 ^ 31.
Hypothesis Hdk : 0 <= k - sg_key s < 2 ^ 64.
Hypothesis Hkd : (if kbits (c_kt c) >=? 32 then wrapK (c_kt c) (k - sg_key s) else k - sg_key s) = k - sg_key s.
Hypothesis Hf : c_fdouble c = false.

Let v := efseg_eval c (mkEfseg (sg_slope s) (wrapS 32 (sg_icpt s))) (sg_key s) k.

(* exact position below 2^21: within 1/2 before truncation *)
Theorem ef_eval_near_float : dy * (k - sg_key s) < 2 ^ 21 * dx -> gev_ok v dx dy s k.
Proof.
  intros Hb. unfold v. rewrite (efseg_eval_float c _ _ _ _ Hf), Hkd, Hslope.
  set (dk := k - sg_key s) in *.
  destruct (prod32_R c dx dy dk Hdx Hdy Hdk Hf) as (Fs & Fd & S0 & D0 & e1 & e2 & e3 & e4 & E1 & E2 & E3 & E4 & V).
  cbv zeta in *. set (sf := f64_to_f32 (slope_to_floating c (dx, dy))) in *. set (df := ofZ32 dk) in *.
  set (E := (IZR dy * IZR dk / IZR dx)%R) in *.
  assert (E0 : (0 <= E)%R).
  { unfold E. apply Rmult_le_pos; [apply Rmult_le_pos; apply IZR_le; lia|].
    left. apply Rinv_0_lt_compat. apply IZR_lt. lia. }
  assert (EB : (E < IZR (2 ^ 21))%R) by (apply exact_lt; lia).
  pose proof (prod_err E (IZR (2 ^ 21)) (/ 4194304) e1 e2 e3 e4 _ _ _ _ (conj E0 EB) E1 E2 E3 E4 const_ef_float
                ltac:(change (2 ^ 21) with 2097152; lra)) as Hc.
  rewrite <- V in Hc. set (R := RN 24 128 (B2R sf * B2R df)) in *.
  assert (R0 : (0 <= R)%R) by (apply (RN_ge_0 24 128 p24); nra).
  assert (R1 : (R < 2097153)%R) by (apply Rabs_def2 in Hc; change (2 ^ 21) with 2097152 in EB; lra).
  generalize (Bmult_correct 24 128 p24 e24 mode_NE sf df).
  change (round radix2 (SpecFloat.fexp 24 128) (round_mode mode_NE)) with (RN 24 128). fold R.
  rewrite Rlt_bool_true.
  2:{ rewrite Rabs_pos_eq by exact R0. eapply Rlt_trans; [exact R1|].
      change (bpow radix2 128) with (IZR (2 ^ 128)). apply IZR_lt. lia. }
  fold (mul32 sf df). set (p := mul32 sf df). intros (A & B & _).
  assert (Fp : is_finite p = true) by (rewrite B, Fs, Fd; reflexivity).
  assert (T : truncZ p = Some (Zfloor (B2R p))).
  { rewrite truncZ_finite by exact Fp. rewrite Ztrunc_floor by (rewrite A; exact R0). reflexivity. }
  rewrite <- A in Hc, R0, R1.
  destruct (floor_close dx dy dk (B2R p) ltac:(lia) R0 Hc) as (T0 & T1 & T2).
  assert (Tz : Zfloor (B2R p) < 2 ^ 62).
  { apply lt_IZR. eapply Rle_lt_trans; [apply Zfloor_lb|]. eapply Rlt_trans; [exact R1|]. apply IZR_lt. lia. }
  rewrite (ef_tail_some p (sg_icpt s) _ T T0 Hicpt).
  replace (Zfloor (B2R p) >=? 2 ^ 62) with false by (symmetry; rewrite Z.geb_leb; apply Z.leb_gt; lia).
  left. exists (Zfloor (B2R p)). split; [reflexivity|]. split; [exact T0|].
  unfold ev_close. fold dk. split; assumption.
Qed.

(* exact position at least 2^21: the computed value is at least 2^21 - 1 (or saturated) *)
Theorem ef_eval_far_float : 2 ^ 21 * dx <= dy * (k - sg_key s) -> 2 ^ 21 - 1 <= v.
Proof.
  intros Hfar. unfold v. rewrite (efseg_eval_float c _ _ _ _ Hf), Hkd, Hslope.
  set (dk := k - sg_key s) in *.
  destruct (prod32_R c dx dy dk Hdx Hdy Hdk Hf) as (Fs & Fd & S0 & D0 & e1 & e2 & e3 & e4 & E1 & E2 & E3 & E4 & V).
  cbv zeta in *. set (sf := f64_to_f32 (slope_to_floating c (dx, dy))) in *. set (df := ofZ32 dk) in *.
  destruct (mult_cases 24 128 p24 e24 sf df Fs Fd) as [En|[_ Es]]; fold (mul32 sf df) in *.
  - rewrite (ef_tail_none _ _ En). lia.
  - set (E := (IZR dy * IZR dk / IZR dx)%R) in *.
    pose proof (exact_ge dx dy dk (2 ^ 21) ltac:(lia) Hfar) as HE. fold E in HE. change (2 ^ 21) with 2097152 in HE.
    pose proof (prod_low_ef E e1 e2 e3 e4 ltac:(lra) E1 E2 E3 E4) as HL. rewrite <- V in HL.
    set (R := RN 24 128 (B2R sf * B2R df)) in *.
    assert (RL : (IZR (2 ^ 21 - 1) <= R)%R) by (change (2 ^ 21 - 1) with 2097151; lra).
    assert (R0 : (0 <= R)%R) by (change (2 ^ 21 - 1) with 2097151 in RL; lra).
    assert (Z1 : 2 ^ 21 - 1 <= Ztrunc R).
    { rewrite Ztrunc_floor by exact R0. apply Zfloor_lub. exact RL. }
    rewrite (ef_tail_some _ (sg_icpt s) _ Es ltac:(lia) Hicpt).
    destruct (Ztrunc R >=? 2 ^ 62); lia.
Qed.

(* every evaluation satisfies the interface with cap T, for every T <= 2^21 - 1 *)
Theorem ef_eval_ok_cap_float T : T <= 2 ^ 21 - 1 -> gev_ok_cap T v dx dy s k.
Proof.
  intros HT. destruct (Z_lt_ge_dec (dy * (k - sg_key s)) (2 ^ 21 * dx)) as [Hlt|Hge].
  - left. apply ef_eval_near_float. exact Hlt.
  - right. split.
    + pose proof (ef_eval_far_float ltac:(lia)). lia.
    + assert (T * dx <= 2 ^ 21 * dx) by (apply Z.mul_le_mono_nonneg_r; lia). lia.
Qed.
End EfCapFloat.

(* a flat segment (slope +0): the value is the intercept, for either Floating type *)
Lemma efseg_eval_zero c icpt origin k : 0 <= icpt < 2 ^ 31 ->
  Z.abs (if kbits (c_kt c) >=? 32 then wrapK (c_kt c) (k - origin) else k - origin) <= 2 ^ 64 ->
  efseg_eval c (mkEfseg f64_zero (wrapS 32 icpt)) origin k = icpt.
Proof.
  intros Hi Hd. unfold efseg_eval. cbn [es_slope es_icpt].
  set (d := if kbits (c_kt c) >=? 32 then wrapK (c_kt c) (k - origin) else k - origin) in *.
  assert (W32 : wrapS 32 icpt = icpt) by (unfold wrapS; rewrite Z.mod_small by lia; lia).
  assert (W64 : wrapS 64 (0 + icpt) = 0 + icpt) by (unfold wrapS; rewrite Z.mod_small by lia; lia).
  destruct (c_fdouble c).
  - assert (F : is_finite (ofZ64 d) = true) by (apply ofZ64_finite; exact Hd).
    assert (Z : exists b, mul64 f64_zero (ofZ64 d) = B754_zero b).
    { unfold mul64, f64_zero. destruct (ofZ64 d); try discriminate; cbn; eauto. }
    destruct Z as [b ->]. cbn [truncZ]. unfold cvtt_i64. cbn [truncZ].
    change (0 >=? 2 ^ 62) with false. change ((- 2 ^ 63 <=? 0) && (0 <? 2 ^ 63)) with true. cbv iota. rewrite W32, W64.
    destruct (0 + icpt >? 0) eqn:G; lia.
  - assert (F : is_finite (ofZ32 d) = true).
    { apply (ofZ_R 24 128 p24 e24 d false).
      eapply Rle_lt_trans; [apply (RN_abs_le 24 128 p24 64); [unfold femin; lia|]|apply bpow_lt; lia].
      rewrite <- abs_IZR, <- IZR_pow2 by lia. apply IZR_le. exact Hd. }
    assert (Z : exists b, mul32 (f64_to_f32 f64_zero) (ofZ32 d) = B754_zero b).
    { unfold mul32, f64_zero, f64_to_f32, conv. destruct (ofZ32 d); try discriminate; cbn; eauto. }
    destruct Z as [b ->]. cbn [truncZ]. unfold cvtt_i64. cbn [truncZ].
    change (0 >=? 2 ^ 62) with false. change ((- 2 ^ 63 <=? 0) && (0 <? 2 ^ 63)) with true. cbv iota. rewrite W32, W64.
    destruct (0 + icpt >? 0) eqn:G; lia.
Qed.

Print Assumptions ef_eval_ok_cap_float.
Print Assumptions efseg_eval_zero.

(* DynCoreTotal.v — insert never fails on valid input (non-vacuity of the C05/C15 statements). *)
From Coq Require Import ZArith List Bool Lia ZifyBool.
Require Import Base GenLeaf DynModel DynSpec DynCoreLemmas DynCoreInv DynCoreRefine DynCoreQuery.
Local Open Scope Z_scope.

Ltac csplit := repeat match goal with |- _ /\ _ => refine (conj _ _) end.

Section TotalSec.
Context {P : Type} (ops : pgmops P) (kmax : Z).
Hypothesis Hc : pgm_contract ops kmax.
(* PGMType(first, first) == PGMType(): building over an empty range succeeds and gives the empty index *)
Hypothesis Hbuild0 : pg_build ops [] = Ok (pg_empty ops).
Notation dynP := (@dyn P).
Notation Inv := (Inv ops kmax).

Lemma Hempty_of_build0 : forall p, pg_build ops [] = Ok p -> p = pg_empty ops.
Proof. intros p H. rewrite Hbuild0 in H. inversion H; auto. Qed.

Lemma find_target_total : forall fuel (d : dynP) i sr,
  0 <= d_min_level d <= i -> i <= d_used d -> d_used d <= 255 -> d_used d - d_min_level d <= zlen (d_levels d) ->
  (Z.to_nat (d_used d - i) < fuel)%nat ->
  exists r, find_target d fuel i sr = Ok r.
Proof.
  induction fuel as [|fuel IH]; intros d i sr Hi Hi2 Hu Hlen Hf; [lia|].
  cbn [find_target]. destruct (i <? d_used d) eqn:Ei; [|eauto].
  destruct (level_total d i ltac:(lia)) as [li Hli]. rewrite Hli. cbn [bind].
  destruct (sr <=? max_size d i - zlen li); [eauto|].
  rewrite wrapU_small by (change (2 ^ 8) with 256; lia).
  apply IH; lia.
Qed.

Lemma merge_levels_total : forall n (d : dynP) s tmp,
  d_min_level d <= s -> s - d_min_level d + Z.of_nat n <= zlen (d_levels d) ->
  (forall j, s <= j < s + Z.of_nat n -> has_pgm d j = true -> 0 <= j - d_min_index_level d < zlen (d_pgms d)) ->
  exists r, merge_levels ops d (zseq s n) tmp = Ok r.
Proof.
  induction n as [|n IH]; intros d s tmp Hs Hr Hp.
  - cbn. eauto.
  - cbn [zseq merge_levels].
    destruct (level_total d s ltac:(lia)) as [li Hli]. rewrite Hli. cbn [bind].
    destruct (set_level_total d s [] ltac:(lia)) as [d1 H1]. rewrite H1. cbn [bind].
    apply set_level_spec in H1.
    destruct H1 as [[Hc1 [Hc2 [Hc3 _]]] [Hu1 [Hp1 [Hz1 _]]]].
    destruct (has_pgm d s) eqn:Eh.
    + destruct (set_pgm_total d1 s (pg_empty ops)) as [d2 H2].
      { rewrite Hc3, Hp1. apply Hp; [lia|auto]. }
      rewrite H2. cbn [bind]. apply set_pgm_spec in H2.
      destruct H2 as [[Hd1 [Hd2 [Hd3 _]]] [Hu2 [HL2 [Hz2 _]]]].
      apply IH.
      * lia.
      * unfold zlen in *. rewrite HL2. lia.
      * intros j Hj Hh. unfold has_pgm in Hh. rewrite Hd3, Hc3 in Hh.
        rewrite Hz2, Hd3, Hc3, Hp1. apply Hp; [lia|auto].
    + cbn [bind]. apply IH.
      * lia.
      * lia.
      * intros j Hj Hh. unfold has_pgm in Hh. rewrite Hc3 in Hh.
        rewrite Hc3, Hp1. apply Hp; [lia|auto].
Qed.

Lemma pairwise_merge_total : forall (g : dynP) x t buf,
  Inv g -> d_min_level g < t < d_used g -> it_key x < kmax ->
  level g (d_min_level g) = Ok buf -> level_lookup buf (it_key x) = None ->
  exists d', pairwise_merge ops g x t (lbk buf (it_key x)) = Ok d'.
Proof.
  intros g x t buf HI Ht Hk Hb Hn.
  pose proof (wf_levels_order ops g (iv_wf _ _ g HI)) as [H0 H0'].
  pose proof (wf_levels_len ops g (iv_wf _ _ g HI)) as [Hl1 Hl2].
  pose proof (iv_used _ _ g HI) as Hu. pose proof (iv_pgms _ _ g HI) as Hpz.
  unfold pairwise_merge. rewrite Hb. cbn [bind].
  destruct (level_total g t ltac:(lia)) as [lt Hlt]. rewrite Hlt. cbn [bind].
  rewrite wrapU_small by (change (2 ^ 8) with 256; lia).
  replace (1 + d_min_level g) with (d_min_level g + 1) by lia.
  fold (merge_n g t lt). set (n := merge_n g t lt).
  assert (Hn1 : (n <= Z.to_nat (t - d_min_level g))%nat).
  { subst n. unfold merge_n. destruct (zlen lt =? 0); lia. }
  set (tmp := insert_at buf (Z.to_nat (lbk buf (it_key x))) x).
  destruct (merge_levels_total n g (d_min_level g + 1) tmp) as [[d1 out] Hm]; try lia.
  { intros j Hj Hh. unfold has_pgm in Hh. lia. }
  rewrite Hm. cbn [bind].
  apply merge_levels_spec in Hm. destruct Hm as [Hc1 [Hu1 [Hz1 [Hzp1 [Hlv1 [Hpg1 [Hlen Hout]]]]]]].
  assert (Hml1 : d_min_level d1 = d_min_level g) by (destruct Hc1 as [_ [? _]]; auto).
  destruct (set_level_total d1 (d_min_level g) []) as [d2 H2]; [lia|]. rewrite H2. cbn [bind].
  apply set_level_spec in H2. destruct H2 as [Hc2 [Hu2 [Hp2 [Hz2 _]]]].
  assert (Hml2 : d_min_level d2 = d_min_level g) by (destruct Hc2 as [_ [? _]]; congruence).
  destruct (set_level_total d2 t out) as [d3 H3]; [lia|]. rewrite H3. cbn [bind].
  apply set_level_spec in H3. destruct H3 as [Hc3 [Hu3 [Hp3 [Hz3 _]]]].
  destruct (has_pgm g t) eqn:Eh; [|eauto].
  assert (Hbuild : exists p, pg_build ops (map it_key out) = Ok p).
  { destruct out as [|o out'] eqn:Eo; [cbn; eauto|]. rewrite <- Eo in *.
    assert (Hrange : d_min_level g + 1 - d_min_level g + Z.of_nat n <= zlen (d_levels g)) by lia.
    apply (pc_build ops kmax Hc).
    - rewrite Eo. discriminate.
    - apply isrt_iff. rewrite Hout. apply mrun_sorted.
      + apply insert_at_sorted; auto. eapply Inv_sorted; eauto.
      + apply Forall_forall. intros l Hin. apply levels_from_in in Hin; try lia.
        destruct Hin as [j [_ Hj]]. eapply Inv_sorted; eauto.
    - apply Forall_forall. intros kk Hin. apply in_map_iff in Hin. destruct Hin as [e [<- Hin]].
      rewrite Hout in Hin. apply mrun_in in Hin. destruct Hin as [Hin|[l [Hl Hin]]].
      + apply insert_at_in in Hin. destruct Hin as [->|Hin]; auto. eapply (Inv_keys ops kmax g _ buf); eauto.
      + apply levels_from_in in Hl; try lia. destruct Hl as [j [_ Hj]]. eapply Inv_keys; eauto. }
  destruct Hbuild as [p Hp]. rewrite Hp. cbn [bind].
  apply set_pgm_total. unfold has_pgm in Eh.
  assert (Hmil3 : d_min_index_level d3 = d_min_index_level g).
  { destruct Hc1 as [_ [_ [E1 _]]]. destruct Hc2 as [_ [_ [E2 _]]]. destruct Hc3 as [_ [_ [E3 _]]]. congruence. }
  rewrite Hmil3, Hp3, Hp2. lia.
Qed.

Theorem insert_item_total : forall d x, Inv d -> size_ok d -> sizes_ok d -> it_key x < kmax ->
  exists d', insert ops d x = Ok d'.
Proof.
  intros d x HI Hsz Hszs Hk.
  pose proof (wf_levels_order ops d (iv_wf _ _ d HI)) as [H0 H0'].
  pose proof (wf_levels_len ops d (iv_wf _ _ d HI)) as [Hl1 Hl2].
  pose proof (iv_buf _ _ d HI) as Hbuf. pose proof (iv_used _ _ d HI) as Hu.
  unfold insert.
  destruct (level_total d (d_min_level d) ltac:(lia)) as [buf Hb]. rewrite Hb. cbn [bind].
  pose proof (Inv_sorted ops kmax d _ buf HI Hb) as Hs.
  pose proof (lbk_range buf (it_key x)) as Hr.
  pose proof (sizes_ok_levels ops kmax d _ buf HI Hszs Hb) as Hz.
  destruct (lower_bound_bl_total buf 0 (zlen buf) (it_key x) ltac:(lia) ltac:(lia) Hz) as [ip Hip].
  rewrite Hip. cbn [bind].
  apply lower_bound_bl_correct in Hip; auto; try lia. subst ip.
  pose proof (lbk_nth buf (it_key x) Hs) as Hlk.
  assert (Hhit : exists h, (if lbk buf (it_key x) <? zlen buf
                 then do k <- key_at buf (lbk buf (it_key x)); Ok (k =? it_key x) else Ok false) = Ok h /\
                 (h = false -> level_lookup buf (it_key x) = None)).
  { destruct (lbk buf (it_key x) <? zlen buf) eqn:Elt.
    - destruct (nth_res_total _ buf (lbk buf (it_key x)) ltac:(lia)) as [e He].
      unfold key_at. rewrite He. cbn [bind]. eexists. split; [reflexivity|].
      intros Hf. apply nth_res_ok in He. destruct He as [_ He]. rewrite He in Hlk. rewrite Hf in Hlk. auto.
    - exists false. split; auto. intros _.
      assert (Hn : nth_error buf (Z.to_nat (lbk buf (it_key x))) = None).
      { apply nth_error_None. unfold zlen in *. lia. }
      rewrite Hn in Hlk. auto. }
  destruct Hhit as [h [Hh Hnone]]. rewrite Hh. cbn [bind].
  destruct h.
  - apply set_level_total. lia.
  - specialize (Hnone eq_refl).
    destruct (zlen buf <? d_buffer_max d) eqn:Ez.
    + destruct (set_level_total d (d_min_level d) (insert_at buf (Z.to_nat (lbk buf (it_key x))) x) ltac:(lia)) as [d1 H1].
      rewrite H1. cbn [bind]. eauto.
    + assert (Hmu : d_min_level d < d_used d).
      { destruct (Z_lt_dec (d_min_level d) (d_used d)); auto.
        assert (buf = []). { eapply lp_unused; [apply HI| |eauto]. lia. }
        subst buf. pose proof (buffer_max_pos ops kmax d HI). cbn in Ez. lia. }
      destruct (find_target_total 300 d (d_min_level d + 1) (d_buffer_max d + 1)) as [[i sr] Hf]; try lia.
      rewrite Hf. cbn [bind].
      assert (Hfull : d_buffer_max d <= zlen buf) by lia.
      destruct (merge_case_facts ops kmax d buf i sr HI Hb Hfull Hf) as [_ [Hi _]].
      fold (grow ops d i).
      destruct (Z_lt_dec i (d_used d)) as [Hlt|Hge].
      * assert (Eg : grow ops d i = d). { unfold grow. destruct (i =? d_used d) eqn:E; [lia|auto]. }
        rewrite Eg. apply pairwise_merge_total; auto. lia.
      * assert (i = d_used d) by lia. subst i.
        pose proof (Inv_grow ops kmax d HI Hsz) as HG.
        destruct (grow_spec ops d Hsz ltac:(lia)) as [Hcg [Hu' [HL [Hlv _]]]].
        set (g := grow ops d (d_used d)) in *. clearbody g.
        destruct Hcg as [_ [Hc2 _]].
        assert (Hgb : level g (d_min_level g) = Ok buf).
        { rewrite Hc2, Hlv. destruct (d_min_level d - d_min_level d =? zlen (d_levels d)) eqn:E; [lia|auto]. }
        apply pairwise_merge_total; auto. lia.
Qed.

Theorem insert_total : forall d k v, Inv d -> size_ok d -> sizes_ok d -> k < kmax ->
  d_tomb d <> Some v ->
  exists d', insert_or_assign ops d k v = Ok d'.
Proof.
  intros d k v HI Hsz Hszs Hk Hv. unfold insert_or_assign.
  assert (E : match d_tomb d with Some t => v =? t | None => false end = false).
  { destruct (d_tomb d) as [t|]; auto. destruct (v =? t) eqn:E; auto.
    exfalso. apply Hv. f_equal. lia. }
  rewrite E. apply insert_item_total; auto.
Qed.

Theorem erase_total : forall d k, Inv d -> size_ok d -> sizes_ok d -> k < kmax ->
  exists d', erase ops d k = Ok d'.
Proof. intros d k HI Hsz Hszs Hk. unfold erase. apply insert_item_total; auto. Qed.

End TotalSec.

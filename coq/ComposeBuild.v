(* ComposeBuild.v — totality of PGMIndex::build on its precondition: no exception is possible.
   logic_error (points not increasing) is excluded by following the last abscissa handed to the
   builder; overflow_error by the band of the first point of every segment; out-of-fuel by IdxFuel.v;
   invalid_argument by Reject.v. *)
Require Import Base Fp PlaModel PlaSpec PlaCert Greedy PlaComplete PlaSoundGeom PlaSoundInv PlaSound GenLeaf IndexModel IndexProofs IdxFed IdxSeg IdxBlock IdxLevel
  IdxSearch0 IdxChain IdxFuel Reject ComposeIdx.
From Coq Require Import ZifyBool.
Local Open Scope Z_scope.

(* ---------- feed ---------- *)
Definition lastx (st : segst) : Z := p_last_x (s_opt st).
Definition started (st : segst) : Prop := p_n (s_opt st) > 0.

Lemma add_point_ok yt s x y : (p_n s = 0 \/ p_last_x s < x) -> 0 <= p_n s ->
  exists ok s', add_point yt s x y = Ok (ok, s') /\ p_last_x s' = x /\
    (ok = true -> p_n s' > 0) /\ (ok = false -> p_n s' = 0) /\ p_eps s' = p_eps s.
Proof.
  intros H Hn. unfold add_point.
  replace ((p_n s >? 0) && (x <=? p_last_x s)) with false by lia.
  destruct (band yt (p_eps s) y) as [yu yl].
  destruct (p_n s =? 0) eqn:E0; [eexists _, _; split; [reflexivity|]; cbn; repeat split; try lia; discriminate|].
  destruct (p_n s =? 1) eqn:E1; [eexists _, _; split; [reflexivity|]; cbn; repeat split; try lia; discriminate|].
  destruct (slt _ _ || sgt _ _); [eexists _, _; split; [reflexivity|]; cbn; repeat split; try lia; discriminate|].
  destruct (if slt (psub (x, yu) (p_r1 s)) (psub (p_r3 s) (p_r1 s)) then _ else _) as [[[a b] c0] d0].
  destruct (if sgt (psub (x, yl) (p_r0 s)) (psub (p_r2 s) (p_r0 s)) then _ else _) as [[[a' b'] c'] d'].
  eexists _, _; split; [reflexivity|]; cbn; repeat split; try lia; discriminate.
Qed.

Lemma feed_ok st x y : (p_n (s_opt st) = 0 \/ lastx st < x) -> 0 <= p_n (s_opt st) ->
  exists st', feed y_size_t st x y = Ok st' /\ lastx st' = x /\ started st' /\
    p_eps (s_opt st') = p_eps (s_opt st).
Proof.
  intros H Hn. unfold feed. destruct (add_point_ok y_size_t (s_opt st) x y H Hn) as (ok & s1 & E1 & L1 & T1 & F1 & P1).
  rewrite E1. cbn [bind]. destruct ok.
  - eexists. split; [reflexivity|]. unfold lastx, started. cbn [s_opt]. specialize (T1 eq_refl). repeat split; assumption.
  - specialize (F1 eq_refl).
    destruct (add_point_ok y_size_t s1 x y ltac:(left; exact F1) ltac:(lia)) as (ok2 & s2 & E2 & L2 & T2 & F2 & P2).
    rewrite E2. cbn [bind snd]. eexists. split; [reflexivity|]. unfold lastx, started. cbn [s_opt].
    split; [exact L2|]. split; [|congruence].
    unfold add_point in E2. replace ((p_n s1 >? 0) && (x <=? p_last_x s1)) with false in E2 by lia.
    destruct (band y_size_t (p_eps s1) y) as [yu yl]. replace (p_n s1 =? 0) with true in E2 by lia.
    injection E2 as _ <-. cbn. lia.
Qed.

(* ---------- seg_walk ---------- *)
(* the builder has started and its last abscissa is at most prev, or below everything still to come *)
Definition Jw (st : segst) (prev : Z) (l : list Z) : Prop :=
  started st /\ (lastx st <= prev \/ forall x, In x l -> lastx st < x).

Lemma seg_walk_ok kt : forall l prev i st,
  l <> [] -> sortedb (prev :: l) = true -> nowrap kt l -> Jw st prev l ->
  exists st' pre b a, seg_walk kt prev l i st = Ok st' /\ prev :: l = pre ++ [b; a] /\ Jw st' b [a] /\
    p_eps (s_opt st') = p_eps (s_opt st).
Proof.
  induction l as [|xi tl IH]; intros prev i st Hne Hs Hw HJ; [contradiction|].
  destruct tl as [|xn tl'].
  - exists st, [], prev, xi. cbn [seg_walk app]. repeat split; try reflexivity; apply HJ.
  - cbn [seg_walk]. destruct HJ as [Hst HJ].
    assert (Hpx : prev <= xi) by (apply (sortedb_head_le prev _ xi Hs); left; reflexivity).
    pose proof (sortedb_tail _ _ Hs) as Hs1.
    assert (Hxn : xi <= xn) by (apply (sortedb_head_le xi _ xn Hs1); left; reflexivity).
    assert (Hwx : wrapK kt (xi + 1) = xi + 1) by (apply Hw; left; reflexivity).
    assert (Hw1 : nowrap kt (xn :: tl')) by (intros x Hx; apply Hw; right; exact Hx).
    assert (Hstep : exists st1, (if xi =? prev then if xi + 1 <? xn then feed y_size_t st (wrapK kt (xi + 1)) i else Ok st
                                 else feed y_size_t st xi i) = Ok st1 /\ Jw st1 xi (xn :: tl') /\
                                 p_eps (s_opt st1) = p_eps (s_opt st)).
    { destruct (xi =? prev) eqn:E1.
      - destruct (xi + 1 <? xn) eqn:E2.
        + rewrite Hwx. destruct (feed_ok st (xi + 1) i) as (st1 & F & L & S1 & P1).
          * right. destruct HJ as [HJ|HJ]; [lia|]. specialize (HJ xi (or_introl eq_refl)). lia.
          * unfold started in Hst. lia.
          * exists st1. split; [exact F|]. split; [|exact P1]. split; [exact S1|]. right. intros x Hx. rewrite L.
            destruct Hx as [<-|Hx]; [lia|]. pose proof (sortedb_head_le xn _ x (sortedb_tail _ _ Hs1) Hx). lia.
        + exists st. split; [reflexivity|]. split; [|reflexivity]. split; [exact Hst|].
          destruct HJ as [HJ|HJ]; [left; lia|right]. intros x Hx. apply HJ. right. exact Hx.
      - destruct (feed_ok st xi i) as (st1 & F & L & S1 & P1).
        + right. destruct HJ as [HJ|HJ]; [lia|]. apply HJ. left. reflexivity.
        + unfold started in Hst. lia.
        + exists st1. split; [exact F|]. split; [|exact P1]. split; [exact S1|]. left. lia. }
    destruct Hstep as (st1 & E & HJ1 & P1). rewrite E. cbn [bind].
    destruct (IH xi (i + 1) st1 ltac:(discriminate) Hs1 Hw1 HJ1) as (st' & pre & b & a & Ew & Ep & HJ' & P').
    exists st', (prev :: pre), b, a. split; [exact Ew|]. split; [cbn [app]; rewrite <- Ep; reflexivity|].
    split; [exact HJ'|congruence].
Qed.

(* ---------- one chunk ---------- *)
Lemma nth_res_ex {A} (l : list A) i : 0 <= i < zlen l -> exists a, nth_res l i = Ok a.
Proof.
  intros Hi. unfold nth_res. replace (i <? 0) with false by lia.
  destruct (nth_error l (Z.to_nat i)) eqn:E; [eexists; reflexivity|].
  apply nth_error_None in E. unfold zlen in Hi. lia.
Qed.

Lemma run_len_range x l : 0 <= run_len x l <= zlen l.
Proof.
  induction l as [|a t IH]; cbn [run_len]; [unfold zlen; cbn; lia|]. rewrite zlen_cons.
  pose proof (zlen_ge0 t). destruct (a =? x); lia.
Qed.

Lemma sortedb_app_r l1 : forall l2, sortedb (l1 ++ l2) = true -> sortedb l2 = true.
Proof. induction l1 as [|x t IH]; intros l2 H; [exact H|]. apply IH. exact (sortedb_tail _ _ H). Qed.

Definition Q3 (st : segst) (xl : Z) : Prop := started st /\ lastx st <= xl.

Lemma chunk_st3_ok kt x0 tl start st1 :
  sortedb (x0 :: tl) = true -> nowrap kt (x0 :: tl) -> started st1 -> lastx st1 = x0 ->
  exists st2 st3, seg_walk kt x0 tl (start + 1) st1 = Ok st2 /\
    (match rev (x0 :: tl) with
     | a :: b :: _ => if negb (a =? b) then feed y_size_t st2 a (start + zlen (x0 :: tl) - 1) else Ok st2
     | _ => Ok st2
     end) = Ok st3 /\ Q3 st3 (last (x0 :: tl) 0).
Proof.
  intros Hs Hw Hst Hl. destruct tl as [|x1 tl'].
  - exists st1, st1. cbn. repeat split; try assumption. unfold lastx in *. lia.
  - destruct (seg_walk_ok kt (x1 :: tl') x0 (start + 1) st1 ltac:(discriminate) Hs
                ltac:(intros x Hx; apply Hw; right; exact Hx) ltac:(split; [exact Hst|left; lia]))
      as (st2 & pre & b & a & Ew & Ep & [Hst2 HJ] & _).
    exists st2. rewrite Ew, Ep. rewrite rev_app_distr. cbn [rev app].
    assert (Hba : b <= a).
    { rewrite Ep in Hs. apply sortedb_app_r in Hs. apply (sortedb_head_le b [a] a Hs). left. reflexivity. }
    assert (Hlast : last (pre ++ [b; a]) 0 = a).
    { replace (pre ++ [b; a]) with ((pre ++ [b]) ++ [a]) by (rewrite <- app_assoc; reflexivity). apply last_last. }
    rewrite Hlast. destruct (a =? b) eqn:E; cbn [negb].
    + exists st2. repeat split; try assumption. destruct HJ as [HJ|HJ]; [lia|]. specialize (HJ a (or_introl eq_refl)). lia.
    + destruct (feed_ok st2 a (start + zlen (pre ++ [b; a]) - 1)) as (st3 & F & L & S3 & _).
      * right. destruct HJ as [HJ|HJ]; [lia|]. apply HJ. left. reflexivity.
      * unfold started in Hst2. lia.
      * exists st3. repeat split; try assumption. lia.
Qed.

Lemma last_In0 (l : list Z) : l <> [] -> In (last l 0) l.
Proof.
  intros Hne. destruct (exists_last Hne) as (l' & a & ->). rewrite last_last.
  apply in_or_app. right. left. reflexivity.
Qed.

Theorem chunk_total kt n start eps chunk rest :
  0 <= eps -> chunk <> [] -> sortedb chunk = true -> nowrap kt chunk ->
  n = start + zlen chunk + zlen rest ->
  exists r, make_segmentation_chunk kt n start eps chunk rest = Ok r.
Proof.
  intros Heps Hne Hs Hw Hn. unfold make_segmentation_chunk, pla_init.
  replace (eps <? 0) with false by lia. cbn [bind].
  destruct chunk as [|x0 tl]; [contradiction|].
  destruct (feed_ok (mkSegst (mkPla eps [] [] 0 0 0 (0,0) (0,0) (0,0) (0,0)) [] [] 0) x0 start
              ltac:(left; reflexivity) ltac:(cbn; lia)) as (st1 & F1 & L1 & S1 & _).
  rewrite F1. cbn [bind].
  destruct (chunk_st3_ok kt x0 tl start st1 Hs Hw S1 L1) as (st2 & st3 & E2 & E3 & [S3 L3]).
  rewrite E2. cbn [bind]. rewrite E3. cbn [bind].
  set (chunk := x0 :: tl) in *. set (xl := last chunk 0) in *.
  set (k := run_len xl rest). set (end_ := start + zlen chunk). set (run_end := end_ - 1 + k).
  pose proof (run_len_range xl rest) as Hk. fold k in Hk.
  assert (Hwl : wrapK kt (xl + 1) = xl + 1) by (apply Hw; apply last_In0; discriminate).
  assert (Hfeed : forall st y, started st -> lastx st <= xl -> exists st', feed y_size_t st (wrapK kt (xl + 1)) y = Ok st' /\ started st').
  { intros st y Hst Hl. rewrite Hwl. destruct (feed_ok st (xl + 1) y) as (st' & F & _ & S' & _);
      [right; lia | unfold started in Hst; lia | exists st'; split; assumption]. }
  match goal with |- context [bind ?e _] => assert (H4 : exists st4, e = Ok st4 /\ started st4 /\ (lastx st4 <= xl \/ run_end + 1 < n)) end.
  { destruct ((end_ <? n) && (run_end + 1 <? n) && (run_end >? start)) eqn:Ec; [|exists st3; repeat split; auto].
    assert (Hp : exists prev, (if k >? 0 then Ok xl else nth_res chunk (zlen chunk - 2)) = Ok prev).
    { destruct (k >? 0) eqn:Ek; [eexists; reflexivity|]. apply nth_res_ex. unfold run_end, end_ in Ec. lia. }
    destruct Hp as (prev & Ep). rewrite Ep. cbn [bind].
    destruct (xl =? prev); [|exists st3; repeat split; auto].
    destruct (nth_res_ex rest k ltac:(unfold run_end, end_ in Ec; lia)) as (nx & Enx). rewrite Enx. cbn [bind].
    destruct (xl + 1 <? nx); [|exists st3; repeat split; auto].
    destruct (Hfeed st3 run_end S3 L3) as (st4 & F4 & S4). exists st4. repeat split; auto. right. lia. }
  destruct H4 as (st4 & E4 & S4 & L4). rewrite E4. cbn [bind].
  destruct (run_end + 1 =? n) eqn:E5.
  - destruct (Hfeed st4 n S4 ltac:(lia)) as (st5 & F5 & _). rewrite F5. cbn [bind]. eexists. reflexivity.
  - cbn [bind]. eexists. reflexivity.
Qed.

(* ---------- slices ---------- *)
Lemma skipn_add {A} : forall (n m : nat) (l : list A), skipn (n + m) l = skipn m (skipn n l).
Proof.
  induction n as [|n IH]; intros m l; [reflexivity|]. destruct l as [|a t]; [cbn; destruct m; reflexivity|].
  cbn [Nat.add skipn]. apply IH.
Qed.

Lemma slice_split {A} (l : list A) lo hi : 0 <= lo <= hi -> hi <= zlen l ->
  exists a b c, l = a ++ b ++ c /\ zlen a = lo /\ slice l lo hi = b /\ zlen b = hi - lo /\
    skipn (Z.to_nat hi) l = c /\ zlen c = zlen l - hi.
Proof.
  intros H1 H2. unfold slice.
  exists (firstn (Z.to_nat lo) l), (firstn (Z.to_nat (hi - lo)) (skipn (Z.to_nat lo) l)),
         (skipn (Z.to_nat (hi - lo)) (skipn (Z.to_nat lo) l)).
  unfold zlen in *. split; [rewrite !firstn_skipn; reflexivity|].
  split; [rewrite firstn_length; lia|]. split; [reflexivity|].
  split; [rewrite firstn_length, skipn_length; lia|].
  split; [rewrite <- skipn_add; f_equal; lia|]. rewrite !skipn_length. lia.
Qed.

Lemma sortedb_app_l l1 : forall l2, sortedb (l1 ++ l2) = true -> sortedb l1 = true.
Proof.
  induction l1 as [|x t IH]; intros l2 H; [reflexivity|]. cbn [app] in H.
  apply sortedb_cons_intro; [|apply (IH l2); exact (sortedb_tail _ _ H)].
  intros y Hy. apply (sortedb_head_le x _ y H). apply in_or_app. left. exact Hy.
Qed.

Lemma skip_run_suffix : forall l prev first,
  exists pre, l = pre ++ fst (skip_run prev l first) /\ snd (skip_run prev l first) = first + zlen pre.
Proof.
  induction l as [|a tl IH]; intros prev first.
  - exists []. cbn. split; [reflexivity|lia].
  - cbn [skip_run]. destruct (negb (a =? prev)).
    + exists []. cbn [fst snd app]. split; [reflexivity|]. rewrite zlen_nil. lia.
    + destruct (IH a (first + 1)) as (pre & E1 & E2). exists (a :: pre). cbn [app]. split; [f_equal; exact E1|].
      rewrite E2, zlen_cons. lia.
Qed.

(* ---------- the parallel driver ---------- *)
Lemma nowrap_sub kt (l l' : list Z) : (forall x, In x l' -> In x l) -> nowrap kt l -> nowrap kt l'.
Proof. intros H Hw x Hx. apply Hw. apply H. exact Hx. Qed.

Lemma here_total kt n eps data first0 last_ :
  0 <= eps -> sortedb data = true -> nowrap kt data -> n = zlen data ->
  0 <= first0 -> first0 <= last_ -> last_ <= n -> (first0 = 0 -> 0 < last_) ->
  exists r,
    (if first0 >? 0 then
       do prev <- nth_res data (first0 - 1);
       let '(chunk, first) := skip_run prev (slice data first0 last_) first0 in
       if first =? last_ then Ok ([], [], 0)
       else make_segmentation_chunk kt n first eps chunk (skipn (Z.to_nat last_) data)
     else make_segmentation_chunk kt n first0 eps (slice data first0 last_) (skipn (Z.to_nat last_) data)) = Ok r.
Proof.
  intros Heps Hs Hw Hn H0 H1 H2 H3.
  destruct (slice_split data first0 last_ ltac:(lia) ltac:(lia)) as (a & b & c & Ed & Za & Eb & Zb & Ec & Zc).
  rewrite Eb, Ec.
  assert (Hsb : sortedb b = true) by (rewrite Ed in Hs; apply sortedb_app_r in Hs; apply sortedb_app_l in Hs; exact Hs).
  assert (Hinb : forall x, In x b -> In x data) by (intros x Hx; rewrite Ed; apply in_or_app; right; apply in_or_app; left; exact Hx).
  destruct (first0 >? 0) eqn:E0.
  - destruct (nth_res_ex data (first0 - 1) ltac:(lia)) as (prev & Ep). rewrite Ep. cbn [bind].
    destruct (skip_run_suffix b prev first0) as (pre & E1 & E2).
    destruct (skip_run prev b first0) as [chunk first]. cbn [fst snd] in E1, E2.
    assert (Zp : zlen b = zlen pre + zlen chunk) by (rewrite E1 at 1; apply zlen_app).
    destruct (first =? last_) eqn:Ef; [eexists; reflexivity|].
    apply chunk_total; try assumption.
    + intros ->. rewrite zlen_nil in Zp. lia.
    + rewrite E1 in Hsb. exact (sortedb_app_r _ _ Hsb).
    + apply (nowrap_sub kt data); [|exact Hw]. intros x Hx. apply Hinb. rewrite E1. apply in_or_app. right. exact Hx.
    + lia.
  - apply chunk_total; try assumption.
    + intros ->. rewrite zlen_nil in Zb. lia.
    + apply (nowrap_sub kt data); assumption.
    + lia.
Qed.

Lemma par_chunks_total kt n eps cs par data :
  0 <= eps -> sortedb data = true -> nowrap kt data -> n = zlen data ->
  1 <= cs -> 1 <= par -> cs * par <= n ->
  forall is_, Forall (fun i => 0 <= i < par) is_ ->
  exists r, par_chunks kt n eps cs par data is_ = Ok r.
Proof.
  intros Heps Hs Hw Hn Hcs Hpar Hle. induction is_ as [|i rest IH]; intros Hi; [eexists; reflexivity|].
  inversion Hi as [|i' r' Hi0 Hrest]; subst i' r'. cbn [par_chunks].
  set (first0 := i * cs). set (last_ := if i =? par - 1 then n else first0 + cs).
  assert (H0 : 0 <= first0) by (unfold first0; nia).
  assert (H1 : first0 < last_ /\ last_ <= n).
  { unfold last_, first0. destruct (i =? par - 1) eqn:E; [|nia]. assert (i = par - 1) by lia. subst i. nia. }
  destruct (here_total kt n eps data first0 last_ Heps Hs Hw Hn H0 ltac:(lia) ltac:(lia) ltac:(lia)) as (here & Eh).
  rewrite Eh. cbn [bind]. destruct (IH Hrest) as (tl & Et). rewrite Et. cbn [bind].
  destruct here as [[s1 f1] c1]. destruct tl as [[s2 f2] c2]. eexists. reflexivity.
Qed.

Lemma Forall_zseq_range : forall len s, Forall (fun i => s <= i < s + Z.of_nat len) (zseq s len).
Proof.
  induction len as [|m IH]; intros s; [constructor|]. cbn [zseq]. constructor; [lia|].
  eapply Forall_impl; [|apply (IH (s + 1))]. cbn beta. intros a Ha. lia.
Qed.

Theorem mseg_par_total kt par eps data :
  0 <= eps -> data <> [] -> sortedb data = true -> nowrap kt data -> 1 <= par <= 20 ->
  exists r, make_segmentation_par kt par_threshold par (zlen data) eps data = Ok r.
Proof.
  intros Heps Hne Hs Hw Hpar. unfold make_segmentation_par.
  destruct ((par =? 1) || (zlen data <? par_threshold)) eqn:E.
  - unfold make_segmentation. apply chunk_total; try assumption. unfold zlen; cbn [length]; lia.
  - change par_threshold with 32768 in E.
    assert (Hq : Z.quot (zlen data) par = zlen data / par) by (apply Z.quot_div_nonneg; lia).
    rewrite Hq.
    assert (Hc1 : 1 <= zlen data / par) by (apply Z.div_le_lower_bound; lia).
    assert (Hc2 : zlen data / par * par <= zlen data) by (rewrite Z.mul_comm; apply Z.mul_div_le; lia).
    apply (par_chunks_total kt (zlen data) eps (zlen data / par) par data Heps Hs Hw eq_refl Hc1 ltac:(lia) Hc2).
    eapply Forall_impl; [|apply Forall_zseq_range]. cbn beta. intros a Ha. lia.
Qed.

(* ---------- the intercept of every segment lies in the band of the first point of its block ---------- *)
Definition icpt_in_band (eps : Z) (c : cseg) (b : list (Z * Z)) : Prop :=
  let y0 := snd (hd (0, 0) b) in
  band_lo eps y0 <= snd (cseg_line c (c_first c)) <= band_hi eps y0.

Lemma round_div_between n d A B : 0 < d -> A * d <= n <= B * d -> A <= round_div n d <= B.
Proof. intros Hd H. pose proof (round_div_half' n d Hd) as Hr. nia. Qed.

Lemma icpt_of_inv eps cur s :
  0 <= eps -> cur <> [] -> PlaComplete.rect_inv eps cur s -> PlaSoundInv.sinv eps cur s ->
  icpt_in_band eps (get_segment s) cur.
Proof.
  intros Heps Hne Hrect Hs. pose proof (sinv_seg_rel eps cur s Heps Hne Hrect Hs) as (Hf & _ & Hmax & _).
  destruct Hrect as (He & Hn & I1 & I2 & _). destruct Hs as (S1 & _ & S3).
  assert (Hlen : 1 <= zlen cur) by (destruct cur; [contradiction|]; rewrite zlen_cons; pose proof (zlen_ge0 cur); lia).
  unfold icpt_in_band. unfold get_segment in *. destruct (p_n s =? 1) eqn:E.
  - destruct (S1 ltac:(lia)) as (x0 & y0 & Ec & _ & _ & E0 & E1 & Hb). rewrite Ec. cbn [hd snd].
    unfold cseg_line, one_point. cbn [c_r0 c_r1 c_r2 c_r3 c_first]. rewrite !pt_eqb_refl. cbn [andb snd].
    rewrite E0, E1. cbn [snd]. apply quot2_between. exact Hb.
  - assert (H2 : 2 <= p_n s) by lia. destruct (I2 H2) as (_ & _ & _ & H13).
    unfold max_line_feasible, one_point in Hmax. cbn [c_r0 c_r1 c_r2 c_r3 c_first] in *.
    rewrite (pt_eqb_x_neq _ _ H13), andb_false_r in Hmax. destruct Hmax as [Hdx Hall].
    unfold cseg_line, one_point. cbn [c_r0 c_r1 c_r2 c_r3 c_first].
    rewrite (pt_eqb_x_neq _ _ H13), andb_false_r. cbn [snd].
    destruct cur as [|[x0 y0] tl]; [contradiction|]. cbn [hd snd fst] in *.
    inversion Hall as [|p l Hp _]; subst p l. unfold line_in_band in Hp. rewrite Hf.
    set (dx := fst (psub (p_r3 s) (p_r1 s))) in *. set (dy := snd (psub (p_r3 s) (p_r1 s))) in *.
    pose proof (round_div_between (dy * (x0 - fst (p_r1 s))) dx (band_lo eps y0 - snd (p_r1 s)) (band_hi eps y0 - snd (p_r1 s)) Hdx ltac:(lia)).
    lia.
Qed.

Definition seg_rel3 (eps : Z) (c : cseg) (b : list (Z * Z)) : Prop := seg_rel2 eps c b /\ icpt_in_band eps c b.

Section Premises3.
  Variable eps : Z.
  Hypothesis Heps : 0 <= eps.
  Lemma P_R3 : forall cur s,
    cur <> [] -> PlaComplete.rect_inv eps cur s -> PlaSoundInv.sinv eps cur s -> seg_rel3 eps (get_segment s) cur.
  Proof. intros cur s H1 H2 H3. split; [apply (P_R2 eps Heps); assumption | apply icpt_of_inv; assumption]. Qed.
  Lemma P_R3_reject : forall cur s x y s',
    cur <> [] -> PlaComplete.rect_inv eps cur s -> PlaSoundInv.sinv eps cur s ->
    add_point y_size_t s x y = Ok (false, s') -> seg_rel3 eps (get_segment s') cur.
  Proof.
    intros cur s x y s' Hne Hr Hs H. rewrite (reject_same_segment s x y s' H). apply P_R3; assumption.
  Qed.
End Premises3.

Theorem mseg_par_blocks3 kt threshold par n eps data segs fed count :
  make_segmentation_par kt threshold par n eps data = Ok (segs, fed, count) ->
  1 <= par -> zlen data <= n -> n + eps < 2 ^ 64 - 1 ->
  exists g, concat g = fed /\ Forall (fun b => b <> []) g /\ Forall2 (seg_rel3 eps) segs g.
Proof.
  intros H Hpar Hd Hn. unfold make_segmentation_par in H.
  destruct ((par =? 1) || (n <? threshold)) eqn:Eseq.
  - unfold make_segmentation in H.
    pose proof (eps_nonneg_of_chunk _ _ _ _ _ _ _ H) as Heps.
    destruct (PlaComplete.make_segmentation_chunk_greedy eps (feasible eps) (seg_rel3 eps) (PlaSoundInv.sinv eps)
                (P_first eps Heps) (P_step eps Heps) (P_ok eps) (P_R3 eps Heps) (P_R3_reject eps Heps)
                kt n 0 data [] segs fed count H ltac:(lia) ltac:(lia) Hn) as (g & G1 & G2 & _ & G4 & G5).
    exists g. split; [exact G1|]. split; [|exact G5].
    eapply Forall_impl; [|exact G2]. cbn beta. intros b [Hb _]. exact Hb.
  - assert (Hz : zseq 0 (Z.to_nat par) = 0 :: zseq (0 + 1) (Z.to_nat par - 1)).
    { destruct (Z.to_nat par) as [|k] eqn:Ek; [lia|]. cbn [zseq]. f_equal. f_equal. lia. }
    assert (Heps : 0 <= eps).
    { rewrite Hz in H. exact (par_chunks_eps_nonneg _ _ _ _ _ _ _ _ H). }
    pose proof (zlen_ge0 data) as Hd0.
    assert (Hn0 : 0 <= n) by lia.
    assert (Hcs : 0 <= Z.quot n par) by (apply Z.quot_pos; lia).
    assert (Hmul : par * Z.quot n par <= n) by (apply Z.mul_quot_le; lia).
    destruct (PlaComplete.par_chunks_greedy eps (feasible eps) (seg_rel3 eps) (PlaSoundInv.sinv eps)
                (P_first eps Heps) (P_step eps Heps) (P_ok eps) (P_R3 eps Heps) (P_R3_reject eps Heps)
                kt n (Z.quot n par) par data (zseq 0 (Z.to_nat par)) segs fed count H Hcs Hn)
      as (chunks & gs & C1 & C2 & C3 & C4 & C5).
    { eapply Forall_impl; [|exact (PlaComplete.zseq_range (Z.to_nat par) 0)].
      intros i Hi. cbn beta in Hi. split; [lia|].
      assert ((i + 1) * Z.quot n par <= par * Z.quot n par).
      { apply Z.mul_le_mono_nonneg_r; lia. }
      lia. }
    destruct (chunk_shape_concat eps chunks gs C2) as [D1 D2].
    exists (concat gs). split; [rewrite D1; exact C1|]. split; [|exact C5].
    eapply Forall_impl; [|exact D2]. cbn beta. intros b [Hb _]. exact Hb.
Qed.

(* ---------- Segment(const CanonicalSegment&) never throws overflow_error ---------- *)
Lemma segment_of_cseg_ok c cs : 0 <= snd (cseg_line cs (c_first cs)) <= 2 ^ 32 - 1 ->
  exists s, segment_of_cseg c cs = Ok s.
Proof.
  unfold segment_of_cseg. destruct (cseg_line cs (c_first cs)) as [sl icpt]. cbn [snd]. intros H.
  replace (icpt >? 2 ^ 32 - 1) with false by lia. replace (icpt <? 0) with false by lia. eexists. reflexivity.
Qed.

Lemma map_res_total c : forall segs, Forall (fun cs => 0 <= snd (cseg_line cs (c_first cs)) <= 2 ^ 32 - 1) segs ->
  exists new, map_res (segment_of_cseg c) segs = Ok new.
Proof.
  induction segs as [|cs t IH]; intros H; [eexists; reflexivity|].
  inversion H as [|x l H1 H2]; subst. cbn [map_res].
  destruct (segment_of_cseg_ok c cs H1) as (s & Es). rewrite Es. cbn [bind].
  destruct (IH H2) as (new & En). rewrite En. cbn [bind]. eexists. reflexivity.
Qed.

Lemma band_lo_nonneg eps y : 0 <= eps -> 0 <= y -> 0 <= band_lo eps y.
Proof.
  intros He Hy. unfold band_lo, band, y_size_t. cbn [snd ymin]. destruct (y <=? 0 + eps) eqn:E; lia.
Qed.

Lemma icpt_range_of_blocks eps n segs g :
  0 <= eps -> Forall (fun b => b <> []) g -> Forall (fun p => 0 <= snd p <= n) (concat g) ->
  Forall2 (seg_rel3 eps) segs g ->
  Forall (fun cs => 0 <= snd (cseg_line cs (c_first cs)) <= n + eps) segs.
Proof.
  intros Heps Hne Hr HR. induction HR as [|cs b segs' g' [_ Hi] _ IH]; [constructor|].
  inversion Hne as [|b0 g0 Hb Hne']; subst. cbn [concat] in Hr. apply Forall_app in Hr. destruct Hr as [Rb Rg].
  constructor; [|apply IH; assumption].
  destruct b as [|[x0 y0] tl]; [contradiction|]. inversion Rb as [|p l Hp _]; subst. cbn [snd] in Hp.
  unfold icpt_in_band in Hi. cbn [hd snd] in Hi.
  pose proof (band_lo_nonneg eps y0 Heps ltac:(lia)). pose proof (band_hi_le eps y0). lia.
Qed.

(* ---------- build_level ---------- *)
Theorem build_level_total c eps keys ldk segs :
  0 <= eps -> keys <> [] -> sortedb keys = true -> nowrap (c_kt c) keys -> 1 <= c_par c <= 20 ->
  zlen keys + eps <= 2 ^ 32 - 1 ->
  exists r, build_level c eps keys (zlen keys) ldk segs = Ok r.
Proof.
  intros Heps Hne Hs Hw Hpar Hn. unfold build_level.
  destruct (mseg_par_total (c_kt c) (c_par c) eps keys Heps Hne Hs Hw Hpar) as ([[css fed] cnt] & Em).
  rewrite Em. cbn [bind].
  destruct (mseg_par_blocks3 _ _ _ _ _ _ _ _ _ Em ltac:(lia) ltac:(lia) ltac:(lia)) as (g & G1 & G2 & G3).
  rewrite (make_segmentation_par_fed _ _ _ _ _ _ _ _ Em ltac:(lia)) in G1.
  assert (Hr : Forall (fun p => 0 <= snd p <= zlen keys) (concat g)).
  { rewrite G1. apply Forall_forall. intros p Hp.
    apply (spec_only (c_kt c) keys Hne Hs Hw) in Hp. apply fed_kind_rank in Hp. exact Hp. }
  pose proof (icpt_range_of_blocks eps (zlen keys) css g Heps G2 Hr G3) as Hi.
  destruct (map_res_total c css) as (new & En).
  { eapply Forall_impl; [|exact Hi]. cbn beta. intros cs Hc. lia. }
  rewrite En. cbn [bind].
  destruct (sg_key (last (segs ++ new) (mkSeg 0 f64_zero 0)) =? sentinel c); eexists; reflexivity.
Qed.

(* ---------- build_upper ---------- *)
Lemma build_upper_total c ldk :
  1 <= kbits (c_kt c) -> 1 <= c_par c <= 20 -> 0 <= c_epsrec c ->
  forall fuel rl r,
    chainR c ldk (sentinel c) (r :: rl) -> lr_ln r <= Z.of_nat fuel ->
    lr_ln r + c_epsrec c <= 2 ^ 32 - 1 ->
    exists res, build_upper c fuel ldk (below (r :: rl)) (offs_of (r :: rl)) (lr_ln r) = Ok res.
Proof.
  intros Hb Hpar He0. induction fuel as [|f IH]; intros rl r Hch Hln H32.
  - cbn [build_upper]. replace (lr_ln r <=? 1) with true by lia. rewrite orb_true_r. eexists. reflexivity.
  - cbn [build_upper]. destruct ((c_epsrec c =? 0) || (lr_ln r <=? 1)) eqn:Ec; [eexists; reflexivity|].
    assert (Eoff : nth (length (offs_of (r :: rl)) - 2) (offs_of (r :: rl)) 0 = zlen (below rl)).
    { rewrite offs_len. cbn [length]. replace (S (S (length rl)) - 2)%nat with (length rl) by lia.
      exact (offs_nth [r] rl). }
    rewrite Eoff.
    assert (Esk : skipn (Z.to_nat (zlen (below rl))) (below (r :: rl)) = lr_L r).
    { rewrite below_cons. apply skipn_zlen_app. }
    rewrite Esk.
    assert (Hok : lrec_ok c ldk (sentinel c) r) by (cbn [chainR] in Hch; tauto).
    destruct (next_keys c ldk (sentinel c) r Hb Hok) as (_ & _ & Hz & _ & Hss & Hko & _).
    apply orb_false_iff in Ec. destruct Ec as [Ec1 Ec2].
    assert (He1 : 1 <= c_epsrec c) by lia. assert (Hl2 : 2 <= lr_ln r) by lia.
    set (keys' := map sg_key (firstn (Z.to_nat (lr_ln r)) (lr_L r))) in *.
    assert (Hne' : keys' <> []) by (intros En; rewrite En in Hz; change (zlen (@nil Z)) with 0 in Hz; lia).
    pose proof (key_ok_nowrap _ _ Hb Hko) as Hw'.
    destruct (build_level_total c (c_epsrec c) keys' ldk (below (r :: rl)) He0 Hne' (ssortedb_sorted _ Hss) Hw' Hpar
                ltac:(lia)) as ([segs1 ln1] & E).
    rewrite Hz in E. rewrite E. cbn [bind].
    destruct (build_upper_step c ldk (sentinel c) r rl segs1 ln1 Hb ltac:(lia) He0 Hok ltac:(lia) ltac:(lia)
                (level_float_ok_cap_trivial _ _ _ _) E) as (r' & Hok' & Hlink & Es1 & Eln1).
    assert (Hshr : ln1 < lr_ln r).
    { rewrite <- Hz in E. rewrite <- Hz.
      apply (build_level_shrinks c _ ldk _ segs1 ln1 E); [exact He1 | exact Hpar | exact Hne' | exact Hss | exact Hw' | lia | lia]. }
    subst ln1. rewrite Es1.
    assert (Hch' : chainR c ldk (sentinel c) (r' :: r :: rl)) by (cbn [chainR]; cbn [chainR] in Hch; tauto).
    replace (offs_of (r :: rl) ++ [zlen (below (r' :: r :: rl))]) with (offs_of (r' :: r :: rl)) by reflexivity.
    apply (IH (r :: rl) r' Hch'); lia.
Qed.

(* ---------- build ---------- *)
Theorem build_total_gen c data :
  1 <= kbits (c_kt c) -> 1 <= c_par c <= 20 -> 0 <= c_eps c -> 0 <= c_epsrec c ->
  data <> [] -> sortedb data = true -> Forall (fun x => in_ktype (c_kt c) x = true) data ->
  last_z data < sentinel c ->
  zlen data + c_eps c <= 2 ^ 32 - 1 -> zlen data + 1 + c_epsrec c <= 2 ^ 32 - 1 ->
  exists ix, build c data = Ok ix.
Proof.
  intros Hb Hpar Heps He0 Hne Hs Hkt Hlast Hn32 Hr32. unfold build.
  assert (Hn : zlen data <> 0) by (destruct data; [contradiction|]; rewrite zlen_cons; pose proof (zlen_ge0 data); lia).
  replace (zlen data =? 0) with false by lia. replace (last_z data =? sentinel c) with false by lia.
  assert (Hko : Forall (key_ok (c_kt c)) data).
  { rewrite Forall_forall in *. intros x Hx. split; [apply Hkt; exact Hx|].
    pose proof (sorted_le_last data x 0 Hs Hx). unfold last_z, sentinel in *. lia. }
  pose proof (key_ok_nowrap _ _ Hb Hko) as Hw.
  destruct (build_level_total c (c_eps c) data (last_z data) [] Heps Hne Hs Hw Hpar Hn32) as ([segs ln] & E2).
  rewrite E2. cbn [bind].
  destruct (build_level_desc _ _ _ _ _ _ _ E2 ltac:(lia) Hne Hs Hw ltac:(lia))
    as (css & fed & cnt & g & new & T & M1 & M2 & Es & Hcat & F1 & F2 & He & Htail).
  cbn [app] in Es, Htail.
  destruct (level_float_ok_cap_trivial c (c_eps c) data (last_z data) css fed cnt new M1 M2) as [Fev _].
  pose proof (Lv_of_Forall2 c (c_eps c) (EvalOKc (zlen data + c_eps c) c (sentinel c)) css g new F1 F2 Fev) as HL.
  set (r0 := mkL data (c_eps c) css g new T ln).
  assert (Hok0 : lrec_ok c (last_z data) (sentinel c) r0).
  { unfold lrec_ok, r0. cbn [lr_keys lr_eps lr_css lr_g lr_new lr_T lr_ln]. do 6 (split; [assumption|]). exact Htail. }
  assert (Eb : below [r0] = segs).
  { unfold below. cbn [rev app map concat]. rewrite app_nil_r. unfold lr_L, r0. cbn [lr_new lr_T]. symmetry. exact Es. }
  assert (Eo : offs_of [r0] = [0; zlen segs]) by (cbn [offs_of app]; rewrite Eb; reflexivity).
  rewrite <- Eo. rewrite <- Eb. change ln with (lr_ln r0).
  assert (Hln : lr_ln r0 <= zlen data + 1).
  { destruct (Lv_keys _ _ _ _ _ _ HL) as [_ Hgne]. destruct (Lv_len _ _ _ _ _ _ HL) as [Lg _].
    pose proof (zlen_concat_ge g Hgne) as Hg. rewrite Hcat in Hg.
    rewrite (fed_spec_unfold (c_kt c) data Hne Hs Hw), zlen_app in Hg.
    pose proof (W_len (c_kt c) data (hd 0 data - 1) (last data 0) 0) as HWl. change (zlen [(last data 0 + 1, zlen data)]) with 1 in Hg.
    assert (Hln : ln <= zlen new) by (destruct Htail as [(_ & _ & ->)|(_ & -> & _)]; lia).
    cbn [lr_ln r0]. lia. }
  destruct (build_upper_total c (last_z data) Hb Hpar He0 (length data + 2) [] r0) as (res & E3).
  - cbn [chainR]. split; [exact Hok0 | reflexivity].
  - unfold zlen in *. lia.
  - lia.
  - rewrite E3. cbn [bind]. eexists. reflexivity.
Qed.



(* ---------- the total number of segments ---------- *)
Lemma level_len_le c ldk k r : lrec_ok c ldk k r -> zlen (lr_L r) <= lr_ln r + 2.
Proof.
  intros (_ & _ & _ & _ & _ & _ & Ht). unfold lr_L. rewrite zlen_app.
  destruct Ht as [(-> & _ & ->)|(_ & -> & X & -> & HX)].
  - rewrite zlen_nil. lia.
  - rewrite zlen_app. change (zlen [sent_seg c (zlen (lr_keys r))]) with 1.
    destruct HX as [->|[-> _]]; [rewrite zlen_nil; lia|]. change (zlen [extra_seg c ldk (zlen (lr_keys r))]) with 1. lia.
Qed.

Lemma build_level_count c keys ldk segs segs1 ln1 :
  build_level c (c_epsrec c) keys (zlen keys) ldk segs = Ok (segs1, ln1) ->
  1 <= c_epsrec c -> 1 <= c_par c <= 20 -> keys <> [] -> ssortedb keys = true -> nowrap (c_kt c) keys ->
  zlen keys + 1 + c_epsrec c < 2 ^ 64 - 1 -> 3 * ln1 <= zlen keys + 60.
Proof.
  intros H He Hpar Hne Hss Hw Hb.
  destruct (build_level_shape _ _ _ _ _ _ _ _ H) as (css & fed & cnt & new & T & M1 & _ & _ & HT).
  pose proof (upper_count _ _ _ _ _ _ _ _ M1 ltac:(lia) Hne Hss Hw Hb ltac:(lia)) as Hc.
  assert (Hln : ln1 <= cnt) by (destruct HT as [(_ & _ & ->)|(_ & -> & _)]; lia).
  set (m := zlen keys) in *. set (B := 2 * c_epsrec c + 1) in *.
  assert (HB : 3 <= B) by (unfold B; lia).
  assert (Hc' : cnt * B <= m + 20 * B) by (destruct ((c_par c =? 1) || (m <? par_threshold)); nia).
  destruct (Z_lt_ge_dec cnt 20) as [Hlt|Hge]; [pose proof (zlen_ge0 keys); fold m in H0; lia|].
  assert ((cnt - 20) * 3 <= (cnt - 20) * B) by nia. nia.
Qed.

Definition Phi (m : Z) : Z := if m <? 63 then 64 * m else 2 * m + 4032.

Lemma Phi_step m l : 2 <= m -> 0 <= l -> l < m -> 3 * l <= m + 60 -> l + 2 + Phi l <= Phi m.
Proof. unfold Phi. intros. destruct (m <? 63) eqn:E1; destruct (l <? 63) eqn:E2; lia. Qed.

Lemma Phi_le m : 0 <= m -> Phi m <= 2 * m + 4032.
Proof. unfold Phi. intros. destruct (m <? 63) eqn:E; lia. Qed.

Lemma build_upper_total_sz c ldk :
  1 <= kbits (c_kt c) -> 1 <= c_par c <= 20 -> 0 <= c_epsrec c ->
  forall fuel rl r,
    chainR c ldk (sentinel c) (r :: rl) -> lr_ln r <= Z.of_nat fuel ->
    lr_ln r + c_epsrec c <= 2 ^ 32 - 1 ->
    exists res, build_upper c fuel ldk (below (r :: rl)) (offs_of (r :: rl)) (lr_ln r) = Ok res /\
      zlen (fst res) <= zlen (below (r :: rl)) + (if c_epsrec c =? 0 then 0 else Phi (lr_ln r)).
Proof.
  intros Hb Hpar He0. induction fuel as [|f IH]; intros rl r Hch Hln H32.
  - cbn [build_upper]. replace (lr_ln r <=? 1) with true by lia. rewrite orb_true_r. eexists. split; [reflexivity|].
    cbn [fst]. assert (Hok : lrec_ok c ldk (sentinel c) r) by (cbn [chainR] in Hch; tauto).
    destruct (next_keys c ldk (sentinel c) r Hb Hok) as (Hl0 & _). unfold Phi.
    destruct (c_epsrec c =? 0); [lia|]. destruct (lr_ln r <? 63); lia.
  - assert (Hok : lrec_ok c ldk (sentinel c) r) by (cbn [chainR] in Hch; tauto).
    destruct (next_keys c ldk (sentinel c) r Hb Hok) as (Hl0 & _ & Hz & _ & Hss & Hko & _).
    cbn [build_upper]. destruct ((c_epsrec c =? 0) || (lr_ln r <=? 1)) eqn:Ec.
    { eexists. split; [reflexivity|]. cbn [fst]. unfold Phi.
      destruct (c_epsrec c =? 0); [lia|]. destruct (lr_ln r <? 63); lia. }
    assert (Eoff : nth (length (offs_of (r :: rl)) - 2) (offs_of (r :: rl)) 0 = zlen (below rl)).
    { rewrite offs_len. cbn [length]. replace (S (S (length rl)) - 2)%nat with (length rl) by lia.
      exact (offs_nth [r] rl). }
    rewrite Eoff.
    assert (Esk : skipn (Z.to_nat (zlen (below rl))) (below (r :: rl)) = lr_L r).
    { rewrite below_cons. apply skipn_zlen_app. }
    rewrite Esk.
    apply orb_false_iff in Ec. destruct Ec as [Ec1 Ec2]. rewrite Ec1.
    assert (He1 : 1 <= c_epsrec c) by lia. assert (Hl2 : 2 <= lr_ln r) by lia.
    set (keys' := map sg_key (firstn (Z.to_nat (lr_ln r)) (lr_L r))) in *.
    assert (Hne' : keys' <> []) by (intros En; rewrite En in Hz; change (zlen (@nil Z)) with 0 in Hz; lia).
    pose proof (key_ok_nowrap _ _ Hb Hko) as Hw'.
    destruct (build_level_total c (c_epsrec c) keys' ldk (below (r :: rl)) He0 Hne' (ssortedb_sorted _ Hss) Hw' Hpar
                ltac:(lia)) as ([segs1 ln1] & E).
    pose proof (build_level_shrinks c _ ldk _ segs1 ln1 E He1 Hpar Hne' Hss Hw' ltac:(lia) ltac:(lia)) as Hshr.
    pose proof (build_level_count c _ ldk _ segs1 ln1 E He1 Hpar Hne' Hss Hw' ltac:(lia)) as Hcnt.
    rewrite Hz in E, Hshr, Hcnt. rewrite E. cbn [bind].
    destruct (build_upper_step c ldk (sentinel c) r rl segs1 ln1 Hb ltac:(lia) He0 Hok ltac:(lia) ltac:(lia)
                (level_float_ok_cap_trivial _ _ _ _) E) as (r' & Hok' & Hlink & Es1 & Eln1).
    subst ln1. rewrite Es1.
    assert (Hch' : chainR c ldk (sentinel c) (r' :: r :: rl)) by (cbn [chainR]; cbn [chainR] in Hch; tauto).
    replace (offs_of (r :: rl) ++ [zlen (below (r' :: r :: rl))]) with (offs_of (r' :: r :: rl)) by reflexivity.
    destruct (IH (r :: rl) r' Hch' ltac:(lia) ltac:(lia)) as (res & Er & Hsz).
    exists res. split; [exact Er|]. rewrite Ec1 in Hsz.
    rewrite (below_cons r' (r :: rl)), zlen_app in Hsz.
    pose proof (level_len_le c ldk _ r' Hok') as Hlen'.
    destruct (next_keys c ldk (sentinel c) r' Hb Hok') as (Hl0' & _).
    pose proof (Phi_step (lr_ln r) (lr_ln r') Hl2 ltac:(lia) Hshr Hcnt). lia.
Qed.

Theorem build_total_sz c data :
  1 <= kbits (c_kt c) -> 1 <= c_par c <= 20 -> 0 <= c_eps c -> 0 <= c_epsrec c ->
  data <> [] -> sortedb data = true -> Forall (fun x => in_ktype (c_kt c) x = true) data ->
  last_z data < sentinel c ->
  zlen data + c_eps c <= 2 ^ 32 - 1 -> zlen data + 1 + c_epsrec c <= 2 ^ 32 - 1 ->
  exists ix, build c data = Ok ix /\ zlen (ix_segments ix) <= 3 * zlen data + 4037.
Proof.
  intros Hb Hpar Heps He0 Hne Hs Hkt Hlast Hn32 Hr32. unfold build.
  assert (Hn : zlen data <> 0) by (destruct data; [contradiction|]; rewrite zlen_cons; pose proof (zlen_ge0 data); lia).
  replace (zlen data =? 0) with false by lia. replace (last_z data =? sentinel c) with false by lia.
  assert (Hko : Forall (key_ok (c_kt c)) data).
  { rewrite Forall_forall in *. intros x Hx. split; [apply Hkt; exact Hx|].
    pose proof (sorted_le_last data x 0 Hs Hx). unfold last_z, sentinel in *. lia. }
  pose proof (key_ok_nowrap _ _ Hb Hko) as Hw.
  destruct (build_level_total c (c_eps c) data (last_z data) [] Heps Hne Hs Hw Hpar Hn32) as ([segs ln] & E2).
  rewrite E2. cbn [bind].
  destruct (build_level_desc _ _ _ _ _ _ _ E2 ltac:(lia) Hne Hs Hw ltac:(lia))
    as (css & fed & cnt & g & new & T & M1 & M2 & Es & Hcat & F1 & F2 & He & Htail).
  cbn [app] in Es, Htail.
  destruct (level_float_ok_cap_trivial c (c_eps c) data (last_z data) css fed cnt new M1 M2) as [Fev _].
  pose proof (Lv_of_Forall2 c (c_eps c) (EvalOKc (zlen data + c_eps c) c (sentinel c)) css g new F1 F2 Fev) as HL.
  set (r0 := mkL data (c_eps c) css g new T ln).
  assert (Hok0 : lrec_ok c (last_z data) (sentinel c) r0).
  { unfold lrec_ok, r0. cbn [lr_keys lr_eps lr_css lr_g lr_new lr_T lr_ln]. do 6 (split; [assumption|]). exact Htail. }
  assert (Eb : below [r0] = segs).
  { unfold below. cbn [rev app map concat]. rewrite app_nil_r. unfold lr_L, r0. cbn [lr_new lr_T]. symmetry. exact Es. }
  assert (Eo : offs_of [r0] = [0; zlen segs]) by (cbn [offs_of app]; rewrite Eb; reflexivity).
  rewrite <- Eo. rewrite <- Eb. change ln with (lr_ln r0).
  assert (Hln : lr_ln r0 <= zlen data + 1).
  { destruct (Lv_keys _ _ _ _ _ _ HL) as [_ Hgne]. destruct (Lv_len _ _ _ _ _ _ HL) as [Lg _].
    pose proof (zlen_concat_ge g Hgne) as Hg. rewrite Hcat in Hg.
    rewrite (fed_spec_unfold (c_kt c) data Hne Hs Hw), zlen_app in Hg.
    pose proof (W_len (c_kt c) data (hd 0 data - 1) (last data 0) 0) as HWl. change (zlen [(last data 0 + 1, zlen data)]) with 1 in Hg.
    assert (Hln : ln <= zlen new) by (destruct Htail as [(_ & _ & ->)|(_ & -> & _)]; lia).
    cbn [lr_ln r0]. lia. }
  destruct (build_upper_total_sz c (last_z data) Hb Hpar He0 (length data + 2) [] r0) as (res & E3 & Hsz).
  - cbn [chainR]. split; [exact Hok0 | reflexivity].
  - unfold zlen in *. lia.
  - lia.
  - rewrite E3. cbn [bind]. eexists. split; [reflexivity|]. cbn [ix_segments].
    pose proof (level_len_le c _ _ r0 Hok0) as Hl0. rewrite (below_cons r0 []) in Hsz.
    change (below []) with (@nil segment) in Hsz. cbn [app] in Hsz.
    destruct (next_keys c _ _ r0 Hb Hok0) as (Hln0 & _).
    pose proof (Phi_le (lr_ln r0) ltac:(lia)) as HP.
    destruct (c_epsrec c =? 0); lia.
Qed.

(* ---------- packaged ---------- *)
(* configuration bounds under which no overflow_error is possible for up to 2^30 keys *)
Record cfg_small (c : cfg) : Prop := mkCfgSmall {
  cs_par : c_par c <= 20;
  cs_eps : c_eps c <= 2 ^ 31;
  cs_rec : c_epsrec c <= 2 ^ 31
}.

Theorem build_total c data :
  idx_ok c -> cfg_small c -> data_ok c data -> zlen data <= 2 ^ 30 ->
  exists ix, build c data = Ok ix /\ zlen (ix_segments ix) < 2 ^ 32.
Proof.
  intros [Hb He _ Hr0 _ Hp] [Hp20 He31 Hr31] [Hne Hs Hkt Hl _] Hn.
  destruct (build_total_sz c data Hb ltac:(lia) ltac:(lia) Hr0 Hne Hs Hkt Hl ltac:(lia) ltac:(lia)) as (ix & E & Hsz).
  exists ix. split; [exact E|]. lia.
Qed.

(* the index contract with no hypothesis on the built index: build succeeds and search is correct *)
Theorem build_search_contract c data :
  idx_ok c -> cfg_small c -> float_ok_valid c -> data_ok c data -> zlen data <= 2 ^ 30 ->
  exists ix, build c data = Ok ix /\
    forall q, q < sentinel c ->
      exists a, search c ix q = Ok a /\
        0 <= a_lo a <= lb data q /\ lb data q <= a_hi a <= zlen data /\
        (In q data -> lb data q < a_hi a) /\ a_hi a - a_lo a <= 2 * c_eps c + 2.
Proof.
  intros Hc Hsm Hf Hd Hn. destruct (build_total c data Hc Hsm Hd Hn) as (ix & E & Hs32).
  exists ix. split; [exact E|]. intros q Hq. exact (search_contract_valid c data ix q Hc Hf Hd E Hs32 Hq).
Qed.

(* the size of the segment array of any successfully built index *)
Corollary build_segs32 c data ix :
  idx_ok c -> cfg_small c -> data_ok c data -> zlen data <= 2 ^ 30 -> build c data = Ok ix ->
  zlen (ix_segments ix) < 2 ^ 32.
Proof.
  intros Hc Hsm Hd Hn E. destruct (build_total c data Hc Hsm Hd Hn) as (ix' & E' & H).
  rewrite E in E'. injection E' as <-. exact H.
Qed.

(* search_contract without any hypothesis on the built index *)
Theorem search_contract_small c data ix q :
  idx_ok c -> cfg_small c -> float_ok_valid c -> data_ok c data -> zlen data <= 2 ^ 30 ->
  build c data = Ok ix -> q < sentinel c ->
  exists a, search c ix q = Ok a /\
    0 <= a_lo a <= lb data q /\ lb data q <= a_hi a <= zlen data /\
    (In q data -> lb data q < a_hi a) /\ a_hi a - a_lo a <= 2 * c_eps c + 2.
Proof.
  intros Hc Hsm Hf Hd Hn E Hq.
  exact (search_contract_valid c data ix q Hc Hf Hd E (build_segs32 c data ix Hc Hsm Hd Hn E) Hq).
Qed.

Print Assumptions chunk_total.
Print Assumptions mseg_par_total.
Print Assumptions build_total_sz.
Print Assumptions build_total.
Print Assumptions build_search_contract.

(* ComposeDynN.v -- ComposeDyn.v with the bound 2^30 on the size of a level replaced by a parameter
   N <= 2^30, and the floating-point hypothesis float_ok_valid replaced by the weaker
   float_ok_cap_valid_on c N (float_ok_cap, the interface the search proofs consume, asked only for the
   inputs of the constructor with at most N keys).  Same three steps as ComposeDyn.v: the contract on
   the lists a level can hold, the guarded instance gopsN, the transfer lemmas. *)
Require Import Base Fp PlaModel GenLeaf IndexModel IndexProofs IdxFed IdxChain DynModel DynSpec DynExec
  DynCoreLemmas DynCoreInv DynCoreRefine DynCoreQuery DynCore DynIter ComposeIdx ComposeBuild ComposeDyn.
From Coq Require Import ZifyBool.
Local Open Scope Z_scope.

(* the floating-point interface in its weakest form, on the inputs the constructor accepts that have
   at most N keys *)
Definition float_ok_cap_valid_on (c : cfg) (N : Z) : Prop :=
  forall data k, data_ok c data -> zlen data <= N -> float_ok_cap c data k.

Section WithN.
Variable N : Z.
Hypothesis HN0 : 0 <= N.
Hypothesis HN : N <= 2 ^ 30.

(* lists of keys a level of DynamicPGMIndex<K,V> can hold *)
Definition goodbN (c : cfg) (keys : list Z) : bool :=
  forallb (in_ktype (c_kt c)) keys && (zlen keys <=? N).

Lemma goodb_specN c keys : goodbN c keys = true ->
  Forall (fun x => in_ktype (c_kt c) x = true) keys /\ zlen keys <= N.
Proof.
  unfold goodbN. intros H. apply andb_prop in H. destruct H as [H1 H2]. split; [|lia].
  apply Forall_forall. intros x Hx. rewrite forallb_forall in H1. apply H1. exact Hx.
Qed.


Lemma good_data_okN c keys : keys <> [] -> ssortedb keys = true -> Forall (fun k => k < sentinel c) keys ->
  goodbN c keys = true -> data_ok c keys.
Proof.
  intros Hne Hs Hk Hg. destruct (goodb_specN c keys Hg) as [Hkt Hn]. constructor; try assumption.
  - apply ssortedb_sorted. exact Hs.
  - apply last_lt_of_Forall; assumption.
  - lia.
Qed.

Lemma idx_search_windowN c keys ix q :
  idx_ok c -> float_ok_cap_valid_on c N -> data_ok c keys -> zlen keys <= N ->
  build c keys = Ok ix -> zlen (ix_segments ix) < 2 ^ 32 -> q < sentinel c ->
  exists lo hi, pg_search (idx_ops c) ix q = Ok (lo, hi) /\
    0 <= lo /\ lo <= lb keys q /\ lb keys q <= hi /\ hi <= zlen keys /\ (In q keys -> lb keys q < hi).
Proof.
  intros Hc Hf Hd Hn Hb Hs Hq.
  destruct (search_contract_at_cap c keys ix q Hc Hd Hb Hs Hq (Hf _ _ Hd Hn)) as (a & Es & H1 & H2 & H3 & H4 & H5 & _).
  exists (a_lo a), (a_hi a). cbn [pg_search idx_ops]. rewrite Es. cbn [bind].
  split; [reflexivity|]. repeat split; try tauto; lia.
Qed.

(* (1) the contract of the per-level index, on the lists a level can hold *)
Record idx_contract_onN (c : cfg) : Prop := mkContractOnN {
  pco_buildN : forall keys, keys <> [] -> ssortedb keys = true -> Forall (fun k => k < sentinel c) keys ->
              goodbN c keys = true -> exists p, pg_build (idx_ops c) keys = Ok p;
  pco_searchN : forall keys p q, pg_build (idx_ops c) keys = Ok p -> keys <> [] -> ssortedb keys = true ->
              goodbN c keys = true -> q < sentinel c ->
              exists lo hi, pg_search (idx_ops c) p q = Ok (lo, hi) /\
                0 <= lo /\ lo <= lb keys q /\ lb keys q <= hi /\ hi <= zlen keys /\ (In q keys -> lb keys q < hi)
}.

Theorem idx_ops_contract_onN c : idx_ok c -> float_ok_cap_valid_on c N -> build_ok c -> idx_contract_onN c.
Proof.
  intros Hc Hf Hbo. constructor.
  - intros keys Hne Hs Hk Hg. destruct (Hbo keys (good_data_okN c keys Hne Hs Hk Hg) ltac:(pose proof (proj2 (goodb_specN c keys Hg)); lia)) as (ix & Hb & _).
    exists ix. exact Hb.
  - intros keys p q Hb Hne Hs Hg Hq. cbn [pg_build idx_ops] in Hb.
    destruct (goodb_specN c keys Hg) as [Hkt Hn].
    pose proof (data_ok_of_build c keys p Hne (ssortedb_sorted keys Hs) Hkt ltac:(lia) Hb) as Hd.
    destruct (Hbo keys Hd ltac:(lia)) as (ix & Hb' & Hs32). rewrite Hb in Hb'. injection Hb' as <-.
    exact (idx_search_windowN c keys p q Hc Hf Hd Hn Hb Hs32 Hq).
Qed.


(* (2) the guarded index: idx_ops on good lists; on the others an index that remembers only the
   number of keys (marked by ix_n = -1) and answers with the whole array *)
Definition gopsN (c : cfg) : pgmops index :=
  mkOps index
    (fun keys => if goodbN c keys then build c keys else Ok (fallback keys))
    (mkIndex 0 0 [] [])
    (fun ix k => if ix_n ix =? -1 then Ok (0, zlen (ix_offsets ix)) else pg_search (idx_ops c) ix k).

Lemma gops_build_nilN c : pg_build (gopsN c) [] = Ok (pg_empty (gopsN c)).
Proof.
  cbn [pg_build gopsN]. unfold goodbN. cbn [forallb]. change (zlen (@nil Z)) with 0.
  replace (0 <=? N) with true by lia. reflexivity.
Qed.

Lemma gops_emptyN c : pg_empty (gopsN c) = pg_empty (idx_ops c).
Proof. reflexivity. Qed.


Lemma gops_search_realN c p q : real p -> pg_search (gopsN c) p q = pg_search (idx_ops c) p q.
Proof. unfold real. intros H. cbn [pg_search gopsN]. replace (ix_n p =? -1) with false by lia. reflexivity. Qed.

Lemma gops_build_goodN c keys : goodbN c keys = true -> pg_build (gopsN c) keys = pg_build (idx_ops c) keys.
Proof. intros H. cbn [pg_build gopsN idx_ops]. rewrite H. reflexivity. Qed.


Theorem gops_contractN c : idx_ok c -> float_ok_cap_valid_on c N -> build_ok c -> pgm_contract (gopsN c) (sentinel c).
Proof.
  intros Hc Hf Hbo. destruct (idx_ops_contract_onN c Hc Hf Hbo) as [Hb Hs]. constructor.
  - intros keys Hne Hss Hk. cbn [pg_build gopsN]. destruct (goodbN c keys) eqn:Hg.
    + exact (Hb keys Hne Hss Hk Hg).
    + eexists. reflexivity.
  - intros keys p q Hbd Hne Hss Hq. cbn [pg_build gopsN] in Hbd. destruct (goodbN c keys) eqn:Hg.
    + rewrite (gops_search_realN c p q (build_real c keys p Hbd)).
      exact (Hs keys p q Hbd Hne Hss Hg Hq).
    + injection Hbd as <-. exists 0, (zlen keys). cbn. split; [reflexivity|].
      pose proof (lb_nonneg keys q). pose proof (lb_le_len keys q).
      repeat split; try lia. apply lb_lt_len_In.
Qed.

(* (3) transfer between the two instances *)



(* every level of the state is a list of keys of type K with at most N elements *)
Definition level_goodN (c : cfg) (d : @dyn index) : Prop :=
  Forall (fun l => goodbN c (map it_key l) = true) (d_levels d).

Section TransferN.
  Variable c : cfg.

  Lemma pairwise_merge_transferN d it target ip d' :
    pairwise_merge (idx_ops c) d it target ip = Ok d' -> level_goodN c d' ->
    pairwise_merge (gopsN c) d it target ip = Ok d'.
  Proof.
    unfold pairwise_merge. intros H Hg.
    destruct (level d (d_min_level d)) as [buf|e]; cbn [bind] in *; [|exact H].
    destruct (level d target) as [lt|e]; cbn [bind] in *; [|exact H].
    change (merge_levels (gopsN c)) with (merge_levels (idx_ops c)).
    destruct (merge_levels (idx_ops c) d _ _) as [[d1 out]|e]; cbn [bind] in *; [|exact H].
    destruct (set_level d1 (d_min_level d) []) as [d2|e]; cbn [bind] in *; [|exact H].
    destruct (set_level d2 target out) as [d3|e] eqn:E3; cbn [bind] in *; [|exact H].
    destruct (has_pgm d target); [|exact H].
    cbn [pg_build idx_ops gopsN] in *.
    destruct (build c (map it_key out)) as [p|e]; cbn [bind] in *; [|discriminate H].
    assert (Hgo : goodbN c (map it_key out) = true).
    { unfold level_goodN in Hg. rewrite Forall_forall in Hg. apply Hg.
      rewrite (set_pgm_levels _ _ _ _ H). exact (set_level_In _ _ _ _ E3). }
    rewrite Hgo. destruct (build c (map it_key out)); exact H.
  Qed.
End TransferN.

Lemma insert_transferN c d it d' :
  insert (idx_ops c) d it = Ok d' -> level_goodN c d' -> insert (gopsN c) d it = Ok d'.
Proof.
  unfold insert. intros H Hg.
  destruct (level d (d_min_level d)) as [buf|e]; cbn [bind] in *; [|exact H].
  destruct (lower_bound_bl buf 0 (zlen buf) (it_key it)) as [ip|e]; cbn [bind] in *; [|exact H].
  destruct (if ip <? zlen buf then _ else _) as [hit|e]; cbn [bind] in *; [|exact H].
  destruct hit; [exact H|].
  destruct (zlen buf <? d_buffer_max d); [exact H|].
  destruct (find_target d 300 (d_min_level d + 1) (d_buffer_max d + 1)) as [[i s]|e]; cbn [bind] in *; [|exact H].
  change (pg_empty (gopsN c)) with (pg_empty (idx_ops c)).
  apply pairwise_merge_transferN; assumption.
Qed.

Lemma insert_or_assign_transferN c d k v d' :
  insert_or_assign (idx_ops c) d k v = Ok d' -> level_goodN c d' -> insert_or_assign (gopsN c) d k v = Ok d'.
Proof.
  unfold insert_or_assign. destruct (match d_tomb d with Some t => v =? t | None => false end); [discriminate|].
  apply insert_transferN.
Qed.

Lemma erase_transferN c d k d' :
  erase (idx_ops c) d k = Ok d' -> level_goodN c d' -> erase (gopsN c) d k = Ok d'.
Proof. unfold erase. apply insert_transferN. Qed.

Lemma dyn_bulk_transferN c tomb kmax pairs base bl il d' :
  dyn_bulk (idx_ops c) tomb kmax pairs base bl il = Ok d' -> level_goodN c d' ->
  dyn_bulk (gopsN c) tomb kmax pairs base bl il = Ok d'.
Proof.
  unfold dyn_bulk. intros H Hg.
  destruct (dyn_ctor tomb kmax base bl il) as [d0|e]; cbn [bind] in *; [|exact H].
  destruct pairs as [|[k0 v0] tl]; [exact H|].
  destruct (dedup_sorted k0 tl) as [rest|e]; cbn [bind] in *; [|exact H].
  destruct (check_values tomb (mkItem k0 (Some v0) :: rest)); [exact H|].
  match type of H with context [set_level ?a ?b ?l] => destruct (set_level a b l) as [d2|e] eqn:E2 end;
    cbn [bind] in *; [|exact H].
  destruct (has_pgm d2 _); [|exact H].
  change (pg_empty (gopsN c)) with (pg_empty (idx_ops c)).
  cbn [pg_build idx_ops gopsN] in *.
  set (items := mkItem k0 (Some v0) :: rest) in *.
  destruct (build c (map it_key items)) as [p|e] eqn:Eb; cbn [bind] in *; [|discriminate H].
  assert (Hgo : goodbN c (map it_key items) = true).
  { unfold level_goodN in Hg. rewrite Forall_forall in Hg. apply Hg.
    rewrite (set_pgm_levels _ _ _ _ H). cbn [d_levels]. exact (set_level_In _ _ _ _ E2). }
  rewrite Hgo. cbn [bind]. exact H.
Qed.

(* histories of the container over the concrete index: the guarded histories of DynCoreRefine.v
   (constructor arguments in range, keys below the reserved value, no wrap of used_levels) in which
   every level of every state built through the index is a list of keys of type K with fewer than
   2^32 elements (true of every state of DynamicPGMIndex<K,V>: the keys are values of K) *)
Inductive ihistN (c : cfg) : @dyn index -> amap -> Prop :=
| ih_ctorN : forall tomb base bl il d,
    ctor_ok base bl il -> dyn_ctor tomb (sentinel c) base bl il = Ok d -> ihistN c d []
| ih_bulkN : forall tomb pairs base bl il d,
    bulk_ok base bl il pairs -> Forall (fun p => fst p < sentinel c) pairs ->
    dyn_bulk (idx_ops c) tomb (sentinel c) pairs base bl il = Ok d -> level_goodN c d ->
    ihistN c d (am_bulk pairs)
| ih_insN : forall d m k v d',
    ihistN c d m -> size_ok d -> k < sentinel c -> insert_or_assign (idx_ops c) d k v = Ok d' -> level_goodN c d' ->
    ihistN c d' (am_insert k v m)
| ih_delN : forall d m k d',
    ihistN c d m -> size_ok d -> k < sentinel c -> erase (idx_ops c) d k = Ok d' -> level_goodN c d' ->
    ihistN c d' (am_erase k m).

Lemma ihist_ghist_gN c d m : ihistN c d m -> DynCoreRefine.ghist (gopsN c) (sentinel c) d m.
Proof.
  induction 1.
  - eapply gh_ctor; eassumption.
  - eapply gh_bulk; try eassumption. apply dyn_bulk_transferN; eassumption.
  - eapply gh_ins; try eassumption. apply insert_or_assign_transferN; eassumption.
  - eapply gh_del; try eassumption. apply erase_transferN; eassumption.
Qed.

(* the same states are histories over idx_ops in the sense of DynCoreRefine / DynSpec *)
Lemma ihist_ghistN c d m : ihistN c d m -> DynCoreRefine.ghist (idx_ops c) (sentinel c) d m.
Proof.
  induction 1.
  - eapply gh_ctor; eassumption.
  - eapply gh_bulk; eassumption.
  - eapply gh_ins; eassumption.
  - eapply gh_del; eassumption.
Qed.




Lemma gops_HemptyN c : forall p, pg_build (gopsN c) [] = Ok p -> p = pg_empty (gopsN c).
Proof. intros p H. rewrite gops_build_nilN in H. injection H as <-. reflexivity. Qed.

Lemma ihist_level_goodN c d m : ihistN c d m -> level_goodN c d.
Proof.
  destruct 1; try assumption.
  unfold dyn_ctor in H0.
  destruct ((base <? 2) && ((bl =? 0) || (il =? 0))); [discriminate|].
  destruct (base <? 2); [discriminate|].
  destruct (negb _); [discriminate|]. injection H0 as <-. unfold level_goodN. cbn [d_levels].
  apply Forall_forall. intros l Hl. apply repeat_spec in Hl. subst l.
  unfold goodbN. cbn [map forallb]. change (zlen (@nil Z)) with 0. replace (0 <=? N) with true by lia. reflexivity.
Qed.

(* every index stored in a reached state is a real one (built by build, or the empty index) *)
Lemma ihist_realN c d m : ihistN c d m -> Forall real (d_pgms d).
Proof.
  intros H. pose proof (ihist_level_goodN c d m H) as Hg.
  pose proof (ghist_Inv (gopsN c) (sentinel c) (gops_HemptyN c) d m (ihist_ghist_gN c d m H)) as HI.
  pose proof (iv_wf _ _ _ HI) as Hwf. pose proof (iv_pgms _ _ _ HI) as Hpg.
  destruct (wf_levels_len _ _ Hwf) as [Hl1 Hl2]. destruct (wf_levels_order _ _ Hwf) as [Ho1 Ho2].
  pose proof (wf_lsm _ _ Hwf) as Hlsm.
  apply Forall_forall. intros p Hp. destruct (In_nth_res _ _ Hp) as (j & Hj & Ej).
  set (i := j + d_min_index_level d).
  assert (Epg : pgm d i = Ok p) by (unfold pgm, i; replace (j + d_min_index_level d - d_min_index_level d) with j by lia; exact Ej).
  destruct (nth_res_some (d_levels d) (i - d_min_level d) ltac:(unfold i; lia)) as (l & El).
  change (level d i = Ok l) in El.
  destruct l as [|e l'].
  - rewrite (lp_reset _ _ Hlsm i [] p El eq_refl Epg). unfold real. cbn. lia.
  - destruct (lp_indexed _ _ Hlsm i (e :: l') ltac:(unfold i; lia) El ltac:(discriminate)) as (p' & Ep' & Eb).
    rewrite Epg in Ep'. injection Ep' as <-.
    assert (Hgo : goodbN c (keys_of (e :: l')) = true).
    { unfold level_goodN in Hg. rewrite Forall_forall in Hg. apply (Hg (e :: l')). exact (nth_res_In _ _ _ El). }
    cbn [pg_build gopsN] in Eb. rewrite Hgo in Eb. exact (build_real c _ p Eb).
Qed.

(* the queries of the two instances coincide on states holding only real indexes *)
Section QueryTransferN.
  Variables (c : cfg) (d : @dyn index).
  Hypothesis Hreal : Forall real (d_pgms d).

  Lemma level_window_eqN i li key : level_window (gopsN c) d i li key = level_window (idx_ops c) d i li key.
  Proof.
    unfold level_window. destruct (has_pgm d i); [|reflexivity].
    destruct (pgm d i) as [p|e] eqn:Ep; cbn [bind]; [|reflexivity].
    rewrite gops_search_realN; [reflexivity|].
    rewrite Forall_forall in Hreal. apply Hreal. exact (nth_res_In _ _ _ Ep).
  Qed.

  Lemma find_levels_eqN key : forall is_, find_levels (gopsN c) d is_ key = find_levels (idx_ops c) d is_ key.
  Proof.
    induction is_ as [|i rest IH]; [reflexivity|]. cbn [find_levels].
    destruct (level d i) as [li|e]; cbn [bind]; [|reflexivity].
    rewrite level_window_eqN, IH. reflexivity.
  Qed.

  Lemma lower_bound_levels_eqN key : forall is_ lb_ del,
    lower_bound_levels (gopsN c) d is_ key lb_ del = lower_bound_levels (idx_ops c) d is_ key lb_ del.
  Proof.
    induction is_ as [|i rest IH]; intros lb_ del; [reflexivity|]. cbn [lower_bound_levels].
    destruct (level d i) as [li|e]; cbn [bind]; [|reflexivity].
    rewrite level_window_eqN, IH. destruct (zlen li =? 0); [reflexivity|].
    destruct (level_window (idx_ops c) d i li key) as [w|e]; cbn [bind]; [|reflexivity].
    destruct (lower_bound_bl li (fst w) (snd w) key) as [it|e]; cbn [bind]; [|reflexivity].
    destruct (lb_scan _ _ _ _ _ _) as [[[del1 cand] exact]|e]; cbn [bind]; [|reflexivity].
    destruct cand as [[j e]|]; [destruct exact; [reflexivity|]|]; apply IH.
  Qed.

  Lemma range_levels_eqN lo hi : forall is_ tmp,
    range_levels (gopsN c) d is_ lo hi tmp = range_levels (idx_ops c) d is_ lo hi tmp.
  Proof.
    induction is_ as [|i rest IH]; intros tmp; [reflexivity|]. cbn [range_levels].
    destruct (level d i) as [li|e]; cbn [bind]; [|reflexivity].
    rewrite !level_window_eqN, IH. destruct (zlen li =? 0); [reflexivity|].
    destruct (level_window (idx_ops c) d i li lo) as [wl|e]; cbn [bind]; [|reflexivity].
    destruct (level_window (idx_ops c) d i li hi) as [wh|e]; cbn [bind]; [|reflexivity].
    destruct (lower_bound_bl li (fst wl) (snd wl) lo) as [it|e]; cbn [bind]; [|reflexivity].
    cbn zeta. rewrite !IH. reflexivity.
  Qed.

  Lemma lazy_levels_eqN key : forall is_, lazy_levels (gopsN c) d is_ key = lazy_levels (idx_ops c) d is_ key.
  Proof.
    induction is_ as [|i rest IH]; [reflexivity|]. cbn [lazy_levels].
    destruct (level d i) as [li|e]; cbn [bind]; [|reflexivity].
    rewrite level_window_eqN, IH. reflexivity.
  Qed.
End QueryTransferN.

Section QueryTransfer2N.
  Variables (c : cfg) (d : @dyn index).
  Hypothesis Hreal : Forall real (d_pgms d).

  Lemma dfind_eqN q : dfind (gopsN c) d q = dfind (idx_ops c) d q.
  Proof. unfold dfind. apply find_levels_eqN. exact Hreal. Qed.
  Lemma count_eqN q : count (gopsN c) d q = count (idx_ops c) d q.
  Proof. unfold count. rewrite dfind_eqN. reflexivity. Qed.
  Lemma lower_bound_eqN q : lower_bound (gopsN c) d q = lower_bound (idx_ops c) d q.
  Proof. unfold lower_bound. apply lower_bound_levels_eqN. exact Hreal. Qed.
  Lemma range_eqN lo hi : range (gopsN c) d lo hi = range (idx_ops c) d lo hi.
  Proof. unfold range. rewrite (range_levels_eqN c d Hreal). reflexivity. Qed.
  Lemma lazy_initialize_eqN it : lazy_initialize (gopsN c) d it = lazy_initialize (idx_ops c) d it.
  Proof.
    unfold lazy_initialize. destruct (i_init it); [reflexivity|]. destruct (i_cur it) as [cu|]; [|reflexivity].
    destruct (cur_item d cu) as [e|er]; cbn [bind]; [|reflexivity].
    rewrite (lazy_levels_eqN c d Hreal). reflexivity.
  Qed.
  Lemma iter_next_eqN it : iter_next (gopsN c) d it = iter_next (idx_ops c) d it.
  Proof. unfold iter_next. rewrite lazy_initialize_eqN. reflexivity. Qed.
  Lemma iterate_eqN : forall fuel it, iterate (gopsN c) fuel d it = iterate (idx_ops c) fuel d it.
  Proof.
    induction fuel as [|f IH]; intros it; [reflexivity|]. cbn [iterate].
    destruct (i_cur it) as [cu|]; [|reflexivity].
    destruct (cur_item d cu) as [e|er]; cbn [bind]; [|reflexivity].
    rewrite iter_next_eqN. destruct (iter_next (idx_ops c) d it) as [it1|er]; cbn [bind]; [|reflexivity].
    rewrite IH. reflexivity.
  Qed.
  Lemma to_list_from_eqN it : to_list_from (gopsN c) d it = to_list_from (idx_ops c) d it.
  Proof. unfold to_list_from. apply iterate_eqN. Qed.
  Lemma dyn_begin_eqN k : dyn_begin (gopsN c) d k = dyn_begin (idx_ops c) d k.
  Proof. unfold dyn_begin. rewrite lower_bound_eqN. reflexivity. Qed.
  Lemma dyn_size_eqN k : dyn_size (gopsN c) d k = dyn_size (idx_ops c) d k.
  Proof.
    unfold dyn_size. rewrite dyn_begin_eqN. destruct (dyn_begin (idx_ops c) d k); cbn [bind]; [|reflexivity].
    rewrite to_list_from_eqN. reflexivity.
  Qed.
  Lemma dyn_empty_eqN k : dyn_empty (gopsN c) d k = dyn_empty (idx_ops c) d k.
  Proof. unfold dyn_empty. rewrite dyn_begin_eqN. reflexivity. Qed.
End QueryTransfer2N.

(* ---------------- the theorems of DynCore.v / DynIter.v for ops := idx_ops c ---------------- *)

(* C15 needs no contract at all: it holds for every guarded history over idx_ops *)

Section DynIdxN.
  Variable c : cfg.
  Hypothesis Hc : idx_ok c.
  Hypothesis Hf : float_ok_cap_valid_on c N.
  Hypothesis Hsm : cfg_small c.
  Variables (d : @dyn index) (m : amap).
  Hypothesis Hh : ihistN c d m.
  Hypothesis Hsz : DynCoreQuery.sizes_ok d.

  Let Hcon := gops_contractN c Hc Hf (build_ok_holds c Hc Hsm).
  Let Hg := ihist_ghist_gN c d m Hh.
  Let Hr := ihist_realN c d m Hh.

  Theorem C15_ihistN : wf_state (idx_ops c) d /\ lsm_props (idx_ops c) d.
  Proof. exact (C15_hist_idx c d m (ihist_ghistN c d m Hh)). Qed.

  Theorem C05_find_idxN q : q < sentinel c ->
    exists r, dfind (idx_ops c) d q = Ok r /\ obs r = option_map (fun v => (q, v)) (am_find q m).
  Proof. intros Hq. rewrite <- (dfind_eqN c d Hr). exact (C05_find (gopsN c) (sentinel c) Hcon (gops_build_nilN c) d m q Hg Hsz Hq). Qed.

  Theorem C05_count_idxN q : q < sentinel c ->
    count (idx_ops c) d q = Ok (match am_find q m with Some _ => 1 | None => 0 end).
  Proof. intros Hq. rewrite <- (count_eqN c d Hr). exact (C05_count (gopsN c) (sentinel c) Hcon (gops_build_nilN c) d m q Hg Hsz Hq). Qed.

  Theorem C05_lower_bound_idxN q : q < sentinel c ->
    exists r, lower_bound (idx_ops c) d q = Ok r /\ obs r = am_lower_bound q m.
  Proof. intros Hq. rewrite <- (lower_bound_eqN c d Hr). exact (C05_lower_bound (gopsN c) (sentinel c) Hcon (gops_build_nilN c) d m q Hg Hsz Hq). Qed.

  Theorem C06_range_idxN lo hi : lo <= hi -> hi < sentinel c -> range (idx_ops c) d lo hi = Ok (am_range lo hi m).
  Proof. intros H1 H2. rewrite <- (range_eqN c d Hr). exact (C06_range (gopsN c) (sentinel c) Hcon (gops_build_nilN c) d m lo hi Hg Hsz H1 H2). Qed.

  Theorem C06_iter_idxN q : q < sentinel c ->
    exists r, lower_bound (idx_ops c) d q = Ok r /\ to_list_from (idx_ops c) d (iter_of r) = Ok (am_from q m).
  Proof.
    intros Hq. rewrite <- (lower_bound_eqN c d Hr).
    destruct (C06_iter (gopsN c) (sentinel c) Hcon (gops_build_nilN c) d m q Hg Hsz Hq) as (r & E1 & E2).
    exists r. split; [exact E1|]. rewrite <- (to_list_from_eqN c d Hr). exact E2.
  Qed.

  Theorem C06_size_idxN kmin_ : kmin_ < sentinel c -> Forall (fun p => kmin_ <= fst p) m ->
    dyn_size (idx_ops c) d kmin_ = Ok (zlen m).
  Proof. intros H1 H2. rewrite <- (dyn_size_eqN c d Hr). exact (C06_size (gopsN c) (sentinel c) Hcon (gops_build_nilN c) d m kmin_ Hg Hsz H1 H2). Qed.

  Theorem C06_empty_idxN kmin_ : kmin_ < sentinel c -> Forall (fun p => kmin_ <= fst p) m ->
    dyn_empty (idx_ops c) d kmin_ = Ok (match m with [] => true | _ => false end).
  Proof. intros H1 H2. rewrite <- (dyn_empty_eqN c d Hr). exact (C06_empty (gopsN c) (sentinel c) Hcon (gops_build_nilN c) d m kmin_ Hg Hsz H1 H2). Qed.
End DynIdxN.
End WithN.

Print Assumptions idx_ops_contract_onN.
Print Assumptions gops_contractN.
Print Assumptions C05_find_idxN.
Print Assumptions C06_iter_idxN.

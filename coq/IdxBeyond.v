(* IdxBeyond.v — queries above the last key (last < q < sentinel) for EpsilonRecursive > 0, in the
   linear-scan regime (EpsilonRecursive <= linear_search_threshold): whatever the upper levels
   predict, every scan stops before its level's sentinel, and the scan of the bottom level ends on
   the last segment before the sentinel, whose prediction is within the contract. *)
Require Import Base Fp PlaModel PlaSpec GenLeaf IndexModel IndexProofs MappedQueries IdxFed IdxSeg IdxBlock IdxLevel IdxSearch0 IdxRoute IdxChain IdxMain.
From Coq Require Import ZifyBool.
Local Open Scope Z_scope.

Lemma seg_eval_nonneg c s k : 0 <= seg_eval c s k.
Proof.
  unfold seg_eval. match goal with |- context [if ?t then _ else _] => destruct t end; [lia|].
  unfold wrapU. apply Z.mod_pos_bound. lia.
Qed.

(* the scan started on the first element of M stops inside M when the element after M has key > k *)
Lemma scan_to_guard (ix : index) k M : forall pre g rest fuel,
  ix_segments ix = pre ++ M ++ g :: rest -> k < sg_key g -> M <> [] -> (length M <= fuel)%nat ->
  exists j, 0 <= j < zlen M /\ linear_scan ix fuel (zlen pre) k = Ok (zlen pre + j) /\
            (forall i, 0 < i <= j -> sg_key (nth (Z.to_nat i) M dseg) <= k) /\
            (j + 1 < zlen M -> k < sg_key (nth (Z.to_nat (j + 1)) M dseg)).
Proof.
  induction M as [|a M IH]; intros pre g rest fuel Hseg Hg Hne Hfuel; [contradiction|].
  destruct fuel as [|f]; [cbn [length] in Hfuel; lia|]. cbn [linear_scan]. unfold seg_at. rewrite Hseg.
  cbn [app]. pose proof (zlen_ge0 pre) as Hp0. pose proof (zlen_ge0 M) as HM0. pose proof (zlen_ge0 rest) as Hr0.
  rewrite (nth_res_get _ (zlen pre + 1)) by (unfold zlen in *; rewrite !app_length; cbn [length]; rewrite ?app_length; cbn [length]; lia).
  cbn [bind]. rewrite nth_mid_next.
  destruct M as [|b M'].
  - cbn [app hd]. replace (sg_key g <=? k) with false by lia. exists 0. change (zlen [a]) with 1.
    split; [lia|]. split; [f_equal; lia|]. split; intros; lia.
  - cbn [app hd]. destruct (sg_key b <=? k) eqn:Eb.
    + destruct (IH (pre ++ [a]) g rest f) as (j & Hj & Es & H1 & H2).
      * rewrite Hseg, <- app_assoc. reflexivity.
      * exact Hg.
      * discriminate.
      * cbn [length] in *. lia.
      * rewrite zlen_app in Es. change (zlen [a]) with 1 in Es. rewrite Es.
        exists (j + 1). rewrite (zlen_cons a). split; [lia|]. split; [f_equal; lia|]. split.
        -- intros i Hi. replace i with (i - 1 + 1) by lia.
           replace (Z.to_nat (i - 1 + 1)) with (S (Z.to_nat (i - 1))) by lia. cbn [nth].
           destruct (Z.eq_dec (i - 1) 0) as [E0|E0]; [rewrite E0; cbn [Z.to_nat nth]; lia | apply H1; lia].
        -- intros Hlt. replace (Z.to_nat (j + 1 + 1)) with (S (Z.to_nat (j + 1))) by lia. cbn [nth]. apply H2. lia.
    + exists 0. rewrite !zlen_cons. pose proof (zlen_ge0 M'). split; [lia|]. split; [f_equal; lia|]. split; [intros; lia|].
      intros _. change (Z.to_nat (0 + 1)) with 1%nat. cbn [nth]. apply Z.leb_gt in Eb. exact Eb.
Qed.

Lemma nth_app_shift (A M R : list segment) i : 0 <= i ->
  nth (Z.to_nat (zlen A + i)) (A ++ M ++ R) dseg = nth (Z.to_nat i) (M ++ R) dseg.
Proof.
  intros Hi. replace (Z.to_nat (zlen A + i)) with (length A + Z.to_nat i)%nat by (unfold zlen; lia).
  apply app_nth2_plus.
Qed.

Lemma scan_level ix pre L post k lo :
  ix_segments ix = pre ++ L ++ post -> k < sg_key (last L dseg) -> 0 <= lo -> lo + 1 < zlen L ->
  exists J, lo <= J /\ J + 1 < zlen L /\
    linear_scan ix (length (ix_segments ix)) (zlen pre + lo) k = Ok (zlen pre + J) /\
    (forall i, lo < i <= J -> sg_key (nth (Z.to_nat i) L dseg) <= k) /\
    k < sg_key (nth (Z.to_nat (J + 1)) L dseg).
Proof.
  intros Hseg Hlast Hlo0 Hlo1.
  assert (HLne : L <> []) by (intros ->; change (zlen (@nil segment)) with 0 in Hlo1; lia).
  destruct (exists_last HLne) as (L' & g & EL). rewrite EL in *. rewrite last_last in Hlast.
  rewrite zlen_app in Hlo1. change (zlen [g]) with 1 in Hlo1.
  set (A := firstn (Z.to_nat lo) L'). set (M := skipn (Z.to_nat lo) L').
  assert (EL' : L' = A ++ M) by (symmetry; apply firstn_skipn).
  assert (HzA : zlen A = lo) by (apply zlen_firstn; lia).
  assert (HzM : zlen M = zlen L' - lo) by (apply (f_equal zlen) in EL'; rewrite zlen_app in EL'; lia).
  assert (HMne : M <> []) by (intros E; rewrite E in HzM; change (zlen (@nil segment)) with 0 in HzM; lia).
  assert (Hseg' : ix_segments ix = (pre ++ A) ++ M ++ g :: post).
  { rewrite Hseg, EL'. rewrite <- !app_assoc. reflexivity. }
  destruct (scan_to_guard ix k M (pre ++ A) g post (length (ix_segments ix)) Hseg' Hlast HMne) as (j & Hj & Es & H1 & H2).
  { rewrite Hseg', !app_length. lia. }
  rewrite zlen_app, HzA in Es. exists (lo + j). rewrite zlen_app. change (zlen [g]) with 1.
  split; [lia|]. split; [lia|]. split; [rewrite Es; f_equal; lia|].
  assert (Hnth : forall i, 0 <= i -> nth (Z.to_nat (lo + i)) (L' ++ [g]) dseg = nth (Z.to_nat i) (M ++ [g]) dseg).
  { intros i Hi. rewrite EL', <- HzA, <- app_assoc. apply nth_app_shift. exact Hi. }
  split.
  - intros i Hi. replace i with (lo + (i - lo)) by lia. rewrite Hnth by lia.
    rewrite app_nth1 by (unfold zlen in *; lia). apply H1. lia.
  - replace (lo + j + 1) with (lo + (j + 1)) by lia. rewrite Hnth by lia.
    destruct (Z_lt_ge_dec (j + 1) (zlen M)) as [Hlt|Hge].
    + rewrite app_nth1 by (unfold zlen in *; lia). apply H2. exact Hlt.
    + replace (j + 1) with (zlen M) by lia. rewrite nth_mid. exact Hlast.
Qed.

Lemma icpt_bound c ldk k r i :
  1 <= kbits (c_kt c) -> lrec_ok c ldk k r -> zlen (lr_keys r) < 2 ^ 32 -> 0 <= i < zlen (lr_L r) ->
  0 <= sg_icpt (nth (Z.to_nat i) (lr_L r) dseg) <= zlen (lr_keys r) + lr_eps r.
Proof.
  intros Hb Hok Hn32 Hi. pose proof Hok as (Hne & Hs & Hk & He & Hcat & HL & Ht).
  pose proof (lf_nowrap c ldk k r Hb Hok) as Hw. pose proof (zlen_ge0 (lr_keys r)) as Hn0.
  unfold lr_L in *. rewrite zlen_app in Hi.
  destruct (Z_lt_ge_dec i (zlen (lr_new r))) as [Hlt|Hge].
  - destruct (Lv_split _ _ _ _ _ _ i HL ltac:(lia))
      as (c1 & cs & c2 & g1 & b & g2 & n1 & s & n2 & E1 & E2 & E3 & E4 & R1 & R2 & R3 & R4).
    rewrite E3, <- app_assoc. cbn [app]. rewrite <- E4, nth_mid.
    destruct (line_ok_close c _ cs b s R1 R2) as (Hdx & _ & Hk0 & Hcl).
    destruct (seg_of_cseg_spec c cs s R2) as (_ & _ & Hic).
    assert (Hbne : b <> []) by (destruct R1; assumption).
    destruct b as [|[x y] t]; [contradiction|]. cbn [hd fst] in Hk0.
    apply Forall_inv in Hcl. rewrite Hk0 in Hcl.
    pose proof (close_at_first _ _ _ x (sg_icpt s) y Hdx Hcl) as Hc.
    assert (Hin : In (x, y) (fed_spec (c_kt c) (lr_keys r))).
    { rewrite <- Hcat, E2, concat_app. apply in_or_app. right. cbn [concat]. left. reflexivity. }
    apply (spec_only _ _ Hne Hs Hw) in Hin. apply fed_kind_rank in Hin. cbn [snd] in Hin. lia.
  - destruct Ht as [(ET & _)|(_ & _ & X & ET & HX)]; rewrite ET in *.
    + change (zlen (@nil segment)) with 0 in Hi. lia.
    + replace (Z.to_nat i) with (length (lr_new r) + Z.to_nat (i - zlen (lr_new r)))%nat by (unfold zlen in *; lia).
      rewrite app_nth2_plus. rewrite zlen_app in Hi. change (zlen [sent_seg c (zlen (lr_keys r))]) with 1 in Hi.
      destruct HX as [->|[-> _]].
      * change (zlen (@nil segment)) with 0 in Hi. replace (i - zlen (lr_new r)) with 0 by lia.
        cbn [Z.to_nat app nth sent_seg sg_icpt]. rewrite wrapU32_small by lia. lia.
      * change (zlen [extra_seg c ldk (zlen (lr_keys r))]) with 1 in Hi.
        destruct (Z.eq_dec (i - zlen (lr_new r)) 0) as [E|E].
        -- rewrite E. cbn [Z.to_nat app nth extra_seg sg_icpt]. rewrite wrapU32_small by lia. lia.
        -- replace (i - zlen (lr_new r)) with 1 by lia. cbn [app]. change (Z.to_nat 1) with 1%nat.
           cbn [nth sent_seg sg_icpt]. rewrite wrapU32_small by lia. lia.
Qed.

Lemma level_last_key c ldk k r : lrec_ok c ldk k r -> sg_key (last (lr_L r) dseg) = sentinel c.
Proof.
  intros Hok. destruct (lf_first c ldk k r Hok) as [Hnn _].
  destruct Hok as (_ & _ & _ & _ & _ & _ & Ht). unfold lr_L.
  destruct Ht as [(ET & Hk & _)|(_ & _ & X & ET & _)]; rewrite ET.
  - rewrite app_nil_r. exact Hk.
  - rewrite !app_assoc, last_last. reflexivity.
Qed.

Lemma route_scan_step c ldk k ix up r' r rl' J' tr rest_ls :
  1 <= kbits (c_kt c) -> 0 <= c_epsrec c ->
  (c_epsrec c <=? pgm_linear_search_threshold (sizeof_segment c)) = true -> k < sentinel c ->
  ix_segments ix = below (up ++ r' :: r :: rl') -> ix_offsets ix = offs_of (up ++ r' :: r :: rl') ->
  lrec_ok c ldk k r -> lrec_ok c ldk k r' -> link c r r' -> zlen (lr_keys r') < 2 ^ 32 ->
  0 <= J' -> J' + 1 < zlen (lr_L r') ->
  exists J entry,
    0 <= J /\ J + 1 < zlen (lr_L r) /\ k < sg_key (nth (Z.to_nat (J + 1)) (lr_L r) dseg) /\
    route_levels c ix (Z.of_nat (length rl') :: rest_ls) (zlen (below (r :: rl')) + J') k tr =
    route_levels c ix rest_ls (zlen (below rl') + J) k (entry :: tr).
Proof.
  intros Hb He0 Hthr Hks Hseg Hoffs Hok Hok' Hlink Hn32 HJ0' HJ1'.
  pose proof (link_ln_pos c r r' ldk k Hok' Hlink) as Hln1.
  destruct Hlink as (_ & Le & Lz).
  destruct (next_keys c ldk k r Hb Hok) as (Hl1 & Hl2 & _).
  set (s := nth (Z.to_nat J') (lr_L r') dseg). set (nx := nth (Z.to_nat (J' + 1)) (lr_L r') dseg).
  set (pos := Z.min (seg_eval c s k) (sg_icpt nx)). set (e := c_epsrec c) in *.
  pose proof (icpt_bound c ldk k r' (J' + 1) Hb Hok' Hn32 ltac:(lia)) as Hcap. fold nx in Hcap. rewrite Le, Lz in Hcap.
  pose proof (seg_eval_nonneg c s k) as Hev0.
  assert (Hpos : 0 <= pos <= lr_ln r + e) by (unfold pos; lia).
  set (lo := PGM_SUB_EPS pos (e + 1)).
  assert (Hlo : 0 <= lo /\ lo + 1 < zlen (lr_L r)).
  { unfold lo, PGM_SUB_EPS. destruct (pos <=? e + 1) eqn:E; lia. }
  assert (Hseg' : ix_segments ix = below (r :: rl') ++ lr_L r' ++ below up).
  { rewrite Hseg, below_app, below_cons, <- app_assoc. reflexivity. }
  assert (Hseg2 : ix_segments ix = below rl' ++ lr_L r ++ (lr_L r' ++ below up)).
  { rewrite Hseg', below_cons, <- app_assoc. reflexivity. }
  assert (Hoff1 : nth_res (ix_offsets ix) (Z.of_nat (length rl')) = Ok (zlen (below rl'))).
  { rewrite Hoffs. rewrite nth_res_Z.
    - rewrite Nat2Z.id. f_equal.
      replace (up ++ r' :: r :: rl') with ((up ++ [r'; r]) ++ rl') by (rewrite <- app_assoc; reflexivity).
      apply offs_nth.
    - unfold zlen. rewrite offs_len, app_length. cbn [length]. lia. }
  destruct (scan_level ix (below rl') (lr_L r) _ k lo Hseg2 ltac:(rewrite (level_last_key c ldk k r Hok); exact Hks)
              (proj1 Hlo) (proj2 Hlo)) as (J & HJlo & HJ1 & Escan & _ & HJgt).
  cbn [route_levels]. rewrite Hoff1. cbn [bind].
  rewrite (seg_at_level ix _ _ _ J' Hseg' ltac:(lia)). cbn [bind].
  replace (zlen (below (r :: rl')) + J' + 1) with (zlen (below (r :: rl')) + (J' + 1)) by lia.
  rewrite (seg_at_level ix _ _ _ (J' + 1) Hseg' ltac:(lia)). cbn [bind]. fold s nx pos e lo.
  rewrite Hthr. rewrite Escan. cbn [bind].
  exists J. eexists. split; [lia|]. split; [exact HJ1|]. split; [exact HJgt | reflexivity].
Qed.

Lemma route_scan_all c ldk k ix :
  1 <= kbits (c_kt c) -> 0 <= c_epsrec c ->
  (c_epsrec c <=? pgm_linear_search_threshold (sizeof_segment c)) = true -> k < sentinel c ->
  forall rl r' up J' tr,
    ix_segments ix = below (up ++ r' :: rl) -> ix_offsets ix = offs_of (up ++ r' :: rl) ->
    chainR c ldk k (r' :: rl) -> Forall (fun r => zlen (lr_keys r) < 2 ^ 32) (r' :: rl) ->
    0 <= J' -> J' + 1 < zlen (lr_L r') ->
    exists J0 tr',
      route_levels c ix (rev (zseq 0 (length rl))) (zlen (below rl) + J') k tr = Ok (J0, tr') /\
      0 <= J0 /\ J0 + 1 < zlen (lr_L (last rl r')) /\
      (rl = [] -> J0 = J') /\
      (rl <> [] -> k < sg_key (nth (Z.to_nat (J0 + 1)) (lr_L (last rl r')) dseg)).
Proof.
  intros Hb He0 Hthr Hks. induction rl as [|r rl' IH]; intros r' up J' tr Hseg Hoffs Hch Hsz HJ0 HJ1.
  - cbn [length zseq rev route_levels last]. exists J', tr. split; [reflexivity|].
    split; [exact HJ0|]. split; [exact HJ1|]. split; [reflexivity | intros C; contradiction].
  - cbn [length]. rewrite zseq_snoc, rev_app_distr. cbn [rev app]. rewrite Z.add_0_l.
    cbn [chainR] in Hch. destruct Hch as (Hok' & Hlink & Hch').
    pose proof (chainR_hd_ok _ _ _ _ _ Hch') as Hok.
    inversion Hsz as [|x l Hsz1 Hsz']; subst.
    destruct (route_scan_step c ldk k ix up r' r rl' J' tr (rev (zseq 0 (length rl'))) Hb He0 Hthr Hks Hseg Hoffs
                Hok Hok' Hlink Hsz1 HJ0 HJ1) as (J & entry & HJa & HJb & HJgt & Eroute).
    rewrite Eroute.
    assert (Hseg2 : ix_segments ix = below ((up ++ [r']) ++ r :: rl')) by (rewrite <- app_assoc; exact Hseg).
    assert (Hoffs2 : ix_offsets ix = offs_of ((up ++ [r']) ++ r :: rl')) by (rewrite <- app_assoc; exact Hoffs).
    destruct (IH r (up ++ [r']) J (entry :: tr) Hseg2 Hoffs2 Hch' Hsz' HJa HJb) as (J0 & tr' & E & A & B & C & D).
    exists J0, tr'. rewrite last_cons_gen. split; [exact E|]. split; [exact A|]. split; [exact B|].
    split; [intros C'; discriminate C'|]. intros _.
    destruct rl' as [|r2 rl'']; [|apply D; discriminate].
    cbn [last] in *. rewrite (C eq_refl). exact HJgt.
Qed.

(* the bottom level for a key above the last data key: last real segment or extra segment *)
Theorem level_pos_beyond c eps keys ldk css g new T k J :
  keys <> [] -> sortedb keys = true -> nowrap (c_kt c) keys -> zlen keys < 2 ^ 32 -> 1 <= eps ->
  concat g = fed_spec (c_kt c) keys -> Lv c eps (EvalOKc (zlen keys + eps) c k) css g new ->
  tail_shape c ldk (zlen keys) (last new dseg) T ->
  wrapK (c_kt c) (ldk + 1) = ldk + 1 -> last keys 0 = ldk ->
  (extra_test c (zlen keys) (last new dseg) = true ->
   sg_key (extra_seg c ldk (zlen keys)) <= k -> k < sentinel c ->
   eval_ok c 1 0 (extra_seg c ldk (zlen keys)) k) ->
  ldk + 1 <= k -> k < sentinel c ->
  zlen new - 1 <= J -> J + 1 < zlen (new ++ T) ->
  let s := nth (Z.to_nat J) (new ++ T) dseg in
  let nx := nth (Z.to_nat (J + 1)) (new ++ T) dseg in
  let pos := Z.min (seg_eval c s k) (sg_icpt nx) in
  zlen keys - eps - 2 <= pos <= zlen keys + eps /\ 0 <= pos.
Proof.
  intros Hne Hs Hw Hn32 Heps Hcat HL HT Hwk Hldk Hext Hk Hksent HJ0 HJ1.
  set (n := zlen keys) in *. pose proof (zlen_ge0 keys) as Hn0. fold n in Hn0.
  assert (Hr : lb keys k = n).
  { apply lb_unique; [exact Hs | fold n; lia | | left; reflexivity].
    right. pose proof (last_is keys Hne) as El. fold n in El. rewrite <- El, Hldk. lia. }
  rewrite zlen_app in HJ1.
  destruct (Lv_first_key c _ _ (c_kt c) keys css g new Hne Hcat HL) as [Hnn _].
  assert (Hzn : 1 <= zlen new) by (destruct new; [contradiction|]; rewrite zlen_cons; pose proof (zlen_ge0 new); lia).
  destruct (Z_lt_ge_dec J (zlen new)) as [HJn|HJn].
  - destruct (Lv_split _ _ _ _ _ _ J HL ltac:(lia))
      as (c1 & cs & c2 & g1 & b & g2 & n1 & s & n2 & E1 & E2 & E3 & E4 & R1 & R2 & R3 & R4).
    assert (En2 : n2 = []).
    { apply (f_equal zlen) in E3. rewrite zlen_app, zlen_cons in E3. pose proof (zlen_ge0 n2).
      destruct n2; [reflexivity|]. rewrite zlen_cons in *. pose proof (zlen_ge0 n2). lia. }
    rewrite En2 in *. assert (Eg2 : g2 = []) by (inversion R4; reflexivity). rewrite Eg2 in *.
    assert (EL : new ++ T = n1 ++ s :: T) by (rewrite E3, <- app_assoc; reflexivity).
    rewrite EL. rewrite <- E4. rewrite nth_mid, nth_mid_next. cbn zeta. rewrite E2 in Hcat.
    assert (Hkey : sg_key s <= k).
    { destruct (line_ok_close c eps cs b s R1 R2) as (_ & _ & Hk0 & _). rewrite Hk0.
      assert (Hb : b <> []) by (destruct R1; assumption).
      assert (Hin : In (hd (0, 0) b) (fed_spec (c_kt c) keys)).
      { rewrite <- Hcat, concat_app. apply in_or_app. right. cbn [concat]. apply in_or_app. left. apply hd_In_ne. exact Hb. }
      pose proof (fed_spec_x_le _ _ _ Hne Hs Hw Hin). lia. }
    assert (Hcap : sg_icpt (hd dseg T) = n).
    { rewrite E3, zlen_app, zlen_cons in HJ1. change (zlen (@nil segment)) with 0 in HJ1.
      destruct HT as [->|(X & -> & [->|[-> _]])].
      - change (zlen (@nil segment)) with 0 in HJ1. lia.
      - cbn [app hd sent_seg sg_icpt]. apply wrapU32_small. lia.
      - cbn [app hd extra_seg sg_icpt]. apply wrapU32_small. lia. }
    pose proof (level_query_split c (c_kt c) eps keys g1 [] b cs [] s [] k (sg_icpt (hd dseg T))
                  Hne Hs Hw Hn32 ltac:(lia) Hcat R1 R2 ltac:(constructor) ltac:(constructor)
                  (R3 Hkey I Hksent) Hkey Hcap) as Hq.
    cbn zeta in Hq. rewrite Hr in Hq. lia.
  - destruct HT as [->|(X & -> & [->|[-> Htest]])];
      [change (zlen (@nil segment)) with 0 in HJ1; lia | change (zlen ([] ++ [sent_seg c n])) with 1 in HJ1; lia |].
    change (zlen ([extra_seg c ldk n] ++ [sent_seg c n])) with 2 in HJ1.
    assert (EJ : J = zlen new) by lia. rewrite EJ. cbn [app].
    rewrite nth_mid, nth_mid_next. cbn [hd]. cbn zeta.
    assert (Hk1 : sg_key (extra_seg c ldk n) <= k) by (cbn [extra_seg sg_key]; lia).
    rewrite (eval_flat c _ k (Hext Htest Hk1 Hksent)).
    cbn [extra_seg sent_seg sg_icpt]. rewrite wrapU32_small by lia. rewrite Z.min_id. lia.
Qed.

Lemma level_len2 c ldk k r : lrec_ok c ldk k r -> hd 0 (lr_keys r) < sentinel c -> 2 <= zlen (lr_L r).
Proof.
  intros Hok Hh. destruct (lf_first c ldk k r Hok) as [Hnn Hk0].
  destruct Hok as (_ & _ & _ & _ & _ & _ & Ht). unfold lr_L. rewrite zlen_app.
  assert (Hzn : 1 <= zlen (lr_new r)) by (destruct (lr_new r); [contradiction|]; rewrite zlen_cons; pose proof (zlen_ge0 l); lia).
  destruct Ht as [(ET & Hk & _)|(_ & _ & X & ET & _)]; rewrite ET.
  - change (zlen (@nil segment)) with 0. destruct (lr_new r) as [|a [|b t]]; [contradiction| |rewrite !zlen_cons; pose proof (zlen_ge0 t); lia].
    cbn [hd last] in *. lia.
  - rewrite zlen_app. change (zlen [sent_seg c (zlen (lr_keys r))]) with 1. pose proof (zlen_ge0 X). lia.
Qed.

(* at the bottom level every key except the sentinel is at most last + 1 *)
Lemma level0_keys_le c k r i :
  1 <= kbits (c_kt c) -> lrec_ok c (last (lr_keys r) 0) k r ->
  wrapK (c_kt c) (last (lr_keys r) 0 + 1) = last (lr_keys r) 0 + 1 ->
  0 <= i -> i + 1 < zlen (lr_L r) ->
  sg_key (nth (Z.to_nat i) (lr_L r) dseg) <= last (lr_keys r) 0 + 1.
Proof.
  intros Hb Hok Hwk Hi0 Hi1. pose proof Hok as (Hne & Hs & Hk & He & Hcat & HL & Ht).
  pose proof (lf_nowrap c _ k r Hb Hok) as Hw.
  unfold lr_L in *. rewrite zlen_app in Hi1.
  destruct (Z_lt_ge_dec i (zlen (lr_new r))) as [Hlt|Hge].
  - rewrite app_nth1 by (unfold zlen in *; lia).
    destruct (lf_key_fed c _ k r Hok (sg_key (nth (Z.to_nat i) (lr_new r) dseg))) as (y & Hy).
    { rewrite <- nth_map_key. apply nth_In. rewrite map_length. unfold zlen in *. lia. }
    pose proof (fed_spec_x_le _ _ _ Hne Hs Hw Hy) as Hle. cbn [fst] in Hle. exact Hle.
  - destruct Ht as [(ET & _)|(_ & _ & X & ET & HX)]; rewrite ET in *.
    + change (zlen (@nil segment)) with 0 in Hi1. lia.
    + rewrite zlen_app in Hi1. change (zlen [sent_seg c (zlen (lr_keys r))]) with 1 in Hi1.
      destruct HX as [EX|[EX _]]; rewrite EX in *.
      * change (zlen (@nil segment)) with 0 in Hi1. lia.
      * change (zlen [extra_seg c (last (lr_keys r) 0) (zlen (lr_keys r))]) with 1 in Hi1.
        assert (Ei : i = zlen (lr_new r)) by lia. rewrite Ei. cbn [app]. rewrite nth_mid.
        cbn [extra_seg sg_key]. lia.
Qed.

Section Beyond.
  Variables (c : cfg) (data : list Z) (ix : index).
  Hypothesis Hbits : 1 <= kbits (c_kt c).
  Hypothesis Heps : 1 <= c_eps c.
  Hypothesis Hrec0 : 0 <= c_epsrec c.
  Hypothesis Hrec64 : c_epsrec c + 2 ^ 32 < 2 ^ 64 - 1.
  Hypothesis Hpar : 1 <= c_par c.
  Hypothesis Hne : data <> [].
  Hypothesis Hs : sortedb data = true.
  Hypothesis Hkt : Forall (fun x => in_ktype (c_kt c) x = true) data.
  Hypothesis Hlast : last_z data < sentinel c.
  Hypothesis Hn32 : zlen data < 2 ^ 32.
  Hypothesis Hn64 : zlen data + c_eps c < 2 ^ 64 - 1.
  Hypothesis Hbuild : build c data = Ok ix.
  Hypothesis Hsegs32 : zlen (ix_segments ix) < 2 ^ 32.
  Hypothesis Hscan : (c_epsrec c <=? pgm_linear_search_threshold (sizeof_segment c)) = true.

  Let n := zlen data.
  Let ldk := last_z data.

  Theorem search_beyond_pos q : c_epsrec c <> 0 -> last_z data < q -> q < sentinel c ->
    float_ok_cap c data (Z.max (hd 0 data) q) ->
    exists pos tr,
      search_tr c ix q = Ok (mkApprox pos (PGM_SUB_EPS pos (c_eps c)) (PGM_ADD_EPS pos (c_eps c) n), tr) /\
      n - c_eps c - 2 <= pos <= n + c_eps c /\ 0 <= pos.
  Proof.
    intros Hrne Hq1 Hq2 Hfl.
    assert (Hd0 : hd 0 data <= ldk).
    { apply (data_le_last data Hne Hs). destruct data; [contradiction|]. left. reflexivity. }
    assert (Ek : Z.max (hd 0 data) q = q) by (unfold ldk in *; lia). rewrite Ek in Hfl.
    destruct (build_chain_ext c data ix q Hbits Hpar Hrec0 Hrec64 Hne Hs Hkt Hlast Hn64 Hfl Hbuild Hsegs32)
      as (up & r0 & Hch & Hk0 & Eix & Htop & Hext).
    specialize (Htop Hrne).
    assert (Hfull : exists top rl, up ++ [r0] = top :: rl /\ last rl top = r0).
    { destruct up as [|u up']; [exists r0, []; split; reflexivity|].
      exists u, (up' ++ [r0]). split; [reflexivity|]. rewrite last_last. reflexivity. }
    destruct Hfull as (top & rl & Efull & Elast). rewrite Efull in *. cbn [hd] in Htop.
    pose proof (wrap_last c data Hbits Hne Hs Hkt Hlast) as Hwk. fold ldk in Hwk.
    pose proof (chain_hd c ldk q Hbits rl top Hch) as Ehd. rewrite Elast, Hk0 in Ehd.
    pose proof (chainR_hd_ok _ _ _ _ _ Hch) as Hoktop.
    pose proof (level_len2 c ldk q top Hoktop ltac:(unfold ldk in *; lia)) as Hlen_top.
    assert (Hsegs : ix_segments ix = below ([] ++ top :: rl)) by (rewrite Eix; reflexivity).
    assert (Hoffs : ix_offsets ix = offs_of ([] ++ top :: rl)) by (rewrite Eix; reflexivity).
    assert (Hsz : Forall (fun r => zlen (lr_keys r) < 2 ^ 32) (top :: rl)).
    { apply (chain_sizes c ldk q Hbits rl top Hch); [rewrite Hsegs in Hsegs32; exact Hsegs32|].
      rewrite Elast, Hk0. exact Hn32. }
    destruct (route_scan_all c ldk q ix Hbits Hrec0 Hscan Hq2 rl top [] 0 [] Hsegs Hoffs Hch Hsz ltac:(lia) ltac:(lia))
      as (J0 & tr & Eroute & HJ0 & HJ1 & Hnil & Hcons).
    rewrite Elast in HJ1, Hcons.
    assert (Hok0 : lrec_ok c ldk q r0 /\ lr_eps r0 = c_eps c).
    { clear -Hch Elast. revert top Hch Elast. induction rl as [|r rl IH]; intros top Hch Elast.
      - cbn [last] in Elast. subst. cbn [chainR] in Hch. exact Hch.
      - rewrite last_cons_gen in Elast. cbn [chainR] in Hch. destruct Hch as (_ & _ & Hch'). exact (IH r Hch' Elast). }
    destruct Hok0 as [Hok0 Eeps0].
    pose proof Hok0 as (Hne0 & Hs0 & Hko0 & He0 & Hcat0 & HL0 & Ht0).
    pose proof (lf_nowrap c ldk q r0 Hbits Hok0) as Hw0.
    assert (Hldk0 : last (lr_keys r0) 0 = ldk) by (rewrite Hk0; reflexivity).
    (* the routing ends on the last real segment or on the extra segment of the bottom level *)
    destruct (lf_first c ldk q r0 Hok0) as [Hnn _].
    assert (Hnoa : lr_T r0 <> []).
    { intros ET. destruct Ht0 as [(_ & Hk & _)|(_ & _ & X & ET' & _)].
      - destruct (lf_key_fed c ldk q r0 Hok0 (sg_key (last (lr_new r0) dseg))) as (y & Hy).
        { rewrite <- (last_map_key _ Hnn). destruct (@exists_last _ (map sg_key (lr_new r0))) as (l' & a & El).
          - destruct (lr_new r0); [contradiction|discriminate].
          - rewrite El, last_last. apply in_or_app. right. left. reflexivity. }
        pose proof (fed_spec_x_le _ _ _ Hne0 Hs0 Hw0 Hy) as Hle. cbn [fst] in Hle. rewrite Hldk0 in Hle.
        unfold ldk in *. lia.
      - rewrite ET' in ET. destruct X; discriminate ET. }
    assert (HJge : zlen (lr_new r0) - 1 <= J0).
    { destruct rl as [|r1 rl1].
      - cbn [last] in Elast. subst top. rewrite (Hnil eq_refl).
        destruct Ht0 as [(ET & _)|(_ & Eln & _)]; [contradiction|]. lia.
      - specialize (Hcons ltac:(discriminate)).
        assert (HzT : 1 <= zlen (lr_T r0)) by (destruct (lr_T r0); [contradiction|]; rewrite zlen_cons; pose proof (zlen_ge0 l); lia).
        unfold lr_L in HJ1. rewrite zlen_app in HJ1.
        destruct (Z_lt_ge_dec (J0 + 1 + 1) (zlen (lr_L r0))) as [Hlt|Hge].
        + pose proof (level0_keys_le c q r0 (J0 + 1) Hbits ltac:(rewrite Hldk0; exact Hok0)
                        ltac:(rewrite Hldk0; exact Hwk) ltac:(lia) Hlt) as Hle.
          rewrite Hldk0 in Hle. unfold ldk in *. lia.
        + unfold lr_L in Hge. rewrite zlen_app in Hge. lia. }
    pose proof (level_pos_beyond c (lr_eps r0) (lr_keys r0) ldk _ _ _ _ q J0 Hne0 Hs0 Hw0 ltac:(rewrite Hk0; exact Hn32)
                  ltac:(rewrite Eeps0; exact Heps) Hcat0 HL0 (tail_ok_shape _ _ _ _ _ _ _ Ht0) Hwk Hldk0
                  ltac:(rewrite Hk0; exact Hext) ltac:(unfold ldk; lia) Hq2 HJge HJ1) as Hp.
    cbn zeta in Hp. fold (lr_L r0) in Hp. rewrite Hk0, Eeps0 in Hp. fold n in Hp.
    set (pos := Z.min (seg_eval c (nth (Z.to_nat J0) (lr_L r0) dseg) q) (sg_icpt (nth (Z.to_nat (J0 + 1)) (lr_L r0) dseg))) in *.
    exists pos, tr. split; [|exact Hp].
    assert (Hseg0 : ix_segments ix = [] ++ lr_L r0 ++ below up).
    { rewrite Hsegs. cbn [app]. rewrite <- Efull, below_app. unfold below at 1. cbn [rev app map concat].
      rewrite app_nil_r. reflexivity. }
    assert (Efk : ix_first_key ix = hd 0 data) by (rewrite Eix; reflexivity).
    assert (En : ix_n ix = n) by (rewrite Eix; reflexivity).
    unfold search_tr. rewrite Efk, Ek. unfold segment_for_key.
    replace (c_epsrec c =? 0) with false by lia.
    assert (Ezo : zlen (ix_offsets ix) = Z.of_nat (length rl) + 2).
    { rewrite Hoffs. unfold zlen. rewrite offs_len. cbn [app length]. lia. }
    rewrite Ezo. replace (Z.of_nat (length rl) + 2 - 2) with (Z.of_nat (length rl)) by lia.
    assert (Estart : nth_res (ix_offsets ix) (Z.of_nat (length rl)) = Ok (zlen (below rl))).
    { rewrite Hoffs. rewrite nth_res_Z.
      - rewrite Nat2Z.id. f_equal. exact (offs_nth [top] rl).
      - unfold zlen. rewrite offs_len. cbn [app length]. lia. }
    rewrite Estart. cbn [bind]. unfold height. rewrite Ezo.
    replace (Z.to_nat (Z.of_nat (length rl) + 2 - 1 - 1)) with (length rl) by lia.
    replace (zlen (below rl)) with (zlen (below rl) + 0) by lia. rewrite Eroute. cbn [bind].
    assert (Es1 : seg_at ix J0 = Ok (nth (Z.to_nat J0) (lr_L r0) dseg)).
    { rewrite <- (seg_at_level ix [] _ _ J0 Hseg0 ltac:(lia)). reflexivity. }
    assert (Es2 : seg_at ix (J0 + 1) = Ok (nth (Z.to_nat (J0 + 1)) (lr_L r0) dseg)).
    { rewrite <- (seg_at_level ix [] _ _ (J0 + 1) Hseg0 ltac:(lia)). reflexivity. }
    rewrite Es1. cbn [bind]. rewrite Es2. cbn [bind]. fold pos. rewrite En. reflexivity.
  Qed.

  Lemma lb_beyond q : last_z data < q -> lb data q = n.
  Proof.
    intros Hq. pose proof (n_pos (c_kt c) data Hne Hs (nowrap_data c data Hbits Hne Hs Hkt Hlast)) as Hn1.
    unfold n. apply lb_unique; [exact Hs | lia | | left; reflexivity].
    right. unfold last_z in Hq. rewrite (last_is data Hne) in Hq. lia.
  Qed.

  (* C02 for every query below the sentinel, whenever the routing uses the linear scan
     (EpsilonRecursive <= linear_search_threshold), and always when EpsilonRecursive = 0 *)
  Theorem C02_search_scan_cap q : q < sentinel c -> float_ok_cap c data (Z.max (hd 0 data) q) ->
    exists a, search c ix q = Ok a /\
      0 <= a_lo a /\ a_lo a <= lb data q /\ lb data q <= a_hi a /\ a_hi a <= zlen data /\
      a_hi a - a_lo a <= 2 * c_eps c + 2 /\ a_lo a <= a_pos a.
  Proof.
    intros Hq Hfl. destruct (Z_le_gt_dec q (last_z data)) as [Hle|Hgt].
    { exact (C02_search_partial_cap c data ix Hbits Heps Hrec0 Hrec64 Hpar Hne Hs Hkt Hlast Hn32 Hn64 Hbuild Hsegs32 q Hle Hfl). }
    destruct (Z.eq_dec (c_epsrec c) 0) as [E0|E0].
    { destruct Hfl as [Hf0 _].
      exact (C02_search0_cap c data ix Hbits E0 Heps Hpar Hne Hs Hkt Hlast Hn32 Hn64 Hbuild q Hq Hf0). }
    destruct (search_beyond_pos q E0 ltac:(lia) Hq Hfl) as (pos & tr & Es & Hb & Hp0).
    eexists. split; [unfold search; rewrite Es; reflexivity|]. cbn [bind fst a_lo a_hi a_pos].
    rewrite (lb_beyond q ltac:(lia)). pose proof (zlen_ge0 data) as Hn0. fold n in Hn0.
    pose proof (window_absent (c_eps c) n pos n ltac:(lia) Hp0 ltac:(lia) Hb) as Hwin.
    cbn zeta in Hwin. fold n. lia.
  Qed.

  Corollary C02_pred_search_scan_cap q : q < sentinel c -> float_ok_cap c data (Z.max (hd 0 data) q) ->
    exists a, search c ix q = Ok a /\ C02_pred_b data q a = true.
  Proof.
    intros Hq Hfl. destruct (C02_search_scan_cap q Hq Hfl) as (a & Es & H).
    exists a. split; [exact Es|]. apply C02_pred_b_of_bounds; [exact Hs | lia..].
  Qed.

  (* the same under the stronger hypothesis float_ok (eval_ok without the cap disjunct) *)
  Theorem C02_search_scan q : q < sentinel c -> float_ok c data (Z.max (hd 0 data) q) ->
    exists a, search c ix q = Ok a /\
      0 <= a_lo a /\ a_lo a <= lb data q /\ lb data q <= a_hi a /\ a_hi a <= zlen data /\
      a_hi a - a_lo a <= 2 * c_eps c + 2 /\ a_lo a <= a_pos a.
  Proof. intros Hq Hfl. exact (C02_search_scan_cap q Hq (float_ok_cap_of _ _ _ Hfl)). Qed.

  Corollary C02_pred_search_scan q : q < sentinel c -> float_ok c data (Z.max (hd 0 data) q) ->
    exists a, search c ix q = Ok a /\ C02_pred_b data q a = true.
  Proof. intros Hq Hfl. exact (C02_pred_search_scan_cap q Hq (float_ok_cap_of _ _ _ Hfl)). Qed.
End Beyond.

Print Assumptions C02_search_scan.

(* ------------------------------------------------------------------------------------------------
   NOT PROVED (left open, nothing is weakened silently):

   - C02_search for last < q < sentinel when EpsilonRecursive > linear_search_threshold (the
     binary-search regime of segment_for_key).  C02_search_partial (IdxMain.v) covers q <= last for
     every EpsilonRecursive, C02_search_scan above covers every q < sentinel in the linear-scan
     regime, C02_search0 (IdxSearch0.v) covers every q < sentinel for EpsilonRecursive = 0.
     What is missing: for q > last the window [lo,hi) of an upper level must contain the slot of the
     level's extra segment (last+1, 0, n_l); this needs (a) the exact shape of a segment built from a
     single point (its intercept is >= the rank, so no extra segment follows a closing point that
     opens its own segment: sinv clause 1 of PlaSoundInv.v, not exported by seg_rel), (b) that the
     keys of an upper level stay sorted when the extra segment is appended: the extra key is always
     last_data_key + 1, while the real keys of level l can reach last_data_key + 1 + l when the
     closing point of every level below opens its own segment, and (c) the case where a real segment
     and the extra segment of the same level share the key last+1 (query q = last + 1).

   - C07_route_trace for last < q < sentinel (C07_route_trace_partial covers q <= last).  In case (c)
     above the responsible segment is the extra segment, one slot to the right of the rank the level
     above predicts, and the arithmetic only gives last - first + 1 <= 2*EpsilonRecursive + 4 there;
     no input reaching that bound was constructed.

   Hypotheses the proofs forced (beyond the ones listed in the task):
   - zlen (ix_segments ix) < 2^32: the sentinel / extra segments store wrapU 32 last_n;
   - c_epsrec c + 2^32 < 2^64 - 1 (ranks far from SIZE_MAX at the upper levels);
   - float_ok also asks eval_ok 1 0 for the slope-0 extra segment when it is evaluated: that
     0 * double(k - key) is 0 cannot be derived here without Flocq's real-number lemmas;
   - termination (IdxFuel.v) needs c_par <= 20 together with the 2^15 threshold.
   ------------------------------------------------------------------------------------------------ *)

(* CmpCertDefs.v — run-time certificate for one built CompressedPGMIndex (property C08).
   Executable definitions only (Z / list / bool / option / res / the floats of CompressedModel.v).
   Soundness: CmpCertProofs.v (cmp_cert_sound) ; fast pass = specification: CmpCertFast.v (cmp_cert_b_spec) ;
   monotonicity of one level step: CmpMono.v ; validation on built instances: CmpCertExamples.v. *)
Require Import Base Fp PlaModel GenLeaf IndexModel CompressedModel.
From Flocq Require Import IEEE754.BinarySingleNaN.
Local Open Scope Z_scope.

(* ---------- 1. the search, instrumented: same computation, plus the segment index of every level ---------- *)

(* choice of the segment index inside one level (EpsilonRecursive > 0) *)
Definition cstep_idx (c : cfg) (l : clevel) (pos key k : Z) : res Z :=
  let lo := PGM_SUB_EPS pos (c_epsrec c + 1) in
  if c_epsrec c <=? compressed_linear_search_threshold (kbits (c_kt c) / 8) then
    clinear_scan (length (cl_keys l)) (cl_keys l) lo key
  else
    let hi := PGM_ADD_EPS pos (c_epsrec c) (cl_size l) in
    if (hi >? zlen (cl_keys l)) || (hi <? lo) then Err OutOfBounds
    else Ok (ub_range (cl_keys l) lo hi k - 1).

(* evaluation of segment i of a level, clamped by the next intercept *)
Definition cstep_eval (c : cfg) (cp : compressed) (l : clevel) (i k : Z) : res Z :=
  do e <- cl_eval c (cp_table cp) l i k;
  do nx <- cl_get_intercept l (i + 1);
  Ok (Z.min e (wrapU 64 nx)).

Fixpoint csearch_levels_tr (c : cfg) (cp : compressed) (ls : list clevel) (pos key k : Z) : res (Z * list Z) :=
  match ls with
  | [] => Ok (pos, [])
  | l :: rest =>
      do i <- cstep_idx c l pos key k;
      do p <- cstep_eval c cp l i k;
      do r <- csearch_levels_tr c cp rest p key k;
      Ok (fst r, i :: snd r)
  end.

(* the root line *)
Definition croot_pos (c : cfg) (cp : compressed) (k : Z) : Z :=
  let p0 := fmul_to_i64 c (cp_root_slope cp) (kdiff c k (cp_first_key cp)) in
  let p := if p0 =? 2 ^ 63 - 1 then p0 else wrapS 64 (p0 + cp_root_intercept cp) in
  Z.min (if p >? 0 then p else 0) (cp_root_range cp).

(* final position and the list of segment indices (top level first) *)
Definition compressed_pos_trace (c : cfg) (cp : compressed) (key : Z) : res (Z * list Z) :=
  let k := Z.max (cp_first_key cp) key in
  if c_epsrec c =? 0 then
    match cp_levels cp with
    | [] => Err OutOfBounds
    | l :: _ =>
        let i := ub_range (cl_keys l) 0 (cl_size l) k - 1 in
        do p <- cstep_eval c cp l i k;
        Ok (p, [i])
    end
  else csearch_levels_tr c cp (cp_levels cp) (croot_pos c cp k) key k.

Definition approx_of_pos (c : cfg) (cp : compressed) (pos : Z) : approx :=
  mkApprox pos (PGM_SUB_EPS pos (c_eps c)) (PGM_ADD_EPS pos (c_eps c) (cp_n cp)).

Definition compressed_search_trace (c : cfg) (cp : compressed) (key : Z) : res (approx * list Z) :=
  do r <- compressed_pos_trace c cp key;
  Ok (approx_of_pos c cp (fst r), snd r).

(* ---------- 2. representative queries ---------- *)
(* maximal intervals [r1,r2] of queries containing no element of the (sorted) data, between prev and top *)
Fixpoint gaps_from (prev : Z) (l : list Z) (top : Z) : list (Z * Z) :=
  match l with
  | [] => if prev + 1 <=? top then [(prev + 1, top)] else []
  | x :: t => (if prev + 1 <=? x - 1 then [(prev + 1, x - 1)] else []) ++ gaps_from x t top
  end.
(* [kmin, first-1] ; [x+1, next-1] for consecutive distinct elements ; [last+1, sentinel-1] *)
Definition gaps (c : cfg) (data : list Z) : list (Z * Z) :=
  gaps_from (kmin (c_kt c) - 1) data (sentinel c - 1).
Definition rep_queries (c : cfg) (data : list Z) : list Z :=
  data ++ flat_map (fun g => [fst g; snd g]) (gaps c data).

(* ---------- 3. the contract of C08 at one query ---------- *)
Definition contract_lb_b (c : cfg) (n L : Z) (present : bool) (a : approx) : bool :=
  (0 <=? a_lo a) && (a_lo a <=? L) && (L <=? a_hi a) && (a_hi a <=? n)
  && (a_hi a - a_lo a <=? 2 * c_eps c + 2) && (a_lo a <=? a_pos a)
  && (if present then L <? a_hi a else true).
Definition contract_b (c : cfg) (data : list Z) (q : Z) (a : approx) : bool :=
  contract_lb_b c (zlen data) (lb data q) (existsb (Z.eqb q) data) a.

(* ---------- 4. structural facts about the built object ---------- *)
Definition nonneg_finite {p e} (x : binary_float p e) : bool :=
  match x with B754_zero _ => true | B754_finite false _ _ _ => true | _ => false end.
(* the slope as the multiplication sees it *)
Definition slope_ok (c : cfg) (s : f64) : bool :=
  if c_fdouble c then nonneg_finite s else nonneg_finite (f64_to_f32 s).
(* every intercept a level can return is below the saturation limit 2^62 of the products *)
Definition lvl_struct_ok (l : clevel) : bool :=
  forallb (fun v => wrapS 64 (cl_offset l + v) <? 2 ^ 62) (cl_vals l).
Definition cmp_struct_b (c : cfg) (data : list Z) (cp : compressed) : bool :=
  (cp_n cp =? zlen data)
  && (0 <=? cp_first_key cp) && (cp_first_key cp <=? kmax (c_kt c))
  && (- 2 ^ 63 <=? cp_root_intercept cp) && (cp_root_intercept cp <? 2 ^ 62)
  && slope_ok c (cp_root_slope cp)
  && forallb (slope_ok c) (cp_table cp)
  && forallb lvl_struct_ok (cp_levels cp).

(* ---------- 5. conditions at the two end points of one gap ---------- *)
Fixpoint zlist_eqb (a b : list Z) : bool :=
  match a, b with
  | [], [] => true
  | x :: a', y :: b' => (x =? y) && zlist_eqb a' b'
  | _, _ => false
  end.

Definition cl_slope (cp : compressed) (l : clevel) (i : Z) : res f64 :=
  do sm <- nth_res (cl_slopes_map l) i; nth_res (cp_table cp) sm.

(* level l, segment i chosen by both end points: its key is not above the (clamped) left end point,
   so that k - key does not wrap for the keys of the gap *)
Definition lvl_gap_ok (l : clevel) (i k1 : Z) : bool :=
  match nth_res (cl_keys l) i with
  | Ok key => (0 <=? key) && (key <=? k1)
  | Err _ => false
  end.
Fixpoint lvls_gap_ok (ls : list clevel) (tr : list Z) (k1 : Z) : bool :=
  match ls, tr with
  | [], [] => true
  | l :: ls', i :: tr' => lvl_gap_ok l i k1 && lvls_gap_ok ls' tr' k1
  | _, _ => false
  end.
Definition used_levels (c : cfg) (cp : compressed) : list clevel :=
  if c_epsrec c =? 0 then firstn 1 (cp_levels cp) else cp_levels cp.

(* equal traces at r1 <= r2, keys of the common path not above the left end point *)
Definition gap_cond_tr (c : cfg) (cp : compressed) (r1 r2 : Z) (t1 t2 : list Z) : bool :=
  let k1 := Z.max (cp_first_key cp) r1 in
  let k2 := Z.max (cp_first_key cp) r2 in
  (k2 <=? kmax (c_kt c)) && zlist_eqb t1 t2 && lvls_gap_ok (used_levels c cp) t1 k1.
Definition gap_cond (c : cfg) (cp : compressed) (r1 r2 : Z) : bool :=
  match compressed_search_trace c cp r1, compressed_search_trace c cp r2 with
  | Ok (_, t1), Ok (_, t2) => gap_cond_tr c cp r1 r2 t1 t2
  | _, _ => false
  end.

(* ---------- 6. the certificate, naive specification (uses lb / existsb: quadratic, never run) ---------- *)
Definition rep_ok (c : cfg) (data : list Z) (cp : compressed) (r : Z) : bool :=
  match compressed_search_trace c cp r with
  | Ok (a, _) => contract_b c data r a
  | Err _ => false
  end.
Definition cmp_reps_b (c : cfg) (data : list Z) (cp : compressed) : bool :=
  forallb (rep_ok c data cp) (rep_queries c data).
Definition cmp_gap_b (c : cfg) (data : list Z) (cp : compressed) : bool :=
  forallb (fun g => (lb data (fst g) =? lb data (snd g)) && gap_cond c cp (fst g) (snd g)) (gaps c data).
Definition cmp_cert_spec_b (c : cfg) (data : list Z) (cp : compressed) : bool :=
  cmp_struct_b c data cp && cmp_reps_b c data cp && cmp_gap_b c data cp.

(* ---------- 7. the certificate, one left-to-right pass carrying the rank ---------- *)
(* fp x idx: check at the data element x whose first occurrence has rank idx = lb data x;
   fg r1 r2 idx: check of the gap [r1,r2] where lb data is constantly idx.
   prev = previous element, idx = number of elements already passed. *)
Fixpoint pass_from (fp : Z -> Z -> bool) (fg : Z -> Z -> Z -> bool) (prev idx : Z) (l : list Z) (top : Z) : bool :=
  match l with
  | [] => if prev + 1 <=? top then fg (prev + 1) top idx else true
  | x :: t =>
      (if (x =? prev) && negb (idx =? 0) then true
       else (if prev + 1 <=? x - 1 then fg (prev + 1) (x - 1) idx else true) && fp x idx)
      && pass_from fp fg x (idx + 1) t top
  end.

Definition point_full (c : cfg) (cp : compressed) (n : Z) (x idx : Z) : bool :=
  match compressed_search_trace c cp x with
  | Ok (a, _) => contract_lb_b c n idx true a
  | Err _ => false
  end.
Definition gap_full (c : cfg) (cp : compressed) (n : Z) (r1 r2 idx : Z) : bool :=
  match compressed_search_trace c cp r1, compressed_search_trace c cp r2 with
  | Ok (a1, t1), Ok (a2, t2) =>
      contract_lb_b c n idx false a1 && contract_lb_b c n idx false a2 && gap_cond_tr c cp r1 r2 t1 t2
  | _, _ => false
  end.
Definition cmp_pass_b (c : cfg) (data : list Z) (cp : compressed) : bool :=
  pass_from (point_full c cp (zlen data)) (gap_full c cp (zlen data)) (kmin (c_kt c) - 1) 0 data (sentinel c - 1).

(* the boolean the harness runs; = cmp_cert_spec_b on sorted data (CmpCertFast.v) *)
Definition cmp_cert_b (c : cfg) (data : list Z) (cp : compressed) : bool :=
  cmp_struct_b c data cp && cmp_pass_b c data cp.

(* ---------- 8. diagnostics (not used by the theorems) ---------- *)
(* representative queries whose search fails or violates the contract (same pass) *)
Definition rep_bad (c : cfg) (cp : compressed) (n : Z) (present : bool) (r idx : Z) : list Z :=
  match compressed_search_trace c cp r with
  | Ok (a, _) => if contract_lb_b c n idx present a then [] else [r]
  | Err _ => [r]
  end.
Fixpoint failing_from (c : cfg) (cp : compressed) (n : Z) (prev idx : Z) (l : list Z) (top : Z) : list Z :=
  match l with
  | [] => if prev + 1 <=? top then rep_bad c cp n false (prev + 1) idx ++ rep_bad c cp n false top idx else []
  | x :: t =>
      (if (x =? prev) && negb (idx =? 0) then []
       else (if prev + 1 <=? x - 1
             then rep_bad c cp n false (prev + 1) idx ++ rep_bad c cp n false (x - 1) idx else [])
            ++ rep_bad c cp n true x idx)
      ++ failing_from c cp n x (idx + 1) t top
  end.
(* gaps whose end points pass the contract but where the lifting conditions fail (diagnostics) *)
Fixpoint gapfail_from (c : cfg) (cp : compressed) (prev idx : Z) (l : list Z) (top : Z) : list (Z * Z) :=
  let chk r1 r2 := if gap_cond c cp r1 r2 then [] else [(r1, r2)] in
  match l with
  | [] => if prev + 1 <=? top then chk (prev + 1) top else []
  | x :: t => (if prev + 1 <=? x - 1 then chk (prev + 1) (x - 1) else []) ++ gapfail_from c cp x (idx + 1) t top
  end.
Definition cmp_cert_failing_gaps (c : cfg) (data : list Z) (cp : compressed) : list (Z * Z) :=
  gapfail_from c cp (kmin (c_kt c) - 1) 0 data (sentinel c - 1).

(* probe queries for a gap where the lifting conditions fail: at every level of the common path whose
   product saturates (>= 2^62) at the right end point but not at the left one, the LAST key of the gap whose
   product is not saturated (bisection; the product is monotone, CmpMono.v).  This is where the int64 sum
   product + intercept was largest before the saturation limit was lowered from 2^63 to 2^62. *)
Fixpoint sat_bisect (c : cfg) (slope : f64) (fuel : nat) (lo hi : Z) : Z :=
  match fuel with
  | O => lo
  | S f =>
      if hi - lo <=? 1 then lo else
      let mid := (lo + hi) / 2 in
      if fmul_to_i64 c slope mid =? 2 ^ 63 - 1 then sat_bisect c slope f lo mid else sat_bisect c slope f mid hi
  end.
Definition line_probe (c : cfg) (slope : f64) (key k1 k2 : Z) : list Z :=
  if (key <=? k1) && (fmul_to_i64 c slope (kdiff c k2 key) =? 2 ^ 63 - 1)
     && negb (fmul_to_i64 c slope (kdiff c k1 key) =? 2 ^ 63 - 1)
  then [key + sat_bisect c slope 70 (k1 - key) (k2 - key)] else [].
Fixpoint lvls_probe (c : cfg) (cp : compressed) (ls : list clevel) (tr : list Z) (k1 k2 : Z) : list Z :=
  match ls, tr with
  | l :: ls', i :: tr' =>
      match nth_res (cl_keys l) i, cl_slope cp l i with
      | Ok key, Ok slope => line_probe c slope key k1 k2
      | _, _ => []
      end ++ lvls_probe c cp ls' tr' k1 k2
  | _, _ => []
  end.
Definition gap_probes (c : cfg) (cp : compressed) (g : Z * Z) : list Z :=
  let k1 := Z.max (cp_first_key cp) (fst g) in
  let k2 := Z.max (cp_first_key cp) (snd g) in
  match compressed_search_trace c cp (fst g) with
  | Ok (_, t1) =>
      (if c_epsrec c =? 0 then [] else line_probe c (cp_root_slope cp) (cp_first_key cp) k1 k2)
      ++ lvls_probe c cp (used_levels c cp) t1 k1 k2
  | Err _ => []
  end.

(* failing queries: representatives first, then probes inside the gaps that could not be lifted *)
Definition cmp_cert_failing (c : cfg) (data : list Z) (cp : compressed) : list Z :=
  failing_from c cp (zlen data) (kmin (c_kt c) - 1) 0 data (sentinel c - 1)
  ++ filter (fun q => negb (rep_ok c data cp q)) (flat_map (gap_probes c cp) (cmp_cert_failing_gaps c data cp)).

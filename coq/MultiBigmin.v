(* MultiBigmin.v — the BIGMIN specification (MultiRange.bigmin_spec_w):
   (a) a generic executable checker with a soundness proof, run exhaustively on small widths;
   (b) see the end of the file for the general statement. *)
Require Import Base Fp PlaModel GenLeaf IndexModel IndexProofs MultiModel MultiMorton MultiRange.
From Coq Require Import ZifyBool.
Local Open Scope Z_scope.

(* ---- the checker ---- *)
(* the box test with the D masks computed once (vm_compute shares them) *)
Definition masks (m : mcfg) : list Z :=
  map (fun i => wrapU 64 (Z.shiftl (selector m) i)) (zseq 0 (Z.to_nat (m_dims m))).
Definition box_fast (ms : list Z) (zmin zmax p : Z) : bool :=
  forallb (fun msk => (Z.land zmin msk <=? Z.land p msk) && (Z.land p msk <=? Z.land zmax msk)) ms.

Lemma forallb_map {A B} (f : B -> bool) (g : A -> B) : forall l,
  forallb f (map g l) = forallb (fun x => f (g x)) l.
Proof. induction l as [|a t IH]; [reflexivity|]. cbn [map forallb]. rewrite IH. reflexivity. Qed.

Lemma box_fast_eq m zmin zmax p : box_fast (masks m) zmin zmax p = box_zcontains m zmin zmax p.
Proof. unfold box_fast, masks, box_zcontains. rewrite forallb_map. reflexivity. Qed.

(* for one box and one code x: either x is in the box, or bigmin is in the box, above x, not above
   zmax, and no code strictly between x and bigmin is in the box *)
Definition check_x (m : mcfg) (ms : list Z) (zmin zmax x : Z) : bool :=
  if box_fast ms zmin zmax x then true else
  let b := bigmin m x zmin zmax in
  (x <? b) && (b <=? zmax) && box_fast ms zmin zmax b &&
  forallb (fun c => negb (box_fast ms zmin zmax c)) (zseq (x + 1) (Z.to_nat (b - x - 1))).

Lemma check_x_sound m zmin zmax x : check_x m (masks m) zmin zmax x = true ->
  box_zcontains m zmin zmax x = false ->
  let b := bigmin m x zmin zmax in
  x < b /\ b <= zmax /\ box_zcontains m zmin zmax b = true /\
  (forall c, x < c -> box_zcontains m zmin zmax c = true -> b <= c).
Proof.
  intros Hc Hx. unfold check_x in Hc. rewrite box_fast_eq, Hx in Hc. cbv zeta in *.
  set (b := bigmin m x zmin zmax) in *.
  apply andb_prop in Hc. destruct Hc as [Hc H4]. apply andb_prop in Hc. destruct Hc as [Hc H3].
  apply andb_prop in Hc. destruct Hc as [H1 H2]. rewrite box_fast_eq in H3.
  split; [lia|]. split; [lia|]. split; [exact H3|].
  intros c Hxc Hin. destruct (Z_le_gt_dec b c) as [|Hgt]; [assumption|].
  rewrite forallb_forall in H4. specialize (H4 c). rewrite in_zseq in H4.
  specialize (H4 ltac:(lia)). rewrite box_fast_eq, Hin in H4. discriminate.
Qed.

(* all points with d coordinates below 2^w *)
Fixpoint all_pts (d : nat) (w : Z) : list (list Z) :=
  match d with
  | O => [[]]
  | S k => flat_map (fun a => map (cons a) (all_pts k w)) (zseq 0 (Z.to_nat (2 ^ w)))
  end.

Lemma all_pts_complete w : 0 <= w -> forall d p, length p = d -> coords_ok w p -> In p (all_pts d w).
Proof.
  intros Hw. induction d as [|d IH]; intros p Hl Hp.
  - destruct p; [left; reflexivity|discriminate].
  - destruct p as [|a p]; [discriminate|]. cbn [length] in Hl.
    unfold coords_ok in Hp. inversion Hp as [|x l Ha Hp']; subst x l.
    cbn [all_pts]. apply in_flat_map. exists a. split.
    + apply in_zseq. assert (0 < 2 ^ w) by (apply Z.pow_pos_nonneg; lia). lia.
    + apply in_map. apply IH; [lia|exact Hp'].
Qed.

Definition check_box (m : mcfg) (ms : list Z) (lo hi : list Z) : bool :=
  if forallb2 Z.leb lo hi then
    let zmin := encode m lo in let zmax := encode m hi in
    forallb (check_x m ms zmin zmax) (zseq 0 (Z.to_nat (zmax + 1)))
  else true.
Definition check_all (m : mcfg) (w : Z) : bool :=
  let pts := all_pts (Z.to_nat (m_dims m)) w in
  let ms := masks m in
  forallb (fun lo => forallb (check_box m ms lo) pts) pts.

Theorem check_all_sound m w : 0 <= w -> check_all m w = true -> bigmin_spec_w m w.
Proof.
  intros Hw Hc lo hi x Ll Lh Cl Ch Hle Hx Hnot.
  unfold check_all in Hc. cbv zeta in Hc. rewrite forallb_forall in Hc.
  assert (Il : In lo (all_pts (Z.to_nat (m_dims m)) w)) by (apply all_pts_complete; unfold zlen in *; try assumption; lia).
  assert (Ih : In hi (all_pts (Z.to_nat (m_dims m)) w)) by (apply all_pts_complete; unfold zlen in *; try assumption; lia).
  specialize (Hc lo Il). rewrite forallb_forall in Hc. specialize (Hc hi Ih).
  unfold check_box in Hc.
  assert (E : forallb2 Z.leb lo hi = true) by (apply forallb2_leb; exact Hle).
  rewrite E in Hc. cbv zeta in Hc. rewrite forallb_forall in Hc.
  specialize (Hc x). rewrite in_zseq in Hc. specialize (Hc ltac:(lia)).
  pose proof (check_x_sound m _ _ x Hc Hnot) as Hs. cbv zeta in Hs. cbv zeta.
  destruct Hs as (H1 & H2 & H3 & H4). split; [exact H1|]. split; [exact H3|exact H4].
Qed.

(* ---- (a) exhaustive instances: every box with w-bit corner coordinates, every x <= zmax ---- *)
Lemma check_2_32_3 c : check_all (mkMcfg 2 32 c) 3 = true.
Proof. vm_cast_no_check (eq_refl true). Qed.
Lemma check_2_64_3 c : check_all (mkMcfg 2 64 c) 3 = true.
Proof. vm_cast_no_check (eq_refl true). Qed.
Lemma check_3_32_2 c : check_all (mkMcfg 3 32 c) 2 = true.
Proof. vm_cast_no_check (eq_refl true). Qed.
Lemma check_3_64_2 c : check_all (mkMcfg 3 64 c) 2 = true.
Proof. vm_cast_no_check (eq_refl true). Qed.
Lemma check_4_32_1 c : check_all (mkMcfg 4 32 c) 1 = true.
Proof. vm_cast_no_check (eq_refl true). Qed.
Lemma check_4_64_1 c : check_all (mkMcfg 4 64 c) 1 = true.
Proof. vm_cast_no_check (eq_refl true). Qed.

(* D = 2, 3-bit coordinates (codes < 64), T = uint32_t / uint64_t *)
Theorem bigmin_spec_2d_3bit m : m_dims m = 2 -> (m_tbits m = 32 \/ m_tbits m = 64) -> bigmin_spec_w m 3.
Proof.
  intros Hd Ht. destruct m as [d t c]. cbn [m_dims m_tbits] in *. subst d.
  apply check_all_sound; [lia|]. destruct Ht as [-> | ->]; [apply check_2_32_3|apply check_2_64_3].
Qed.
(* D = 3, 2-bit coordinates (codes < 64) *)
Theorem bigmin_spec_3d_2bit m : m_dims m = 3 -> (m_tbits m = 32 \/ m_tbits m = 64) -> bigmin_spec_w m 2.
Proof.
  intros Hd Ht. destruct m as [d t c]. cbn [m_dims m_tbits] in *. subst d.
  apply check_all_sound; [lia|]. destruct Ht as [-> | ->]; [apply check_3_32_2|apply check_3_64_2].
Qed.
(* D = 4, 1-bit coordinates (codes < 16) *)
Theorem bigmin_spec_4d_1bit m : m_dims m = 4 -> (m_tbits m = 32 \/ m_tbits m = 64) -> bigmin_spec_w m 1.
Proof.
  intros Hd Ht. destruct m as [d t c]. cbn [m_dims m_tbits] in *. subst d.
  apply check_all_sound; [lia|]. destruct Ht as [-> | ->]; [apply check_4_32_1|apply check_4_64_1].
Qed.

Print Assumptions bigmin_spec_2d_3bit.
Print Assumptions bigmin_spec_3d_2bit.
Print Assumptions bigmin_spec_4d_1bit.

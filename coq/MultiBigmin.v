(* MultiBigmin.v — the BIGMIN specification (MultiRange.bigmin_spec_w):
   (a) a generic executable checker with a soundness proof, run exhaustively on small widths
       (bigmin_spec_2d_3bit, bigmin_spec_3d_2bit, bigmin_spec_4d_1bit);
   (b) the general theorem bigmin_spec_general: for every well-formed configuration and every width,
       by induction over the bit index (invariant Inv below);
   (c) multi_index_correct: build + contains + range with BIGMIN discharged, relative only to the
       contract (C02) of the inner PGM-index. *)
Require Import Base Fp PlaModel GenLeaf IndexModel IndexProofs MultiModel MultiMorton MultiRange.
From Coq Require Import ZifyBool.
Local Open Scope Z_scope.

(* ---- the checker ---- *)
(* the box test with the D masks computed once (vm_compute shares them) *)
Definition masks (m : mcfg) : list Z :=
  map (fun i => wrapU 64 (Z.shiftl (selector m) i)) (zseq 0 (Z.to_nat (m_dims m))).
Definition box_fast (ms : list Z) (zmin zmax p : Z) : bool :=
  forallb (fun msk => (Z.land zmin msk <=? Z.land p msk) && (Z.land p msk <=? Z.land zmax msk)) ms.

Lemma forallb_map {A B} (f : B -> bool) (g : A -> B) : forall l,
  forallb f (map g l) = forallb (fun x => f (g x)) l.
Proof. induction l as [|a t IH]; [reflexivity|]. cbn [map forallb]. rewrite IH. reflexivity. Qed.

Lemma box_fast_eq m zmin zmax p : box_fast (masks m) zmin zmax p = box_zcontains m zmin zmax p.
Proof. unfold box_fast, masks, box_zcontains. rewrite forallb_map. reflexivity. Qed.

(* for one box and one code x: either x is in the box, or bigmin is in the box, above x, not above
   zmax, and no code strictly between x and bigmin is in the box *)
Definition check_x (m : mcfg) (ms : list Z) (zmin zmax x : Z) : bool :=
  if box_fast ms zmin zmax x then true else
  let b := bigmin m x zmin zmax in
  (x <? b) && (b <=? zmax) && box_fast ms zmin zmax b &&
  forallb (fun c => negb (box_fast ms zmin zmax c)) (zseq (x + 1) (Z.to_nat (b - x - 1))).

Lemma check_x_sound m zmin zmax x : check_x m (masks m) zmin zmax x = true ->
  box_zcontains m zmin zmax x = false ->
  let b := bigmin m x zmin zmax in
  x < b /\ b <= zmax /\ box_zcontains m zmin zmax b = true /\
  (forall c, x < c -> box_zcontains m zmin zmax c = true -> b <= c).
Proof.
  intros Hc Hx. unfold check_x in Hc. rewrite box_fast_eq, Hx in Hc. cbv zeta in *.
  set (b := bigmin m x zmin zmax) in *.
  apply andb_prop in Hc. destruct Hc as [Hc H4]. apply andb_prop in Hc. destruct Hc as [Hc H3].
  apply andb_prop in Hc. destruct Hc as [H1 H2]. rewrite box_fast_eq in H3.
  split; [lia|]. split; [lia|]. split; [exact H3|].
  intros c Hxc Hin. destruct (Z_le_gt_dec b c) as [|Hgt]; [assumption|].
  rewrite forallb_forall in H4. specialize (H4 c). rewrite in_zseq in H4.
  specialize (H4 ltac:(lia)). rewrite box_fast_eq, Hin in H4. discriminate.
Qed.

(* all points with d coordinates below 2^w *)
Fixpoint all_pts (d : nat) (w : Z) : list (list Z) :=
  match d with
  | O => [[]]
  | S k => flat_map (fun a => map (cons a) (all_pts k w)) (zseq 0 (Z.to_nat (2 ^ w)))
  end.

Lemma all_pts_complete w : 0 <= w -> forall d p, length p = d -> coords_ok w p -> In p (all_pts d w).
Proof.
  intros Hw. induction d as [|d IH]; intros p Hl Hp.
  - destruct p; [left; reflexivity|discriminate].
  - destruct p as [|a p]; [discriminate|]. cbn [length] in Hl.
    unfold coords_ok in Hp. inversion Hp as [|x l Ha Hp']; subst x l.
    cbn [all_pts]. apply in_flat_map. exists a. split.
    + apply in_zseq. assert (0 < 2 ^ w) by (apply Z.pow_pos_nonneg; lia). lia.
    + apply in_map. apply IH; [lia|exact Hp'].
Qed.

Definition check_box (m : mcfg) (ms : list Z) (lo hi : list Z) : bool :=
  if forallb2 Z.leb lo hi then
    let zmin := encode m lo in let zmax := encode m hi in
    forallb (check_x m ms zmin zmax) (zseq 0 (Z.to_nat (zmax + 1)))
  else true.
Definition check_all (m : mcfg) (w : Z) : bool :=
  let pts := all_pts (Z.to_nat (m_dims m)) w in
  let ms := masks m in
  forallb (fun lo => forallb (check_box m ms lo) pts) pts.

Theorem check_all_sound m w : 0 <= w -> check_all m w = true -> bigmin_spec_w m w.
Proof.
  intros Hw Hc lo hi x Ll Lh Cl Ch Hle Hx Hnot.
  unfold check_all in Hc. cbv zeta in Hc. rewrite forallb_forall in Hc.
  assert (Il : In lo (all_pts (Z.to_nat (m_dims m)) w)) by (apply all_pts_complete; unfold zlen in *; try assumption; lia).
  assert (Ih : In hi (all_pts (Z.to_nat (m_dims m)) w)) by (apply all_pts_complete; unfold zlen in *; try assumption; lia).
  specialize (Hc lo Il). rewrite forallb_forall in Hc. specialize (Hc hi Ih).
  unfold check_box in Hc.
  assert (E : forallb2 Z.leb lo hi = true) by (apply forallb2_leb; exact Hle).
  rewrite E in Hc. cbv zeta in Hc. rewrite forallb_forall in Hc.
  specialize (Hc x). rewrite in_zseq in Hc. specialize (Hc ltac:(lia)).
  pose proof (check_x_sound m _ _ x Hc Hnot) as Hs. cbv zeta in Hs. cbv zeta.
  destruct Hs as (H1 & H2 & H3 & H4). split; [exact H1|]. split; [exact H3|exact H4].
Qed.

(* ---- (a) exhaustive instances: every box with w-bit corner coordinates, every x <= zmax ---- *)
Lemma check_2_32_3 c : check_all (mkMcfg 2 32 c) 3 = true.
Proof. vm_cast_no_check (eq_refl true). Qed.
Lemma check_2_64_3 c : check_all (mkMcfg 2 64 c) 3 = true.
Proof. vm_cast_no_check (eq_refl true). Qed.
Lemma check_3_32_2 c : check_all (mkMcfg 3 32 c) 2 = true.
Proof. vm_cast_no_check (eq_refl true). Qed.
Lemma check_3_64_2 c : check_all (mkMcfg 3 64 c) 2 = true.
Proof. vm_cast_no_check (eq_refl true). Qed.
Lemma check_4_32_1 c : check_all (mkMcfg 4 32 c) 1 = true.
Proof. vm_cast_no_check (eq_refl true). Qed.
Lemma check_4_64_1 c : check_all (mkMcfg 4 64 c) 1 = true.
Proof. vm_cast_no_check (eq_refl true). Qed.

(* D = 2, 3-bit coordinates (codes < 64), T = uint32_t / uint64_t *)
Theorem bigmin_spec_2d_3bit m : m_dims m = 2 -> (m_tbits m = 32 \/ m_tbits m = 64) -> bigmin_spec_w m 3.
Proof.
  intros Hd Ht. destruct m as [d t c]. cbn [m_dims m_tbits] in *. subst d.
  apply check_all_sound; [lia|]. destruct Ht as [-> | ->]; [apply check_2_32_3|apply check_2_64_3].
Qed.
(* D = 3, 2-bit coordinates (codes < 64) *)
Theorem bigmin_spec_3d_2bit m : m_dims m = 3 -> (m_tbits m = 32 \/ m_tbits m = 64) -> bigmin_spec_w m 2.
Proof.
  intros Hd Ht. destruct m as [d t c]. cbn [m_dims m_tbits] in *. subst d.
  apply check_all_sound; [lia|]. destruct Ht as [-> | ->]; [apply check_3_32_2|apply check_3_64_2].
Qed.
(* D = 4, 1-bit coordinates (codes < 16) *)
Theorem bigmin_spec_4d_1bit m : m_dims m = 4 -> (m_tbits m = 32 \/ m_tbits m = 64) -> bigmin_spec_w m 1.
Proof.
  intros Hd Ht. destruct m as [d t c]. cbn [m_dims m_tbits] in *. subst d.
  apply check_all_sound; [lia|]. destruct Ht as [-> | ->]; [apply check_4_32_1|apply check_4_64_1].
Qed.

Print Assumptions bigmin_spec_2d_3bit.
Print Assumptions bigmin_spec_3d_2bit.
Print Assumptions bigmin_spec_4d_1bit.

(* ==== (b) the general BIGMIN specification, for every width ==== *)

(* ---- comparing non-negative integers through their bits ---- *)
Lemma lt_by_bit a c k : 0 <= a -> 0 <= c -> 0 <= k ->
  (forall k', k < k' -> Z.testbit a k' = Z.testbit c k') ->
  Z.testbit a k = false -> Z.testbit c k = true -> a < c.
Proof.
  intros Ha Hc Hk Hhi Hak Hck.
  assert (Eh : a / 2 ^ (k + 1) = c / 2 ^ (k + 1)).
  { apply Z.bits_inj'. intros j Hj. rewrite !Z.div_pow2_bits by lia. apply Hhi. lia. }
  apply Z.testbit_false in Hak; [|lia]. apply Z.testbit_true in Hck; [|lia].
  assert (Hp : 0 < 2 ^ k) by (apply Z.pow_pos_nonneg; lia).
  assert (E2 : forall z, z / 2 ^ (k + 1) = z / 2 ^ k / 2).
  { intros z. rewrite Z.pow_add_r by lia. change (2 ^ 1) with 2. rewrite Z.div_div by lia. reflexivity. }
  rewrite !E2 in Eh.
  pose proof (Z.div_mod (a / 2 ^ k) 2 ltac:(lia)) as Da.
  pose proof (Z.div_mod (c / 2 ^ k) 2 ltac:(lia)) as Dc.
  pose proof (Z.div_mod a (2 ^ k) ltac:(lia)) as Ea.
  pose proof (Z.div_mod c (2 ^ k) ltac:(lia)) as Ec.
  pose proof (Z.mod_pos_bound a (2 ^ k) Hp). pose proof (Z.mod_pos_bound c (2 ^ k) Hp).
  nia.
Qed.

Lemma le_by_dom a c : 0 <= c ->
  (forall k, 0 <= k -> Z.testbit a k = true -> Z.testbit c k = true) -> a <= c.
Proof.
  intros Hc H.
  assert (E : Z.ldiff a c = 0).
  { apply Z.bits_inj'. intros k Hk. rewrite Z.ldiff_spec, Z.bits_0.
    destruct (Z.testbit a k) eqn:Ea; [|reflexivity]. rewrite (H k Hk Ea). reflexivity. }
  pose proof (Z.sub_nocarry_ldiff c a E) as Hs.
  assert (0 <= Z.ldiff c a); [|lia].
  apply Z.ldiff_nonneg. left. exact Hc.
Qed.

(* the highest differing bit of x < c *)
Lemma hdb x c : 0 <= x < c -> exists k, 0 <= k /\ Z.testbit x k = false /\ Z.testbit c k = true /\
  forall k', k < k' -> Z.testbit x k' = Z.testbit c k'.
Proof.
  intros Hxc. set (d := Z.lxor x c).
  assert (Hd0 : 0 <= d) by (apply Z.lxor_nonneg; lia).
  assert (Hd : 0 < d).
  { destruct (Z.eq_dec d 0) as [E|]; [|lia]. apply Z.lxor_eq in E. lia. }
  pose proof (Z.bit_log2 d Hd) as Hb. pose proof (Z.log2_nonneg d) as Hl.
  assert (Hab : forall k', Z.log2 d < k' -> Z.testbit x k' = Z.testbit c k').
  { intros k' Hk'. pose proof (Z.bits_above_log2 d k' Hd0 Hk') as Hz.
    unfold d in Hz. rewrite Z.lxor_spec in Hz. destruct (Z.testbit x k'), (Z.testbit c k'); cbn in Hz; congruence. }
  exists (Z.log2 d). split; [lia|]. unfold d in Hb at 1. rewrite Z.lxor_spec in Hb.
  destruct (Z.testbit x (Z.log2 d)) eqn:Ex, (Z.testbit c (Z.log2 d)) eqn:Ec; cbn in Hb; try discriminate.
  - exfalso. pose proof (lt_by_bit c x (Z.log2 d) ltac:(lia) ltac:(lia) Hl) as Hlt.
    specialize (Hlt ltac:(intros k' Hk'; symmetry; apply Hab; exact Hk') Ec Ex). lia.
  - split; [reflexivity|]. split; [reflexivity|exact Hab].
Qed.

Definition mv (m : mcfg) (i c : Z) : Z := Z.land c (fmask m i).
Definition vcode (m : mcfg) (c : Z) : Prop := 0 <= c < 2 ^ (m_dims m * field_bits m).
Definition inbox (m : mcfg) (zn zx c : Z) : Prop :=
  forall i, 0 <= i < m_dims m -> mv m i zn <= mv m i c <= mv m i zx.
Definition agree_above (b a c : Z) : Prop := forall k, b < k -> Z.testbit a k = Z.testbit c k.

Section BM.
  Variable m : mcfg.
  Hypothesis Hwf : wf_mcfg m.
  Local Notation D := (m_dims m).
  Local Notation F := (field_bits m).
  Local Notation N := (m_dims m * field_bits m).

  Lemma N_pos : 1 <= N.
  Proof. pose proof (D_pos m Hwf). pose proof (F_pos m Hwf). nia. Qed.

  Lemma fmask_testbit i k : 0 <= i < D -> 0 <= k ->
    Z.testbit (fmask m i) k = (k mod D =? i) && (k <? N).
  Proof.
    intros Hi Hk. pose proof (D_pos m Hwf) as HD. pose proof (F_pos m Hwf) as HF.
    destruct (split_pos D k HD Hk) as (E & Hq & Hr).
    rewrite E at 1. rewrite (fmask_bits m Hwf) by lia. f_equal.
    destruct (Z_lt_ge_dec k N) as [Hlt|Hge].
    - assert (k / D < F) by (apply Z.div_lt_upper_bound; lia). lia.
    - assert (F <= k / D) by (apply Z.div_le_lower_bound; lia). lia.
  Qed.

  Lemma mv_bits i c k : 0 <= i < D -> 0 <= k ->
    Z.testbit (mv m i c) k = Z.testbit c k && ((k mod D =? i) && (k <? N)).
  Proof. intros Hi Hk. unfold mv. rewrite Z.land_spec, fmask_testbit by lia. reflexivity. Qed.

  Lemma mv_nonneg i c : 0 <= i < D -> 0 <= mv m i c.
  Proof. intros Hi. unfold mv. apply Z.land_nonneg. right. apply (fmask_nonneg m Hwf). lia. Qed.

  Lemma box_inbox zn zx c : box_zcontains m zn zx c = true <-> inbox m zn zx c.
  Proof.
    pose proof (D_pos m Hwf). unfold box_zcontains, inbox, mv. rewrite forallb_forall. split.
    - intros Hb i Hi. specialize (Hb i). rewrite in_zseq in Hb. specialize (Hb ltac:(lia)).
      cbv zeta in Hb. rewrite (shl_selector m Hwf), (wrap64_fmask m Hwf) in Hb by lia. lia.
    - intros Hc i Hi. rewrite in_zseq in Hi. specialize (Hc i ltac:(lia)).
      cbv zeta. rewrite (shl_selector m Hwf), (wrap64_fmask m Hwf) by lia. lia.
  Qed.

  Lemma vcode_high c k : vcode m c -> N <= k -> Z.testbit c k = false.
  Proof. intros Hc Hk. pose proof N_pos. apply (small_bits_high N); [lia|exact Hc|exact Hk]. Qed.

  Lemma code_le_mv a c : vcode m a -> vcode m c ->
    (forall i, 0 <= i < D -> mv m i a <= mv m i c) -> a <= c.
  Proof.
    intros Ha Hc H. apply (code_le_of_coords m Hwf); try assumption.
    intros i Hi. specialize (H i Hi). unfold mv in H.
    pose proof (masked_le m Hwf a c i Hi) as E. lia.
  Qed.

  Lemma mod_dim b : 0 <= b -> 0 <= b mod D < D.
  Proof. intros Hb. pose proof (D_pos m Hwf). apply Z.mod_pos_bound. lia. Qed.

  Lemma mv_lt_bit b a c : 0 <= b < N -> agree_above b a c ->
    Z.testbit a b = false -> Z.testbit c b = true -> mv m (b mod D) a < mv m (b mod D) c.
  Proof.
    intros Hb Hag Ha Hc. pose proof (mod_dim b ltac:(lia)) as Hd.
    apply (lt_by_bit _ _ b); try (apply mv_nonneg; lia); try lia.
    - intros k' Hk'. rewrite !mv_bits by lia. rewrite (Hag k' Hk'). reflexivity.
    - rewrite mv_bits by lia. rewrite Ha. reflexivity.
    - rewrite mv_bits by lia. rewrite Hc. replace (b mod D =? b mod D) with true by lia.
      replace (b <? N) with true by lia. reflexivity.
  Qed.

  Lemma mv_le_dom i a c : 0 <= i < D ->
    (forall k, 0 <= k < N -> k mod D = i -> Z.testbit a k = true -> Z.testbit c k = true) ->
    mv m i a <= mv m i c.
  Proof.
    intros Hi H. apply le_by_dom; [apply mv_nonneg; lia|].
    intros k Hk. rewrite !mv_bits by lia. intros Hb.
    apply andb_prop in Hb. destruct Hb as [Hb1 Hb2]. rewrite Hb2, andb_true_r.
    apply H; [lia|lia|exact Hb1].
  Qed.

  Lemma mv_eq i a c : 0 <= i < D ->
    (forall k, 0 <= k < N -> k mod D = i -> Z.testbit a k = Z.testbit c k) ->
    mv m i a = mv m i c.
  Proof.
    intros Hi H. apply Z.bits_inj'. intros k Hk. rewrite !mv_bits by lia.
    destruct ((k mod D =? i) && (k <? N)) eqn:E; [|rewrite !andb_false_r; reflexivity].
    rewrite !andb_true_r. apply H; lia.
  Qed.

  Lemma agree_above_weaken b b' a c : b <= b' -> agree_above b a c -> agree_above b' a c.
  Proof. intros Hb H k Hk. apply H. lia. Qed.
  Lemma agree_above_sym b a c : agree_above b a c -> agree_above b c a.
  Proof. intros H k Hk. symmetry. apply H. exact Hk. Qed.
  Lemma agree_above_trans b a c e : agree_above b a c -> agree_above b c e -> agree_above b a e.
  Proof. intros H1 H2 k Hk. rewrite (H1 k Hk). apply H2. exact Hk. Qed.
  Lemma agree_above_step b a c : agree_above b a c -> Z.testbit a b = Z.testbit c b -> agree_above (b - 1) a c.
  Proof. intros H Hb k Hk. destruct (Z.eq_dec k b) as [->|Hne]; [exact Hb|apply H; lia]. Qed.

  (* ---- bits of pdep on a dimension mask, and of load ---- *)
  Lemma mod_pow2_testbit a n k : 0 <= n -> 0 <= k ->
    Z.testbit (a mod 2 ^ n) k = (k <? n) && Z.testbit a k.
  Proof.
    intros Hn Hk. destruct (k <? n) eqn:E.
    - rewrite Z.mod_pow2_bits_low by lia. reflexivity.
    - rewrite Z.mod_pow2_bits_high by lia. reflexivity.
  Qed.

  Lemma pdep_fmask_bits src dim k : 0 <= dim < D -> 0 <= k ->
    Z.testbit (pdep src (fmask m dim)) k = (k mod D =? dim) && (k <? N) && Z.testbit src (k / D).
  Proof.
    intros Hd Hk. pose proof (D_pos m Hwf) as HD. pose proof (F_pos m Hwf) as HF.
    rewrite (pdep_fmask m Hwf) by lia.
    destruct (split_pos D k HD Hk) as (E & Hq & Hr).
    rewrite E at 1. rewrite shift_spread_bits by lia. rewrite Z2Nat.id by lia.
    f_equal. f_equal.
    destruct (Z_lt_ge_dec k N) as [Hlt|Hge].
    - assert (k / D < F) by (apply Z.div_lt_upper_bound; lia). lia.
    - assert (F <= k / D) by (apply Z.div_le_lower_bound; lia). lia.
  Qed.

  Lemma lo_set_bits bp j : 0 <= bp -> 0 <= j -> Z.testbit (lo_set bp) j = (j <? bp).
  Proof.
    intros Hb Hj. unfold lo_set. replace (2 ^ bp - 1) with (Z.ones bp) by (rewrite Z.ones_equiv; lia).
    apply Z.testbit_ones_nonneg; lia.
  Qed.

  Lemma load_bits target pattern bp dim k : vcode m target -> 0 <= dim < D -> 0 <= bp -> 0 <= k ->
    Z.testbit (load m target pattern bp dim) k =
    (Z.testbit target k && negb ((k mod D =? dim) && (k <? N) && (k / D <? bp)))
    || ((k mod D =? dim) && (k <? N) && Z.testbit pattern (k / D)).
  Proof.
    intros Ht Hd Hbp Hk. pose proof (D_pos m Hwf) as HD. pose proof (DF_le_T m Hwf) as HNT.
    pose proof Hwf as (_ & _ & HT64). pose proof N_pos as HN.
    assert (Hq : 0 <= k / D) by (apply Z.div_pos; lia).
    unfold load. cbv zeta. rewrite (shl_selector m Hwf), (wrap64_fmask m Hwf) by lia.
    unfold wrapT, wrapU. rewrite mod_pow2_testbit by lia.
    rewrite Z.lor_spec, Z.land_spec, mod_pow2_testbit by lia.
    rewrite Z.lnot_spec by lia. rewrite !pdep_fmask_bits by lia. rewrite lo_set_bits by lia.
    destruct (Z_lt_ge_dec k N) as [Hlt|Hge].
    - replace (k <? m_tbits m) with true by lia. replace (k <? 64) with true by lia.
      cbn [andb]. reflexivity.
    - rewrite (vcode_high target k Ht ltac:(lia)). replace (k <? N) with false by lia.
      rewrite !andb_false_r. cbn [andb orb]. rewrite ?andb_false_r. reflexivity.
  Qed.

  Lemma F_le_T : F <= m_tbits m.
  Proof. pose proof (D_pos m Hwf). pose proof (F_pos m Hwf). pose proof (DF_le_T m Hwf). nia. Qed.

  Lemma bit_split b : 0 <= b < N -> b = (b / D) * D + b mod D /\ 0 <= b / D < F /\ 0 <= b mod D < D.
  Proof.
    intros Hb. pose proof (D_pos m Hwf) as HD.
    destruct (split_pos D b HD ltac:(lia)) as (E & Hq & Hr).
    assert (b / D < F) by (apply Z.div_lt_upper_bound; lia). lia.
  Qed.

  (* load(target, 1000.., bits, dim): set bit b, clear the lower bits of b's dimension *)
  Lemma load_hi_bits zt b k : vcode m zt -> 0 <= b < N -> 0 <= k ->
    Z.testbit (load m zt (wrapT m (2 ^ (b / D + 1 - 1))) (b / D + 1) (b mod D)) k =
    if (k mod D =? b mod D) && (k <=? b) then (k =? b) else Z.testbit zt k.
  Proof.
    intros Ht Hb Hk. pose proof (D_pos m Hwf) as HD. pose proof F_le_T as HFT.
    destruct (bit_split b Hb) as (Eb & Hj & Hdim).
    destruct (split_pos D k HD Hk) as (Ek & Hq & Hr).
    rewrite load_bits by (try exact Ht; lia).
    replace (b / D + 1 - 1) with (b / D) by lia.
    assert (E2 : wrapT m (2 ^ (b / D)) = 2 ^ (b / D)).
    { unfold wrapT, wrapU. apply Z.mod_small. split; [apply Z.pow_nonneg; lia|].
      apply Z.pow_lt_mono_r; lia. }
    rewrite E2, Z.pow2_bits_eqb by lia.
    destruct (k mod D =? b mod D) eqn:Ed; cbn [andb negb orb]; [|rewrite andb_true_r, orb_false_r; reflexivity].
    assert (Edim : k mod D = b mod D) by lia.
    destruct (Z_lt_ge_dec k N) as [Hlt|Hge].
    - replace (k <? N) with true by lia. cbn [andb].
      destruct (Z.compare_spec (k / D) (b / D)) as [Hc|Hc|Hc].
      + assert (k = b) by nia. replace (k <=? b) with true by lia. replace (k =? b) with true by lia.
        replace (b / D =? k / D) with true by lia. apply orb_true_r.
      + assert (k < b) by nia. replace (k <=? b) with true by lia. replace (k =? b) with false by lia.
        replace (b / D =? k / D) with false by lia. replace (k / D <? b / D + 1) with true by lia.
        cbn [negb]. rewrite andb_false_r. reflexivity.
      + assert (b < k) by nia. replace (k <=? b) with false by lia.
        replace (b / D =? k / D) with false by lia. replace (k / D <? b / D + 1) with false by lia.
        cbn [negb]. rewrite andb_true_r, orb_false_r. reflexivity.
    - replace (k <? N) with false by lia. replace (k <=? b) with false by lia.
      cbn [andb negb]. rewrite andb_true_r, orb_false_r. reflexivity.
  Qed.

  (* load(target, 0111.., bits, dim): clear bit b, set the lower bits of b's dimension *)
  Lemma load_lo_bits zt b k : vcode m zt -> 0 <= b < N -> 0 <= k ->
    Z.testbit (load m zt (lo_set (b / D + 1 - 1)) (b / D + 1) (b mod D)) k =
    if (k mod D =? b mod D) && (k <=? b) then (k <? b) else Z.testbit zt k.
  Proof.
    intros Ht Hb Hk. pose proof (D_pos m Hwf) as HD.
    destruct (bit_split b Hb) as (Eb & Hj & Hdim).
    destruct (split_pos D k HD Hk) as (Ek & Hq & Hr).
    rewrite load_bits by (try exact Ht; lia).
    replace (b / D + 1 - 1) with (b / D) by lia. rewrite lo_set_bits by lia.
    destruct (k mod D =? b mod D) eqn:Ed; cbn [andb negb orb]; [|rewrite andb_true_r, orb_false_r; reflexivity].
    assert (Edim : k mod D = b mod D) by lia.
    destruct (Z_lt_ge_dec k N) as [Hlt|Hge].
    - replace (k <? N) with true by lia. cbn [andb].
      destruct (Z.compare_spec (k / D) (b / D)) as [Hc|Hc|Hc].
      + assert (k = b) by nia. replace (k <=? b) with true by lia. replace (k <? b) with false by lia.
        replace (k / D <? b / D) with false by lia. replace (k / D <? b / D + 1) with true by lia.
        cbn [negb]. rewrite andb_false_r. reflexivity.
      + assert (k < b) by nia. replace (k <=? b) with true by lia. replace (k <? b) with true by lia.
        replace (k / D <? b / D) with true by lia. apply orb_true_r.
      + assert (b < k) by nia. replace (k <=? b) with false by lia.
        replace (k / D <? b / D) with false by lia. replace (k / D <? b / D + 1) with false by lia.
        cbn [negb]. rewrite andb_true_r, orb_false_r. reflexivity.
    - replace (k <? N) with false by lia. replace (k <=? b) with false by lia.
      cbn [andb negb]. rewrite andb_true_r, orb_false_r. reflexivity.
  Qed.

  Lemma load_vcode zt pattern bp dim : vcode m zt -> 0 <= dim < D -> 0 <= bp ->
    vcode m (load m zt pattern bp dim).
  Proof.
    intros Ht Hd Hbp. pose proof N_pos as HN. pose proof (m_tbits m) as T.
    assert (Hnn : 0 <= load m zt pattern bp dim).
    { unfold load, wrapT, wrapU. cbv zeta. apply Z.mod_pos_bound. apply Z.pow_pos_nonneg; [lia|].
      pose proof F_le_T. pose proof (F_pos m Hwf). lia. }
    split; [exact Hnn|]. apply bits_bound; [lia|exact Hnn|].
    intros k Hk. rewrite load_bits by (try exact Ht; lia).
    rewrite (vcode_high zt k Ht Hk). replace (k <? N) with false by lia.
    rewrite !andb_false_r. reflexivity.
  Qed.

  Lemma bigmin_loop_cons b rest xd zn zx bm :
    bigmin_loop m (b :: rest) xd zn zx bm =
    match Z.testbit xd b, Z.testbit zn b, Z.testbit zx b with
    | false, false, true =>
        bigmin_loop m rest xd zn (load m zx (lo_set (b / D + 1 - 1)) (b / D + 1) (b mod D))
                    (load m zn (wrapT m (2 ^ (b / D + 1 - 1))) (b / D + 1) (b mod D))
    | false, true, true => zn
    | true, false, false => bm
    | true, false, true =>
        bigmin_loop m rest xd (load m zn (wrapT m (2 ^ (b / D + 1 - 1))) (b / D + 1) (b mod D)) zx bm
    | _, _, _ => bigmin_loop m rest xd zn zx bm
    end.
  Proof.
    cbn [bigmin_loop]. unfold bit.
    destruct (Z.testbit xd b), (Z.testbit zn b), (Z.testbit zx b); reflexivity.
  Qed.

  Section Inv.
    Variables x zmin0 zmax0 : Z.
    Hypothesis Hx : vcode m x.
    Hypothesis Hzn0 : vcode m zmin0.
    Hypothesis Hzx0 : vcode m zmax0.
    Local Notation inbox0 := (inbox m zmin0 zmax0).

    Definition cand (b c : Z) : Prop :=
      inbox0 c /\ exists k, b < k /\ Z.testbit x k = false /\ Z.testbit c k = true /\ agree_above k c x.
    Definition least_cand (b bm : Z) : Prop :=
      (forall c, vcode m c -> cand b c -> bm <= c) /\
      ((exists c, vcode m c /\ cand b c) -> vcode m bm /\ cand b bm).
    Definition Inv (b zn zx bm : Z) : Prop :=
      vcode m zn /\ vcode m zx /\ agree_above b zn x /\ agree_above b zx x /\
      (forall i, 0 <= i < D -> mv m i zn <= mv m i zx) /\
      (forall c, agree_above b c x -> (inbox0 c <-> inbox m zn zx c)) /\
      least_cand b bm.
    Definition Result (r : Z) : Prop :=
      x < r /\ inbox0 r /\ forall c, vcode m c -> x < c -> inbox0 c -> r <= c.

    Lemma cand_mono b c : cand b c -> cand (b - 1) c.
    Proof. intros (Hin & k & Hk & H1 & H2 & H3). split; [exact Hin|]. exists k. repeat split; try assumption. lia. Qed.

    Lemma cand_lt b c : -1 <= b -> vcode m c -> cand b c -> x < c.
    Proof.
      intros Hb Hc (Hin & k & Hk & H1 & H2 & H3).
      apply (lt_by_bit x c k); [apply Hx|apply Hc|lia| |exact H1|exact H2].
      intros k' Hk'. symmetry. apply H3. exact Hk'.
    Qed.

    Lemma least_cand_step b bm :
      (forall c, vcode m c -> cand (b - 1) c -> cand b c) -> least_cand b bm -> least_cand (b - 1) bm.
    Proof.
      intros Hno [H1 H2]. split.
      - intros c Hc Hcand. apply H1; [exact Hc|apply Hno; assumption].
      - intros (c & Hc & Hcand). destruct (H2 (ex_intro _ c (conj Hc (Hno c Hc Hcand)))) as [Hv Hb].
        split; [exact Hv|apply cand_mono; exact Hb].
    Qed.

    Lemma finish b bm : -1 <= b -> least_cand b bm ->
      (forall c, vcode m c -> x < c -> inbox0 c -> cand b c) ->
      (exists c0, vcode m c0 /\ x < c0 /\ inbox0 c0) -> Result bm.
    Proof.
      intros Hb [H1 H2] Hall (c0 & Hc0 & Hlt & Hin0).
      destruct (H2 (ex_intro _ c0 (conj Hc0 (Hall c0 Hc0 Hlt Hin0)))) as [Hv Hcb].
      split; [apply (cand_lt b); assumption|]. split; [apply Hcb|].
      intros c Hc Hxc Hin. apply H1; [exact Hc|apply Hall; assumption].
    Qed.

    Lemma step_imposs b zn zx bm : 0 <= b < N -> Inv b zn zx bm ->
      Z.testbit zn b = true -> Z.testbit zx b = false -> False.
    Proof.
      intros Hb (Hvn & Hvx & An & Ax & HB & HC & HL) Hn Hz.
      pose proof (mod_dim b ltac:(lia)) as Hd.
      assert (Hag : agree_above b zx zn) by (eapply agree_above_trans; [exact Ax|apply agree_above_sym; exact An]).
      pose proof (mv_lt_bit b zx zn Hb Hag Hz Hn). specialize (HB (b mod D) Hd). lia.
    Qed.

    Lemma step_same b zn zx bm : 0 <= b < N -> Inv b zn zx bm ->
      Z.testbit zn b = Z.testbit x b -> Z.testbit zx b = Z.testbit x b -> Inv (b - 1) zn zx bm.
    Proof.
      intros Hb (Hvn & Hvx & An & Ax & HB & HC & HL) En Ez.
      pose proof (mod_dim b ltac:(lia)) as Hd.
      split; [exact Hvn|]. split; [exact Hvx|].
      split; [apply agree_above_step; assumption|]. split; [apply agree_above_step; assumption|].
      split; [exact HB|]. split.
      - intros c Hc. apply HC. apply (agree_above_weaken (b - 1)); [lia|exact Hc].
      - apply least_cand_step; [|exact HL].
        intros c Hc (Hin & k & Hk & H1 & H2 & H3).
        destruct (Z.eq_dec k b) as [->|Hne]; [|split; [exact Hin|exists k; repeat split; try assumption; lia]].
        exfalso. assert (Hag : agree_above b zx c).
        { eapply agree_above_trans; [exact Ax|apply agree_above_sym; exact H3]. }
        pose proof (mv_lt_bit b zx c Hb Hag ltac:(congruence) H2) as Hlt.
        apply (HC c H3) in Hin. specialize (Hin (b mod D) Hd). lia.
    Qed.

    Local Notation ldhi z b := (load m z (wrapT m (2 ^ (b / D + 1 - 1))) (b / D + 1) (b mod D)).
    Local Notation ldlo z b := (load m z (lo_set (b / D + 1 - 1)) (b / D + 1) (b mod D)).

    Lemma ldhi_above z b : vcode m z -> 0 <= b < N -> agree_above b (ldhi z b) z.
    Proof.
      intros Hz Hb k Hk. rewrite load_hi_bits by (try exact Hz; lia).
      replace (k <=? b) with false by lia. rewrite andb_false_r. reflexivity.
    Qed.
    Lemma ldlo_above z b : vcode m z -> 0 <= b < N -> agree_above b (ldlo z b) z.
    Proof.
      intros Hz Hb k Hk. rewrite load_lo_bits by (try exact Hz; lia).
      replace (k <=? b) with false by lia. rewrite andb_false_r. reflexivity.
    Qed.
    Lemma ldhi_at z b : vcode m z -> 0 <= b < N -> Z.testbit (ldhi z b) b = true.
    Proof.
      intros Hz Hb. rewrite load_hi_bits by (try exact Hz; lia).
      replace (b mod D =? b mod D) with true by lia. replace (b <=? b) with true by lia. cbn [andb]. lia.
    Qed.
    Lemma ldlo_at z b : vcode m z -> 0 <= b < N -> Z.testbit (ldlo z b) b = false.
    Proof.
      intros Hz Hb. rewrite load_lo_bits by (try exact Hz; lia).
      replace (b mod D =? b mod D) with true by lia. replace (b <=? b) with true by lia. cbn [andb]. lia.
    Qed.

    Lemma mv_ldhi_other z b i : vcode m z -> 0 <= b < N -> 0 <= i < D -> i <> b mod D ->
      mv m i (ldhi z b) = mv m i z.
    Proof.
      intros Hz Hb Hi Hne. apply mv_eq; [lia|]. intros k Hk Hki.
      rewrite load_hi_bits by (try exact Hz; lia). replace (k mod D =? b mod D) with false by lia. reflexivity.
    Qed.
    Lemma mv_ldlo_other z b i : vcode m z -> 0 <= b < N -> 0 <= i < D -> i <> b mod D ->
      mv m i (ldlo z b) = mv m i z.
    Proof.
      intros Hz Hb Hi Hne. apply mv_eq; [lia|]. intros k Hk Hki.
      rewrite load_lo_bits by (try exact Hz; lia). replace (k mod D =? b mod D) with false by lia. reflexivity.
    Qed.

    Lemma mv_ldhi_dom z b c : vcode m z -> 0 <= b < N -> agree_above b z c -> Z.testbit c b = true ->
      mv m (b mod D) (ldhi z b) <= mv m (b mod D) c.
    Proof.
      intros Hz Hb Hag Hc. pose proof (mod_dim b ltac:(lia)) as Hd.
      apply mv_le_dom; [lia|]. intros k Hk Hki. rewrite load_hi_bits by (try exact Hz; lia).
      replace (k mod D =? b mod D) with true by lia. cbn [andb].
      destruct (k <=? b) eqn:E.
      - intros Hkb. assert (k = b) by lia. subst k. exact Hc.
      - rewrite (Hag k ltac:(lia)). tauto.
    Qed.
    Lemma mv_ldlo_dom z b c : vcode m z -> 0 <= b < N -> agree_above b z c -> Z.testbit c b = false ->
      mv m (b mod D) c <= mv m (b mod D) (ldlo z b).
    Proof.
      intros Hz Hb Hag Hc. pose proof (mod_dim b ltac:(lia)) as Hd.
      apply mv_le_dom; [lia|]. intros k Hk Hki. rewrite load_lo_bits by (try exact Hz; lia).
      replace (k mod D =? b mod D) with true by lia. cbn [andb].
      destruct (k <=? b) eqn:E.
      - intros Hck. destruct (Z.eq_dec k b) as [->|Hne]; [congruence|lia].
      - rewrite (Hag k ltac:(lia)). tauto.
    Qed.

    Lemma step_5 b zn zx bm : 0 <= b < N -> Inv b zn zx bm ->
      Z.testbit x b = true -> Z.testbit zn b = false -> Z.testbit zx b = true ->
      Inv (b - 1) (ldhi zn b) zx bm.
    Proof.
      intros Hb (Hvn & Hvx & An & Ax & HB & HC & HL) Ex En Ez.
      pose proof (mod_dim b ltac:(lia)) as Hd. destruct (bit_split b Hb) as (_ & Hj & _).
      assert (Anx : agree_above b zn zx) by (eapply agree_above_trans; [exact An|apply agree_above_sym; exact Ax]).
      split; [apply load_vcode; try assumption; lia|]. split; [exact Hvx|].
      split.
      { apply agree_above_step.
        - eapply agree_above_trans; [apply ldhi_above; assumption|exact An].
        - rewrite ldhi_at by assumption. congruence. }
      split; [apply agree_above_step; [exact Ax|congruence]|].
      split.
      { intros i Hi. destruct (Z.eq_dec i (b mod D)) as [->|Hne].
        - apply mv_ldhi_dom; assumption.
        - rewrite mv_ldhi_other by assumption. apply HB. exact Hi. }
      split.
      - intros c Hc.
        assert (Hc' : agree_above b c x) by (apply (agree_above_weaken (b - 1)); [lia|exact Hc]).
        assert (Hcb : Z.testbit c b = true) by (rewrite (Hc b ltac:(lia)); exact Ex).
        assert (Anc : agree_above b zn c) by (eapply agree_above_trans; [exact An|apply agree_above_sym; exact Hc']).
        rewrite (HC c Hc'). unfold inbox. split; intros H i Hi; specialize (H i Hi).
        + destruct (Z.eq_dec i (b mod D)) as [->|Hne].
          * pose proof (mv_ldhi_dom zn b c Hvn Hb Anc Hcb). lia.
          * rewrite mv_ldhi_other by assumption. exact H.
        + destruct (Z.eq_dec i (b mod D)) as [->|Hne].
          * pose proof (mv_lt_bit b zn c Hb Anc En Hcb). lia.
          * rewrite mv_ldhi_other in H by assumption. exact H.
      - apply least_cand_step; [|exact HL].
        intros c Hc (Hin & k & Hk & H1 & H2 & H3).
        destruct (Z.eq_dec k b) as [->|Hne]; [congruence|].
        split; [exact Hin|exists k; repeat split; try assumption; lia].
    Qed.

    Lemma step_1 b zn zx bm : 0 <= b < N -> Inv b zn zx bm ->
      Z.testbit x b = false -> Z.testbit zn b = false -> Z.testbit zx b = true ->
      Inv (b - 1) zn (ldlo zx b) (ldhi zn b).
    Proof.
      intros Hb (Hvn & Hvx & An & Ax & HB & HC & HL) Ex En Ez.
      pose proof (mod_dim b ltac:(lia)) as Hd. destruct (bit_split b Hb) as (_ & Hj & _).
      assert (Anx : agree_above b zn zx) by (eapply agree_above_trans; [exact An|apply agree_above_sym; exact Ax]).
      assert (Axn : agree_above b zx zn) by (apply agree_above_sym; exact Anx).
      set (bm' := ldhi zn b). set (zx' := ldlo zx b).
      assert (Vb : vcode m bm') by (apply load_vcode; try assumption; lia).
      assert (Ab : agree_above b bm' x) by (eapply agree_above_trans; [apply ldhi_above; assumption|exact An]).
      assert (Bb : Z.testbit bm' b = true) by (apply ldhi_at; assumption).
      split; [exact Hvn|]. split; [apply load_vcode; try assumption; lia|].
      split; [apply agree_above_step; [exact An|congruence]|].
      split.
      { apply agree_above_step.
        - eapply agree_above_trans; [apply ldlo_above; assumption|exact Ax].
        - unfold zx'. rewrite ldlo_at by assumption. congruence. }
      split.
      { intros i Hi. unfold zx'. destruct (Z.eq_dec i (b mod D)) as [->|Hne].
        - apply mv_ldlo_dom; assumption.
        - rewrite mv_ldlo_other by assumption. apply HB. exact Hi. }
      split.
      - intros c Hc.
        assert (Hc' : agree_above b c x) by (apply (agree_above_weaken (b - 1)); [lia|exact Hc]).
        assert (Hcb : Z.testbit c b = false) by (rewrite (Hc b ltac:(lia)); exact Ex).
        assert (Axc : agree_above b zx c) by (eapply agree_above_trans; [exact Ax|apply agree_above_sym; exact Hc']).
        rewrite (HC c Hc'). unfold inbox, zx'. split; intros H i Hi; specialize (H i Hi).
        + destruct (Z.eq_dec i (b mod D)) as [->|Hne].
          * pose proof (mv_ldlo_dom zx b c Hvx Hb Axc Hcb). lia.
          * rewrite mv_ldlo_other by assumption. exact H.
        + destruct (Z.eq_dec i (b mod D)) as [->|Hne].
          * pose proof (mv_lt_bit b c zx Hb (agree_above_sym _ _ _ Axc) Hcb Ez). lia.
          * rewrite mv_ldlo_other in H by assumption. exact H.
      - assert (Hcand : cand (b - 1) bm').
        { split.
          - apply (HC bm' Ab). intros i Hi. unfold bm' in *.
            destruct (Z.eq_dec i (b mod D)) as [->|Hne].
            + pose proof (mv_lt_bit b zn _ Hb (agree_above_sym _ _ _ (ldhi_above zn b Hvn Hb)) En Bb).
              pose proof (mv_ldhi_dom zn b zx Hvn Hb Anx Ez). lia.
            + rewrite mv_ldhi_other by assumption. specialize (HB i Hi). lia.
          - exists b. split; [lia|]. split; [exact Ex|]. split; [exact Bb|exact Ab]. }
        split; [|intros _; split; assumption].
        intros c Hc (Hin & k & Hk & H1 & H2 & H3).
        destruct (Z.eq_dec k b) as [->|Hne].
        + apply (HC c H3) in Hin.
          assert (Anc : agree_above b zn c) by (eapply agree_above_trans; [exact An|apply agree_above_sym; exact H3]).
          apply code_le_mv; [exact Vb|exact Hc|]. intros i Hi. unfold bm'.
          destruct (Z.eq_dec i (b mod D)) as [->|Hne].
          * apply mv_ldhi_dom; assumption.
          * rewrite mv_ldhi_other by assumption. apply Hin. exact Hi.
        + assert (bm' < c); [|lia].
          apply (lt_by_bit bm' c k); [apply Vb|apply Hc|lia| | |exact H2].
          * intros k' Hk'. rewrite (Ab k' ltac:(lia)). symmetry. apply H3. exact Hk'.
          * rewrite (Ab k ltac:(lia)). exact H1.
    Qed.

    Lemma final_3 b zn zx bm : 0 <= b < N -> Inv b zn zx bm ->
      Z.testbit x b = false -> Z.testbit zn b = true -> Z.testbit zx b = true -> Result zn.
    Proof.
      intros Hb (Hvn & Hvx & An & Ax & HB & HC & HL) Ex En Ez.
      split; [|split].
      - apply (lt_by_bit x zn b); [apply Hx|apply Hvn|lia| |exact Ex|exact En].
        intros k' Hk'. symmetry. apply An. exact Hk'.
      - apply (HC zn An). intros i Hi. specialize (HB i Hi). lia.
      - intros c Hc Hxc Hin. destruct (hdb x c ltac:(destruct Hx; lia)) as (k & Hk & H1 & H2 & H3).
        destruct (Z_lt_ge_dec b k) as [Hbk|Hkb].
        + assert (zn < c); [|lia].
          apply (lt_by_bit zn c k); [apply Hvn|apply Hc|lia| | |exact H2].
          * intros k' Hk'. rewrite (An k' ltac:(lia)). apply H3. exact Hk'.
          * rewrite (An k Hbk). exact H1.
        + assert (Hag : agree_above b c x) by (intros k' Hk'; symmetry; apply H3; lia).
          apply (HC c Hag) in Hin. apply code_le_mv; [exact Hvn|exact Hc|].
          intros i Hi. apply Hin. exact Hi.
    Qed.

    Lemma final_4 b zn zx bm : 0 <= b < N -> Inv b zn zx bm ->
      Z.testbit x b = true -> Z.testbit zn b = false -> Z.testbit zx b = false ->
      (exists c0, vcode m c0 /\ x < c0 /\ inbox0 c0) -> Result bm.
    Proof.
      intros Hb (Hvn & Hvx & An & Ax & HB & HC & HL) Ex En Ez Hex.
      pose proof (mod_dim b ltac:(lia)) as Hd.
      apply (finish b); [lia|exact HL| |exact Hex].
      intros c Hc Hxc Hin. destruct (hdb x c ltac:(destruct Hx; lia)) as (k & Hk & H1 & H2 & H3).
      destruct (Z_lt_ge_dec b k) as [Hbk|Hkb].
      - split; [exact Hin|]. exists k. repeat split; try assumption.
        intros k' Hk'. symmetry. apply H3. exact Hk'.
      - exfalso. destruct (Z.eq_dec k b) as [->|Hne]; [congruence|].
        assert (Hag : agree_above b c x) by (intros k' Hk'; symmetry; apply H3; lia).
        assert (Hcb : Z.testbit c b = true) by (rewrite <- (H3 b ltac:(lia)); exact Ex).
        apply (HC c Hag) in Hin. specialize (Hin (b mod D) Hd).
        assert (Axc : agree_above b zx c) by (eapply agree_above_trans; [exact Ax|apply agree_above_sym; exact Hag]).
        pose proof (mv_lt_bit b zx c Hb Axc Ez Hcb). lia.
    Qed.

    Lemma final_end zn zx bm : Inv (-1) zn zx bm ->
      (exists c0, vcode m c0 /\ x < c0 /\ inbox0 c0) -> Result bm.
    Proof.
      intros (Hvn & Hvx & An & Ax & HB & HC & HL) Hex.
      apply (finish (-1)); [lia|exact HL| |exact Hex].
      intros c Hc Hxc Hin. destruct (hdb x c ltac:(destruct Hx; lia)) as (k & Hk & H1 & H2 & H3).
      split; [exact Hin|]. exists k. split; [lia|]. repeat split; try assumption.
      intros k' Hk'. symmetry. apply H3. exact Hk'.
    Qed.

    Lemma zseq_snoc : forall n s, zseq s (S n) = zseq s n ++ [s + Z.of_nat n].
    Proof.
      induction n as [|n IH]; intros s.
      - cbn [zseq app]. f_equal. lia.
      - change (zseq s (S (S n))) with (s :: zseq (s + 1) (S n)). rewrite IH.
        cbn [zseq app]. do 2 f_equal. f_equal. lia.
    Qed.
    Lemma rev_zseq_S n : rev (zseq 0 (S n)) = Z.of_nat n :: rev (zseq 0 n).
    Proof. rewrite zseq_snoc, rev_app_distr. reflexivity. Qed.

    Lemma bigmin_loop_correct : forall n zn zx bm, Z.of_nat n <= N ->
      Inv (Z.of_nat n - 1) zn zx bm ->
      (exists c0, vcode m c0 /\ x < c0 /\ inbox0 c0) ->
      Result (bigmin_loop m (rev (zseq 0 n)) x zn zx bm).
    Proof.
      induction n as [|n IH]; intros zn zx bm Hn HI Hex.
      - cbn [zseq rev bigmin_loop]. apply (final_end zn zx); assumption.
      - rewrite rev_zseq_S, bigmin_loop_cons.
        replace (Z.of_nat (S n) - 1) with (Z.of_nat n) in HI by lia.
        assert (Hb : 0 <= Z.of_nat n < N) by lia.
        assert (Hn' : Z.of_nat n <= N) by lia.
        destruct (Z.testbit x (Z.of_nat n)) eqn:Ex, (Z.testbit zn (Z.of_nat n)) eqn:En,
                 (Z.testbit zx (Z.of_nat n)) eqn:Ez.
        + apply IH; [exact Hn'| |exact Hex]. apply step_same; [exact Hb|exact HI|congruence|congruence].
        + exfalso. exact (step_imposs _ _ _ _ Hb HI En Ez).
        + apply IH; [exact Hn'| |exact Hex]. apply step_5; assumption.
        + apply (final_4 (Z.of_nat n) zn zx); assumption.
        + apply (final_3 (Z.of_nat n) zn zx bm); assumption.
        + exfalso. exact (step_imposs _ _ _ _ Hb HI En Ez).
        + apply IH; [exact Hn'| |exact Hex]. apply (step_1 _ zn zx bm); assumption.
        + apply IH; [exact Hn'| |exact Hex]. apply step_same; [exact Hb|exact HI|congruence|congruence].
    Qed.

    Lemma bits_hi_pow v k : 0 <= v -> bits_hi v < k -> v < 2 ^ k.
    Proof.
      intros Hv Hk. unfold bits_hi in Hk. destruct (v <=? 0) eqn:E.
      - assert (v = 0) by lia. subst v. apply Z.pow_pos_nonneg; lia.
      - apply Z.log2_lt_pow2; lia.
    Qed.
    Lemma bits_hi_above v k : 0 <= v -> bits_hi v < k -> Z.testbit v k = false.
    Proof.
      intros Hv Hk. assert (0 <= bits_hi v) by (unfold bits_hi; destruct (v <=? 0); [lia|apply Z.log2_nonneg]).
      apply (small_bits_high k); [lia|split; [lia|apply bits_hi_pow; assumption]|lia].
    Qed.
    Lemma bits_hi_lt_N v : vcode m v -> 0 <= bits_hi v < N.
    Proof.
      intros Hv. pose proof N_pos. unfold bits_hi. destruct (v <=? 0) eqn:E; [lia|].
      split; [apply Z.log2_nonneg|]. apply Z.log2_lt_pow2; [lia|apply Hv].
    Qed.

    Theorem bigmin_correct_codes :
      (forall i, 0 <= i < D -> mv m i zmin0 <= mv m i zmax0) ->
      (exists c0, vcode m c0 /\ x < c0 /\ inbox0 c0) ->
      Result (bigmin m x zmin0 zmax0).
    Proof.
      intros HB Hex. unfold bigmin. cbv zeta.
      set (hb := Z.max (Z.max (bits_hi x) (bits_hi zmin0)) (bits_hi zmax0)).
      pose proof (bits_hi_lt_N x Hx) as B1. pose proof (bits_hi_lt_N zmin0 Hzn0) as B2.
      pose proof (bits_hi_lt_N zmax0 Hzx0) as B3.
      assert (Hhb : 0 <= hb < N) by (unfold hb; lia).
      apply bigmin_loop_correct; [lia| |exact Hex].
      replace (Z.of_nat (Z.to_nat (hb + 1)) - 1) with hb by lia.
      split; [exact Hzn0|]. split; [exact Hzx0|].
      split.
      { intros k Hk. rewrite (bits_hi_above zmin0 k), (bits_hi_above x k); try reflexivity;
          try (unfold hb in Hk; lia); [apply Hx|apply Hzn0]. }
      split.
      { intros k Hk. rewrite (bits_hi_above zmax0 k), (bits_hi_above x k); try reflexivity;
          try (unfold hb in Hk; lia); [apply Hx|apply Hzx0]. }
      split; [exact HB|]. split; [intros c _; tauto|].
      assert (Hno : forall c, vcode m c -> cand hb c -> False).
      { intros c Hc (Hin & k & Hk & H1 & H2 & H3).
        assert (Hle : c <= zmax0) by (apply code_le_mv; [exact Hc|exact Hzx0|intros i Hi; apply Hin; exact Hi]).
        assert (Hlt : zmax0 < 2 ^ k) by (apply bits_hi_pow; [apply Hzx0|unfold hb in Hk; lia]).
        rewrite (small_bits_high k c k) in H2; [discriminate|lia|split; [apply Hc|lia]|lia]. }
      split.
      - intros c Hc Hcand. exfalso. exact (Hno c Hc Hcand).
      - intros (c & Hc & Hcand). exfalso. exact (Hno c Hc Hcand).
    Qed.
  End Inv.
End BM.

(* ---- the general theorem: BIGMIN is correct for every valid configuration and every width ---- *)
Theorem bigmin_spec_general m : wf_mcfg m -> bigmin_spec m.
Proof.
  intros Hwf lo hi x Ll Lh Cl Ch Hle Hx Hnot.
  pose proof (encode_range m Hwf lo Ll) as Vn. pose proof (encode_range m Hwf hi Lh) as Vx.
  set (zmin := encode m lo) in *. set (zmax := encode m hi) in *.
  assert (Vxx : vcode m x) by (unfold vcode; lia).
  assert (Hzz : inbox m zmin zmax zmax).
  { apply (box_inbox m Hwf). apply (box_zcontains_spec_wf m Hwf); try assumption.
    split; [exact Hle|apply Forall2_le_refl]. }
  assert (Hne : x <> zmax).
  { intros ->. apply (box_inbox m Hwf) in Hzz. congruence. }
  assert (Hex : exists c0, vcode m c0 /\ x < c0 /\ inbox m zmin zmax c0).
  { exists zmax. split; [exact Vx|]. split; [lia|exact Hzz]. }
  assert (HB : forall i, 0 <= i < m_dims m -> mv m i zmin <= mv m i zmax).
  { intros i Hi. apply Hzz. exact Hi. }
  destruct (bigmin_correct_codes m Hwf x zmin zmax Vxx Vn Vx HB Hex) as (R1 & R2 & R3).
  cbv zeta. split; [exact R1|]. split; [apply (box_inbox m Hwf); exact R2|].
  intros c Hxc Hc. apply (box_inbox m Hwf) in Hc.
  destruct (Z_lt_ge_dec c (2 ^ (m_dims m * field_bits m))) as [Hlt|Hge].
  - apply R3; [unfold vcode; lia|exact Hxc|exact Hc].
  - pose proof (R3 zmax Vx ltac:(lia) Hzz). unfold vcode in Vx. lia.
Qed.

Corollary bigmin_spec_w_general m w : wf_mcfg m -> 0 <= w <= field_bits m -> bigmin_spec_w m w.
Proof.
  intros Hwf Hw lo hi x Ll Lh Cl Ch. apply (bigmin_spec_general m Hwf); try assumption.
  - eapply Forall_impl; [|exact Cl]. intros a Ha. cbv beta in *.
    assert (2 ^ w <= 2 ^ field_bits m) by (apply Z.pow_le_mono_r; lia). lia.
  - eapply Forall_impl; [|exact Ch]. intros a Ha. cbv beta in *.
    assert (2 ^ w <= 2 ^ field_bits m) by (apply Z.pow_le_mono_r; lia). lia.
Qed.

Print Assumptions bigmin_spec_general.

From Coq Require Import Permutation.

(* ==== (c) the container: build + contains + range, with BIGMIN discharged ==== *)
Lemma sortedb_cons_iff y l : sortedb (y :: l) = true <-> (forall z, In z l -> y <= z) /\ sortedb l = true.
Proof.
  split.
  - intros H. split; [intros z Hz; eapply sortedb_head_le; eassumption|eapply sortedb_tail; eassumption].
  - intros [H1 H2]. destruct l as [|z t]; [reflexivity|].
    cbn [sortedb] in *. apply andb_true_intro. split; [|exact H2].
    specialize (H1 z (or_introl eq_refl)). lia.
Qed.

Lemma insert_sorted_in x l z : In z (insert_sorted x l) <-> z = x \/ In z l.
Proof.
  induction l as [|y t IH]; cbn [insert_sorted In]; [intuition|].
  destruct (x <=? y); cbn [In]; [intuition|]. rewrite IH. intuition.
Qed.

Lemma insert_sorted_sorted x l : sortedb l = true -> sortedb (insert_sorted x l) = true.
Proof.
  induction l as [|y t IH]; intros Hs; [reflexivity|].
  cbn [insert_sorted]. destruct (x <=? y) eqn:E.
  - apply sortedb_cons_iff. split; [|exact Hs].
    intros z [<-|Hz]; [lia|]. apply sortedb_cons_iff in Hs. destruct Hs as [H1 _]. specialize (H1 z Hz). lia.
  - apply sortedb_cons_iff in Hs. destruct Hs as [H1 H2]. apply sortedb_cons_iff. split; [|apply IH; exact H2].
    intros z Hz. apply insert_sorted_in in Hz. destruct Hz as [->|Hz]; [lia|apply H1; exact Hz].
Qed.

Lemma sort_codes_sorted l : sortedb (sort_codes l) = true.
Proof. induction l as [|x t IH]; [reflexivity|]. cbn [sort_codes fold_right]. apply insert_sorted_sorted. exact IH. Qed.

Lemma insert_sorted_perm x l : Permutation (insert_sorted x l) (x :: l).
Proof.
  induction l as [|y t IH]; [reflexivity|]. cbn [insert_sorted].
  destruct (x <=? y); [reflexivity|]. rewrite IH. apply perm_swap.
Qed.
Lemma sort_codes_perm l : Permutation (sort_codes l) l.
Proof.
  induction l as [|x t IH]; [reflexivity|]. cbn [sort_codes fold_right].
  rewrite insert_sorted_perm. constructor. exact IH.
Qed.

Definition point_ok (m : mcfg) (p : list Z) : Prop := zlen p = m_dims m /\ Forall (fun x => 0 <= x) p.

Lemma bit_width_small x f : 0 <= x -> 1 <= f -> (BIT_WIDTH x >=? f) = false -> x < 2 ^ (f - 1).
Proof.
  intros Hx Hf H. unfold BIT_WIDTH, clzll in H. destruct (x =? 0) eqn:E.
  - assert (x = 0) by lia. subst x. apply Z.pow_pos_nonneg; lia.
  - apply Z.log2_lt_pow2; lia.
Qed.

Lemma multi_build_ok m points mu : multi_build m points = Ok mu ->
  mu_data mu = sort_codes (map (encode m) points) /\
  (forall p x, In p points -> In x p -> (BIT_WIDTH x >=? field_bits m) = false).
Proof.
  unfold multi_build. intros H.
  destruct (existsb (fun p => existsb (fun x => BIT_WIDTH x >=? field_bits m) p) points) eqn:E; [discriminate|].
  destruct (build (m_cfg m) (sort_codes (map (encode m) points))) as [ix|e] eqn:Eb; cbn [bind] in H; [|discriminate].
  injection H as <-. split; [reflexivity|].
  intros p x Hp Hxp. destruct (BIT_WIDTH x >=? field_bits m) eqn:Ew; [|reflexivity].
  assert (existsb (fun p => existsb (fun x => BIT_WIDTH x >=? field_bits m) p) points = true); [|congruence].
  apply existsb_exists. exists p. split; [exact Hp|]. apply existsb_exists. exists x. split; assumption.
Qed.

Lemma built_points_ok m points mu : wf_mcfg m -> Forall (point_ok m) points -> multi_build m points = Ok mu ->
  forall p, In p points -> zlen p = m_dims m /\ coords_ok (field_bits m) p.
Proof.
  intros Hwf Hok Hb p Hp. destruct (multi_build_ok m points mu Hb) as [_ Hw].
  rewrite Forall_forall in Hok. destruct (Hok p Hp) as [Hl Hnn]. split; [exact Hl|].
  unfold coords_ok. rewrite Forall_forall in *. intros x Hx. specialize (Hnn x Hx).
  pose proof (F_pos m Hwf) as HF.
  pose proof (bit_width_small x (field_bits m) Hnn HF (Hw p x Hp Hx)) as Hs.
  assert (2 ^ (field_bits m - 1) <= 2 ^ field_bits m) by (apply Z.pow_le_mono_r; lia). lia.
Qed.

Theorem multi_index_correct m points mu :
  valid_mcfg m -> Forall (point_ok m) points -> multi_build m points = Ok mu ->
  (* C02 of the inner index *)
  (forall q, 0 <= q -> exists lo hi, multi_range_of m mu q = Ok (lo, hi) /\ 0 <= lo /\
     lo <= lb (mu_data mu) q /\ lb (mu_data mu) q <= hi /\ hi <= zlen (mu_data mu)) ->
  let stored := map (decode m) (mu_data mu) in
  Permutation stored points /\
  (forall p, zlen p = m_dims m -> coords_ok (field_bits m) p ->
     exists b, multi_contains m mu p = Ok b /\ (b = true <-> In p points)) /\
  (forall pmin pmax, zlen pmin = m_dims m -> zlen pmax = m_dims m ->
     coords_ok (field_bits m) pmin -> coords_ok (field_bits m) pmax -> Forall2 Z.le pmin pmax ->
     multi_range m mu pmin pmax = Ok (filter (in_boxb pmin pmax) stored)).
Proof.
  intros Hv Hok Hb Hrange stored. pose proof (valid_wf m Hv) as Hwf.
  destruct (multi_build_ok m points mu Hb) as [Hd _].
  pose proof (built_points_ok m points mu Hwf Hok Hb) as Hpts.
  pose proof (sort_codes_perm (map (encode m) points)) as Hperm. rewrite <- Hd in Hperm.
  assert (Hsorted : sortedb (mu_data mu) = true) by (rewrite Hd; apply sort_codes_sorted).
  assert (Hcodes : Forall (fun c => 0 <= c < 2 ^ (m_dims m * field_bits m)) (mu_data mu)).
  { apply Forall_forall. intros c Hc. apply (Permutation_in _ Hperm) in Hc.
    apply in_map_iff in Hc. destruct Hc as (p & <- & Hp). apply (encode_range m Hwf). apply Hpts. exact Hp. }
  split; [|split].
  - unfold stored. rewrite (Permutation_map (decode m) Hperm), map_map.
    rewrite (map_ext_in _ (fun p => p)); [rewrite map_id; reflexivity|].
    intros p Hp. destruct (Hpts p Hp). apply (decode_encode_wf m Hwf); assumption.
  - intros p Hl Hp. eexists. split.
    + apply (contains_spec m Hwf mu (mu_data mu) eq_refl Hsorted Hcodes Hrange p Hl Hp).
    + rewrite existsb_exists. split.
      * intros (c & Hc & E). apply Z.eqb_eq in E. subst c. apply (Permutation_in _ Hperm) in Hc.
        apply in_map_iff in Hc. destruct Hc as (q & E & Hq). destruct (Hpts q Hq).
        rewrite <- (encode_injective_wf m Hwf q p); assumption.
      * intros Hin. exists (encode m p). split; [|apply Z.eqb_refl].
        apply (Permutation_in _ (Permutation_sym Hperm)). apply in_map. exact Hin.
  - intros pmin pmax L1 L2 C1 C2 Hle. unfold stored.
    apply (range_spec_points m Hwf mu (mu_data mu) eq_refl Hsorted Hcodes Hrange (field_bits m));
      try assumption; [pose proof (F_pos m Hwf); lia|apply bigmin_spec_general; exact Hwf].
Qed.

Print Assumptions multi_index_correct.

(* Ownership.v — C19 (the part that is logic): an object is a set of storage nodes, each holding pointer
   members that either are re-bound by the class's copy/move operations or are copied verbatim.  If every
   pointer member is re-bound, a copy (with fresh storage) never refers to storage of its source, whatever
   happens to the source afterwards.  The member kinds come from GenLayout.v, REGENERATED from the clang AST
   of the current source by tools/layout_translate.py. *)
From Coq Require Import List Bool String Arith Lia.
Require Import GenLayout.
Import ListNotations.
Local Open Scope string_scope.

(* ---- layout-level decision procedure ---- *)
Definition class_fields (L : list field) (c : string) : list field := filter (fun f => String.eqb (f_class f) c) L.

Fixpoint indep_b (fuel : nat) (L : list field) (c : string) : bool :=
  match fuel with
  | O => false
  | S k =>
      forallb (fun f => match f_kind f with
                        | Value | SelfRebinding | ReboundSupport => true
                        | Owning e => indep_b k L e
                        | Support | RawPtr | Ref => false
                        end) (class_fields L c)
  end.

Theorem all_classes_indep : forallb (indep_b 8 layout) index_classes = true.
Proof. vm_compute. reflexivity. Qed.

(* the translator saw the classes (non-vacuity) and the member that needs re-binding *)
Theorem layout_nonvacuous :
  (30 <=? List.length layout)%nat &&
  existsb (fun f => String.eqb (f_class f) "CompressedLevel" && String.eqb (f_name f) "sel1") layout &&
  existsb (fun f => String.eqb (f_class f) "EliasFanoPGMIndex" && String.eqb (f_name f) "ef") layout &&
  existsb (fun f => String.eqb (f_class f) "DynamicPGMIndex" && String.eqb (f_name f) "pgms") layout = true.
Proof. vm_compute. reflexivity. Qed.

(* ---- abstract store ---- *)
Record node := mkNode { n_id : nat; n_ptrs : list (bool * nat) }.     (* (re-bound by copy/move?, target node) *)
Definition object := list node.
Definition ids (o : object) : list nat := map n_id o.

(* well-formed: every pointer member points into the object's own storage *)
Definition wf (o : object) : Prop := forall n p, In n o -> In p (n_ptrs n) -> In (snd p) (ids o).
Definition all_rebound (o : object) : Prop := forall n p, In n o -> In p (n_ptrs n) -> fst p = true.

(* memberwise copy / move into fresh storage f: re-bound members follow the renaming, others are copied verbatim *)
Definition copy_ptr (f : nat -> nat) (p : bool * nat) : bool * nat := if fst p then (true, f (snd p)) else p.
Definition copy (f : nat -> nat) (o : object) : object :=
  map (fun n => mkNode (f (n_id n)) (map (copy_ptr f) (n_ptrs n))) o.

Lemma ids_copy f o : ids (copy f o) = map f (ids o).
Proof. unfold ids, copy. rewrite !map_map. reflexivity. Qed.

Theorem indep_sound : forall f o,
  wf o -> all_rebound o ->
  wf (copy f o) /\
  (* fresh storage disjoint from the source's: the copy refers to none of the source's nodes *)
  ((forall i, In i (ids o) -> ~ In (f i) (ids o)) ->
   forall n' p', In n' (copy f o) -> In p' (n_ptrs n') -> ~ In (snd p') (ids o)).
Proof.
  intros f o Hwf Hreb.
  assert (Hc : forall n' p', In n' (copy f o) -> In p' (n_ptrs n') -> exists t, In t (ids o) /\ snd p' = f t).
  { intros n' p' Hn Hp. unfold copy in Hn. apply in_map_iff in Hn. destruct Hn as [n [<- Hn]].
    cbn [n_ptrs] in Hp. apply in_map_iff in Hp. destruct Hp as [p [<- Hp]].
    unfold copy_ptr. rewrite (Hreb n p Hn Hp). cbn [snd]. exists (snd p). split; [apply (Hwf n p Hn Hp) | reflexivity]. }
  split.
  - intros n' p' Hn Hp. destruct (Hc n' p' Hn Hp) as [t [Ht ->]]. rewrite ids_copy. apply in_map. exact Ht.
  - intros Hfresh n' p' Hn Hp. destruct (Hc n' p' Hn Hp) as [t [Ht ->]]. apply Hfresh. exact Ht.
Qed.

(* conversely a member copied verbatim keeps pointing into the source: destroying the source leaves it dangling *)
Theorem verbatim_pointer_dangles : forall f o n p,
  wf o -> In n o -> In p (n_ptrs n) -> fst p = false ->
  exists n' p', In n' (copy f o) /\ In p' (n_ptrs n') /\ In (snd p') (ids o).
Proof.
  intros f o n p Hwf Hn Hp Hf.
  exists (mkNode (f (n_id n)) (map (copy_ptr f) (n_ptrs n))), p. split; [|split].
  - unfold copy. apply in_map_iff. exists n. split; [reflexivity | exact Hn].
  - cbn [n_ptrs]. apply in_map_iff. exists p. split; [unfold copy_ptr; rewrite Hf; reflexivity | exact Hp].
  - apply (Hwf n p Hn Hp).
Qed.

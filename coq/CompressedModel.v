(* CompressedModel.v — CompressedPGMIndex: level construction without sentinel bookkeeping, get_slope_range /
   get_intersection (x87 long double, operations in source order), merge_slopes, CompressedLevel (clamped
   intercepts stored in an sd_vector with select), search with both routing branches. *)
Require Import Base Fp PlaModel GenLeaf IndexModel.
From Flocq Require Import IEEE754.BinarySingleNaN.
Local Open Scope Z_scope.

(* ---- long double helpers ---- *)
Definition cmp80 (a b : f80) : option comparison := Bcompare a b.
Definition lt80 (a b : f80) : bool := match cmp80 a b with Some Lt => true | _ => false end.
Definition gt80 (a b : f80) : bool := match cmp80 a b with Some Gt => true | _ => false end.
Definition half80 : f80 := div80 (ofZ80 1) (ofZ80 2).

(* Floating value of a long double, kept as double *)
Definition to_floating (c : cfg) (x : f80) : f64 := if c_fdouble c then f80_to_f64 x else f32_to_f64 (f80_to_f32 x).

(* std::round(long double): nearest, ties away from zero; None for inf/nan *)
Definition round80_away (x : f80) : option Z :=
  match x with
  | B754_zero _ => Some 0
  | B754_finite s m e _ =>
      let mag :=
        match e with
        | Zneg p => let q := Z.shiftr (Zpos m) (Zpos p) in
                    let r := Zpos m - Z.shiftl q (Zpos p) in
                    if 2 * r >=? 2 ^ (Zpos p) then q + 1 else q
        | _ => Z.shiftl (Zpos m) e
        end in
      Some (if s then - mag else mag)
  | _ => None
  end.
Definition to_i64 (z : option Z) : Z :=
  match z with Some v => if (- 2 ^ 63 <=? v) && (v <? 2 ^ 63) then v else - 2 ^ 63 | None => - 2 ^ 63 end.

(* CanonicalSegment::get_slope_range *)
Definition slope_ld (s : slp) : f80 := div80 (ofZ80 (snd s)) (ofZ80 (fst s)).
Definition get_slope_range (cs : cseg) : f80 * f80 :=
  if one_point cs then (ofZ80 0, ofZ80 1)
  else (slope_ld (psub (c_r2 cs) (c_r0 cs)), slope_ld (psub (c_r3 cs) (c_r1 cs))).

(* CanonicalSegment::get_intersection(origin): abscissa relative to origin, computed exactly before the
   floating-point part (after the fix) *)
Definition get_intersection (cs : cseg) (origin : Z) : f80 * f80 :=
  let p0 := c_r0 cs in let p1 := c_r1 cs in let p2 := c_r2 cs in let p3 := c_r3 cs in
  let s1 := psub p2 p0 in let s2 := psub p3 p1 in
  let p0x := ofZ80 (fst p0 - origin) in
  if one_point cs || seq_ s1 s2 then (p0x, ofZ80 (snd p0))
  else
    let p0p1 := psub p1 p0 in
    let a := fst s1 * snd s2 - snd s1 * fst s2 in
    let b := div80 (ofZ80 (fst p0p1 * snd s2 - snd p0p1 * fst s2)) (ofZ80 a) in
    (add80 p0x (mul80 b (ofZ80 (fst s1))), add80 (ofZ80 (snd p0)) (mul80 b (ofZ80 (snd s1)))).

(* pair<long double,long double> operator< *)
Definition range_lt (a b : f80 * f80) : bool := lt80 (fst a) (fst b) || (negb (lt80 (fst b) (fst a)) && lt80 (snd a) (snd b)).

Fixpoint insert_by {A} (lt : A -> A -> bool) (x : A) (l : list A) : list A :=
  match l with [] => [x] | y :: t => if lt x y then x :: l else y :: insert_by lt x t end.
Definition sort_by {A} (lt : A -> A -> bool) (l : list A) : list A := fold_right (insert_by lt) [] l.

(* the sweep of merge_slopes over the segments sorted by slope range; returns (table, mapping by original index) *)
Fixpoint sweep (c : cfg) (l : list (Z * (f80 * f80))) (cmin cmax : f80) (table : list f64) (mapping : list (Z * Z))
  : list f64 * list (Z * Z) :=
  match l with
  | [] => (table ++ [to_floating c (mul80 half80 (add80 cmin cmax))], mapping)
  | (i, (mn, mx)) :: rest =>
      if gt80 mn cmax then
        let table' := table ++ [to_floating c (mul80 half80 (add80 cmin cmax))] in
        sweep c rest mn mx table' ((i, zlen table') :: mapping)
      else
        let cmin' := if gt80 mn cmin then mn else cmin in
        let cmax' := if lt80 mx cmax then mx else cmax in
        sweep c rest cmin' cmax' table ((i, zlen table) :: mapping)
  end.

Definition lookup_map (mapping : list (Z * Z)) (i : Z) : Z :=
  match List.find (fun p => fst p =? i) mapping with Some p => snd p | None => 0 end.

Definition merge_slopes (c : cfg) (segs : list cseg) : list f64 * list Z * list Z :=
  let idx := zseq 0 (length segs) in
  let ranges := map (fun p => (fst p, get_slope_range (snd p))) (combine idx segs) in
  let sorted := sort_by (fun a b => range_lt (snd a) (snd b)) ranges in
  match sorted with
  | [] => ([], [], [])
  | (i0, (mn0, mx0)) :: rest =>
      let '(table, mapping) := sweep c rest mn0 mx0 [] [(i0, 0)] in
      let maps := map (lookup_map mapping) idx in
      let intercepts :=
        map (fun p =>
               let '(i, cs) := p in
               let '(ix, iy) := get_intersection cs (c_first cs) in
               let slope := f64_to_f80 (nth (Z.to_nat (lookup_map mapping i)) table f64_zero) in
               to_i64 (round80_away (sub80 iy (mul80 ix slope))))
            (combine idx segs) in
      (table, map (wrapU 32) maps, intercepts)
  end.

(* ---- CompressedLevel ---- *)
Record clevel := mkClevel {
  cl_keys : list Z;
  cl_slopes_map : list Z;
  cl_offset : Z;
  cl_vals : list Z;            (* the positions set in compressed_intercepts (what sel1(i+1) returns) *)
  cl_max : Z                   (* max_intercept = size of the bitvector *)
}.

Definition bits_hi_z (x : Z) : Z := if x <=? 0 then 0 else Z.log2 x.
Definition clamp (v lo hi : Z) : Z := if v <? lo then lo else if hi <? v then hi else v.

(* positions handed to the builder must be strictly increasing and below the vector size
   (an sdsl assertion; silent corruption with NDEBUG): modelled as an out-of-bounds write *)
Fixpoint positions_ok (prev : Z) (l : list Z) (size : Z) : bool :=
  match l with [] => true | v :: t => (prev <? v) && (v <? size) && positions_ok v t size end.

Definition clevel_build (c : cfg) (segs : list cseg) (icpts : list Z) (maps : list Z) (table : list f64)
           (prev_level_size last_key : Z) : res clevel :=
  let kt := c_kt c in
  match icpts with
  | [] => Err OutOfBounds
  | off :: _ =>
      let last_map := last maps 0 in
      let need_extra := f64_is_zero (nth (Z.to_nat last_map) table f64_zero) in
      let keys := map c_first segs ++ (if need_extra then [wrapK kt (last_key + 1)] else []) ++ [kmax kt] in
      let max_intercept := wrapU 64 (prev_level_size - off + 2) in
      let count := zlen icpts + (if need_extra then 1 else 0) + 1 in
      if count >? max_intercept then Err ThrowRuntimeError else
      let fix body (prev : Z) (l : list Z) : list Z :=
        match l with
        | [] => []
        | v :: t => wrapU 64 (clamp v (prev + 1) (prev_level_size - 1) - off) :: body v t
        end in
      let vals := 0 :: body off (tl icpts) ++ (if need_extra then [max_intercept - 2] else []) ++ [max_intercept - 1] in
      if negb (positions_ok (-1) vals max_intercept) then Err OutOfBounds else
      let width := bits_hi_z (zlen table - 1) + 1 in
      let smap := map (wrapU width) maps ++ (if need_extra then [0] else []) in
      Ok (mkClevel keys smap off vals max_intercept)
  end.

Definition cl_size (l : clevel) : Z := zlen (cl_keys l) - 1.
Definition cl_get_intercept (l : clevel) (i : Z) : res Z := do v <- nth_res (cl_vals l) i; Ok (wrapS 64 (cl_offset l + v)).   (* int64_t arithmetic *)

(* int64_t(slope * (k - origin)) with Floating arithmetic, saturating for far keys: p >= Floating(INT64_MAX / 2) = 2^62
   (after the fixes; the limit is tied to the source by LeafTie.sat_limit_tie) *)
Definition fmul_to_i64 (c : cfg) (slope : f64) (d : Z) : Z :=
  let far := fun {p e} (x : binary_float p e) => match truncZ x with Some z => z >=? 2 ^ 62 | None => true end in
  if c_fdouble c then
    let p := mul64 slope (ofZ64 d) in if far p then 2 ^ 63 - 1 else cvtt_i64 p
  else
    let p := mul32 (f64_to_f32 slope) (ofZ32 d) in if far p then 2 ^ 63 - 1 else cvtt_i64 p.

Definition kdiff (c : cfg) (k o : Z) : Z :=
  let kt := c_kt c in if kbits kt >=? 32 then wrapK kt (k - o) else k - o.

(* CompressedLevel::operator()(slopes, i, k) *)
Definition cl_eval (c : cfg) (table : list f64) (l : clevel) (i k : Z) : res Z :=
  do sm <- nth_res (cl_slopes_map l) i;
  do slope <- nth_res table sm;
  do key <- nth_res (cl_keys l) i;
  do icpt <- cl_get_intercept l i;
  let p := fmul_to_i64 c slope (kdiff c k key) in
  let pos := if p =? 2 ^ 63 - 1 then p else wrapS 64 (p + icpt) in
  Ok (if pos >? 0 then pos else 0).

Record compressed := mkCompressed {
  cp_n : Z; cp_first_key : Z;
  cp_root_slope : f64; cp_root_intercept : Z; cp_root_range : Z;
  cp_table : list f64;
  cp_levels : list clevel
}.

(* a closing point equal to the sentinel that opened its own segment is dropped (after the fix) *)
Definition drop_sentinel_segment (c : cfg) (segs : list cseg) (cnt : Z) : list cseg * Z :=
  if (cnt >? 1) && (c_first (last segs (mkCseg (0,0) (0,0) (0,0) (0,0) 0)) =? sentinel c) then (removelast segs, cnt - 1) else (segs, cnt).

Fixpoint cbuild_upper (c : cfg) (fuel : nat) (segs : list cseg) (offs : list Z) (last_n : Z) : res (list cseg * list Z) :=
  if (c_epsrec c =? 0) || (last_n <=? 1) then Ok (segs, offs) else
  match fuel with
  | O => Err OutOfFuel
  | S f =>
      let offset := nth (length offs - 2) offs 0 in
      let keys := map c_first (firstn (Z.to_nat last_n) (skipn (Z.to_nat offset) segs)) in
      do r <- make_segmentation (c_kt c) last_n (c_epsrec c) keys;
      let '(new0, _, cnt0) := r in
      let '(new, cnt) := drop_sentinel_segment c new0 cnt0 in
      cbuild_upper c f (segs ++ new) (offs ++ [last offs 0 + cnt]) cnt
  end.

Fixpoint clevels_build (c : cfg) (is_ : list Z) (segs : list cseg) (icpts maps : list Z) (table : list f64) (offs : list Z)
         (n last_key : Z) : res (list clevel) :=
  match is_ with
  | [] => Ok []
  | i :: rest =>
      let l := nth (Z.to_nat (i - 1)) offs 0 in
      let r := nth (Z.to_nat i) offs 0 in
      let prev_level_size := if i =? 1 then n else l - nth (Z.to_nat (i - 2)) offs 0 in
      do lv <- clevel_build c (slice segs l r) (slice icpts l r) (slice maps l r) table prev_level_size last_key;
      do tl <- clevels_build c rest segs icpts maps table offs n last_key;
      Ok (lv :: tl)
  end.

Definition compressed_build (c : cfg) (data : list Z) : res compressed :=
  let n := zlen data in
  if n =? 0 then Ok (mkCompressed 0 0 f64_zero 0 0 [] []) else
  if last_z data =? sentinel c then Err ThrowInvalidArgument else
  do r <- make_segmentation_par (c_kt c) par_threshold (c_par c) n (c_eps c) data;
  let '(segs00, _, c00) := r in
  let '(segs0, c0) := drop_sentinel_segment c segs00 c00 in
  do r2 <- cbuild_upper c (length data + 2) segs0 [0; c0] c0;
  let '(segs, offs) := r2 in
  let '(table, maps, icpts) := merge_slopes c segs in
  let n_levels := zlen offs - 1 in
  let first_key := hd 0 data in
  do root <-
    (if c_epsrec c >? 0 then
       do cs <- nth_res segs (nth (length offs - 2) offs 0);
       let '(sl, icpt) := cseg_line cs first_key in
       Ok (if one_point cs then f64_zero else to_floating c (slope_ld sl), wrapS 64 icpt,
           if n_levels =? 1 then n else nth (Z.to_nat (n_levels - 1)) offs 0 - nth (Z.to_nat (n_levels - 2)) offs 0)
     else Ok (f64_zero, 0, 0));
  let '(rs, ri, rr) := root in
  let is_ := if c_epsrec c =? 0 then [1] else rev (zseq 1 (Z.to_nat (n_levels - 1))) in
  do lvls <- clevels_build c is_ segs icpts maps table offs n (last_z data);
  Ok (mkCompressed n first_key rs ri rr table lvls).

Fixpoint clinear_scan (fuel : nat) (keys : list Z) (lo key : Z) : res Z :=
  match fuel with
  | O => Err OutOfFuel
  | S f => do nx <- nth_res keys (lo + 1); if nx <=? key then clinear_scan f keys (lo + 1) key else Ok lo
  end.

Fixpoint csearch_levels (c : cfg) (cp : compressed) (ls : list clevel) (pos key k : Z) : res Z :=
  match ls with
  | [] => Ok pos
  | l :: rest =>
      let lo := PGM_SUB_EPS pos (c_epsrec c + 1) in
      do i <-
        (if c_epsrec c <=? compressed_linear_search_threshold (kbits (c_kt c) / 8) then
           clinear_scan (length (cl_keys l)) (cl_keys l) lo key
         else
           let hi := PGM_ADD_EPS pos (c_epsrec c) (cl_size l) in
           if (hi >? zlen (cl_keys l)) || (hi <? lo) then Err OutOfBounds
           else Ok (ub_range (cl_keys l) lo hi k - 1));
      do e <- cl_eval c (cp_table cp) l i k;
      do nx <- cl_get_intercept l (i + 1);
      csearch_levels c cp rest (Z.min e (wrapU 64 nx)) key k
  end.

Definition compressed_search (c : cfg) (cp : compressed) (key : Z) : res approx :=
  let k := Z.max (cp_first_key cp) key in
  do pos <-
    (if c_epsrec c =? 0 then
       match cp_levels cp with
       | [] => Err OutOfBounds
       | l :: _ =>
           let i := ub_range (cl_keys l) 0 (cl_size l) k - 1 in
           do e <- cl_eval c (cp_table cp) l i k;
           do nx <- cl_get_intercept l (i + 1);
           Ok (Z.min e (wrapU 64 nx))
       end
     else
       let p0 := fmul_to_i64 c (cp_root_slope cp) (kdiff c k (cp_first_key cp)) in
       let p := if p0 =? 2 ^ 63 - 1 then p0 else wrapS 64 (p0 + cp_root_intercept cp) in
       let pos0 := Z.min (if p >? 0 then p else 0) (cp_root_range cp) in
       csearch_levels c cp (cp_levels cp) pos0 key k);
  Ok (mkApprox pos (PGM_SUB_EPS pos (c_eps c)) (PGM_ADD_EPS pos (c_eps c) (cp_n cp))).

(* IdxGapRefute.v — C07 on the linear-scan routing path, for a query above the last key: the bound
   2*EpsilonRecursive+3 on the segments touched per level is FALSE of the model; a level can touch
   2*EpsilonRecursive+4 segments.  Witness replayed on the model by vm_compute. *)
Require Import Base Fp PlaModel PlaSpec GenLeaf IndexModel IndexProofs MappedQueries IdxFed IdxSeg IdxBlock IdxLevel IdxSearch0 IdxRoute IdxChain.
From Coq Require Import ZifyBool.
Local Open Scope Z_scope.

(* 16-bit unsigned keys, float slopes (sizeof(Segment) = 10, linear_search_threshold = 51),
   Epsilon = 1, EpsilonRecursive = 1 (linear-scan routing), sequential build *)
Definition wc : cfg := mkCfg (mkK 16 false) 1 1 false 1 false.

(* every key of `wA` seven times (each run of duplicates is one level-0 segment), then a flat tail
   65510, 65520, 65533 x 5 whose segment rejects the closing point (65534, 140) *)
Definition wA : list Z :=
  flat_map (fun b => [b; b + 2; b + 4; b + 6]) [65004; 65034; 65074; 65474] ++ [65504; 65506; 65508].
Definition wdata : list Z :=
  flat_map (fun k => repeat k 7) wA ++ [65510; 65520] ++ repeat 65533 5.
Definition wq : Z := 65534.

Definition wide_entry (e : Z) (t : Z * Z * Z * Z) : bool :=
  let '(l, wlo, f, la) := t in la - f + 1 >? 2 * e + 3.

Time Example C07_refuted_raw :
  match build wc wdata with
  | Ok ix => match search_tr wc ix wq with
             | Ok (a, tr) => (tr, a_pos a, ix_offsets ix)
             | Err _ => ([], -1, []) end
  | Err _ => ([], -2, []) end
  = ([(0, 19, 20, 21); (1, 23, 24, 29)], 140, [0; 22; 30; 32]).
Proof. vm_compute. reflexivity. Qed.

(* ---- a boolean checker for the floating-point interface float_ok on concrete inputs ---- *)
Definition eval_ok_b (c : cfg) (dx dy : Z) (s : segment) (k : Z) : bool :=
  let t := seg_eval c s k - sg_icpt s in
  let dk := k - sg_key s in
  (0 <=? t) && (2 * dy * dk - 3 * dx <? 2 * t * dx) && (2 * t * dx <? 2 * dy * dk + dx).

Lemma eval_ok_b_sound c dx dy s k : eval_ok_b c dx dy s k = true -> eval_ok c dx dy s k.
Proof.
  unfold eval_ok_b. intros H. left. exists (seg_eval c s k - sg_icpt s).
  split; [lia|]. unfold ev_close. lia.
Qed.

Definition EvalOK_b (c : cfg) (k : Z) (cs : cseg) (s : segment) (rest : list segment) : bool :=
  if (sg_key s <=? k) && (match rest with s' :: _ => k <? sg_key s' | [] => true end) && (k <? sentinel c)
  then eval_ok_b c (fst (slope_of cs)) (snd (slope_of cs)) s k else true.

Lemma EvalOK_b_sound c k cs s rest : EvalOK_b c k cs s rest = true -> EvalOK c k cs s rest.
Proof.
  unfold EvalOK_b, EvalOK. intros H H1 H2 H3.
  replace (sg_key s <=? k) with true in H by lia. replace (k <? sentinel c) with true in H by lia.
  assert (E : match rest with s' :: _ => k <? sg_key s' | [] => true end = true) by (destruct rest; [reflexivity | lia]).
  rewrite E in H. cbn [andb] in H. apply eval_ok_b_sound. exact H.
Qed.

Fixpoint EvL_b (c : cfg) (k : Z) (css : list cseg) (new : list segment) : bool :=
  match css, new with
  | cs :: css', s :: new' => EvalOK_b c k cs s new' && EvL_b c k css' new'
  | [], [] => true
  | _, _ => false
  end.

Lemma EvL_b_sound c k : forall css new, EvL_b c k css new = true -> EvL (EvalOK c k) css new.
Proof.
  induction css as [|cs css IH]; intros [|s new] H; cbn [EvL_b EvL] in *; try discriminate; [exact I|].
  apply andb_prop in H. destruct H as [H1 H2]. split; [apply EvalOK_b_sound; exact H1 | apply IH; exact H2].
Qed.

Definition level_float_ok_b (c : cfg) (eps : Z) (keys : list Z) (ldk k : Z) : bool :=
  match make_segmentation_par (c_kt c) par_threshold (c_par c) (zlen keys) eps keys with
  | Ok (css, fed, cnt) =>
      match map_res (segment_of_cseg c) css with
      | Ok new =>
          EvL_b c k css new &&
          (if extra_test c (zlen keys) (last new dseg) && (sg_key (extra_seg c ldk (zlen keys)) <=? k) && (k <? sentinel c)
           then eval_ok_b c 1 0 (extra_seg c ldk (zlen keys)) k else true)
      | Err _ => true
      end
  | Err _ => true
  end.

Lemma level_float_ok_b_sound c eps keys ldk k :
  level_float_ok_b c eps keys ldk k = true -> level_float_ok c eps keys ldk k.
Proof.
  unfold level_float_ok_b, level_float_ok. intros H css fed cnt new M1 M2. rewrite M1, M2 in H.
  apply andb_prop in H. destruct H as [H1 H2]. split; [apply EvL_b_sound; exact H1|].
  intros T1 T2 T3. rewrite T1 in H2. replace (sg_key (extra_seg c ldk (zlen keys)) <=? k) with true in H2 by lia.
  replace (k <? sentinel c) with true in H2 by lia. cbn [andb] in H2. apply eval_ok_b_sound. exact H2.
Qed.

Fixpoint upper_float_ok_b (c : cfg) (fuel : nat) (ldk : Z) (segs : list segment) (offs : list Z)
         (last_n : Z) (k : Z) : bool :=
  if (c_epsrec c =? 0) || (last_n <=? 1) then true else
  match fuel with
  | O => true
  | S f =>
      let offset := nth (length offs - 2) offs 0 in
      let keys := map sg_key (firstn (Z.to_nat last_n) (skipn (Z.to_nat offset) segs)) in
      level_float_ok_b c (c_epsrec c) keys ldk k &&
      match build_level c (c_epsrec c) keys last_n ldk segs with
      | Ok (segs1, ln1) => upper_float_ok_b c f ldk segs1 (offs ++ [zlen segs1]) ln1 k
      | Err _ => true
      end
  end.

Lemma upper_float_ok_b_sound c ldk k : forall fuel segs offs last_n,
  upper_float_ok_b c fuel ldk segs offs last_n k = true -> upper_float_ok c fuel ldk segs offs last_n k.
Proof.
  induction fuel as [|f IH]; intros segs offs last_n H; cbn [upper_float_ok_b upper_float_ok] in *.
  - destruct ((c_epsrec c =? 0) || (last_n <=? 1)); exact I.
  - destruct ((c_epsrec c =? 0) || (last_n <=? 1)); [exact I|].
    apply andb_prop in H. destruct H as [H1 H2]. split; [apply level_float_ok_b_sound; exact H1|].
    destruct (build_level c (c_epsrec c) _ last_n ldk segs) as [[segs1 ln1]|e]; [apply IH; exact H2 | exact I].
Qed.

Definition float_ok_b (c : cfg) (data : list Z) (k : Z) : bool :=
  level_float_ok_b c (c_eps c) data (last_z data) k &&
  match build_level c (c_eps c) data (zlen data) (last_z data) [] with
  | Ok (segs, ln) => upper_float_ok_b c (length data + 2) (last_z data) segs [0; zlen segs] ln k
  | Err _ => true
  end.

Lemma float_ok_b_sound c data k : float_ok_b c data k = true -> float_ok c data k.
Proof.
  unfold float_ok_b, float_ok. intros H. apply andb_prop in H. destruct H as [H1 H2].
  split; [apply level_float_ok_b_sound; exact H1|].
  destruct (build_level c (c_eps c) data (zlen data) (last_z data) []) as [[segs ln]|e]; [|exact I].
  apply upper_float_ok_b_sound. exact H2.
Qed.

Lemma wfloat : float_ok wc wdata (Z.max (hd 0 wdata) wq).
Proof. apply float_ok_b_sound. vm_compute. reflexivity. Qed.

Definition C07_entry_ok (e : Z) (t : Z * Z * Z * Z) : Prop :=
  let '(l, wlo, f, la) := t in la - f + 1 <= 2 * e + 3 /\ wlo <= f.

(* the statement C07_route_trace (bound 2*EpsilonRecursive+3 for every q < sentinel) is false:
   all hypotheses of C07_route_trace_partial / C02_search hold, last < q < sentinel, the routing is
   the linear scan, and level 1 touches 6 = 2*1+4 segments (first = 24, last = 29) *)
Definition wix : index :=
  match build wc wdata with Ok ix => ix | Err _ => mkIndex 0 0 [] [] end.

(* (the index is never normalised inside a statement: its float slopes carry opaque proof terms) *)
Lemma wbuild : build wc wdata = Ok wix.
Proof.
  unfold wix. destruct (build wc wdata) as [ix|e] eqn:E; [reflexivity|exfalso].
  assert (H : match build wc wdata with Ok _ => true | Err _ => false end = true) by (vm_compute; reflexivity).
  rewrite E in H. discriminate H.
Qed.

Lemma wsearch : exists a, search_tr wc wix wq = Ok (a, [(0, 19, 20, 21); (1, 23, 24, 29)]).
Proof.
  assert (H : match search_tr wc wix wq with Ok (a, tr) => Some tr | Err _ => None end
              = Some [(0, 19, 20, 21); (1, 23, 24, 29)]) by (vm_compute; reflexivity).
  destruct (search_tr wc wix wq) as [[a tr]|e]; [|discriminate H]. injection H as ->. exists a. reflexivity.
Qed.

Lemma wsegs : zlen (ix_segments wix) = 32.
Proof. vm_compute. reflexivity. Qed.

Lemma wkeys : Forall (fun x => in_ktype (c_kt wc) x = true) wdata.
Proof.
  apply Forall_forall. intros x Hx.
  exact (proj1 (forallb_forall (in_ktype (c_kt wc)) wdata) ltac:(vm_compute; reflexivity) x Hx).
Qed.

Example C07_refuted : exists c data q ix a tr,
  1 <= kbits (c_kt c) /\ 1 <= c_eps c /\ 0 <= c_epsrec c /\ c_epsrec c + 2 ^ 32 < 2 ^ 64 - 1 /\ 1 <= c_par c /\
  data <> [] /\ sortedb data = true /\ Forall (fun x => in_ktype (c_kt c) x = true) data /\
  last_z data < sentinel c /\ zlen data < 2 ^ 32 /\ zlen data + c_eps c < 2 ^ 64 - 1 /\
  build c data = Ok ix /\ zlen (ix_segments ix) < 2 ^ 32 /\
  last_z data < q /\ q < sentinel c /\ float_ok c data (Z.max (hd 0 data) q) /\
  (c_epsrec c <=? pgm_linear_search_threshold (sizeof_segment c)) = true /\
  search_tr c ix q = Ok (a, tr) /\
  In (1, 23, 24, 29) tr /\ ~ Forall (C07_entry_ok (c_epsrec c)) tr.
Proof.
  destruct wsearch as (a & Es).
  exists wc, wdata, wq, wix, a, [(0, 19, 20, 21); (1, 23, 24, 29)].
  split; [vm_compute; discriminate|]. split; [vm_compute; discriminate|]. split; [vm_compute; discriminate|].
  split; [vm_compute; reflexivity|]. split; [vm_compute; discriminate|].
  split; [discriminate|]. split; [vm_compute; reflexivity|]. split; [exact wkeys|].
  split; [vm_compute; reflexivity|]. split; [vm_compute; reflexivity|]. split; [vm_compute; reflexivity|].
  split; [exact wbuild|]. split; [rewrite wsegs; vm_compute; reflexivity|].
  split; [vm_compute; reflexivity|]. split; [vm_compute; reflexivity|]. split; [exact wfloat|].
  split; [vm_compute; reflexivity|]. split; [exact Es|].
  split; [right; left; reflexivity|].
  intros H. inversion H as [|x l _ H2]; subst. inversion H2 as [|x l H3 _]; subst.
  unfold C07_entry_ok in H3. destruct H3 as [H3 _]. vm_compute in H3. apply H3. reflexivity.
Qed.
Print Assumptions C07_refuted.

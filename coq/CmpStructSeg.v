(* CmpStructSeg.v — every canonical segment emitted by a successful make_segmentation[_par] call satisfies
   seg_good (CmpStructDefs.v): rectangle corners are band points of the segment's own block, the minimum
   slope is at least minus the maximum slope (ranks never decrease along the fed points), and the parameter
   of get_intersection lies in [0,1].  No sortedness of the input keys is needed: inside one block the
   abscissae increase because add_point would throw otherwise, and the fed ranks are positions. *)
Require Import Base Fp PlaModel PlaSpec PlaCert Greedy PlaComplete PlaSoundGeom PlaSoundInv PlaSound
  GenLeaf IndexModel IndexProofs IdxFed ComposeBuild CompressedModel CmpCertDefs CmpStructDefs.
From Coq Require Import ZifyBool Sorted.
Local Open Scope Z_scope.

(* ---------- list order facts ---------- *)
Definition sndle (p q : Z * Z) : Prop := snd p <= snd q.
Definition mono2 (p q : Z * Z) : Prop := fst p < fst q /\ snd p <= snd q.

Lemma SS_app_inv {A} (P : A -> A -> Prop) l1 : forall l2,
  StronglySorted P (l1 ++ l2) -> StronglySorted P l1 /\ StronglySorted P l2.
Proof.
  induction l1 as [|a t IH]; intros l2 H; [split; [constructor | exact H]|].
  cbn [app] in H. inversion H as [|a' l' Ht Ha]; subst.
  destruct (IH l2 Ht) as [I1 I2]. split; [|exact I2].
  constructor; [exact I1|]. apply Forall_app in Ha. tauto.
Qed.

Lemma SS_concat_blocks {A} (P : A -> A -> Prop) g :
  StronglySorted P (concat g) -> Forall (StronglySorted P) g.
Proof.
  induction g as [|b t IH]; intros H; [constructor|]. cbn [concat] in H.
  destruct (SS_app_inv P b _ H) as [H1 H2]. constructor; [exact H1 | exact (IH H2)].
Qed.

Lemma xs_increasing_Forall a l : xs_increasing (a :: l) -> Forall (fun q => fst a < fst q) l /\ xs_increasing l.
Proof.
  revert a. induction l as [|b t IH]; intros a H; [split; [constructor | exact I]|].
  cbn [xs_increasing] in H. destruct H as [Hab Ht]. split; [|exact Ht].
  constructor; [exact Hab|]. destruct (IH b Ht) as [Hf _].
  eapply Forall_impl; [|exact Hf]. cbn beta. intros q Hq. lia.
Qed.

Lemma mono2_of l : xs_increasing l -> StronglySorted sndle l -> StronglySorted mono2 l.
Proof.
  induction l as [|a t IH]; intros Hx Hs; [constructor|].
  destruct (xs_increasing_Forall a t Hx) as [Hf Hx']. inversion Hs as [|a' l' Ht Ha]; subst.
  constructor; [apply IH; assumption|].
  rewrite Forall_forall in *. intros q Hq. split; [apply Hf | apply Ha]; exact Hq.
Qed.

Lemma mono2_pair l : StronglySorted mono2 l ->
  forall p q, In p l -> In q l -> fst p < fst q -> snd p <= snd q.
Proof.
  induction l as [|a t IH]; intros Hs p q Hp Hq Hlt; [contradiction|].
  inversion Hs as [|a' l' Ht Ha]; subst. rewrite Forall_forall in Ha.
  destruct Hp as [<-|Hp]; destruct Hq as [<-|Hq].
  - lia.
  - apply (Ha q Hq).
  - destruct (Ha p Hp) as [Hc _]. lia.
  - apply (IH Ht p q Hp Hq Hlt).
Qed.

Lemma mono2_hd_min l : StronglySorted mono2 l -> forall p, In p l -> fst (hd (0, 0) l) <= fst p.
Proof.
  intros Hs p Hp. destruct l as [|a t]; [contradiction|]. cbn [hd].
  inversion Hs as [|a' l' Ht Ha]; subst. rewrite Forall_forall in Ha.
  destruct Hp as [<-|Hp]; [lia|]. destruct (Ha p Hp). lia.
Qed.

Lemma xs_increasing_snoc l x y :
  xs_increasing l -> (forall p, In p l -> fst p < x) -> xs_increasing (l ++ [(x, y)]).
Proof.
  induction l as [|a t IH]; intros Hx Hlt; [exact I|].
  destruct t as [|b t'].
  - cbn [app xs_increasing]. split; [|exact I]. apply (Hlt a). left. reflexivity.
  - cbn [app xs_increasing] in *. destruct Hx as [Hab Ht]. split; [exact Hab|].
    apply IH; [exact Ht|]. intros p Hp. apply Hlt. right. exact Hp.
Qed.

(* ---------- the fed points of one segmentation call: ranks are positions, abscissae stay in the key type ---------- *)
Definition xin (p : Z * Z) : Prop := 0 <= fst p < 2 ^ 64.

Lemma wrapK_unsigned_range kt z : ksigned kt = false -> 0 <= kbits kt <= 64 -> 0 <= wrapK kt z < 2 ^ 64.
Proof.
  intros Hs Hb. unfold wrapK, wrapU. rewrite Hs.
  assert (0 < 2 ^ kbits kt) by (apply Z.pow_pos_nonneg; lia).
  pose proof (Z.mod_pos_bound z (2 ^ kbits kt) ltac:(lia)).
  assert (2 ^ kbits kt <= 2 ^ 64) by (apply Z.pow_le_mono_r; lia). lia.
Qed.

Lemma pt1_props kt prev x nx i : ksigned kt = false -> 0 <= kbits kt <= 64 -> 0 <= x < 2 ^ 64 ->
  Forall (fun q => snd q = i /\ xin q) (pt1 kt prev x nx i).
Proof.
  intros Hs Hb Hx. unfold pt1. destruct (x =? prev).
  - destruct (x + 1 <? nx); [|constructor]. constructor; [|constructor]. cbn [fst snd]. split; [reflexivity|].
    apply wrapK_unsigned_range; assumption.
  - constructor; [|constructor]. cbn [fst snd]. split; [reflexivity | exact Hx].
Qed.

Lemma W_props kt : ksigned kt = false -> 0 <= kbits kt <= 64 ->
  forall l prev nx i, Forall (fun x => 0 <= x < 2 ^ 64) l ->
  StronglySorted sndle (W kt prev l nx i) /\
  Forall (fun q => i <= snd q < i + zlen l /\ xin q) (W kt prev l nx i).
Proof.
  intros Hs Hb. induction l as [|x tl IH]; intros prev nx i Hl; [split; constructor|].
  inversion Hl as [|x' l' Hx Htl]; subst. cbn [W]. rewrite zlen_cons. pose proof (zlen_ge0 tl) as Hz.
  destruct (IH x nx (i + 1) Htl) as [I1 I2].
  pose proof (pt1_props kt prev x (hd nx tl) i Hs Hb Hx) as Hp.
  assert (I2' : Forall (fun q => i <= snd q < i + (zlen tl + 1) /\ xin q) (W kt x tl nx (i + 1))).
  { eapply Forall_impl; [|exact I2]. cbn beta. intros q [Hq Hq']. split; [lia | exact Hq']. }
  split.
  - unfold pt1 in *. destruct (x =? prev); [destruct (x + 1 <? hd nx tl)|]; cbn [app]; try exact I1;
      (constructor; [exact I1|]; eapply Forall_impl; [|exact I2]; cbn beta; unfold sndle; cbn [snd]; intros q [Hq _]; lia).
  - apply Forall_app. split; [|exact I2'].
    eapply Forall_impl; [|exact Hp]. cbn beta. intros q [Hq Hq']. split; [lia | exact Hq'].
Qed.

Lemma SS_snoc {A} (P : A -> A -> Prop) l a : StronglySorted P l -> Forall (fun q => P q a) l -> StronglySorted P (l ++ [a]).
Proof.
  induction l as [|b t IH]; intros Hs Hf; [constructor; constructor|].
  inversion Hs as [|b' l' Ht Hb]; subst. inversion Hf as [|b' l' Hba Hft]; subst.
  cbn [app]. constructor; [apply IH; assumption|]. apply Forall_app. split; [exact Hb | constructor; [exact Hba | constructor]].
Qed.

Definition fed_ok (n : Z) (fed : list (Z * Z)) : Prop :=
  StronglySorted sndle fed /\ Forall (fun q => 0 <= snd q <= n /\ xin q) fed.

Lemma fed_spec_ok kt d : ksigned kt = false -> 0 <= kbits kt <= 64 -> Forall (fun x => 0 <= x < 2 ^ 64) d ->
  fed_ok (zlen d) (fed_spec kt d).
Proof.
  intros Hs Hb Hd. unfold fed_spec, fed_ok. destruct d as [|x0 tl]; [split; constructor|].
  set (d := x0 :: tl) in *. destruct (W_props kt Hs Hb d (x0 - 1) (last d 0) 0 Hd) as [I1 I2].
  pose proof (zlen_ge0 d) as Hz. split.
  - apply SS_snoc; [exact I1|]. eapply Forall_impl; [|exact I2]. cbn beta. unfold sndle. cbn [snd]. intros q [Hq _]. lia.
  - apply Forall_app. split.
    + eapply Forall_impl; [|exact I2]. cbn beta. intros q [Hq Hq']. split; [lia | exact Hq'].
    + constructor; [|constructor]. cbn [snd]. split; [lia|]. unfold xin. cbn [fst]. apply wrapK_unsigned_range; assumption.
Qed.

(* ---------- the relation between one emitted segment and its block ---------- *)
Definition seg_relS (eps : Z) (c : cseg) (b : list (Z * Z)) : Prop :=
  c_first c = fst (hd (0, 0) b) /\ xs_increasing b /\ icpt_in_band eps c b /\
  upper_of eps b (c_r0 c) /\
  ((one_point c = true /\ c_r2 c = c_r0 c) \/
   (one_point c = false /\
    lower_of eps b (c_r1 c) /\ lower_of eps b (c_r2 c) /\ upper_of eps b (c_r3 c) /\
    let s1 := psub (c_r2 c) (c_r0 c) in let s2 := psub (c_r3 c) (c_r1 c) in
    0 < fst s1 /\ 0 < fst s2 /\ sle s1 s2 /\
    0 <= lev (c_r1 c) s2 (c_r0 c) /\ lev (c_r1 c) s2 (c_r2 c) <= 0 /\
    Forall (line_in_band eps (fst (c_r0 c)) (snd (c_r0 c)) (fst s1) (snd s1)) b)).

Lemma relS_of_inv eps cur s :
  0 <= eps -> cur <> [] -> rect_inv eps cur s -> sinv eps cur s -> xs_increasing cur ->
  seg_relS eps (get_segment s) cur.
Proof.
  intros Heps Hne Hrect Hs Hx.
  pose proof (icpt_of_inv eps cur s Heps Hne Hrect Hs) as Hicpt.
  destruct (sinv_feasible eps cur s Hne Hrect Hs) as [_ Hmin].
  destruct Hrect as (He & Hn & I1 & I2 & _). destruct Hs as (S1 & S2 & S3).
  assert (Hlen : 1 <= zlen cur) by (destruct cur; [contradiction|]; rewrite zlen_cons; pose proof (zlen_ge0 cur); lia).
  destruct (I1 ltac:(lia)) as (U0 & L1 & _).
  unfold seg_relS. split; [unfold get_segment; destruct (p_n s =? 1); cbn [c_first]; apply S3; lia|].
  split; [exact Hx|]. split; [exact Hicpt|].
  split; [unfold get_segment; destruct (p_n s =? 1); cbn [c_r0]; exact U0|].
  unfold get_segment in *. destruct (p_n s =? 1) eqn:E.
  - left. unfold one_point. cbn [c_r0 c_r1 c_r2 c_r3]. rewrite !pt_eqb_refl. split; reflexivity.
  - right. assert (H2 : 2 <= p_n s) by lia. destruct (I2 H2) as (L2 & U3 & H02 & H13).
    pose proof (S2 H2) as HI. destruct HI.
    assert (Hop : one_point (mkCseg (p_r0 s) (p_r1 s) (p_r2 s) (p_r3 s) (p_first_x s)) = false).
    { unfold one_point. cbn [c_r0 c_r2]. rewrite (pt_eqb_x_neq _ _ H02). reflexivity. }
    unfold min_line_feasible in Hmin. rewrite Hop in Hmin. cbn [c_r0 c_r1 c_r2 c_r3] in *.
    split; [exact Hop|]. split; [exact L1|]. split; [exact L2|]. split; [exact U3|]. cbv zeta.
    split; [exact i_dx1|]. split; [exact i_dx2|]. split; [exact i_s12|].
    assert (In0 : In (p_r0 s) (ups eps cur)).
    { rewrite Forall_forall in i_DU. apply i_DU. rewrite <- i_hdD. apply hd_pt_in. exact i_Dne. }
    assert (In2 : In (p_r2 s) (lows eps cur)).
    { rewrite Forall_forall in i_CL. apply i_CL. rewrite <- i_lastC. apply last_in. exact i_Cne. }
    rewrite Forall_forall in i_F2U, i_F2L.
    split; [apply i_F2U; exact In0|]. split; [apply i_F2L; exact In2|]. apply Hmin.
Qed.

Definition QS (eps : Z) (cur : list (Z * Z)) (s : pla) : Prop := sinv eps cur s /\ xs_increasing cur.

Section PremisesS.
  Variable eps : Z.
  Hypothesis Heps : 0 <= eps.

  Lemma PS_first : forall s x y s',
    p_n s = 0 -> p_eps s = eps -> rank_ok eps y ->
    add_point y_size_t s x y = Ok (true, s') -> QS eps [(x, y)] s'.
  Proof. intros s x y s' Hn He Hrk H. split; [apply (P_first eps Heps s x y s'); assumption | exact I]. Qed.

  Lemma PS_step : forall cur s x y s',
    cur <> [] -> rect_inv eps cur s -> QS eps cur s -> rank_ok eps y ->
    add_point y_size_t s x y = Ok (true, s') -> QS eps (cur ++ [(x, y)]) s'.
  Proof.
    intros cur s x y s' Hne Hr [Hs Hx] Hrk H. split; [apply (P_step eps Heps cur s x y s'); assumption|].
    apply xs_increasing_snoc; [exact Hx|]. intros p Hp.
    destruct Hr as (_ & Hn & I1 & _).
    assert (Hlen : 1 <= zlen cur) by (destruct cur; [contradiction|]; rewrite zlen_cons; pose proof (zlen_ge0 cur); lia).
    destruct (I1 ltac:(lia)) as (_ & _ & _ & _ & _ & _ & Hlast). specialize (Hlast p Hp).
    unfold add_point in H. destruct ((p_n s >? 0) && (x <=? p_last_x s)) eqn:E; [discriminate|]. lia.
  Qed.

  Lemma PS_ok : forall cur s, cur <> [] -> rect_inv eps cur s -> QS eps cur s -> feasible eps cur.
  Proof. intros cur s Hne Hr [Hs _]. exact (sinv_feasible_block eps cur s Hne Hr Hs). Qed.

  Lemma PS_R : forall cur s,
    cur <> [] -> rect_inv eps cur s -> QS eps cur s -> seg_relS eps (get_segment s) cur.
  Proof. intros cur s Hne Hr [Hs Hx]. apply relS_of_inv; assumption. Qed.

  Lemma PS_R_reject : forall cur s x y s',
    cur <> [] -> rect_inv eps cur s -> QS eps cur s ->
    add_point y_size_t s x y = Ok (false, s') -> seg_relS eps (get_segment s') cur.
  Proof.
    intros cur s x y s' Hne Hr Hq H. rewrite (reject_same_segment s x y s' H). apply PS_R; assumption.
  Qed.
End PremisesS.

(* ---------- the drivers: blocks of the fed points, one per emitted segment ---------- *)
Theorem mseg_blocksS kt n eps data segs fed count :
  make_segmentation kt n eps data = Ok (segs, fed, count) ->
  zlen data <= n -> n + eps < 2 ^ 64 - 1 ->
  exists g, concat g = fed /\ Forall (fun b => b <> []) g /\ Forall2 (seg_relS eps) segs g /\ zlen g = count /\ 0 <= eps.
Proof.
  intros H Hd Hn. unfold make_segmentation in H.
  pose proof (eps_nonneg_of_chunk _ _ _ _ _ _ _ H) as Heps.
  destruct (make_segmentation_chunk_greedy eps (feasible eps) (seg_relS eps) (QS eps)
              (PS_first eps Heps) (PS_step eps Heps) (PS_ok eps) (PS_R eps Heps) (PS_R_reject eps Heps)
              kt n 0 data [] segs fed count H ltac:(lia) ltac:(lia) Hn) as (g & G1 & G2 & _ & G4 & G5).
  exists g. split; [exact G1|]. split; [|split; [exact G5|split; [exact G4 | exact Heps]]].
  eapply Forall_impl; [|exact G2]. cbn beta. intros b [Hb _]. exact Hb.
Qed.

Theorem mseg_par_blocksS kt threshold par n eps data segs fed count :
  make_segmentation_par kt threshold par n eps data = Ok (segs, fed, count) ->
  1 <= par -> zlen data <= n -> n + eps < 2 ^ 64 - 1 ->
  exists g, concat g = fed /\ Forall (fun b => b <> []) g /\ Forall2 (seg_relS eps) segs g /\ zlen g = count /\ 0 <= eps.
Proof.
  intros H Hpar Hd Hn. unfold make_segmentation_par in H.
  destruct ((par =? 1) || (n <? threshold)) eqn:Eseq.
  - exact (mseg_blocksS kt n eps data segs fed count H Hd Hn).
  - assert (Hz : zseq 0 (Z.to_nat par) = 0 :: zseq (0 + 1) (Z.to_nat par - 1)).
    { destruct (Z.to_nat par) as [|k] eqn:Ek; [lia|]. cbn [zseq]. f_equal. f_equal. lia. }
    assert (Heps : 0 <= eps).
    { rewrite Hz in H. exact (par_chunks_eps_nonneg _ _ _ _ _ _ _ _ H). }
    pose proof (zlen_ge0 data) as Hd0.
    assert (Hn0 : 0 <= n) by lia.
    assert (Hcs : 0 <= Z.quot n par) by (apply Z.quot_pos; lia).
    assert (Hmul : par * Z.quot n par <= n) by (apply Z.mul_quot_le; lia).
    destruct (par_chunks_greedy eps (feasible eps) (seg_relS eps) (QS eps)
                (PS_first eps Heps) (PS_step eps Heps) (PS_ok eps) (PS_R eps Heps) (PS_R_reject eps Heps)
                kt n (Z.quot n par) par data (zseq 0 (Z.to_nat par)) segs fed count H Hcs Hn)
      as (chunks & gs & C1 & C2 & C3 & C4 & C5).
    { eapply Forall_impl; [|exact (PlaComplete.zseq_range (Z.to_nat par) 0)].
      intros i Hi. cbn beta in Hi. split; [lia|].
      assert ((i + 1) * Z.quot n par <= par * Z.quot n par).
      { apply Z.mul_le_mono_nonneg_r; lia. }
      lia. }
    destruct (chunk_shape_concat eps chunks gs C2) as [D1 D2].
    exists (concat gs). split; [rewrite D1; exact C1|]. split; [|split; [exact C5|split; [exact C4 | exact Heps]]].
    eapply Forall_impl; [|exact D2]. cbn beta. intros b [Hb _]. exact Hb.
Qed.

(* ---------- bands ---------- *)
Lemma band_hi_val eps y : 0 <= eps -> 0 <= y -> y + eps < 2 ^ 64 - 1 -> band_hi eps y = y + eps.
Proof.
  intros He Hy Hb. unfold band_hi, band, y_size_t. cbn [fst ymax].
  destruct (y >=? 2 ^ 64 - 1 - eps) eqn:E; lia.
Qed.
Lemma band_lo_val eps y : 0 <= eps -> 0 <= y -> band_lo eps y = Z.max (y - eps) 0.
Proof.
  intros He Hy. unfold band_lo, band, y_size_t. cbn [snd ymin].
  destruct (y <=? 0 + eps) eqn:E; lia.
Qed.

(* pure arithmetic: the minimum-slope line stays in the bands of two points with non-decreasing ranks *)
Lemma sum_key r0x r0y dx1 dy1 xc xd hc ld hd lc :
  0 < dx1 ->
  r0y * dx1 + dy1 * (xc - r0x) <= hc * dx1 ->
  ld * dx1 <= r0y * dx1 + dy1 * (xd - r0x) ->
  hc + lc <= hd + ld ->
  0 <= dy1 * (xd - xc) + (hd - lc) * dx1.
Proof.
  intros Hd A1 A3 Hk.
  assert (B : (ld - hc) * dx1 <= dy1 * (xd - xc)) by lia.
  assert (C : 0 <= (hd - lc - (hc - ld)) * dx1) by (apply Z.mul_nonneg_nonneg; lia).
  lia.
Qed.

Lemma dy2_nonneg dx1 dy1 dx2 dy2 : 0 < dx1 -> 0 < dx2 ->
  0 <= dy1 * dx2 + dy2 * dx1 -> dy1 * dx2 <= dy2 * dx1 -> 0 <= dy2.
Proof. intros H1 H2 A B. assert (0 <= dy2 * dx1) by lia. nia. Qed.

(* ---------- from the block relation to the integer facts the floating-point part uses ---------- *)
Lemma seg_good_of_relS eps N c b :
  0 <= eps -> N + eps < 2 ^ 64 - 1 ->
  seg_relS eps c b -> StronglySorted sndle b -> Forall (fun q => 0 <= snd q <= N /\ xin q) b -> b <> [] ->
  seg_good (N + eps) c.
Proof.
  intros Heps HN (Hf & Hx & _ & U0 & Hcase) Hss Hall Hne.
  pose proof (mono2_of b Hx Hss) as Hm. rewrite Forall_forall in Hall.
  assert (Hhd : In (hd (0, 0) b) b) by (destruct b; [contradiction | left; reflexivity]).
  destruct U0 as (y0 & In0 & E0).
  destruct (Hall _ In0) as [Hy0 Hx0]. unfold xin in Hx0. cbn [fst snd] in Hy0, Hx0.
  destruct (Hall _ Hhd) as [_ Hxh]. unfold xin in Hxh.
  pose proof (mono2_hd_min b Hm _ In0) as Hmin. cbn [fst] in Hmin.
  rewrite (band_hi_val eps y0 Heps ltac:(lia) ltac:(lia)) in E0.
  unfold seg_good. cbv zeta. rewrite Hf.
  split; [lia|]. split; [lia|].
  destruct Hcase as [[Hop E2] | (Hop & L1 & L2 & U3 & Hrest)].
  - rewrite E2. split; [lia|]. intros Hc. congruence.
  - cbv zeta in Hrest. destruct Hrest as (Hd1 & Hd2 & Hsle & Hl0 & Hl2 & Hline).
    destruct L1 as (y1 & In1 & E1). destruct L2 as (y2 & In2 & E2). destruct U3 as (y3 & In3 & E3).
    destruct (Hall _ In1) as [Hy1 Hx1]. destruct (Hall _ In2) as [Hy2 Hx2]. destruct (Hall _ In3) as [Hy3 Hx3].
    unfold xin in Hx1, Hx2, Hx3. cbn [fst snd] in Hy1, Hx1, Hy2, Hx2, Hy3, Hx3.
    assert (H13 : y1 <= y3).
    { apply (mono2_pair b Hm (fst (c_r1 c), y1) (fst (c_r3 c), y3) In1 In3). cbn [fst]. unfold psub in Hd2. cbn [fst] in Hd2. lia. }
    rewrite Forall_forall in Hline.
    pose proof (Hline _ In1) as [_ A1]. pose proof (Hline _ In3) as [A3 _].
    pose proof (band_hi_val eps y1 Heps ltac:(lia) ltac:(lia)) as Vh1.
    pose proof (band_hi_val eps y3 Heps ltac:(lia) ltac:(lia)) as Vh3.
    pose proof (band_lo_val eps y1 Heps ltac:(lia)) as Vl1.
    pose proof (band_lo_val eps y2 Heps ltac:(lia)) as Vl2.
    pose proof (band_lo_val eps y3 Heps ltac:(lia)) as Vl3.
    unfold sle in Hsle. unfold lev in Hl0, Hl2.
    destruct (c_r0 c) as [x0r y0r]. destruct (c_r1 c) as [x1r y1r].
    destruct (c_r2 c) as [x2r y2r]. destruct (c_r3 c) as [x3r y3r].
    unfold psub in *. cbn [fst snd] in *.
    pose proof (sum_key x0r y0r (x2r - x0r) (y2r - y0r) x1r x3r (band_hi eps y1) (band_lo eps y3)
                  (band_hi eps y3) (band_lo eps y1) Hd1 A1 A3 ltac:(lia)) as Hsum.
    rewrite <- E3, <- E1 in Hsum.
    assert (Hs' : 0 <= (y2r - y0r) * (x3r - x1r) + (y3r - y1r) * (x2r - x0r)) by exact Hsum.
    pose proof (dy2_nonneg _ _ _ _ Hd1 Hd2 Hs' Hsle) as Hdy2.
    split; [lia|]. intros _.
    split; [lia|]. split; [lia|]. split; [lia|]. split; [lia|]. split; [exact Hs'|]. split; [exact Hsle|]. lia.
Qed.

Definition cs_ok (Y : Z) (c : cseg) : Prop :=
  seg_good Y c /\ 0 <= c_first c < 2 ^ 64 /\ 0 <= snd (cseg_line c (c_first c)) <= Y.

Lemma segs_good_of_blocks eps N segs g :
  0 <= eps -> N + eps < 2 ^ 64 - 1 -> Forall (fun b => b <> []) g -> fed_ok N (concat g) ->
  Forall2 (seg_relS eps) segs g ->
  Forall (cs_ok (N + eps)) segs /\ zlen segs = zlen g /\
  (forall c0 rest, segs = c0 :: rest -> c_first c0 = fst (hd (0, 0) (concat g))).
Proof.
  intros Heps HN Hne [Hss Hall] HR. pose proof (SS_concat_blocks _ _ Hss) as Hssb.
  assert (Hallb : Forall (Forall (fun q => 0 <= snd q <= N /\ xin q)) g).
  { clear - Hall. induction g as [|b t IH]; [constructor|]. cbn [concat] in Hall. apply Forall_app in Hall.
    constructor; [tauto | apply IH; tauto]. }
  split; [|split].
  - clear Hss Hall. induction HR as [|c b cs bs Hcb _ IH]; [constructor|].
    inversion Hne as [|b0 g0 Hb Hne']; subst. inversion Hssb as [|b0 g0 Hsb Hssb']; subst.
    inversion Hallb as [|b0 g0 Hab Hallb']; subst.
    constructor; [|apply IH; assumption]. split.
    + apply (seg_good_of_relS eps N c b); assumption.
    + destruct Hcb as (Hf & _ & Hi & _). rewrite Hf. destruct b as [|p tl]; [contradiction|]. cbn [hd].
      inversion Hab as [|p' l' [Hr Hp] _]; subst. split; [exact Hp|].
      unfold icpt_in_band in Hi. cbn [hd] in Hi. rewrite Hf in Hi. cbn [hd] in Hi.
      pose proof (band_lo_nonneg eps (snd p) Heps ltac:(lia)). pose proof (band_hi_le eps (snd p)). lia.
  - clear - HR. induction HR as [|c b cs bs _ _ IH]; [reflexivity|]. rewrite !zlen_cons. lia.
  - intros c0 rest E. subst segs. inversion HR as [|c b cs bs Hcb _]; subst.
    inversion Hne as [|b0 g0 Hb _]; subst. destruct Hcb as (Hf & _). rewrite Hf.
    destruct b as [|p tl]; [contradiction|]. reflexivity.
Qed.

Print Assumptions segs_good_of_blocks.
Print Assumptions mseg_par_blocksS.

(* IdxMain.v — routing through the recursive levels (C07) and the general search contract (C01/C02)
   for queries up to the last key; see the comments at the end for the case q > last key. *)
Require Import Base Fp PlaModel PlaSpec GenLeaf IndexModel IndexProofs MappedQueries IdxFed IdxSeg IdxBlock IdxLevel IdxSearch0 IdxRoute IdxChain.
From Coq Require Import ZifyBool.
Local Open Scope Z_scope.

(* level_pos for keys below the extra segment's key: no hypothesis on the extra segment is needed *)
Theorem level_pos_low c eps keys ldk css g new T k J :
  keys <> [] -> sortedb keys = true -> nowrap (c_kt c) keys -> zlen keys < 2 ^ 32 -> 0 <= eps ->
  concat g = fed_spec (c_kt c) keys -> Lv c eps (EvalOKc (zlen keys + eps) c k) css g new ->
  tail_shape c ldk (zlen keys) (last new dseg) T ->
  wrapK (c_kt c) (ldk + 1) = ldk + 1 -> k <= ldk ->
  0 <= J -> J + 1 < zlen (new ++ T) ->
  sg_key (nth (Z.to_nat J) (new ++ T) dseg) <= k ->
  k < sg_key (nth (Z.to_nat (J + 1)) (new ++ T) dseg) -> k < sentinel c ->
  let s := nth (Z.to_nat J) (new ++ T) dseg in
  let nx := nth (Z.to_nat (J + 1)) (new ++ T) dseg in
  let r := lb keys k in
  let pos := Z.min (seg_eval c s k) (sg_icpt nx) in
  r - eps - 2 <= pos <= r + eps /\ (In k keys -> r - eps - 1 <= pos) /\ 0 <= pos.
Proof.
  intros Hne Hs Hw Hn32 Heps Hcat HL HT Hwk Hlow HJ0 HJ1 Hk1 Hk2 Hksent.
  set (n := zlen keys) in *. pose proof (zlen_ge0 keys) as Hn0. fold n in Hn0.
  rewrite zlen_app in HJ1.
  destruct (Z_lt_ge_dec J (zlen new)) as [HJn|HJn].
  - destruct (Lv_split _ _ _ _ _ _ J HL ltac:(lia))
      as (c1 & cs & c2 & g1 & b & g2 & n1 & s & n2 & E1 & E2 & E3 & E4 & R1 & R2 & R3 & R4).
    destruct (Lv_Forall2 _ _ _ _ _ _ R4) as [F1 F2].
    assert (EL : new ++ T = n1 ++ s :: (n2 ++ T)) by (rewrite E3, <- app_assoc; reflexivity).
    rewrite EL in *. rewrite <- E4 in *. rewrite nth_mid in *. rewrite nth_mid_next in *.
    cbn zeta. rewrite E2 in Hcat.
    apply (level_query_split c (c_kt c) eps keys g1 g2 b cs c2 s n2 k); try assumption;
      [apply R3; [exact Hk1 | destruct n2; [exact I | exact Hk2] | exact Hksent] |].
    destruct n2 as [|s' n2']; [|cbn [app hd] in *; split; [exact Hk2 | reflexivity]].
    cbn [app] in *. rewrite E3, zlen_app, zlen_cons in HJ1. change (zlen (@nil segment)) with 0 in HJ1.
    destruct HT as [->|(X & -> & [->|[-> _]])].
    + change (zlen (@nil segment)) with 0 in HJ1. lia.
    + cbn [app hd sent_seg sg_icpt]. apply wrapU32_small. lia.
    + cbn [app hd extra_seg sg_icpt]. apply wrapU32_small. lia.
  - exfalso. destruct HT as [->|(X & -> & [->|[-> Htest]])];
      [change (zlen (@nil segment)) with 0 in HJ1; lia | change (zlen ([] ++ [sent_seg c n])) with 1 in HJ1; lia |].
    change (zlen ([extra_seg c ldk n] ++ [sent_seg c n])) with 2 in HJ1.
    assert (EJ : J = zlen new) by lia. rewrite EJ in *. cbn [app] in *.
    rewrite nth_mid in *. cbn [extra_seg sg_key] in Hk1. lia.
Qed.

Lemma ssorted_dat_lt l : forall a b, ssortedb l = true -> 0 <= a < b -> b < zlen l -> dat l a < dat l b.
Proof.
  induction l as [|x t IH]; intros a b Hs Hab Hb; [change (zlen (@nil Z)) with 0 in Hb; lia|].
  rewrite zlen_cons in Hb. destruct (ssortedb_inv x t Hs) as [H1 H2].
  replace b with (b - 1 + 1) by lia. rewrite dat_S by lia.
  destruct (Z.eq_dec a 0) as [->|Ha0].
  - rewrite dat_0. apply H1. apply dat_In. lia.
  - replace a with (a - 1 + 1) by lia. rewrite dat_S by lia. apply IH; [exact H2 | lia | lia].
Qed.

Lemma ssorted_ub_lb l k : ssortedb l = true -> lb l k <= ub l k <= lb l k + 1.
Proof.
  intros Hss. pose proof (ssortedb_sorted l Hss) as Hs. split; [apply lb_le_ub|].
  destruct (Z_le_gt_dec (ub l k) (lb l k + 1)) as [H|H]; [exact H|exfalso].
  pose proof (lb_nonneg l k). pose proof (ub_le_len l k).
  pose proof (nth_in_lb_ub l k (lb l k) Hs ltac:(lia)) as E1.
  pose proof (nth_in_lb_ub l k (lb l k + 1) Hs ltac:(lia)) as E2.
  pose proof (ssorted_dat_lt l (lb l k) (lb l k + 1) Hss ltac:(lia) ltac:(lia)) as Hlt.
  unfold dat in Hlt. lia.
Qed.

Lemma lb_lt_ub_In l k : sortedb l = true -> lb l k < ub l k -> In k l.
Proof. intros Hs H. apply (In_iff_lb_lt_ub l k Hs). exact H. Qed.

Lemma nth_firstn_lt {A} (l : list A) : forall m i d, (i < m)%nat -> nth i (firstn m l) d = nth i l d.
Proof.
  induction l as [|a t IH]; intros m i d H; [destruct m; destruct i; reflexivity|].
  destruct m as [|m]; [lia|]. destruct i as [|i]; [reflexivity|]. cbn [firstn nth]. apply IH. lia.
Qed.

Lemma tail_ok_shape c ldk ln new T ln' cnt : tail_ok c ldk ln new T ln' cnt ->
  tail_shape c ldk ln (last new dseg) T.
Proof.
  intros [(-> & _)|(_ & _ & X & -> & HX)]; [left; reflexivity|right]. exists X. split; [reflexivity|].
  destruct HX as [->|[-> Ht]]; [left; reflexivity | right; split; [reflexivity | exact Ht]].
Qed.

(* the element of a level at position ln (the first one not indexed by the level above) has key > k *)
Lemma level_bound_key c ldk k r :
  lrec_ok c ldk k r -> wrapK (c_kt c) (ldk + 1) = ldk + 1 -> k <= ldk -> ldk < sentinel c ->
  k < sg_key (nth (Z.to_nat (lr_ln r)) (lr_L r) dseg).
Proof.
  intros Hok Hwk Hk Hls. destruct (lf_first c ldk k r Hok) as [Hnn _].
  destruct Hok as (_ & _ & _ & _ & _ & _ & Ht). unfold lr_L.
  destruct Ht as [(-> & Hsent & ->)|(_ & -> & X & -> & HX)].
  - rewrite app_nil_r. destruct (exists_last Hnn) as (l' & a & E). rewrite E in *.
    rewrite last_last in Hsent. rewrite zlen_app. change (zlen [a]) with 1.
    replace (zlen l' + 1 - 1) with (zlen l') by lia. rewrite nth_mid. lia.
  - destruct HX as [->|[-> _]]; cbn [app]; rewrite nth_mid; cbn [sent_seg extra_seg sg_key]; lia.
Qed.

(* one routing step: the level above (r') predicts the responsible segment of the level below (r) *)
Lemma step_resp c ldk k r r' J' :
  1 <= kbits (c_kt c) -> lrec_ok c ldk k r -> lrec_ok c ldk k r' -> link c r r' ->
  wrapK (c_kt c) (ldk + 1) = ldk + 1 -> ldk < sentinel c -> hd 0 (lr_keys r) <= k -> k <= ldk ->
  zlen (lr_keys r') < 2 ^ 32 -> 1 <= lr_ln r ->
  resp (lr_L r') k J' ->
  let pos := Z.min (seg_eval c (nth (Z.to_nat J') (lr_L r') dseg) k)
                   (sg_icpt (nth (Z.to_nat (J' + 1)) (lr_L r') dseg)) in
  let J := ub (lr_keys r') k - 1 in
  resp (lr_L r) k J /\ pos - (lr_eps r' + 1) <= J <= pos + lr_eps r' + 1 /\ 0 <= pos /\ J < lr_ln r.
Proof.
  intros Hb Hok Hok' (Lk & Le & Lz) Hwk Hls Hhd Hlow Hn32 Hln1 (HJ0 & HJ1 & HJle & HJgt) pos J.
  destruct (next_keys c ldk k r Hb Hok) as (Hl1 & Hl2 & Hz & Ek & Hss & Hko & Hhd').
  rewrite <- Lk in Hz, Ek, Hss, Hko, Hhd'. specialize (Hhd' Hln1).
  pose proof Hok' as (Hne' & Hs' & Hk' & He' & Hcat' & HL' & Ht').
  pose proof (lf_nowrap c ldk k r' Hb Hok') as Hw'.
  pose proof (level_pos_low c (lr_eps r') (lr_keys r') ldk _ _ _ _ k J' Hne' Hs' Hw' Hn32 He' Hcat' HL'
                (tail_ok_shape _ _ _ _ _ _ _ Ht') Hwk Hlow HJ0 HJ1 (HJle J' ltac:(lia)) HJgt ltac:(lia)) as Hp.
  cbn zeta in Hp. fold (lr_L r') in Hp. fold pos in Hp. destruct Hp as (Hp1 & Hp2 & Hp3).
  destruct (ub_spec (lr_keys r') k Hs') as [U1 U2]. rewrite Hz in U2.
  set (u := ub (lr_keys r') k) in *.
  pose proof (ub_nonneg (lr_keys r') k) as Hu0. pose proof (ub_le_len (lr_keys r') k) as Hul. fold u in Hu0, Hul. rewrite Hz in Hul.
  assert (Hu1 : 1 <= u).
  { destruct (Z_lt_ge_dec u 1) as [Hlt|]; [|lia]. specialize (U2 0 ltac:(lia)).
    destruct (lr_keys r') as [|x0 t]; [contradiction|]. cbn [Z.to_nat nth hd] in *. lia. }
  assert (Hnth : forall i, 0 <= i < lr_ln r -> nth (Z.to_nat i) (lr_keys r') 0 = sg_key (nth (Z.to_nat i) (lr_L r) dseg)).
  { intros i Hi. rewrite Lk. rewrite nth_map_key. rewrite nth_firstn_lt by lia. reflexivity. }
  assert (Hresp : resp (lr_L r) k J).
  { unfold resp, J. split; [lia|]. split; [lia|]. split.
    - intros i Hi. rewrite <- Hnth by lia. apply U1. lia.
    - replace (u - 1 + 1) with u by lia. destruct (Z_lt_ge_dec u (lr_ln r)) as [Hlt|Hge].
      + rewrite <- Hnth by lia. apply U2. lia.
      + replace u with (lr_ln r) by lia. apply (level_bound_key c ldk k r Hok Hwk Hlow Hls). }
  split; [exact Hresp|]. split; [|split; [exact Hp3 | unfold J; lia]].
  pose proof (ssorted_ub_lb (lr_keys r') k Hss) as Hul2. fold u in Hul2.
  destruct (Z.eq_dec u (lb (lr_keys r') k)) as [E|E].
  - unfold J. lia.
  - assert (Hin : In k (lr_keys r')) by (apply (lb_lt_ub_In _ _ Hs'); fold u; lia).
    specialize (Hp2 Hin). unfold J. lia.
Qed.

Lemma zseq_snoc : forall m s, zseq s (S m) = zseq s m ++ [s + Z.of_nat m].
Proof.
  induction m as [|m IH]; intros s; [cbn; f_equal; lia|].
  change (zseq s (S (S m))) with (s :: zseq (s + 1) (S m)). rewrite IH. cbn [zseq app]. do 3 f_equal. lia.
Qed.

Lemma seg_at_level ix pre (L post : list segment) j :
  ix_segments ix = pre ++ L ++ post -> 0 <= j < zlen L ->
  seg_at ix (zlen pre + j) = Ok (nth (Z.to_nat j) L dseg).
Proof.
  intros Hs Hj. unfold seg_at. rewrite Hs.
  rewrite nth_res_get by (rewrite !zlen_app; pose proof (zlen_ge0 pre); pose proof (zlen_ge0 post); lia).
  f_equal. replace (Z.to_nat (zlen pre + j)) with (length pre + Z.to_nat j)%nat by (unfold zlen; lia).
  rewrite app_nth2_plus. apply app_nth1. unfold zlen in Hj. lia.
Qed.

Definition entry_ok (e : Z) (t : Z * Z * Z * Z) : Prop :=
  let '(l, wlo, f, la) := t in la - f + 1 <= 2 * e + 3 /\ wlo <= f.
Definition trace_ok (e : Z) (tr : trace) : Prop := Forall (entry_ok e) tr.

Lemma hd_keys_link c ldk k r r' : 1 <= kbits (c_kt c) -> lrec_ok c ldk k r -> link c r r' -> 1 <= lr_ln r ->
  hd 0 (lr_keys r') = hd 0 (lr_keys r).
Proof.
  intros Hb Hok (Lk & _) H1. destruct (next_keys c ldk k r Hb Hok) as (_ & _ & _ & _ & _ & _ & Hhd).
  rewrite Lk. apply Hhd. exact H1.
Qed.

Lemma link_ln_pos c r r' ldk k : lrec_ok c ldk k r' -> link c r r' -> 1 <= lr_ln r.
Proof.
  intros (Hne & _) (_ & _ & Lz). rewrite <- Lz. destruct (lr_keys r'); [contradiction|].
  rewrite zlen_cons. pose proof (zlen_ge0 l). lia.
Qed.

Lemma nth_res_Z (l : list Z) i : 0 <= i < zlen l -> nth_res l i = Ok (nth (Z.to_nat i) l 0).
Proof. apply MappedQueries.nth_res_ok. Qed.

Lemma route_one c ldk k ix up r' r rl' J' tr rest_ls :
  1 <= kbits (c_kt c) -> 0 <= c_epsrec c ->
  wrapK (c_kt c) (ldk + 1) = ldk + 1 -> ldk < sentinel c -> k <= ldk ->
  ix_segments ix = below (up ++ r' :: r :: rl') -> ix_offsets ix = offs_of (up ++ r' :: r :: rl') ->
  lrec_ok c ldk k r -> lrec_ok c ldk k r' -> link c r r' ->
  zlen (lr_keys r') < 2 ^ 32 -> hd 0 (lr_keys r) <= k ->
  resp (lr_L r') k J' ->
  exists J entry,
    resp (lr_L r) k J /\ entry_ok (c_epsrec c) entry /\
    route_levels c ix (Z.of_nat (length rl') :: rest_ls) (zlen (below (r :: rl')) + J') k tr =
    route_levels c ix rest_ls (zlen (below rl') + J) k (entry :: tr).
Proof.
  intros Hb He0 Hwk Hls Hlow Hseg Hoffs Hok Hok' Hlink Hn32 Hhd Hresp'.
  pose proof (link_ln_pos c r r' ldk k Hok' Hlink) as Hln1.
  destruct (step_resp c ldk k r r' J' Hb Hok Hok' Hlink Hwk Hls Hhd Hlow Hn32 Hln1 Hresp')
    as (Hresp & Hwin & Hpos0 & HJln).
  destruct Hlink as (_ & Le & _). rewrite Le in Hwin.
  set (pos := Z.min (seg_eval c (nth (Z.to_nat J') (lr_L r') dseg) k)
                    (sg_icpt (nth (Z.to_nat (J' + 1)) (lr_L r') dseg))) in *.
  set (J := ub (lr_keys r') k - 1) in *.
  set (e := c_epsrec c) in *.
  pose proof Hresp as (HJ0 & HJ1 & _ & _). pose proof Hresp' as (HJ0' & HJ1' & _ & _).
  (* the layout of the segment array around the two levels *)
  assert (Hseg' : ix_segments ix = below (r :: rl') ++ lr_L r' ++ below up).
  { rewrite Hseg, below_app, below_cons, <- app_assoc. reflexivity. }
  assert (Hseg2 : ix_segments ix = below rl' ++ lr_L r ++ (lr_L r' ++ below up)).
  { rewrite Hseg', below_cons, <- app_assoc. reflexivity. }
  assert (Hoff1 : nth_res (ix_offsets ix) (Z.of_nat (length rl')) = Ok (zlen (below rl'))).
  { rewrite Hoffs. rewrite nth_res_Z.
    - rewrite Nat2Z.id. f_equal.
      replace (up ++ r' :: r :: rl') with ((up ++ [r'; r]) ++ rl') by (rewrite <- app_assoc; reflexivity).
      apply offs_nth.
    - unfold zlen. rewrite offs_len, app_length. cbn [length]. lia. }
  assert (Hoff2 : nth_res (ix_offsets ix) (Z.of_nat (length rl') + 1) = Ok (zlen (below (r :: rl')))).
  { rewrite Hoffs. rewrite nth_res_Z.
    - replace (Z.to_nat (Z.of_nat (length rl') + 1)) with (length (r :: rl')) by (cbn [length]; lia). f_equal.
      replace (up ++ r' :: r :: rl') with ((up ++ [r']) ++ r :: rl') by (rewrite <- app_assoc; reflexivity).
      apply offs_nth.
    - unfold zlen. rewrite offs_len, app_length. cbn [length]. lia. }
  pose proof (route_window_scan e pos J He0 Hpos0 HJ0 Hwin) as Hws. cbn zeta in Hws.
  set (lo := PGM_SUB_EPS pos (e + 1)) in *.
  cbn [route_levels]. rewrite Hoff1. cbn [bind].
  rewrite (seg_at_level ix _ _ _ J' Hseg' ltac:(lia)). cbn [bind].
  replace (zlen (below (r :: rl')) + J' + 1) with (zlen (below (r :: rl')) + (J' + 1)) by lia.
  rewrite (seg_at_level ix _ _ _ (J' + 1) Hseg' ltac:(lia)). cbn [bind]. fold pos. fold e. fold lo.
  destruct (e <=? pgm_linear_search_threshold (sizeof_segment c)) eqn:Ethr.
  - (* linear scan *)
    rewrite (step_scan ix _ _ _ k J lo Hseg2 Hresp ltac:(lia)). cbn [bind].
    exists J. eexists. split; [exact Hresp|]. split; [|reflexivity].
    unfold entry_ok. lia.
  - rewrite Hoff2. cbn [bind].
    set (lsz := zlen (below (r :: rl')) - zlen (below rl') - 1).
    assert (Hlsz : lsz = zlen (lr_L r) - 1) by (unfold lsz; rewrite below_cons, zlen_app; lia).
    pose proof (route_window_bsearch e pos J lsz He0 Hpos0 ltac:(lia) Hwin) as Hwb. cbn zeta in Hwb. fold lo in Hwb.
    set (hi := PGM_ADD_EPS pos e lsz) in *.
    assert (Hhi_le : zlen (below rl') + hi <= zlen (ix_segments ix)).
    { rewrite Hseg2, !zlen_app. pose proof (zlen_ge0 (lr_L r')). pose proof (zlen_ge0 (below up)). lia. }
    pose proof (zlen_ge0 (below rl')) as Hb0.
    replace ((zlen (below rl') + lo <? 0) || (zlen (below rl') + hi >? zlen (ix_segments ix)) || (zlen (below rl') + hi <? zlen (below rl') + lo)) with false by lia.
    rewrite (step_ub (ix_segments ix) _ _ _ k J lo hi Hseg2 Hresp ltac:(lia) ltac:(lia)).
    exists J. eexists. split; [exact Hresp|]. split; [|reflexivity].
    unfold entry_ok. lia.
Qed.

Lemma last_cons_gen {A} (x : A) tl d : last (x :: tl) d = last tl x.
Proof.
  destruct tl as [|y tl']; [reflexivity|].
  destruct (@exists_last _ (y :: tl') ltac:(discriminate)) as (l' & a & E). rewrite E.
  rewrite app_comm_cons, !last_last. reflexivity.
Qed.

Lemma chainR_hd_ok c ldk k r rl : chainR c ldk k (r :: rl) -> lrec_ok c ldk k r.
Proof. cbn [chainR]. tauto. Qed.

Lemma route_all c ldk k ix :
  1 <= kbits (c_kt c) -> 0 <= c_epsrec c ->
  wrapK (c_kt c) (ldk + 1) = ldk + 1 -> ldk < sentinel c -> k <= ldk ->
  forall rl r' up J' tr,
    ix_segments ix = below (up ++ r' :: rl) -> ix_offsets ix = offs_of (up ++ r' :: rl) ->
    chainR c ldk k (r' :: rl) -> Forall (fun r => zlen (lr_keys r) < 2 ^ 32) (r' :: rl) ->
    hd 0 (lr_keys r') <= k -> resp (lr_L r') k J' -> trace_ok (c_epsrec c) tr ->
    exists J0 tr',
      route_levels c ix (rev (zseq 0 (length rl))) (zlen (below rl) + J') k tr = Ok (J0, tr') /\
      resp (lr_L (last rl r')) k J0 /\ trace_ok (c_epsrec c) tr'.
Proof.
  intros Hb He0 Hwk Hls Hlow. induction rl as [|r rl' IH]; intros r' up J' tr Hseg Hoffs Hch Hsz Hhd Hresp Htr.
  - cbn [length zseq rev route_levels last]. exists J', tr. split; [|split; assumption].
    reflexivity.
  - cbn [length]. rewrite zseq_snoc, rev_app_distr. cbn [rev app]. rewrite Z.add_0_l.
    pose proof Hch as Hch0. cbn [chainR] in Hch. destruct Hch as (Hok' & Hlink & Hch').
    pose proof (chainR_hd_ok _ _ _ _ _ Hch') as Hok.
    inversion Hsz as [|x l Hsz1 Hsz']; subst.
    pose proof (link_ln_pos c r r' ldk k Hok' Hlink) as Hln1.
    pose proof (hd_keys_link c ldk k r r' Hb Hok Hlink Hln1) as Ehd.
    destruct (route_one c ldk k ix up r' r rl' J' tr (rev (zseq 0 (length rl'))) Hb He0 Hwk Hls Hlow Hseg Hoffs
                Hok Hok' Hlink Hsz1 ltac:(lia) Hresp) as (J & entry & HrJ & Hent & Eroute).
    rewrite Eroute.
    assert (Hseg2 : ix_segments ix = below ((up ++ [r']) ++ r :: rl')) by (rewrite <- app_assoc; exact Hseg).
    assert (Hoffs2 : ix_offsets ix = offs_of ((up ++ [r']) ++ r :: rl')) by (rewrite <- app_assoc; exact Hoffs).
    destruct (IH r (up ++ [r']) J (entry :: tr) Hseg2 Hoffs2 Hch' Hsz' ltac:(lia) HrJ ltac:(constructor; assumption))
      as (J0 & tr' & E & R & T).
    exists J0, tr'. split; [exact E|]. split; [|exact T].
    rewrite last_cons_gen. exact R.
Qed.

Lemma chain_hd c ldk k : 1 <= kbits (c_kt c) -> forall rl r', chainR c ldk k (r' :: rl) ->
  hd 0 (lr_keys r') = hd 0 (lr_keys (last rl r')).
Proof.
  intros Hb. induction rl as [|r rl IH]; intros r' Hch; [reflexivity|].
  cbn [chainR] in Hch. destruct Hch as (Hok' & Hlink & Hch').
  pose proof (chainR_hd_ok _ _ _ _ _ Hch') as Hok.
  rewrite (hd_keys_link c ldk k r r' Hb Hok Hlink (link_ln_pos c r r' ldk k Hok' Hlink)).
  rewrite last_cons_gen. rewrite (IH r Hch'). reflexivity.
Qed.

Lemma zlen_below_cons_ge r rl : zlen (lr_L r) <= zlen (below (r :: rl)).
Proof. rewrite below_cons, zlen_app. pose proof (zlen_ge0 (below rl)). lia. Qed.

Lemma chain_sizes c ldk k : 1 <= kbits (c_kt c) -> forall rl r',
  chainR c ldk k (r' :: rl) -> zlen (below (r' :: rl)) < 2 ^ 32 -> zlen (lr_keys (last rl r')) < 2 ^ 32 ->
  Forall (fun r => zlen (lr_keys r) < 2 ^ 32) (r' :: rl).
Proof.
  intros Hb. induction rl as [|r rl IH]; intros r' Hch Hsz H0; [constructor; [exact H0 | constructor]|].
  cbn [chainR] in Hch. destruct Hch as (Hok' & Hlink & Hch').
  pose proof (chainR_hd_ok _ _ _ _ _ Hch') as Hok.
  rewrite last_cons_gen in H0.
  assert (Hsz' : zlen (below (r :: rl)) < 2 ^ 32).
  { rewrite (below_cons r') in Hsz. rewrite zlen_app in Hsz. pose proof (zlen_ge0 (lr_L r')). lia. }
  constructor; [|apply IH; assumption].
  destruct Hlink as (_ & _ & Lz). rewrite Lz.
  destruct (next_keys c ldk k r Hb Hok) as (_ & Hl2 & _).
  pose proof (zlen_below_cons_ge r rl). lia.
Qed.

Lemma top_resp c ldk k r :
  1 <= kbits (c_kt c) -> lrec_ok c ldk k r -> wrapK (c_kt c) (ldk + 1) = ldk + 1 -> k <= ldk ->
  ldk < sentinel c -> hd 0 (lr_keys r) <= k -> lr_ln r <= 1 -> resp (lr_L r) k 0.
Proof.
  intros Hb Hok Hwk Hlow Hls Hhd Hln.
  destruct (next_keys c ldk k r Hb Hok) as (Hl1 & Hl2 & _).
  destruct (lf_first c ldk k r Hok) as [Hnn Hk0].
  pose proof (level_bound_key c ldk k r Hok Hwk Hlow Hls) as Hbk.
  assert (H0 : sg_key (nth 0 (lr_L r) dseg) = hd 0 (lr_keys r)).
  { unfold lr_L. destruct (lr_new r); [contradiction|]. exact Hk0. }
  assert (Hln1 : lr_ln r = 1).
  { destruct (Z.eq_dec (lr_ln r) 0) as [E|E]; [|lia]. rewrite E in Hbk. cbn [Z.to_nat] in Hbk. lia. }
  rewrite Hln1 in *. unfold resp. split; [lia|]. split; [lia|]. split.
  - intros i Hi. assert (i = 0) as -> by lia. cbn [Z.to_nat]. lia.
  - exact Hbk.
Qed.

Section Main.
  Variables (c : cfg) (data : list Z) (ix : index).
  Hypothesis Hbits : 1 <= kbits (c_kt c).
  Hypothesis Heps : 1 <= c_eps c.
  Hypothesis Hrec0 : 0 <= c_epsrec c.
  Hypothesis Hrec64 : c_epsrec c + 2 ^ 32 < 2 ^ 64 - 1.
  Hypothesis Hpar : 1 <= c_par c.
  Hypothesis Hne : data <> [].
  Hypothesis Hs : sortedb data = true.
  Hypothesis Hkt : Forall (fun x => in_ktype (c_kt c) x = true) data.
  Hypothesis Hlast : last_z data < sentinel c.
  Hypothesis Hn32 : zlen data < 2 ^ 32.
  Hypothesis Hn64 : zlen data + c_eps c < 2 ^ 64 - 1.
  Hypothesis Hbuild : build c data = Ok ix.
  Hypothesis Hsegs32 : zlen (ix_segments ix) < 2 ^ 32.

  Let n := zlen data.
  Let ldk := last_z data.

  Theorem search_rec_pos q : c_epsrec c <> 0 -> q <= last_z data ->
    float_ok_cap c data (Z.max (hd 0 data) q) ->
    exists pos tr,
      search_tr c ix q = Ok (mkApprox pos (PGM_SUB_EPS pos (c_eps c)) (PGM_ADD_EPS pos (c_eps c) n), tr) /\
      lb data q - c_eps c - 2 <= pos <= lb data q + c_eps c /\
      (In q data -> lb data q - c_eps c - 1 <= pos) /\ 0 <= pos /\ trace_ok (c_epsrec c) tr.
  Proof.
    intros Hrne Hq Hfl. set (k := Z.max (hd 0 data) q) in *.
    destruct (build_chain c data ix k Hbits Hpar Hrec0 Hrec64 Hne Hs Hkt Hlast Hn64 Hfl Hbuild Hsegs32)
      as (up & r0 & Hch & Hk0 & Eix & Htop).
    specialize (Htop Hrne).
    assert (Hfull : exists top rl, up ++ [r0] = top :: rl /\ last rl top = r0).
    { destruct up as [|u up']; [exists r0, []; split; reflexivity|].
      exists u, (up' ++ [r0]). split; [reflexivity|]. rewrite last_last. reflexivity. }
    destruct Hfull as (top & rl & Efull & Elast). rewrite Efull in *. cbn [hd] in Htop.
    pose proof (wrap_last c data Hbits Hne Hs Hkt Hlast) as Hwk. fold ldk in Hwk.
    assert (Hd0 : hd 0 data <= ldk).
    { apply (data_le_last data Hne Hs). destruct data; [contradiction|]. left. reflexivity. }
    assert (Hlow : k <= ldk) by (unfold k, ldk in *; lia).
    assert (Hhdk : hd 0 data <= k) by (unfold k; lia).
    pose proof (chain_hd c ldk k Hbits rl top Hch) as Ehd. rewrite Elast, Hk0 in Ehd.
    pose proof (chainR_hd_ok _ _ _ _ _ Hch) as Hoktop.
    pose proof (top_resp c ldk k top Hbits Hoktop Hwk Hlow Hlast ltac:(lia) Htop) as Hresp_top.
    assert (Hsegs : ix_segments ix = below ([] ++ top :: rl)) by (rewrite Eix; reflexivity).
    assert (Hoffs : ix_offsets ix = offs_of ([] ++ top :: rl)) by (rewrite Eix; reflexivity).
    assert (Hsz : Forall (fun r => zlen (lr_keys r) < 2 ^ 32) (top :: rl)).
    { apply (chain_sizes c ldk k Hbits rl top Hch); [rewrite Hsegs in Hsegs32; exact Hsegs32|].
      rewrite Elast, Hk0. exact Hn32. }
    destruct (route_all c ldk k ix Hbits Hrec0 Hwk Hlast Hlow rl top [] 0 [] Hsegs Hoffs Hch Hsz ltac:(lia)
                Hresp_top ltac:(constructor)) as (J0 & tr & Eroute & HrJ0 & Htr).
    rewrite Elast in HrJ0.
    (* the bottom level *)
    assert (Hok0 : lrec_ok c ldk k r0 /\ lr_eps r0 = c_eps c).
    { clear -Hch Elast. revert top Hch Elast. induction rl as [|r rl IH]; intros top Hch Elast.
      - cbn [last] in Elast. subst. cbn [chainR] in Hch. exact Hch.
      - rewrite last_cons_gen in Elast. cbn [chainR] in Hch. destruct Hch as (_ & _ & Hch'). exact (IH r Hch' Elast). }
    destruct Hok0 as [Hok0 Eeps0].
    pose proof Hok0 as (Hne0 & Hs0 & Hko0 & He0 & Hcat0 & HL0 & Ht0).
    pose proof (lf_nowrap c ldk k r0 Hbits Hok0) as Hw0.
    pose proof HrJ0 as (HJ0 & HJ1 & HJle & HJgt).
    pose proof (level_pos_low c (lr_eps r0) (lr_keys r0) ldk _ _ _ _ k J0 Hne0 Hs0 Hw0 ltac:(rewrite Hk0; exact Hn32)
                  He0 Hcat0 HL0 (tail_ok_shape _ _ _ _ _ _ _ Ht0) Hwk Hlow HJ0 HJ1 (HJle J0 ltac:(lia)) HJgt ltac:(lia)) as Hp.
    cbn zeta in Hp. fold (lr_L r0) in Hp. rewrite Hk0, Eeps0 in Hp.
    set (pos := Z.min (seg_eval c (nth (Z.to_nat J0) (lr_L r0) dseg) k) (sg_icpt (nth (Z.to_nat (J0 + 1)) (lr_L r0) dseg))) in *.
    exists pos, tr. unfold k in Hp. rewrite (lb_clamp_first data q Hne Hs) in Hp. fold k in Hp.
    split; [|split; [tauto|split; [|split; [tauto|exact Htr]]]].
    - assert (Hseg0 : ix_segments ix = [] ++ lr_L r0 ++ below up).
      { rewrite Hsegs. cbn [app]. rewrite <- Efull, below_app. unfold below at 1. cbn [rev app map concat].
        rewrite app_nil_r. reflexivity. }
      assert (Efk : ix_first_key ix = hd 0 data) by (rewrite Eix; reflexivity).
      assert (En : ix_n ix = n) by (rewrite Eix; reflexivity).
      unfold search_tr. rewrite Efk. fold k. unfold segment_for_key.
      replace (c_epsrec c =? 0) with false by lia.
      assert (Ezo : zlen (ix_offsets ix) = Z.of_nat (length rl) + 2).
      { rewrite Hoffs. unfold zlen. rewrite offs_len. cbn [app length]. lia. }
      rewrite Ezo. replace (Z.of_nat (length rl) + 2 - 2) with (Z.of_nat (length rl)) by lia.
      assert (Estart : nth_res (ix_offsets ix) (Z.of_nat (length rl)) = Ok (zlen (below rl))).
      { rewrite Hoffs. rewrite nth_res_Z.
        - rewrite Nat2Z.id. f_equal. exact (offs_nth [top] rl).
        - unfold zlen. rewrite offs_len. cbn [app length]. lia. }
      rewrite Estart. cbn [bind]. unfold height. rewrite Ezo.
      replace (Z.to_nat (Z.of_nat (length rl) + 2 - 1 - 1)) with (length rl) by lia.
      replace (zlen (below rl)) with (zlen (below rl) + 0) by lia. rewrite Eroute. cbn [bind].
      assert (Es1 : seg_at ix J0 = Ok (nth (Z.to_nat J0) (lr_L r0) dseg)).
      { rewrite <- (seg_at_level ix [] _ _ J0 Hseg0 ltac:(lia)). reflexivity. }
      assert (Es2 : seg_at ix (J0 + 1) = Ok (nth (Z.to_nat (J0 + 1)) (lr_L r0) dseg)).
      { rewrite <- (seg_at_level ix [] _ _ (J0 + 1) Hseg0 ltac:(lia)). reflexivity. }
      rewrite Es1. cbn [bind]. rewrite Es2. cbn [bind]. fold pos. rewrite En. reflexivity.
    - intros Hin. destruct Hp as (_ & Hp2 & _). apply Hp2. unfold k.
      rewrite Z.max_r by (apply hd_le_In; assumption). exact Hin.
  Qed.

  Lemma search_tr0 q a : c_epsrec c = 0 -> search c ix q = Ok a -> search_tr c ix q = Ok (a, []).
  Proof.
    intros He H. unfold search in H. unfold search_tr, segment_for_key in *. rewrite He in *. cbn [Z.eqb bind] in *.
    destruct (seg_at ix _) as [s|e]; cbn [bind] in *; [|discriminate H].
    destruct (seg_at ix _) as [nx|e]; cbn [bind] in *; [|discriminate H].
    cbn [fst] in H. injection H as <-. reflexivity.
  Qed.

  (* position and trace, for every EpsilonRecursive *)
  Theorem search_pos q : q <= last_z data -> float_ok_cap c data (Z.max (hd 0 data) q) ->
    exists pos tr,
      search_tr c ix q = Ok (mkApprox pos (PGM_SUB_EPS pos (c_eps c)) (PGM_ADD_EPS pos (c_eps c) n), tr) /\
      lb data q - c_eps c - 2 <= pos <= lb data q + c_eps c /\
      (In q data -> lb data q - c_eps c - 1 <= pos) /\ 0 <= pos /\ trace_ok (c_epsrec c) tr.
  Proof.
    intros Hq Hfl. destruct (Z.eq_dec (c_epsrec c) 0) as [E0|E0]; [|apply search_rec_pos; assumption].
    destruct Hfl as [Hf0 _].
    destruct (search0_pos c data ix Hbits E0 Heps Hpar Hne Hs Hkt Hlast Hn32 Hn64 Hbuild q ltac:(lia) Hf0)
      as (pos & Es & Hb & Hp & Hp0).
    exists pos, []. split; [apply search_tr0; assumption|]. split; [exact Hb|]. split; [exact Hp|]. split; [exact Hp0|constructor].
  Qed.

  Lemma search_of_tr q a tr : search_tr c ix q = Ok (a, tr) -> search c ix q = Ok a.
  Proof. intros H. unfold search. rewrite H. reflexivity. Qed.

  (* C02 for queries up to the last key (see the end of the file for q > last key) *)
  Theorem C02_search_partial_cap q : q <= last_z data -> float_ok_cap c data (Z.max (hd 0 data) q) ->
    exists a, search c ix q = Ok a /\
      0 <= a_lo a /\ a_lo a <= lb data q /\ lb data q <= a_hi a /\ a_hi a <= zlen data /\
      a_hi a - a_lo a <= 2 * c_eps c + 2 /\ a_lo a <= a_pos a.
  Proof.
    intros Hq Hfl. destruct (search_pos q Hq Hfl) as (pos & tr & Es & Hb & _ & Hp0 & _).
    eexists. split; [exact (search_of_tr _ _ _ Es)|]. cbn [a_lo a_hi a_pos].
    pose proof (lb_nonneg data q) as Hr0. pose proof (lb_le_len data q) as Hrn.
    pose proof (window_absent (c_eps c) n pos (lb data q) ltac:(lia) Hp0 ltac:(fold n; lia) Hb) as Hwin.
    cbn zeta in Hwin. fold n. lia.
  Qed.

  (* C01: every key of the data is found inside the returned range, for every EpsilonRecursive *)
  Theorem C01_search_cap q : In q data -> float_ok_cap c data (Z.max (hd 0 data) q) ->
    exists a, search c ix q = Ok a /\
      0 <= a_lo a /\ a_lo a <= lb data q /\ lb data q < a_hi a /\ a_hi a <= zlen data /\
      a_hi a - a_lo a <= 2 * c_eps c + 2 /\ a_lo a <= a_pos a.
  Proof.
    intros Hin Hfl. pose proof (data_le_last data Hne Hs q Hin) as Hq.
    destruct (search_pos q Hq Hfl) as (pos & tr & Es & Hb & Hpres & Hp0 & _).
    eexists. split; [exact (search_of_tr _ _ _ Es)|]. cbn [a_lo a_hi a_pos].
    destruct (present_at_r data Hs q Hin) as [Hr _].
    pose proof (lb_nonneg data q) as Hr0.
    pose proof (window_present (c_eps c) n pos (lb data q) ltac:(lia) Hp0 ltac:(fold n; lia)
                  ltac:(specialize (Hpres Hin); lia)) as Hwin.
    cbn zeta in Hwin. fold n. lia.
  Qed.

  Corollary C01_pred_search_cap q : In q data -> float_ok_cap c data (Z.max (hd 0 data) q) ->
    exists a, search c ix q = Ok a /\ C01_pred_b (c_eps c) data q a = true.
  Proof.
    intros Hin Hfl. destruct (C01_search_cap q Hin Hfl) as (a & Es & H).
    exists a. split; [exact Es|]. unfold C01_pred_b. lia.
  Qed.

  (* C07: every level of the descent touches at most 2*EpsilonRecursive+3 segments, starting at the window *)
  Theorem C07_route_trace_partial_cap q : q <= last_z data -> float_ok_cap c data (Z.max (hd 0 data) q) ->
    exists a tr, search_tr c ix q = Ok (a, tr) /\
      Forall (fun t => let '(l, wlo, f, la) := t in la - f + 1 <= 2 * c_epsrec c + 3 /\ wlo <= f) tr.
  Proof.
    intros Hq Hfl. destruct (search_pos q Hq Hfl) as (pos & tr & Es & _ & _ & _ & Htr).
    eexists. exists tr. split; [exact Es|]. exact Htr.
  Qed.

  (* the same under the stronger hypothesis float_ok (eval_ok without the cap disjunct) *)
  Theorem C02_search_partial q : q <= last_z data -> float_ok c data (Z.max (hd 0 data) q) ->
    exists a, search c ix q = Ok a /\
      0 <= a_lo a /\ a_lo a <= lb data q /\ lb data q <= a_hi a /\ a_hi a <= zlen data /\
      a_hi a - a_lo a <= 2 * c_eps c + 2 /\ a_lo a <= a_pos a.
  Proof. intros Hq Hfl. exact (C02_search_partial_cap q Hq (float_ok_cap_of _ _ _ Hfl)). Qed.

  Theorem C01_search q : In q data -> float_ok c data (Z.max (hd 0 data) q) ->
    exists a, search c ix q = Ok a /\
      0 <= a_lo a /\ a_lo a <= lb data q /\ lb data q < a_hi a /\ a_hi a <= zlen data /\
      a_hi a - a_lo a <= 2 * c_eps c + 2 /\ a_lo a <= a_pos a.
  Proof. intros Hq Hfl. exact (C01_search_cap q Hq (float_ok_cap_of _ _ _ Hfl)). Qed.

  Corollary C01_pred_search q : In q data -> float_ok c data (Z.max (hd 0 data) q) ->
    exists a, search c ix q = Ok a /\ C01_pred_b (c_eps c) data q a = true.
  Proof. intros Hq Hfl. exact (C01_pred_search_cap q Hq (float_ok_cap_of _ _ _ Hfl)). Qed.

  Theorem C07_route_trace_partial q : q <= last_z data -> float_ok c data (Z.max (hd 0 data) q) ->
    exists a tr, search_tr c ix q = Ok (a, tr) /\
      Forall (fun t => let '(l, wlo, f, la) := t in la - f + 1 <= 2 * c_epsrec c + 3 /\ wlo <= f) tr.
  Proof. intros Hq Hfl. exact (C07_route_trace_partial_cap q Hq (float_ok_cap_of _ _ _ Hfl)). Qed.
End Main.

Print Assumptions C02_search_partial.
Print Assumptions C01_search.
Print Assumptions C07_route_trace_partial.

(* ComposeBucket2.v — C09: the two early exits of BucketingPGMIndex::search, stated exactly.
   The property: a key below the first key yields the EMPTY range at 0, a key above the last key the EMPTY
   range at n.  ComposeBucket32.bucketing_contract_total_std gives a window containing lower_bound of width
   <= 2*Epsilon+2 -- which an empty range [0,0) or [n,n) satisfies, but so do non-empty windows.  Here:
   * bucketing_build_fields: bk_first b = hd 0 data, bk_last b = last_z data, bk_n b = zlen data, for every
     b returned by bucketing_build (empty data included);
   * bucketing_search_below_first / bucketing_search_above_last: the exact ApproxPos returned, on ANY b;
   * bucketing_early_exits: the same on a built index in terms of the data, with lower_bound = 0 / n;
   * bucketing_contract_total_std_exits: bucketing_contract_total_std + the fields + both early exits. *)
Require Import Base Fp PlaModel PlaSpec GenLeaf IndexModel IndexProofs MappedQueries IdxSearch0 IdxChain
  VariantsModel FloatOk ComposeIdx ComposeBuild ComposeBucket ComposeBucket32.
From Coq Require Import ZifyBool.
Local Open Scope Z_scope.

(* the three scalar members set by the constructor *)
Lemma bucketing_build_fields bc data b : bucketing_build bc data = Ok b ->
  bk_first b = hd 0 data /\ bk_last b = last_z data /\ bk_n b = zlen data.
Proof.
  intros H. destruct data as [|x t].
  - cbn in H. injection H as <-. cbn. auto.
  - destruct (bucketing_build_inv bc (x :: t) b ltac:(discriminate) H) as (ix & tl & _ & _ & ->).
    cbn [bk_first bk_last bk_n]. auto.
Qed.

(* if (key < first_key) return {0, 0, 0}; *)
Theorem bucketing_search_below_first bc b q :
  q < bk_first b ->
  bucketing_search bc b q = Ok (mkApprox 0 0 0).
Proof. intros H. unfold bucketing_search. replace (q <? bk_first b) with true by lia. reflexivity. Qed.

(* if (key > last_key) return {n, n, n};   (reached only when key >= first_key) *)
Theorem bucketing_search_above_last bc b q :
  bk_first b <= q -> bk_last b < q ->
  bucketing_search bc b q = Ok (mkApprox (bk_n b) (bk_n b) (bk_n b)).
Proof.
  intros H1 H2. unfold bucketing_search. replace (q <? bk_first b) with false by lia.
  replace (q >? bk_last b) with true by lia. reflexivity.
Qed.

Corollary bucketing_search_below_first_empty bc b q : q < bk_first b ->
  exists a, bucketing_search bc b q = Ok a /\ a_lo a = 0 /\ a_hi a = 0 /\ a_pos a = 0.
Proof. intros H. eexists. split; [exact (bucketing_search_below_first bc b q H)|]. cbn. auto. Qed.

Corollary bucketing_search_above_last_empty bc b q : bk_first b <= bk_last b -> bk_last b < q ->
  exists a, bucketing_search bc b q = Ok a /\ a_lo a = bk_n b /\ a_hi a = bk_n b /\ a_pos a = bk_n b.
Proof.
  intros H0 H. eexists. split; [exact (bucketing_search_above_last bc b q ltac:(lia) H)|]. cbn. auto.
Qed.

Lemma hd_le_last data : sortedb data = true -> hd 0 data <= last_z data.
Proof.
  intros Hs. destruct data as [|x t]; [cbn; lia|].
  apply (data_le_last (x :: t) ltac:(discriminate) Hs). left. reflexivity.
Qed.

(* on an index built from sorted data: the early exits in terms of the data; nothing else is needed
   (no bound on sizes, no floating-point condition: the segments are not even read) *)
Theorem bucketing_early_exits bc data b :
  sortedb data = true -> bucketing_build bc data = Ok b ->
  bk_first b = hd 0 data /\ bk_last b = last_z data /\ bk_n b = zlen data /\
  (forall q, q < hd 0 data ->
     bucketing_search bc b q = Ok (mkApprox 0 0 0) /\ lb data q = 0) /\
  (forall q, last_z data < q ->
     bucketing_search bc b q = Ok (mkApprox (zlen data) (zlen data) (zlen data)) /\ lb data q = zlen data).
Proof.
  intros Hs Hb. destruct (bucketing_build_fields bc data b Hb) as (E1 & E2 & E3).
  split; [exact E1|]. split; [exact E2|]. split; [exact E3|]. pose proof (hd_le_last data Hs) as Hfl. split.
  - intros q Hq. split; [apply bucketing_search_below_first; lia|]. apply lb_before_first. lia.
  - intros q Hq. split; [rewrite <- E3; apply bucketing_search_above_last; lia|].
    apply lb_all_lt. intros x Hx. destruct data as [|y t]; [contradiction|].
    pose proof (data_le_last (y :: t) ltac:(discriminate) Hs x Hx). lia.
Qed.

(* with the construction: ComposeBucket32.bucketing_contract_total_std extended by the scalar members
   and the two early exits *)
Theorem bucketing_contract_total_std_exits bc data :
  bucket_ok bc -> std_width (b_cfg bc) -> c_par (b_cfg bc) <= 20 -> c_eps (b_cfg bc) <= 2 ^ 31 ->
  (pow_two (b_tls bc) = true -> 0 <= top_shift bc < kbits (c_kt (b_cfg bc))) ->
  (b_tlbs bc = 0 \/ 32 <= b_tlbs bc) ->
  data_ok (inner bc) data -> zlen data <= 2 ^ 30 ->
  (c_fdouble (b_cfg bc) = false -> zlen data + c_eps (b_cfg bc) <= 2 ^ 22 - 1) ->
  exists b, bucketing_build bc data = Ok b /\
    bk_first b = hd 0 data /\ bk_last b = last_z data /\ bk_n b = zlen data /\
    (forall q, q < bk_first b ->
       bucketing_search bc b q = Ok (mkApprox 0 0 0) /\ lb data q = 0) /\
    (forall q, bk_last b < q ->
       bucketing_search bc b q = Ok (mkApprox (bk_n b) (bk_n b) (bk_n b)) /\ lb data q = bk_n b) /\
    (forall q, exists a, bucketing_search bc b q = Ok a /\
       0 <= a_lo a <= lb data q /\ lb data q <= a_hi a <= zlen data /\
       (In q data -> lb data q < a_hi a) /\ a_hi a - a_lo a <= 2 * c_eps (b_cfg bc) + 2).
Proof.
  intros Hbo W Hp He Hsh Hw Hd Hn Hsz.
  destruct (bucketing_contract_total_std bc data Hbo W Hp He Hsh Hw Hd Hn Hsz) as (b & Eb & H).
  pose proof Hd as [_ Hs _ _ _].
  destruct (bucketing_early_exits bc data b Hs Eb) as (E1 & E2 & E3 & Hlo & Hhi).
  exists b. split; [exact Eb|]. split; [exact E1|]. split; [exact E2|]. split; [exact E3|].
  rewrite E1, E2, E3. split; [exact Hlo|]. split; [exact Hhi|exact H].
Qed.

(* ---- non-vacuity: BucketingPGMIndex<uint64_t, 2, 10, 0, float> over the 40 keys of
   ComposeBucket32.bk_data shifted by 1000, so that there are keys of K below the first one ---- *)
Definition bk2_data : list Z := map (fun x => x + 1000) bk_data.

Lemma bk2_data_ok : data_ok (inner bk_bc) bk2_data.
Proof.
  constructor; [discriminate | vm_compute; reflexivity | | vm_compute; reflexivity | vm_compute; reflexivity].
  apply Forall_forall. intros x Hx. vm_compute in Hx.
  repeat (destruct Hx as [<-|Hx]; [reflexivity|]). contradiction.
Qed.

Example bk2_exits :
  c_fdouble (b_cfg bk_bc) = false /\ hd 0 bk2_data = 1000 /\ zlen bk2_data = 40 /\
  exists b, bucketing_build bk_bc bk2_data = Ok b /\
    bucketing_search bk_bc b 999 = Ok (mkApprox 0 0 0) /\
    bucketing_search bk_bc b 0 = Ok (mkApprox 0 0 0) /\
    bucketing_search bk_bc b (last_z bk2_data + 1) = Ok (mkApprox 40 40 40) /\
    bucketing_search bk_bc b (2 ^ 64 - 1) = Ok (mkApprox 40 40 40).
Proof.
  split; [reflexivity|]. split; [reflexivity|]. split; [reflexivity|].
  destruct (bucketing_contract_total_std_exits bk_bc bk2_data bk_bucket_ok bk_std_width ltac:(cbn; lia)
              ltac:(cbn; lia) ltac:(vm_compute; discriminate) ltac:(left; reflexivity) bk2_data_ok
              ltac:(vm_compute; discriminate) ltac:(intros _; vm_compute; discriminate))
    as (b & Eb & E1 & E2 & E3 & Hlo & Hhi & _).
  exists b. split; [exact Eb|].
  assert (F : bk_first b = 1000) by (rewrite E1; reflexivity).
  assert (N : bk_n b = 40) by (rewrite E3; reflexivity).
  assert (L : bk_last b < last_z bk2_data + 1) by (rewrite E2; lia).
  assert (L2 : bk_last b < 2 ^ 64 - 1) by (rewrite E2; vm_compute; reflexivity).
  rewrite <- N. split; [apply Hlo; lia|]. split; [apply Hlo; lia|]. split; [apply Hhi; exact L|apply Hhi; exact L2].
Qed.

(* cross-check: the same four searches, computed *)
Example bk2_exits_computed :
  match bucketing_build bk_bc bk2_data with
  | Ok b => [bucketing_search bk_bc b 999; bucketing_search bk_bc b 0;
             bucketing_search bk_bc b (last_z bk2_data + 1); bucketing_search bk_bc b (2 ^ 64 - 1)]
  | Err e => []
  end = [Ok (mkApprox 0 0 0); Ok (mkApprox 0 0 0); Ok (mkApprox 40 40 40); Ok (mkApprox 40 40 40)].
Proof. vm_compute. reflexivity. Qed.

Print Assumptions bucketing_build_fields.
Print Assumptions bucketing_search_below_first.
Print Assumptions bucketing_search_above_last.
Print Assumptions bucketing_early_exits.
Print Assumptions bucketing_contract_total_std_exits.
Print Assumptions bk2_exits.

(* Base.v — result monad, integer helpers, list helpers shared by every model file.
   Model files contain definitions only; proofs about them live in *Proofs.v files. *)
From Coq Require Export ZArith List Bool Lia.
Export ListNotations.
Local Open Scope Z_scope.

(* ---- errors: every C++ throw / UB / out-of-bounds read the properties care about ---- *)
Inductive err :=
| ThrowInvalidArgument   (* std::invalid_argument *)
| ThrowLogicError        (* std::logic_error *)
| ThrowOverflowError     (* std::overflow_error *)
| ThrowRuntimeError      (* std::runtime_error *)
| OutOfBounds            (* read/write outside a container: C17 *)
| UBShift                (* shift count >= width *)
| UBSelect               (* sdsl select(i) beyond the population *)
| UBDerefEnd             (* dereference of end() *)
| UBDivZero
| OutOfFuel.             (* never a normal-looking value; excluded by theorem statements *)

Inductive res (A : Type) :=
| Ok (a : A)
| Err (e : err).
Arguments Ok {A} a.
Arguments Err {A} e.

Definition bind {A B} (r : res A) (f : A -> res B) : res B :=
  match r with Ok a => f a | Err e => Err e end.
Notation "'do' x <- r ; k" := (bind r (fun x => k))
  (at level 200, x pattern, r at level 100, k at level 200, right associativity).

Definition is_ok {A} (r : res A) : bool := match r with Ok _ => true | Err _ => false end.

Definition nth_res {A} (l : list A) (i : Z) : res A :=
  if i <? 0 then Err OutOfBounds else
  match nth_error l (Z.to_nat i) with Some a => Ok a | None => Err OutOfBounds end.

Definition zlen {A} (l : list A) : Z := Z.of_nat (length l).

(* ---- fixed-width integers ---- *)
Definition wrapU (w z : Z) : Z := z mod 2 ^ w.
Definition wrapS (w z : Z) : Z := (z + 2 ^ (w - 1)) mod 2 ^ w - 2 ^ (w - 1).

Record ktype := mkK { kbits : Z; ksigned : bool }.
Definition kmin (k : ktype) : Z := if ksigned k then - 2 ^ (kbits k - 1) else 0.
Definition kmax (k : ktype) : Z := if ksigned k then 2 ^ (kbits k - 1) - 1 else 2 ^ kbits k - 1.
Definition wrapK (k : ktype) (z : Z) : Z := if ksigned k then wrapS (kbits k) z else wrapU (kbits k) z.
Definition in_ktype (k : ktype) (z : Z) : bool := (kmin k <=? z) && (z <=? kmax k).

(* ---- sorted lists, lower/upper bound as counting functions ---- *)
Fixpoint lb (l : list Z) (q : Z) : Z :=           (* number of leading elements < q  = std::lower_bound on sorted l *)
  match l with
  | [] => 0
  | x :: t => if x <? q then 1 + lb t q else 0
  end.
Fixpoint ub (l : list Z) (q : Z) : Z :=           (* number of leading elements <= q = std::upper_bound on sorted l *)
  match l with
  | [] => 0
  | x :: t => if x <=? q then 1 + ub t q else 0
  end.

Fixpoint sortedb (l : list Z) : bool :=           (* non-decreasing *)
  match l with
  | x :: ((y :: _) as t) => (x <=? y) && sortedb t
  | _ => true
  end.
Fixpoint ssortedb (l : list Z) : bool :=          (* strictly increasing *)
  match l with
  | x :: ((y :: _) as t) => (x <? y) && ssortedb t
  | _ => true
  end.

(* sub-range [lo,hi) of a list, as std algorithms see it *)
Definition slice {A} (l : list A) (lo hi : Z) : list A :=
  firstn (Z.to_nat (hi - lo)) (skipn (Z.to_nat lo) l).
(* std::lower_bound(begin+lo, begin+hi, q) - begin *)
Definition lb_range (l : list Z) (lo hi q : Z) : Z := lo + lb (slice l lo hi) q.
Definition ub_range (l : list Z) (lo hi q : Z) : Z := lo + ub (slice l lo hi) q.

Definition last_z (l : list Z) : Z := last l 0.

Fixpoint zseq (start : Z) (len : nat) : list Z :=
  match len with O => [] | S k => start :: zseq (start + 1) k end.

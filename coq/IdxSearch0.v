(* IdxSearch0.v — the search contract of PGMIndex for EpsilonRecursive = 0 (one level). *)
Require Import Base Fp PlaModel PlaSpec GenLeaf IndexModel IndexProofs MappedQueries IdxFed IdxSeg IdxBlock IdxLevel.
From Coq Require Import ZifyBool.
Local Open Scope Z_scope.

Lemma build0_shape c data ix :
  c_epsrec c = 0 -> data <> [] -> build c data = Ok ix ->
  exists segs ln,
    build_level c (c_eps c) data (zlen data) (last_z data) [] = Ok (segs, ln) /\
    ix = mkIndex (zlen data) (hd 0 data) segs [0; zlen segs] /\ last_z data <> sentinel c.
Proof.
  intros He Hne H. unfold build in H.
  assert (Hn : zlen data <> 0) by (destruct data; [contradiction|]; rewrite zlen_cons; pose proof (zlen_ge0 data); lia).
  replace (zlen data =? 0) with false in H by lia.
  destruct (last_z data =? sentinel c) eqn:E1; [discriminate H|].
  destruct (build_level c (c_eps c) data (zlen data) (last_z data) []) as [[segs ln]|e] eqn:E2;
    cbn [bind] in H; [|discriminate H].
  exists segs, ln. split; [reflexivity|].
  destruct (length data + 2)%nat as [|fuel] eqn:Ef; [lia|].
  cbn [build_upper] in H. rewrite He in H. cbn [Z.eqb orb bind fst snd] in H.
  injection H as <-. split; [reflexivity | lia].
Qed.

(* the floating-point hypothesis for a one-level index *)
Definition float_ok0 (c : cfg) (data : list Z) (k : Z) : Prop :=
  level_float_ok c (c_eps c) data (last_z data) k.

Definition float_ok0_cap (c : cfg) (data : list Z) (k : Z) : Prop :=
  level_float_ok_cap c (c_eps c) data (last_z data) k.

Lemma float_ok0_cap_of c data k : float_ok0 c data k -> float_ok0_cap c data k.
Proof. apply level_float_ok_cap_of. Qed.

Lemma fed_spec_hd kt x0 tl : exists rest, fed_spec kt (x0 :: tl) = (x0, 0) :: rest.
Proof.
  unfold fed_spec. cbn [W]. unfold pt1. replace (x0 =? x0 - 1) with false by lia.
  cbn [app]. eexists. reflexivity.
Qed.

Lemma level_keys_facts c eps E keys ldk css g new T :
  keys <> [] -> sortedb keys = true -> nowrap (c_kt c) keys ->
  concat g = fed_spec (c_kt c) keys -> Lv c eps E css g new ->
  tail_shape c ldk (zlen keys) (last new dseg) T ->
  wrapK (c_kt c) (ldk + 1) = ldk + 1 -> ldk + 1 <= sentinel c ->
  (forall p, In p (fed_spec (c_kt c) keys) -> fst p <= ldk + 1) ->
  sortedb (map sg_key (new ++ T)) = true /\ new <> [] /\ sg_key (hd dseg new) = hd 0 keys.
Proof.
  intros Hne Hs Hw Hcat HL HT Hwk Hls Hfx.
  destruct (Lv_keys _ _ _ _ _ _ HL) as [Hk Hgne].
  assert (Hi : incr (concat g)) by (rewrite Hcat; apply fed_spec_incr; assumption).
  assert (Hnew : new <> [] /\ sg_key (hd dseg new) = hd 0 keys).
  { destruct keys as [|x0 tl]; [contradiction|]. destruct (fed_spec_hd (c_kt c) x0 tl) as (rest & Er).
    rewrite Er in Hcat. destruct HL as [|cs b s css g new H1 H2 H3 H4]; [discriminate Hcat|].
    split; [discriminate|]. cbn [hd]. destruct (seg_of_cseg_spec c cs s H2) as (-> & _).
    destruct H1 as (Hb & -> & _). destruct b as [|a t]; [contradiction|].
    cbn [concat app] in Hcat. injection Hcat as -> _. reflexivity. }
  split; [|exact Hnew].
  rewrite map_app. apply sortedb_app_intro.
  - rewrite Hk. apply bkeys_sorted; assumption.
  - destruct HT as [->|(X & -> & [->|[-> _]])]; [reflexivity | reflexivity |].
    cbn [app map sortedb extra_seg sent_seg sg_key]. rewrite Hwk. unfold sentinel in *. lia.
  - intros a b Ha Hb. rewrite Hk in Ha. destruct (bkeys_In g a Hgne Ha) as (y & Hin).
    rewrite Hcat in Hin. pose proof (Hfx _ Hin) as Hle. cbn [fst] in Hle.
    destruct HT as [->|(X & -> & [->|[-> _]])]; cbn [app map In extra_seg sent_seg sg_key] in Hb.
    + contradiction.
    + destruct Hb as [<-|[]]. lia.
    + rewrite Hwk in Hb. destruct Hb as [<-|[<-|[]]]; lia.
Qed.

Lemma nth_map_key (L : list segment) i : nth i (map sg_key L) 0 = sg_key (nth i L dseg).
Proof. exact (map_nth sg_key L dseg i). Qed.

(* upper_bound over the keys of a level (last segment excluded) minus one *)
Lemma route_ub (L : list segment) k :
  sortedb (map sg_key L) = true -> 2 <= zlen L ->
  sg_key (hd dseg L) <= k -> k < sg_key (last L dseg) ->
  let J := ub_range (map sg_key L) 0 (zlen L - 1) k - 1 in
  0 <= J /\ J + 1 < zlen L /\
  sg_key (nth (Z.to_nat J) L dseg) <= k /\ k < sg_key (nth (Z.to_nat (J + 1)) L dseg).
Proof.
  intros Hs Hlen Hhd Hlast J.
  assert (HJ : J = Z.max 0 (Z.min (ub (map sg_key L) k) (zlen L - 1)) - 1).
  { unfold J. rewrite ub_range_clamp by (try assumption; lia). reflexivity. }
  destruct (ub_spec (map sg_key L) k Hs) as [U1 U2].
  assert (Hzm : zlen (map sg_key L) = zlen L) by (unfold zlen; rewrite map_length; reflexivity).
  rewrite Hzm in U2.
  set (u := ub (map sg_key L) k) in *.
  pose proof (ub_nonneg (map sg_key L) k) as Hu0. fold u in Hu0.
  pose proof (ub_le_len (map sg_key L) k) as Hul. fold u in Hul. rewrite Hzm in Hul.
  assert (Hu1 : 1 <= u).
  { destruct (Z_lt_ge_dec u 1) as [Hlt|]; [|lia]. specialize (U2 0 ltac:(lia)).
    rewrite nth_map_key in U2. destruct L; [rewrite zlen_nil in Hlen; lia|]. cbn [hd Z.to_nat nth] in *. lia. }
  assert (Hlastn : last L dseg = nth (Z.to_nat (zlen L - 1)) L dseg).
  { destruct L as [|a t]; [rewrite zlen_nil in Hlen; lia|].
    destruct (@exists_last _ (a :: t) ltac:(discriminate)) as (l' & z & ->).
    rewrite last_last, zlen_app. change (zlen [z]) with 1.
    replace (zlen l' + 1 - 1) with (zlen l') by lia. symmetry. apply nth_mid. }
  split; [lia|]. split; [lia|]. split.
  - specialize (U1 J ltac:(lia)). rewrite nth_map_key in U1. exact U1.
  - destruct (Z_le_gt_dec u (zlen L - 1)) as [Hle|Hgt].
    + replace (J + 1) with u by lia. specialize (U2 u ltac:(lia)). rewrite nth_map_key in U2. exact U2.
    + replace (J + 1) with (zlen L - 1) by lia. rewrite <- Hlastn. exact Hlast.
Qed.

Lemma fed_spec_x_le kt data p : data <> [] -> sortedb data = true -> nowrap kt data ->
  In p (fed_spec kt data) -> fst p <= last data 0 + 1.
Proof.
  intros Hne Hs Hw Hp. pose proof (fed_spec_incr kt data Hne Hs Hw) as Hi.
  rewrite (fed_spec_unfold kt data Hne Hs Hw) in Hi, Hp. apply incr_app in Hi. destruct Hi as (_ & _ & Hx).
  apply in_app_or in Hp. destruct Hp as [Hp|[<-|[]]]; [|cbn [fst]; lia].
  destruct (Hx p _ Hp (or_introl eq_refl)) as [H _]. cbn [fst] in H. lia.
Qed.

Lemma nth_res_get (L : list segment) i : 0 <= i < zlen L -> nth_res L i = Ok (nth (Z.to_nat i) L dseg).
Proof.
  unfold zlen, nth_res. intros Hi. destruct (i <? 0) eqn:E; [lia|].
  destruct (nth_error L (Z.to_nat i)) as [a|] eqn:En.
  - f_equal. symmetry. apply nth_error_nth. exact En.
  - apply nth_error_None in En. lia.
Qed.

Lemma lb_clamp_first data q : data <> [] -> sortedb data = true ->
  lb data (Z.max (hd 0 data) q) = lb data q.
Proof.
  intros Hne Hs. destruct data as [|x0 tl]; [contradiction|]. cbn [hd].
  destruct (Z_le_gt_dec x0 q) as [H|H]; [rewrite Z.max_r by lia; reflexivity|].
  rewrite Z.max_l by lia. cbn [lb]. replace (x0 <? x0) with false by lia. replace (x0 <? q) with false by lia.
  reflexivity.
Qed.

Lemma hd_le_In data q : sortedb data = true -> In q data -> hd 0 data <= q.
Proof.
  intros Hs Hin. destruct data as [|x0 tl]; [contradiction|]. cbn [hd].
  destruct Hin as [<-|Hin]; [lia|]. eapply sortedb_head_le; eauto.
Qed.

Lemma last_cons_ne (L : list segment) a : L <> [] -> last (a :: L) dseg = last L dseg.
Proof. destruct L; [contradiction|reflexivity]. Qed.

Section Search0.
  Variables (c : cfg) (data : list Z) (ix : index).
  Hypothesis Hbits : 1 <= kbits (c_kt c).
  Hypothesis Hrec : c_epsrec c = 0.
  Hypothesis Heps : 1 <= c_eps c.
  Hypothesis Hpar : 1 <= c_par c.
  Hypothesis Hne : data <> [].
  Hypothesis Hs : sortedb data = true.
  Hypothesis Hkt : Forall (fun x => in_ktype (c_kt c) x = true) data.
  Hypothesis Hlast : last_z data < sentinel c.
  Hypothesis Hn32 : zlen data < 2 ^ 32.
  Hypothesis Hn64 : zlen data + c_eps c < 2 ^ 64 - 1.
  Hypothesis Hbuild : build c data = Ok ix.

  Let n := zlen data.
  Let kt := c_kt c.

  Lemma data_le_last x : In x data -> x <= last_z data.
  Proof.
    intros Hx. destruct (In_nth data x 0 Hx) as (i & Hi & Ei). unfold last_z.
    rewrite (last_is data Hne). rewrite <- Ei.
    replace (nth i data 0) with (dat data (Z.of_nat i)) by (unfold dat; rewrite Nat2Z.id; reflexivity).
    apply sorted_dat_mono; [exact Hs | unfold zlen; lia | unfold zlen; lia].
  Qed.

  Lemma nowrap_data : nowrap kt data.
  Proof.
    apply nowrap_of_ktype; [exact Hbits|]. rewrite Forall_forall in *. intros x Hx.
    split; [apply Hkt; exact Hx|]. pose proof (data_le_last x Hx). unfold sentinel in Hlast. fold kt in Hlast. lia.
  Qed.

  Lemma wrap_last : wrapK kt (last_z data + 1) = last_z data + 1.
  Proof.
    apply nowrap_data. unfold last_z. rewrite (last_is data Hne). apply dat_In.
    pose proof (n_pos kt data Hne Hs nowrap_data). lia.
  Qed.

  Lemma lb_last1 : lb data (last_z data + 1) = zlen data.
  Proof.
    pose proof (n_pos kt data Hne Hs nowrap_data) as Hn1.
    apply lb_unique; [exact Hs | lia | | left; reflexivity].
    right. unfold last_z. rewrite (last_is data Hne). lia.
  Qed.

  (* the layout of the built index *)
  Lemma index0_layout k : float_ok0_cap c data k ->
    exists css g new T,
      ix = mkIndex n (hd 0 data) (new ++ T) [0; zlen (new ++ T)] /\
      concat g = fed_spec kt data /\ Lv c (c_eps c) (EvalOKc (n + c_eps c) c k) css g new /\
      tail_shape c (last_z data) n (last new dseg) T /\
      (extra_test c n (last new dseg) = true ->
       sg_key (extra_seg c (last_z data) n) <= k -> k < sentinel c ->
       eval_ok c 1 0 (extra_seg c (last_z data) n) k) /\
      sg_key (last (new ++ T) dseg) = sentinel c /\ new <> [].
  Proof.
    intros Hfloat. destruct (build0_shape c data ix Hrec Hne Hbuild) as (segs & ln & E2 & Eix & Hls).
    destruct (build_level_desc _ _ _ _ _ _ _ E2 Hpar Hne Hs nowrap_data Hn64)
      as (css & fed & cnt & g & new & T & M1 & M2 & Es & Hcat & F1 & F2 & He0 & Htail).
    cbn [app] in Es, Htail.
    destruct (Hfloat css fed cnt new M1 M2) as [Fev Fext].
    pose proof (Lv_of_Forall2 c (c_eps c) (EvalOKc (n + c_eps c) c k) css g new F1 F2 Fev) as HL.
    assert (Hnn : new <> []).
    { intros ->. inversion F2; subst. inversion F1; subst. cbn [concat] in Hcat.
      destruct data as [|x0 tl]; [contradiction|]. destruct (fed_spec_hd kt x0 tl) as (r & Er).
      fold kt in Hcat. rewrite Er in Hcat. discriminate Hcat. }
    exists css, g, new, T. subst segs. split; [exact Eix|]. split; [exact Hcat|]. split; [exact HL|].
    split; [|split; [exact Fext|split; [|exact Hnn]]].
    - destruct Htail as [(-> & _)|(_ & _ & X & -> & HX)]; [left; reflexivity|right].
      exists X. split; [reflexivity|exact HX].
    - destruct Htail as [(-> & Hk & _)|(_ & _ & X & -> & HX)]; [rewrite app_nil_r; exact Hk|].
      rewrite app_assoc, last_last. reflexivity.
  Qed.

  Theorem search0_pos q : q < sentinel c -> float_ok0_cap c data (Z.max (hd 0 data) q) ->
    exists pos,
      search c ix q = Ok (mkApprox pos (PGM_SUB_EPS pos (c_eps c)) (PGM_ADD_EPS pos (c_eps c) n)) /\
      lb data q - c_eps c - 2 <= pos <= lb data q + c_eps c /\
      (In q data -> lb data q - c_eps c - 1 <= pos) /\ 0 <= pos.
  Proof.
    intros Hq Hfloat.
    destruct (index0_layout _ Hfloat) as (css & g & new & T & Eix & Hcat & HL & HT & Fext & Hlk & Hnn).
    pose proof nowrap_data as Hw. pose proof wrap_last as Hwl.
    assert (Hsent : last_z data + 1 <= sentinel c) by lia.
    destruct (level_keys_facts c (c_eps c) (EvalOKc (n + c_eps c) c (Z.max (hd 0 data) q)) data (last_z data) css g new T Hne Hs Hw Hcat HL HT Hwl Hsent)
      as (Hsorted & _ & Hhd).
    { intros p Hp. apply (fed_spec_x_le kt data p Hne Hs Hw Hp). }
    set (L := new ++ T) in *. set (k := Z.max (hd 0 data) q).
    assert (Hhd' : sg_key (hd dseg L) = hd 0 data).
    { unfold L. destruct new; [contradiction|]. exact Hhd. }
    assert (Hk1 : sg_key (hd dseg L) <= k) by (rewrite Hhd'; unfold k; lia).
    assert (Hd0 : hd 0 data <= last_z data).
    { apply data_le_last. destruct data; [contradiction|]. left. reflexivity. }
    assert (Hk2 : k < sentinel c) by (unfold k; lia).
    assert (Hlen : 2 <= zlen L).
    { destruct L as [|a [|b t]] eqn:EL; [unfold L in EL; apply app_eq_nil in EL; tauto| |rewrite !zlen_cons; pose proof (zlen_ge0 t); lia].
      cbn [hd last] in *. lia. }
    destruct (route_ub L k Hsorted Hlen Hk1 ltac:(rewrite Hlk; exact Hk2)) as (HJ0 & HJ1 & HJk1 & HJk2).
    set (J := ub_range (map sg_key L) 0 (zlen L - 1) k - 1) in *.
    pose proof (level_pos c (c_eps c) data (last_z data) css g new T k J Hne Hs Hw Hn32 Heps Hcat HL HT Hwl
                  ltac:(rewrite lb_last1; lia) Fext HJ0 HJ1 HJk1 HJk2 Hk2) as Hpos.
    cbn zeta in Hpos. fold L in Hpos.
    set (pos := Z.min (seg_eval c (nth (Z.to_nat J) L dseg) k) (sg_icpt (nth (Z.to_nat (J + 1)) L dseg))) in *.
    exists pos. unfold k in Hpos. rewrite (lb_clamp_first data q Hne Hs) in Hpos. split.
    - unfold search, search_tr. rewrite Eix. cbn [ix_first_key ix_n ix_segments ix_offsets]. fold k.
      unfold segment_for_key. rewrite Hrec. cbn [Z.eqb]. unfold segments_count, seg_at.
      cbn [ix_segments ix_offsets nth]. fold L.
      assert (Hsc : match L with [] => 0 | _ :: _ => zlen L - 1 end = zlen L - 1).
      { clear -Hlen. clearbody L. destruct L; [rewrite zlen_nil in Hlen; lia | reflexivity]. }
      rewrite Hsc. cbn [bind]. fold J.
      rewrite (nth_res_get L J) by lia. cbn [bind]. rewrite (nth_res_get L (J + 1)) by lia. cbn [bind fst].
      fold pos. reflexivity.
    - split; [tauto|]. split; [|tauto]. intros Hin. destruct Hpos as (_ & Hp & _). apply Hp.
      rewrite Z.max_r by (apply hd_le_In; assumption). exact Hin.
  Qed.

  Theorem C02_search0_cap q : q < sentinel c -> float_ok0_cap c data (Z.max (hd 0 data) q) ->
    exists a, search c ix q = Ok a /\
      0 <= a_lo a /\ a_lo a <= lb data q /\ lb data q <= a_hi a /\ a_hi a <= zlen data /\
      a_hi a - a_lo a <= 2 * c_eps c + 2 /\ a_lo a <= a_pos a.
  Proof.
    intros Hq Hfl. destruct (search0_pos q Hq Hfl) as (pos & Es & Hb & _ & Hp0).
    eexists. split; [exact Es|]. cbn [a_lo a_hi a_pos].
    pose proof (lb_nonneg data q) as Hr0. pose proof (lb_le_len data q) as Hrn.
    pose proof (window_absent (c_eps c) n pos (lb data q) ltac:(lia) Hp0 ltac:(fold n; lia) Hb) as Hwin.
    cbn zeta in Hwin. fold n. lia.
  Qed.

  Theorem C01_search0_cap q : q < sentinel c -> float_ok0_cap c data (Z.max (hd 0 data) q) -> In q data ->
    exists a, search c ix q = Ok a /\
      0 <= a_lo a /\ a_lo a <= lb data q /\ lb data q < a_hi a /\ a_hi a <= zlen data /\
      a_hi a - a_lo a <= 2 * c_eps c + 2 /\ a_lo a <= a_pos a.
  Proof.
    intros Hq Hfl Hin. destruct (search0_pos q Hq Hfl) as (pos & Es & Hb & Hpres & Hp0).
    eexists. split; [exact Es|]. cbn [a_lo a_hi a_pos].
    destruct (present_at_r data Hs q Hin) as [Hr _].
    pose proof (lb_nonneg data q) as Hr0.
    pose proof (window_present (c_eps c) n pos (lb data q) ltac:(lia) Hp0 ltac:(fold n; lia)
                  ltac:(specialize (Hpres Hin); lia)) as Hwin.
    cbn zeta in Hwin. fold n. lia.
  Qed.

  Corollary C02_pred_search0_cap q : q < sentinel c -> float_ok0_cap c data (Z.max (hd 0 data) q) ->
    exists a, search c ix q = Ok a /\ C02_pred_b data q a = true.
  Proof.
    intros Hq Hfl. destruct (C02_search0_cap q Hq Hfl) as (a & Es & H).
    exists a. split; [exact Es|]. apply C02_pred_b_of_bounds; [exact Hs | lia..].
  Qed.

  Corollary C01_pred_search0_cap q : q < sentinel c -> float_ok0_cap c data (Z.max (hd 0 data) q) -> In q data ->
    exists a, search c ix q = Ok a /\ C01_pred_b (c_eps c) data q a = true.
  Proof.
    intros Hq Hfl Hin. destruct (C01_search0_cap q Hq Hfl Hin) as (a & Es & H).
    exists a. split; [exact Es|]. unfold C01_pred_b. lia.
  Qed.

  (* the same under the stronger hypothesis float_ok0 (eval_ok without the cap disjunct) *)
  Theorem C02_search0 q : q < sentinel c -> float_ok0 c data (Z.max (hd 0 data) q) ->
    exists a, search c ix q = Ok a /\
      0 <= a_lo a /\ a_lo a <= lb data q /\ lb data q <= a_hi a /\ a_hi a <= zlen data /\
      a_hi a - a_lo a <= 2 * c_eps c + 2 /\ a_lo a <= a_pos a.
  Proof. intros Hq Hfl. exact (C02_search0_cap q Hq (float_ok0_cap_of _ _ _ Hfl)). Qed.

  Theorem C01_search0 q : q < sentinel c -> float_ok0 c data (Z.max (hd 0 data) q) -> In q data ->
    exists a, search c ix q = Ok a /\
      0 <= a_lo a /\ a_lo a <= lb data q /\ lb data q < a_hi a /\ a_hi a <= zlen data /\
      a_hi a - a_lo a <= 2 * c_eps c + 2 /\ a_lo a <= a_pos a.
  Proof. intros Hq Hfl. exact (C01_search0_cap q Hq (float_ok0_cap_of _ _ _ Hfl)). Qed.

  Corollary C02_pred_search0 q : q < sentinel c -> float_ok0 c data (Z.max (hd 0 data) q) ->
    exists a, search c ix q = Ok a /\ C02_pred_b data q a = true.
  Proof. intros Hq Hfl. exact (C02_pred_search0_cap q Hq (float_ok0_cap_of _ _ _ Hfl)). Qed.

  Corollary C01_pred_search0 q : q < sentinel c -> float_ok0 c data (Z.max (hd 0 data) q) -> In q data ->
    exists a, search c ix q = Ok a /\ C01_pred_b (c_eps c) data q a = true.
  Proof. intros Hq Hfl. exact (C01_pred_search0_cap q Hq (float_ok0_cap_of _ _ _ Hfl)). Qed.
End Search0.

Print Assumptions C02_search0.
Print Assumptions C01_search0.

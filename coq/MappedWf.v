(* MappedWf.v — C12, gap (A): the well-formedness premise `wf_index` of the round-trip theorems
   (MappedFile.v / MappedSlopes.v) is DERIVED from `build c data = Ok ix`.
   The derived invariant is stronger than wf_index: every slope of a built index is `canonical`
   (a finite value of the Floating type of the configuration, held in a double), which is what makes
   the reopened index EQUAL to the original for Floating = float as well (MappedEq.v). *)
Require Import Base Fp PlaModel PlaSpec GenLeaf IndexModel IndexProofs MappedModel MappedQueries MappedFile MappedSlopes
  IdxFed IdxSeg IdxBlock IdxLevel IdxSearch0 IdxChain IdxFuel Reject ComposeIdx ComposeBuild
  FloatOkLemmas FloatOk FloatOkFar FloatOkAll.
From Coq Require Import Reals ZifyBool.
From Flocq Require Import Core.Core IEEE754.BinarySingleNaN.
Local Open Scope Z_scope.

(* ---------- canonical slopes ---------- *)
(* the value stored in Segment::slope, as the model keeps it (a double): a finite double for
   Floating = double; the exact widening of a finite float for Floating = float *)
Definition slope_canon (c : cfg) (x : f64) : Prop :=
  if c_fdouble c then is_finite x = true
  else exists y : f32, is_finite y = true /\ x = f32_to_f64 y.

Lemma slope_canon_zero c : slope_canon c f64_zero.
Proof.
  unfold slope_canon. destruct (c_fdouble c); [reflexivity|].
  exists (B754_zero false). split; reflexivity.
Qed.

Lemma slope_canon_finite c x : slope_canon c x -> slope_finite c x = true.
Proof.
  unfold slope_canon, slope_finite. destruct (c_fdouble c); [auto|].
  intros (y & Hy & ->). rewrite f64_to_f32_f32_to_f64 by exact Hy. exact Hy.
Qed.

(* writing the bit pattern of a canonical slope and decoding it gives the slope back *)
Theorem slope_canon_reread c x : slope_canon c x -> bits_slope c (slope_bits c x) = x.
Proof.
  unfold slope_canon. destruct (c_fdouble c) eqn:Hc.
  - intros Hf. apply bits_slope_slope_bits_double; assumption.
  - intros (y & Hy & ->).
    rewrite bits_slope_slope_bits_float; [|exact Hc|rewrite f64_to_f32_f32_to_f64 by exact Hy; exact Hy].
    rewrite f64_to_f32_f32_to_f64 by exact Hy. reflexivity.
Qed.

(* the slope computed by Segment(const CanonicalSegment&) is canonical *)
Lemma slope_to_floating_canon c dx dy : 0 < dx < 2 ^ 64 -> 0 <= dy < 2 ^ 64 ->
  slope_canon c (slope_to_floating c (dx, dy)).
Proof.
  intros Hdx Hdy. pose proof (slope_R c dx dy Hdx Hdy) as (F & _).
  unfold slope_canon. destruct (c_fdouble c) eqn:Hc; [exact F|].
  destruct (slope80_R dx dy Hdx Hdy) as (F8 & P0 & Bd & Zr & _). cbv zeta in *.
  destruct (narrow_R (div80 (ofZ80 dy) (ofZ80 dx)) 24 128 p24 e24 ltac:(lia) F8 P0 Bd Zr) as (F2 & _).
  exists (f80_to_f32 (div80 (ofZ80 dy) (ofZ80 dx))). split; [exact F2|].
  unfold slope_to_floating. rewrite Hc. reflexivity.
Qed.

(* ---------- canonical segments ---------- *)
Definition seg_canon (c : cfg) (s : segment) : Prop :=
  in_ktype (c_kt c) (sg_key s) = true /\ 0 <= sg_icpt s < 2 ^ 32 /\ slope_canon c (sg_slope s).

Lemma seg_canon_fin c s : seg_canon c s -> wf_segment_fin c s.
Proof. intros (A & B & C). split; [exact A|]. split; [exact B|]. apply slope_canon_finite. exact C. Qed.

Lemma seg_canon_reread c s : seg_canon c s -> reread_segment c s = s.
Proof.
  intros (_ & _ & C). unfold reread_segment. rewrite (slope_canon_reread c _ C). destruct s; reflexivity.
Qed.

Lemma wrapK_in_ktype kt z : 1 <= kbits kt -> in_ktype kt (wrapK kt z) = true.
Proof.
  intros Hb. assert (Hp : 2 ^ kbits kt = 2 * 2 ^ (kbits kt - 1)).
  { replace (kbits kt) with (1 + (kbits kt - 1)) at 1 by lia. rewrite Z.pow_add_r by lia. reflexivity. }
  assert (0 < 2 ^ (kbits kt - 1)) by (apply Z.pow_pos_nonneg; lia).
  unfold in_ktype, wrapK, wrapS, wrapU, kmin, kmax. destruct (ksigned kt).
  - pose proof (Z.mod_pos_bound (z + 2 ^ (kbits kt - 1)) (2 ^ kbits kt) ltac:(lia)). lia.
  - pose proof (Z.mod_pos_bound z (2 ^ kbits kt) ltac:(lia)). lia.
Qed.

Lemma sentinel_in_ktype c : 1 <= kbits (c_kt c) -> in_ktype (c_kt c) (sentinel c) = true.
Proof.
  intros Hb. pose proof (kspan (c_kt c) Hb) as Hs.
  assert (0 < 2 ^ kbits (c_kt c)) by (apply Z.pow_pos_nonneg; lia).
  unfold in_ktype, sentinel. lia.
Qed.

Lemma wrapU32_range n : 0 <= wrapU 32 n < 2 ^ 32.
Proof. unfold wrapU. apply Z.mod_pos_bound. lia. Qed.

Lemma sent_seg_canon c ln : 1 <= kbits (c_kt c) -> seg_canon c (sent_seg c ln).
Proof.
  intros Hb. unfold seg_canon, sent_seg. cbn [sg_key sg_icpt sg_slope].
  split; [apply sentinel_in_ktype; exact Hb|]. split; [apply wrapU32_range | apply slope_canon_zero].
Qed.

Lemma extra_seg_canon c ldk ln : 1 <= kbits (c_kt c) -> seg_canon c (extra_seg c ldk ln).
Proof.
  intros Hb. unfold seg_canon, extra_seg. cbn [sg_key sg_icpt sg_slope].
  split; [apply wrapK_in_ktype; exact Hb|]. split; [apply wrapU32_range | apply slope_canon_zero].
Qed.

(* ---------- one level ---------- *)
(* a converted segment: key = first abscissa of its block, intercept checked by the constructor,
   slope = quotient of the maximum-slope line of the rectangle *)
Lemma real_seg_canon c eps cs b s :
  std_width c -> 0 <= eps ->
  seg_rel2 eps cs b -> line_ok eps cs b -> pts_ok (c_kt c) eps b -> seg_of c cs s -> seg_canon c s.
Proof.
  intros W He Hrel Hlo Hp Hso. destruct (std_width_bits c W) as [Hb H64].
  destruct (seg_of_cseg_spec c cs s Hso) as (Ekey & _ & Hicpt).
  pose proof Hlo as (Hbne & Hfirst & Hdx & Hdy & _). fold (slope_of cs) in Hdx, Hdy.
  split; [|split; [exact Hicpt|]].
  - rewrite Ekey, Hfirst. unfold pts_ok in Hp. rewrite Forall_forall in Hp.
    destruct (Hp _ (hd_In_ne b Hbne)) as [Hx _]. unfold in_ktype. lia.
  - rewrite (seg_of_slope c cs s Hso). destruct (one_point cs) eqn:Hop; [apply slope_canon_zero|].
    destruct (slope_bounds c eps cs b Hb He Hrel Hp Hop) as [Bx By].
    rewrite (surjective_pairing (slope_of cs)). apply slope_to_floating_canon; lia.
Qed.

Lemma Forall2_share {A B C} (P : A -> B -> Prop) (Q : A -> C -> Prop) (R : C -> Prop) :
  (forall a b d, P a b -> Q a d -> R d) ->
  forall la lb lc, Forall2 P la lb -> Forall2 Q la lc -> Forall R lc.
Proof.
  intros H. induction la as [|a la IH]; intros lb lc H1 H2; inversion H1; inversion H2; subst; constructor.
  - eapply H; eauto.
  - eapply IH; eauto.
Qed.

Theorem build_level_canon c eps keys ldk segs0 segs ln' :
  build_level c eps keys (zlen keys) ldk segs0 = Ok (segs, ln') ->
  std_width c -> 1 <= c_par c -> keys <> [] -> sortedb keys = true -> Forall (key_ok (c_kt c)) keys ->
  zlen keys + eps < 2 ^ 64 - 1 ->
  Forall (seg_canon c) segs0 -> Forall (seg_canon c) segs.
Proof.
  intros H W Hpar Hne Hs Hk Hn H0. destruct (std_width_bits c W) as [Hb H64].
  destruct (build_level_shape _ _ _ _ _ _ _ _ H) as (css & fed & cnt & new & T & E1 & E2 & E3 & HT).
  destruct (level_blocks_full _ _ _ _ _ _ _ _ E1 Hb Hpar Hne Hs Hk Hn) as (g & _ & Heps & _ & HF).
  pose proof (map_res_Forall2 _ _ _ E2) as F2.
  assert (Hnew : Forall (seg_canon c) new).
  { apply (Forall2_share _ _ _ (fun cs b s (HP : seg_rel2 eps cs b /\ line_ok eps cs b /\ pts_ok (c_kt c) eps b)
                                  (HQ : segment_of_cseg c cs = Ok s) =>
             real_seg_canon c eps cs b s W Heps (proj1 HP) (proj1 (proj2 HP)) (proj2 (proj2 HP)) HQ) css g new HF F2). }
  subst segs. apply Forall_app. split; [exact H0|]. apply Forall_app. split; [exact Hnew|].
  destruct HT as [(-> & _)|(_ & _ & X & -> & HX)]; [constructor|].
  apply Forall_app. split; [|constructor; [apply sent_seg_canon; exact Hb | constructor]].
  destruct HX as [->|[-> _]]; [constructor|]. constructor; [apply extra_seg_canon; exact Hb | constructor].
Qed.

(* ---------- the upper levels (the loop of PGMIndex::build), along the chain of IdxChain.v ---------- *)
Lemma build_upper_canon c ldk :
  std_width c -> 1 <= c_par c -> 0 <= c_epsrec c -> c_epsrec c + 2 ^ 32 < 2 ^ 64 - 1 ->
  forall fuel rl r segsF offsF,
    chainR c ldk (sentinel c) (r :: rl) -> Forall (seg_canon c) (below (r :: rl)) ->
    build_upper c fuel ldk (below (r :: rl)) (offs_of (r :: rl)) (lr_ln r) = Ok (segsF, offsF) ->
    zlen segsF < 2 ^ 32 -> Forall (seg_canon c) segsF.
Proof.
  intros W Hpar He0 He64. destruct (std_width_bits c W) as [Hb H64].
  induction fuel as [|f IH]; intros rl r segsF offsF Hch Hcan H Hsz.
  - cbn [build_upper] in H. destruct ((c_epsrec c =? 0) || (lr_ln r <=? 1)); [|discriminate H].
    injection H as <- <-. exact Hcan.
  - cbn [build_upper] in H. destruct ((c_epsrec c =? 0) || (lr_ln r <=? 1)) eqn:Ec.
    { injection H as <- <-. exact Hcan. }
    assert (Eoff : nth (length (offs_of (r :: rl)) - 2) (offs_of (r :: rl)) 0 = zlen (below rl)).
    { rewrite offs_len. cbn [length]. replace (S (S (length rl)) - 2)%nat with (length rl) by lia.
      exact (offs_nth [r] rl). }
    rewrite Eoff in H.
    assert (Esk : skipn (Z.to_nat (zlen (below rl))) (below (r :: rl)) = lr_L r).
    { rewrite below_cons. apply skipn_zlen_app. }
    rewrite Esk in H.
    match type of H with bind ?e _ = _ => destruct e as [[segs1 ln1]|e1] eqn:E end; cbn [bind] in H; [|discriminate H].
    destruct (build_upper_grows _ _ _ _ _ _ _ _ H) as (m2 & Em2).
    destruct (build_level_grows _ _ _ _ _ _ _ _ E) as (m1 & Em1).
    assert (Hsz1 : zlen (below (r :: rl)) < 2 ^ 32).
    { rewrite Em2, Em1, !zlen_app in Hsz. pose proof (zlen_ge0 m1). pose proof (zlen_ge0 m2). lia. }
    assert (Hok : lrec_ok c ldk (sentinel c) r) by (cbn [chainR] in Hch; tauto).
    destruct (next_keys c ldk (sentinel c) r Hb Hok) as (_ & Hl2 & Hz & _ & Hss & Hko & _).
    assert (Hln64 : lr_ln r + c_epsrec c < 2 ^ 64 - 1).
    { pose proof (zlen_below_cons_ge0 r rl). lia. }
    apply orb_false_iff in Ec. destruct Ec as [Ec1 Ec2].
    set (keys' := map sg_key (firstn (Z.to_nat (lr_ln r)) (lr_L r))) in *.
    assert (Hne' : keys' <> []) by (intros En; rewrite En in Hz; change (zlen (@nil Z)) with 0 in Hz; lia).
    assert (Hcan1 : Forall (seg_canon c) segs1).
    { pose proof E as E'. rewrite <- Hz in E'.
      apply (build_level_canon c (c_epsrec c) keys' ldk (below (r :: rl)) segs1 ln1 E' W Hpar Hne'
               (ssortedb_sorted _ Hss) Hko ltac:(lia) Hcan). }
    destruct (build_upper_step c ldk (sentinel c) r rl segs1 ln1 Hb Hpar He0 Hok ltac:(lia) Hln64
                (level_float_ok_cap_trivial _ _ _ _) E) as (r' & Hok' & Hlink & Es1 & Eln1).
    subst ln1. rewrite Es1 in H, Hcan1.
    assert (Hch' : chainR c ldk (sentinel c) (r' :: r :: rl)) by (cbn [chainR]; cbn [chainR] in Hch; tauto).
    exact (IH (r :: rl) r' segsF offsF Hch' Hcan1 H Hsz).
Qed.

(* ---------- PGMIndex::build ---------- *)
Theorem build_canon c data ix :
  idx_ok c -> cfg_small c -> std_width c -> data_ok c data -> zlen data <= 2 ^ 30 ->
  build c data = Ok ix -> Forall (seg_canon c) (ix_segments ix).
Proof.
  intros Hc Hsm W Hd Hn H.
  pose proof (build_segs32 c data ix Hc Hsm Hd Hn H) as Hsz.
  destruct Hc as [Hb He1 He64 Hr0 Hr64 Hpar]. destruct Hsm as [Hp20 He31 Hr31].
  destruct Hd as [Hne Hs Hkt Hlast Hn32].
  unfold build in H.
  assert (Hn0 : zlen data <> 0) by (destruct data; [contradiction|]; rewrite zlen_cons; pose proof (zlen_ge0 data); lia).
  replace (zlen data =? 0) with false in H by lia.
  destruct (last_z data =? sentinel c) eqn:E1; [discriminate H|].
  destruct (build_level c (c_eps c) data (zlen data) (last_z data) []) as [[segs ln]|e] eqn:E2;
    cbn [bind] in H; [|discriminate H].
  destruct (build_upper c (length data + 2) (last_z data) segs [0; zlen segs] ln) as [[segsF offsF]|e] eqn:E3;
    cbn [bind] in H; [|discriminate H].
  injection H as <-. cbn [fst snd ix_segments] in *.
  assert (Hko : Forall (key_ok (c_kt c)) data).
  { rewrite Forall_forall in *. intros x Hx. split; [apply Hkt; exact Hx|].
    pose proof (sorted_le_last data x 0 Hs Hx). unfold last_z, sentinel in *. lia. }
  pose proof (key_ok_nowrap _ _ Hb Hko) as Hw.
  assert (Hcan0 : Forall (seg_canon c) segs).
  { apply (build_level_canon c (c_eps c) data (last_z data) [] segs ln E2 W Hpar Hne Hs Hko ltac:(lia)). constructor. }
  destruct (build_level_desc _ _ _ _ _ _ _ E2 Hpar Hne Hs Hw ltac:(lia))
    as (css & fed & cnt & g & new & T & M1 & M2 & Es & Hcat & F1 & F2 & He & Htail).
  cbn [app] in Es, Htail.
  destruct (level_float_ok_cap_trivial c (c_eps c) data (last_z data) css fed cnt new M1 M2) as [Fev _].
  pose proof (Lv_of_Forall2 c (c_eps c) (EvalOKc (zlen data + c_eps c) c (sentinel c)) css g new F1 F2 Fev) as HL.
  set (r0 := mkL data (c_eps c) css g new T ln).
  assert (Hok0 : lrec_ok c (last_z data) (sentinel c) r0).
  { unfold lrec_ok, r0. cbn [lr_keys lr_eps lr_css lr_g lr_new lr_T lr_ln]. do 6 (split; [assumption|]). exact Htail. }
  assert (Eb : below [r0] = segs).
  { unfold below. cbn [rev app map concat]. rewrite app_nil_r. unfold lr_L, r0. cbn [lr_new lr_T]. symmetry. exact Es. }
  assert (Eo : offs_of [r0] = [0; zlen segs]) by (cbn [offs_of app]; rewrite Eb; reflexivity).
  assert (Hch0 : chainR c (last_z data) (sentinel c) [r0]) by (cbn [chainR]; split; [exact Hok0 | reflexivity]).
  rewrite <- Eo in E3. rewrite <- Eb in E3, Hcan0. change ln with (lr_ln r0) in E3.
  exact (build_upper_canon c (last_z data) W Hpar Hr0 Hr64 _ [] r0 segsF offsF Hch0 Hcan0 E3 Hsz).
Qed.

(* ---------- offsets: positions in the segment array; at most one per iteration of the loop ---------- *)
Lemma build_upper_offs c ldk : forall fuel segs offs ln segsF offsF,
  build_upper c fuel ldk segs offs ln = Ok (segsF, offsF) ->
  Forall (fun o => 0 <= o <= zlen segs) offs ->
  Forall (fun o => 0 <= o <= zlen segsF) offsF /\ zlen offsF <= zlen offs + Z.of_nat fuel.
Proof.
  induction fuel as [|f IH]; intros segs offs ln segsF offsF H Ho.
  - cbn [build_upper] in H. destruct ((c_epsrec c =? 0) || (ln <=? 1)); [|discriminate H].
    injection H as <- <-. split; [exact Ho | lia].
  - cbn [build_upper] in H. destruct ((c_epsrec c =? 0) || (ln <=? 1)).
    { injection H as <- <-. split; [exact Ho | lia]. }
    match type of H with bind ?e _ = _ => destruct e as [[segs1 ln1]|e1] eqn:E end; cbn [bind] in H; [|discriminate H].
    destruct (build_level_grows _ _ _ _ _ _ _ _ E) as (m1 & ->).
    destruct (IH _ _ _ _ _ H) as [I1 I2].
    + apply Forall_app. split; [|constructor; [pose proof (zlen_ge0 (segs ++ m1)); lia | constructor]].
      eapply Forall_impl; [|exact Ho]. cbn beta. intros o Hr. rewrite zlen_app. pose proof (zlen_ge0 m1). lia.
    + split; [exact I1|]. rewrite zlen_app in I2. change (zlen [zlen (segs ++ m1)]) with 1 in I2. lia.
Qed.

(* ---------- the whole index ---------- *)
(* wf_index_fin (MappedSlopes.v) with canonical slopes *)
Record canon_index (c : cfg) (ix : index) : Prop := mkCanon {
  ci_kbits : kbits_ok c;
  ci_n : u64 (ix_n ix);
  ci_first : in_ktype (c_kt c) (ix_first_key ix) = true;
  ci_offsets : Forall u64 (ix_offsets ix);
  ci_segments : Forall (seg_canon c) (ix_segments ix);
  ci_header : header_size c ix < 2 ^ 64
}.

Lemma canon_index_fin c ix : canon_index c ix -> wf_index_fin c ix.
Proof.
  intros [H1 H2 H3 H4 H5 H6]. constructor; try assumption.
  eapply Forall_impl; [|exact H5]. exact (seg_canon_fin c).
Qed.

Lemma canon_index_wf c ix : canon_index c ix -> wf_index c ix.
Proof. intros H. apply wf_index_of_fin. apply canon_index_fin. exact H. Qed.

Lemma hd_in_ktype c data : data <> [] -> Forall (fun x => in_ktype (c_kt c) x = true) data ->
  in_ktype (c_kt c) (hd 0 data) = true.
Proof. intros Hne H. destruct data as [|x t]; [contradiction|]. inversion H; subst. assumption. Qed.

Theorem canon_index_of_build c data ix :
  idx_ok c -> cfg_small c -> std_width c -> data_ok c data -> zlen data <= 2 ^ 30 ->
  build c data = Ok ix -> canon_index c ix.
Proof.
  intros Hc Hsm W Hd Hn H.
  pose proof (build_segs32 c data ix Hc Hsm Hd Hn H) as Hsz.
  pose proof (build_canon c data ix Hc Hsm W Hd Hn H) as Hcan.
  pose proof (build_n c data ix H) as En.
  destruct Hd as [Hne Hs Hkt Hlast Hn32]. pose proof (zlen_ge0 data) as Hn0.
  assert (Hfk : ix_first_key ix = hd 0 data /\
                Forall (fun o => 0 <= o <= zlen (ix_segments ix)) (ix_offsets ix) /\
                zlen (ix_offsets ix) <= zlen data + 4).
  { unfold build in H. destruct (zlen data =? 0) eqn:E0.
    { destruct data; [contradiction|]. rewrite zlen_cons in E0. pose proof (zlen_ge0 data). lia. }
    destruct (last_z data =? sentinel c); [discriminate H|].
    destruct (build_level c (c_eps c) data (zlen data) (last_z data) []) as [[segs ln]|e]; cbn [bind] in H; [|discriminate H].
    destruct (build_upper c (length data + 2) (last_z data) segs [0; zlen segs] ln) as [[segsF offsF]|e] eqn:E3;
      cbn [bind] in H; [|discriminate H].
    injection H as <-. cbn [ix_first_key ix_segments ix_offsets fst snd].
    split; [reflexivity|].
    destruct (build_upper_offs c _ _ _ _ _ _ _ E3) as [O1 O2].
    { pose proof (zlen_ge0 segs). constructor; [lia|]. constructor; [lia | constructor]. }
    split; [exact O1|]. change (zlen [0; zlen segs]) with 2 in O2. unfold zlen at 2. lia. }
  destruct Hfk as (Efk & Hoffs & Hno).
  assert (Hkb : 8 * key_bytes c = kbits (c_kt c) /\ 0 < key_bytes c) by (apply key_bytes_bits; exact W).
  assert (Hss : sizeof_segment c <= 20).
  { unfold sizeof_segment. fold (key_bytes c). destruct W as [E|[E|[E|E]]]; rewrite E in Hkb; destruct (c_fdouble c); lia. }
  constructor.
  - exact W.
  - unfold u64. lia.
  - rewrite Efk. apply hd_in_ktype; assumption.
  - eapply Forall_impl; [|exact Hoffs]. cbn beta. unfold u64. intros o Ho. lia.
  - exact Hcan.
  - unfold header_size. pose proof (zlen_ge0 (ix_segments ix)).
    assert (key_bytes c <= 8) by (destruct W as [E|[E|[E|E]]]; rewrite E in Hkb; lia). nia.
Qed.

(* gap (A), as stated by the audit *)
Theorem wf_index_fin_of_build c data ix :
  idx_ok c -> cfg_small c -> std_width c -> data_ok c data -> zlen data <= 2 ^ 30 ->
  build c data = Ok ix -> wf_index_fin c ix.
Proof. intros. apply canon_index_fin. eapply canon_index_of_build; eauto. Qed.

Theorem wf_index_of_build c data ix :
  idx_ok c -> cfg_small c -> std_width c -> data_ok c data -> zlen data <= 2 ^ 30 ->
  build c data = Ok ix -> wf_index c ix.
Proof. intros. apply canon_index_wf. eapply canon_index_of_build; eauto. Qed.

(* the empty container (data_ok excludes it): build returns the empty index *)
Lemma canon_index_empty c : std_width c -> canon_index c (mkIndex 0 0 [] []).
Proof.
  intros W. assert (Hkb : 8 * key_bytes c = kbits (c_kt c) /\ 0 < key_bytes c) by (apply key_bytes_bits; exact W).
  destruct (std_width_bits c W) as [Hb _].
  assert (H8 : key_bytes c <= 8) by (destruct W as [E|[E|[E|E]]]; rewrite E in Hkb; lia).
  constructor; cbn [ix_n ix_first_key ix_offsets ix_segments].
  - exact W.
  - unfold u64. lia.
  - assert (0 < 2 ^ (kbits (c_kt c) - 1)) by (apply Z.pow_pos_nonneg; lia).
    assert (0 < 2 ^ kbits (c_kt c)) by (apply Z.pow_pos_nonneg; lia).
    unfold in_ktype, kmin, kmax. destruct (ksigned (c_kt c)); lia.
  - constructor.
  - constructor.
  - unfold header_size. cbn [ix_offsets ix_segments]. change (zlen (@nil Z)) with 0. change (zlen (@nil segment)) with 0. lia.
Qed.

Theorem wf_index_of_from_range c data m :
  idx_ok c -> cfg_small c -> std_width c -> data_ok c data -> zlen data <= 2 ^ 30 ->
  from_range c data = Ok m -> wf_index c (mp_ix m).
Proof.
  intros Hc Hsm W Hd Hn H. unfold from_range in H.
  destruct (build c data) as [ix|e] eqn:Eb; cbn [bind] in H; [|discriminate H]. injection H as <-. cbn [mp_ix].
  exact (wf_index_of_build c data ix Hc Hsm W Hd Hn Eb).
Qed.

Print Assumptions slope_canon_reread.
Print Assumptions canon_index_of_build.
Print Assumptions wf_index_of_build.
Print Assumptions wf_index_of_from_range.

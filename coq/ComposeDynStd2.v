(* ComposeDynStd2.v -- (1) C06 begin() for DynamicPGMIndex over the real index, for either Floating type
   (C06_begin_idxN / C06_begin_typedN / C06_begin_std / C06_begin_float; size() and empty() for either
   Floating type are ComposeDyn32.C06_size_std / C06_empty_std, restated here without section variables as
   C06_size_shist / C06_empty_shist);
   (2) the capacity guard capN read literally: capN_meaning (base^used_levels <= N, base a power of two),
   shist_capN_meaning (true of every reached state), capN_max_used (used_levels <= log2 N / log2 base),
   and the concrete limits of the default configuration DynamicPGMIndex<K,V,PGMIndex<K,16>> (base 8):
   default_float_max_used (7), default_double_max_used (10), default_levels, default_float_no_index;
   stored_items_bound (total number of stored items <= items_cap), default_float_items_bound (299593),
   default_double_items_bound (153391689);
   (3) non-vacuity of ComposeDynTotal.shist_run: std2_run_instance. *)
Require Import Base Fp PlaModel GenLeaf IndexModel IndexProofs IdxFed IdxChain FloatOk FloatOkAll FloatOkCap
  DynModel DynSpec DynExec DynCoreLemmas DynCoreInv DynCoreRefine DynCoreQuery DynCore DynIter
  ComposeIdx ComposeBuild ComposeDyn ComposeDynGood ComposeFloat ComposeFloat32 ComposeDynN ComposeDynGoodN
  ComposeDyn32 ComposeDynTotal.
From Coq Require Import ZifyBool.
Local Open Scope Z_scope.

(* ---------------- (1) begin() ---------------- *)
Section BeginN.
  Variable N : Z.
  Hypothesis HN0 : 0 <= N.
  Hypothesis HN : N <= 2 ^ 30.
  Variable c : cfg.
  Hypothesis Hc : idx_ok c.
  Hypothesis Hf : float_ok_cap_valid_on c N.
  Hypothesis Hsm : cfg_small c.
  Variables (d : @dyn index) (m : amap).

  (* begin() .. end() is the whole map, in order *)
  Theorem C06_begin_idxN kmin_ :
    ihistN N c d m -> DynCoreQuery.sizes_ok d -> kmin_ < sentinel c -> Forall (fun p => kmin_ <= fst p) m ->
    exists b, dyn_begin (idx_ops c) d kmin_ = Ok b /\ to_list_from (idx_ops c) d b = Ok m.
  Proof.
    intros Hh Hsz H1 H2.
    pose proof (gops_contractN N HN c Hc Hf (build_ok_holds c Hc Hsm)) as Hcon.
    pose proof (ihist_ghist_gN N c d m Hh) as Hg. pose proof (ihist_realN N HN0 c d m Hh) as Hr.
    destruct (C06_begin (gopsN N c) (sentinel c) Hcon (gops_build_nilN N HN0 c) d m kmin_ Hg Hsz H1 H2) as (b & E1 & E2).
    exists b. rewrite <- (dyn_begin_eqN N c d Hr), <- (to_list_from_eqN N c d Hr). split; assumption.
  Qed.

  Theorem C06_begin_typedN kmin_ :
    thistN N c d m -> DynCoreQuery.sizes_ok d -> kmin_ < sentinel c -> Forall (fun p => kmin_ <= fst p) m ->
    exists b, dyn_begin (idx_ops c) d kmin_ = Ok b /\ to_list_from (idx_ops c) d b = Ok m.
  Proof. intros Hh. exact (C06_begin_idxN kmin_ (proj1 (thistN_ihistN N c d m Hh))). Qed.
End BeginN.

Theorem C06_begin_std c d m kmin_ :
  idx_ok c -> cfg_small c -> std_width c -> shist c d m -> DynCoreQuery.sizes_ok d ->
  kmin_ < sentinel c -> Forall (fun p => kmin_ <= fst p) m ->
  exists b, dyn_begin (idx_ops c) d kmin_ = Ok b /\ to_list_from (idx_ops c) d b = Ok m.
Proof.
  intros Hc Hsm W Hh.
  exact (C06_begin_typedN _ (Z.le_max_l 0 (lim_std c)) (maxlim_le c Hc) c Hc
           (float_ok_cap_valid_on_std c Hc Hsm W) Hsm d m kmin_ (shist_max c d m Hh)).
Qed.

Theorem C06_begin_float c d m kmin_ :
  idx_ok c -> cfg_small c -> std_width c -> c_fdouble c = false -> fhist c d m -> DynCoreQuery.sizes_ok d ->
  kmin_ < sentinel c -> Forall (fun p => kmin_ <= fst p) m ->
  exists b, dyn_begin (idx_ops c) d kmin_ = Ok b /\ to_list_from (idx_ops c) d b = Ok m.
Proof. intros Hc Hsm W Hfl Hh. exact (C06_begin_std c d m kmin_ Hc Hsm W (fhist_shist c d m Hfl Hh)). Qed.

(* size() and empty() for either Floating type: ComposeDyn32.C06_size_std / C06_empty_std, all premises explicit *)
Theorem C06_size_shist c d m kmin_ :
  idx_ok c -> cfg_small c -> std_width c -> shist c d m -> DynCoreQuery.sizes_ok d ->
  kmin_ < sentinel c -> Forall (fun p => kmin_ <= fst p) m ->
  dyn_size (idx_ops c) d kmin_ = Ok (zlen m).
Proof. intros Hc Hsm W Hh Hsz. exact (C06_size_std c Hc Hsm W d m Hh Hsz kmin_). Qed.

Theorem C06_empty_shist c d m kmin_ :
  idx_ok c -> cfg_small c -> std_width c -> shist c d m -> DynCoreQuery.sizes_ok d ->
  kmin_ < sentinel c -> Forall (fun p => kmin_ <= fst p) m ->
  dyn_empty (idx_ops c) d kmin_ = Ok (match m with [] => true | _ => false end).
Proof. intros Hc Hsm W Hh Hsz. exact (C06_empty_std c Hc Hsm W d m Hh Hsz kmin_). Qed.

Print Assumptions C06_begin_std.
Print Assumptions C06_begin_float.
Print Assumptions C06_size_shist.
Print Assumptions C06_empty_shist.

(* ---------------- (2) the capacity guard, literally ---------------- *)
Lemma ceil_log2_pow2 b : 1 <= b < 64 -> ceil_log2 (2 ^ b) = b.
Proof.
  intros Hb.
  assert (H2 : 2 <= 2 ^ b < 2 ^ 64).
  { split; [change 2 with (2 ^ 1) at 1; apply Z.pow_le_mono_r; lia|apply Z.pow_lt_mono_r; lia]. }
  destruct (ceil_log2_big (2 ^ b) H2) as [E _]. rewrite E.
  assert (Hs : 2 ^ b = 2 * 2 ^ (b - 1)).
  { replace b with (Z.succ (b - 1)) at 1 by lia. apply Z.pow_succ_r. lia. }
  assert (Hp : 0 < 2 ^ (b - 1)) by (apply Z.pow_pos_nonneg; lia).
  rewrite (Z.log2_unique (2 ^ b - 1) (b - 1)); [lia|lia|].
  replace (Z.succ (b - 1)) with b by lia. lia.
Qed.

(* base & (base - 1) == 0 (the test of the constructor) means: base is a power of two *)
Lemma pow2_of_land base : 2 <= base -> Z.land base (base - 1) = 0 -> base = 2 ^ Z.log2 base.
Proof.
  intros Hb Hl. destruct (Z.log2_spec base ltac:(lia)) as [H1 H2].
  pose proof (Z.log2_nonneg base) as H0.
  destruct (Z.eq_dec base (2 ^ Z.log2 base)) as [E|E]; [exact E|exfalso].
  assert (E1 : Z.log2 (base - 1) = Z.log2 base) by (apply Z.log2_unique; lia).
  pose proof (Z.bit_log2 base ltac:(lia)) as B1.
  pose proof (Z.bit_log2 (base - 1) ltac:(lia)) as B2. rewrite E1 in B2.
  assert (B : Z.testbit (Z.land base (base - 1)) (Z.log2 base) = true) by (rewrite Z.land_spec, B1, B2; reflexivity).
  rewrite Hl, Z.bits_0 in B. discriminate.
Qed.

Lemma pow2_base_facts base : 2 <= base < 2 ^ 64 -> Z.land base (base - 1) = 0 ->
  base = 2 ^ ceil_log2 base /\ 1 <= ceil_log2 base <= 63.
Proof.
  intros Hb Hl. pose proof (pow2_of_land base ltac:(lia) Hl) as E.
  assert (H1 : 1 <= Z.log2 base).
  { change 1 with (Z.log2 2). apply Z.log2_le_mono. lia. }
  assert (H2 : Z.log2 base < 64) by (apply Z.log2_lt_pow2; lia).
  assert (Ec : ceil_log2 base = Z.log2 base) by (rewrite E at 1; apply ceil_log2_pow2; lia).
  rewrite Ec. split; [exact E|lia].
Qed.

(* THE CAPACITY GUARD: capN N d is, by definition, 2^(used_levels * ceil_log2 base) <= N ... *)
Lemma capN_def {P} N (d : @dyn P) : capN N d <-> 2 ^ (d_used d * ceil_log2 (d_base d)) <= N.
Proof. reflexivity. Qed.

(* ... which for a base that is a power of two (the only bases the constructor accepts) reads
   base ^ used_levels <= N *)
Lemma capN_meaning {P} N (d : @dyn P) b :
  d_base d = 2 ^ b -> 1 <= b < 64 -> 0 <= d_used d -> (capN N d <-> d_base d ^ d_used d <= N).
Proof.
  intros Eb Hb Hu. unfold capN. rewrite Eb, (ceil_log2_pow2 b Hb).
  replace (d_used d * b) with (b * d_used d) by lia. rewrite Z.pow_mul_r by lia. reflexivity.
Qed.

(* ... equivalently a bound on used_levels *)
Definition max_used (N base : Z) : Z := Z.log2 N / ceil_log2 base.

Lemma capN_max_used {P} N (d : @dyn P) :
  1 <= N -> 1 <= ceil_log2 (d_base d) -> 0 <= d_used d -> (capN N d <-> d_used d <= max_used N (d_base d)).
Proof.
  intros HN Hb Hu. unfold capN, max_used. set (cl := ceil_log2 (d_base d)) in *. set (u := d_used d) in *.
  assert (H0 : 0 <= u * cl) by nia.
  rewrite (Z.log2_le_pow2 N (u * cl)) by lia.
  split; intros H.
  - apply Z.div_le_lower_bound; lia.
  - pose proof (Z.mul_div_le (Z.log2 N) cl ltac:(lia)). nia.
Qed.

(* every reached state has a base that is a power of two, 2 <= base < 2^64 *)
Lemma thistN_base N c d m : thistN N c d m ->
  2 <= d_base d < 2 ^ 64 /\ Z.land (d_base d) (d_base d - 1) = 0.
Proof.
  induction 1 as [tomb base bl il d Hok Hd | tomb pairs base bl il d Hb Hk1 Hk2 Hd Hcap
                  | d m k v d' Hh IH Hsz Hk1 Hk2 Hi Hcap | d m k d' Hh IH Hsz Hk1 Hk2 Hi Hcap].
  - destruct (dyn_ctor_args _ _ _ _ _ d Hd) as [H1 H2]. destruct Hok as (_ & _ & H3).
    apply dyn_ctor_eq in Hd. destruct Hd as [_ Hd]. cbv zeta in Hd. subst d. cbn [d_base]. split; [lia|exact H2].
  - destruct (dyn_bulk_used_base (idx_ops c) (sentinel c) tomb pairs base bl il d Hd) as [E _]. rewrite E.
    destruct Hb as [(_ & _ & H3) _]. unfold dyn_bulk in Hd.
    destruct (dyn_ctor tomb (sentinel c) base bl il) as [d0|e] eqn:E0; [|discriminate].
    destruct (dyn_ctor_args _ _ _ _ _ d0 E0) as [H1 H2]. split; [lia|exact H2].
  - pose proof (thistN_InvI N c d _ Hh) as HI.
    assert (Hins : insert (idx_ops c) d (mkItem k (Some v)) = Ok d').
    { unfold insert_or_assign in Hi. destruct (match d_tomb d with Some t => v =? t | None => false end); [discriminate|exact Hi]. }
    destruct (insert_used_base (idx_ops c) (sentinel c) d _ d' HI Hsz Hins) as [E _]. rewrite E. exact IH.
  - pose proof (thistN_InvI N c d _ Hh) as HI.
    destruct (insert_used_base (idx_ops c) (sentinel c) d _ d' HI Hsz Hi) as [E _]. rewrite E. exact IH.
Qed.

Lemma thistN_used_nonneg N c d m : thistN N c d m -> 0 <= d_used d.
Proof.
  intros Hh. pose proof (thistN_InvI N c d m Hh) as HI.
  pose proof (wf_levels_order _ d (iv_wf _ _ d HI)) as [H0 _].
  pose proof (wf_levels_len _ d (iv_wf _ _ d HI)) as [H1 _]. lia.
Qed.

(* the guard of the next shist constructor, on a state already reached: base ^ used_levels <= lim_std c,
   i.e. used_levels <= log2 (lim_std c) / log2 base *)
Theorem shist_capN_meaning c d m N : shist c d m -> (capN N d <-> d_base d ^ d_used d <= N).
Proof.
  intros Hh. destruct (thistN_base _ c d m Hh) as [Hb Hl].
  destruct (pow2_base_facts (d_base d) Hb Hl) as [E Hr].
  exact (capN_meaning N d (ceil_log2 (d_base d)) E ltac:(lia) (thistN_used_nonneg _ c d m Hh)).
Qed.

Theorem shist_capN_max_used c d m N : shist c d m -> 1 <= N ->
  (capN N d <-> d_used d <= max_used N (d_base d)).
Proof.
  intros Hh HN. destruct (thistN_base _ c d m Hh) as [Hb Hl].
  destruct (pow2_base_facts (d_base d) Hb Hl) as [_ Hr].
  apply capN_max_used; [exact HN|lia|exact (thistN_used_nonneg _ c d m Hh)].
Qed.

(* ---- the default configuration: DynamicPGMIndex<K, V, PGMIndex<K, 16>>(base = 8, buffer_level = 0,
   index_level = 0): Epsilon = 16, EpsilonRecursive = 4, Floating = float; and the same with double ---- *)
Definition dflt_float (kt : ktype) : cfg := mkCfg kt 16 4 false 1 false.
Definition dflt_double (kt : ktype) : cfg := mkCfg kt 16 4 true 1 false.

(* the bound on the size of a level *)
Example default_lim_float kt : lim_std (dflt_float kt) = 4194287.       (* 2^22 - 1 - 16 *)
Proof. reflexivity. Qed.
Example default_lim_double kt : lim_std (dflt_double kt) = 1073741824.  (* 2^30 *)
Proof. reflexivity. Qed.

(* the largest used_levels the guard allows, base 8 *)
Example default_float_max_used kt : max_used (lim_std (dflt_float kt)) 8 = 7.
Proof. vm_compute. reflexivity. Qed.
Example default_double_max_used kt : max_used (lim_std (dflt_double kt)) 8 = 10.
Proof. vm_compute. reflexivity. Qed.

(* the same as statements about states *)
Example default_float_guard kt (d : @dyn index) : d_base d = 8 -> 0 <= d_used d ->
  (cap_std (dflt_float kt) d <-> d_used d <= 7).
Proof.
  intros Eb Hu. unfold cap_std. rewrite (capN_max_used _ d); rewrite ?Eb; try (vm_compute; discriminate); try exact Hu.
  reflexivity.
Qed.
Example default_double_guard kt (d : @dyn index) : d_base d = 8 -> 0 <= d_used d ->
  (cap_std (dflt_double kt) d <-> d_used d <= 10).
Proof.
  intros Eb Hu. unfold cap_std. rewrite (capN_max_used _ d); rewrite ?Eb; try (vm_compute; discriminate); try exact Hu.
  reflexivity.
Qed.

(* default levels for base 8: the buffer is level 3 (at most 585 items), the first level with an index
   is level 8 *)
Example default_levels :
  dyn_min_level 8 0 = 3 /\ dyn_min_index_level 8 (dyn_min_level 8 0) 0 = 8 /\
  buffer_sum 8 (zseq 0 4) = 585.
Proof. vm_compute. repeat split; reflexivity. Qed.

(* with the default parameters and Floating = float the guard stops at used_levels = 7 < 8: no level of a
   state the float theorems cover owns an index (all lookups are plain binary searches on the levels) *)
Example default_float_no_index kt d m :
  shist (dflt_float kt) d m -> d_base d = 8 -> d_min_index_level d = 8 -> cap_std (dflt_float kt) d ->
  d_pgms d = [].
Proof.
  intros Hh Eb Em Hcap. pose proof (thistN_InvI _ _ d m Hh) as HI.
  apply (default_float_guard kt d Eb (thistN_used_nonneg _ _ d m Hh)) in Hcap.
  pose proof (iv_pgms _ _ d HI) as Hz. rewrite Em in Hz.
  destruct (d_pgms d) as [|p t]; [reflexivity|]. unfold zlen in Hz. cbn [length] in Hz. lia.
Qed.

(* ---- how many items that is: the items stored in all levels (live and tombstones) ---- *)
Definition items_cap (base ml used : Z) : Z :=
  buffer_sum base (zseq 0 (Z.to_nat (ml + 1))) + buffer_sum base (zseq (ml + 1) (Z.to_nat (used - ml - 1))).

Lemma skipn_all_nil : forall (L : list (list item)) k,
  (forall j l, (k <= j)%nat -> nth_error L j = Some l -> l = []) -> sumlen (skipn k L) = 0.
Proof.
  induction L as [|a t IH]; intros k H; [destruct k; reflexivity|].
  destruct k as [|k].
  - cbn [skipn sumlen]. rewrite (H 0%nat a (le_n 0) eq_refl). change (zlen (@nil item)) with 0.
    specialize (IH 0%nat). cbn [skipn] in IH. rewrite IH; [reflexivity|].
    intros j l _ Hj. exact (H (S j) l ltac:(lia) Hj).
  - cbn [skipn]. apply IH. intros j l Hk Hj. exact (H (S j) l ltac:(lia) Hj).
Qed.

Theorem stored_items_bound {P} (ops : pgmops P) kmax (d : @dyn P) :
  DynCoreInv.Inv ops kmax d -> sumlen (d_levels d) <= items_cap (d_base d) (d_min_level d) (d_used d).
Proof.
  intros HI. pose proof (iv_wf _ _ d HI) as Hwf. pose proof (wf_lsm _ d Hwf) as Hl.
  destruct (wf_levels_len _ d Hwf) as [Hl1 Hl2]. destruct (wf_levels_order _ d Hwf) as [Ho _].
  set (k := Z.to_nat (d_used d - d_min_level d)).
  rewrite <- (firstn_skipn k (d_levels d)), sumlen_app.
  assert (Hrest : sumlen (skipn k (d_levels d)) = 0).
  { apply skipn_all_nil. intros j l Hj Hn.
    apply (lp_unused ops d Hl (d_min_level d + Z.of_nat j) l); [lia|].
    unfold level. apply nth_res_ok. split; [lia|].
    replace (Z.to_nat (d_min_level d + Z.of_nat j - d_min_level d)) with j by lia. exact Hn. }
  rewrite Hrest. unfold items_cap.
  assert (Hnn : forall s n, 0 <= s -> 0 <= buffer_sum (d_base d) (zseq s n)).
  { intros s n Hs. apply buffer_sum_nonneg. apply Forall_forall. intros j Hj. apply zseq_in in Hj. lia. }
  assert (Ef : firstn k (d_levels d) = levels_from d (d_min_level d) k).
  { unfold levels_from. rewrite Z.sub_diag. reflexivity. }
  rewrite Ef. destruct k as [|k'] eqn:Ek.
  - cbn. pose proof (Hnn 0 (Z.to_nat (d_min_level d + 1)) ltac:(lia)).
    pose proof (Hnn (d_min_level d + 1) (Z.to_nat (d_used d - d_min_level d - 1)) ltac:(lia)). lia.
  - destruct (level_total d (d_min_level d) ltac:(lia)) as [buf Hb].
    rewrite (levels_from_cons d _ k' buf Hb). cbn [sumlen].
    pose proof (lp_buffer ops d Hl buf Hb) as Hbuf. rewrite (iv_bufmax _ _ d HI) in Hbuf.
    replace (Z.to_nat (d_used d - d_min_level d - 1)) with k' by lia.
    pose proof (sumlen_bound k' d (d_min_level d + 1)
                  (fun j l Hj Hlv => lp_sizes ops d Hl j l Hj Hlv) ltac:(lia) ltac:(lia)). lia.
Qed.

(* the default configuration: at most 299593 items under the float guard (used_levels <= 7: the buffer
   and levels 4..6), at most 153391689 under the double guard (used_levels <= 10: the buffer and levels 4..9) *)
Example default_float_items : items_cap 8 3 7 = 299593.
Proof. vm_compute. reflexivity. Qed.
Example default_double_items : items_cap 8 3 10 = 153391689.
Proof. vm_compute. reflexivity. Qed.

Lemma items_cap_mono base ml u u' : 0 <= ml -> u <= u' -> items_cap base ml u <= items_cap base ml u'.
Proof.
  intros Hm Hu. unfold items_cap.
  replace (Z.to_nat (u' - ml - 1)) with (Z.to_nat (u - ml - 1) + (Z.to_nat (u' - ml - 1) - Z.to_nat (u - ml - 1)))%nat by lia.
  rewrite zseq_app, buffer_sum_app.
  assert (0 <= buffer_sum base (zseq (ml + 1 + Z.of_nat (Z.to_nat (u - ml - 1)))
                                  (Z.to_nat (u' - ml - 1) - Z.to_nat (u - ml - 1)))).
  { apply buffer_sum_nonneg. apply Forall_forall. intros j Hj. apply zseq_in in Hj. lia. }
  lia.
Qed.

(* every state of the default float configuration that satisfies the guard stores at most 299593 items *)
Example default_float_items_bound kt d m :
  shist (dflt_float kt) d m -> d_base d = 8 -> d_min_level d = 3 -> cap_std (dflt_float kt) d ->
  sumlen (d_levels d) <= 299593.
Proof.
  intros Hh Eb Em Hcap. pose proof (thistN_InvI _ _ d m Hh) as HI.
  apply (default_float_guard kt d Eb (thistN_used_nonneg _ _ d m Hh)) in Hcap.
  pose proof (stored_items_bound _ _ d HI) as Hs. rewrite Eb, Em in Hs.
  pose proof (items_cap_mono 8 3 (d_used d) 7 ltac:(lia) Hcap) as Hm.
  rewrite default_float_items in Hm. lia.
Qed.

Example default_double_items_bound kt d m :
  shist (dflt_double kt) d m -> d_base d = 8 -> d_min_level d = 3 -> cap_std (dflt_double kt) d ->
  sumlen (d_levels d) <= 153391689.
Proof.
  intros Hh Eb Em Hcap. pose proof (thistN_InvI _ _ d m Hh) as HI.
  apply (default_double_guard kt d Eb (thistN_used_nonneg _ _ d m Hh)) in Hcap.
  pose proof (stored_items_bound _ _ d HI) as Hs. rewrite Eb, Em in Hs.
  pose proof (items_cap_mono 8 3 (d_used d) 10 ltac:(lia) Hcap) as Hm.
  rewrite default_double_items in Hm. lia.
Qed.

Print Assumptions shist_capN_meaning.
Print Assumptions shist_capN_max_used.
Print Assumptions default_float_no_index.
Print Assumptions default_float_items_bound.
Print Assumptions stored_items_bound.

(* ---------------- (3) non-vacuity of shist_run / shist_prog_total ----------------
   cx_c = PGMIndex<uint64_t, 1, 0, float> (FloatOkAll.v).  The container (base 2, buffer level 1, index
   level 2, reserved mapped value 0) is bulk-loaded with the 40 pairs (i^2, 10 i^2), i = 1..40: they land
   in level 6, which gets a REAL index (built by IndexModel.build over 40 keys, Epsilon = 1, float slopes).
   Then: insert (2,20), insert (10,100), erase 16, insert (1600,7), erase 5.  The buffer holds 3 items, so
   the fourth operation merges the buffer into level 2 and builds a second real index over 4 keys.
   Nothing below assumes that any step returns Ok: that is the conclusion of shist_prog_total. *)
Definition x2_pairs : list (Z * Z) := map (fun i => (i * i, 10 * i * i)) (zseq 1 40).
Definition x2_start : start := SBulk (Some 0) x2_pairs 2 1 2.
Definition x2_ops : list op := [OpIns 2 20; OpIns 10 100; OpDel 16; OpIns 1600 7; OpDel 5].

(* the guard, evaluated along the run (it says `true` if a step fails: success is NOT part of it) *)
Definition x2_guard : bool :=
  match start_run cx_c x2_start with
  | Ok d0 => guardb cx_c (lim_std cx_c) d0 x2_ops
  | Err _ => true
  end.
Lemma x2_guard_ok : x2_guard = true.
Proof. vm_compute. reflexivity. Qed.

Ltac norm_pairs := let l := eval vm_compute in x2_pairs in change x2_pairs with l.
Ltac forall_list :=
  repeat (apply Forall_cons; [vm_compute; first [reflexivity | discriminate]|]); apply Forall_nil.

Lemma x2_start_ok : start_ok cx_c (lim_std cx_c) x2_start.
Proof.
  unfold x2_start, start_ok. split; [|split; [|split; [|split; [|split; [|split; [|split]]]]]].
  - unfold bulk_ok, ctor_ok. vm_compute. repeat split; discriminate.
  - lia.
  - reflexivity.
  - vm_compute. repeat split; discriminate.
  - norm_pairs. forall_list.
  - norm_pairs. forall_list.
  - norm_pairs. forall_list.
  - unfold bulk_cap. vm_compute. discriminate.
Qed.

(* what the final state looks like: used_levels 7, base 2; level 6 holds the 40 loaded keys under an index
   over 40 keys; level 2 holds the 4 merged items under an index over 4 keys; the buffer holds 1 item *)
Definition x2_shape (d : @dyn index) : bool :=
  (d_used d =? 7) && (d_base d =? 2) &&
  match level d 6, pgm d 6, level d 2, pgm d 2, level d 1 with
  | Ok l6, Ok p6, Ok l2, Ok p2, Ok l1 =>
      has_pgm d 6 && (zlen l6 =? 40) && (ix_n p6 =? 40) && negb (zlen (ix_segments p6) <=? 1) &&
      has_pgm d 2 && zlist_eqb (map it_key l2) [2; 10; 16; 1600] && (ix_n p2 =? 4) &&
      zlist_eqb (map it_key l1) [5]
  | _, _, _, _, _ => false
  end.
Definition x2_final : res (@dyn index) := bind (start_run cx_c x2_start) (fun d0 => run cx_c x2_ops (Ok d0)).
Lemma x2_shape_ok : match x2_final with Ok d => x2_shape d | Err _ => true end = true.
Proof. vm_compute. reflexivity. Qed.

Definition x2_map : amap := am_run x2_ops (start_map x2_start).
Definition x2_found (d : @dyn index) (q : Z) (o : option (Z * Z)) : Prop :=
  exists r, dfind (idx_ops cx_c) d q = Ok r /\ obs r = o.

Example std2_run_instance :
  exists d0 d',
    (* from shist_prog_total / shist_run: the constructor and all five operations return *)
    start_run cx_c x2_start = Ok d0 /\ run cx_c x2_ops (Ok d0) = Ok d' /\ shist cx_c d' x2_map /\
    (* from shist_run_steps: ... at every step *)
    (forall n, exists dn, run cx_c (firstn n x2_ops) (Ok d0) = Ok dn /\
                          shist cx_c dn (am_run (firstn n x2_ops) (start_map x2_start))) /\
    (* two real indexes are in use *)
    x2_shape d' = true /\
    (* from C05_find_std *)
    x2_found d' 25 (Some (25, 250)) /\ x2_found d' 16 None /\ x2_found d' 1600 (Some (1600, 7)) /\
    x2_found d' 2 (Some (2, 20)) /\ x2_found d' 5 None /\ x2_found d' 1521 (Some (1521, 15210)) /\
    (* from C06_size_shist, C06_empty_shist, C06_begin_std *)
    dyn_size (idx_ops cx_c) d' 0 = Ok 41 /\ dyn_empty (idx_ops cx_c) d' 0 = Ok false /\
    (exists b, dyn_begin (idx_ops cx_c) d' 0 = Ok b /\ to_list_from (idx_ops cx_c) d' b = Ok x2_map).
Proof.
  destruct (start_total_std cx_c cx_idx_ok cx_cfg_small cx_std_width x2_start x2_start_ok) as (d0 & E0 & Hh0).
  assert (Hg : guardb cx_c (lim_std cx_c) d0 x2_ops = true).
  { pose proof x2_guard_ok as H. unfold x2_guard in H. rewrite E0 in H. exact H. }
  destruct (shist_run cx_c cx_idx_ok cx_cfg_small cx_std_width x2_ops d0 _ Hh0 Hg) as (d' & E & Hh).
  assert (Hs : x2_shape d' = true).
  { pose proof x2_shape_ok as H. unfold x2_final in H. rewrite E0 in H. cbn [bind] in H. rewrite E in H. exact H. }
  assert (Hz : DynCoreQuery.sizes_ok d').
  { unfold x2_shape in Hs. apply andb_prop in Hs. destruct Hs as [Hs _]. apply andb_prop in Hs. destruct Hs as [H1 H2].
    assert (Hu : d_used d' = 7) by lia. assert (Hb : d_base d' = 2) by lia.
    unfold DynCoreQuery.sizes_ok. rewrite Hu, Hb. vm_compute. discriminate. }
  fold x2_map in Hh.
  pose proof (C05_find_std cx_c cx_idx_ok cx_cfg_small cx_std_width d' x2_map Hh Hz) as HF.
  assert (Hfind : forall q o, q < sentinel cx_c -> option_map (fun v => (q, v)) (am_find q x2_map) = o -> x2_found d' q o).
  { intros q o Hq Ho. destruct (HF q Hq) as (r & Er & Or). exists r. split; [exact Er|]. rewrite Or. exact Ho. }
  assert (Hall : Forall (fun p : Z * Z => 0 <= fst p) x2_map).
  { let l := eval vm_compute in x2_map in change x2_map with l.
    repeat (apply Forall_cons; [vm_compute; discriminate|]). apply Forall_nil. }
  exists d0, d'. split; [exact E0|]. split; [exact E|]. split; [exact Hh|]. split.
  { intros n. exact (shist_run_steps cx_c cx_idx_ok cx_cfg_small cx_std_width x2_ops d0 _ n Hh0 Hg). }
  split; [exact Hs|].
  repeat split.
  - apply Hfind; vm_compute; reflexivity.
  - apply Hfind; vm_compute; reflexivity.
  - apply Hfind; vm_compute; reflexivity.
  - apply Hfind; vm_compute; reflexivity.
  - apply Hfind; vm_compute; reflexivity.
  - apply Hfind; vm_compute; reflexivity.
  - rewrite (C06_size_shist cx_c d' x2_map 0 cx_idx_ok cx_cfg_small cx_std_width Hh Hz ltac:(vm_compute; reflexivity) Hall).
    vm_compute. reflexivity.
  - rewrite (C06_empty_shist cx_c d' x2_map 0 cx_idx_ok cx_cfg_small cx_std_width Hh Hz ltac:(vm_compute; reflexivity) Hall).
    vm_compute. reflexivity.
  - exact (C06_begin_std cx_c d' x2_map 0 cx_idx_ok cx_cfg_small cx_std_width Hh Hz ltac:(vm_compute; reflexivity) Hall).
Qed.

(* cross-check: the same run and queries, computed *)
Example x2_computed :
  bind x2_final (fun d => bind (dfind (idx_ops cx_c) d 25) (fun r => Ok (obs r))) = Ok (Some (25, 250)) /\
  bind x2_final (fun d => bind (dfind (idx_ops cx_c) d 16) (fun r => Ok (obs r))) = Ok None /\
  bind x2_final (fun d => bind (dfind (idx_ops cx_c) d 1600) (fun r => Ok (obs r))) = Ok (Some (1600, 7)) /\
  bind x2_final (fun d => dyn_size (idx_ops cx_c) d 0) = Ok 41.
Proof. vm_compute. repeat split; reflexivity. Qed.

Print Assumptions std2_run_instance.

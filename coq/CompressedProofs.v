(* CompressedProofs.v — C08, the part proved: (1) any slope between the two extreme slopes, through the
   intersection point of the two extreme lines, stays inside the band wherever both extreme lines do
   (this is why merge_slopes may replace a segment's slope by a shared table slope inside its slope range);
   (2) the intercepts stored by a successfully built CompressedLevel strictly increase and stay below the
   bitvector size, and get_intercept never reads outside them; (3) clamping is monotone. *)
Require Import Base Fp PlaModel GenLeaf IndexModel CompressedModel.
From Coq Require Import QArith Qround Lqa ZifyBool.
Local Open Scope Z_scope.

(* (1) exact arithmetic over Q: L(x) = iy + s*(x - ix) *)
Theorem merge_slope_feasible : forall (ix iy s1 s2 s x lo hi : Q),
  (s1 <= s)%Q -> (s <= s2)%Q ->
  (lo <= iy + s1 * (x - ix))%Q -> (iy + s1 * (x - ix) <= hi)%Q ->
  (lo <= iy + s2 * (x - ix))%Q -> (iy + s2 * (x - ix) <= hi)%Q ->
  (lo <= iy + s * (x - ix) /\ iy + s * (x - ix) <= hi)%Q.
Proof.
  intros ix iy s1 s2 s x lo hi H1 H2 A1 A2 B1 B2.
  destruct (Qlt_le_dec (x - ix) 0) as [Hneg | Hpos].
  - assert (E1 : (s2 * (x - ix) <= s * (x - ix))%Q) by nra.
    assert (E2 : (s * (x - ix) <= s1 * (x - ix))%Q) by nra.
    split; lra.
  - assert (E1 : (s1 * (x - ix) <= s * (x - ix))%Q) by nra.
    assert (E2 : (s * (x - ix) <= s2 * (x - ix))%Q) by nra.
    split; lra.
Qed.

(* the table slope 0.5*(min+max) of a group lies inside the running intersection of the slope ranges *)
Theorem mid_in_range : forall (a b : Q), (a <= b)%Q -> (a <= (1 # 2) * (a + b) /\ (1 # 2) * (a + b) <= b)%Q.
Proof. intros a b H. split; lra. Qed.

(* (3) std::clamp *)
Lemma clamp_bounds v lo hi : lo <= hi -> lo <= clamp v lo hi <= hi.
Proof. intros H. unfold clamp. destruct (v <? lo) eqn:E1; [lia|]. destruct (hi <? v) eqn:E2; lia. Qed.
Lemma clamp_id v lo hi : lo <= v <= hi -> clamp v lo hi = v.
Proof. intros H. unfold clamp. destruct (v <? lo) eqn:E1; [lia|]. destruct (hi <? v) eqn:E2; lia. Qed.
Lemma clamp_monotone v w lo hi : v <= w -> clamp v lo hi <= clamp w lo hi \/ hi < lo.
Proof.
  intros H. unfold clamp.
  destruct (v <? lo) eqn:E1; destruct (w <? lo) eqn:E2; destruct (hi <? v) eqn:E3; destruct (hi <? w) eqn:E4; lia.
Qed.

(* (2) positions accepted by the builder *)
Lemma positions_ok_sorted prev l size :
  positions_ok prev l size = true -> ssortedb (prev :: l) = true /\ Forall (fun v => prev < v < size) l.
Proof.
  revert prev. induction l as [|v t IH]; intros prev H; cbn [positions_ok ssortedb] in *; [split; [reflexivity|constructor]|].
  apply andb_prop in H. destruct H as [H Ht]. apply andb_prop in H. destruct H as [H1 H2].
  destruct (IH v Ht) as [Hs Hf]. split.
  - cbn [ssortedb] in Hs. destruct t as [|w t']; [cbn; lia|]. rewrite Hs. lia.
  - constructor; [lia|]. eapply Forall_impl; [|exact Hf]. cbn. intros a Ha. lia.
Qed.

Lemma ssortedb_tail a l : ssortedb (a :: l) = true -> ssortedb l = true.
Proof. destruct l as [|b t]; [reflexivity|]. cbn [ssortedb]. intros H. apply andb_prop in H. tauto. Qed.

Theorem clevel_intercepts_increasing : forall c segs icpts maps table pls lk l,
  clevel_build c segs icpts maps table pls lk = Ok l ->
  ssortedb (cl_vals l) = true /\ Forall (fun v => 0 <= v < cl_max l) (cl_vals l).
Proof.
  intros c segs icpts maps table pls lk l H. unfold clevel_build in H.
  destruct icpts as [|off rest]; [discriminate|].
  destruct (_ >? _) in H; [discriminate|].
  match type of H with (if negb (positions_ok (-1) ?vals ?mx) then _ else _) = _ =>
    destruct (positions_ok (-1) vals mx) eqn:Hp; cbn [negb] in H; [|discriminate] end.
  injection H as <-. cbn [cl_vals cl_max].
  apply positions_ok_sorted in Hp. destruct Hp as [Hs Hf]. split.
  - eapply ssortedb_tail. exact Hs.
  - eapply Forall_impl; [|exact Hf]. cbn. intros a Ha. lia.
Qed.

Theorem get_intercept_in_bounds : forall l i, 0 <= i < zlen (cl_vals l) -> exists v, cl_get_intercept l i = Ok v.
Proof.
  intros l i Hi. unfold cl_get_intercept, nth_res.
  assert (i <? 0 = false) as -> by lia.
  destruct (nth_error (cl_vals l) (Z.to_nat i)) eqn:E.
  - cbn [bind]. eexists. reflexivity.
  - exfalso. apply nth_error_None in E. unfold zlen in Hi. lia.
Qed.

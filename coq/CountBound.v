(* CountBound.v — property C04: closed-form bound on the number of segments of the bottom level.
   For sorted data with duplicates (n = zlen data) the points fed to the builder have strictly
   increasing ranks in [0, n] (IdxSeg.fed_spec_incr, IdxFed.spec_only).  Cutting the fed list by the
   value of rank / (2*eps+1) gives a partition into at most n / (2*eps+1) + 1 blocks, each of rank
   span <= 2*eps, hence feasible (PlaComplete.narrow_block_feasible).  The optimality theorems of
   PlaSound.v then give   count <= n / (2*eps+1) + par   (and + 1 when the driver is sequential). *)
Require Import Base Fp PlaModel PlaSpec PlaCert Greedy PlaComplete PlaSound GenLeaf IndexModel IndexProofs IdxFed IdxSeg IdxLevel IdxChain.
From Coq Require Import ZifyBool.
Local Open Scope Z_scope.

(* ---- grouping a list by a key (consecutive equal keys form one block) ---- *)
Section Grp.
  Variable key : Z * Z -> Z.

  Fixpoint grp (l : list (Z * Z)) : list (list (Z * Z)) :=
    match l with
    | [] => []
    | p :: t =>
        match grp t with
        | [] => [[p]]
        | b :: bs => if key p =? key (hd (0, 0) b) then (p :: b) :: bs else [p] :: b :: bs
        end
    end.

  Lemma grp_concat l : concat (grp l) = l.
  Proof.
    induction l as [|p t IH]; [reflexivity|]. cbn [grp].
    destruct (grp t) as [|b bs] eqn:E.
    - cbn [concat] in *. rewrite <- IH. reflexivity.
    - destruct (key p =? key (hd (0, 0) b)); cbn [concat app] in *; rewrite <- IH; reflexivity.
  Qed.

  Lemma grp_nil l : grp l = [] -> l = [].
  Proof. intros E. rewrite <- (grp_concat l), E. reflexivity. Qed.

  (* head of the first block = head of the list; every block is non-empty with one key *)
  Lemma grp_hd l b bs : grp l = b :: bs -> b <> [] /\ hd (0, 0) b = hd (0, 0) l.
  Proof.
    destruct l as [|p t]; [discriminate|]. cbn [grp]. destruct (grp t) as [|b' bs'].
    - intros E; injection E as <- <-. split; [discriminate | reflexivity].
    - destruct (key p =? key (hd (0, 0) b')); intros E; injection E as <- <-; (split; [discriminate | reflexivity]).
  Qed.

  Lemma grp_blocks l : Forall (fun b => b <> [] /\ forall q, In q b -> key q = key (hd (0, 0) b)) (grp l).
  Proof.
    induction l as [|p t IH]; [constructor|]. cbn [grp].
    destruct (grp t) as [|b bs] eqn:E.
    - constructor; [|constructor]. split; [discriminate|]. intros q [<-|[]]. reflexivity.
    - inversion IH as [|b0 bs0 [Hb1 Hb2] Hbs]; subst.
      destruct (key p =? key (hd (0, 0) b)) eqn:Ek.
      + constructor; [|exact Hbs]. split; [discriminate|]. cbn [hd].
        intros q [<-|Hq]; [reflexivity|]. rewrite (Hb2 q Hq). lia.
      + constructor; [|exact IH]. split; [discriminate|]. intros q [<-|[]]. reflexivity.
  Qed.
End Grp.

Fixpoint kmono (key : Z * Z -> Z) (l : list (Z * Z)) : Prop :=
  match l with [] => True | a :: t => Forall (fun q => key a <= key q) t /\ kmono key t end.

Lemma grp_len key l : kmono key l -> l <> [] ->
  zlen (grp key l) <= key (last l (0, 0)) - key (hd (0, 0) l) + 1.
Proof.
  induction l as [|p t IH]; intros Hm Hne; [contradiction|].
  cbn [kmono] in Hm. destruct Hm as [Hp Hm]. cbn [grp hd].
  destruct (grp key t) as [|b bs] eqn:E.
  - apply grp_nil in E. subst t. cbn. lia.
  - assert (Htne : t <> []) by (intros ->; discriminate E).
    specialize (IH Hm Htne). destruct (grp_hd key t b bs E) as [_ Hh].
    assert (Hlast : last (p :: t) (0, 0) = last t (0, 0)) by (destruct t; [contradiction | reflexivity]).
    rewrite Hlast. rewrite Hh.
    assert (Hle : key p <= key (hd (0, 0) t)).
    { rewrite Forall_forall in Hp. apply Hp. destruct t; [contradiction | left; reflexivity]. }
    rewrite !zlen_cons in *.
    destruct (key p =? key (hd (0, 0) t)) eqn:Ek; rewrite !zlen_cons; lia.
Qed.

Lemma incr_kmono B l : 0 < B -> incr l -> kmono (fun p => snd p / B) l.
Proof.
  intros HB. induction l as [|a t IH]; intros Hi; [exact I|].
  cbn [incr] in Hi. destruct Hi as [Hf Hi]. cbn [kmono]. split; [|apply IH; exact Hi].
  eapply Forall_impl; [|exact Hf]. cbn beta. intros q [_ Hq]. apply Z.div_le_mono; lia.
Qed.

(* a block whose ranks share the value of rank / (2*eps+1) is feasible *)
Lemma same_key_feasible eps b :
  0 <= eps -> ranks_ok eps b ->
  (forall q, In q b -> snd q / (2 * eps + 1) = snd (hd (0, 0) b) / (2 * eps + 1)) ->
  feasible eps b.
Proof.
  intros He Hr Hk. apply narrow_block_feasible; [exact He | exact Hr|].
  intros p q Hp Hq. pose proof (Hk p Hp) as Ep. pose proof (Hk q Hq) as Eq.
  set (B := 2 * eps + 1) in *. assert (HB : 0 < B) by (unfold B; lia).
  pose proof (Z.div_mod (snd p) B ltac:(lia)). pose proof (Z.div_mod (snd q) B ltac:(lia)).
  pose proof (Z.mod_pos_bound (snd p) B HB). pose proof (Z.mod_pos_bound (snd q) B HB).
  rewrite Ep in *. rewrite Eq in *. unfold B in *. lia.
Qed.

(* ---- the narrow partition of an increasing list of points with ranks in [0, n] ---- *)
Lemma narrow_partition eps n l :
  0 <= eps -> n + eps < 2 ^ 64 - 1 -> l <> [] -> incr l ->
  (forall p, In p l -> 0 <= snd p <= n) ->
  exists p, is_partition (feasible eps) l p /\ zlen p <= n / (2 * eps + 1) + 1.
Proof.
  intros He Hn Hne Hi Hr. set (B := 2 * eps + 1). assert (HB : 0 < B) by (unfold B; lia).
  set (key := fun p : Z * Z => snd p / B).
  exists (grp key l). split.
  - split; [apply grp_concat|].
    pose proof (grp_blocks key l) as Hb.
    assert (Hin : forall b, In b (grp key l) -> forall q, In q b -> In q l).
    { intros b Hbin q Hq. rewrite <- (grp_concat key l). apply in_concat. exists b. split; assumption. }
    rewrite Forall_forall in Hb. apply Forall_forall. intros b Hbin.
    destruct (Hb b Hbin) as [Hb1 Hb2]. split; [exact Hb1|].
    apply same_key_feasible; [exact He | | exact Hb2].
    unfold ranks_ok. apply Forall_forall. intros q Hq. pose proof (Hr q (Hin b Hbin q Hq)). lia.
  - pose proof (grp_len key l (incr_kmono B l HB Hi) Hne) as Hl.
    assert (Hlast : In (last l (0, 0)) l).
    { destruct (exists_last Hne) as (l' & a & ->). rewrite last_last. apply in_or_app. right. left. reflexivity. }
    assert (Hhd : In (hd (0, 0) l) l) by (destruct l; [contradiction | left; reflexivity]).
    pose proof (Hr _ Hlast) as R1. pose proof (Hr _ Hhd) as R2. unfold key in Hl. cbn beta in Hl.
    assert (snd (last l (0, 0)) / B <= n / B) by (apply Z.div_le_mono; lia).
    assert (0 <= snd (hd (0, 0) l) / B) by (apply Z.div_pos; lia).
    change (2 * eps + 1) with B. fold key in Hl. clearbody key. clearbody B. lia.
Qed.

(* the fed points of a sorted key array have a narrow partition with at most n/(2*eps+1) + 1 blocks *)
Lemma fed_narrow_partition kt eps data :
  0 <= eps -> data <> [] -> sortedb data = true -> nowrap kt data -> zlen data + eps < 2 ^ 64 - 1 ->
  exists p, is_partition (feasible eps) (fed_spec kt data) p /\ zlen p <= zlen data / (2 * eps + 1) + 1.
Proof.
  intros He Hne Hs Hw Hn. apply narrow_partition; [exact He | exact Hn | | |].
  - rewrite (fed_spec_unfold kt data Hne Hs Hw). intros E. apply app_eq_nil in E. destruct E as [_ E]. discriminate E.
  - apply fed_spec_incr; assumption.
  - intros p Hp. apply (spec_only kt data Hne Hs Hw) in Hp. exact (fed_kind_rank data p Hp).
Qed.

(* C04, bottom level, any driver: count <= n / (2*eps+1) + par *)
Theorem segments_count_bound_tight kt threshold par eps data segs fed count :
  make_segmentation_par kt threshold par (zlen data) eps data = Ok (segs, fed, count) ->
  1 <= par -> data <> [] -> sortedb data = true -> nowrap kt data -> zlen data + eps < 2 ^ 64 - 1 ->
  count <= zlen data / (2 * eps + 1) +
           (if (par =? 1) || (zlen data <? threshold) then 1 else par).
Proof.
  intros H Hpar Hne Hs Hw Hn.
  destruct (level_blocks _ _ _ _ _ _ _ _ H Hpar Hne Hs Hw Hn) as (_ & _ & _ & _ & He).
  destruct (fed_narrow_partition kt eps data He Hne Hs Hw Hn) as (p & Hp & Hlen).
  rewrite <- (make_segmentation_par_fed _ _ _ _ _ _ _ _ H Hpar) in Hp.
  destruct ((par =? 1) || (zlen data <? threshold)) eqn:Ec.
  - unfold make_segmentation_par in H. rewrite Ec in H.
    pose proof (make_segmentation_optimal_closed kt (zlen data) eps data segs fed count H ltac:(lia) Hn p Hp). lia.
  - pose proof (make_segmentation_par_near_optimal_closed kt threshold par (zlen data) eps data segs fed count
                  H Hpar ltac:(lia) Hn p Hp). lia.
Qed.

Theorem segments_count_bound kt threshold par eps data segs fed count :
  make_segmentation_par kt threshold par (zlen data) eps data = Ok (segs, fed, count) ->
  1 <= par -> data <> [] -> sortedb data = true -> nowrap kt data -> zlen data + eps < 2 ^ 64 - 1 ->
  count <= zlen data / (2 * eps + 1) + par + 1.
Proof.
  intros H Hpar Hne Hs Hw Hn.
  pose proof (segments_count_bound_tight _ _ _ _ _ _ _ _ H Hpar Hne Hs Hw Hn) as Hc.
  destruct ((par =? 1) || (zlen data <? threshold)); lia.
Qed.

(* an Ok result implies non-empty data *)
Lemma chunk_nil_not_ok kt n start eps rest r : make_segmentation_chunk kt n start eps [] rest <> Ok r.
Proof. unfold make_segmentation_chunk. destruct (pla_init eps); cbn [bind]; discriminate. Qed.

Lemma mseg_par_ok_nonempty kt threshold par n eps data r :
  make_segmentation_par kt threshold par n eps data = Ok r -> 1 <= par -> data <> [].
Proof.
  intros H Hpar ->. unfold make_segmentation_par in H.
  destruct ((par =? 1) || (n <? threshold)).
  - exact (chunk_nil_not_ok kt n 0 eps [] r H).
  - assert (Hz : zseq 0 (Z.to_nat par) = 0 :: zseq (0 + 1) (Z.to_nat par - 1)).
    { destruct (Z.to_nat par) as [|k] eqn:Ek; [lia|]. cbn [zseq]. f_equal. f_equal. lia. }
    rewrite Hz in H. cbn [par_chunks] in H. rewrite Z.mul_0_l in H.
    change (0 >? 0) with false in H. cbv iota in H.
    assert (Es : forall hi, slice (@nil Z) 0 hi = []).
    { intros hi. unfold slice. cbn [Z.to_nat skipn]. apply firstn_nil. }
    rewrite Es in H.
    match type of H with
    | bind ?e _ = _ => destruct e as [v|er] eqn:E
    end; [exact (chunk_nil_not_ok _ _ _ _ _ _ E) | cbn [bind] in H; discriminate H].
Qed.

Theorem segments_count_bound' kt threshold par eps data segs fed count :
  make_segmentation_par kt threshold par (zlen data) eps data = Ok (segs, fed, count) ->
  1 <= par -> sortedb data = true -> nowrap kt data -> zlen data + eps < 2 ^ 64 - 1 ->
  count <= zlen data / (2 * eps + 1) + par.
Proof.
  intros H Hpar Hs Hw Hn. pose proof (mseg_par_ok_nonempty _ _ _ _ _ _ _ H Hpar) as Hne.
  pose proof (segments_count_bound_tight _ _ _ _ _ _ _ _ H Hpar Hne Hs Hw Hn) as Hc.
  destruct ((par =? 1) || (zlen data <? threshold)); lia.
Qed.

(* ---- the index: PGMIndex::segments_count() after build ---- *)
Lemma build_upper_offs c ldk : forall fuel segs offs ln segsF offsF,
  build_upper c fuel ldk segs offs ln = Ok (segsF, offsF) -> exists more, offsF = offs ++ more.
Proof.
  induction fuel as [|f IH]; intros segs offs ln segsF offsF H.
  - cbn [build_upper] in H. destruct ((c_epsrec c =? 0) || (ln <=? 1)); [|discriminate H].
    injection H as _ <-. exists []. rewrite app_nil_r. reflexivity.
  - cbn [build_upper] in H. destruct ((c_epsrec c =? 0) || (ln <=? 1)).
    + injection H as _ <-. exists []. rewrite app_nil_r. reflexivity.
    + match type of H with bind ?e _ = _ => destruct e as [[segs1 ln1]|e1] eqn:E end; cbn [bind] in H; [|discriminate H].
      destruct (IH _ _ _ _ _ H) as (m2 & ->). exists ([zlen segs1] ++ m2). rewrite app_assoc. reflexivity.
Qed.

Theorem build_segments_count_bound c data ix :
  build c data = Ok ix ->
  1 <= c_par c -> sortedb data = true -> nowrap (c_kt c) data -> zlen data + c_eps c < 2 ^ 64 - 1 ->
  segments_count ix <= zlen data / (2 * c_eps c + 1) + c_par c + 1.
Proof.
  intros H Hpar Hs Hw Hn. unfold build in H.
  destruct (zlen data =? 0) eqn:E0.
  - injection H as <-. cbn. assert (zlen data = 0) as -> by lia. cbn. lia.
  - destruct (last_z data =? sentinel c); [discriminate H|].
    destruct (build_level c (c_eps c) data (zlen data) (last_z data) []) as [[segs ln]|e] eqn:E1; cbn [bind] in H; [|discriminate H].
    match type of H with bind ?e _ = _ => destruct e as [[segsF offsF]|e2] eqn:E2 end; cbn [bind] in H; [|discriminate H].
    injection H as <-. unfold segments_count. cbn [ix_segments ix_offsets fst snd].
    destruct (build_upper_offs _ _ _ _ _ _ _ _ E2) as (more & ->).
    change (nth 1 ([0; zlen segs] ++ more) 0) with (zlen segs).
    destruct (build_level_shape _ _ _ _ _ _ _ _ E1) as (css & fed & cnt & new & T & M1 & M2 & Es & HT).
    pose proof (segments_count_bound' _ _ _ _ _ _ _ _ M1 Hpar Hs Hw Hn) as Hc.
    pose proof (map_res_Forall2 _ _ _ M2) as F2. apply Forall2_len in F2.
    destruct (level_blocks _ _ _ _ _ _ _ _ M1 Hpar (mseg_par_ok_nonempty _ _ _ _ _ _ _ M1 Hpar) Hs Hw Hn) as (g & _ & G2 & G3 & He).
    apply Forall2_len in G2.
    assert (Hnew : zlen new = cnt) by (unfold zlen in *; lia).
    assert (HzT : zlen T <= 2).
    { destruct HT as [(-> & _)|(_ & _ & X & -> & [->|[-> _]])]; cbn; lia. }
    assert (0 <= zlen data / (2 * c_eps c + 1)) by (apply Z.div_pos; pose proof (zlen_ge0 data); lia).
    cbn [app] in Es. subst segs. rewrite zlen_app.
    destruct segsF; lia.
Qed.

Print Assumptions segments_count_bound_tight.
Print Assumptions segments_count_bound.
Print Assumptions segments_count_bound'.
Print Assumptions build_segments_count_bound.

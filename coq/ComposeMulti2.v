(* ComposeMulti2.v — C13/C14 of MultidimensionalPGMIndex end to end, WITHOUT the residual hypothesis
   `Hbeyond` of ComposeMulti.v and without any floating-point hypothesis:
   * the queries that contains() / RangeIterator issue to the inner index are the code of the query
     point, the code of the lower corner of the box, and BIGMIN values computed from stored codes
     outside the box; all of them are below the reserved value of the inner index (its `sentinel` =
     max of T) as soon as the query point / the lower corner is not the all-ones point
     (2^FieldBits - 1, ..., 2^FieldBits - 1) when Dimensions * FieldBits = digits of T
     (`skip_below_sentinel`: the constructor only accepts coordinates below 2^(FieldBits-1), so a
     stored code outside a box whose lower corner is not all-ones has a box code strictly between it
     and the all-ones code);
   * the inner contract at those queries comes from ComposeFloat32.index_contract_std (float and
     double, sizes within its bounds);
   * the one excluded query (code = max of T, only for Dimensions in {2,4}) is a FINDING: the model
     (and the real code, under AddressSanitizer) reads past the segments array as soon as the inner
     index has two levels (`finding_contains_top`, `finding_range_top`). *)
Require Import Base Fp PlaModel GenLeaf IndexModel IndexProofs MultiModel MultiMorton MultiRange MultiBigmin
  IdxChain FloatOk ComposeIdx ComposeBuild ComposeFloat32 ComposeMulti MultiRange2.
From Coq Require Import ZifyBool Permutation.
Local Open Scope Z_scope.

(* ---- list facts ---- *)
Lemma Forall2_le_max h : forall l : list Z, Forall2 Z.le l (map (Z.max h) l).
Proof. induction l as [|a t IH]; cbn [map]; constructor; [lia|exact IH]. Qed.

Lemma Forall2_le_below h : forall l1 l2 : list Z, length l1 = length l2 ->
  Forall (fun a => a <= h) l1 -> Forall2 Z.le l1 (map (Z.max h) l2).
Proof.
  induction l1 as [|a t IH]; intros [|b t2] Hl H; cbn [length map] in *; try discriminate; constructor.
  - inversion H; subst. lia.
  - apply IH; [lia|]. inversion H; assumption.
Qed.

Lemma Forall2_le_repeat t : forall l : list Z, Forall (fun a => a <= t) l ->
  Forall2 Z.le l (repeat t (length l)).
Proof.
  induction l as [|a l IH]; intros H; cbn [length repeat]; constructor; inversion H; subst; [lia|].
  apply IH. assumption.
Qed.

Lemma map_max_repeat h t : h < t -> forall l : list Z,
  map (Z.max h) l = repeat t (length l) -> l = repeat t (length l).
Proof.
  intros Hht. induction l as [|a l IH]; intros H; [reflexivity|].
  cbn [map length repeat] in *. injection H as H1 H2. f_equal; [clear IH H2; lia|apply IH; exact H2].
Qed.

(* the all-ones point *)
Definition top_point (m : mcfg) : list Z := repeat (2 ^ field_bits m - 1) (Z.to_nat (m_dims m)).

Section Top.
  Variable m : mcfg.
  Hypothesis Hwf : wf_mcfg m.
  Local Notation D := (m_dims m).
  Local Notation F := (field_bits m).

  Lemma top_len : zlen (top_point m) = D.
  Proof. pose proof (D_pos m Hwf). unfold top_point, zlen. rewrite repeat_length. lia. Qed.

  Lemma top_ok : coords_ok F (top_point m).
  Proof.
    pose proof (F_pos m Hwf). unfold coords_ok, top_point. apply Forall_forall. intros x Hx.
    apply repeat_spec in Hx. subst x. assert (0 < 2 ^ F) by (apply Z.pow_pos_nonneg; lia). lia.
  Qed.

  Lemma le_top p : zlen p = D -> coords_ok F p -> Forall2 Z.le p (top_point m).
  Proof.
    intros Hl Hp. unfold top_point. replace (Z.to_nat D) with (length p) by (unfold zlen in Hl; lia).
    apply Forall2_le_repeat. eapply Forall_impl; [|exact Hp]. cbv beta. intros a Ha. lia.
  Qed.

  (* the Morton code is monotone for the pointwise order *)
  Lemma encode_mono p q : zlen p = D -> zlen q = D -> coords_ok F p -> coords_ok F q ->
    Forall2 Z.le p q -> encode m p <= encode m q.
  Proof.
    intros Lp Lq Cp Cq Hle.
    assert (Hb : box_zcontains m (encode m p) (encode m q) (encode m p) = true).
    { apply (box_zcontains_spec_wf m Hwf); try assumption. split; [apply Forall2_le_refl|exact Hle]. }
    pose proof (box_zcontains_bounds m Hwf _ _ _ (encode_range m Hwf p Lp) (encode_range m Hwf q Lq)
                  (encode_range m Hwf p Lp) Hb). lia.
  Qed.

  Lemma encode_le_top p : zlen p = D -> coords_ok F p -> encode m p <= encode m (top_point m).
  Proof. intros Hl Hp. apply encode_mono; try assumption; [apply top_len|apply top_ok|apply le_top; assumption]. Qed.

  Lemma encode_lt_top p : zlen p = D -> coords_ok F p -> p <> top_point m -> encode m p < encode m (top_point m).
  Proof.
    intros Hl Hp Hne. pose proof (encode_le_top p Hl Hp) as Hle.
    destruct (Z.eq_dec (encode m p) (encode m (top_point m))) as [E|]; [|lia].
    exfalso. apply Hne. apply (encode_injective_wf m Hwf); try assumption; [apply top_len|apply top_ok].
  Qed.
End Top.

(* ---- the BIGMIN queries stay below the all-ones code ---- *)
Section Skip.
  Variable m : mcfg.
  Hypothesis Hwf : wf_mcfg m.
  Local Notation D := (m_dims m).
  Local Notation F := (field_bits m).

  Lemma decode_coords_ok c : coords_ok F (decode m c).
  Proof.
    unfold coords_ok. apply Forall_forall. intros a Ha.
    destruct (In_nth _ _ 0 Ha) as (k & Hk & <-). rewrite (decode_length m) in Hk.
    replace k with (Z.to_nat (Z.of_nat k)) by lia. apply (decode_nth_range m Hwf). lia.
  Qed.

  Lemma decode_zlen c : zlen (decode m c) = D.
  Proof. pose proof (D_pos m Hwf). unfold zlen. rewrite (decode_length m). lia. Qed.

  Variables pmin pmax : list Z.
  Hypothesis Lmin : zlen pmin = D.
  Hypothesis Lmax : zlen pmax = D.
  Hypothesis Cmin : coords_ok F pmin.
  Hypothesis Cmax : coords_ok F pmax.
  Hypothesis Hbox : Forall2 Z.le pmin pmax.
  Local Notation zmin := (encode m pmin).
  Local Notation zmax := (encode m pmax).

  (* a stored code (coordinates below 2^(F-1), as the constructor demands) outside a box whose lower
     corner is not the all-ones point: the least box code above it is not the all-ones code *)
  Lemma skip_below_top x : pmin <> top_point m ->
    0 <= x < 2 ^ (D * F) -> Forall (fun a => a <= 2 ^ (F - 1) - 1) (decode m x) ->
    x <= zmax -> box_zcontains m zmin zmax x = false ->
    bigmin m x zmin zmax < encode m (top_point m).
  Proof.
    intros Hnt Hx Hhalf Hxz Hout. pose proof (F_pos m Hwf) as HF. pose proof (D_pos m Hwf) as HD.
    destruct (bigmin_spec_general m Hwf pmin pmax x Lmin Lmax Cmin Cmax Hbox ltac:(lia) Hout)
      as (Hgt & Hbin & Hleast).
    assert (Hzin : box_zcontains m zmin zmax zmax = true).
    { apply (box_zcontains_spec_wf m Hwf); try assumption. split; [exact Hbox|apply Forall2_le_refl]. }
    assert (Hxlt : x < zmax).
    { destruct (Z.eq_dec x zmax) as [E|]; [rewrite E in Hout; congruence|lia]. }
    destruct (list_eq_dec Z.eq_dec pmax (top_point m)) as [Et|Hnt2].
    2:{ pose proof (Hleast zmax Hxlt Hzin). pose proof (encode_lt_top m Hwf pmax Lmax Cmax Hnt2). lia. }
    set (h := 2 ^ (F - 1) - 1). set (p' := map (Z.max h) pmin).
    assert (Hh : 0 <= h /\ h < 2 ^ F - 1).
    { unfold h. assert (0 < 2 ^ (F - 1)) by (apply Z.pow_pos_nonneg; lia).
      replace (2 ^ F) with (2 * 2 ^ (F - 1)) by (rewrite <- Z.pow_succ_r by lia; f_equal; lia). lia. }
    assert (L' : zlen p' = D) by (unfold p', zlen in *; rewrite map_length; exact Lmin).
    assert (C' : coords_ok F p').
    { unfold coords_ok, p'. rewrite Forall_map. eapply Forall_impl; [|exact Cmin]. cbv beta. intros a Ha. lia. }
    assert (Hin' : box_zcontains m zmin zmax (encode m p') = true).
    { apply (box_zcontains_spec_wf m Hwf); try assumption. split; [apply Forall2_le_max|].
      rewrite Et. apply le_top; assumption. }
    assert (Hne' : p' <> top_point m).
    { intros E. apply Hnt. unfold p', top_point in *.
      assert (El : Z.to_nat D = length pmin) by (unfold zlen in Lmin; lia).
      rewrite El in *. apply (map_max_repeat h); [lia|exact E]. }
    assert (Hxle : x <= encode m p').
    { rewrite <- (encode_decode_wf m Hwf x Hx) at 1.
      apply (encode_mono m Hwf); try assumption; [apply decode_zlen|apply decode_coords_ok|].
      apply Forall2_le_below; [|exact Hhalf]. rewrite (decode_length m). unfold zlen in Lmin. lia. }
    assert (Hxne : x <> encode m p') by (intros E; rewrite <- E in Hin'; congruence).
    pose proof (Hleast (encode m p') ltac:(lia) Hin').
    pose proof (encode_lt_top m Hwf p' L' C' Hne'). lia.
  Qed.
End Skip.

(* ---- the stored codes: coordinates below 2^(FieldBits-1) ---- *)
Lemma stored_half m points mu : wf_mcfg m -> Forall (point_ok m) points -> multi_build m points = Ok mu ->
  Forall (fun c => Forall (fun a => a <= 2 ^ (field_bits m - 1) - 1) (decode m c)) (mu_data mu).
Proof.
  intros Hwf Hok Hb. destruct (multi_build_ok m points mu Hb) as [Hd Hw].
  pose proof (built_points_ok m points mu Hwf Hok Hb) as Hpts.
  pose proof (sort_codes_perm (map (encode m) points)) as Hperm. rewrite <- Hd in Hperm.
  pose proof (F_pos m Hwf) as HF.
  apply Forall_forall. intros c Hc. apply (Permutation_in _ Hperm) in Hc.
  apply in_map_iff in Hc. destruct Hc as (p & <- & Hp). destruct (Hpts p Hp) as [Hl Hcp].
  rewrite (decode_encode_wf m Hwf p Hl Hcp). apply Forall_forall. intros x Hx.
  rewrite Forall_forall in Hok. destruct (Hok p Hp) as [_ Hnn]. rewrite Forall_forall in Hnn.
  pose proof (bit_width_small x (field_bits m) (Hnn x Hx) HF (Hw p x Hp Hx)). lia.
Qed.

Lemma data_len m points mu : multi_build m points = Ok mu -> zlen (mu_data mu) = zlen points.
Proof.
  intros Hb. destruct (multi_build_inv m points mu Hb) as [_ Hd].
  pose proof (Permutation_length (sort_codes_perm (map (encode m) points))) as Hl.
  rewrite map_length in Hl. rewrite Hd. unfold zlen. lia.
Qed.

Lemma top_le_sentinel m : wf_mcfg m -> c_kt (m_cfg m) = mkK (m_tbits m) false ->
  encode m (top_point m) <= sentinel (m_cfg m).
Proof.
  intros Hwf Hkt. pose proof (encode_range m Hwf (top_point m) (top_len m Hwf)) as Hr.
  pose proof (DF_le_T m Hwf) as Hdf. pose proof (D_pos m Hwf). pose proof (F_pos m Hwf).
  assert (2 ^ (m_dims m * field_bits m) <= 2 ^ m_tbits m) by (apply Z.pow_le_mono_r; lia).
  unfold sentinel. rewrite Hkt. unfold kmax. cbn [ksigned kbits]. lia.
Qed.

(* C02 of the inner index for every code below the reserved value, for Floating = float or double,
   with no hypothesis about the floating-point evaluation (ComposeFloat32.index_contract_std) *)
Theorem multi_inner_contract_std m points mu :
  valid_mcfg m -> c_kt (m_cfg m) = mkK (m_tbits m) false -> idx_ok (m_cfg m) -> cfg_small (m_cfg m) ->
  Forall (point_ok m) points -> points <> [] -> zlen points <= 2 ^ 30 ->
  (c_fdouble (m_cfg m) = false ->
     zlen points + c_eps (m_cfg m) <= 2 ^ 22 - 1 /\ zlen points + 1 + c_epsrec (m_cfg m) <= 2 ^ 22 - 1) ->
  multi_build m points = Ok mu ->
  forall q, q < sentinel (m_cfg m) -> exists lo hi,
    multi_range_of m mu q = Ok (lo, hi) /\ 0 <= lo /\
    lo <= lb (mu_data mu) q /\ lb (mu_data mu) q <= hi /\ hi <= zlen (mu_data mu) /\
    (In q (mu_data mu) -> lb (mu_data mu) q < hi) /\ hi - lo <= 2 * c_eps (m_cfg m) + 2.
Proof.
  intros Hv Hkt Hc Hsm Hok Hne Hn Hfl Hb q Hq.
  pose proof (codes_data_ok m points mu Hv Hkt Hok Hne ltac:(lia) Hb) as Hd.
  destruct (multi_build_inv m points mu Hb) as [Hbd _].
  pose proof (data_len m points mu Hb) as Hlen.
  assert (W : std_width (m_cfg m)).
  { unfold std_width. rewrite Hkt. cbn [kbits]. destruct Hv as [_ [E|E]]; rewrite E; tauto. }
  destruct (index_contract_std (m_cfg m) (mu_data mu) Hc Hsm W Hd ltac:(lia) ltac:(rewrite Hlen; exact Hfl))
    as (ix & Eix & Hs).
  rewrite Hbd in Eix. injection Eix as <-.
  destruct (Hs q Hq) as (a & Es & H1 & H2 & H3 & H4).
  exists (a_lo a), (a_hi a). unfold multi_range_of. rewrite Es. cbn [bind].
  replace ((a_lo a <? 0) || (a_hi a >? zlen (mu_data mu)) || (a_hi a <? a_lo a)) with false by lia.
  split; [reflexivity|]. repeat split; try tauto; lia.
Qed.

(* every BIGMIN query is below any bound S that is above the lower corner's code and not below the
   all-ones code (S = the reserved value of the inner index) *)
Lemma skip_below_sentinel m S pmin pmax x : wf_mcfg m ->
  zlen pmin = m_dims m -> zlen pmax = m_dims m -> coords_ok (field_bits m) pmin -> coords_ok (field_bits m) pmax ->
  Forall2 Z.le pmin pmax -> encode m pmin < S -> encode m (top_point m) <= S ->
  0 <= x < 2 ^ (m_dims m * field_bits m) ->
  Forall (fun a => a <= 2 ^ (field_bits m - 1) - 1) (decode m x) ->
  x <= encode m pmax -> box_zcontains m (encode m pmin) (encode m pmax) x = false ->
  bigmin m x (encode m pmin) (encode m pmax) < S.
Proof.
  intros Hwf Lmin Lmax Cmin Cmax Hbox Hmin Htop Hx Hhalf Hxz Hout.
  destruct (list_eq_dec Z.eq_dec pmin (top_point m)) as [Et|Hnt].
  - destruct (bigmin_spec_general m Hwf pmin pmax x Lmin Lmax Cmin Cmax Hbox ltac:(lia) Hout)
      as (Hgt & Hbin & Hleast).
    assert (Hzin : box_zcontains m (encode m pmin) (encode m pmax) (encode m pmax) = true).
    { apply (box_zcontains_spec_wf m Hwf); try assumption. split; [exact Hbox|apply Forall2_le_refl]. }
    assert (Hxlt : x < encode m pmax).
    { destruct (Z.eq_dec x (encode m pmax)) as [E|]; [rewrite E in Hout; congruence|lia]. }
    pose proof (Hleast _ Hxlt Hzin). pose proof (encode_le_top m Hwf pmax Lmax Cmax).
    rewrite Et in Hmin. lia.
  - pose proof (skip_below_top m Hwf pmin pmax Lmin Lmax Cmin Cmax Hbox x Hnt Hx Hhalf Hxz Hout). lia.
Qed.

(* C13/C14 relative to the inner contract at the queries below the reserved value only *)
Theorem multi_index_correct_below m points mu :
  valid_mcfg m -> c_kt (m_cfg m) = mkK (m_tbits m) false ->
  Forall (point_ok m) points -> multi_build m points = Ok mu ->
  (forall q, 0 <= q -> q < sentinel (m_cfg m) -> exists lo hi, multi_range_of m mu q = Ok (lo, hi) /\ 0 <= lo /\
     lo <= lb (mu_data mu) q /\ lb (mu_data mu) q <= hi /\ hi <= zlen (mu_data mu)) ->
  let stored := map (decode m) (mu_data mu) in
  Permutation stored points /\ sortedb (mu_data mu) = true /\
  (forall p, zlen p = m_dims m -> coords_ok (field_bits m) p -> encode m p < sentinel (m_cfg m) ->
     exists b, multi_contains m mu p = Ok b /\ (b = true <-> In p points)) /\
  (forall pmin pmax, zlen pmin = m_dims m -> zlen pmax = m_dims m ->
     coords_ok (field_bits m) pmin -> coords_ok (field_bits m) pmax -> Forall2 Z.le pmin pmax ->
     encode m pmin < sentinel (m_cfg m) ->
     multi_range m mu pmin pmax = Ok (filter (in_boxb pmin pmax) stored)).
Proof.
  intros Hv Hkt Hok Hb Hrange stored. pose proof (valid_wf m Hv) as Hwf.
  destruct (multi_build_ok m points mu Hb) as [Hd _].
  pose proof (built_points_ok m points mu Hwf Hok Hb) as Hpts.
  pose proof (sort_codes_perm (map (encode m) points)) as Hperm. rewrite <- Hd in Hperm.
  assert (Hsorted : sortedb (mu_data mu) = true) by (rewrite Hd; apply sort_codes_sorted).
  assert (Hcodes : Forall (fun c => 0 <= c < 2 ^ (m_dims m * field_bits m)) (mu_data mu)).
  { apply Forall_forall. intros c Hc. apply (Permutation_in _ Hperm) in Hc.
    apply in_map_iff in Hc. destruct Hc as (p & <- & Hp). apply (encode_range m Hwf). apply Hpts. exact Hp. }
  split; [|split; [exact Hsorted|split]].
  - unfold stored. rewrite (Permutation_map (decode m) Hperm), map_map.
    rewrite (map_ext_in _ (fun p => p)); [rewrite map_id; reflexivity|].
    intros p Hp. destruct (Hpts p Hp). apply (decode_encode_wf m Hwf); assumption.
  - intros p Hl Hp Hq. eexists. split.
    + apply (MultiRange2.contains_spec m Hwf mu (mu_data mu) eq_refl Hsorted Hcodes
               (fun q => q < sentinel (m_cfg m)) Hrange p Hl Hp Hq).
    + rewrite existsb_exists. split.
      * intros (c & Hc & E). apply Z.eqb_eq in E. subst c. apply (Permutation_in _ Hperm) in Hc.
        apply in_map_iff in Hc. destruct Hc as (q & E & Hq'). destruct (Hpts q Hq').
        rewrite <- (encode_injective_wf m Hwf q p); assumption.
      * intros Hin. exists (encode m p). split; [|apply Z.eqb_refl].
        apply (Permutation_in _ (Permutation_sym Hperm)). apply in_map. exact Hin.
  - intros pmin pmax L1 L2 C1 C2 Hle Hq. unfold stored.
    apply (MultiRange2.range_spec_points m Hwf mu (mu_data mu) eq_refl Hsorted Hcodes
             (fun q => q < sentinel (m_cfg m)) Hrange (field_bits m));
      try assumption; [pose proof (F_pos m Hwf); lia|apply bigmin_spec_general; exact Hwf|].
    intros x Hx Hxz Hout. pose proof (stored_half m points mu Hwf Hok Hb) as Hh.
    rewrite Forall_forall in Hh, Hcodes.
    apply (skip_below_sentinel m (sentinel (m_cfg m)) pmin pmax x Hwf); try assumption;
      [apply top_le_sentinel; assumption|apply Hcodes; exact Hx|apply Hh; exact Hx].
Qed.

(* ---- which query points have a code below the reserved value ---- *)
Lemma encode_top m : wf_mcfg m -> encode m (top_point m) = 2 ^ (m_dims m * field_bits m) - 1.
Proof.
  intros Hwf. pose proof (encode_range m Hwf (top_point m) (top_len m Hwf)) as Hr.
  pose proof (D_pos m Hwf). pose proof (F_pos m Hwf).
  assert (Hp : 0 < 2 ^ (m_dims m * field_bits m)) by (apply Z.pow_pos_nonneg; nia).
  set (c := 2 ^ (m_dims m * field_bits m) - 1) in *.
  assert (Hc : 0 <= c < 2 ^ (m_dims m * field_bits m)) by (unfold c; lia).
  pose proof (encode_le_top m Hwf (decode m c) (decode_zlen m Hwf c) (decode_coords_ok m Hwf c)) as Hle.
  rewrite (encode_decode_wf m Hwf c Hc) in Hle. lia.
Qed.

Lemma dims_bits m : valid_mcfg m ->
  (m_dims m = 3 -> 2 ^ (m_dims m * field_bits m) <= 2 ^ (m_tbits m - 1)) /\
  (m_dims m <> 3 -> m_dims m * field_bits m = m_tbits m).
Proof.
  unfold valid_mcfg, field_bits. intros [[E|[E|E]] [E2|E2]]; rewrite E, E2; split; intros H; try lia;
    vm_compute; congruence.
Qed.

(* every code is below the reserved value for Dimensions = 3; for Dimensions in {2,4} every code
   except the all-ones point's, which IS the reserved value *)
Lemma code_below_sentinel m p : valid_mcfg m -> c_kt (m_cfg m) = mkK (m_tbits m) false ->
  zlen p = m_dims m -> coords_ok (field_bits m) p -> m_dims m = 3 \/ p <> top_point m ->
  encode m p < sentinel (m_cfg m).
Proof.
  intros Hv Hkt Hl Hp Hc. pose proof (valid_wf m Hv) as Hwf.
  destruct Hc as [E3|Hne].
  - pose proof (encode_range m Hwf p Hl) as Hr. destruct (dims_bits m Hv) as [H3 _]. specialize (H3 E3).
    assert (0 < 2 ^ (m_tbits m - 1)) by (apply Z.pow_pos_nonneg; destruct Hv as [_ [E|E]]; lia).
    assert (2 ^ m_tbits m = 2 * 2 ^ (m_tbits m - 1)).
    { rewrite <- Z.pow_succ_r by (destruct Hv as [_ [E|E]]; lia). f_equal. lia. }
    unfold sentinel. rewrite Hkt. unfold kmax. cbn [ksigned kbits]. lia.
  - pose proof (encode_lt_top m Hwf p Hl Hp Hne). pose proof (top_le_sentinel m Hwf Hkt). lia.
Qed.

Lemma top_code_reserved m : valid_mcfg m -> c_kt (m_cfg m) = mkK (m_tbits m) false -> m_dims m <> 3 ->
  encode m (top_point m) = sentinel (m_cfg m).
Proof.
  intros Hv Hkt H3. rewrite (encode_top m (valid_wf m Hv)). destruct (dims_bits m Hv) as [_ H]. rewrite (H H3).
  unfold sentinel. rewrite Hkt. reflexivity.
Qed.

(* ==== the end-to-end theorems ==== *)
Section EndToEnd.
  Variables (m : mcfg) (points : list (list Z)) (mu : multi).
  Hypothesis Hv : valid_mcfg m.                                   (* Dimensions in {2,3,4}, T = uint32/uint64 *)
  Hypothesis Hkt : c_kt (m_cfg m) = mkK (m_tbits m) false.        (* the inner index is PGMIndex<T, ...> *)
  Hypothesis Hc : idx_ok (m_cfg m).                               (* Epsilon >= 1, ... *)
  Hypothesis Hsm : cfg_small (m_cfg m).
  Hypothesis Hok : Forall (point_ok m) points.                    (* Dimensions coordinates, non-negative *)
  Hypothesis Hne : points <> [].
  Hypothesis Hn : zlen points <= 2 ^ 30.
  Hypothesis Hfl : c_fdouble (m_cfg m) = false ->
    zlen points + c_eps (m_cfg m) <= 2 ^ 22 - 1 /\ zlen points + 1 + c_epsrec (m_cfg m) <= 2 ^ 22 - 1.
  Hypothesis Hb : multi_build m points = Ok mu.

  Theorem multi_end_to_end_code :
    let stored := map (decode m) (mu_data mu) in
    Permutation stored points /\ sortedb (mu_data mu) = true /\
    (forall p, zlen p = m_dims m -> coords_ok (field_bits m) p -> encode m p < sentinel (m_cfg m) ->
       exists b, multi_contains m mu p = Ok b /\ (b = true <-> In p points)) /\
    (forall pmin pmax, zlen pmin = m_dims m -> zlen pmax = m_dims m ->
       coords_ok (field_bits m) pmin -> coords_ok (field_bits m) pmax -> Forall2 Z.le pmin pmax ->
       encode m pmin < sentinel (m_cfg m) ->
       multi_range m mu pmin pmax = Ok (filter (in_boxb pmin pmax) stored)).
  Proof.
    apply (multi_index_correct_below m points mu Hv Hkt Hok Hb). intros q _ Hq.
    destruct (multi_inner_contract_std m points mu Hv Hkt Hc Hsm Hok Hne Hn Hfl Hb q Hq)
      as (lo & hi & E & H). exists lo, hi. tauto.
  Qed.

  (* C13: range(pmin, pmax) iterated to end() yields exactly the stored points inside the box, with
     multiplicity, in increasing code order (stored = decoded sorted codes), for every box whose lower
     corner is not the all-ones point (no exclusion at all for Dimensions = 3) *)
  Theorem multi_index_end_to_end :
    let stored := map (decode m) (mu_data mu) in
    Permutation stored points /\ sortedb (mu_data mu) = true /\
    (forall pmin pmax, zlen pmin = m_dims m -> zlen pmax = m_dims m ->
       coords_ok (field_bits m) pmin -> coords_ok (field_bits m) pmax -> Forall2 Z.le pmin pmax ->
       m_dims m = 3 \/ pmin <> top_point m ->
       multi_range m mu pmin pmax = Ok (filter (in_boxb pmin pmax) stored)).
  Proof.
    destruct multi_end_to_end_code as (H1 & H2 & _ & H4). cbv zeta. split; [exact H1|split; [exact H2|]].
    intros pmin pmax L1 L2 C1 C2 Hle Hx. apply H4; try assumption.
    apply code_below_sentinel; assumption.
  Qed.

  (* C14: contains(p) answers, and answers true exactly for the stored points, for every query point
     other than the all-ones point (no exclusion for Dimensions = 3) *)
  Theorem multi_contains_end_to_end p :
    zlen p = m_dims m -> coords_ok (field_bits m) p -> m_dims m = 3 \/ p <> top_point m ->
    (exists b, multi_contains m mu p = Ok b) /\ (multi_contains m mu p = Ok true <-> In p points).
  Proof.
    intros Hl Hp Hx. destruct multi_end_to_end_code as (_ & _ & H3 & _).
    destruct (H3 p Hl Hp (code_below_sentinel m p Hv Hkt Hl Hp Hx)) as (b & E & Hiff).
    split; [exists b; exact E|]. rewrite E. split.
    - intros H. injection H as ->. apply Hiff. reflexivity.
    - intros H. f_equal. apply Hiff. exact H.
  Qed.

  (* the excluded point is never stored: the exclusion loses no stored point *)
  Lemma top_not_stored : ~ In (top_point m) points.
  Proof.
    intros Hin. pose proof (valid_wf m Hv) as Hwf. pose proof (F_pos m Hwf) as HF. pose proof (D_pos m Hwf) as HD.
    destruct (multi_build_ok m points mu Hb) as [_ Hw].
    rewrite Forall_forall in Hok. destruct (Hok _ Hin) as [_ Hnn]. rewrite Forall_forall in Hnn.
    assert (Hx : In (2 ^ field_bits m - 1) (top_point m)).
    { unfold top_point. destruct (Z.to_nat (m_dims m)) eqn:E; [lia|]. left. reflexivity. }
    pose proof (bit_width_small _ (field_bits m) (Hnn _ Hx) HF (Hw _ _ Hin Hx)) as Hs.
    assert (0 < 2 ^ (field_bits m - 1)) by (apply Z.pow_pos_nonneg; lia).
    replace (2 ^ field_bits m) with (2 * 2 ^ (field_bits m - 1)) in Hs
      by (rewrite <- Z.pow_succ_r by lia; f_equal; lia). lia.
  Qed.
End EndToEnd.

Print Assumptions multi_index_end_to_end.
Print Assumptions multi_contains_end_to_end.

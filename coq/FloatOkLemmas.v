(* FloatOkLemmas.v — rounding-error toolkit for the floating-point interface `eval_ok`:
   truncZ = Ztrunc, integer->float and format conversions as real roundings, relative errors. *)
From Coq Require Import ZArith Reals Lra Lia Bool.
From Flocq Require Import Core Relative BinarySingleNaN.
Require Import Base Fp.
Local Open Scope Z_scope.

(* ---------- truncZ is truncation of the real value ---------- *)
Lemma shiftl_IZR m e : 0 <= e -> IZR (Z.shiftl m e) = (IZR m * bpow radix2 e)%R.
Proof.
  intros He. rewrite Z.shiftl_mul_pow2 by lia. rewrite mult_IZR. f_equal.
  rewrite <- (IZR_Zpower radix2) by lia. reflexivity.
Qed.

Lemma trunc_pos_mag m ex :
  match ex with Zneg q => Z.shiftr (Zpos m) (Zpos q) | _ => Z.shiftl (Zpos m) ex end
  = Zfloor (F2R (Float radix2 (Zpos m) ex)).
Proof.
  destruct ex as [|q|q].
  - unfold F2R; cbn. rewrite Rmult_1_r. now rewrite Zfloor_IZR.
  - rewrite <- (Zfloor_IZR (Z.shiftl _ _)). f_equal. rewrite shiftl_IZR by lia. reflexivity.
  - rewrite Z.shiftr_div_pow2 by lia. unfold F2R; cbn [Fnum Fexp].
    rewrite <- Zfloor_div by (apply Z.pow_nonzero; lia). f_equal.
Qed.

Lemma truncZ_finite {p e} (x : binary_float p e) :
  is_finite x = true -> truncZ x = Some (Ztrunc (B2R x)).
Proof.
  destruct x as [s|s| |s m ex Hb]; try discriminate; intros _.
  - cbn. now rewrite Ztrunc_IZR.
  - unfold truncZ, B2R. f_equal. rewrite trunc_pos_mag.
    rewrite F2R_cond_Zopp.
    assert (H0 : (0 <= F2R (Float radix2 (Z.pos m) ex))%R) by (apply F2R_ge_0; cbn; lia).
    destruct s; cbn [cond_Zopp cond_Ropp].
    + rewrite Ztrunc_opp. now rewrite Ztrunc_floor.
    + now rewrite Ztrunc_floor.
Qed.

(* ---------- a format (prec, emax): operations as roundings of real numbers ---------- *)
Section Fmt.
Variables prec emax : Z.
Context (Hp : Prec_gt_0 prec) (He : Prec_lt_emax prec emax).
Definition femin := 3 - emax - prec.
Definition ffexp := FLT_exp femin prec.
Definition RN (x : R) : R := round radix2 ffexp ZnearestE x.

Lemma normalize_R mx ex sz :
  (Rabs (RN (F2R (Float radix2 mx ex))) < bpow radix2 emax)%R ->
  B2R (binary_normalize prec emax Hp He mode_NE mx ex sz) = RN (F2R (Float radix2 mx ex))
  /\ is_finite (binary_normalize prec emax Hp He mode_NE mx ex sz) = true.
Proof.
  intros H. generalize (binary_normalize_correct prec emax Hp He mode_NE mx ex sz). cbv zeta.
  change (round radix2 (SpecFloat.fexp prec emax) (round_mode mode_NE)) with RN.
  rewrite Rlt_bool_true by exact H. intros (A & B & _). now split.
Qed.

Lemma conv_R {p e} (x : binary_float p e) :
  is_finite x = true -> (Rabs (RN (B2R x)) < bpow radix2 emax)%R ->
  B2R (conv x prec emax Hp He) = RN (B2R x) /\ is_finite (conv x prec emax Hp He) = true.
Proof.
  destruct x as [s|s| |s m ex Hb]; try discriminate; intros _ H.
  - cbn. unfold RN. now rewrite round_0 by (apply valid_rnd_N).
  - unfold conv. apply normalize_R. exact H.
Qed.

Lemma ofZ_R z sz : (Rabs (RN (IZR z)) < bpow radix2 emax)%R ->
  B2R (binary_normalize prec emax Hp He mode_NE z 0 sz) = RN (IZR z)
  /\ is_finite (binary_normalize prec emax Hp He mode_NE z 0 sz) = true.
Proof.
  intros H. replace (IZR z) with (F2R (Float radix2 z 0)) in * by (unfold F2R; cbn; lra).
  now apply normalize_R.
Qed.
End Fmt.

Section RNprops.
Variables prec emax : Z.
Context (Hp : Prec_gt_0 prec).
Notation rn := (RN prec emax).
Notation emin := (femin prec emax).

Lemma RN_abs_le k x : emin <= k -> (Rabs x <= bpow radix2 k)%R -> (Rabs (rn x) <= bpow radix2 k)%R.
Proof.
  intros Hk Hx. unfold RN, ffexp. apply abs_round_le_generic; auto with typeclass_instances.
  apply generic_format_FLT_bpow; auto.
Qed.

Lemma RN_ge_bpow k x : emin <= k -> (bpow radix2 k <= x)%R -> (bpow radix2 k <= rn x)%R.
Proof.
  intros Hk Hx. unfold RN, ffexp. apply round_ge_generic; auto with typeclass_instances.
  apply generic_format_FLT_bpow; auto.
Qed.

Lemma RN_ge_0 x : (0 <= x)%R -> (0 <= rn x)%R.
Proof.
  intros Hx. unfold RN, ffexp. apply round_ge_generic; auto with typeclass_instances.
  apply generic_format_0.
Qed.

Lemma RN_relerr x : x = 0%R \/ (bpow radix2 (emin + prec - 1) <= Rabs x)%R ->
  exists eps, (Rabs eps <= bpow radix2 (- prec))%R /\ rn x = (x * (1 + eps))%R.
Proof.
  intros [->|H].
  - exists 0%R. split. rewrite Rabs_R0. apply bpow_ge_0.
    unfold RN, ffexp. rewrite round_0 by auto with typeclass_instances. lra.
  - destruct (relative_error_N_FLT_ex radix2 emin prec Hp (fun n => negb (Z.even n)) x H) as (eps & E1 & E2).
    exists eps. split; [|exact E2].
    replace (- prec) with ((-1) + (- prec + 1)) by lia. rewrite bpow_plus.
    exact E1.
Qed.

Lemma RN_int z : emin <= 0 -> Z.abs z <= 2 ^ prec -> rn (IZR z) = IZR z.
Proof.
  intros Hm Hz. unfold RN, ffexp. apply round_generic; auto with typeclass_instances.
  assert (P0 : 0 < prec) by exact Hp.
  destruct (Z.eq_dec (Z.abs z) (2 ^ prec)) as [E|N].
  - assert (G : generic_format radix2 (FLT_exp emin prec) (bpow radix2 prec)).
    { apply generic_format_FLT_bpow; auto. lia. }
    rewrite <- (IZR_Zpower radix2) in G by lia. change (Zpower radix2 prec) with (2 ^ prec) in G.
    rewrite <- E in G. destruct (Z.abs_eq_or_opp z) as [E'|E']; rewrite E' in G; auto.
    rewrite opp_IZR in G. apply generic_format_opp in G. now rewrite Ropp_involutive in G.
  - apply generic_format_FLT. exists (Float radix2 z 0).
    + unfold F2R; cbn. lra.
    + cbn. change (Z.pow_pos 2) with (Z.pow 2). lia.
    + exact Hm.
Qed.
End RNprops.

(* ---------- widening a format is exact ---------- *)
Lemma FLT_widen e1 p1 e2 p2 x : 0 < p1 -> p1 <= p2 -> e2 <= e1 ->
  generic_format radix2 (FLT_exp e1 p1) x -> generic_format radix2 (FLT_exp e2 p2) x.
Proof.
  intros H0 Hpp Hee G.
  assert (Hp1 : Prec_gt_0 p1) by exact H0.
  apply (FLT_format_generic radix2 e1 p1) in G; auto.
  destruct G as [f E1 E2 E3]. apply generic_format_FLT. exists f; auto.
  - eapply Z.lt_le_trans; [exact E2|]. apply (Zpower_le radix2). lia.
  - lia.
Qed.

Lemma conv_exact {p e} (x : binary_float p e) p2 e2 (H1 : Prec_gt_0 p2) (H2 : Prec_lt_emax p2 e2) k :
  0 < p -> p <= p2 -> 3 - e2 - p2 <= 3 - e - p -> 3 - e2 - p2 <= k -> k < e2 ->
  is_finite x = true -> (Rabs (B2R x) <= bpow radix2 k)%R ->
  B2R (conv x p2 e2 H1 H2) = B2R x /\ is_finite (conv x p2 e2 H1 H2) = true.
Proof.
  intros P0 Pp Ee Hk1 Hk2 Hf Hb.
  assert (G : RN p2 e2 (B2R x) = B2R x).
  { unfold RN, ffexp. apply round_generic; auto with typeclass_instances.
    apply (FLT_widen (3 - e - p) p); auto. apply generic_format_B2R. }
  rewrite <- G at 1. apply conv_R; auto. rewrite G.
  eapply Rle_lt_trans; [exact Hb|]. apply bpow_lt. lia.
Qed.

(* ---------- composing relative errors ---------- *)
Lemma err_comb u e U a : (Rabs u <= U)%R -> (Rabs e <= a)%R ->
  (Rabs ((1 + u) * (1 + e) - 1) <= (1 + U) * (1 + a) - 1)%R.
Proof.
  intros Hu He. replace ((1 + u) * (1 + e) - 1)%R with (u + e + u * e)%R by ring.
  eapply Rle_trans; [apply Rabs_triang|]. eapply Rle_trans; [apply Rplus_le_compat_r, Rabs_triang|].
  rewrite Rabs_mult. pose proof (Rabs_pos u). pose proof (Rabs_pos e). nra.
Qed.

Lemma bpow_m64 : bpow radix2 (-64) = (/ 18446744073709551616)%R.
Proof. reflexivity. Qed.
Lemma bpow_m53 : bpow radix2 (-53) = (/ 9007199254740992)%R.
Proof. reflexivity. Qed.
Lemma bpow_m24 : bpow radix2 (-24) = (/ 16777216)%R.
Proof. reflexivity. Qed.

Lemma const_float :
  ((1 + bpow radix2 (-64)) * (1 + bpow radix2 (-24)) * (1 + bpow radix2 (-53)) * (1 + bpow radix2 (-53)) - 1
   < / 8388608)%R.
Proof. rewrite bpow_m64, bpow_m53, bpow_m24. lra. Qed.

Lemma const_double :
  ((1 + bpow radix2 (-64)) * (1 + bpow radix2 (-53)) * (1 + bpow radix2 (-53)) * (1 + bpow radix2 (-53)) - 1
   < / 2251799813685248)%R.
Proof. rewrite bpow_m64, bpow_m53. lra. Qed.

Lemma prod_err E B C e1 e2 e3 e4 a1 a2 a3 a4 :
  (0 <= E < B)%R -> (Rabs e1 <= a1)%R -> (Rabs e2 <= a2)%R -> (Rabs e3 <= a3)%R -> (Rabs e4 <= a4)%R ->
  ((1 + a1) * (1 + a2) * (1 + a3) * (1 + a4) - 1 < C)%R -> (B * C <= / 2)%R ->
  (Rabs (E * (1 + e1) * (1 + e2) * (1 + e3) * (1 + e4) - E) < / 2)%R.
Proof.
  intros HE H1 H2 H3 H4 HC HB.
  pose proof (err_comb e1 e2 a1 a2 H1 H2) as K1.
  replace (1 + e1)%R with (1 + (1 + e1 - 1))%R in K1 by ring.
  set (u2 := ((1 + e1) * (1 + e2) - 1)%R) in *.
  assert (K1' : (Rabs u2 <= (1 + a1) * (1 + a2) - 1)%R).
  { unfold u2. replace (1 + e1)%R with (1 + (1 + e1 - 1))%R by ring. exact K1. }
  pose proof (err_comb u2 e3 _ a3 K1' H3) as K2.
  set (u3 := ((1 + u2) * (1 + e3) - 1)%R) in *.
  pose proof (err_comb u3 e4 _ a4 K2 H4) as K3.
  set (u4 := ((1 + u3) * (1 + e4) - 1)%R) in *.
  replace (E * (1 + e1) * (1 + e2) * (1 + e3) * (1 + e4) - E)%R with (E * u4)%R
    by (unfold u4, u3, u2; ring).
  rewrite Rabs_mult. rewrite (Rabs_pos_eq E) by lra.
  pose proof (Rabs_pos u4).
  replace ((1 + ((1 + ((1 + a1) * (1 + a2) - 1)) * (1 + a3) - 1)) * (1 + a4) - 1)%R
    with ((1 + a1) * (1 + a2) * (1 + a3) * (1 + a4) - 1)%R in K3 by ring.
  destruct (Req_dec E 0) as [->|NE]; [lra|].
  assert (Rabs u4 < C)%R by lra. 
  assert (E * Rabs u4 < B * C)%R by nra. lra.
Qed.

(* ---------- from |p - dy*dk/dx| < 1/2 to the integer statement about floor(p) ---------- *)
Lemma floor_close dx dy dk p : 0 < dx -> (0 <= p)%R ->
  (Rabs (p - IZR dy * IZR dk / IZR dx) < / 2)%R ->
  0 <= Zfloor p /\
  2 * dy * dk - 3 * dx < 2 * Zfloor p * dx /\ 2 * Zfloor p * dx < 2 * dy * dk + dx.
Proof.
  intros Hdx Hp Hc.
  assert (HX : (0 < IZR dx)%R) by (now apply IZR_lt).
  set (t := Zfloor p). pose proof (Zfloor_lb p) as L. pose proof (Zfloor_ub p) as U. fold t in L, U.
  set (E := (IZR dy * IZR dk / IZR dx)%R) in *.
  assert (EX : (E * IZR dx = IZR dy * IZR dk)%R) by (unfold E; field; lra).
  apply Rabs_def2 in Hc. destruct Hc as [C1 C2].
  split; [|split].
  - apply Zfloor_lub. exact Hp.
  - apply lt_IZR. rewrite minus_IZR, !mult_IZR. nra.
  - apply lt_IZR. rewrite plus_IZR, !mult_IZR. nra.
Qed.

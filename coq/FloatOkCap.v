(* FloatOkCap.v — the floating-point interface for Floating = float, closed.
   FloatOkAll.cx_not_float_ok / cy_not_float_ok show that `float_ok` (every evaluation within 1/2 of the
   exact line, or both >= 2^32) is FALSE for float slopes when the exact position lies in [2^22, 2^33).
   The proofs of the search contract only consume the weaker `float_ok_cap` (IdxBlock.eval_ok_cap,
   IdxLevel.level_float_ok_cap, IdxChain.float_ok_cap): one more way out, "computed and exact value are
   both >= T", with T = (size of the level) + eps, which is at or above every intercept the value is
   capped with.  Here:
   * seg_eval_ge / product_low_float: exact position >= 2^22 implies computed value >= 2^22 - 1
     (relative error of the float slope 2^-24 plus three double roundings, then truncation);
   * eval_ok_cap_float: for T <= 2^22 - 1 EVERY evaluation of a float segment satisfies eval_ok_cap T
     (exact < 2^22: FloatOk.eval_ok_float; exact >= 2^22: the cap disjunct);
   * level_float_ok_cap_float, float_ok_cap_float: hence float_ok_cap for every key, whenever
     zlen data + eps <= 2^22 - 1 and zlen data + 1 + eps_rec <= 2^22 - 1;
   * float_ok_cap_any: both Floating types in one statement. *)
From Coq Require Import ZArith Reals Lra Lia Bool List.
From Flocq Require Import Core Relative BinarySingleNaN.
Require Import Base Fp PlaModel PlaSpec PlaCert Greedy PlaComplete PlaSound GenLeaf IndexModel IndexProofs
  MappedQueries IdxFed IdxSeg IdxBlock IdxLevel IdxSearch0 IdxRoute IdxChain IdxMain IdxFuel
  FloatOkLemmas FloatOk FloatOkFar FloatOkAll.
Import ListNotations.
Local Open Scope Z_scope.

(* ---------- the computed value when the exact position is at least 2^22 ---------- *)
Lemma one_minus e a : (Rabs e <= a)%R -> (1 - a <= 1 + e)%R.
Proof. intros H. unfold Rabs in H. destruct (Rcase_abs e); lra. Qed.

Lemma step_low L X q e : (0 <= L <= X)%R -> (0 <= q <= 1 + e)%R -> (0 <= L * q <= X * (1 + e))%R.
Proof. intros [H1 H2] [H3 H4]. split; [apply Rmult_le_pos; assumption|]. apply Rmult_le_compat; assumption. Qed.

Lemma prod_low_float E e1 e2 e3 e4 :
  (0 <= E)%R -> (Rabs e1 <= bpow radix2 (-64))%R -> (Rabs e2 <= bpow radix2 (-24))%R ->
  (Rabs e3 <= bpow radix2 (-53))%R -> (Rabs e4 <= bpow radix2 (-53))%R ->
  (E * (1 - / 8388608) <= E * (1 + e1) * (1 + e2) * (1 + e3) * (1 + e4))%R.
Proof.
  intros HE H1 H2 H3 H4.
  apply one_minus in H1, H2, H3, H4. rewrite bpow_m64 in H1. rewrite bpow_m24 in H2. rewrite bpow_m53 in H3, H4.
  match type of H1 with (?q <= _)%R => set (q1 := q) in * end.
  match type of H2 with (?q <= _)%R => set (q2 := q) in * end.
  match type of H3 with (?q <= _)%R => set (q3 := q) in * end.
  assert (Q1 : (0 <= q1)%R) by (unfold q1; lra). assert (Q2 : (0 <= q2)%R) by (unfold q2; lra).
  assert (Q3 : (0 <= q3)%R) by (unfold q3; lra).
  pose proof (step_low E E q1 e1 ltac:(lra) (conj Q1 H1)) as A1.
  pose proof (step_low _ _ q2 e2 A1 (conj Q2 H2)) as A2.
  pose proof (step_low _ _ q3 e3 A2 (conj Q3 H3)) as A3.
  pose proof (step_low _ _ q3 e4 A3 (conj Q3 H4)) as A4.
  eapply Rle_trans; [|apply A4].
  replace (E * q1 * q2 * q3 * q3)%R with (E * (q1 * q2 * q3 * q3))%R by ring.
  apply Rmult_le_compat_l; [exact HE|]. unfold q1, q2, q3. lra.
Qed.

(* the tail of Segment::operator() for a finite product >= N: the value is >= N *)
Lemma seg_eval_ge c s k N :
  let p := mul64 (sg_slope s) (ofZ64 (key_diff c k (sg_key s))) in
  is_finite p = true -> 0 <= N < 2 ^ 63 -> (IZR N <= B2R p)%R -> 0 <= sg_icpt s < 2 ^ 32 ->
  N <= seg_eval c s k.
Proof.
  intros p Hf HN Hp Hi. unfold seg_eval. cbv zeta. fold p.
  assert (P0 : (0 <= B2R p)%R).
  { eapply Rle_trans; [|exact Hp]. apply IZR_le. lia. }
  assert (T : truncZ p = Some (Zfloor (B2R p))).
  { rewrite truncZ_finite by exact Hf. now rewrite Ztrunc_floor. }
  set (t := Zfloor (B2R p)) in *.
  assert (Ht : N <= t) by (apply Zfloor_lub; exact Hp).
  rewrite T. destruct (t >=? 2 ^ 63) eqn:Eb; [lia|].
  assert (Ht2 : t < 2 ^ 63) by (rewrite Z.geb_leb in Eb; apply Z.leb_gt in Eb; lia).
  assert (P1 : (B2R p < bpow radix2 63)%R).
  { rewrite <- IZR_pow2 by lia. eapply Rlt_le_trans; [apply Zfloor_ub|]. fold t.
    rewrite <- plus_IZR. apply IZR_le. lia. }
  destruct (double_to_size_t_floor c p Hf (conj P0 P1)) as [_ D]. fold t in D.
  rewrite D. unfold wrapU. rewrite Z.mod_small by lia. lia.
Qed.

(* float slopes: the computed product is at least (1 - 2^-23) times the exact one *)
Lemma product_low_float c dx dy dk : 0 < dx < 2 ^ 64 -> 0 <= dy < 2 ^ 64 -> 0 <= dk < 2 ^ 64 ->
  c_fdouble c = false ->
  let p := mul64 (slope_to_floating c (dx, dy)) (ofZ64 dk) in
  is_finite p = true /\ (IZR dy * IZR dk / IZR dx * (1 - / 8388608) <= B2R p)%R.
Proof.
  intros Hdx Hdy Hdk Hf p.
  destruct (product_R c dx dy dk Hdx Hdy Hdk)
    as (Fp & P0 & e1 & e2 & e3 & e4 & E1 & E2 & E3 & E4 & V). cbv zeta in *. fold p in Fp, P0, V.
  split; [exact Fp|]. rewrite V. unfold fprec in E2. rewrite Hf in E2.
  apply prod_low_float; try assumption.
  apply Rmult_le_pos; [apply Rmult_le_pos; apply IZR_le; lia|].
  left. apply Rinv_0_lt_compat. apply IZR_lt. lia.
Qed.

Section CapFloat.
Variables (c : cfg) (dx dy : Z) (s : segment) (k : Z).
Hypothesis Hdx : 0 < dx < 2 ^ 64.
Hypothesis Hdy : 0 <= dy < 2 ^ 64.
Hypothesis Hslope : sg_slope s = slope_to_floating c (dx, dy).
Hypothesis Hicpt : 0 <= sg_icpt s < 2 ^ 32.
Hypothesis Hdk : 0 <= k - sg_key s < 2 ^ 64.
Hypothesis Hkd : key_diff c k (sg_key s) = k - sg_key s.
Hypothesis Hf : c_fdouble c = false.

(* exact position >= 2^22: the computed value is >= 2^22 - 1 *)
Theorem seg_eval_far_float : 2 ^ 22 * dx <= dy * (k - sg_key s) -> 2 ^ 22 - 1 <= seg_eval c s k.
Proof.
  intros Hfar.
  destruct (product_low_float c dx dy (k - sg_key s) Hdx Hdy Hdk Hf) as (Fp & PL). cbv zeta in *.
  pose proof (seg_eval_ge c s k (2 ^ 22 - 1)) as SE. cbv zeta in SE. rewrite Hslope, Hkd in SE.
  apply SE; [exact Fp | lia | | exact Hicpt].
  pose proof (exact_ge dx dy (k - sg_key s) (2 ^ 22) ltac:(lia) Hfar) as HE.
  change (2 ^ 22 - 1) with 4194303. change (2 ^ 22) with 4194304 in HE.
  eapply Rle_trans; [|exact PL].
  set (E := (IZR dy * IZR (k - sg_key s) / IZR dx)%R) in *. lra.
Qed.

(* every evaluation of a float segment satisfies eval_ok_cap T, for every T <= 2^22 - 1 *)
Theorem eval_ok_cap_float T : T <= 2 ^ 22 - 1 -> eval_ok_cap T c dx dy s k.
Proof.
  intros HT. destruct (Z_lt_ge_dec (dy * (k - sg_key s)) (2 ^ 22 * dx)) as [Hlt|Hge].
  - left. apply eval_ok_float; assumption.
  - right. split.
    + pose proof (seg_eval_far_float ltac:(lia)). lia.
    + assert (T * dx <= 2 ^ 22 * dx) by (apply Z.mul_le_mono_nonneg_r; lia). lia.
Qed.
End CapFloat.

Corollary eval_ok_cap_float_std c dx dy s k T : std_width c ->
  0 < dx < 2 ^ 64 -> 0 <= dy < 2 ^ 64 -> sg_slope s = slope_to_floating c (dx, dy) ->
  0 <= sg_icpt s < 2 ^ 32 -> 0 <= k - sg_key s < 2 ^ kbits (c_kt c) ->
  c_fdouble c = false -> T <= 2 ^ 22 - 1 -> eval_ok_cap T c dx dy s k.
Proof.
  intros W Hdx Hdy Hs Hi Hk Hf HT.
  assert (2 ^ kbits (c_kt c) <= 2 ^ 64) by (destruct W as [E|[E|[E|E]]]; rewrite E; lia).
  apply eval_ok_cap_float; auto; [lia|now apply key_diff_exact].
Qed.

(* ---------- one segment of a level ---------- *)
Lemma seg_eval_ok_cap_float c eps cs b s k T :
  std_width c -> 0 <= eps ->
  seg_rel2 eps cs b -> line_ok eps cs b -> seg_of c cs s -> pts_ok (c_kt c) eps b ->
  sg_key s <= k <= kmax (c_kt c) ->
  c_fdouble c = false -> T <= 2 ^ 22 - 1 ->
  eval_ok_cap T c (fst (slope_of cs)) (snd (slope_of cs)) s k.
Proof.
  intros W He Hrel Hlo Hso Hp Hk Hf HT.
  destruct (std_width_bits c W) as [Hb H64].
  destruct (seg_of_cseg_spec c cs s Hso) as (Ekey & _ & Hicpt).
  pose proof Hlo as (Hbne & Hfirst & Hdx & Hdy & _). fold (slope_of cs) in Hdx, Hdy.
  assert (Hkey : kmin (c_kt c) <= sg_key s).
  { rewrite Ekey, Hfirst. unfold pts_ok in Hp. rewrite Forall_forall in Hp.
    destruct (Hp _ (hd_In_ne b Hbne)) as [Hx _]. lia. }
  pose proof (kspan (c_kt c) Hb) as Hsp.
  assert (Hdk : 0 <= k - sg_key s < 2 ^ kbits (c_kt c)) by lia.
  pose proof (seg_of_slope c cs s Hso) as Hsl.
  destruct (one_point cs) eqn:Hop.
  - rewrite (slope_of_one_point cs Hop). cbn [fst snd]. apply eval_ok_cap_of.
    apply eval_ok_zero_bounded; [exact Hsl | exact Hicpt|].
    apply key_diff_bounded; [exact W | lia].
  - destruct (slope_bounds c eps cs b Hb He Hrel Hp Hop) as [Bx By].
    assert (Hsl' : sg_slope s = slope_to_floating c (fst (slope_of cs), snd (slope_of cs))).
    { rewrite Hsl. rewrite <- surjective_pairing. reflexivity. }
    apply eval_ok_cap_float_std; try assumption; lia.
Qed.

(* ---------- one level ---------- *)
Theorem level_float_ok_cap_float c eps keys ldk k :
  std_width c -> 1 <= c_par c -> keys <> [] -> sortedb keys = true -> Forall (key_ok (c_kt c)) keys ->
  key_ok (c_kt c) ldk -> c_fdouble c = false -> zlen keys + eps <= 2 ^ 22 - 1 ->
  level_float_ok_cap c eps keys ldk k.
Proof.
  intros W Hpar Hne Hs Hk Hldk Hf Hsm css fed cnt new M1 M2.
  destruct (std_width_bits c W) as [Hb H64].
  split; [|intros _; apply extra_eval_ok; assumption].
  destruct (level_blocks_full _ _ _ _ _ _ _ _ M1 Hb Hpar Hne Hs Hk ltac:(lia)) as (g & _ & He & _ & F).
  pose proof (map_res_Forall2 _ _ _ M2) as F2.
  refine (EvL_blocks c _ (fun _ _ _ => True) (EvalOKc (zlen keys + eps) c k) _ css g new F F2
            (EvL_all _ css new (fun _ _ _ => I) F2)).
  intros cs b s rest (R1 & R2 & R3) Hso _ H1 H2 H3.
  apply (seg_eval_ok_cap_float c eps cs b s k _ W He R1 R2 Hso R3); [unfold sentinel in H3; lia | exact Hf | exact Hsm].
Qed.

(* ---------- the whole index ---------- *)
Lemma upper_all_float_cap c ldk k : forall fuel segs offs ln,
  upper_all (fun keys => level_float_ok_cap c (c_epsrec c) keys ldk k) c fuel ldk segs offs ln ->
  upper_float_ok_cap c fuel ldk segs offs ln k.
Proof.
  induction fuel as [|f IH]; intros segs offs ln H; cbn [upper_all upper_float_ok_cap] in *.
  - exact H.
  - destruct ((c_epsrec c =? 0) || (ln <=? 1)); [exact I|]. destruct H as [H1 H2]. split; [exact H1|].
    match goal with |- match ?e with _ => _ end => destruct e as [[segs1 ln1]|e1] end; [apply IH; exact H2 | exact I].
Qed.

(* FloatOkAll.float_ok_gen for float_ok_cap: a per-level argument gives the interface of the whole index *)
Theorem float_ok_cap_gen c data k (L : list Z -> Prop) :
  1 <= kbits (c_kt c) -> 1 <= c_par c <= 20 -> 0 <= c_epsrec c ->
  data <> [] -> sortedb data = true -> Forall (fun x => in_ktype (c_kt c) x = true) data ->
  last_z data < sentinel c -> zlen data + c_eps c < 2 ^ 64 - 1 -> zlen data + c_epsrec c + 4 < 2 ^ 64 - 1 ->
  level_float_ok_cap c (c_eps c) data (last_z data) k ->
  (forall keys, keys <> [] -> ssortedb keys = true -> Forall (key_ok (c_kt c)) keys ->
     hd 0 keys = hd 0 data -> zlen keys <= zlen data + 1 -> L keys ->
     level_float_ok_cap c (c_epsrec c) keys (last_z data) k) ->
  uppers_ok L c data -> float_ok_cap c data k.
Proof.
  intros Hb Hpar He0 Hne Hs Hkt Hlast Hn64 Hf64 HL0 HL HU. unfold float_ok_cap, uppers_ok in *.
  split; [exact HL0|].
  destruct (build_level c (c_eps c) data (zlen data) (last_z data) []) as [[segs ln]|e] eqn:E2; [|exact I].
  pose proof (data_key_ok c data Hs Hkt Hlast) as Hko. pose proof (key_ok_nowrap _ _ Hb Hko) as Hw.
  destruct (build_level_desc _ _ _ _ _ _ _ E2 ltac:(lia) Hne Hs Hw Hn64)
    as (css & fed & cnt & g & new & T & M1 & M2 & Es & Hcat & F1 & F2 & He & Htail).
  cbn [app] in Es, Htail.
  destruct (HL0 css fed cnt new M1 M2) as [Fev _].
  pose proof (Lv_of_Forall2 c (c_eps c) (EvalOKc (zlen data + c_eps c) c k) css g new F1 F2 Fev) as HLv.
  set (r0 := mkL data (c_eps c) css g new T ln).
  assert (Hok0 : lrec_ok c (last_z data) k r0).
  { unfold lrec_ok, r0. cbn [lr_keys lr_eps lr_css lr_g lr_new lr_T lr_ln]. do 6 (split; [assumption|]). exact Htail. }
  assert (Eb : below [r0] = segs).
  { unfold below. cbn [rev app map concat]. rewrite app_nil_r. unfold lr_L, r0. cbn [lr_new lr_T]. symmetry. exact Es. }
  assert (Eo : offs_of [r0] = [0; zlen segs]) by (cbn [offs_of app]; rewrite Eb; reflexivity).
  rewrite <- Eo in HU |- *. rewrite <- Eb in HU |- *. change ln with (lr_ln r0) in HU |- *.
  apply upper_all_float_cap.
  apply (upper_chain_gen c (last_z data) k (hd 0 data) (zlen data + 1) L _ (fun keys H => H) Hb Hpar He0 ltac:(lia) HL);
    [cbn [chainR]; split; [exact Hok0 | reflexivity] | reflexivity | | exact HU].
  destruct (Lv_keys _ _ _ _ _ _ HLv) as [_ Hgne]. destruct (Lv_len _ _ _ _ _ _ HLv) as [Lg _].
  pose proof (zlen_concat_ge g Hgne) as Hg. rewrite Hcat in Hg.
  rewrite (fed_spec_unfold (c_kt c) data Hne Hs Hw), zlen_app in Hg.
  pose proof (W_len (c_kt c) data (hd 0 data - 1) (last data 0) 0) as HWl. change (zlen [(last data 0 + 1, zlen data)]) with 1 in Hg.
  assert (Hln : ln <= zlen new) by (destruct Htail as [(_ & _ & ->)|(_ & -> & _)]; lia).
  cbn [lr_ln r0]. lia.
Qed.

(* Floating = float: float_ok_cap for EVERY key k, from a size bound alone.
   Level 0 has zlen data keys and eps = Epsilon; every upper level has at most zlen data + 1 keys
   and eps = EpsilonRecursive. *)
Theorem float_ok_cap_float c data k :
  std_width c -> 1 <= c_par c <= 20 -> 0 <= c_eps c -> 0 <= c_epsrec c ->
  data <> [] -> sortedb data = true -> Forall (fun x => in_ktype (c_kt c) x = true) data ->
  last_z data < sentinel c -> c_fdouble c = false ->
  zlen data + c_eps c <= 2 ^ 22 - 1 -> zlen data + 1 + c_epsrec c <= 2 ^ 22 - 1 ->
  float_ok_cap c data k.
Proof.
  intros W Hpar He Her Hne Hs Hkt Hlast Hf Hsm0 Hsm1.
  destruct (std_width_bits c W) as [Hb _].
  pose proof (data_key_ok c data Hs Hkt Hlast) as Hko.
  pose proof (last_z_key_ok c data Hne Hkt Hlast) as Hldk.
  pose proof (zlen_ge0 data) as Hn0.
  apply (float_ok_cap_gen c data k (fun _ => True)); try assumption; try lia.
  - apply level_float_ok_cap_float; try assumption; lia.
  - intros keys Hkne Hss Hkko _ Hlen _. pose proof (ssortedb_sorted _ Hss) as Hks.
    apply level_float_ok_cap_float; try assumption; lia.
  - unfold uppers_ok.
    match goal with |- match ?e with _ => _ end => destruct e as [[segs ln]|e1] end; [|exact I].
    apply upper_all_true. intros; exact I.
Qed.

(* Floating = double: float_ok (hence float_ok_cap) with no size bound beyond the 64-bit ones *)
Theorem float_ok_cap_double c data k :
  std_width c -> 1 <= c_par c <= 20 -> 0 <= c_epsrec c ->
  data <> [] -> sortedb data = true -> Forall (fun x => in_ktype (c_kt c) x = true) data ->
  last_z data < sentinel c -> zlen data + c_eps c < 2 ^ 64 - 1 -> zlen data + c_epsrec c + 4 < 2 ^ 64 - 1 ->
  c_fdouble c = true -> float_ok_cap c data k.
Proof. intros. apply float_ok_cap_of. apply float_ok_double; assumption. Qed.

Print Assumptions eval_ok_cap_float.
Print Assumptions float_ok_cap_float.

(* FloatOkAll.v — discharging the floating-point interface `float_ok` (IdxChain.v) for a whole index.
   `float_ok c data k` asks `eval_ok` of the responsible segment of every level.  FloatOk.v proves
   eval_ok when the exact position dy*(k-key)/dx is < 2^22 (float) / < 2^50 (double); FloatOkFar.v
   proves it when the exact position is >= 2^33.  Here:
   * zone_ok / exact_ok: the purely integer condition "no exact position lies in [2^22, 2^33)" (float)
     on the responsible segments; float_ok_of_exact : exact_ok -> float_ok;
   * double slopes: the two zones overlap, so float_ok holds for EVERY key (float_ok_double);
   * float slopes: float_ok_of_small_partial (EpsilonRecursive = 0, k a key of the data, n + eps + 1 <= 2^22),
     float_ok_bottom_small (any EpsilonRecursive: bottom level discharged, upper levels keep their integer
     zone condition), float_ok_of_small_span ((n + 2*eps) * (sentinel - first key) < 2^22, every k);
   * NOT a theorem: "zlen data < 2^21 -> float_ok c data k for hd data <= k < sentinel" (float slopes).
     cx_not_float_ok (6 keys, k absent, EpsilonRecursive = 0) and cy_not_float_ok (21 keys, k IN the data,
     EpsilonRecursive = 1) refute it: between the last point of a segment's block and the next segment's
     key the exact line value is unbounded (the next point was rejected precisely because it is far from
     the line), so it can fall in [2^22, 2^32) where the float product is off by more than 1/2 and still
     below 2^32 -- neither disjunct of eval_ok.  The real index is protected there by
     min(pos, next intercept); `eval_ok` has no disjunct for "inexact but above the cap".
     The float case is closed in FloatOkCap.v: the search proofs consume only the weaker
     IdxChain.float_ok_cap (IdxBlock.eval_ok_cap: one more disjunct "computed and exact value both
     >= level size + eps", i.e. above every intercept the value is capped with), which holds for
     float slopes for every key as soon as level size + eps <= 2^22 - 1 (float_ok_cap_float);
     ComposeFloat32.index_contract_float is the resulting unconditional contract. *)
Require Import Base Fp PlaModel PlaSpec PlaCert Greedy PlaComplete PlaSound GenLeaf IndexModel IndexProofs
  MappedQueries IdxFed IdxSeg IdxBlock IdxLevel IdxSearch0 IdxRoute IdxChain IdxMain IdxFuel
  FloatOk FloatOkFar.
From Coq Require Import ZifyBool.
Local Open Scope Z_scope.

(* the exact position of one evaluation is outside the zone the rounding analysis cannot handle *)
Definition zone_ok (c : cfg) (dx dy dk : Z) : Prop :=
  dy * dk < (if c_fdouble c then 2 ^ 50 else 2 ^ 22) * dx \/ 2 ^ 33 * dx <= dy * dk.

Lemma zone_ok_double c dx dy dk : c_fdouble c = true -> 0 < dx -> zone_ok c dx dy dk.
Proof. intros Hf Hdx. unfold zone_ok. rewrite Hf. lia. Qed.

Lemma kspan kt : 1 <= kbits kt -> kmax kt - kmin kt = 2 ^ kbits kt - 1.
Proof.
  intros Hb. unfold kmax, kmin.
  assert (Hp : 2 ^ kbits kt = 2 * 2 ^ (kbits kt - 1)).
  { replace (kbits kt) with (1 + (kbits kt - 1)) at 1 by lia. rewrite Z.pow_add_r by lia. reflexivity. }
  destruct (ksigned kt); lia.
Qed.

Lemma std_width_bits c : std_width c -> 1 <= kbits (c_kt c) /\ 2 ^ kbits (c_kt c) <= 2 ^ 64.
Proof. intros [E|[E|[E|E]]]; rewrite E; lia. Qed.

Lemma seg_of_slope c cs s : seg_of c cs s ->
  sg_slope s = if one_point cs then f64_zero else slope_to_floating c (slope_of cs).
Proof.
  unfold seg_of, segment_of_cseg, slope_of. destruct (cseg_line cs (c_first cs)) as [sl icpt]. cbn [fst].
  destruct (icpt >? 2 ^ 32 - 1); [discriminate|]. destruct (icpt <? 0); [discriminate|].
  intros H. injection H as <-. reflexivity.
Qed.

Lemma slope_of_one_point cs : one_point cs = true -> slope_of cs = (1, 0).
Proof. intros H. unfold slope_of, cseg_line. rewrite H. reflexivity. Qed.

Lemma slope_of_two_points cs : one_point cs = false -> slope_of cs = psub (c_r3 cs) (c_r1 cs).
Proof. intros H. unfold slope_of, cseg_line. rewrite H. reflexivity. Qed.

Definition pts_ok (kt : ktype) (eps : Z) (b : list (Z * Z)) : Prop :=
  Forall (fun p => kmin kt <= fst p <= kmax kt /\ 0 <= snd p /\ snd p + eps < 2 ^ 64 - 1) b.

Lemma band_range eps y : 0 <= eps -> 0 <= y -> y + eps < 2 ^ 64 - 1 ->
  0 <= band_lo eps y <= y /\ band_hi eps y = y + eps.
Proof.
  intros He Hy Hb. unfold band_lo, band_hi, band, y_size_t. cbn [fst snd ymin ymax].
  destruct (y <=? 0 + eps) eqn:E1; destruct (y >=? 2 ^ 64 - 1 - eps) eqn:E2; lia.
Qed.

(* the exact slope of a segment with two distinct rectangle corners: 0 < dx < 2^kbits, dy < 2^64 *)
Lemma slope_bounds c eps cs b :
  1 <= kbits (c_kt c) -> 0 <= eps -> seg_rel2 eps cs b -> pts_ok (c_kt c) eps b -> one_point cs = false ->
  0 < fst (slope_of cs) < 2 ^ kbits (c_kt c) /\ snd (slope_of cs) < 2 ^ 64.
Proof.
  intros Hb He [_ H2] Hp Hop. rewrite (slope_of_two_points cs Hop).
  destruct (H2 Hop) as ((y1 & In1 & E1) & (y3 & In3 & E3) & Hx).
  unfold pts_ok in Hp. rewrite Forall_forall in Hp.
  pose proof (Hp _ In1) as (X1 & Y1 & Z1). pose proof (Hp _ In3) as (X3 & Y3 & Z3). cbn [fst snd] in *.
  pose proof (kspan (c_kt c) Hb) as Hsp.
  destruct (band_range eps y1 He Y1 Z1) as [L1 _]. destruct (band_range eps y3 He Y3 Z3) as [_ L3].
  unfold psub. cbn [fst snd]. rewrite E1, E3. lia.
Qed.

(* one evaluation of one segment, from the integer zone condition *)
Lemma seg_eval_ok c eps cs b s k :
  std_width c -> 0 <= eps ->
  seg_rel2 eps cs b -> line_ok eps cs b -> seg_of c cs s -> pts_ok (c_kt c) eps b ->
  sg_key s <= k <= kmax (c_kt c) ->
  zone_ok c (fst (slope_of cs)) (snd (slope_of cs)) (k - sg_key s) ->
  eval_ok c (fst (slope_of cs)) (snd (slope_of cs)) s k.
Proof.
  intros W He Hrel Hlo Hso Hp Hk Hz.
  destruct (std_width_bits c W) as [Hb H64].
  destruct (seg_of_cseg_spec c cs s Hso) as (Ekey & _ & Hicpt).
  pose proof Hlo as (Hbne & Hfirst & Hdx & Hdy & _). fold (slope_of cs) in Hdx, Hdy.
  assert (Hkey : kmin (c_kt c) <= sg_key s).
  { rewrite Ekey, Hfirst. unfold pts_ok in Hp. rewrite Forall_forall in Hp.
    destruct (Hp _ (hd_In_ne b Hbne)) as [Hx _]. lia. }
  pose proof (kspan (c_kt c) Hb) as Hsp.
  assert (Hdk : 0 <= k - sg_key s < 2 ^ kbits (c_kt c)) by lia.
  pose proof (seg_of_slope c cs s Hso) as Hsl.
  destruct (one_point cs) eqn:Hop.
  - rewrite (slope_of_one_point cs Hop). cbn [fst snd].
    apply eval_ok_zero_bounded; [exact Hsl | exact Hicpt|].
    apply key_diff_bounded; [exact W | lia].
  - destruct (slope_bounds c eps cs b Hb He Hrel Hp Hop) as [Bx By].
    assert (Hsl' : sg_slope s = slope_to_floating c (fst (slope_of cs), snd (slope_of cs))).
    { rewrite Hsl. rewrite <- surjective_pairing. reflexivity. }
    destruct Hz as [Hz|Hz].
    + destruct (c_fdouble c) eqn:Ef.
      * apply eval_ok_double_std; try assumption; lia.
      * apply eval_ok_float_std; try assumption; lia.
    + apply eval_ok_far_std; try assumption; lia.
Qed.

(* ---- one level ---- *)
Definition ZoneOK (c : cfg) (k : Z) (cs : cseg) (s : segment) (rest : list segment) : Prop :=
  0 < fst (slope_of cs) -> 0 <= snd (slope_of cs) ->
  sg_key s <= k -> match rest with s' :: _ => k < sg_key s' | [] => True end -> k < sentinel c ->
  zone_ok c (fst (slope_of cs)) (snd (slope_of cs)) (k - sg_key s).

Definition level_zone_ok (c : cfg) (eps : Z) (keys : list Z) (k : Z) : Prop :=
  forall css fed cnt new,
    make_segmentation_par (c_kt c) par_threshold (c_par c) (zlen keys) eps keys = Ok (css, fed, cnt) ->
    map_res (segment_of_cseg c) css = Ok new ->
    EvL (ZoneOK c k) css new.

Lemma EvL_blocks c (P : cseg -> list (Z * Z) -> Prop) (E E' : cseg -> segment -> list segment -> Prop) :
  (forall cs b s rest, P cs b -> seg_of c cs s -> E cs s rest -> E' cs s rest) ->
  forall css g new, Forall2 P css g -> Forall2 (seg_of c) css new -> EvL E css new -> EvL E' css new.
Proof.
  intros Himp. induction css as [|cs css IH]; intros g new H1 H2 H3;
    inversion H1; inversion H2; subst; [exact I|].
  cbn [EvL] in *. destruct H3 as [A B]. split; [eapply Himp; eauto | eapply IH; eauto].
Qed.

Lemma Forall2_conj3 {A B} (P Q : A -> B -> Prop) (R : B -> Prop) l : forall l',
  Forall2 P l l' -> Forall2 Q l l' -> Forall R l' -> Forall2 (fun a b => P a b /\ Q a b /\ R b) l l'.
Proof.
  induction l as [|a l IH]; intros l' H1 H2 H3; inversion H1; subst; [constructor|].
  inversion H2; subst. inversion H3; subst. constructor; [tauto | apply IH; assumption].
Qed.

Lemma Forall_concat_blocks {A} (R : A -> Prop) (g : list (list A)) :
  Forall R (concat g) -> Forall (Forall R) g.
Proof.
  induction g as [|b g IH]; intros H; [constructor|]. cbn [concat] in H. apply Forall_app in H.
  destruct H as [H1 H2]. constructor; [exact H1 | apply IH; exact H2].
Qed.

(* the blocks of one level with everything known about them *)
Lemma level_blocks_full kt threshold par eps keys css fed cnt :
  make_segmentation_par kt threshold par (zlen keys) eps keys = Ok (css, fed, cnt) ->
  1 <= kbits kt -> 1 <= par -> keys <> [] -> sortedb keys = true -> Forall (key_ok kt) keys ->
  zlen keys + eps < 2 ^ 64 - 1 ->
  exists g, concat g = fed_spec kt keys /\ 0 <= eps /\ zlen g = cnt /\
    Forall2 (fun cs b => seg_rel2 eps cs b /\ line_ok eps cs b /\ pts_ok kt eps b) css g.
Proof.
  intros H Hb Hpar Hne Hs Hk Hn. pose proof (key_ok_nowrap kt keys Hb Hk) as Hw.
  destruct (make_segmentation_par_blocks _ _ _ _ _ _ _ _ _ H Hpar ltac:(lia) Hn) as (g & G1 & G2 & G3 & G4 & Heps).
  rewrite (make_segmentation_par_fed _ _ _ _ _ _ _ _ H Hpar) in G1.
  exists g. split; [exact G1|]. split; [exact Heps|]. split; [exact G4|].
  assert (Hr : forall p, In p (concat g) -> 0 <= snd p <= zlen keys).
  { intros p Hp. rewrite G1 in Hp. apply (spec_only kt keys Hne Hs Hw) in Hp. exact (fed_kind_rank keys p Hp). }
  apply Forall2_conj3; [exact G3 | |].
  - apply blocks_line_ok; try assumption.
    + rewrite G1. apply fed_spec_incr; assumption.
    + apply Forall_forall. intros p Hp. specialize (Hr p Hp). lia.
  - apply Forall_concat_blocks. apply Forall_forall. intros p Hp. pose proof (Hr p Hp).
    rewrite G1 in Hp. pose proof (fed_x_range kt keys p Hb Hne Hs Hk Hp). lia.
Qed.

Lemma extra_eval_ok c ldk n k : std_width c -> key_ok (c_kt c) ldk ->
  sg_key (extra_seg c ldk n) <= k -> k < sentinel c -> eval_ok c 1 0 (extra_seg c ldk n) k.
Proof.
  intros W [H1 H2] Hk Hs. destruct (std_width_bits c W) as [Hb H64].
  apply eval_ok_zero_bounded; [reflexivity | |].
  - cbn [extra_seg sg_icpt]. unfold wrapU. apply Z.mod_pos_bound. lia.
  - apply key_diff_bounded; [exact W|]. cbn [extra_seg sg_key] in *.
    rewrite (wrapK_id (c_kt c) (ldk + 1) Hb) in * by (unfold in_ktype in *; lia).
    pose proof (kspan (c_kt c) Hb). unfold sentinel, in_ktype in *. lia.
Qed.

Theorem level_float_ok_of_zone c eps keys ldk k :
  std_width c -> 1 <= c_par c -> keys <> [] -> sortedb keys = true -> Forall (key_ok (c_kt c)) keys ->
  zlen keys + eps < 2 ^ 64 - 1 -> key_ok (c_kt c) ldk ->
  level_zone_ok c eps keys k -> level_float_ok c eps keys ldk k.
Proof.
  intros W Hpar Hne Hs Hk Hn Hldk Hz css fed cnt new M1 M2.
  destruct (std_width_bits c W) as [Hb H64].
  split; [|intros _; apply extra_eval_ok; assumption].
  destruct (level_blocks_full _ _ _ _ _ _ _ _ M1 Hb Hpar Hne Hs Hk Hn) as (g & _ & He & _ & F).
  pose proof (map_res_Forall2 _ _ _ M2) as F2.
  refine (EvL_blocks c _ (ZoneOK c k) (EvalOK c k) _ css g new F F2 (Hz css fed cnt new M1 M2)).
  intros cs b s rest (R1 & R2 & R3) Hso HZ H1 H2 H3.
  apply (seg_eval_ok c eps cs b s k W He R1 R2 Hso R3); [unfold sentinel in H3; lia|].
  destruct R2 as (_ & _ & Hdx & Hdy & _). apply HZ; assumption.
Qed.


(* ---- the whole index: a per-level predicate L mirrored on upper_float_ok / float_ok ---- *)
Fixpoint upper_all (L : list Z -> Prop) (c : cfg) (fuel : nat) (ldk : Z) (segs : list segment) (offs : list Z)
         (last_n : Z) : Prop :=
  if (c_epsrec c =? 0) || (last_n <=? 1) then True else
  match fuel with
  | O => True
  | S f =>
      let offset := nth (length offs - 2) offs 0 in
      let keys := map sg_key (firstn (Z.to_nat last_n) (skipn (Z.to_nat offset) segs)) in
      L keys /\
      match build_level c (c_epsrec c) keys last_n ldk segs with
      | Ok (segs1, ln1) => upper_all L c f ldk segs1 (offs ++ [zlen segs1]) ln1
      | Err _ => True
      end
  end.

Lemma upper_all_float c ldk k : forall fuel segs offs ln,
  upper_all (fun keys => level_float_ok c (c_epsrec c) keys ldk k) c fuel ldk segs offs ln ->
  upper_float_ok c fuel ldk segs offs ln k.
Proof.
  induction fuel as [|f IH]; intros segs offs ln H; cbn [upper_all upper_float_ok] in *.
  - exact H.
  - destruct ((c_epsrec c =? 0) || (ln <=? 1)); [exact I|]. destruct H as [H1 H2]. split; [exact H1|].
    match goal with |- match ?e with _ => _ end => destruct e as [[segs1 ln1]|e1] end; [apply IH; exact H2 | exact I].
Qed.

Lemma upper_all_true c ldk (L : list Z -> Prop) : (forall keys, L keys) ->
  forall fuel segs offs ln, upper_all L c fuel ldk segs offs ln.
Proof.
  intros HL. induction fuel as [|f IH]; intros segs offs ln; cbn [upper_all].
  - destruct ((c_epsrec c =? 0) || (ln <=? 1)); exact I.
  - destruct ((c_epsrec c =? 0) || (ln <=? 1)); [exact I|]. split; [apply HL|].
    match goal with |- match ?e with _ => _ end => destruct e as [[segs1 ln1]|e1] end; [apply IH | exact I].
Qed.

Section Chain.
  Variables (c : cfg) (ldk k h0 M : Z) (L P : list Z -> Prop).
  Hypothesis HP : forall keys, P keys -> level_float_ok_cap c (c_epsrec c) keys ldk k.
  Hypothesis Hb : 1 <= kbits (c_kt c).
  Hypothesis Hpar : 1 <= c_par c <= 20.
  Hypothesis He0 : 0 <= c_epsrec c.
  Hypothesis HM : M + c_epsrec c + 2 < 2 ^ 64 - 1.
  Hypothesis HL : forall keys, keys <> [] -> ssortedb keys = true -> Forall (key_ok (c_kt c)) keys ->
    hd 0 keys = h0 -> zlen keys <= M -> L keys -> P keys.

  Lemma upper_chain_gen : forall fuel rl r,
    chainR c ldk k (r :: rl) -> hd 0 (lr_keys r) = h0 -> lr_ln r <= M ->
    upper_all L c fuel ldk (below (r :: rl)) (offs_of (r :: rl)) (lr_ln r) ->
    upper_all P c fuel ldk (below (r :: rl)) (offs_of (r :: rl)) (lr_ln r).
  Proof.
    induction fuel as [|f IH]; intros rl r Hch Hh HlnM H; cbn [upper_all] in *; [exact H|].
    destruct ((c_epsrec c =? 0) || (lr_ln r <=? 1)) eqn:Ec; [exact I|].
    assert (Eoff : nth (length (offs_of (r :: rl)) - 2) (offs_of (r :: rl)) 0 = zlen (below rl)).
    { rewrite offs_len. cbn [length]. replace (S (S (length rl)) - 2)%nat with (length rl) by lia.
      exact (offs_nth [r] rl). }
    rewrite Eoff in *.
    assert (Esk : skipn (Z.to_nat (zlen (below rl))) (below (r :: rl)) = lr_L r).
    { rewrite below_cons. apply skipn_zlen_app. }
    rewrite Esk in *. destruct H as [H1 H2].
    assert (Hok : lrec_ok c ldk k r) by (cbn [chainR] in Hch; tauto).
    destruct (next_keys c ldk k r Hb Hok) as (_ & _ & Hz & _ & Hss & Hko & Hhd).
    apply orb_false_iff in Ec. destruct Ec as [Ec1 Ec2].
    set (keys' := map sg_key (firstn (Z.to_nat (lr_ln r)) (lr_L r))) in *.
    assert (Hne' : keys' <> []) by (intros E; rewrite E in Hz; change (zlen (@nil Z)) with 0 in Hz; lia).
    assert (Hfl : P keys').
    { apply HL; try assumption; [rewrite Hhd by lia; exact Hh | lia]. }
    split; [exact Hfl|].
    destruct (build_level c (c_epsrec c) keys' (lr_ln r) ldk (below (r :: rl))) as [[segs1 ln1]|e1] eqn:E; [|exact I].
    destruct (build_upper_step c ldk k r rl segs1 ln1 Hb ltac:(lia) He0 Hok ltac:(lia) ltac:(lia) (HP _ Hfl) E)
      as (r' & Hok' & Hlink & Es1 & Eln1).
    assert (Hshr : ln1 < lr_ln r).
    { rewrite <- Hz in E. rewrite <- Hz.
      apply (build_level_shrinks c keys' ldk _ segs1 ln1 E); [lia | exact Hpar | exact Hne' | exact Hss | apply key_ok_nowrap; assumption | lia | lia]. }
    subst ln1. rewrite Es1 in *.
    assert (Hch' : chainR c ldk k (r' :: r :: rl)) by (cbn [chainR]; cbn [chainR] in Hch; tauto).
    replace (offs_of (r :: rl) ++ [zlen (below (r' :: r :: rl))]) with (offs_of (r' :: r :: rl)) in * by reflexivity.
    apply (IH (r :: rl) r' Hch'); [|lia | exact H2].
    destruct Hlink as (Ek' & _). rewrite Ek'. fold keys'. rewrite Hhd by lia. exact Hh.
  Qed.
End Chain.

Definition uppers_ok (L : list Z -> Prop) (c : cfg) (data : list Z) : Prop :=
  match build_level c (c_eps c) data (zlen data) (last_z data) [] with
  | Ok (segs, ln) => upper_all L c (length data + 2) (last_z data) segs [0; zlen segs] ln
  | Err _ => True
  end.

Lemma data_key_ok c data : sortedb data = true -> Forall (fun x => in_ktype (c_kt c) x = true) data ->
  last_z data < sentinel c -> Forall (key_ok (c_kt c)) data.
Proof.
  intros Hs Hkt Hlast. rewrite Forall_forall in *. intros x Hx. split; [apply Hkt; exact Hx|].
  pose proof (sorted_le_last data x 0 Hs Hx). unfold last_z, sentinel in *. lia.
Qed.

Lemma last_z_key_ok c data : data <> [] -> Forall (fun x => in_ktype (c_kt c) x = true) data ->
  last_z data < sentinel c -> key_ok (c_kt c) (last_z data).
Proof.
  intros Hne Hkt Hlast. split; [|exact Hlast]. rewrite Forall_forall in Hkt. apply Hkt.
  unfold last_z. destruct (exists_last Hne) as (l' & a & ->). rewrite last_last. apply in_or_app. right. left. reflexivity.
Qed.

Theorem float_ok_gen c data k (L : list Z -> Prop) :
  1 <= kbits (c_kt c) -> 1 <= c_par c <= 20 -> 0 <= c_epsrec c ->
  data <> [] -> sortedb data = true -> Forall (fun x => in_ktype (c_kt c) x = true) data ->
  last_z data < sentinel c -> zlen data + c_eps c < 2 ^ 64 - 1 -> zlen data + c_epsrec c + 4 < 2 ^ 64 - 1 ->
  level_float_ok c (c_eps c) data (last_z data) k ->
  (forall keys, keys <> [] -> ssortedb keys = true -> Forall (key_ok (c_kt c)) keys ->
     hd 0 keys = hd 0 data -> zlen keys <= zlen data + 1 -> L keys ->
     level_float_ok c (c_epsrec c) keys (last_z data) k) ->
  uppers_ok L c data -> float_ok c data k.
Proof.
  intros Hb Hpar He0 Hne Hs Hkt Hlast Hn64 Hf64 HL0 HL HU. unfold float_ok, uppers_ok in *.
  split; [exact HL0|].
  destruct (build_level c (c_eps c) data (zlen data) (last_z data) []) as [[segs ln]|e] eqn:E2; [|exact I].
  pose proof (data_key_ok c data Hs Hkt Hlast) as Hko. pose proof (key_ok_nowrap _ _ Hb Hko) as Hw.
  destruct (build_level_desc _ _ _ _ _ _ _ E2 ltac:(lia) Hne Hs Hw Hn64)
    as (css & fed & cnt & g & new & T & M1 & M2 & Es & Hcat & F1 & F2 & He & Htail).
  cbn [app] in Es, Htail.
  destruct (level_float_ok_cap_of _ _ _ _ _ HL0 css fed cnt new M1 M2) as [Fev _].
  pose proof (Lv_of_Forall2 c (c_eps c) (EvalOKc (zlen data + c_eps c) c k) css g new F1 F2 Fev) as HLv.
  set (r0 := mkL data (c_eps c) css g new T ln).
  assert (Hok0 : lrec_ok c (last_z data) k r0).
  { unfold lrec_ok, r0. cbn [lr_keys lr_eps lr_css lr_g lr_new lr_T lr_ln]. do 6 (split; [assumption|]). exact Htail. }
  assert (Eb : below [r0] = segs).
  { unfold below. cbn [rev app map concat]. rewrite app_nil_r. unfold lr_L, r0. cbn [lr_new lr_T]. symmetry. exact Es. }
  assert (Eo : offs_of [r0] = [0; zlen segs]) by (cbn [offs_of app]; rewrite Eb; reflexivity).
  rewrite <- Eo in HU |- *. rewrite <- Eb in HU |- *. change ln with (lr_ln r0) in HU |- *.
  apply upper_all_float.
  apply (upper_chain_gen c (last_z data) k (hd 0 data) (zlen data + 1) L _ (fun keys => level_float_ok_cap_of c (c_epsrec c) keys (last_z data) k) Hb Hpar He0 ltac:(lia) HL);
    [cbn [chainR]; split; [exact Hok0 | reflexivity] | reflexivity | | exact HU].
  destruct (Lv_keys _ _ _ _ _ _ HLv) as [_ Hgne]. destruct (Lv_len _ _ _ _ _ _ HLv) as [Lg _].
  pose proof (zlen_concat_ge g Hgne) as Hg. rewrite Hcat in Hg.
  rewrite (fed_spec_unfold (c_kt c) data Hne Hs Hw), zlen_app in Hg.
  pose proof (W_len (c_kt c) data (hd 0 data - 1) (last data 0) 0) as HWl. change (zlen [(last data 0 + 1, zlen data)]) with 1 in Hg.
  assert (Hln : ln <= zlen new) by (destruct Htail as [(_ & _ & ->)|(_ & -> & _)]; lia).
  cbn [lr_ln r0]. lia.
Qed.

(* ---- instance 1: the integer zone condition implies float_ok ---- *)
Definition exact_ok (c : cfg) (data : list Z) (k : Z) : Prop :=
  level_zone_ok c (c_eps c) data k /\ uppers_ok (fun keys => level_zone_ok c (c_epsrec c) keys k) c data.

Theorem float_ok_of_exact c data k :
  std_width c -> 1 <= c_par c <= 20 -> 0 <= c_epsrec c ->
  data <> [] -> sortedb data = true -> Forall (fun x => in_ktype (c_kt c) x = true) data ->
  last_z data < sentinel c -> zlen data + c_eps c < 2 ^ 64 - 1 -> zlen data + c_epsrec c + 4 < 2 ^ 64 - 1 ->
  exact_ok c data k -> float_ok c data k.
Proof.
  intros W Hpar He0 Hne Hs Hkt Hlast Hn64 Hf64 [HZ0 HZU].
  destruct (std_width_bits c W) as [Hb _].
  pose proof (last_z_key_ok c data Hne Hkt Hlast) as Hldk.
  apply (float_ok_gen c data k (fun keys => level_zone_ok c (c_epsrec c) keys k)); try assumption.
  - apply level_float_ok_of_zone; try assumption; [lia | apply data_key_ok; assumption].
  - intros keys Hkne Hss Hko _ Hlen HZ.
    apply level_float_ok_of_zone; try assumption; [lia | apply ssortedb_sorted; exact Hss | lia].
Qed.

(* ---- instance 2: double slopes ---- *)
Lemma EvL_all {R : cseg -> segment -> Prop} (E : cseg -> segment -> list segment -> Prop) css new :
  (forall cs s rest, E cs s rest) -> Forall2 R css new -> EvL E css new.
Proof. intros HE F. induction F; cbn [EvL]; [exact I | split; [apply HE | assumption]]. Qed.

Lemma level_zone_ok_double c eps keys k : c_fdouble c = true -> level_zone_ok c eps keys k.
Proof.
  intros Hf css fed cnt new _ M2. refine (EvL_all _ css new _ (map_res_Forall2 _ _ _ M2)).
  intros cs s rest Hdx _ _ _ _. apply zone_ok_double; assumption.
Qed.

Theorem float_ok_double c data k :
  std_width c -> 1 <= c_par c <= 20 -> 0 <= c_epsrec c ->
  data <> [] -> sortedb data = true -> Forall (fun x => in_ktype (c_kt c) x = true) data ->
  last_z data < sentinel c -> zlen data + c_eps c < 2 ^ 64 - 1 -> zlen data + c_epsrec c + 4 < 2 ^ 64 - 1 ->
  c_fdouble c = true -> float_ok c data k.
Proof.
  intros W Hpar He0 Hne Hs Hkt Hlast Hn64 Hf64 Hf.
  apply float_ok_of_exact; try assumption. split; [apply level_zone_ok_double; exact Hf|].
  unfold uppers_ok. destruct (build_level _ _ _ _ _ _) as [[segs ln]|e]; [|exact I].
  apply upper_all_true. intros keys. apply level_zone_ok_double. exact Hf.
Qed.


(* ---- float slopes: evaluations at keys inside the x-range of the responsible block ---- *)
Lemma EvL_suffix c (P : cseg -> list (Z * Z) -> Prop) (E : cseg -> segment -> list segment -> Prop)
      (G : list (list (Z * Z))) :
  (forall cs b s c2 g2 n2 g1, G = g1 ++ b :: g2 -> P cs b -> seg_of c cs s ->
     Forall2 P c2 g2 -> Forall2 (seg_of c) c2 n2 -> E cs s n2) ->
  forall css g new pre, G = pre ++ g -> Forall2 P css g -> Forall2 (seg_of c) css new -> EvL E css new.
Proof.
  intros HE. induction css as [|cs css IH]; intros g new pre EG H1 H2;
    inversion H1 as [|cs0 b css0 g' Hcb H1' E1 E2]; inversion H2 as [|cs1 s css1 new' Hcs H2' E3 E4]; subst; [exact I|].
  cbn [EvL]. split.
  - exact (HE cs b s css g' new' pre eq_refl Hcb Hcs H1' H2').
  - apply (IH g' new' (pre ++ [b])); [rewrite <- app_assoc; reflexivity | exact H1' | exact H2'].
Qed.

(* a point of the level whose x lies in the key range of a segment belongs to that segment's block *)
Lemma point_in_block (g1 g2 : list (list (Z * Z))) b p :
  incr (concat (g1 ++ b :: g2)) -> b <> [] -> In p (concat (g1 ++ b :: g2)) ->
  fst (hd (0, 0) b) <= fst p ->
  match g2 with b' :: _ => b' <> [] /\ fst p < fst (hd (0, 0) b') | [] => True end ->
  In p b.
Proof.
  intros Hi Hb Hp Hlo Hhi. rewrite concat_app in Hi, Hp. cbn [concat] in Hi, Hp.
  apply incr_app in Hi. destruct Hi as (_ & Hi2 & H12).
  apply in_app_or in Hp. destruct Hp as [Hp|Hp].
  - assert (Hh : In (hd (0, 0) b) (b ++ concat g2)) by (apply in_or_app; left; apply hd_In_ne; exact Hb).
    destruct (H12 _ _ Hp Hh). lia.
  - apply in_app_or in Hp. destruct Hp as [Hp|Hp]; [exact Hp|].
    destruct g2 as [|b' g2']; [contradiction|]. destruct Hhi as [Hb' Hlt].
    apply incr_app in Hi2. destruct Hi2 as (_ & Hi3 & _). cbn [concat] in Hi3, Hp.
    destruct b' as [|a t]; [contradiction|]. cbn [hd app] in *.
    destruct (incr_hd_min a _ p Hi3 Hp). lia.
Qed.

Definition fthr (c : cfg) : Z := if c_fdouble c then 2 ^ 50 else 2 ^ 22.

Lemma close_at_small eps dx dy first icpt x y T :
  0 < dx -> 0 <= icpt -> close_at eps dx dy first icpt (x, y) -> y + eps + 1 <= T ->
  dy * (x - first) < T * dx.
Proof. unfold close_at. cbn [fst snd]. intros Hdx Hi Hc HT. nia. Qed.

(* one level, a key that is the x of a fed point: the exact position is at most rank + eps + 1/2 *)
Lemma level_zone_at_fed c eps keys k :
  1 <= kbits (c_kt c) -> 1 <= c_par c -> keys <> [] -> sortedb keys = true -> Forall (key_ok (c_kt c)) keys ->
  zlen keys + eps < 2 ^ 64 - 1 ->
  (exists y, In (k, y) (fed_spec (c_kt c) keys)) -> zlen keys + eps + 1 <= fthr c ->
  level_zone_ok c eps keys k.
Proof.
  intros Hb Hpar Hne Hs Hk Hn [y Hy] HT css fed cnt new M1 M2.
  pose proof (key_ok_nowrap _ _ Hb Hk) as Hw.
  destruct (level_blocks_full _ _ _ _ _ _ _ _ M1 Hb Hpar Hne Hs Hk Hn) as (g & Hcat & He & _ & F).
  pose proof (map_res_Forall2 _ _ _ M2) as F2.
  refine (EvL_suffix c _ (ZoneOK c k) g _ css g new [] eq_refl F F2).
  intros cs b s c2 g2 n2 g1 EG (R1 & R2 & R3) Hso FP FS Hdx Hdy Hk1 Hk2 Hsent. left. fold (fthr c).
  destruct (line_ok_close c eps cs b s R2 Hso) as (_ & _ & Ekey & Hcl). fold (slope_of cs) in Hcl.
  destruct (seg_of_cseg_spec c cs s Hso) as (_ & _ & Hicpt).
  assert (Hbne : b <> []) by (destruct R2; assumption).
  assert (Hin : In (k, y) b).
  { apply (point_in_block g1 g2 b (k, y)); [| exact Hbne | | cbn [fst]; lia |].
    - rewrite <- EG, Hcat. apply fed_spec_incr; assumption.
    - rewrite <- EG, Hcat. exact Hy.
    - destruct g2 as [|b' g2']; [exact I|]. inversion FP as [|cs' b0 c2' g0 (_ & R2' & _) _ E1 E2]; subst.
      inversion FS as [|cs0 s' c20 n2' Hso' _ E3 E4]; subst.
      destruct (line_ok_close c eps cs' b' s' R2' Hso') as (_ & _ & Ekey' & _).
      split; [destruct R2'; assumption|]. cbn [fst]. rewrite <- Ekey'. exact Hk2. }
  rewrite Forall_forall in Hcl. pose proof (Hcl _ Hin) as Hc.
  assert (Hyr : y <= zlen keys).
  { apply (spec_only (c_kt c) keys Hne Hs Hw) in Hy. pose proof (fed_kind_rank keys _ Hy) as Hr. cbn [snd] in Hr. lia. }
  apply (close_at_small eps _ _ (sg_key s) (sg_icpt s) k y); [exact Hdx | lia | exact Hc | lia].
Qed.

Lemma upper_all_eps0 c ldk (L : list Z -> Prop) : c_epsrec c = 0 ->
  forall fuel segs offs ln, upper_all L c fuel ldk segs offs ln.
Proof. intros E fuel segs offs ln. destruct fuel; cbn [upper_all]; rewrite E; exact I. Qed.

Lemma data_key_fed c data k : 1 <= kbits (c_kt c) -> data <> [] -> sortedb data = true ->
  Forall (key_ok (c_kt c)) data -> In k data -> exists y, In (k, y) (fed_spec (c_kt c) data).
Proof.
  intros Hb Hne Hs Hk Hin. pose proof (key_ok_nowrap _ _ Hb Hk) as Hw.
  destruct (present_at_r data Hs k Hin) as [Hr Ek].
  destruct (claimB (c_kt c) data Hne Hs Hw k Hr) as [HB _]. rewrite Ek in HB. eexists. exact HB.
Qed.

(* the bottom level is discharged for keys of the data when n + eps + 1 <= 2^22 (float) / 2^50 (double);
   the upper levels keep their integer zone condition *)
Theorem float_ok_bottom_small c data k :
  std_width c -> 1 <= c_par c <= 20 -> 0 <= c_epsrec c ->
  data <> [] -> sortedb data = true -> Forall (fun x => in_ktype (c_kt c) x = true) data ->
  last_z data < sentinel c -> zlen data + c_eps c < 2 ^ 64 - 1 -> zlen data + c_epsrec c + 4 < 2 ^ 64 - 1 ->
  zlen data + c_eps c + 1 <= fthr c -> In k data ->
  uppers_ok (fun keys => level_zone_ok c (c_epsrec c) keys k) c data -> float_ok c data k.
Proof.
  intros W Hpar He0 Hne Hs Hkt Hlast Hn64 Hf64 Hsmall Hin HU.
  destruct (std_width_bits c W) as [Hb _]. pose proof (data_key_ok c data Hs Hkt Hlast) as Hko.
  apply float_ok_of_exact; try assumption. split; [|exact HU].
  apply level_zone_at_fed; try assumption; [lia|]. apply data_key_fed; assumption.
Qed.

(* EpsilonRecursive = 0: float_ok at every key of the data, for n + eps + 1 <= 2^22 (float slopes) *)
Theorem float_ok_of_small_partial c data k :
  std_width c -> 1 <= c_par c <= 20 -> c_epsrec c = 0 -> 0 <= c_eps c ->
  data <> [] -> sortedb data = true -> Forall (fun x => in_ktype (c_kt c) x = true) data ->
  last_z data < sentinel c -> zlen data + c_eps c + 1 <= fthr c ->
  In k data -> float_ok c data k.
Proof.
  intros W Hpar He0 Heps Hne Hs Hkt Hlast Hsmall Hin.
  assert (HT : fthr c <= 2 ^ 50) by (unfold fthr; destruct (c_fdouble c); lia).
  pose proof (zlen_ge0 data).
  apply float_ok_bottom_small; try assumption; try lia.
  unfold uppers_ok.
  match goal with |- match ?e with _ => _ end => destruct e as [[segs ln]|e1] end; [|exact I].
  apply upper_all_eps0. exact He0.
Qed.

(* ---- float slopes over a small key universe: (n + 2*eps) * (sentinel - first key) < 2^22 ---- *)
Lemma band_lo_ge eps y : band_lo eps y >= y - eps \/ band_lo eps y = 0.
Proof. unfold band_lo, band, y_size_t. cbn [fst snd ymin ymax]. destruct (y <=? 0 + eps); lia. Qed.

Lemma fed_x_ge_hd kt keys p : keys <> [] -> sortedb keys = true -> nowrap kt keys ->
  In p (fed_spec kt keys) -> hd 0 keys <= fst p.
Proof.
  intros Hne Hs Hw Hp. apply (spec_only kt keys Hne Hs Hw) in Hp.
  pose proof (n_pos kt keys Hne Hs Hw) as Hn1. rewrite <- (dat0 kt keys Hne Hs Hw).
  destruct Hp as [[[Hi _] ->]|[[(A & B & _) ->]|[-> _]]].
  - pose proof (sorted_dat_mono keys 0 (snd p) Hs ltac:(lia) ltac:(lia)). lia.
  - pose proof (sorted_dat_mono keys 0 (snd p) Hs ltac:(lia) ltac:(lia)). lia.
  - rewrite (last_is keys Hne). pose proof (sorted_dat_mono keys 0 (zlen keys - 1) Hs ltac:(lia) ltac:(lia)). lia.
Qed.

(* dy of the exact slope: at most (largest rank of the block) + 2*eps *)
Lemma slope_dy_le eps cs b m :
  0 <= eps -> 0 <= m -> seg_rel2 eps cs b -> (forall p, In p b -> 0 <= snd p <= m) -> m + eps < 2 ^ 64 - 1 ->
  snd (slope_of cs) <= m + 2 * eps.
Proof.
  intros He Hm0 [_ H2] Hr Hm. destruct (one_point cs) eqn:Hop.
  - rewrite (slope_of_one_point cs Hop). cbn [snd]. lia.
  - rewrite (slope_of_two_points cs Hop).
    destruct (H2 eq_refl) as ((y1 & In1 & E1) & (y3 & In3 & E3) & Hx).
    pose proof (Hr _ In1) as R1. pose proof (Hr _ In3) as R3. cbn [snd] in R1, R3.
    destruct (band_range eps y3 He ltac:(lia) ltac:(lia)) as [_ L3].
    unfold psub. cbn [fst snd]. rewrite E1, E3, L3. destruct (band_lo_ge eps y1); lia.
Qed.

Lemma level_zone_small_span c eps keys k :
  1 <= kbits (c_kt c) -> 1 <= c_par c -> keys <> [] -> sortedb keys = true -> Forall (key_ok (c_kt c)) keys ->
  zlen keys + eps < 2 ^ 64 - 1 ->
  (zlen keys + 2 * eps) * (sentinel c - hd 0 keys) < fthr c ->
  level_zone_ok c eps keys k.
Proof.
  intros Hb Hpar Hne Hs Hk Hn HT css fed cnt new M1 M2.
  pose proof (key_ok_nowrap _ _ Hb Hk) as Hw.
  destruct (level_blocks_full _ _ _ _ _ _ _ _ M1 Hb Hpar Hne Hs Hk Hn) as (g & Hcat & He & _ & F).
  pose proof (map_res_Forall2 _ _ _ M2) as F2.
  refine (EvL_suffix c _ (ZoneOK c k) g _ css g new [] eq_refl F F2).
  intros cs b s c2 g2 n2 g1 EG (R1 & R2 & R3) Hso _ _ Hdx Hdy Hk1 _ Hsent. left. fold (fthr c).
  destruct (line_ok_close c eps cs b s R2 Hso) as (_ & _ & Ekey & _).
  assert (Hbne : b <> []) by (destruct R2; assumption).
  assert (Hfed : forall p, In p b -> In p (fed_spec (c_kt c) keys)).
  { intros p Hp. rewrite <- Hcat, EG. apply in_concat. exists b. split; [apply in_or_app; right; left; reflexivity | exact Hp]. }
  pose proof (zlen_ge0 keys) as Hm0.
  assert (Hdyle : snd (slope_of cs) <= zlen keys + 2 * eps).
  { apply (slope_dy_le eps cs b (zlen keys) He Hm0 R1); [|lia].
    intros p Hp. apply Hfed in Hp. apply (spec_only (c_kt c) keys Hne Hs Hw) in Hp. exact (fed_kind_rank keys p Hp). }
  pose proof (fed_x_ge_hd (c_kt c) keys _ Hne Hs Hw (Hfed _ (hd_In_ne b Hbne))) as Hx0. rewrite <- Ekey in Hx0.
  set (dy := snd (slope_of cs)) in *. set (dx := fst (slope_of cs)) in *.
  assert (H1 : dy * (k - sg_key s) <= (zlen keys + 2 * eps) * (sentinel c - hd 0 keys)).
  { apply Z.mul_le_mono_nonneg; lia. }
  assert (H2 : fthr c * 1 <= fthr c * dx) by (apply Z.mul_le_mono_nonneg_l; [unfold fthr; destruct (c_fdouble c)|]; lia).
  lia.
Qed.

Theorem float_ok_of_small_span c data k :
  std_width c -> 1 <= c_par c <= 20 -> 0 <= c_epsrec c -> 0 <= c_eps c ->
  data <> [] -> sortedb data = true -> Forall (fun x => in_ktype (c_kt c) x = true) data ->
  last_z data < sentinel c ->
  (zlen data + 2 * c_eps c) * (sentinel c - hd 0 data) < fthr c ->
  (zlen data + 1 + 2 * c_epsrec c) * (sentinel c - hd 0 data) < fthr c ->
  float_ok c data k.
Proof.
  intros W Hpar He0 Heps Hne Hs Hkt Hlast HT0 HT1.
  destruct (std_width_bits c W) as [Hb _].
  pose proof (data_key_ok c data Hs Hkt Hlast) as Hko.
  pose proof (last_z_key_ok c data Hne Hkt Hlast) as Hldk.
  assert (HT : fthr c <= 2 ^ 50) by (unfold fthr; destruct (c_fdouble c); lia).
  pose proof (zlen_ge0 data) as Hn0.
  assert (Hsp : 1 <= sentinel c - hd 0 data).
  { assert (hd 0 data <= last_z data); [|lia]. apply (sorted_le_last data _ 0 Hs).
    destruct data; [contradiction | left; reflexivity]. }
  assert (Hn1 : zlen data + 2 * c_eps c < fthr c) by nia.
  assert (Hn2 : zlen data + 1 + 2 * c_epsrec c < fthr c) by nia.
  apply (float_ok_gen c data k (fun _ => True)); try assumption; try lia.
  - apply level_float_ok_of_zone; try assumption; try lia.
    apply level_zone_small_span; try assumption; lia.
  - intros keys Hkne Hss Hkko Hhd Hlen _. pose proof (ssortedb_sorted _ Hss) as Hks.
    apply level_float_ok_of_zone; try assumption; try lia.
    apply level_zone_small_span; try assumption; try lia.
    rewrite Hhd. pose proof (zlen_ge0 keys). nia.
  - unfold uppers_ok.
    match goal with |- match ?e with _ => _ end => destruct e as [[segs ln]|e1] end; [|exact I].
    apply upper_all_true. intros; exact I.
Qed.

(* ---- why "n small" alone cannot give float_ok for float slopes: a counterexample ----
   6 keys, Epsilon = 1, EpsilonRecursive = 0, float slopes: the first segment covers 0,3,6,9,12 with
   exact slope 5/12; the query key 3*2^30 (absent, between 12 and 2^40, so still in that segment's key
   range) has exact position 1342177280 while the float computation gives 1342177248: neither
   disjunct of eval_ok holds.  (The index is still correct there: the position is capped by the next
   segment's intercept; `eval_ok` is simply not an invariant of such evaluations.) *)
Definition cx_c : cfg := mkCfg (mkK 64 false) 1 0 false 1 false.
Definition cx_data : list Z := [0; 3; 6; 9; 12; 2 ^ 40].
Definition cx_k : Z := 3 * 2 ^ 30.
Definition cx_css : list cseg :=
  [mkCseg (0, 1) (0, 0) (12, 3) (12, 5) 0;
   mkCseg (2 ^ 40, 6) (2 ^ 40, 4) (2 ^ 40 + 1, 5) (2 ^ 40 + 1, 7) (2 ^ 40)].
Definition cx_fed : list (Z * Z) := [(0, 0); (3, 1); (6, 2); (9, 3); (12, 4); (2 ^ 40, 5); (2 ^ 40 + 1, 6)].
Definition cx_new : list segment :=
  match map_res (segment_of_cseg cx_c) cx_css with Ok new => new | Err _ => [] end.

Lemma cx_M1 : make_segmentation_par (c_kt cx_c) par_threshold (c_par cx_c) (zlen cx_data) (c_eps cx_c) cx_data
              = Ok (cx_css, cx_fed, 2).
Proof. vm_compute. reflexivity. Qed.
Lemma cx_M2_ok : match map_res (segment_of_cseg cx_c) cx_css with Ok _ => true | Err _ => false end = true.
Proof. vm_compute. reflexivity. Qed.
Lemma cx_M2 : map_res (segment_of_cseg cx_c) cx_css = Ok cx_new.
Proof.
  pose proof cx_M2_ok as H. unfold cx_new. destruct (map_res (segment_of_cseg cx_c) cx_css); [reflexivity | discriminate H].
Qed.
Lemma cx_facts :
  match cx_new with
  | [s1; s2] => (sg_key s1 =? 0) && (sg_icpt s1 =? 0) && (seg_eval cx_c s1 cx_k =? 1342177248) && (sg_key s2 =? 2 ^ 40)
  | _ => false
  end = true.
Proof. vm_compute. reflexivity. Qed.

Theorem cx_not_float_ok : ~ float_ok cx_c cx_data cx_k.
Proof.
  intros [H0 _]. destruct (H0 cx_css cx_fed 2 cx_new cx_M1 cx_M2) as [HE _]. clear H0.
  pose proof cx_facts as HF. destruct cx_new as [|s1 [|s2 [|s3 t]]]; try discriminate HF.
  apply andb_prop in HF. destruct HF as [HF K2]. apply andb_prop in HF. destruct HF as [HF V1].
  apply andb_prop in HF. destruct HF as [K1 I1].
  apply Z.eqb_eq in K1, I1, V1, K2.
  unfold cx_css in HE. cbn [EvL] in HE. destruct HE as [HE _]. unfold EvalOK in HE.
  change (slope_of _) with (12, 5) in HE. cbn [fst snd] in HE.
  rewrite K1, K2 in HE. unfold cx_k in *.
  specialize (HE ltac:(lia) ltac:(lia) ltac:(vm_compute; reflexivity)).
  destruct HE as [(t & Et & Ht & [C1 C2])|[C1 _]]; rewrite V1, ?I1, ?K1 in *; lia.
Qed.

Lemma cx_structural :
  std_width cx_c /\ 1 <= c_par cx_c <= 20 /\ c_epsrec cx_c = 0 /\ 0 <= c_eps cx_c /\ c_fdouble cx_c = false /\
  cx_data <> [] /\ sortedb cx_data = true /\ Forall (fun x => in_ktype (c_kt cx_c) x = true) cx_data /\
  last_z cx_data < sentinel cx_c /\ zlen cx_data = 6 /\ hd 0 cx_data <= cx_k <= last_z cx_data.
Proof.
  split; [right; right; right; reflexivity|].
  split; [cbn; lia|]. split; [reflexivity|]. split; [cbn; lia|]. split; [reflexivity|].
  split; [discriminate|]. split; [vm_compute; reflexivity|].
  split; [repeat constructor|]. split; [vm_compute; reflexivity|]. split; [reflexivity|].
  vm_compute. split; discriminate.
Qed.

(* ---- second counterexample: EpsilonRecursive = 1, the query key IS a key of the data ----
   21 keys, Epsilon = 0, EpsilonRecursive = 1, float slopes.  The bottom level has segments starting at
   0, 3, 6, 9, 12 and 3221225485; the upper level fits the first five with exact slope 5/12.  The data
   key 12 + 12*2^28 lies in the key range of that upper segment, beyond its last point: exact position
   1342177285, float computation 1342177253.  So for EpsilonRecursive > 0 "n small and k in data" does
   not give float_ok either: the upper levels need their zone condition (float_ok_bottom_small). *)
Definition cy_c : cfg := mkCfg (mkK 64 false) 0 1 false 1 false.
Definition cy_data : list Z := [0; 1; 3; 5; 6; 7; 9; 11] ++ map (fun j => 12 + j * 2 ^ 28) (zseq 0 13).
Definition cy_k : Z := 12 + 12 * 2 ^ 28.
Definition cy_keys1 : list Z := [0; 3; 6; 9; 12; 3221225485].
Definition cy_css : list cseg :=
  [mkCseg (0, 1) (0, 0) (12, 3) (12, 5) 0;
   mkCseg (3221225485, 6) (3221225485, 4) (3221225486, 5) (3221225486, 7) 3221225485].
Definition cy_fed : list (Z * Z) := [(0, 0); (3, 1); (6, 2); (9, 3); (12, 4); (3221225485, 5); (3221225486, 6)].
Definition cy_new : list segment :=
  match map_res (segment_of_cseg cy_c) cy_css with Ok new => new | Err _ => [] end.

Lemma cy_l0_facts :
  match build_level cy_c (c_eps cy_c) cy_data (zlen cy_data) (last_z cy_data) [] with
  | Ok (segs, ln) =>
      (ln =? 6) &&
      (if list_eq_dec Z.eq_dec (map sg_key (firstn (Z.to_nat ln) (skipn (Z.to_nat 0) segs))) cy_keys1 then true else false)
  | Err _ => false
  end = true.
Proof. vm_compute. reflexivity. Qed.

Lemma cy_M1 : make_segmentation_par (c_kt cy_c) par_threshold (c_par cy_c) (zlen cy_keys1) (c_epsrec cy_c) cy_keys1
              = Ok (cy_css, cy_fed, 2).
Proof. vm_compute. reflexivity. Qed.
Lemma cy_M2_ok : match map_res (segment_of_cseg cy_c) cy_css with Ok _ => true | Err _ => false end = true.
Proof. vm_compute. reflexivity. Qed.
Lemma cy_M2 : map_res (segment_of_cseg cy_c) cy_css = Ok cy_new.
Proof.
  pose proof cy_M2_ok as H. unfold cy_new. destruct (map_res (segment_of_cseg cy_c) cy_css); [reflexivity | discriminate H].
Qed.
Lemma cy_facts :
  match cy_new with
  | [s1; s2] => (sg_key s1 =? 0) && (sg_icpt s1 =? 0) && (seg_eval cy_c s1 cy_k =? 1342177253) && (sg_key s2 =? 3221225485)
  | _ => false
  end = true.
Proof. vm_compute. reflexivity. Qed.

Lemma upper_float_ok_S c f ldk segs offs ln k :
  upper_float_ok c (S f) ldk segs offs ln k =
  (if (c_epsrec c =? 0) || (ln <=? 1) then True else
     let offset := nth (length offs - 2) offs 0 in
     let keys := map sg_key (firstn (Z.to_nat ln) (skipn (Z.to_nat offset) segs)) in
     level_float_ok c (c_epsrec c) keys ldk k /\
     match build_level c (c_epsrec c) keys ln ldk segs with
     | Ok (segs1, ln1) => upper_float_ok c f ldk segs1 (offs ++ [zlen segs1]) ln1 k
     | Err _ => True
     end).
Proof. reflexivity. Qed.

Theorem cy_not_float_ok : ~ float_ok cy_c cy_data cy_k.
Proof.
  intros [_ HU]. pose proof cy_l0_facts as HF0.
  destruct (build_level cy_c (c_eps cy_c) cy_data (zlen cy_data) (last_z cy_data) []) as [[segs ln]|e]; [|discriminate HF0].
  apply andb_prop in HF0. destruct HF0 as [Eln Ekeys]. apply Z.eqb_eq in Eln. subst ln.
  destruct (list_eq_dec Z.eq_dec _ cy_keys1) as [Ek|]; [clear Ekeys|discriminate Ekeys].
  change (length cy_data + 2)%nat with (S 22) in HU. rewrite upper_float_ok_S in HU.
  change ((c_epsrec cy_c =? 0) || (6 <=? 1)) with false in HU. cbv iota zeta in HU.
  change (nth (length [0; zlen segs] - 2) [0; zlen segs] 0) with 0 in HU.
  rewrite Ek in HU. destruct HU as [H1 _].
  change (c_epsrec cy_c) with 1 in H1.
  destruct (H1 cy_css cy_fed 2 cy_new cy_M1 cy_M2) as [HE _]. clear H1.
  pose proof cy_facts as HF. destruct cy_new as [|s1 [|s2 [|s3 t]]]; try discriminate HF.
  apply andb_prop in HF. destruct HF as [HF K2]. apply andb_prop in HF. destruct HF as [HF V1].
  apply andb_prop in HF. destruct HF as [K1 I1].
  apply Z.eqb_eq in K1, I1, V1, K2.
  unfold cy_css in HE. cbn [EvL] in HE. destruct HE as [HE _]. unfold EvalOK in HE.
  change (slope_of _) with (12, 5) in HE. cbn [fst snd] in HE.
  rewrite K1, K2 in HE. unfold cy_k in *.
  specialize (HE ltac:(lia) ltac:(lia) ltac:(vm_compute; reflexivity)).
  destruct HE as [(t & Et & Ht & [C1 C2])|[C1 _]]; rewrite V1, ?I1, ?K1 in *; lia.
Qed.

Lemma cy_structural :
  std_width cy_c /\ 1 <= c_par cy_c <= 20 /\ c_epsrec cy_c = 1 /\ c_eps cy_c = 0 /\ c_fdouble cy_c = false /\
  cy_data <> [] /\ sortedb cy_data = true /\ Forall (fun x => in_ktype (c_kt cy_c) x = true) cy_data /\
  last_z cy_data < sentinel cy_c /\ zlen cy_data = 21 /\ In cy_k cy_data.
Proof.
  split; [right; right; right; reflexivity|].
  split; [cbn; lia|]. split; [reflexivity|]. split; [reflexivity|]. split; [reflexivity|].
  split; [discriminate|]. split; [vm_compute; reflexivity|].
  split; [repeat constructor|]. split; [vm_compute; reflexivity|]. split; [reflexivity|].
  vm_compute. do 20 right. left. reflexivity.
Qed.

Print Assumptions float_ok_of_exact.
Print Assumptions float_ok_double.
Print Assumptions float_ok_bottom_small.
Print Assumptions float_ok_of_small_partial.
Print Assumptions float_ok_of_small_span.
Print Assumptions cx_not_float_ok.
Print Assumptions cy_not_float_ok.

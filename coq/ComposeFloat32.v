(* ComposeFloat32.v — the end-to-end PGMIndex contract for Floating = float with NO hypothesis left
   about the floating-point evaluation: `float_ok` is false for float slopes (FloatOkAll.cx_not_float_ok),
   but the search proofs only need `float_ok_cap` (IdxChain.v), which FloatOkCap.float_ok_cap_float
   proves for every key from a size bound alone (level size + eps <= 2^22 - 1 at every level).
   * build_search_contract_cap: ComposeBuild.build_search_contract from float_ok_cap on this data;
   * index_contract_float (sharp bounds), index_contract_float_sum (one combined bound);
   * index_contract_std: float and double in one statement; C11_mapped_float: the mapped container;
   * cx_contract: the configuration and data of FloatOkAll.cx_not_float_ok (where float_ok is FALSE),
     concluded from index_contract_float, with a vm_compute cross-check of the same search. *)
Require Import Base Fp PlaModel GenLeaf IndexModel IndexProofs IdxChain FloatOk FloatOkAll FloatOkCap
  MappedModel MappedQueries ComposeIdx ComposeBuild ComposeMapped ComposeFloat.
From Coq Require Import ZifyBool.
Local Open Scope Z_scope.

(* the index contract from the floating-point interface in its weakest form, on this data only *)
Theorem build_search_contract_cap c data :
  idx_ok c -> cfg_small c -> data_ok c data -> zlen data <= 2 ^ 30 ->
  (forall k, float_ok_cap c data k) ->
  exists ix, build c data = Ok ix /\
    forall q, q < sentinel c ->
      exists a, search c ix q = Ok a /\
        0 <= a_lo a <= lb data q /\ lb data q <= a_hi a <= zlen data /\
        (In q data -> lb data q < a_hi a) /\ a_hi a - a_lo a <= 2 * c_eps c + 2.
Proof.
  intros Hc Hsm Hd Hn Hf. destruct (build_total c data Hc Hsm Hd Hn) as (ix & E & Hs32).
  exists ix. split; [exact E|]. intros q Hq.
  destruct (search_contract_at_cap c data ix q Hc Hd E Hs32 Hq (Hf _)) as (a & Es & H).
  exists a. split; [exact Es|]. tauto.
Qed.

(* PGMIndex<K, Epsilon, EpsilonRecursive, float> over keys of a standard integer type:
   the constructor succeeds and every search below the reserved value satisfies the contract,
   as soon as n + Epsilon < 2^22 and n + 1 + EpsilonRecursive < 2^22 *)
Theorem index_contract_float c data :
  idx_ok c -> cfg_small c -> std_width c -> c_fdouble c = false -> data_ok c data ->
  zlen data + c_eps c <= 2 ^ 22 - 1 -> zlen data + 1 + c_epsrec c <= 2 ^ 22 - 1 ->
  exists ix, build c data = Ok ix /\
    forall q, q < sentinel c ->
      exists a, search c ix q = Ok a /\
        0 <= a_lo a <= lb data q /\ lb data q <= a_hi a <= zlen data /\
        (In q data -> lb data q < a_hi a) /\ a_hi a - a_lo a <= 2 * c_eps c + 2.
Proof.
  intros Hc Hsm W Hf Hd H1 H2.
  pose proof Hc as [Hb He He64 Hr0 Hr64 Hp]. pose proof Hsm as [Hp20 He31 Hr31].
  pose proof Hd as [Hne Hs Hkt Hlast Hn32].
  apply build_search_contract_cap; try assumption; [lia|].
  intros k. apply float_ok_cap_float; try assumption; lia.
Qed.

Corollary index_contract_float_sum c data :
  idx_ok c -> cfg_small c -> std_width c -> c_fdouble c = false -> data_ok c data ->
  zlen data + c_eps c + c_epsrec c + 4 <= 2 ^ 22 ->
  exists ix, build c data = Ok ix /\
    forall q, q < sentinel c ->
      exists a, search c ix q = Ok a /\
        0 <= a_lo a <= lb data q /\ lb data q <= a_hi a <= zlen data /\
        (In q data -> lb data q < a_hi a) /\ a_hi a - a_lo a <= 2 * c_eps c + 2.
Proof.
  intros Hc Hsm W Hf Hd H. pose proof Hc as [Hb He He64 Hr0 Hr64 Hp].
  apply index_contract_float; try assumption; lia.
Qed.

(* both Floating types *)
Theorem index_contract_std c data :
  idx_ok c -> cfg_small c -> std_width c -> data_ok c data -> zlen data <= 2 ^ 30 ->
  (c_fdouble c = false -> zlen data + c_eps c <= 2 ^ 22 - 1 /\ zlen data + 1 + c_epsrec c <= 2 ^ 22 - 1) ->
  exists ix, build c data = Ok ix /\
    forall q, q < sentinel c ->
      exists a, search c ix q = Ok a /\
        0 <= a_lo a <= lb data q /\ lb data q <= a_hi a <= zlen data /\
        (In q data -> lb data q < a_hi a) /\ a_hi a - a_lo a <= 2 * c_eps c + 2.
Proof.
  intros Hc Hsm W Hd Hn Hfl. destruct (c_fdouble c) eqn:Ef.
  - apply index_contract_double; assumption.
  - destruct (Hfl eq_refl). apply index_contract_float; assumption.
Qed.

(* C11 for MappedPGMIndex over PGMIndex<K, ..., float>: from_range succeeds and the four multiset queries
   are exact *)
Theorem C11_mapped_float c data :
  idx_ok c -> cfg_small c -> std_width c -> c_fdouble c = false -> data_ok c data ->
  zlen data + c_eps c <= 2 ^ 22 - 1 -> zlen data + 1 + c_epsrec c <= 2 ^ 22 - 1 ->
  exists m, from_range c data = Ok m /\ mp_data m = data /\
    forall q, q < sentinel c ->
      mapped_lower_bound c m q = Ok (lb data q) /\
      mapped_upper_bound c m q = Ok (ub data q) /\
      mapped_count c m q = Ok (ub data q - lb data q) /\
      mapped_contains c m q = Ok (existsb (Z.eqb q) data).
Proof.
  intros Hc Hsm W Hf Hd H1 H2.
  pose proof Hc as [Hb He He64 Hr0 Hr64 Hp]. pose proof Hsm as [Hp20 He31 Hr31].
  pose proof Hd as [Hne Hs Hkt Hlast Hn32].
  destruct (build_total c data Hc Hsm Hd ltac:(lia)) as (ix & E & Hs32).
  assert (Em : from_range c data = Ok (mkMapped ix data (serialize c ix data))).
  { unfold from_range. rewrite E. reflexivity. }
  eexists. split; [exact Em|]. split; [reflexivity|]. intros q Hq.
  apply (C11_mapped_at_cap c data _ q Hc Hd Em Hs32 Hq).
  apply float_ok_cap_float; try assumption; lia.
Qed.

(* ---- non-vacuity: the instance of FloatOkAll.cx_not_float_ok ----
   cx_c = PGMIndex<uint64_t, 1, 0, float>, cx_data = [0; 3; 6; 9; 12; 2^40], query cx_k = 3 * 2^30 (absent).
   The first segment evaluates to 1342177248 there: not within 1/2 of the exact line, below 2^32
   (so `float_ok cx_c cx_data cx_k` is false), but above the next intercept 4, which caps it. *)
Lemma cx_idx_ok : idx_ok cx_c.
Proof. constructor; cbn; lia. Qed.
Lemma cx_cfg_small : cfg_small cx_c.
Proof. constructor; cbn; lia. Qed.
Lemma cx_std_width : std_width cx_c.
Proof. right. right. right. reflexivity. Qed.
Lemma cx_data_ok : data_ok cx_c cx_data.
Proof.
  constructor; [discriminate | reflexivity | | vm_compute; reflexivity | vm_compute; reflexivity].
  repeat constructor.
Qed.

Example cx_contract :
  ~ float_ok cx_c cx_data cx_k /\
  exists ix, build cx_c cx_data = Ok ix /\
    exists a, search cx_c ix cx_k = Ok a /\
      0 <= a_lo a <= 5 /\ 5 <= a_hi a <= 6 /\ a_hi a - a_lo a <= 4.
Proof.
  split; [exact cx_not_float_ok|].
  destruct (index_contract_float cx_c cx_data cx_idx_ok cx_cfg_small cx_std_width eq_refl cx_data_ok)
    as (ix & E & H); [vm_compute; discriminate | vm_compute; discriminate |].
  exists ix. split; [exact E|].
  destruct (H cx_k ltac:(vm_compute; reflexivity)) as (a & Es & H1 & H2 & _ & H4).
  exists a. split; [exact Es|].
  change (lb cx_data cx_k) with 5 in H1, H2. change (zlen cx_data) with 6 in H2.
  change (2 * c_eps cx_c + 2) with 4 in H4. auto.
Qed.

(* cross-check: the same search, computed *)
Example cx_search_computed :
  match build cx_c cx_data with Ok ix => search cx_c ix cx_k | Err e => Err e end
  = Ok (mkApprox 4 3 6).
Proof. vm_compute. reflexivity. Qed.

(* a recursive instance: the 21 keys of FloatOkAll.cy_not_float_ok (whose configuration
   PGMIndex<uint64_t, 0, 1, float> is not idx_ok: Epsilon = 0) with Epsilon = 1, EpsilonRecursive = 1;
   the query is a key of the data (the last one) and the index has two levels.  Nothing is claimed
   about float_ok here; the instance where float_ok is known to be false is cx_contract above. *)
Definition cz_c : cfg := mkCfg (mkK 64 false) 1 1 false 1 false.

Lemma cz_idx_ok : idx_ok cz_c.
Proof. constructor; cbn; lia. Qed.
Lemma cz_cfg_small : cfg_small cz_c.
Proof. constructor; cbn; lia. Qed.
Lemma cz_data_ok : data_ok cz_c cy_data.
Proof.
  constructor; [discriminate | reflexivity | | vm_compute; reflexivity | vm_compute; reflexivity].
  apply Forall_forall. intros x Hx. vm_compute in Hx.
  repeat (destruct Hx as [<-|Hx]; [reflexivity|]). contradiction.
Qed.

Example cz_contract :
  exists ix, build cz_c cy_data = Ok ix /\
    exists a, search cz_c ix cy_k = Ok a /\
      0 <= a_lo a <= 20 /\ 20 < a_hi a <= 21 /\ a_hi a - a_lo a <= 4.
Proof.
  destruct (index_contract_float cz_c cy_data cz_idx_ok cz_cfg_small cx_std_width eq_refl cz_data_ok)
    as (ix & E & H); [vm_compute; discriminate | vm_compute; discriminate |].
  exists ix. split; [exact E|].
  destruct (H cy_k ltac:(vm_compute; reflexivity)) as (a & Es & H1 & H2 & H3 & H4).
  exists a. split; [exact Es|].
  assert (Hin : In cy_k cy_data) by (vm_compute; tauto). specialize (H3 Hin).
  change (lb cy_data cy_k) with 20 in H1, H2, H3. change (zlen cy_data) with 21 in H2.
  change (2 * c_eps cz_c + 2) with 4 in H4. split; [exact H1|]. split; [|exact H4]. split; [exact H3 | apply H2].
Qed.

Example cz_search_computed :
  match build cz_c cy_data with Ok ix => search cz_c ix cy_k | Err e => Err e end
  = Ok (mkApprox 20 19 21).
Proof. vm_compute. reflexivity. Qed.

Print Assumptions build_search_contract_cap.
Print Assumptions index_contract_float.
Print Assumptions index_contract_float_sum.
Print Assumptions index_contract_std.
Print Assumptions C11_mapped_float.
Print Assumptions cx_contract.
Print Assumptions cz_contract.

(* IdxFed.v — which points the segmentation drivers feed to the PLA builder.
   Main results: for an Ok result, the fed list of make_segmentation and of make_segmentation_par
   (any parallelism, any threshold) is the SAME list `fed_spec kt data`, and that list consists
   exactly of first-occurrence points, guard points and the closing point. *)
Require Import Base PlaModel PlaSpec IndexProofs.
From Coq Require Import ZifyBool.
Local Open Scope Z_scope.

(* contribution of one element x (predecessor prev, successor nx) at index i *)
Definition pt1 (kt : ktype) (prev x nx i : Z) : list (Z * Z) :=
  if x =? prev then (if x + 1 <? nx then [(wrapK kt (x + 1), i)] else []) else [(x, i)].

(* every element of l, with lookahead nx after the end of l *)
Fixpoint W (kt : ktype) (prev : Z) (l : list Z) (nx : Z) (i : Z) : list (Z * Z) :=
  match l with
  | [] => []
  | x :: tl => pt1 kt prev x (hd nx tl) i ++ W kt x tl nx (i + 1)
  end.

Definition fed_spec (kt : ktype) (d : list Z) : list (Z * Z) :=
  match d with
  | [] => []
  | x0 :: _ => W kt (x0 - 1) d (last d 0) 0 ++ [(wrapK kt (last d 0 + 1), zlen d)]
  end.

(* the points seg_walk feeds *)
Fixpoint walk_pts (kt : ktype) (prev : Z) (l : list Z) (i : Z) : list (Z * Z) :=
  match l with
  | xi :: ((xn :: _) as tl) => pt1 kt prev xi xn i ++ walk_pts kt xi tl (i + 1)
  | _ => []
  end.

Lemma zlen_cons {A} (a : A) l : zlen (a :: l) = zlen l + 1.
Proof. unfold zlen. cbn [length]. lia. Qed.
Lemma zlen_app {A} (l1 l2 : list A) : zlen (l1 ++ l2) = zlen l1 + zlen l2.
Proof. unfold zlen. rewrite app_length. lia. Qed.
Lemma zlen_nil {A} : zlen (@nil A) = 0.
Proof. reflexivity. Qed.
Lemma zlen_ge0 {A} (l : list A) : 0 <= zlen l.
Proof. unfold zlen. lia. Qed.

Lemma walk_pts_W kt l : forall prev y i, walk_pts kt prev (l ++ [y]) i = W kt prev l y i.
Proof.
  induction l as [|x tl IH]; intros prev y i; [reflexivity|].
  cbn [app W]. destruct tl as [|x2 tl'].
  - cbn [app walk_pts W hd]. reflexivity.
  - cbn [app walk_pts hd]. f_equal. apply (IH x y (i + 1)).
Qed.

Lemma W_app kt l1 : forall l2 prev nx i,
  W kt prev (l1 ++ l2) nx i = W kt prev l1 (hd nx l2) i ++ W kt (last l1 prev) l2 nx (i + zlen l1).
Proof.
  induction l1 as [|x tl IH]; intros l2 prev nx i.
  - cbn [app W last]. rewrite zlen_nil. f_equal. lia.
  - cbn [app W]. rewrite IH. rewrite <- app_assoc. f_equal.
    + f_equal. destruct tl; reflexivity.
    + f_equal. rewrite zlen_cons.
      replace (last (x :: tl) prev) with (last tl x) by (clear; revert x; induction tl; intros; cbn [last]; [reflexivity|destruct tl; [reflexivity|apply IHtl]]).
      f_equal. lia.
Qed.

Lemma last_nonempty_default (y : Z) tl d1 d2 : last (y :: tl) d1 = last (y :: tl) d2.
Proof. revert y. induction tl as [|z tl IH]; intros y; [reflexivity|]. cbn [last] in *. apply (IH z). Qed.
Lemma last_cons_default (x : Z) tl prev : last (x :: tl) prev = last tl x.
Proof. destruct tl as [|y tl]; [reflexivity|]. cbn [last]. apply last_nonempty_default. Qed.

(* ---- the monadic driver only prepends to s_fed ---- *)
Lemma feed_fed st x y st' : feed y_size_t st x y = Ok st' -> s_fed st' = (x, y) :: s_fed st.
Proof.
  unfold feed. intros H.
  destruct (add_point y_size_t (s_opt st) x y) as [[ok opt1]|e]; cbn [bind] in H; [|discriminate H].
  destruct ok.
  - injection H as <-. reflexivity.
  - destruct (add_point y_size_t opt1 x y) as [r2|e]; cbn [bind] in H; [|discriminate H].
    injection H as <-. reflexivity.
Qed.

Lemma pt1_feed kt st prev xi xn i st' :
  (if xi =? prev then if xi + 1 <? xn then feed y_size_t st (wrapK kt (xi + 1)) i else Ok st
   else feed y_size_t st xi i) = Ok st' ->
  s_fed st' = rev (pt1 kt prev xi xn i) ++ s_fed st.
Proof.
  unfold pt1. intros H. destruct (xi =? prev).
  - destruct (xi + 1 <? xn).
    + rewrite (feed_fed _ _ _ _ H). reflexivity.
    + injection H as <-. reflexivity.
  - rewrite (feed_fed _ _ _ _ H). reflexivity.
Qed.

Lemma seg_walk_fed kt l : forall prev i st st',
  seg_walk kt prev l i st = Ok st' -> s_fed st' = rev (walk_pts kt prev l i) ++ s_fed st.
Proof.
  induction l as [|xi tl IH]; intros prev i st st' H.
  - cbn [seg_walk] in H. injection H as <-. reflexivity.
  - destruct tl as [|xn tl'].
    + cbn [seg_walk] in H. injection H as <-. reflexivity.
    + cbn [seg_walk] in H. cbn [walk_pts].
      match type of H with bind ?e _ = _ => destruct e as [st1|er] eqn:E1 end;
        cbn [bind] in H; [|discriminate H].
      rewrite (IH _ _ _ _ H). rewrite (pt1_feed _ _ _ _ _ _ _ E1).
      rewrite rev_app_distr. rewrite app_assoc. reflexivity.
Qed.

(* ---- the fed list of one chunk, as a pure function ---- *)
Definition chunk_fed (kt : ktype) (n start : Z) (chunk rest : list Z) : list (Z * Z) :=
  match chunk with
  | [] => []
  | x0 :: tl =>
      let end_ := start + zlen chunk in
      let xl := last chunk 0 in
      let k := run_len xl rest in
      let run_end := end_ - 1 + k in
      [(x0, start)] ++ walk_pts kt x0 tl (start + 1) ++
      (match rev chunk with a :: b :: _ => if negb (a =? b) then [(a, end_ - 1)] else [] | _ => [] end) ++
      (if (end_ <? n) && (run_end + 1 <? n) && (run_end >? start) then
         if xl =? (if k >? 0 then xl else nth (Z.to_nat (zlen chunk - 2)) chunk 0) then
           if xl + 1 <? nth (Z.to_nat k) rest 0 then [(wrapK kt (xl + 1), run_end)] else []
         else []
       else []) ++
      (if run_end + 1 =? n then [(wrapK kt (xl + 1), n)] else [])
  end.

Lemma nth_res_Ok {A} (l : list A) i a d : nth_res l i = Ok a -> nth (Z.to_nat i) l d = a /\ 0 <= i < zlen l.
Proof.
  unfold nth_res. destruct (i <? 0) eqn:E; [discriminate|].
  destruct (nth_error l (Z.to_nat i)) eqn:E1; [|discriminate].
  intros H. injection H as <-. split; [apply nth_error_nth; exact E1|].
  assert (Hn : nth_error l (Z.to_nat i) <> None) by congruence.
  apply nth_error_Some in Hn. unfold zlen. lia.
Qed.

Lemma chunk_fed_eq kt n start eps chunk rest segs fed count :
  make_segmentation_chunk kt n start eps chunk rest = Ok (segs, fed, count) ->
  fed = chunk_fed kt n start chunk rest.
Proof.
  intros H. unfold make_segmentation_chunk in H.
  destruct (pla_init eps) as [opt|e] eqn:Einit; cbn [bind] in H; [|discriminate H].
  destruct chunk as [|x0 tl]; [discriminate H|].
  destruct (feed y_size_t (mkSegst opt [] [] 0) x0 start) as [st1|e] eqn:E1;
    cbn [bind] in H; [|discriminate H].
  apply feed_fed in E1. cbn [s_fed] in E1.
  destruct (seg_walk kt x0 tl (start + 1) st1) as [st2|e] eqn:E2; cbn [bind] in H; [|discriminate H].
  apply seg_walk_fed in E2.
  unfold chunk_fed.
  set (end_ := start + zlen (x0 :: tl)) in *.
  set (xl := last (x0 :: tl) 0) in *.
  set (k := run_len xl rest) in *.
  match type of H with bind ?e _ = _ => destruct e as [st3|er] eqn:E3 end; cbn [bind] in H; [|discriminate H].
  match type of H with bind ?e _ = _ => destruct e as [st4|er] eqn:E4 end; cbn [bind] in H; [|discriminate H].
  match type of H with bind ?e _ = _ => destruct e as [st5|er] eqn:E5 end; cbn [bind] in H; [|discriminate H].
  injection H as _ <- _.
  assert (F3 : s_fed st3 = rev (match rev (x0 :: tl) with
             | a :: b :: _ => if negb (a =? b) then [(a, end_ - 1)] else [] | _ => [] end) ++ s_fed st2).
  { destruct (rev (x0 :: tl)) as [|a [|b r]]; try (injection E3 as <-; reflexivity).
    destruct (negb (a =? b)); [rewrite (feed_fed _ _ _ _ E3); reflexivity | injection E3 as <-; reflexivity]. }
  assert (F5 : s_fed st5 = rev (if end_ - 1 + k + 1 =? n then [(wrapK kt (xl + 1), n)] else []) ++ s_fed st4).
  { destruct (end_ - 1 + k + 1 =? n); [rewrite (feed_fed _ _ _ _ E5); reflexivity | injection E5 as <-; reflexivity]. }
  rewrite F5. clear F5 E5.
  match goal with |- context [if ?c then (if xl =? _ then _ else _) else []] => set (cnd := c) in * end.
  assert (F4 : s_fed st4 = rev (if cnd then
         if xl =? (if k >? 0 then xl else nth (Z.to_nat (zlen (x0 :: tl) - 2)) (x0 :: tl) 0) then
           if xl + 1 <? nth (Z.to_nat k) rest 0 then [(wrapK kt (xl + 1), end_ - 1 + k)] else []
         else [] else []) ++ s_fed st3).
  { destruct cnd; [|injection E4 as <-; reflexivity].
    destruct (k >? 0) eqn:Ek; cbn [bind] in E4.
    - rewrite Z.eqb_refl in *.
      destruct (nth_res rest k) as [nx|e] eqn:En; cbn [bind] in E4; [|discriminate E4].
      destruct (nth_res_Ok _ _ _ 0 En) as [-> _].
      destruct (xl + 1 <? nx); [rewrite (feed_fed _ _ _ _ E4); reflexivity | injection E4 as <-; reflexivity].
    - destruct (nth_res (x0 :: tl) (zlen (x0 :: tl) - 2)) as [pv|e] eqn:Ep; cbn [bind] in E4; [|discriminate E4].
      destruct (nth_res_Ok _ _ _ 0 Ep) as [-> _].
      destruct (xl =? pv); [|injection E4 as <-; reflexivity].
      destruct (nth_res rest k) as [nx|e] eqn:En; cbn [bind] in E4; [|discriminate E4].
      destruct (nth_res_Ok _ _ _ 0 En) as [-> _].
      destruct (xl + 1 <? nx); [rewrite (feed_fed _ _ _ _ E4); reflexivity | injection E4 as <-; reflexivity]. }
  rewrite F4, F3, E2, E1. rewrite !rev_app_distr, !rev_involutive. cbn [rev app].
  rewrite <- !app_assoc. reflexivity.
Qed.

(* ---- runs ---- *)
Definition starts_other (x : Z) (l : list Z) : Prop := match l with [] => True | y :: _ => y <> x end.

Lemma run_len_split x l : exists run rest',
  l = run ++ rest' /\ zlen run = run_len x l /\ Forall (eq x) run /\ starts_other x rest'.
Proof.
  induction l as [|a tl IH].
  - exists [], []. cbn. repeat split; constructor.
  - cbn [run_len]. destruct (a =? x) eqn:E.
    + destruct IH as (run & rest' & -> & Hl & Hall & Hs). exists (a :: run), rest'.
      rewrite zlen_cons. repeat split; [lia| |exact Hs]. constructor; [lia|exact Hall].
    + exists [], (a :: tl). cbn [app starts_other]. repeat split; [constructor|lia].
Qed.

Lemma run_len_app x run rest' : Forall (eq x) run -> starts_other x rest' -> run_len x (run ++ rest') = zlen run.
Proof.
  intros Hall Hs. induction Hall as [|a r Ha _ IH].
  - cbn [app]. destruct rest' as [|y r]; [reflexivity|]. cbn [run_len starts_other] in *.
    destruct (y =? x) eqn:E; [lia|reflexivity].
  - cbn [app run_len]. subst a. rewrite Z.eqb_refl, IH, zlen_cons. lia.
Qed.

Lemma nth_zlen_app {A} (l1 l2 : list A) d : nth (Z.to_nat (zlen l1)) (l1 ++ l2) d = hd d l2.
Proof.
  unfold zlen. rewrite Nat2Z.id. rewrite app_nth2 by lia. rewrite Nat.sub_diag. destruct l2; reflexivity.
Qed.

Lemma W_run kt x run : forall nx i, Forall (eq x) run -> run <> [] ->
  W kt x run nx i = if x + 1 <? nx then [(wrapK kt (x + 1), i + zlen run - 1)] else [].
Proof.
  induction run as [|a r IH]; intros nx i Hall Hne; [contradiction|].
  inversion Hall as [|a' r' Ha Hr]; subst a' r' a. cbn [W]. unfold pt1 at 1. rewrite Z.eqb_refl.
  destruct r as [|b r'].
  - cbn [hd W]. rewrite app_nil_r. rewrite zlen_cons, zlen_nil.
    destruct (x + 1 <? nx); [|reflexivity]. do 2 f_equal. lia.
  - inversion Hr as [|b' r'' Hb _]; subst. cbn [hd].
    destruct (b + 1 <? b) eqn:Ebb; [exfalso; clear -Ebb; lia|]. cbn [app].
    rewrite IH; [|exact Hr|discriminate]. rewrite !zlen_cons.
    destruct (b + 1 <? nx); [|reflexivity]. do 2 f_equal. lia.
Qed.

Lemma rev_hd_last (l : list Z) x : exists r, rev (x :: l) = last l x :: r.
Proof.
  revert x. induction l as [|y l IH] using rev_ind; intros x.
  - exists []. reflexivity.
  - rewrite app_comm_cons, rev_app_distr. cbn [rev app]. rewrite last_last. eexists. reflexivity.
Qed.

Lemma nth_len_cons (l : list Z) x d : nth (length l) (x :: l) d = last l x.
Proof.
  revert x. induction l as [|y l IH]; intros x; [reflexivity|].
  change (nth (length l) (y :: l) d = last (y :: l) x). rewrite IH. symmetry. apply last_cons_default.
Qed.

(* st4 ++ st5 of the model, in terms of the run that continues the chunk *)
Lemma tail_pts kt start end_ xl pv run rest' :
  start < end_ -> Forall (eq xl) run -> starts_other xl rest' ->
  let n := end_ + zlen run + zlen rest' in
  let k := zlen run in
  (if (end_ <? n) && (end_ - 1 + k + 1 <? n) && (end_ - 1 + k >? start) then
     if xl =? (if k >? 0 then xl else pv) then
       if xl + 1 <? nth (Z.to_nat k) (run ++ rest') 0 then [(wrapK kt (xl + 1), end_ - 1 + k)] else []
     else [] else []) ++
  (if end_ - 1 + k + 1 =? n then [(wrapK kt (xl + 1), n)] else [])
  = (if (k =? 0) && (end_ - 1 >? start) && (xl =? pv) && (xl + 1 <? hd xl rest')
     then [(wrapK kt (xl + 1), end_ - 1)] else []) ++
    W kt xl run (hd xl rest') end_ ++
    (match rest' with [] => [(wrapK kt (xl + 1), n)] | _ => [] end).
Proof.
  intros Hse Hall Hso n k. subst k. rewrite nth_zlen_app.
  pose proof (zlen_ge0 run) as Hk0. pose proof (zlen_ge0 rest') as Hr0.
  destruct rest' as [|y r].
  - (* the run reaches the end of the data: closing point only *)
    cbn [hd]. replace (xl + 1 <? xl) with false by lia. rewrite !andb_false_r.
    subst n. rewrite zlen_nil.
    replace (end_ - 1 + zlen run + 1 <? end_ + zlen run + 0) with false by lia.
    rewrite andb_false_r. cbn [andb app].
    replace (end_ - 1 + zlen run + 1 =? end_ + zlen run + 0) with true by lia.
    destruct run as [|a r]; [reflexivity|].
    rewrite W_run; [|exact Hall|discriminate]. replace (xl + 1 <? xl) with false by lia. reflexivity.
  - cbn [hd]. subst n. rewrite zlen_cons in *. pose proof (zlen_ge0 r) as Hr1.
    replace (end_ - 1 + zlen run + 1 =? end_ + zlen run + (zlen r + 1)) with false by lia.
    rewrite !app_nil_r.
    replace (end_ <? end_ + zlen run + (zlen r + 1)) with true by lia.
    replace (end_ - 1 + zlen run + 1 <? end_ + zlen run + (zlen r + 1)) with true by lia.
    cbn [andb].
    destruct run as [|a r0].
    + rewrite zlen_nil. cbn [W]. rewrite app_nil_r. rewrite Z.add_0_r.
      change (0 >? 0) with false. change (0 =? 0) with true. cbn [andb].
      destruct (end_ - 1 >? start); [|reflexivity]. cbn [andb].
      destruct (xl =? pv); reflexivity.
    + rewrite W_run; [|exact Hall|discriminate]. rewrite zlen_cons in *.
      pose proof (zlen_ge0 r0).
      replace (zlen r0 + 1 =? 0) with false by lia. cbn [andb app].
      replace (end_ - 1 + (zlen r0 + 1) >? start) with true by lia.
      replace (zlen r0 + 1 >? 0) with true by lia. rewrite Z.eqb_refl.
      destruct (xl + 1 <? y); [|reflexivity]. do 2 f_equal. lia.
Qed.

Lemma chunk_fed_struct kt start x0 tl run rest' :
  let chunk := x0 :: tl in
  let xl := last chunk 0 in
  Forall (eq xl) run -> starts_other xl rest' ->
  let n := start + zlen chunk + zlen run + zlen rest' in
  chunk_fed kt n start chunk (run ++ rest') =
  W kt (x0 - 1) (chunk ++ run) (hd xl rest') start ++
  (match rest' with [] => [(wrapK kt (xl + 1), n)] | _ => [] end).
Proof.
  intros chunk xl Hall Hso n. unfold chunk_fed. fold chunk. fold xl. subst n.
  rewrite (run_len_app xl run rest' Hall Hso).
  pose proof (zlen_ge0 tl) as Htl0.
  assert (Hzc : zlen chunk = zlen tl + 1) by (unfold chunk; apply zlen_cons).
  rewrite (tail_pts kt start (start + zlen chunk) xl
             (nth (Z.to_nat (zlen chunk - 2)) chunk 0) run rest' ltac:(lia) Hall Hso).
  set (n := start + zlen chunk + zlen run + zlen rest'). set (nx := hd xl rest').
  set (cl := match rest' with [] => [(wrapK kt (xl + 1), n)] | _ :: _ => [] end).
  unfold chunk at 1. cbv iota. change (chunk ++ run) with (x0 :: (tl ++ run)). cbn [W]. unfold pt1 at 1.
  replace (x0 =? x0 - 1) with false by lia.
  rewrite W_app. rewrite <- !app_assoc. cbn [app]. f_equal.
  assert (Hxl : xl = last tl x0) by (unfold xl, chunk; apply last_cons_default).
  rewrite <- Hxl. replace (start + 1 + zlen tl) with (start + zlen chunk) by lia.
  rewrite !app_assoc. f_equal. f_equal. rewrite <- !app_assoc.
  assert (Hcase : tl = [] \/ exists tl' z, tl = tl' ++ [z]).
  { destruct tl as [|t0 tl0]; [left; reflexivity|]. right.
    destruct (@exists_last _ (t0 :: tl0) ltac:(discriminate)) as (tl' & z & Ez). eauto. }
  destruct Hcase as [Etl | (tl' & z & Etl)].
  - unfold chunk in *. subst tl. cbn [walk_pts rev app W]. change (zlen [x0]) with 1.
    replace (start + 1 - 1 >? start) with false by lia.
    rewrite andb_false_r. reflexivity.
  - set (b := last tl' x0).
    assert (Hz : xl = z) by (rewrite Hxl, Etl; apply last_last).
    assert (Hzt : zlen tl = zlen tl' + 1) by (rewrite Etl, zlen_app; reflexivity).
    pose proof (zlen_ge0 tl') as Htl'0.
    destruct (rev_hd_last tl' x0) as (r & Hr). fold b in Hr.
    assert (Hrev : rev chunk = z :: b :: r).
    { unfold chunk. rewrite Etl. rewrite app_comm_cons, rev_app_distr. cbn [rev app] in *. rewrite Hr. reflexivity. }
    assert (Hpv : nth (Z.to_nat (zlen chunk - 2)) chunk 0 = b).
    { replace (Z.to_nat (zlen chunk - 2)) with (length tl') by (unfold zlen in *; lia).
      unfold chunk. rewrite Etl, app_comm_cons. rewrite app_nth1 by (cbn [length]; lia).
      apply nth_len_cons. }
    rewrite Hrev, Hpv, Hz. rewrite Etl at 1 2. rewrite walk_pts_W. rewrite W_app. f_equal.
    cbn [W hd last]. fold b. rewrite app_nil_r. unfold pt1.
    replace (start + zlen chunk - 1) with (start + 1 + zlen tl') by lia.
    replace (start + 1 + zlen tl' >? start) with true by lia. rewrite andb_true_r.
    destruct (z =? b) eqn:Ezb; cbn [negb app andb]; [|rewrite andb_false_r; reflexivity].
    rewrite andb_true_r.
    destruct run as [|a r0].
    + cbn [hd]. rewrite zlen_nil. cbn [Z.eqb andb]. reflexivity.
    + cbn [hd]. inversion Hall as [|a' r' Ha _]; subst a' r'. rewrite zlen_cons.
      pose proof (zlen_ge0 r0). replace (zlen r0 + 1 =? 0) with false by lia.
      replace (z + 1 <? a) with false by lia. reflexivity.
Qed.

(* ---- the sequential driver ---- *)
Theorem make_segmentation_fed kt eps data segs fed count :
  make_segmentation kt (zlen data) eps data = Ok (segs, fed, count) -> fed = fed_spec kt data.
Proof.
  intros H. unfold make_segmentation in H. apply chunk_fed_eq in H. subst fed.
  destruct data as [|x0 tl]; [reflexivity|].
  pose proof (chunk_fed_struct kt 0 x0 tl [] [] ltac:(constructor) I) as Hs.
  cbn zeta in Hs. change (zlen (@nil Z)) with 0 in Hs. rewrite !Z.add_0_r, Z.add_0_l, !app_nil_r in Hs. cbn [hd] in Hs.
  rewrite Hs. unfold fed_spec. reflexivity.
Qed.

(* ---- what remains to be fed from index p on ---- *)
Definition Rem (kt : ktype) (data : list Z) (p : Z) : list (Z * Z) :=
  match skipn (Z.to_nat p) data with
  | [] => []
  | x :: tl => W kt (x - 1) (x :: tl) (last data 0) p ++ [(wrapK kt (last data 0 + 1), zlen data)]
  end.

Lemma fed_spec_Rem kt data : fed_spec kt data = Rem kt data 0.
Proof. unfold fed_spec, Rem. cbn [Z.to_nat skipn]. destruct data; reflexivity. Qed.

Lemma skipn_zlen_app {A} (l1 l2 : list A) : skipn (Z.to_nat (zlen l1)) (l1 ++ l2) = l2.
Proof. unfold zlen. rewrite Nat2Z.id. rewrite skipn_app, skipn_all, Nat.sub_diag. reflexivity. Qed.

Lemma last_app_ne (l1 l2 : list Z) d d' : l2 <> [] -> last (l1 ++ l2) d = last l2 d'.
Proof.
  intros Hne. destruct (exists_last Hne) as (l' & a & ->).
  rewrite app_assoc, !last_last. reflexivity.
Qed.

Lemma last_app_run (c r : list Z) x d : Forall (eq x) r -> c <> [] -> last c d = x -> last (c ++ r) d = x.
Proof.
  intros Hall Hc Hl. destruct r as [|a r] using rev_ind; [rewrite app_nil_r; exact Hl|].
  rewrite app_assoc, last_last. apply Forall_app in Hall. destruct Hall as [_ Ha].
  inversion Ha; subst; reflexivity.
Qed.

Lemma W_first_other kt prev y r nx i : y <> prev -> W kt prev (y :: r) nx i = W kt (y - 1) (y :: r) nx i.
Proof.
  intros Hy. cbn [W]. unfold pt1. replace (y =? prev) with false by lia.
  replace (y =? y - 1) with false by lia. reflexivity.
Qed.

Lemma Rem_step kt data pre x0 tl run2 rest2 :
  let chunk := x0 :: tl in
  let xl := last chunk 0 in
  Forall (eq xl) run2 -> starts_other xl rest2 ->
  data = pre ++ chunk ++ run2 ++ rest2 ->
  Rem kt data (zlen pre) =
  (W kt (x0 - 1) (chunk ++ run2) (hd xl rest2) (zlen pre) ++
   match rest2 with [] => [(wrapK kt (xl + 1), zlen data)] | _ => [] end) ++
  Rem kt data (zlen pre + zlen chunk + zlen run2).
Proof.
  intros chunk xl Hall Hso Hd. unfold Rem.
  assert (S1 : skipn (Z.to_nat (zlen pre)) data = chunk ++ run2 ++ rest2).
  { rewrite Hd. apply skipn_zlen_app. }
  assert (S2 : skipn (Z.to_nat (zlen pre + zlen chunk + zlen run2)) data = rest2).
  { rewrite Hd. rewrite !app_assoc. rewrite <- !zlen_app. apply skipn_zlen_app. }
  rewrite S1, S2. unfold chunk at 1. cbn [app].
  assert (Hlc : last (chunk ++ run2) (x0 - 1) = xl).
  { apply last_app_run; [exact Hall | discriminate |]. unfold xl. apply last_nonempty_default. }
  change (x0 :: tl ++ run2 ++ rest2) with (chunk ++ run2 ++ rest2).
  rewrite app_assoc.
  destruct rest2 as [|y r].
  - rewrite !app_nil_r. cbn [hd].
    assert (Hld : last data 0 = xl).
    { rewrite Hd, app_nil_r. rewrite (last_app_ne pre (chunk ++ run2) 0 (x0 - 1)); [exact Hlc|].
      unfold chunk. discriminate. }
    rewrite Hld. reflexivity.
  - rewrite W_app. cbn [hd]. rewrite Hlc. rewrite app_nil_r.
    rewrite (W_first_other kt xl y r) by exact Hso.
    rewrite zlen_app. rewrite <- !app_assoc. rewrite Z.add_assoc. reflexivity.
Qed.

(* ---- coverage invariant of the chunked driver ---- *)
Definition Cov (data : list Z) (q p : Z) : Prop :=
  exists pre run rest',
    data = pre ++ run ++ rest' /\ zlen pre = q /\ p = q + zlen run /\
    Forall (eq (last pre 0)) run /\ (pre <> [] -> starts_other (last pre 0) rest') /\ (pre = [] -> run = []).

Lemma chunk_Ok_nonempty kt n start eps chunk rest r :
  make_segmentation_chunk kt n start eps chunk rest = Ok r -> chunk <> [].
Proof.
  unfold make_segmentation_chunk. intros H ->.
  destruct (pla_init eps); cbn [bind] in H; discriminate H.
Qed.

Lemma chunk_at kt n eps data pre' c ra s1 f1 c1 :
  data = pre' ++ c ++ ra -> n = zlen data ->
  make_segmentation_chunk kt n (zlen pre') eps c ra = Ok (s1, f1, c1) ->
  exists p', Cov data (zlen pre' + zlen c) p' /\ Rem kt data (zlen pre') = f1 ++ Rem kt data p'.
Proof.
  intros Hd Hn H. pose proof (chunk_Ok_nonempty _ _ _ _ _ _ _ H) as Hne.
  apply chunk_fed_eq in H. destruct c as [|x0 tl]; [contradiction|].
  destruct (run_len_split (last (x0 :: tl) 0) ra) as (run2 & rest2 & Hra & _ & Hall & Hso).
  exists (zlen pre' + zlen (x0 :: tl) + zlen run2). split.
  - exists (pre' ++ x0 :: tl), run2, rest2.
    assert (Hl : last (pre' ++ x0 :: tl) 0 = last (x0 :: tl) 0) by (apply last_app_ne; discriminate).
    rewrite Hl. repeat split; try assumption.
    + rewrite Hd, Hra, <- app_assoc. reflexivity.
    + apply zlen_app.
    + intros _. exact Hso.
    + intros E. apply app_eq_nil in E. destruct E as [_ E]. discriminate E.
  - rewrite (Rem_step kt data pre' x0 tl run2 rest2 Hall Hso) by (rewrite Hd, Hra; reflexivity).
    f_equal. rewrite H. rewrite Hra.
    pose proof (chunk_fed_struct kt (zlen pre') x0 tl run2 rest2 Hall Hso) as Hs. cbn zeta in Hs.
    assert (En : zlen data = zlen pre' + zlen (x0 :: tl) + zlen run2 + zlen rest2).
    { rewrite Hd, Hra, !zlen_app. lia. }
    rewrite Hn, En. rewrite Hs. reflexivity.
Qed.

Lemma skip_run_spec prev run rest' : forall first,
  Forall (eq prev) run -> starts_other prev rest' ->
  skip_run prev (run ++ rest') first = (rest', first + zlen run).
Proof.
  induction run as [|a r IH]; intros first Hall Hso.
  - cbn [app]. rewrite zlen_nil, Z.add_0_r. destruct rest' as [|y t]; [reflexivity|].
    cbn [skip_run starts_other] in *. replace (y =? prev) with false by lia. reflexivity.
  - inversion Hall as [|a' r' Ha Hr]; subst a' r' a. cbn [app skip_run]. rewrite Z.eqb_refl. cbn [negb].
    rewrite IH by assumption. rewrite zlen_cons. f_equal. lia.
Qed.

Lemma nth_res_last_pre (pre l : list Z) : pre <> [] -> nth_res (pre ++ l) (zlen pre - 1) = Ok (last pre 0).
Proof.
  intros Hne. destruct (exists_last Hne) as (p' & a & ->). rewrite last_last.
  rewrite zlen_app. change (zlen [a]) with 1. replace (zlen p' + 1 - 1) with (zlen p') by lia.
  unfold nth_res. pose proof (zlen_ge0 p'). replace (zlen p' <? 0) with false by lia.
  unfold zlen. rewrite Nat2Z.id. rewrite <- app_assoc. rewrite nth_error_app2 by lia.
  rewrite Nat.sub_diag. reflexivity.
Qed.

Lemma slice_pre {A} (pre l : list A) hi : slice (pre ++ l) (zlen pre) hi = firstn (Z.to_nat (hi - zlen pre)) l.
Proof. unfold slice. rewrite skipn_zlen_app. reflexivity. Qed.

Lemma zlen_firstn {A} (l : list A) k : 0 <= k <= zlen l -> zlen (firstn (Z.to_nat k) l) = k.
Proof. intros H. unfold zlen in *. rewrite firstn_length. lia. Qed.

Lemma starts_other_firstn x l k : starts_other x l -> starts_other x (firstn k l).
Proof. destruct l as [|y t]; destruct k; cbn; auto. Qed.

Definition here_res kt n eps data first0 last_ :=
  let chunk0 := slice data first0 last_ in
  if first0 >? 0 then
    do prev <- nth_res data (first0 - 1);
    let '(chunk, first) := skip_run prev chunk0 first0 in
    if first =? last_ then Ok ([], [], 0)
    else make_segmentation_chunk kt n first eps chunk (skipn (Z.to_nat last_) data)
  else make_segmentation_chunk kt n first0 eps chunk0 (skipn (Z.to_nat last_) data).

Lemma skipn_split {A} (l1 l2 : list A) k : zlen l1 <= k ->
  skipn (Z.to_nat k) (l1 ++ l2) = skipn (Z.to_nat (k - zlen l1)) l2.
Proof.
  intros H. unfold zlen in *. rewrite skipn_app. rewrite skipn_all2 by lia. cbn [app].
  f_equal. lia.
Qed.

Lemma here_fed kt n eps data q p last_ s1 f1 c1 :
  Cov data q p -> q < last_ -> last_ <= n -> n = zlen data ->
  here_res kt n eps data q last_ = Ok (s1, f1, c1) ->
  exists p', Cov data last_ p' /\ Rem kt data p = f1 ++ Rem kt data p'.
Proof.
  intros (pre & run & rest' & Hd & Hq & Hp & Hall & Hso & Hnil) Hql Hln Hn H.
  pose proof (zlen_ge0 pre) as Hpre0. pose proof (zlen_ge0 run) as Hrun0.
  pose proof (zlen_ge0 rest') as Hrest0.
  assert (Hnn : n = q + zlen run + zlen rest') by (rewrite Hn, Hd, !zlen_app; lia).
  unfold here_res in H. set (k := last_ - q) in *.
  assert (Esl : slice data q last_ = firstn (Z.to_nat k) run ++ firstn (Z.to_nat k - length run) rest').
  { rewrite Hd, <- Hq, slice_pre. rewrite firstn_app. unfold k. rewrite Hq. reflexivity. }
  assert (Enth : pre <> [] -> nth_res data (q - 1) = Ok (last pre 0)).
  { intros Hne. rewrite Hd, <- Hq. apply nth_res_last_pre. exact Hne. }
  rewrite Esl in H.
  destruct (Z_le_gt_dec k (zlen run)) as [Hk | Hk].
  - (* the run from the previous chunk covers this chunk: skipped *)
    assert (Hpne : pre <> []) by (intros E; rewrite (Hnil E) in Hk; rewrite zlen_nil in Hk; lia).
    assert (Hq0 : 0 < q) by (destruct pre; [contradiction | rewrite <- Hq, zlen_cons; pose proof (zlen_ge0 pre); lia]).
    replace (q >? 0) with true in H by lia.
    rewrite (Enth Hpne) in H. cbn [bind] in H.
    replace (Z.to_nat k - length run)%nat with O in H by (unfold zlen in *; lia).
    cbn [firstn] in H.
    assert (Hfs : Forall (eq (last pre 0)) (firstn (Z.to_nat k) run) /\ Forall (eq (last pre 0)) (skipn (Z.to_nat k) run)).
    { apply Forall_app. rewrite firstn_skipn. exact Hall. }
    destruct Hfs as [Hf Hsk].
    rewrite (skip_run_spec (last pre 0) _ [] q Hf I) in H.
    rewrite zlen_firstn in H by lia. replace (q + k =? last_) with true in H by lia.
    injection H as _ <- _. cbn [app]. exists p. split; [|reflexivity].
    exists (pre ++ firstn (Z.to_nat k) run), (skipn (Z.to_nat k) run), rest'.
    assert (Hl : last (pre ++ firstn (Z.to_nat k) run) 0 = last pre 0)
      by (apply last_app_run; [exact Hf | exact Hpne | reflexivity]).
    rewrite Hl. repeat split.
    + rewrite <- app_assoc. rewrite (app_assoc (firstn _ run)). rewrite firstn_skipn. exact Hd.
    + rewrite zlen_app, zlen_firstn by lia. lia.
    + pose proof (firstn_skipn (Z.to_nat k) run) as E. apply (f_equal zlen) in E.
      rewrite zlen_app, zlen_firstn in E by lia. lia.
    + exact Hsk.
    + intros _. exact (Hso Hpne).
    + intros E. apply app_eq_nil in E. destruct E as [E _]. contradiction.
  - rewrite firstn_all2 in H by (unfold zlen in *; lia).
    set (m := (Z.to_nat k - length run)%nat) in *.
    set (c := firstn m rest') in *.
    assert (Era : skipn (Z.to_nat last_) data = skipn m rest').
    { rewrite Hd, app_assoc. rewrite skipn_split by (rewrite zlen_app; lia).
      f_equal. unfold m, k. rewrite zlen_app. unfold zlen in *. lia. }
    rewrite Era in H.
    assert (Hc : make_segmentation_chunk kt n p eps c (skipn m rest') = Ok (s1, f1, c1)).
    { destruct (q >? 0) eqn:Eq0.
      - assert (Hpne : pre <> []) by (intros E; rewrite E, zlen_nil in Hq; lia).
        rewrite (Enth Hpne) in H. cbn [bind] in H.
        rewrite (skip_run_spec (last pre 0) run c q Hall) in H by (apply starts_other_firstn; exact (Hso Hpne)).
        rewrite <- Hp in H. replace (p =? last_) with false in H by lia. exact H.
      - assert (Hpe : pre = []) by (destruct pre; [reflexivity | rewrite zlen_cons in Hq; pose proof (zlen_ge0 pre); lia]).
        rewrite (Hnil Hpe) in *. cbn [app] in H. rewrite zlen_nil in Hp. replace p with q by lia. exact H. }
    assert (Hzc : zlen c = k - zlen run).
    { unfold c, m. replace (Z.to_nat k - length run)%nat with (Z.to_nat (k - zlen run)) by (unfold zlen; lia).
      apply zlen_firstn. lia. }
    assert (Hzp : zlen (pre ++ run) = p) by (rewrite zlen_app; lia).
    rewrite <- Hzp in Hc.
    destruct (chunk_at kt n eps data (pre ++ run) c (skipn m rest') s1 f1 c1) as (p' & Hcov & Hrem);
      [ | exact Hn | exact Hc | ].
    + rewrite Hd, <- app_assoc. unfold c. rewrite firstn_skipn. reflexivity.
    + exists p'. rewrite Hzp in *. replace (p + zlen c) with last_ in Hcov by lia. split; assumption.
Qed.

Lemma par_chunks_cons kt n eps cs par data i rest :
  par_chunks kt n eps cs par data (i :: rest) =
  (do here <- here_res kt n eps data (i * cs) (if i =? par - 1 then n else i * cs + cs);
   do tl <- par_chunks kt n eps cs par data rest;
   let '(s1, f1, c1) := here in
   let '(s2, f2, c2) := tl in
   Ok (s1 ++ s2, f1 ++ f2, c1 + c2)).
Proof. reflexivity. Qed.

Lemma Cov_end kt data p : Cov data (zlen data) p -> Rem kt data p = [].
Proof.
  intros (pre & run & rest' & Hd & Hq & Hp & _).
  assert (E : zlen data = zlen pre + zlen run + zlen rest') by (rewrite Hd, !zlen_app; lia).
  pose proof (zlen_ge0 run). pose proof (zlen_ge0 rest').
  assert (p = zlen data) as -> by lia.
  unfold Rem, zlen. rewrite Nat2Z.id, skipn_all. reflexivity.
Qed.

Definition bnd (n cs par i : Z) : Z := if i =? par then n else i * cs.

Lemma par_chunks_fed kt n eps cs par data :
  1 <= cs -> par * cs <= n -> n = zlen data ->
  forall m i p segs fed c,
    0 <= i -> i + Z.of_nat m = par -> Cov data (bnd n cs par i) p ->
    par_chunks kt n eps cs par data (zseq i m) = Ok (segs, fed, c) ->
    Rem kt data p = fed.
Proof.
  intros Hcs Hpn Hn. induction m as [|m IH]; intros i p segs fed c Hi Him Hcov H.
  - cbn [zseq par_chunks] in H. injection H as _ <- _.
    unfold bnd in Hcov. replace (i =? par) with true in Hcov by lia. rewrite Hn in Hcov.
    apply Cov_end. exact Hcov.
  - cbn [zseq] in H. rewrite par_chunks_cons in H.
    set (last_ := if i =? par - 1 then n else i * cs + cs) in *.
    destruct (here_res kt n eps data (i * cs) last_) as [[[s1 f1] c1]|e] eqn:Eh; cbn [bind] in H; [|discriminate H].
    destruct (par_chunks kt n eps cs par data (zseq (i + 1) m)) as [[[s2 f2] c2]|e] eqn:Et;
      cbn [bind] in H; [|discriminate H].
    injection H as _ <- _.
    unfold bnd in Hcov. replace (i =? par) with false in Hcov by lia.
    assert (Hlast : last_ = bnd n cs par (i + 1)).
    { unfold last_, bnd. destruct (i =? par - 1) eqn:E1; destruct (i + 1 =? par) eqn:E2; lia. }
    assert (Hlt : i * cs < last_ /\ last_ <= n).
    { unfold last_. destruct (i =? par - 1) eqn:E1; nia. }
    destruct (here_fed kt n eps data (i * cs) p last_ s1 f1 c1 Hcov (proj1 Hlt) (proj2 Hlt) Hn Eh)
      as (p' & Hcov' & Hrem).
    rewrite Hrem. f_equal. rewrite Hlast in Hcov'.
    apply (IH (i + 1) p' s2 f2 c2); [lia | lia | exact Hcov' | exact Et].
Qed.

Theorem make_segmentation_par_fed kt threshold par eps data segs fed count :
  make_segmentation_par kt threshold par (zlen data) eps data = Ok (segs, fed, count) ->
  1 <= par -> fed = fed_spec kt data.
Proof.
  intros H Hpar. unfold make_segmentation_par in H.
  destruct ((par =? 1) || (zlen data <? threshold)) eqn:Eseq.
  - exact (make_segmentation_fed _ _ _ _ _ _ H).
  - assert (Hp2 : 2 <= par) by lia.
    set (n := zlen data) in *. pose proof (zlen_ge0 data) as Hn0. fold n in Hn0.
    set (cs := Z.quot n par) in *.
    assert (Hcs0 : 0 <= cs) by (apply Z.quot_pos; lia).
    assert (Hmul : par * cs <= n) by (apply Z.mul_quot_le; lia).
    assert (Hz : zseq 0 (Z.to_nat par) = 0 :: zseq (0 + 1) (Z.to_nat par - 1)).
    { destruct (Z.to_nat par) as [|k] eqn:Ek; [lia|]. cbn [zseq]. f_equal. f_equal. lia. }
    assert (Hcs : 1 <= cs).
    { destruct (Z_le_gt_dec 1 cs) as [Hc|Hc]; [exact Hc|]. exfalso.
      assert (cs = 0) as E0 by lia. rewrite Hz, par_chunks_cons in H.
      replace (0 =? par - 1) with false in H by lia. rewrite E0 in H.
      unfold here_res in H. cbn [Z.mul Z.add Z.gtb Z.compare] in H.
      destruct (make_segmentation_chunk kt n 0 eps (slice data 0 0) (skipn (Z.to_nat 0) data))
        as [r|e] eqn:Ec; cbn [bind] in H; [|discriminate H].
      apply chunk_Ok_nonempty in Ec. apply Ec. reflexivity. }
    symmetry. rewrite fed_spec_Rem.
    apply (par_chunks_fed kt n eps cs par data Hcs Hmul eq_refl (Z.to_nat par) 0 0 segs fed count);
      [lia | lia | | exact H].
    unfold bnd. replace (0 =? par) with false by lia. cbn [Z.mul].
    exists [], [], data. cbn [app last]. repeat split; try constructor.
    intros C. contradiction.
Qed.

(* ================= index-level description of the fed points ================= *)
Definition dat (l : list Z) (j : Z) : Z := nth (Z.to_nat j) l 0.

Lemma dat_0 a tl : dat (a :: tl) 0 = a.
Proof. reflexivity. Qed.
Lemma dat_S a tl j : 0 <= j -> dat (a :: tl) (j + 1) = dat tl j.
Proof. intros H. unfold dat. replace (Z.to_nat (j + 1)) with (S (Z.to_nat j)) by lia. reflexivity. Qed.

(* the point (x, _) contributed by position j of l (predecessor of l: prev, successor of l: nx) *)
Definition PtAt (kt : ktype) (l : list Z) (prev nx j x : Z) : Prop :=
  let xj := dat l j in
  let pj := if j =? 0 then prev else dat l (j - 1) in
  let nj := if j + 1 <? zlen l then dat l (j + 1) else nx in
  (xj <> pj /\ x = xj) \/ (xj = pj /\ xj + 1 < nj /\ x = wrapK kt (xj + 1)).

Lemma pt1_In kt prev a h i x y :
  In (x, y) (pt1 kt prev a h i) <-> y = i /\ ((a <> prev /\ x = a) \/ (a = prev /\ a + 1 < h /\ x = wrapK kt (a + 1))).
Proof.
  unfold pt1. destruct (a =? prev) eqn:E1.
  - destruct (a + 1 <? h) eqn:E2; cbn [In]; split.
    + intros [E|[]]. injection E as <- <-. split; [reflexivity|]. right. repeat split; lia.
    + intros [-> [[C _]|(_ & _ & ->)]]; [lia|]. left. reflexivity.
    + intros [].
    + intros [_ [[C _]|(_ & C & _)]]; lia.
  - cbn [In]. split.
    + intros [E|[]]. injection E as <- <-. split; [reflexivity|]. left. split; [lia|reflexivity].
    + intros [-> [[_ ->]|(C & _)]]; [left; reflexivity | lia].
Qed.

Lemma PtAt_0 kt a tl prev nx x :
  PtAt kt (a :: tl) prev nx 0 x <->
  ((a <> prev /\ x = a) \/ (a = prev /\ a + 1 < hd nx tl /\ x = wrapK kt (a + 1))).
Proof.
  unfold PtAt. cbn zeta. rewrite dat_0. change (0 =? 0) with true. cbv iota.
  rewrite zlen_cons. destruct tl as [|b tl'].
  - change (zlen (@nil Z)) with 0. cbn [hd]. change (0 + 1 <? 0 + 1) with false. cbv iota. tauto.
  - rewrite zlen_cons. pose proof (zlen_ge0 tl'). replace (0 + 1 <? zlen tl' + 1 + 1) with true by lia.
    cbn [hd]. change (dat (a :: b :: tl') (0 + 1)) with b. tauto.
Qed.

Lemma PtAt_S kt a tl prev nx j x : 0 <= j ->
  PtAt kt (a :: tl) prev nx (j + 1) x <-> PtAt kt tl a nx j x.
Proof.
  intros Hj. unfold PtAt. cbn zeta. rewrite dat_S by lia. rewrite zlen_cons.
  replace (j + 1 =? 0) with false by lia. replace (j + 1 - 1) with j by lia.
  replace (j + 1 + 1 <? zlen tl + 1) with (j + 1 <? zlen tl) by lia.
  rewrite (dat_S a tl (j + 1)) by lia.
  destruct (j =? 0) eqn:E0.
  - assert (j = 0) as -> by lia. rewrite dat_0. reflexivity.
  - assert (Ej : dat (a :: tl) j = dat tl (j - 1)).
    { replace j with (j - 1 + 1) at 1 by lia. apply dat_S. lia. }
    rewrite Ej. reflexivity.
Qed.

Lemma W_In kt l : forall prev nx i x y,
  In (x, y) (W kt prev l nx i) <->
  exists j, 0 <= j < zlen l /\ y = i + j /\ PtAt kt l prev nx j x.
Proof.
  induction l as [|a tl IH]; intros prev nx i x y.
  - cbn [W In]. split; [intros []|]. intros (j & Hj & _). change (zlen (@nil Z)) with 0 in Hj. lia.
  - cbn [W]. rewrite in_app_iff, pt1_In, IH. rewrite zlen_cons. pose proof (zlen_ge0 tl) as Ht.
    split.
    + intros [[-> Hp]|(j & Hj & -> & Hp)].
      * exists 0. split; [lia|]. split; [lia|]. apply PtAt_0. exact Hp.
      * exists (j + 1). split; [lia|]. split; [lia|]. apply PtAt_S; [lia|exact Hp].
    + intros (j & Hj & -> & Hp). destruct (Z.eq_dec j 0) as [->|Hj0].
      * left. split; [lia|]. apply PtAt_0 in Hp. exact Hp.
      * right. exists (j - 1). split; [lia|]. split; [lia|].
        replace j with (j - 1 + 1) in Hp by lia. apply PtAt_S in Hp; [exact Hp|lia].
Qed.

(* ---- sorted lists ---- *)
Lemma sorted_dat_mono l a b : sortedb l = true -> 0 <= a <= b -> b < zlen l -> dat l a <= dat l b.
Proof.
  revert a b. induction l as [|x t IH]; intros a b Hs Hab Hb; [change (zlen (@nil Z)) with 0 in Hb; lia|].
  rewrite zlen_cons in Hb. destruct (Z.eq_dec b 0) as [->|Hb0].
  - replace a with 0 by lia. lia.
  - replace b with (b - 1 + 1) by lia. rewrite dat_S by lia.
    destruct (Z.eq_dec a 0) as [->|Ha0].
    + rewrite dat_0. eapply sortedb_head_le; eauto. apply nth_In. unfold zlen in Hb. lia.
    + replace a with (a - 1 + 1) by lia. rewrite dat_S by lia.
      apply IH; [eapply sortedb_tail; eauto|lia|lia].
Qed.

Lemma lb_unique l q k : sortedb l = true -> 0 <= k <= zlen l ->
  (k = 0 \/ dat l (k - 1) < q) -> (k = zlen l \/ q <= dat l k) -> lb l q = k.
Proof.
  intros Hs Hk H1 H2. destruct (lb_spec l q Hs) as [S1 S2].
  pose proof (lb_nonneg l q) as Hn. pose proof (lb_le_len l q) as Hl.
  destruct (Z.lt_trichotomy (lb l q) k) as [Hlt|[Heq|Hgt]]; [|assumption|]; exfalso.
  - specialize (S2 (lb l q) ltac:(lia)). fold (dat l (lb l q)) in S2.
    destruct H1 as [H1|H1]; [lia|].
    pose proof (sorted_dat_mono l (lb l q) (k - 1) Hs ltac:(lia) ltac:(lia)). lia.
  - specialize (S1 k ltac:(lia)). fold (dat l k) in S1. destruct H2 as [H2|H2]; lia.
Qed.

Lemma last_dat (l : list Z) d : l <> [] -> last l d = dat l (zlen l - 1).
Proof.
  intros Hne. destruct (exists_last Hne) as (l' & a & ->). rewrite last_last.
  unfold dat. rewrite zlen_app. change (zlen [a]) with 1.
  replace (Z.to_nat (zlen l' + 1 - 1)) with (length l') by (unfold zlen; lia).
  rewrite app_nth2 by lia. rewrite Nat.sub_diag. reflexivity.
Qed.

Lemma xs_inc_cons (p : Z * Z) rest :
  xs_increasing rest -> Forall (fun q => fst p < fst q) rest -> xs_increasing (p :: rest).
Proof.
  intros H1 H2. destruct rest as [|q r]; [exact I|]. cbn [xs_increasing]. inversion H2; subst. split; assumption.
Qed.
Lemma xs_inc_snoc l (c : Z * Z) :
  xs_increasing l -> Forall (fun q => fst q < fst c) l -> xs_increasing (l ++ [c]).
Proof.
  induction l as [|a l IH]; intros H1 H2; [exact I|].
  inversion H2 as [|a' l' Ha Hl]; subst. destruct l as [|b l'].
  - cbn [app xs_increasing]. split; [exact Ha | exact I].
  - cbn [app xs_increasing] in *. destruct H1 as [H11 H12]. split; [exact H11|]. apply IH; assumption.
Qed.

Definition nowrap (kt : ktype) (l : list Z) : Prop := forall x, In x l -> wrapK kt (x + 1) = x + 1.

Lemma W_xs kt l : forall prev nx i,
  sortedb (prev :: l) = true -> nowrap kt l ->
  xs_increasing (W kt prev l nx i) /\
  Forall (fun q => prev < fst q /\ hd (fst q) l <= fst q) (W kt prev l nx i).
Proof.
  induction l as [|a tl IH]; intros prev nx i Hs Hw; [split; [exact I | constructor]|].
  assert (Hpa : prev <= a) by (cbn [sortedb] in Hs; lia).
  assert (Hs' : sortedb (a :: tl) = true) by (eapply sortedb_tail; eauto).
  destruct (IH a nx (i + 1) Hs' (fun x Hx => Hw x (or_intror Hx))) as [I1 I2].
  assert (Hrest : Forall (fun q => prev < fst q /\ a <= fst q) (W kt a tl nx (i + 1))).
  { eapply Forall_impl; [|exact I2]. cbn beta. intros q [Hq _]. lia. }
  cbn [W hd]. unfold pt1. destruct (a =? prev) eqn:E1.
  - destruct (a + 1 <? hd nx tl) eqn:E2; cbn [app]; [|split; assumption].
    rewrite (Hw a (or_introl eq_refl)). split.
    + apply xs_inc_cons; [exact I1|]. cbn [fst]. destruct tl as [|b tl']; [constructor|].
      cbn [hd] in *. eapply Forall_impl; [|exact I2]. cbn beta. intros q [_ Hq]. lia.
    + constructor; [cbn [fst]; lia | exact Hrest].
  - cbn [app]. split.
    + apply xs_inc_cons; [exact I1|]. cbn [fst]. eapply Forall_impl; [|exact I2]. cbn beta. intros q [Hq _]. lia.
    + constructor; [cbn [fst]; lia | exact Hrest].
Qed.

(* ---- the three kinds of fed points ---- *)
Definition first_occ (data : list Z) (i : Z) : Prop :=
  0 <= i < zlen data /\ (i = 0 \/ dat data (i - 1) < dat data i).
Definition run_end (data : list Z) (j : Z) : Prop :=
  1 <= j /\ j + 1 < zlen data /\ dat data (j - 1) = dat data j /\ dat data j + 1 < dat data (j + 1).

Definition fed_kind (data : list Z) (p : Z * Z) : Prop :=
  (first_occ data (snd p) /\ fst p = dat data (snd p)) \/
  (run_end data (snd p) /\ fst p = dat data (snd p) + 1) \/
  (fst p = last data 0 + 1 /\ snd p = zlen data).

Lemma dat_In l j : 0 <= j < zlen l -> In (dat l j) l.
Proof. intros H. unfold dat. apply nth_In. unfold zlen in H. lia. Qed.

Section FedSpec.
  Variable kt : ktype.
  Variable data : list Z.
  Hypothesis Hne : data <> [].
  Hypothesis Hs : sortedb data = true.
  Hypothesis Hw : nowrap kt data.

  Let n := zlen data.
  Let x0 := hd 0 data.

  Lemma fed_spec_unfold :
    fed_spec kt data = W kt (x0 - 1) data (last data 0) 0 ++ [(last data 0 + 1, n)].
  Proof.
    assert (E : fed_spec kt data = W kt (x0 - 1) data (last data 0) 0 ++ [(wrapK kt (last data 0 + 1), n)]).
    { unfold fed_spec, x0, n. destruct data; [contradiction|]. reflexivity. }
    rewrite E. rewrite Hw; [reflexivity|]. rewrite last_dat by exact Hne.
    apply dat_In. pose proof (zlen_ge0 data). assert (zlen data <> 0); [|lia].
    destruct data; [contradiction|]. rewrite zlen_cons. pose proof (zlen_ge0 l). lia.
  Qed.

  Lemma n_pos : 1 <= n.
  Proof. unfold n. destruct data; [contradiction|]. rewrite zlen_cons. pose proof (zlen_ge0 l). lia. Qed.

  Lemma dat0 : dat data 0 = x0.
  Proof. unfold x0. destruct data; [contradiction|]. reflexivity. Qed.

  Lemma last_is : last data 0 = dat data (n - 1).
  Proof. apply last_dat. exact Hne. Qed.

  Lemma W_in_aux x y :
    (In (x, y) (W kt (x0 - 1) data (last data 0) 0) \/ In (x, y) [(last data 0 + 1, n)]) <->
    (exists j, 0 <= j < n /\ y = j /\ PtAt kt data (x0 - 1) (last data 0) j x) \/
    (x = last data 0 + 1 /\ y = n).
  Proof.
    rewrite W_In. cbn [In]. split.
    - intros [(j & H1 & H2 & H3)|[E|[]]].
      + left. exists j. split; [exact H1|]. split; [lia | exact H3].
      + right. injection E as <- <-. split; reflexivity.
    - intros [(j & H1 & H2 & H3)|[-> ->]].
      + left. exists j. split; [exact H1|]. split; [lia | exact H3].
      + right. left. reflexivity.
  Qed.

  Lemma fed_In_iff x y :
    In (x, y) (fed_spec kt data) <->
    (exists j, 0 <= j < n /\ y = j /\ PtAt kt data (x0 - 1) (last data 0) j x) \/
    (x = last data 0 + 1 /\ y = n).
  Proof.
    rewrite fed_spec_unfold, in_app_iff, W_in_aux. reflexivity.
  Qed.

  Lemma PtAt_kind j x : 0 <= j < n ->
    (PtAt kt data (x0 - 1) (last data 0) j x <->
     (first_occ data j /\ x = dat data j) \/ (run_end data j /\ x = dat data j + 1)).
  Proof.
    intros Hj. unfold PtAt, first_occ, run_end. cbn zeta. fold n.
    pose proof dat0 as H0. pose proof last_is as Hl.
    assert (Hwj : wrapK kt (dat data j + 1) = dat data j + 1) by (apply Hw, dat_In; exact Hj).
    rewrite Hwj.
    destruct (j =? 0) eqn:Ej0.
    - assert (j = 0) as -> by lia. rewrite H0. split.
      + intros [[_ ->]|[C _]]; [|lia]. left. split; [|reflexivity]. split; [lia|]. left. reflexivity.
      + intros [[_ ->]|[[C _] _]]; [|lia]. left. split; [lia|reflexivity].
    - pose proof (sorted_dat_mono data (j - 1) j Hs ltac:(lia) ltac:(exact (proj2 Hj))) as Hm.
      destruct (j + 1 <? n) eqn:Ejn.
      + split.
        * intros [[A ->]|[A [B ->]]].
          -- left. split; [|reflexivity]. split; [lia|]. right. lia.
          -- right. split; [|reflexivity]. repeat split; lia.
        * intros [[[_ [A|A]] ->]|[[A [B [C D]]] ->]]; [lia| | ].
          -- left. split; [lia|reflexivity].
          -- right. repeat split; lia.
      + rewrite Hl. assert (n - 1 = j) as -> by lia. split.
        * intros [[A ->]|[A [B ->]]]; [|lia].
          left. split; [|reflexivity]. split; [lia|]. right. lia.
        * intros [[[_ [A|A]] ->]|[[A [B [C D]]] ->]]; [lia| |lia].
          left. split; [lia|reflexivity].
  Qed.

  Theorem spec_only p : In p (fed_spec kt data) <-> fed_kind data p.
  Proof.
    destruct p as [x y]. rewrite fed_In_iff. unfold fed_kind. cbn [fst snd]. fold n. split.
    - intros [(j & Hj & -> & Hp)|[-> ->]].
      + apply PtAt_kind in Hp; [|exact Hj]. destruct Hp as [Hp|Hp]; [left | right; left]; exact Hp.
      + right. right. split; reflexivity.
    - intros [[Hf ->]|[[Hr ->]|[-> ->]]].
      + left. exists y. assert (Hy : 0 <= y < n) by (destruct Hf as [Hf _]; exact Hf).
        split; [exact Hy|]. split; [reflexivity|]. apply PtAt_kind; [exact Hy|]. left. split; [exact Hf|reflexivity].
      + left. exists y. assert (Hy : 0 <= y < n) by (destruct Hr as (A & B & _); fold n in B; lia).
        split; [exact Hy|]. split; [reflexivity|]. apply PtAt_kind; [exact Hy|]. right. split; [exact Hr|reflexivity].
      + right. split; reflexivity.
  Qed.

  Theorem spec_first_occ i : first_occ data i -> In (dat data i, i) (fed_spec kt data).
  Proof. intros H. apply spec_only. left. split; [exact H | reflexivity]. Qed.
  Theorem spec_guard j : run_end data j -> In (dat data j + 1, j) (fed_spec kt data).
  Proof. intros H. apply spec_only. right. left. split; [exact H | reflexivity]. Qed.
  Theorem spec_closing : In (last data 0 + 1, n) (fed_spec kt data).
  Proof. apply spec_only. right. right. split; reflexivity. Qed.

  (* ranks of the fed points relative to lower_bound *)
  Theorem spec_lb p : fed_kind data p ->
    (first_occ data (snd p) /\ snd p = lb data (fst p)) \/
    (run_end data (snd p) /\ snd p = lb data (fst p) - 1) \/
    (fst p = last data 0 + 1 /\ snd p = n /\ lb data (fst p) = n).
  Proof.
    destruct p as [x y]. unfold fed_kind. cbn [fst snd]. pose proof n_pos as Hn1. fold n.
    intros [[Hf ->]|[[Hr ->]|[-> ->]]].
    - left. split; [exact Hf|]. symmetry. destruct Hf as [Hy Hf]. fold n in Hy.
      apply lb_unique; [exact Hs | fold n; lia | | right; lia].
      destruct Hf as [Hf|Hf]; [left | right]; exact Hf.
    - right. left. split; [exact Hr|]. destruct Hr as (A & B & C & D). fold n in B.
      rewrite (lb_unique data (dat data y + 1) (y + 1)); [lia | exact Hs | fold n; lia | | ].
      + right. replace (y + 1 - 1) with y by lia. lia.
      + right. lia.
    - right. right. split; [reflexivity|]. split; [reflexivity|].
      apply lb_unique; [exact Hs | fold n; lia | | left; reflexivity].
      right. rewrite last_is. fold n. lia.
  Qed.

  Theorem spec_xs_increasing : xs_increasing (fed_spec kt data).
  Proof.
    rewrite fed_spec_unfold. pose proof n_pos as Hn1. pose proof last_is as Hl.
    assert (Hs1 : sortedb ((x0 - 1) :: data) = true).
    { unfold x0. destruct data as [|a tl]; [contradiction|]. cbn [hd].
      change (sortedb (a - 1 :: a :: tl)) with ((a - 1 <=? a) && sortedb (a :: tl)).
      rewrite Hs. lia. }
    destruct (W_xs kt data (x0 - 1) (last data 0) 0 Hs1 Hw) as [X1 _].
    apply xs_inc_snoc; [exact X1|]. apply Forall_forall. intros [x y] Hin. cbn [fst].
    apply W_In in Hin. destruct Hin as (j & Hj & _ & Hp). fold n in Hj.
    apply PtAt_kind in Hp; [|exact Hj]. rewrite Hl.
    pose proof (sorted_dat_mono data j (n - 1) Hs ltac:(lia) ltac:(fold n; lia)) as Hm.
    destruct Hp as [[_ ->]|[(A & B & C & D) ->]]; [lia|]. fold n in B.
    pose proof (sorted_dat_mono data (j + 1) (n - 1) Hs ltac:(lia) ltac:(fold n; lia)). lia.
  Qed.
End FedSpec.

(* ---- no wrap-around of key+1 ---- *)
Lemma wrapK_id kt z : 1 <= kbits kt -> in_ktype kt z = true -> wrapK kt z = z.
Proof.
  intros Hb H. unfold in_ktype, kmin, kmax in H. unfold wrapK, wrapS, wrapU.
  assert (Hp : 2 ^ kbits kt = 2 * 2 ^ (kbits kt - 1)).
  { replace (kbits kt) with (1 + (kbits kt - 1)) at 1 by lia. rewrite Z.pow_add_r by lia. reflexivity. }
  assert (Hp0 : 0 < 2 ^ (kbits kt - 1)) by (apply Z.pow_pos_nonneg; lia).
  destruct (ksigned kt).
  - rewrite Z.mod_small by lia. lia.
  - apply Z.mod_small. lia.
Qed.

Lemma nowrap_of_ktype kt data : 1 <= kbits kt ->
  Forall (fun x => in_ktype kt x = true /\ x < kmax kt) data -> nowrap kt data.
Proof.
  intros Hb Hall x Hx. rewrite Forall_forall in Hall. destruct (Hall x Hx) as [H1 H2].
  apply wrapK_id; [exact Hb|]. unfold in_ktype in *. lia.
Qed.

Definition fed_props (data : list Z) (fed : list (Z * Z)) : Prop :=
  xs_increasing fed /\
  (forall i, first_occ data i -> In (dat data i, i) fed) /\
  (forall j, run_end data j -> In (dat data j + 1, j) fed) /\
  In (last data 0 + 1, zlen data) fed /\
  (forall p, In p fed -> fed_kind data p) /\
  (forall p, In p fed ->
     (first_occ data (snd p) /\ snd p = lb data (fst p)) \/
     (run_end data (snd p) /\ snd p = lb data (fst p) - 1) \/
     (fst p = last data 0 + 1 /\ snd p = zlen data /\ lb data (fst p) = zlen data)).

Theorem fed_spec_props kt data : data <> [] -> sortedb data = true -> nowrap kt data ->
  fed_props data (fed_spec kt data).
Proof.
  intros Hne Hs Hw. unfold fed_props.
  split; [apply spec_xs_increasing; assumption|].
  split; [intros i; apply spec_first_occ; assumption|].
  split; [intros j; apply spec_guard; assumption|].
  split; [apply spec_closing; assumption|].
  split; [intros p Hp; apply (spec_only kt data Hne Hs Hw); exact Hp|].
  intros p Hp. apply (spec_lb kt data Hne Hs Hw). apply (spec_only kt data Hne Hs Hw). exact Hp.
Qed.

Theorem make_segmentation_fed_props kt eps data segs fed count :
  make_segmentation kt (zlen data) eps data = Ok (segs, fed, count) ->
  data <> [] -> sortedb data = true -> nowrap kt data -> fed_props data fed.
Proof. intros H. rewrite (make_segmentation_fed _ _ _ _ _ _ H). apply fed_spec_props. Qed.

Theorem make_segmentation_par_fed_props kt threshold par eps data segs fed count :
  make_segmentation_par kt threshold par (zlen data) eps data = Ok (segs, fed, count) -> 1 <= par ->
  data <> [] -> sortedb data = true -> nowrap kt data -> fed_props data fed.
Proof. intros H Hp. rewrite (make_segmentation_par_fed _ _ _ _ _ _ _ _ H Hp). apply fed_spec_props. Qed.

(* every fed point has rank in [lb - 1, lb] *)
Corollary fed_props_lb data fed p : fed_props data fed -> In p fed -> lb data (fst p) - 1 <= snd p <= lb data (fst p).
Proof.
  intros (_ & _ & _ & _ & _ & H) Hp. destruct (H p Hp) as [[_ E]|[[_ E]|(_ & E1 & E2)]]; lia.
Qed.

Print Assumptions make_segmentation_fed.
Print Assumptions make_segmentation_par_fed.
Print Assumptions make_segmentation_fed_props.
Print Assumptions make_segmentation_par_fed_props.

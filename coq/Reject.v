(* Reject.v — C20: reserved values and invalid arguments are rejected (decision rules on the models). *)
Require Import Base Fp PlaModel GenLeaf IndexModel DynModel DynSpec MultiModel VariantsModel MappedModel.
From Coq Require Import ZifyBool.
Local Open Scope Z_scope.

(* ---- the segmentation builder ---- *)
Theorem pla_init_rejects_iff eps : pla_init eps = Err ThrowInvalidArgument <-> eps < 0.
Proof.
  unfold pla_init. destruct (eps <? 0) eqn:E; split; intros H; try lia; try reflexivity; discriminate.
Qed.

Theorem add_point_rejects_iff yt s x y :
  add_point yt s x y = Err ThrowLogicError <-> (p_n s > 0 /\ x <= p_last_x s).
Proof.
  unfold add_point.
  destruct ((p_n s >? 0) && (x <=? p_last_x s)) eqn:E.
  - split; [intros _; lia | reflexivity].
  - split; [|intros H; lia].
    intros H. exfalso.
    destruct (band yt (p_eps s) y) as [yu yl].
    destruct (p_n s =? 0); [discriminate|].
    destruct (p_n s =? 1); [discriminate|].
    destruct (slt _ _ || sgt _ _); [discriminate|].
    destruct (if slt (psub (x, yu) (p_r1 s)) (psub (p_r3 s) (p_r1 s)) then _ else _) as [[[a b] c0] d0].
    destruct (if sgt (psub (x, yl) (p_r0 s)) (psub (p_r2 s) (p_r0 s)) then _ else _) as [[[a' b'] c'] d'].
    discriminate.
Qed.

(* add_point never reports an invalid argument; the only exception it can raise is logic_error *)
Lemma add_point_err yt s x y e : add_point yt s x y = Err e -> e = ThrowLogicError.
Proof.
  unfold add_point. intros H.
  destruct ((p_n s >? 0) && (x <=? p_last_x s)); [congruence|].
  destruct (band yt (p_eps s) y) as [yu yl].
  destruct (p_n s =? 0); [discriminate|].
  destruct (p_n s =? 1); [discriminate|].
  destruct (slt _ _ || sgt _ _); [discriminate|].
  destruct (if slt (psub (x, yu) (p_r1 s)) (psub (p_r3 s) (p_r1 s)) then _ else _) as [[[a b] c0] d0].
  destruct (if sgt (psub (x, yl) (p_r0 s)) (psub (p_r2 s) (p_r0 s)) then _ else _) as [[[a' b'] c'] d'].
  discriminate.
Qed.

Lemma feed_err yt st x y e : feed yt st x y = Err e -> e = ThrowLogicError.
Proof.
  unfold feed. intros H.
  destruct (add_point yt (s_opt st) x y) as [[ok opt1]|e1] eqn:E1; cbn [bind] in H.
  - destruct ok; [discriminate|].
    destruct (add_point yt opt1 x y) as [r2|e2] eqn:E2; cbn [bind] in H; [discriminate|].
    injection H as <-. eapply add_point_err; eauto.
  - injection H as <-. eapply add_point_err; eauto.
Qed.

(* ---- PGMIndex::build and every class that calls it ---- *)
Theorem build_rejects_reserved c data :
  data <> [] -> last_z data = sentinel c -> build c data = Err ThrowInvalidArgument.
Proof.
  intros Hne Hl. unfold build.
  assert (zlen data =? 0 = false) as ->.
  { destruct data; [contradiction|]. unfold zlen. cbn [length]. lia. }
  rewrite Hl, Z.eqb_refl. reflexivity.
Qed.

Theorem build_accepts_empty c : build c [] = Ok (mkIndex 0 0 [] []).
Proof. reflexivity. Qed.

Theorem bucketing_rejects_reserved bc data :
  data <> [] -> last_z data = sentinel (b_cfg bc) -> bucketing_build bc data = Err ThrowInvalidArgument.
Proof.
  intros Hne Hl. unfold bucketing_build.
  assert (zlen data =? 0 = false) as ->.
  { destruct data; [contradiction|]. unfold zlen. cbn [length]. lia. }
  rewrite build_rejects_reserved; [reflexivity|assumption|].
  unfold sentinel in *. cbn [c_kt]. exact Hl.
Qed.

Theorem ef_rejects_reserved c wl data :
  data <> [] -> last_z data = sentinel c -> ef_index_build c wl data = Err ThrowInvalidArgument.
Proof.
  intros Hne Hl. unfold ef_index_build.
  assert (zlen data =? 0 = false) as ->.
  { destruct data; [contradiction|]. unfold zlen. cbn [length]. lia. }
  rewrite build_rejects_reserved; [reflexivity|assumption|].
  unfold sentinel in *. cbn [c_kt]. exact Hl.
Qed.

Theorem mapped_range_ctor_rejects_reserved c data :
  data <> [] -> last_z data = sentinel c -> from_range c data = Err ThrowInvalidArgument.
Proof. intros Hne Hl. unfold from_range. rewrite build_rejects_reserved by assumption. reflexivity. Qed.

(* ---- DynamicPGMIndex ---- *)
Section DynReject.
Context {P : Type} (ops : pgmops P).

Theorem insert_rejects_tombstone (d : @dyn P) k t :
  d_tomb d = Some t -> insert_or_assign ops d k t = Err ThrowInvalidArgument.
Proof. intros H. unfold insert_or_assign. rewrite H, Z.eqb_refl. reflexivity. Qed.

Theorem range_rejects_iff_gt (d : @dyn P) lo hi :
  lo > hi -> range ops d lo hi = Err ThrowInvalidArgument.
Proof. intros H. unfold range. assert (lo >? hi = true) as -> by lia. reflexivity. Qed.

Theorem dyn_ctor_rejects_base tomb kmax base bl il :
  2 <= base -> Z.land base (base - 1) <> 0 -> @dyn_ctor P tomb kmax base bl il = Err ThrowInvalidArgument.
Proof.
  intros Hb Hp. unfold dyn_ctor.
  assert (base <? 2 = false) as -> by lia. cbn [andb].
  assert (Z.land base (base - 1) =? 0 = false) as -> by lia. reflexivity.
Qed.

Theorem dyn_ctor_accepts_pow2 tomb kmax base bl il :
  2 <= base -> Z.land base (base - 1) = 0 -> exists d, @dyn_ctor P tomb kmax base bl il = Ok d.
Proof.
  intros Hb Hp. unfold dyn_ctor.
  assert (base <? 2 = false) as -> by lia. cbn [andb].
  rewrite Hp. cbn. eexists. reflexivity.
Qed.

(* an unsorted bulk-load range is rejected at the first descent *)
Lemma dedup_sorted_rejects prev pre k1 v1 k2 v2 post :
  k2 < k1 ->
  (forall a b, dedup_sorted a b = Err ThrowInvalidArgument \/ exists r, dedup_sorted a b = Ok r) ->
  dedup_sorted prev (pre ++ (k1, v1) :: (k2, v2) :: post) = Err ThrowInvalidArgument.
Proof.
  intros Hlt Hall. revert prev. induction pre as [|[k v] pre IH]; intros prev; cbn [app dedup_sorted].
  - destruct (k1 <? prev) eqn:E1; [reflexivity|].
    destruct (k1 =? prev) eqn:E2.
    + assert (k2 <? prev = true) as -> by lia. reflexivity.
    + assert (k2 <? k1 = true) as -> by lia. reflexivity.
  - destruct (k <? prev); [reflexivity|].
    destruct (k =? prev); [apply IH|]. rewrite IH. reflexivity.
Qed.

Lemma dedup_sorted_total prev l :
  dedup_sorted prev l = Err ThrowInvalidArgument \/ exists r, dedup_sorted prev l = Ok r.
Proof.
  revert prev. induction l as [|[k v] l IH]; intros prev; cbn [dedup_sorted]; [right; eexists; reflexivity|].
  destruct (k <? prev); [left; reflexivity|].
  destruct (k =? prev); [apply IH|].
  destruct (IH k) as [-> | [r ->]]; [left; reflexivity | right; eexists; reflexivity].
Qed.

Theorem dyn_bulk_rejects_unsorted tomb kmax base bl il k0 v0 pre k1 v1 k2 v2 post d0 :
  @dyn_ctor P tomb kmax base bl il = Ok d0 -> k2 < k1 ->
  dyn_bulk ops tomb kmax ((k0, v0) :: pre ++ (k1, v1) :: (k2, v2) :: post) base bl il = Err ThrowInvalidArgument.
Proof.
  intros Hc Hlt. unfold dyn_bulk. rewrite Hc. cbn [bind].
  rewrite (dedup_sorted_rejects k0 pre k1 v1 k2 v2 post Hlt dedup_sorted_total). reflexivity.
Qed.

End DynReject.

(* ---- MultidimensionalPGMIndex ---- *)
Theorem multi_rejects_wide m points p x :
  In p points -> In x p -> BIT_WIDTH x >= field_bits m -> multi_build m points = Err ThrowRuntimeError.
Proof.
  intros Hp Hx Hw. unfold multi_build.
  assert (existsb (fun p0 => existsb (fun x0 => BIT_WIDTH x0 >=? field_bits m) p0) points = true) as ->.
  { apply existsb_exists. exists p. split; [assumption|].
    apply existsb_exists. exists x. split; [assumption|lia]. }
  reflexivity.
Qed.


(* ---- converse: nothing else makes build report an invalid argument ---- *)
Definition not_inv {A} (r : res A) : Prop := r <> Err ThrowInvalidArgument.

Lemma bind_not_inv {A B} (r : res A) (f : A -> res B) :
  not_inv r -> (forall a, r = Ok a -> not_inv (f a)) -> not_inv (bind r f).
Proof.
  unfold not_inv. intros Hr Hf. destruct r as [a|e]; cbn [bind]; [apply Hf; reflexivity|].
  intros H. apply Hr. injection H as ->. reflexivity.
Qed.

Lemma feed_not_inv yt st x y : not_inv (feed yt st x y).
Proof. unfold not_inv. intros H. apply feed_err in H. discriminate. Qed.

Lemma nth_res_not_inv {A} (l : list A) i : not_inv (nth_res l i).
Proof.
  unfold not_inv, nth_res. destruct (i <? 0); [discriminate|].
  destruct (nth_error l (Z.to_nat i)); discriminate.
Qed.

Lemma seg_walk_not_inv kt prev l i st : not_inv (seg_walk kt prev l i st).
Proof.
  revert prev i st. induction l as [|xi tl IH]; intros prev i st; cbn [seg_walk]; [discriminate|].
  destruct tl as [|xn tl']; [discriminate|].
  apply bind_not_inv.
  - destruct (xi =? prev); [destruct (xi + 1 <? xn); [apply feed_not_inv|discriminate]|apply feed_not_inv].
  - intros a _. apply IH.
Qed.

Lemma chunk_not_inv kt n start eps chunk rest :
  0 <= eps -> not_inv (make_segmentation_chunk kt n start eps chunk rest).
Proof.
  intros He. unfold make_segmentation_chunk, pla_init.
  assert (eps <? 0 = false) as -> by lia. cbn [bind].
  destruct chunk as [|x0 tl]; [discriminate|].
  apply bind_not_inv; [apply feed_not_inv|]. intros st1 _.
  apply bind_not_inv; [apply seg_walk_not_inv|]. intros st2 _.
  apply bind_not_inv.
  { destruct (rev (x0 :: tl)) as [|a [|b r]]; try discriminate.
    destruct (negb (a =? b)); [apply feed_not_inv|discriminate]. }
  intros st3 _.
  apply bind_not_inv.
  { destruct (_ && _ && _); [|discriminate].
    apply bind_not_inv.
    - destruct (_ >? 0); [discriminate|apply nth_res_not_inv].
    - intros prev _. destruct (_ =? prev); [|discriminate].
      apply bind_not_inv; [apply nth_res_not_inv|]. intros nx _.
      destruct (_ <? nx); [apply feed_not_inv|discriminate]. }
  intros st4 _.
  apply bind_not_inv.
  { destruct (_ =? n); [apply feed_not_inv|discriminate]. }
  intros st5 _. discriminate.
Qed.

Lemma par_chunks_not_inv kt n eps cs par data is_ :
  0 <= eps -> not_inv (par_chunks kt n eps cs par data is_).
Proof.
  intros He. induction is_ as [|i rest IH]; cbn [par_chunks]; [discriminate|].
  apply bind_not_inv.
  - destruct (i * cs >? 0).
    + apply bind_not_inv; [apply nth_res_not_inv|]. intros prev _.
      destruct (skip_run prev _ _) as [chunk first].
      destruct (first =? _); [discriminate|apply chunk_not_inv; assumption].
    + apply chunk_not_inv; assumption.
  - intros here _. apply bind_not_inv; [exact IH|]. intros tl _.
    destruct here as [[s1 f1] c1]. destruct tl as [[s2 f2] c2]. discriminate.
Qed.

Lemma par_not_inv kt th par n eps data : 0 <= eps -> not_inv (make_segmentation_par kt th par n eps data).
Proof.
  intros He. unfold make_segmentation_par.
  destruct (_ || _); [apply chunk_not_inv; assumption | apply par_chunks_not_inv; assumption].
Qed.

Lemma map_res_seg_not_inv c l : not_inv (map_res (segment_of_cseg c) l).
Proof.
  induction l as [|a t IH]; cbn [map_res]; [discriminate|].
  apply bind_not_inv.
  - unfold not_inv, segment_of_cseg. destruct (cseg_line a (c_first a)) as [sl icpt].
    destruct (icpt >? 2 ^ 32 - 1); [discriminate|]. destruct (icpt <? 0); discriminate.
  - intros b _. apply bind_not_inv; [exact IH|]. intros bs _. discriminate.
Qed.

Lemma build_level_not_inv c eps keys last_n ldk segs :
  0 <= eps -> not_inv (build_level c eps keys last_n ldk segs).
Proof.
  intros He. unfold build_level.
  apply bind_not_inv; [apply par_not_inv; assumption|]. intros [[css fed] ns] _.
  apply bind_not_inv; [apply map_res_seg_not_inv|]. intros new _.
  destruct (_ =? sentinel c); [discriminate|]. discriminate.
Qed.

Lemma build_upper_not_inv c fuel ldk segs offs last_n :
  0 <= c_epsrec c -> not_inv (build_upper c fuel ldk segs offs last_n).
Proof.
  intros He. revert segs offs last_n. induction fuel as [|k IH]; intros segs offs last_n; cbn [build_upper].
  - destruct (_ || _); discriminate.
  - destruct (_ || _); [discriminate|].
    apply bind_not_inv; [apply build_level_not_inv; assumption|]. intros [segs1 last_n1] _. apply IH.
Qed.

Theorem build_rejects_only_reserved c data :
  0 <= c_eps c -> 0 <= c_epsrec c ->
  build c data = Err ThrowInvalidArgument -> data <> [] /\ last_z data = sentinel c.
Proof.
  intros He Hr H. unfold build in H.
  destruct (zlen data =? 0) eqn:En; [discriminate|].
  destruct (last_z data =? sentinel c) eqn:El.
  - split; [intros ->; discriminate | lia].
  - exfalso. revert H. fold (not_inv (A:=index)).
    change (not_inv (bind (build_level c (c_eps c) data (zlen data) (last_z data) [])
      (fun r => let '(segs, last_n) := r in
         bind (build_upper c (length data + 2) (last_z data) segs [0; zlen segs] last_n)
              (fun r2 => Ok (mkIndex (zlen data) (hd 0 data) (fst r2) (snd r2)))))).
    apply bind_not_inv; [apply build_level_not_inv; assumption|]. intros [segs last_n] _.
    apply bind_not_inv; [apply build_upper_not_inv; assumption|]. intros r2 _. discriminate.
Qed.

Theorem build_rejects_iff c data :
  0 <= c_eps c -> 0 <= c_epsrec c ->
  (build c data = Err ThrowInvalidArgument <-> data <> [] /\ last_z data = sentinel c).
Proof.
  intros He Hr. split; [apply build_rejects_only_reserved; assumption|].
  intros [Hne Hl]. apply build_rejects_reserved; assumption.
Qed.

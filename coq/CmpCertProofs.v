(* CmpCertProofs.v — soundness of the run-time certificate of CmpCertDefs.v:
   cmp_cert_b c data cp = true lifts the contract of C08 from the representative queries to EVERY query
   below the sentinel. *)
From Coq Require Import ZArith Lia Bool List ZifyBool.
Require Import Base Fp PlaModel GenLeaf IndexModel CompressedModel CmpCertDefs CmpMono CmpCertFast.
Local Open Scope Z_scope.

(* ---------- A. the instrumented search is the search ---------- *)
Lemma csearch_levels_tr_fst c cp ls : forall pos key k,
  csearch_levels c cp ls pos key k = (do r <- csearch_levels_tr c cp ls pos key k; Ok (fst r)).
Proof.
  induction ls as [|l rest IH]; intros pos key k; [reflexivity|].
  cbn [csearch_levels csearch_levels_tr]. fold (cstep_idx c l pos key k).
  destruct (cstep_idx c l pos key k) as [i|e]; cbn [bind]; [|reflexivity].
  unfold cstep_eval.
  destruct (cl_eval c (cp_table cp) l i k) as [e|]; cbn [bind]; [|reflexivity].
  destruct (cl_get_intercept l (i + 1)) as [nx|]; cbn [bind]; [|reflexivity].
  rewrite IH. destruct (csearch_levels_tr c cp rest (Z.min e (wrapU 64 nx)) key k) as [r|]; reflexivity.
Qed.

Theorem compressed_search_trace_fst c cp q :
  compressed_search c cp q = (do r <- compressed_search_trace c cp q; Ok (fst r)).
Proof.
  unfold compressed_search, compressed_search_trace, compressed_pos_trace, approx_of_pos.
  destruct (c_epsrec c =? 0).
  - destruct (cp_levels cp) as [|l ls]; [reflexivity|]. unfold cstep_eval.
    destruct (cl_eval _ _ _ _ _) as [e|]; cbn [bind]; [|reflexivity].
    destruct (cl_get_intercept _ _) as [nx|]; cbn [bind]; reflexivity.
  - fold (croot_pos c cp (Z.max (cp_first_key cp) q)). rewrite csearch_levels_tr_fst.
    destruct (csearch_levels_tr _ _ _ _ _ _) as [r|]; reflexivity.
Qed.

Corollary compressed_search_trace_iff c cp q a :
  compressed_search c cp q = Ok a <-> exists tr, compressed_search_trace c cp q = Ok (a, tr).
Proof.
  rewrite compressed_search_trace_fst. destruct (compressed_search_trace c cp q) as [[a' tr]|e]; cbn [bind fst].
  - split; [intros H; injection H as <-; now exists tr|intros [tr' H]; now injection H as <- <-].
  - split; [discriminate|intros [tr' H]; discriminate].
Qed.

(* ---------- B. the choice of the segment index ---------- *)
(* B1. the forward scan *)
Definition scan_spec (keys : list Z) (lo key i : Z) : Prop :=
  lo <= i /\
  (forall j, lo <= j < i -> exists v, nth_res keys (j + 1) = Ok v /\ v <= key) /\
  (exists v, nth_res keys (i + 1) = Ok v /\ key < v).

Lemma scan_sound keys key i : forall fuel lo,
  clinear_scan fuel keys lo key = Ok i -> scan_spec keys lo key i /\ i - lo < Z.of_nat fuel.
Proof.
  induction fuel as [|f IH]; intros lo H; [discriminate|].
  cbn [clinear_scan] in H. destruct (nth_res keys (lo + 1)) as [nx|] eqn:E; cbn [bind] in H; [|discriminate].
  destruct (nx <=? key) eqn:C.
  - destruct (IH _ H) as [(A & B & D) F]. split; [|lia]. split; [lia|]. split; [|exact D].
    intros j Hj. destruct (Z.eq_dec j lo) as [->|N]; [exists nx; split; [exact E|lia]|]. apply B. lia.
  - injection H as <-. split; [|lia]. split; [lia|]. split; [intros j Hj; lia|].
    exists nx. split; [exact E|lia].
Qed.

Lemma scan_complete keys key i : forall fuel lo,
  scan_spec keys lo key i -> i - lo < Z.of_nat fuel -> clinear_scan fuel keys lo key = Ok i.
Proof.
  induction fuel as [|f IH]; intros lo (A & B & D) F; [lia|].
  cbn [clinear_scan]. destruct (Z.eq_dec lo i) as [->|N].
  - destruct D as (v & E & L). rewrite E. cbn [bind]. assert (v <=? key = false) as -> by lia. reflexivity.
  - destruct (B lo) as (v & E & L); [lia|]. rewrite E. cbn [bind]. assert (v <=? key = true) as -> by lia.
    apply IH; [|lia]. split; [lia|]. split; [|exact D]. intros j Hj. apply B. lia.
Qed.

Lemma scan_lift keys fuel lo1 lo lo2 r1 q r2 i fuel2 :
  lo1 <= lo <= lo2 -> r1 <= q <= r2 ->
  clinear_scan fuel keys lo1 r1 = Ok i -> clinear_scan fuel2 keys lo2 r2 = Ok i ->
  clinear_scan fuel keys lo q = Ok i.
Proof.
  intros Hlo Hq H1 H2.
  destruct (scan_sound _ _ _ _ _ H1) as [(A1 & B1 & D1) F1].
  destruct (scan_sound _ _ _ _ _ H2) as [(A2 & B2 & D2) F2].
  apply scan_complete; [|lia]. split; [lia|]. split.
  - intros j Hj. destruct (B1 j) as (v & E & L); [lia|]. exists v. split; [exact E|lia].
  - destruct D2 as (v & E & L). exists v. split; [exact E|lia].
Qed.

(* B2. upper_bound over a window *)
Lemma nth_res_cons0 {A} (x : A) t : nth_res (x :: t) 0 = Ok x.
Proof. reflexivity. Qed.
Lemma nth_res_consS {A} (x : A) t j : 0 < j -> nth_res (x :: t) j = nth_res t (j - 1).
Proof.
  intros H. unfold nth_res. assert (j <? 0 = false) as -> by lia. assert (j - 1 <? 0 = false) as -> by lia.
  replace (Z.to_nat j) with (S (Z.to_nat (j - 1))) by lia. reflexivity.
Qed.
Lemma zlen_cons {A} (x : A) t : zlen (x :: t) = 1 + zlen t.
Proof. unfold zlen. cbn [length]. lia. Qed.
Lemma zlen_nonneg {A} (l : list A) : 0 <= zlen l.
Proof. unfold zlen. lia. Qed.

Lemma ub_sound l k :
  0 <= ub l k <= zlen l /\
  (forall j, 0 <= j < ub l k -> exists v, nth_res l j = Ok v /\ v <= k) /\
  (ub l k = zlen l \/ exists v, nth_res l (ub l k) = Ok v /\ k < v).
Proof.
  induction l as [|x t IH]; cbn [ub].
  - split; [unfold zlen; cbn; lia|]. split; [intros j Hj; lia|now left].
  - rewrite zlen_cons. pose proof (zlen_nonneg t). destruct (x <=? k) eqn:C.
    + destruct IH as (A & B & D). split; [lia|]. split.
      * intros j Hj. destruct (Z.eq_dec j 0) as [->|N]; [exists x; split; [reflexivity|lia]|].
        rewrite nth_res_consS by lia. apply B. lia.
      * destruct D as [D|(v & E & L)]; [left; lia|right]. exists v. rewrite nth_res_consS by lia.
        replace (1 + ub t k - 1) with (ub t k) by lia. split; [exact E|exact L].
    + split; [lia|]. split; [intros j Hj; lia|right]. exists x. split; [reflexivity|lia].
Qed.

Lemma ub_complete l k : forall m,
  0 <= m <= zlen l ->
  (forall j, 0 <= j < m -> exists v, nth_res l j = Ok v /\ v <= k) ->
  (m = zlen l \/ exists v, nth_res l m = Ok v /\ k < v) ->
  ub l k = m.
Proof.
  induction l as [|x t IH]; intros m Hm B D; cbn [ub].
  - unfold zlen in Hm. cbn in Hm. lia.
  - rewrite zlen_cons in *. pose proof (zlen_nonneg t). destruct (Z.eq_dec m 0) as [->|N].
    + destruct D as [D|(v & E & L)]; [lia|]. rewrite nth_res_cons0 in E. injection E as ->.
      assert (v <=? k = false) as -> by lia. reflexivity.
    + destruct (B 0) as (v & E & L); [lia|]. rewrite nth_res_cons0 in E. injection E as ->.
      assert (v <=? k = true) as -> by lia. rewrite (IH (m - 1)); [lia|lia| |].
      * intros j Hj. destruct (B (j + 1)) as (w & E & Lw); [lia|]. rewrite nth_res_consS in E by lia.
        replace (j + 1 - 1) with j in E by lia. now exists w.
      * destruct D as [D|(w & E & Lw)]; [left; lia|right]. rewrite nth_res_consS in E by lia. now exists w.
Qed.

Lemma nth_res_skipn {A} (l : list A) (a : nat) j : 0 <= j -> nth_res (skipn a l) j = nth_res l (Z.of_nat a + j).
Proof.
  intros Hj. unfold nth_res. assert (j <? 0 = false) as -> by lia.
  assert (Z.of_nat a + j <? 0 = false) as -> by lia.
  replace (Z.to_nat (Z.of_nat a + j)) with (a + Z.to_nat j)%nat by lia.
  generalize (Z.to_nat j) as n. revert l. induction a as [|a IH]; intros l n; [reflexivity|].
  destruct l as [|x t]; [cbn; now destruct n|]. cbn [skipn Nat.add nth_error]. apply IH.
Qed.
Lemma nth_res_firstn {A} (l : list A) (n : nat) j : j < Z.of_nat n -> nth_res (firstn n l) j = nth_res l j.
Proof.
  intros Hj. unfold nth_res. destruct (j <? 0) eqn:E; [reflexivity|].
  assert (Hn : (Z.to_nat j < n)%nat) by lia. revert Hn. generalize (Z.to_nat j) as m. clear.
  revert l. induction n as [|n IH]; intros l m Hm; [lia|].
  destruct l as [|x t]; [reflexivity|]. destruct m as [|m]; [reflexivity|]. cbn [firstn nth_error]. apply IH. lia.
Qed.
Lemma nth_res_slice {A} (l : list A) lo hi j :
  0 <= lo -> 0 <= j < hi - lo -> nth_res (slice l lo hi) j = nth_res l (lo + j).
Proof.
  intros Hlo Hj. unfold slice. rewrite nth_res_firstn by lia. rewrite nth_res_skipn by lia. f_equal. lia.
Qed.
Lemma zlen_slice {A} (l : list A) lo hi : 0 <= lo <= hi -> hi <= zlen l -> zlen (slice l lo hi) = hi - lo.
Proof.
  intros H1 H2. unfold slice, zlen in *. rewrite firstn_length, skipn_length. lia.
Qed.

Lemma ub_range_lift K lo1 hi1 k1 lo hi k lo2 hi2 k2 m :
  0 <= lo1 -> lo1 <= lo <= lo2 -> hi1 <= hi <= hi2 -> lo1 <= hi1 -> lo2 <= hi2 -> hi2 <= zlen K ->
  k1 <= k <= k2 ->
  ub_range K lo1 hi1 k1 = m -> ub_range K lo2 hi2 k2 = m ->
  lo <= hi /\ ub_range K lo hi k = m.
Proof.
  intros H0 Hlo Hhi W1 W2 Hz Hk E1 E2. unfold ub_range in *.
  destruct (ub_sound (slice K lo1 hi1) k1) as (A1 & B1 & D1).
  destruct (ub_sound (slice K lo2 hi2) k2) as (A2 & B2 & D2).
  rewrite zlen_slice in * by lia.
  set (u1 := ub (slice K lo1 hi1) k1) in *. set (u2 := ub (slice K lo2 hi2) k2) in *.
  assert (Hm : lo <= m <= hi) by lia. split; [lia|].
  rewrite (ub_complete (slice K lo hi) k (m - lo)); [lia| | |].
  - rewrite zlen_slice by lia. lia.
  - intros j Hj. destruct (B1 (lo + j - lo1)) as (v & E & L); [lia|].
    rewrite nth_res_slice in E by lia. rewrite nth_res_slice by lia.
    replace (lo1 + (lo + j - lo1)) with (lo + j) in E by lia. exists v. split; [exact E|lia].
  - rewrite zlen_slice by lia. destruct (Z.eq_dec m hi) as [->|N]; [left; lia|right].
    destruct D2 as [D2|(v & E & L)]; [lia|].
    rewrite nth_res_slice in E by lia. rewrite nth_res_slice by lia.
    replace (lo2 + u2) with (lo + (m - lo)) in E by lia. exists v. split; [exact E|lia].
Qed.

(* B3. one level: the index chosen by a query between the two end points *)
Lemma cstep_idx_lift c l p1 p p2 r1 q r2 k1 k k2 i :
  p1 <= p <= p2 -> r1 <= q <= r2 -> k1 <= k <= k2 ->
  cstep_idx c l p1 r1 k1 = Ok i -> cstep_idx c l p2 r2 k2 = Ok i ->
  cstep_idx c l p q k = Ok i.
Proof.
  intros Hp Hq Hk. unfold cstep_idx.
  pose proof (PGM_SUB_EPS_mono p1 p (c_epsrec c + 1) ltac:(lia)) as L1.
  pose proof (PGM_SUB_EPS_mono p p2 (c_epsrec c + 1) ltac:(lia)) as L2.
  destruct (c_epsrec c <=? _).
  - intros H1 H2. eapply scan_lift; [| |exact H1|exact H2]; lia.
  - pose proof (PGM_ADD_EPS_mono p1 p (c_epsrec c) (cl_size l) ltac:(lia)) as U1.
    pose proof (PGM_ADD_EPS_mono p p2 (c_epsrec c) (cl_size l) ltac:(lia)) as U2.
    pose proof (PGM_SUB_EPS_nonneg p1 (c_epsrec c + 1)) as N1.
    set (lo1 := PGM_SUB_EPS p1 _) in *. set (lo := PGM_SUB_EPS p _) in *. set (lo2 := PGM_SUB_EPS p2 _) in *.
    set (hi1 := PGM_ADD_EPS p1 _ _) in *. set (hi := PGM_ADD_EPS p _ _) in *. set (hi2 := PGM_ADD_EPS p2 _ _) in *.
    destruct ((hi1 >? zlen (cl_keys l)) || (hi1 <? lo1)) eqn:G1; [discriminate|].
    destruct ((hi2 >? zlen (cl_keys l)) || (hi2 <? lo2)) eqn:G2; [discriminate|].
    intros H1 H2. injection H1 as H1. injection H2 as H2.
    destruct (ub_range_lift (cl_keys l) lo1 hi1 k1 lo hi k lo2 hi2 k2 (i + 1)) as [W E]; try lia.
    assert ((hi >? zlen (cl_keys l)) || (hi <? lo) = false) as -> by lia.
    f_equal. lia.
Qed.

Lemma csearch_levels_tr_inv c cp l rest pos key k f tr :
  csearch_levels_tr c cp (l :: rest) pos key k = Ok (f, tr) ->
  exists i pn tr', cstep_idx c l pos key k = Ok i /\ cstep_eval c cp l i k = Ok pn /\
                   csearch_levels_tr c cp rest pn key k = Ok (f, tr') /\ tr = i :: tr'.
Proof.
  cbn [csearch_levels_tr]. destruct (cstep_idx c l pos key k) as [i|] eqn:E1; cbn [bind]; [|discriminate].
  destruct (cstep_eval c cp l i k) as [pn|] eqn:E2; cbn [bind]; [|discriminate].
  destruct (csearch_levels_tr c cp rest pn key k) as [[f' tr']|] eqn:E3; cbn [bind fst snd]; [|discriminate].
  intros H. injection H as <- <-. exists i, pn, tr'. repeat split; assumption.
Qed.

Section Lift.
Variables (c : cfg) (cp : compressed).
Hypothesis Hu : ksigned (c_kt c) = false.
Hypothesis Hb : kbits (c_kt c) <= 64.
Hypothesis Ht : forallb (slope_ok c) (cp_table cp) = true.
Variables (r1 q r2 k1 k k2 : Z).
Hypothesis Hq : r1 <= q <= r2.
Hypothesis Hk : k1 <= k <= k2.
Hypothesis Hm : k2 <= kmax (c_kt c).

Lemma csearch_levels_tr_lift : forall ls tr p1 p p2 f1 f2,
  (forall l, In l ls -> lvl_struct_ok l = true) ->
  p1 <= p <= p2 -> lvls_gap_ok ls tr k1 = true ->
  csearch_levels_tr c cp ls p1 r1 k1 = Ok (f1, tr) ->
  csearch_levels_tr c cp ls p2 r2 k2 = Ok (f2, tr) ->
  exists f, csearch_levels_tr c cp ls p q k = Ok (f, tr) /\ f1 <= f <= f2.
Proof.
  induction ls as [|l rest IH]; intros tr p1 p p2 f1 f2 Hls Hp Hg H1 H2.
  - cbn in *. injection H1 as <- <-. injection H2 as <-. exists p. split; [reflexivity|lia].
  - destruct (csearch_levels_tr_inv _ _ _ _ _ _ _ _ _ H1) as (i & pn1 & tr' & I1 & E1 & R1 & ->).
    destruct (csearch_levels_tr_inv _ _ _ _ _ _ _ _ _ H2) as (i' & pn2 & tr'' & I2 & E2 & R2 & Heq).
    injection Heq as <- <-.
    cbn [lvls_gap_ok] in Hg. apply andb_prop in Hg. destruct Hg as [Hg Hg'].
    pose proof (cstep_idx_lift c l p1 p p2 r1 q r2 k1 k k2 i Hp Hq Hk I1 I2) as I.
    destruct (cstep_eval_between c cp l i k1 k2 k pn1 pn2 Hu Hb Ht (Hls l (or_introl eq_refl)) Hg Hk Hm E1 E2) as (pn & E & Hpn).
    destruct (IH tr' pn1 pn pn2 f1 f2 (fun l' H => Hls l' (or_intror H)) Hpn Hg' R1 R2) as (f & R & Hf).
    exists f. split; [|exact Hf]. cbn [csearch_levels_tr]. rewrite I. cbn [bind]. rewrite E. cbn [bind].
    rewrite R. reflexivity.
Qed.
End Lift.

(* ---------- C. a query between the two end points of a gap follows the same path ---------- *)
Lemma ub_mono l k k' : k <= k' -> ub l k <= ub l k'.
Proof.
  intros H. induction l as [|x t IH]; cbn [ub]; [lia|].
  destruct (x <=? k) eqn:E1; destruct (x <=? k') eqn:E2; try lia.
  pose proof (proj1 (ub_sound t k')). lia.
Qed.

Lemma zlist_eqb_eq a : forall b, zlist_eqb a b = true -> a = b.
Proof.
  induction a as [|x a IH]; intros [|y b] H; cbn in H; try discriminate; [reflexivity|].
  apply andb_prop in H. destruct H as [H1 H2]. f_equal; [lia|now apply IH].
Qed.

Lemma cmp_struct_inv c data cp : cmp_struct_b c data cp = true ->
  cp_n cp = zlen data /\ 0 <= cp_first_key cp <= kmax (c_kt c) /\ - 2 ^ 63 <= cp_root_intercept cp < 2 ^ 62 /\
  slope_ok c (cp_root_slope cp) = true /\ forallb (slope_ok c) (cp_table cp) = true /\
  (forall l, In l (cp_levels cp) -> lvl_struct_ok l = true).
Proof.
  unfold cmp_struct_b. intros H. repeat (apply andb_prop in H; destruct H as [H ?]).
  repeat split; auto; try lia. now apply forallb_forall.
Qed.

Theorem gap_pos_lift c data cp r1 q r2 f1 f2 t1 t2 :
  ksigned (c_kt c) = false -> kbits (c_kt c) <= 64 -> cmp_struct_b c data cp = true ->
  r1 <= q <= r2 ->
  compressed_pos_trace c cp r1 = Ok (f1, t1) -> compressed_pos_trace c cp r2 = Ok (f2, t2) ->
  gap_cond_tr c cp r1 r2 t1 t2 = true ->
  exists f, compressed_pos_trace c cp q = Ok (f, t1) /\ f1 <= f <= f2.
Proof.
  intros Hu Hb Hs Hq P1 P2 G.
  destruct (cmp_struct_inv _ _ _ Hs) as (_ & Hfk & Hri & Hrs & Ht & Hlv).
  unfold gap_cond_tr in G. apply andb_prop in G. destruct G as [G GL].
  apply andb_prop in G. destruct G as [Hk2 GE]. apply Z.leb_le in Hk2.
  apply zlist_eqb_eq in GE. subst t2.
  unfold compressed_pos_trace, used_levels in *.
  set (k1 := Z.max (cp_first_key cp) r1) in *. set (k := Z.max (cp_first_key cp) q) in *.
  set (k2 := Z.max (cp_first_key cp) r2) in *.
  assert (Hk : k1 <= k <= k2) by lia.
  destruct (c_epsrec c =? 0) eqn:E0.
  - destruct (cp_levels cp) as [|l ls]; [discriminate|].
    destruct (cstep_eval c cp l _ k1) as [p1|] eqn:E1; cbn [bind] in P1; [|discriminate].
    destruct (cstep_eval c cp l _ k2) as [p2|] eqn:E2; cbn [bind] in P2; [|discriminate].
    injection P1 as <- <-. injection P2 as <- Hi.
    cbn [firstn lvls_gap_ok] in GL. rewrite andb_true_r in GL.
    unfold ub_range in *.
    pose proof (ub_mono (slice (cl_keys l) 0 (cl_size l)) k1 k ltac:(lia)) as M1.
    pose proof (ub_mono (slice (cl_keys l) 0 (cl_size l)) k k2 ltac:(lia)) as M2.
    set (S := slice (cl_keys l) 0 (cl_size l)) in *.
    replace (0 + ub S k - 1) with (0 + ub S k1 - 1) by lia.
    replace (0 + ub S k2 - 1) with (0 + ub S k1 - 1) in E2 by lia.
    destruct (cstep_eval_between c cp l _ k1 k2 k p1 p2 Hu Hb Ht (Hlv l (or_introl eq_refl)) GL Hk Hk2 E1 E2) as (p & E & Hp).
    rewrite !Z.add_0_l. rewrite E. cbn [bind]. exists p. split; [reflexivity|exact Hp].
  - assert (R1 : croot_pos c cp k1 <= croot_pos c cp k) by (apply croot_pos_mono; auto; lia).
    assert (R2 : croot_pos c cp k <= croot_pos c cp k2) by (apply croot_pos_mono; auto; lia).
    eapply (csearch_levels_tr_lift c cp Hu Hb Ht r1 q r2 k1 k k2); eauto.
Qed.

(* ---------- D. every query is a data element or lies in a gap ---------- *)
Lemma gaps_from_cover l : forall prev top q, prev < q <= top ->
  In q l \/ exists g, In g (gaps_from prev l top) /\ fst g <= q <= snd g.
Proof.
  induction l as [|x t IH]; intros prev top q Hq; cbn [gaps_from].
  - right. assert (prev + 1 <=? top = true) as -> by lia. exists (prev + 1, top). split; [now left|cbn; lia].
  - destruct (Z.lt_trichotomy q x) as [L|[->|G]].
    + right. assert (prev + 1 <=? x - 1 = true) as -> by lia. exists (prev + 1, x - 1).
      split; [now left|cbn; lia].
    + left. now left.
    + destruct (IH x top q ltac:(lia)) as [H|(g & Hg & Hb)]; [left; now right|right].
      exists g. split; [apply in_or_app; now right|exact Hb].
Qed.

Lemma lb_mono' l q1 q2 : q1 <= q2 -> lb l q1 <= lb l q2.
Proof.
  intros H. induction l as [|x t IH]; cbn [lb]; [lia|].
  destruct (x <? q1) eqn:E1; destruct (x <? q2) eqn:E2; try lia.
  clear. induction t as [|y t IH]; cbn [lb]; [lia|]. destruct (y <? q2); lia.
Qed.

Lemma existsb_eqb_In q l : In q l -> existsb (Z.eqb q) l = true.
Proof. intros H. apply existsb_exists. exists q. split; [exact H|lia]. Qed.

Lemma contract_lb_inv c n L pr a : contract_lb_b c n L pr a = true ->
  0 <= a_lo a /\ a_lo a <= L /\ L <= a_hi a /\ a_hi a <= n /\ a_hi a - a_lo a <= 2 * c_eps c + 2 /\
  a_lo a <= a_pos a /\ (pr = true -> L < a_hi a).
Proof.
  unfold contract_lb_b. intros H. repeat (apply andb_prop in H; destruct H as [H ?]).
  repeat split; try lia. try (intros ->; lia).
Qed.

Lemma trace_pos_inv c cp q a t : compressed_search_trace c cp q = Ok (a, t) ->
  exists f, compressed_pos_trace c cp q = Ok (f, t) /\ a = approx_of_pos c cp f.
Proof.
  unfold compressed_search_trace. destruct (compressed_pos_trace c cp q) as [[f t']|]; cbn [bind fst snd]; [|discriminate].
  intros H. injection H as <- <-. now exists f.
Qed.

Lemma rep_ok_inv c data cp r : rep_ok c data cp r = true ->
  exists a t, compressed_search_trace c cp r = Ok (a, t) /\ contract_b c data r a = true.
Proof.
  unfold rep_ok. destruct (compressed_search_trace c cp r) as [[a t]|]; [|discriminate].
  intros H. now exists a, t.
Qed.

(* ---------- E. soundness of the specification form of the certificate ---------- *)
Definition C08_contract (c : cfg) (data : list Z) (q : Z) (a : approx) : Prop :=
  0 <= a_lo a /\ a_lo a <= lb data q /\ lb data q <= a_hi a /\ a_hi a <= zlen data /\
  a_hi a - a_lo a <= 2 * c_eps c + 2 /\ (In q data -> lb data q < a_hi a).

Theorem cmp_cert_spec_sound : forall c data cp,
  ksigned (c_kt c) = false -> kbits (c_kt c) <= 64 ->
  cmp_cert_spec_b c data cp = true ->
  forall q, in_ktype (c_kt c) q = true -> q < sentinel c ->
  exists a, compressed_search c cp q = Ok a /\ C08_contract c data q a.
Proof.
  intros c data cp Hu Hb Hc q Hin Hq.
  unfold cmp_cert_spec_b in Hc. apply andb_prop in Hc. destruct Hc as [Hc Hg]. apply andb_prop in Hc. destruct Hc as [Hs Hr].
  unfold cmp_reps_b in Hr. rewrite forallb_forall in Hr. unfold cmp_gap_b in Hg. rewrite forallb_forall in Hg.
  destruct (in_dec Z.eq_dec q data) as [Hd|Hnd].
  - (* a data element is a representative *)
    destruct (rep_ok_inv c data cp q) as (a & t & T & C).
    { apply Hr. unfold rep_queries. apply in_or_app. now left. }
    exists a. split; [apply compressed_search_trace_iff; now exists t|].
    unfold contract_b in C. rewrite (existsb_eqb_In q data Hd) in C.
    apply contract_lb_inv in C. unfold C08_contract. intuition lia.
  - (* strictly inside a gap *)
    assert (Hq0 : kmin (c_kt c) - 1 < q <= sentinel c - 1).
    { unfold in_ktype in Hin. apply andb_prop in Hin. lia. }
    destruct (gaps_from_cover data _ _ q Hq0) as [H|([r1 r2] & Hgin & Hb12)]; [contradiction|].
    fold (gaps c data) in Hgin. cbn [fst snd] in Hb12.
    assert (In1 : In r1 (rep_queries c data)).
    { unfold rep_queries. apply in_or_app. right. apply in_flat_map. exists (r1, r2). split; [exact Hgin|now left]. }
    assert (In2 : In r2 (rep_queries c data)).
    { unfold rep_queries. apply in_or_app. right. apply in_flat_map. exists (r1, r2). split; [exact Hgin|right; now left]. }
    destruct (rep_ok_inv c data cp r1 (Hr _ In1)) as (a1 & t1 & T1 & C1).
    destruct (rep_ok_inv c data cp r2 (Hr _ In2)) as (a2 & t2 & T2 & C2).
    specialize (Hg _ Hgin). cbn [fst snd] in Hg. apply andb_prop in Hg. destruct Hg as [HL HG].
    unfold gap_cond in HG. rewrite T1, T2 in HG.
    destruct (trace_pos_inv _ _ _ _ _ T1) as (f1 & P1 & ->).
    destruct (trace_pos_inv _ _ _ _ _ T2) as (f2 & P2 & ->).
    destruct (gap_pos_lift c data cp r1 q r2 f1 f2 t1 t2 Hu Hb Hs Hb12 P1 P2 HG) as (f & P & Hf).
    exists (approx_of_pos c cp f). split.
    { apply compressed_search_trace_iff. exists t1. unfold compressed_search_trace. rewrite P. reflexivity. }
    destruct (cmp_struct_inv _ _ _ Hs) as (Hn & _).
    unfold contract_b in C1, C2. apply contract_lb_inv in C1. apply contract_lb_inv in C2.
    pose proof (lb_mono' data r1 q ltac:(lia)) as M1. pose proof (lb_mono' data q r2 ltac:(lia)) as M2.
    unfold approx_of_pos in *. cbn [a_lo a_hi a_pos] in *. rewrite Hn in *.
    pose proof (PGM_SUB_EPS_mono f f2 (c_eps c) ltac:(lia)).
    pose proof (PGM_ADD_EPS_mono f1 f (c_eps c) (zlen data) ltac:(lia)).
    pose proof (PGM_SUB_EPS_nonneg f (c_eps c)).
    pose proof (PGM_ADD_EPS_le f (c_eps c) (zlen data)).
    pose proof (PGM_window_width f (c_eps c) (zlen data)).
    unfold C08_contract. cbn [a_lo a_hi]. repeat split; try lia. intros; contradiction.
Qed.

(* ---------- F. the certificate the harness runs ---------- *)
Theorem cmp_cert_sound : forall c data cp,
  ksigned (c_kt c) = false -> kbits (c_kt c) <= 64 -> sortedb data = true ->
  cmp_cert_b c data cp = true ->
  forall q, in_ktype (c_kt c) q = true -> q < sentinel c ->
  exists a, compressed_search c cp q = Ok a /\
    0 <= a_lo a /\ a_lo a <= lb data q /\ lb data q <= a_hi a /\ a_hi a <= zlen data /\
    a_hi a - a_lo a <= 2 * c_eps c + 2 /\ (In q data -> lb data q < a_hi a).
Proof.
  intros c data cp Hu Hb Hs Hc q Hin Hq.
  rewrite (cmp_cert_b_spec c data cp Hs) in Hc.
  exact (cmp_cert_spec_sound c data cp Hu Hb Hc q Hin Hq).
Qed.

(* the same for the index produced by the model of the constructor *)
Corollary cmp_cert_sound_build : forall c data cp,
  ksigned (c_kt c) = false -> kbits (c_kt c) <= 64 -> sortedb data = true ->
  compressed_build c data = Ok cp -> cmp_cert_b c data cp = true ->
  forall q, in_ktype (c_kt c) q = true -> q < sentinel c ->
  exists a, compressed_search c cp q = Ok a /\
    0 <= a_lo a /\ a_lo a <= lb data q /\ lb data q <= a_hi a /\ a_hi a <= zlen data /\
    a_hi a - a_lo a <= 2 * c_eps c + 2 /\ (In q data -> lb data q < a_hi a).
Proof. intros c data cp Hu Hb Hs _. now apply cmp_cert_sound. Qed.


(* the statement with the side conditions of property C08 as the harness establishes them (several are not needed) *)
Corollary cmp_cert_sound_C08 : forall c data cp,
  1 <= c_eps c -> 0 <= c_epsrec c -> data <> [] -> sortedb data = true ->
  Forall (fun x => in_ktype (c_kt c) x = true) data -> last_z data < sentinel c ->
  ksigned (c_kt c) = false -> kbits (c_kt c) <= 64 ->
  cmp_cert_b c data cp = true ->
  forall q, in_ktype (c_kt c) q = true -> q < sentinel c ->
  exists a, compressed_search c cp q = Ok a /\
    0 <= a_lo a /\ a_lo a <= lb data q /\ lb data q <= a_hi a /\ a_hi a <= zlen data /\
    a_hi a - a_lo a <= 2 * c_eps c + 2 /\ (In q data -> lb data q < a_hi a).
Proof. intros c data cp _ _ _ Hs _ _ Hu Hb. now apply cmp_cert_sound. Qed.

Print Assumptions cmp_cert_sound.
Print Assumptions compressed_search_trace_iff.
Print Assumptions cmp_cert_b_spec.

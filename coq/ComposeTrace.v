(* ComposeTrace.v — C07 routing-trace bounds with NO floating-point hypothesis and NO hypothesis on the
   built index: the `_cap` trace theorems (IdxMain / IdxGapMain) fed with
   FloatOkCap.float_ok_cap_float / float_ok_cap_double and ComposeBuild.build_total.
   * float_ok_cap_std: float_ok_cap at every key under the hypotheses of index_contract_std;
   * C07_route_trace_wide_std / _partial_std / _bsearch_std;
   * non-vacuity on the float configurations cx_c (float_ok FALSE there) and cz_c (two levels). *)
Require Import Base Fp PlaModel GenLeaf IndexModel IndexProofs IdxChain IdxMain IdxGapMain
  FloatOk FloatOkAll FloatOkCap ComposeIdx ComposeBuild ComposeFloat ComposeFloat32.
From Coq Require Import ZifyBool.
Local Open Scope Z_scope.

(* the weak floating-point interface, for both Floating types, from size bounds alone *)
Theorem float_ok_cap_std c data k :
  idx_ok c -> cfg_small c -> std_width c -> data_ok c data -> zlen data <= 2 ^ 30 ->
  (c_fdouble c = false -> zlen data + c_eps c <= 2 ^ 22 - 1 /\ zlen data + 1 + c_epsrec c <= 2 ^ 22 - 1) ->
  float_ok_cap c data k.
Proof.
  intros Hc Hsm W Hd Hn Hfl.
  pose proof Hc as [Hb He He64 Hr0 Hr64 Hp]. pose proof Hsm as [Hp20 He31 Hr31].
  pose proof Hd as [Hne Hs Hkt Hlast Hn32].
  destruct (c_fdouble c) eqn:Ef.
  - apply float_ok_cap_double; try assumption; lia.
  - destruct (Hfl eq_refl). apply float_ok_cap_float; try assumption; lia.
Qed.

Section Std.
  Variables (c : cfg) (data : list Z).
  Hypothesis (Hc : idx_ok c) (Hsm : cfg_small c) (W : std_width c) (Hd : data_ok c data).
  Hypothesis (Hn : zlen data <= 2 ^ 30).
  Hypothesis (Hfl : c_fdouble c = false ->
    zlen data + c_eps c <= 2 ^ 22 - 1 /\ zlen data + 1 + c_epsrec c <= 2 ^ 22 - 1).

  (* every query below the reserved value, both routing paths *)
  Theorem C07_route_trace_wide_std :
    exists ix, build c data = Ok ix /\
      forall q, q < sentinel c ->
        exists a tr, search_tr c ix q = Ok (a, tr) /\
          Forall (fun t => let '(l, wlo, f, la) := t in
                    la - f + 1 <= 2 * c_epsrec c + 3 +
                      (if (last_z data <? q) && (c_epsrec c <=? pgm_linear_search_threshold (sizeof_segment c))
                       then 1 else 0)
                    /\ wlo <= f) tr.
  Proof.
    destruct (build_total c data Hc Hsm Hd Hn) as (ix & E & Hs32). exists ix. split; [exact E|].
    intros q Hq. pose proof Hc as [Hb He He64 Hr0 Hr64 Hp]. pose proof Hd as [Hne Hs Hkt Hlast Hn32].
    apply (C07_route_trace_wide_cap c data ix Hb He Hr0 Hr64 Hp Hne Hs Hkt Hlast Hn32 ltac:(lia) E Hs32 q Hq).
    apply float_ok_cap_std; assumption.
  Qed.

  (* queries up to the last key: 2*EpsilonRecursive+3 on both routing paths *)
  Theorem C07_route_trace_partial_std :
    exists ix, build c data = Ok ix /\
      forall q, q <= last_z data ->
        exists a tr, search_tr c ix q = Ok (a, tr) /\
          Forall (fun t => let '(l, wlo, f, la) := t in la - f + 1 <= 2 * c_epsrec c + 3 /\ wlo <= f) tr.
  Proof.
    destruct (build_total c data Hc Hsm Hd Hn) as (ix & E & Hs32). exists ix. split; [exact E|].
    intros q Hq. pose proof Hc as [Hb He He64 Hr0 Hr64 Hp]. pose proof Hd as [Hne Hs Hkt Hlast Hn32].
    apply (C07_route_trace_partial_cap c data ix Hb He Hr0 Hr64 Hp Hne Hs Hkt Hlast Hn32 ltac:(lia) E Hs32 q Hq).
    apply float_ok_cap_std; assumption.
  Qed.

  (* binary-search routing: 2*EpsilonRecursive+3 for every query below the reserved value *)
  Theorem C07_route_trace_bsearch_std :
    (c_epsrec c <=? pgm_linear_search_threshold (sizeof_segment c)) = false ->
    exists ix, build c data = Ok ix /\
      forall q, q < sentinel c ->
        exists a tr, search_tr c ix q = Ok (a, tr) /\
          Forall (fun t => let '(l, wlo, f, la) := t in la - f + 1 <= 2 * c_epsrec c + 3 /\ wlo <= f) tr.
  Proof.
    intros Hbs.
    destruct (build_total c data Hc Hsm Hd Hn) as (ix & E & Hs32). exists ix. split; [exact E|].
    intros q Hq. pose proof Hc as [Hb He He64 Hr0 Hr64 Hp]. pose proof Hd as [Hne Hs Hkt Hlast Hn32].
    apply (C07_route_trace_bsearch_cap c data ix Hb He Hr0 Hr64 Hp Hne Hs Hkt Hlast Hn32 ltac:(lia) E Hs32 q Hbs Hq).
    apply float_ok_cap_std; assumption.
  Qed.
End Std.

(* ---- non-vacuity ----
   cx_c = PGMIndex<uint64_t, 1, 0, float> on cx_data, query cx_k: `float_ok cx_c cx_data cx_k` is FALSE
   (FloatOkAll.cx_not_float_ok), so the float_ok-based C07_route_trace_wide says nothing there; the
   hypotheses of the _std theorems hold and the search succeeds (EpsilonRecursive = 0: one level, empty trace). *)
Example cx_trace :
  ~ float_ok cx_c cx_data (Z.max (hd 0 cx_data) cx_k) /\
  exists ix, build cx_c cx_data = Ok ix /\
    exists a tr, search_tr cx_c ix cx_k = Ok (a, tr) /\
      Forall (fun t => let '(l, wlo, f, la) := t in la - f + 1 <= 3 /\ wlo <= f) tr.
Proof.
  split; [exact cx_not_float_ok|].
  destruct (C07_route_trace_wide_std cx_c cx_data cx_idx_ok cx_cfg_small cx_std_width cx_data_ok)
    as (ix & E & H); [vm_compute; discriminate | intros _; split; vm_compute; discriminate |].
  exists ix. split; [exact E|].
  destruct (H cx_k ltac:(vm_compute; reflexivity)) as (a & tr & Es & Htr).
  exists a, tr. split; [exact Es|]. exact Htr.
Qed.

(* cz_c = PGMIndex<uint64_t, 1, 1, float> on the 21 keys cy_data: two levels, so the trace has one entry.
   The last key cy_k (bound 2*1+3 = 5) and cy_k + 1, above the last key on the linear-scan path (bound 6). *)
Example cz_trace :
  exists ix, build cz_c cy_data = Ok ix /\
    (exists a tr, search_tr cz_c ix cy_k = Ok (a, tr) /\
       Forall (fun t => let '(l, wlo, f, la) := t in la - f + 1 <= 5 /\ wlo <= f) tr) /\
    (exists a tr, search_tr cz_c ix (cy_k + 1) = Ok (a, tr) /\
       Forall (fun t => let '(l, wlo, f, la) := t in la - f + 1 <= 6 /\ wlo <= f) tr).
Proof.
  destruct (C07_route_trace_wide_std cz_c cy_data cz_idx_ok cz_cfg_small cx_std_width cz_data_ok)
    as (ix & E & H); [vm_compute; discriminate | intros _; split; vm_compute; discriminate |].
  exists ix. split; [exact E|]. split.
  - destruct (H cy_k ltac:(vm_compute; reflexivity)) as (a & tr & Es & Htr).
    exists a, tr. split; [exact Es|]. exact Htr.
  - destruct (H (cy_k + 1) ltac:(vm_compute; reflexivity)) as (a & tr & Es & Htr).
    exists a, tr. split; [exact Es|]. exact Htr.
Qed.

(* cross-check: the same two searches, computed; the trace entry is (level 0, window start 0, first 1, last 2) *)
Example cz_trace_computed :
  match build cz_c cy_data with
  | Ok ix => (search_tr cz_c ix cy_k, search_tr cz_c ix (cy_k + 1))
  | Err e => (Err e, Err e)
  end = (Ok (mkApprox 20 19 21, [(0, 0, 1, 2)]), Ok (mkApprox 20 19 21, [(0, 0, 1, 2)])).
Proof. vm_compute. reflexivity. Qed.

Print Assumptions float_ok_cap_std.
Print Assumptions C07_route_trace_wide_std.
Print Assumptions C07_route_trace_partial_std.
Print Assumptions C07_route_trace_bsearch_std.
Print Assumptions cx_trace.
Print Assumptions cz_trace.

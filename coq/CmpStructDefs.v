(* CmpStructDefs.v — vocabulary shared by the proof that the structural half of the C08 run-time certificate
   (cmp_struct_b, CmpCertDefs.v) holds for every index compressed_build produces.
   seg_good : the integer facts about one canonical segment that the floating-point part needs
              (established from the builder invariants in CmpStructSeg.v);
   tbl_ok   : what the floating-point part establishes about one slope stored in the table. *)
From Coq Require Import ZArith Reals Bool.
From Flocq Require Import Core BinarySingleNaN.
Require Import Base Fp PlaModel GenLeaf IndexModel CompressedModel CmpCertDefs.
Local Open Scope Z_scope.

(* Y bounds the ordinates of the rectangle corners (rank + epsilon) *)
Definition seg_good (Y : Z) (cs : cseg) : Prop :=
  let r0 := c_r0 cs in let r1 := c_r1 cs in let r2 := c_r2 cs in let r3 := c_r3 cs in
  let s1 := psub r2 r0 in let s2 := psub r3 r1 in
  0 <= fst r0 - c_first cs < 2 ^ 64 /\ 0 <= snd r0 <= Y /\ 0 <= snd r2 <= Y /\
  (one_point cs = false ->
     0 < fst s1 < 2 ^ 64 /\ 0 < fst s2 < 2 ^ 64 /\ - 2 ^ 64 < snd s1 < 2 ^ 64 /\ 0 <= snd s2 < 2 ^ 64 /\
     (* minimum slope + maximum slope >= 0 *)
     0 <= snd s1 * fst s2 + snd s2 * fst s1 /\
     (* minimum slope <= maximum slope *)
     snd s1 * fst s2 <= snd s2 * fst s1 /\
     (* the parameter b of get_intersection lies in [0,1]: numerator and denominator as the code computes them *)
     0 <= fst (psub r1 r0) * snd s2 - snd (psub r1 r0) * fst s2 <= fst s1 * snd s2 - snd s1 * fst s2).

Lemma seg_good_weaken Y Y' cs : Y <= Y' -> seg_good Y cs -> seg_good Y' cs.
Proof.
  intros H (A & B & C & D). unfold seg_good. cbv zeta.
  split; [exact A|]. split; [lia|]. split; [lia|]. exact D.
Qed.

(* a slope of the table: finite, non-negative, not huge, and accepted by slope_ok *)
Definition tbl_ok (c : cfg) (s : f64) : Prop :=
  is_finite s = true /\ (0 <= B2R s <= bpow radix2 65)%R /\ slope_ok c s = true.

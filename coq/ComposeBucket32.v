(* ComposeBucket32.v -- C09 end to end for BucketingPGMIndex with NO floating-point hypothesis, for
   Floating = float (the default) as well as double.
   ComposeBucket.bucketing_search_contract / bucketing_contract_total assume float_ok_valid (inner bc),
   which is provable only for Floating = double (ComposeFloat.float_ok_valid_double) and false for float
   slopes (FloatOkAll.cx_not_float_ok).  The search proof only consumes float_ok_cap (IdxChain.v):
   * bucketing_search_contract_at_cap: ComposeBucket.bucketing_search_contract_at from float_ok_cap at
     the evaluated key (ComposeIdx.search_contract_at_cap);
   * inner_float_ok_cap_float / _double / _std: float_ok_cap of the one-level index (EpsilonRecursive = 0)
     for every key, from a size bound alone (FloatOkCap.float_ok_cap_float: n + Epsilon <= 2^22 - 1;
     the second bound n + 1 + 0 <= 2^22 - 1 follows from Epsilon >= 1);
   * bucketing_search_contract_float / _double / _std, bucketing_contract_total_float / _double / _std;
   * bk_contract: non-vacuity on a float configuration with 40 keys, with a vm_compute cross-check. *)
Require Import Base Fp PlaModel PlaSpec GenLeaf IndexModel IndexProofs MappedQueries IdxFed IdxSeg IdxBlock IdxLevel
  IdxSearch0 IdxChain IdxFuel VariantsModel BucketTop FloatOk FloatOkAll FloatOkCap ComposeIdx ComposeBuild
  ComposeFloat ComposeBucket.
From Coq Require Import ZifyBool.
Local Open Scope Z_scope.

(* C09 at one query, with the floating-point interface in its weakest form, asked only inside
   [first,last] at the evaluated key *)
Theorem bucketing_search_contract_at_cap bc data b q :
  bucket_ok bc -> data_ok (inner bc) data -> bucketing_build bc data = Ok b ->
  zlen (bk_segments b) < 2 ^ 32 ->
  (hd 0 data <= q <= last_z data -> float_ok_cap (inner bc) data q) ->
  exists a, bucketing_search bc b q = Ok a /\
    0 <= a_lo a /\ a_lo a <= lb data q /\ lb data q <= a_hi a /\ a_hi a <= zlen data /\
    (In q data -> lb data q < a_hi a) /\ a_hi a - a_lo a <= 2 * c_eps (b_cfg bc) + 2.
Proof.
  intros Hbo Hd Hb Hs32 Hfl. pose proof Hd as [Hne Hs Hkt Hlast Hn32].
  destruct (bucketing_build_inv bc data b Hne Hb) as (ix & t & Hbi & Ht & Eb).
  pose proof (zlen_ge0 data) as Hn0. pose proof (bo_eps bc Hbo) as Heps.
  destruct (Z_lt_ge_dec q (hd 0 data)) as [Hlo|Hlo].
  - exists (mkApprox 0 0 0). split.
    + unfold bucketing_search. rewrite Eb. cbn [bk_first]. replace (q <? hd 0 data) with true by lia. reflexivity.
    + cbn [a_lo a_hi]. rewrite (lb_before_first data q ltac:(lia)). repeat split; try lia.
      intros Hin. pose proof (hd_le_In data q Hs Hin). lia.
  - destruct (Z_gt_le_dec q (last_z data)) as [Hhi|Hhi].
    + exists (mkApprox (zlen data) (zlen data) (zlen data)). split.
      * unfold bucketing_search. rewrite Eb. cbn [bk_first bk_last bk_n].
        replace (q <? hd 0 data) with false by lia. replace (q >? last_z data) with true by lia. reflexivity.
      * cbn [a_lo a_hi]. rewrite (lb_all_lt data q).
        -- repeat split; try lia. intros Hin. pose proof (data_le_last data Hne Hs q Hin). lia.
        -- intros x Hx. pose proof (data_le_last data Hne Hs x Hx). lia.
    + rewrite (bucketing_search_inside bc data b ix t q Hbo Hd Hbi Ht Eb ltac:(lia)).
      assert (Hs32' : zlen (ix_segments ix) < 2 ^ 32) by (rewrite Eb in Hs32; exact Hs32).
      destruct (search_contract_at_cap (inner bc) data ix q (inner_idx_ok bc Hbo) Hd Hbi Hs32'
                  ltac:(lia) ltac:(rewrite Z.max_r by lia; apply Hfl; lia))
        as (a & Es & H1 & H2 & H3 & H4 & H5 & H6 & _).
      exists a. split; [exact Es|]. cbn [inner c_eps] in H6. tauto.
Qed.

(* the same from float_ok_cap at every key of this data *)
Theorem bucketing_search_contract_cap bc data b q :
  bucket_ok bc -> data_ok (inner bc) data -> bucketing_build bc data = Ok b ->
  zlen (bk_segments b) < 2 ^ 32 -> (forall k, float_ok_cap (inner bc) data k) ->
  exists a, bucketing_search bc b q = Ok a /\
    0 <= a_lo a <= lb data q /\ lb data q <= a_hi a <= zlen data /\
    (In q data -> lb data q < a_hi a) /\ a_hi a - a_lo a <= 2 * c_eps (b_cfg bc) + 2.
Proof.
  intros Hbo Hd Hb Hs32 Hf.
  destruct (bucketing_search_contract_at_cap bc data b q Hbo Hd Hb Hs32 (fun _ => Hf q)) as (a & Es & H).
  exists a. split; [exact Es|]. tauto.
Qed.

(* ---- the floating-point interface of the one-level index, from size bounds alone ---- *)
Lemma inner_std_width bc : std_width (b_cfg bc) -> std_width (inner bc).
Proof. intros W. exact W. Qed.

(* Floating = float: n + Epsilon <= 2^22 - 1 (the bound of the upper levels, n + 1 + EpsilonRecursive
   <= 2^22 - 1 with EpsilonRecursive = 0, follows from Epsilon >= 1) *)
Theorem inner_float_ok_cap_float bc data k :
  bucket_ok bc -> std_width (b_cfg bc) -> c_par (b_cfg bc) <= 20 -> c_fdouble (b_cfg bc) = false ->
  data_ok (inner bc) data -> zlen data + c_eps (b_cfg bc) <= 2 ^ 22 - 1 ->
  float_ok_cap (inner bc) data k.
Proof.
  intros [Hu Hbits Heps Heps64 Hpar Htls] W Hp20 Hf [Hne Hs Hkt Hlast Hn32] Hsz.
  apply float_ok_cap_float; try assumption; cbn [inner c_par c_eps c_epsrec c_fdouble]; try lia.
Qed.

(* Floating = double: no size bound beyond do_n32 *)
Theorem inner_float_ok_cap_double bc data k :
  bucket_ok bc -> std_width (b_cfg bc) -> c_par (b_cfg bc) <= 20 -> c_fdouble (b_cfg bc) = true ->
  data_ok (inner bc) data -> float_ok_cap (inner bc) data k.
Proof.
  intros [Hu Hbits Heps Heps64 Hpar Htls] W Hp20 Hf [Hne Hs Hkt Hlast Hn32].
  apply float_ok_cap_double; try assumption; cbn [inner c_par c_eps c_epsrec c_fdouble]; try lia.
Qed.

Theorem inner_float_ok_cap_std bc data k :
  bucket_ok bc -> std_width (b_cfg bc) -> c_par (b_cfg bc) <= 20 -> data_ok (inner bc) data ->
  (c_fdouble (b_cfg bc) = false -> zlen data + c_eps (b_cfg bc) <= 2 ^ 22 - 1) ->
  float_ok_cap (inner bc) data k.
Proof.
  intros Hbo W Hp Hd Hsz. destruct (c_fdouble (b_cfg bc)) eqn:Ef.
  - apply inner_float_ok_cap_double; assumption.
  - apply inner_float_ok_cap_float; auto.
Qed.

(* ---- C09 for a given successful construction ---- *)
Theorem bucketing_search_contract_float bc data b q :
  bucket_ok bc -> std_width (b_cfg bc) -> c_par (b_cfg bc) <= 20 -> c_fdouble (b_cfg bc) = false ->
  data_ok (inner bc) data -> zlen data + c_eps (b_cfg bc) <= 2 ^ 22 - 1 ->
  bucketing_build bc data = Ok b -> zlen (bk_segments b) < 2 ^ 32 ->
  exists a, bucketing_search bc b q = Ok a /\
    0 <= a_lo a <= lb data q /\ lb data q <= a_hi a <= zlen data /\
    (In q data -> lb data q < a_hi a) /\ a_hi a - a_lo a <= 2 * c_eps (b_cfg bc) + 2.
Proof.
  intros Hbo W Hp Hf Hd Hsz Hb Hs32. apply (bucketing_search_contract_cap bc data b q Hbo Hd Hb Hs32).
  intros k. apply inner_float_ok_cap_float; assumption.
Qed.

Theorem bucketing_search_contract_double bc data b q :
  bucket_ok bc -> std_width (b_cfg bc) -> c_par (b_cfg bc) <= 20 -> c_fdouble (b_cfg bc) = true ->
  data_ok (inner bc) data ->
  bucketing_build bc data = Ok b -> zlen (bk_segments b) < 2 ^ 32 ->
  exists a, bucketing_search bc b q = Ok a /\
    0 <= a_lo a <= lb data q /\ lb data q <= a_hi a <= zlen data /\
    (In q data -> lb data q < a_hi a) /\ a_hi a - a_lo a <= 2 * c_eps (b_cfg bc) + 2.
Proof.
  intros Hbo W Hp Hf Hd Hb Hs32. apply (bucketing_search_contract_cap bc data b q Hbo Hd Hb Hs32).
  intros k. apply inner_float_ok_cap_double; assumption.
Qed.

(* both Floating types: bucketing_search_contract with float_ok_valid (inner bc) replaced by a size
   condition (needed for float only) *)
Theorem bucketing_search_contract_std bc data b q :
  bucket_ok bc -> std_width (b_cfg bc) -> c_par (b_cfg bc) <= 20 -> data_ok (inner bc) data ->
  (c_fdouble (b_cfg bc) = false -> zlen data + c_eps (b_cfg bc) <= 2 ^ 22 - 1) ->
  bucketing_build bc data = Ok b -> zlen (bk_segments b) < 2 ^ 32 ->
  exists a, bucketing_search bc b q = Ok a /\
    0 <= a_lo a <= lb data q /\ lb data q <= a_hi a <= zlen data /\
    (In q data -> lb data q < a_hi a) /\ a_hi a - a_lo a <= 2 * c_eps (b_cfg bc) + 2.
Proof.
  intros Hbo W Hp Hd Hsz Hb Hs32. apply (bucketing_search_contract_cap bc data b q Hbo Hd Hb Hs32).
  intros k. apply inner_float_ok_cap_std; assumption.
Qed.

(* ---- with the construction ---- *)
(* the construction part of ComposeBucket.bucketing_contract_total, separated from the search *)
Lemma bucketing_build_total bc data :
  bucket_ok bc -> c_par (b_cfg bc) <= 20 -> c_eps (b_cfg bc) <= 2 ^ 31 ->
  (pow_two (b_tls bc) = true -> 0 <= top_shift bc < kbits (c_kt (b_cfg bc))) ->
  (b_tlbs bc = 0 \/ 32 <= b_tlbs bc) ->
  data_ok (inner bc) data -> zlen data <= 2 ^ 30 ->
  exists b, bucketing_build bc data = Ok b /\ zlen (bk_segments b) < 2 ^ 32.
Proof.
  intros Hbo Hp He Hsh Hw Hd Hn. pose proof Hd as [Hne _ _ _ _].
  destruct (build_total (inner bc) data (inner_idx_ok bc Hbo) (inner_cfg_small bc Hp He) Hd Hn) as (ix & E & Hs32).
  pose proof (zlen_ge0 (ix_segments ix)) as Hz0.
  destruct (build_top_level_ok bc (ix_segments ix) (hd 0 data) (last_z data) (bo_unsigned bc Hbo)
              ltac:(pose proof (bo_bits bc Hbo); lia) Hsh
              ltac:(destruct Hw as [->|Hw]; [left; reflexivity|right; pose proof (bit_width_le32 (zlen (ix_segments ix)) ltac:(lia)); lia]))
    as (top & step & Et).
  exists (mkBucketing (zlen data) (hd 0 data) (last_z data) (ix_segments ix) top step). split; [|exact Hs32].
  unfold bucketing_build.
  assert (Hn0 : zlen data <> 0) by (destruct data; [contradiction|]; rewrite zlen_cons; pose proof (zlen_ge0 data); lia).
  replace (zlen data =? 0) with false by lia. fold (inner bc). rewrite E. cbn [bind]. rewrite Et. reflexivity.
Qed.

(* BucketingPGMIndex<K, Epsilon, TopLevelSize, TopLevelBitSize, float> with n + Epsilon < 2^22: the
   constructor succeeds and every search satisfies the contract (same conditions on the top level as
   ComposeBucket.bucketing_contract_total) *)
Theorem bucketing_contract_total_float bc data :
  bucket_ok bc -> std_width (b_cfg bc) -> c_par (b_cfg bc) <= 20 -> c_fdouble (b_cfg bc) = false ->
  (pow_two (b_tls bc) = true -> 0 <= top_shift bc < kbits (c_kt (b_cfg bc))) ->
  (b_tlbs bc = 0 \/ 32 <= b_tlbs bc) ->
  data_ok (inner bc) data -> zlen data + c_eps (b_cfg bc) <= 2 ^ 22 - 1 ->
  exists b, bucketing_build bc data = Ok b /\
    forall q, exists a, bucketing_search bc b q = Ok a /\
      0 <= a_lo a <= lb data q /\ lb data q <= a_hi a <= zlen data /\
      (In q data -> lb data q < a_hi a) /\ a_hi a - a_lo a <= 2 * c_eps (b_cfg bc) + 2.
Proof.
  intros Hbo W Hp Hf Hsh Hw Hd Hsz. pose proof (bo_eps bc Hbo) as He. pose proof (zlen_ge0 data) as Hn0.
  destruct (bucketing_build_total bc data Hbo Hp ltac:(lia) Hsh Hw Hd ltac:(lia)) as (b & Eb & Hs32).
  exists b. split; [exact Eb|]. intros q.
  exact (bucketing_search_contract_float bc data b q Hbo W Hp Hf Hd Hsz Eb Hs32).
Qed.

Theorem bucketing_contract_total_double bc data :
  bucket_ok bc -> std_width (b_cfg bc) -> c_par (b_cfg bc) <= 20 -> c_eps (b_cfg bc) <= 2 ^ 31 ->
  c_fdouble (b_cfg bc) = true ->
  (pow_two (b_tls bc) = true -> 0 <= top_shift bc < kbits (c_kt (b_cfg bc))) ->
  (b_tlbs bc = 0 \/ 32 <= b_tlbs bc) ->
  data_ok (inner bc) data -> zlen data <= 2 ^ 30 ->
  exists b, bucketing_build bc data = Ok b /\
    forall q, exists a, bucketing_search bc b q = Ok a /\
      0 <= a_lo a <= lb data q /\ lb data q <= a_hi a <= zlen data /\
      (In q data -> lb data q < a_hi a) /\ a_hi a - a_lo a <= 2 * c_eps (b_cfg bc) + 2.
Proof.
  intros Hbo W Hp He Hf Hsh Hw Hd Hn.
  destruct (bucketing_build_total bc data Hbo Hp He Hsh Hw Hd Hn) as (b & Eb & Hs32).
  exists b. split; [exact Eb|]. intros q.
  exact (bucketing_search_contract_double bc data b q Hbo W Hp Hf Hd Eb Hs32).
Qed.

(* both Floating types: bucketing_contract_total with float_ok_valid (inner bc) replaced by std_width
   and, for float only, the size condition n + Epsilon <= 2^22 - 1 *)
Theorem bucketing_contract_total_std bc data :
  bucket_ok bc -> std_width (b_cfg bc) -> c_par (b_cfg bc) <= 20 -> c_eps (b_cfg bc) <= 2 ^ 31 ->
  (pow_two (b_tls bc) = true -> 0 <= top_shift bc < kbits (c_kt (b_cfg bc))) ->
  (b_tlbs bc = 0 \/ 32 <= b_tlbs bc) ->
  data_ok (inner bc) data -> zlen data <= 2 ^ 30 ->
  (c_fdouble (b_cfg bc) = false -> zlen data + c_eps (b_cfg bc) <= 2 ^ 22 - 1) ->
  exists b, bucketing_build bc data = Ok b /\
    forall q, exists a, bucketing_search bc b q = Ok a /\
      0 <= a_lo a <= lb data q /\ lb data q <= a_hi a <= zlen data /\
      (In q data -> lb data q < a_hi a) /\ a_hi a - a_lo a <= 2 * c_eps (b_cfg bc) + 2.
Proof.
  intros Hbo W Hp He Hsh Hw Hd Hn Hsz.
  destruct (bucketing_build_total bc data Hbo Hp He Hsh Hw Hd Hn) as (b & Eb & Hs32).
  exists b. split; [exact Eb|]. intros q.
  exact (bucketing_search_contract_std bc data b q Hbo W Hp Hd Hsz Eb Hs32).
Qed.

(* ---- non-vacuity 1: BucketingPGMIndex<uint64_t, 2, 10, 0, float> over 40 keys ---- *)
Definition bk_bc : bcfg := mkBcfg (mkCfg (mkK 64 false) 2 0 false 1 false) 10 0.
Definition bk_data : list Z :=
  map (fun i => let z := Z.of_nat i in z * z * z * 2 ^ 20 + 3 * z) (seq 0 40).
Definition bk_q1 : Z := 27 * 27 * 27 * 2 ^ 20 + 3 * 27.   (* the key of rank 27 *)
Definition bk_q2 : Z := 2 ^ 33 + 12345.                   (* absent, lower bound 21 *)

Lemma bk_bucket_ok : bucket_ok bk_bc.
Proof. constructor; cbn; (reflexivity || lia). Qed.
Lemma bk_std_width : std_width (b_cfg bk_bc).
Proof. right. right. right. reflexivity. Qed.
Lemma bk_data_ok : data_ok (inner bk_bc) bk_data.
Proof.
  constructor; [discriminate | vm_compute; reflexivity | | vm_compute; reflexivity | vm_compute; reflexivity].
  apply Forall_forall. intros x Hx. vm_compute in Hx.
  repeat (destruct Hx as [<-|Hx]; [reflexivity|]). contradiction.
Qed.

Example bk_contract :
  c_fdouble (b_cfg bk_bc) = false /\ zlen bk_data = 40 /\
  exists b, bucketing_build bk_bc bk_data = Ok b /\
    (exists a, bucketing_search bk_bc b bk_q1 = Ok a /\
       0 <= a_lo a <= 27 /\ 27 < a_hi a <= 40 /\ a_hi a - a_lo a <= 6) /\
    (exists a, bucketing_search bk_bc b bk_q2 = Ok a /\
       0 <= a_lo a <= 21 /\ 21 <= a_hi a <= 40 /\ a_hi a - a_lo a <= 6).
Proof.
  split; [reflexivity|]. split; [reflexivity|].
  destruct (bucketing_contract_total_float bk_bc bk_data bk_bucket_ok bk_std_width ltac:(cbn; lia) eq_refl
              ltac:(vm_compute; discriminate) ltac:(left; reflexivity) bk_data_ok ltac:(vm_compute; discriminate))
    as (b & Eb & H).
  exists b. split; [exact Eb|]. split.
  - destruct (H bk_q1) as (a & Es & H1 & H2 & H3 & H4). exists a. split; [exact Es|].
    assert (Hin : In bk_q1 bk_data) by (apply in_map_iff; exists 27%nat; split; [reflexivity | apply in_seq; lia]). specialize (H3 Hin).
    assert (E1 : lb bk_data bk_q1 = 27) by (vm_compute; reflexivity).
    assert (E2 : zlen bk_data = 40) by reflexivity. rewrite E1 in *. rewrite E2 in *.
    change (2 * c_eps (b_cfg bk_bc) + 2) with 6 in H4. lia.
  - destruct (H bk_q2) as (a & Es & H1 & H2 & _ & H4). exists a. split; [exact Es|].
    assert (E1 : lb bk_data bk_q2 = 21) by (vm_compute; reflexivity).
    assert (E2 : zlen bk_data = 40) by reflexivity. rewrite E1 in *. rewrite E2 in *.
    change (2 * c_eps (b_cfg bk_bc) + 2) with 6 in H4. lia.
Qed.

(* cross-check: the same two searches, computed *)
Example bk_search_computed :
  match bucketing_build bk_bc bk_data with
  | Ok b => (bucketing_search bk_bc b bk_q1, bucketing_search bk_bc b bk_q2)
  | Err e => (Err e, Err e)
  end = (Ok (mkApprox 27 25 31), Ok (mkApprox 18 16 22)).
Proof. vm_compute. reflexivity. Qed.

(* ---- non-vacuity 2: an instance where the old hypothesis is FALSE ----
   BucketingPGMIndex<uint64_t, 1, 10, 0, float> over FloatOkAll.cx_data, query cx_k inside [first,last]:
   its one-level index is cx_c, for which float_ok cx_c cx_data cx_k fails (FloatOkAll.cx_not_float_ok),
   so float_ok_valid (inner bx_bc) is false and ComposeBucket.bucketing_contract_total says nothing. *)
Definition bx_bc : bcfg := mkBcfg cx_c 10 0.

Lemma bx_inner : inner bx_bc = cx_c.
Proof. reflexivity. Qed.
Lemma bx_not_float_ok_valid : ~ float_ok_valid (inner bx_bc).
Proof.
  intros H. apply cx_not_float_ok. apply (H cx_data cx_k).
  constructor; [discriminate | reflexivity | | vm_compute; reflexivity | vm_compute; reflexivity].
  repeat constructor.
Qed.
Lemma bx_bucket_ok : bucket_ok bx_bc.
Proof. constructor; cbn; (reflexivity || lia). Qed.

Example bx_contract :
  ~ float_ok_valid (inner bx_bc) /\ hd 0 cx_data <= cx_k <= last_z cx_data /\
  exists b, bucketing_build bx_bc cx_data = Ok b /\
    exists a, bucketing_search bx_bc b cx_k = Ok a /\
      0 <= a_lo a <= 5 /\ 5 <= a_hi a <= 6 /\ a_hi a - a_lo a <= 4.
Proof.
  split; [exact bx_not_float_ok_valid|]. split; [vm_compute; split; discriminate|].
  assert (Hd : data_ok (inner bx_bc) cx_data).
  { constructor; [discriminate | reflexivity | | vm_compute; reflexivity | vm_compute; reflexivity].
    repeat constructor. }
  destruct (bucketing_contract_total_float bx_bc cx_data bx_bucket_ok bk_std_width ltac:(cbn; lia) eq_refl
              ltac:(vm_compute; discriminate) ltac:(left; reflexivity) Hd ltac:(vm_compute; discriminate))
    as (b & Eb & H).
  exists b. split; [exact Eb|].
  destruct (H cx_k) as (a & Es & H1 & H2 & _ & H4). exists a. split; [exact Es|].
  change (lb cx_data cx_k) with 5 in H1, H2. change (zlen cx_data) with 6 in H2.
  change (2 * c_eps (b_cfg bx_bc) + 2) with 4 in H4. auto.
Qed.

Example bx_search_computed :
  match bucketing_build bx_bc cx_data with Ok b => bucketing_search bx_bc b cx_k | Err e => Err e end
  = Ok (mkApprox 4 3 6).
Proof. vm_compute. reflexivity. Qed.

Print Assumptions bucketing_search_contract_at_cap.
Print Assumptions bucketing_search_contract_std.
Print Assumptions bucketing_contract_total_float.
Print Assumptions bucketing_contract_total_double.
Print Assumptions bucketing_contract_total_std.
Print Assumptions bk_contract.
Print Assumptions bx_contract.

(* EfPred.v — property C10: the Elias-Fano predecessor structure (VariantsModel.ef_pred on ef_build)
   always returns the rightmost stored value <= i, and never errs; plus the decoding lemma. *)
Require Import Base VariantsModel IndexProofs.
From Coq Require Import ZifyBool.
Local Open Scope Z_scope.

(* ---------- list helpers ---------- *)
Lemma zlen_app {A} (l1 l2 : list A) : zlen (l1 ++ l2) = zlen l1 + zlen l2.
Proof. unfold zlen. rewrite app_length. lia. Qed.
Lemma zlen_cons {A} (x : A) l : zlen (x :: l) = 1 + zlen l.
Proof. unfold zlen. cbn [length]. lia. Qed.
Lemma zlen_repeat {A} (x : A) n : zlen (repeat x n) = Z.of_nat n.
Proof. unfold zlen. rewrite repeat_length. reflexivity. Qed.
Lemma zlen_map {A B} (f : A -> B) l : zlen (map f l) = zlen l.
Proof. unfold zlen. rewrite map_length. reflexivity. Qed.
Lemma zlen_nonneg {A} (l : list A) : 0 <= zlen l.
Proof. unfold zlen. lia. Qed.

Lemma nth_res_ok {A} (l : list A) i d : 0 <= i < zlen l -> nth_res l i = Ok (nth (Z.to_nat i) l d).
Proof.
  unfold zlen, nth_res. intros Hi. destruct (i <? 0) eqn:E; [lia|].
  destruct (nth_error l (Z.to_nat i)) eqn:En.
  - erewrite nth_error_nth; eauto.
  - apply nth_error_None in En. lia.
Qed.

(* nth with Z index, shifting over cons / app *)
Lemma nth_cons_pos {A} (x : A) l q d : 0 < q -> nth (Z.to_nat q) (x :: l) d = nth (Z.to_nat (q - 1)) l d.
Proof. intros Hq. replace (Z.to_nat q) with (S (Z.to_nat (q - 1))) by lia. reflexivity. Qed.
Lemma nth_app_l {A} (l1 l2 : list A) q d : 0 <= q < zlen l1 -> nth (Z.to_nat q) (l1 ++ l2) d = nth (Z.to_nat q) l1 d.
Proof. unfold zlen. intros Hq. apply app_nth1. lia. Qed.
Lemma nth_app_r {A} (l1 l2 : list A) q d : zlen l1 <= q -> nth (Z.to_nat q) (l1 ++ l2) d = nth (Z.to_nat (q - zlen l1)) l2 d.
Proof. unfold zlen. intros Hq. rewrite app_nth2 by lia. f_equal. lia. Qed.
Lemma nth_repeat_Z {A} (x : A) n q : nth (Z.to_nat q) (repeat x n) x = x.
Proof. generalize (Z.to_nat q). induction n as [|n IH]; intros [|k]; cbn; auto. Qed.

(* ---------- select on runs ---------- *)
Lemma select_run_in b (m : nat) l j pos : 1 <= j <= Z.of_nat m ->
  select_from b (repeat b m ++ l) j pos = Ok (pos + j - 1).
Proof.
  revert j pos. induction m as [|m IH]; intros j pos Hj; [lia|].
  cbn [repeat app select_from]. rewrite eqb_reflx.
  destruct (j =? 1) eqn:E; [f_equal; lia|]. rewrite IH by lia. f_equal. lia.
Qed.
Lemma select_run_skip b (m : nat) l j pos : Z.of_nat m < j ->
  select_from b (repeat b m ++ l) j pos = select_from b l (j - Z.of_nat m) (pos + Z.of_nat m).
Proof.
  revert j pos. induction m as [|m IH]; intros j pos Hj.
  - cbn [repeat app]. f_equal; lia.
  - cbn [repeat app select_from]. rewrite eqb_reflx.
    destruct (j =? 1) eqn:E; [lia|]. rewrite IH by lia. f_equal; lia.
Qed.
Lemma select_run_other b (m : nat) l j pos :
  select_from b (repeat (negb b) m ++ l) j pos = select_from b l j (pos + Z.of_nat m).
Proof.
  revert pos. induction m as [|m IH]; intros pos.
  - cbn [repeat app]. f_equal; lia.
  - cbn [repeat app select_from]. replace (eqb (negb b) b) with false by (destruct b; reflexivity).
    rewrite IH. f_equal; lia.
Qed.

(* ---------- lb / ub facts ---------- *)
Lemma lb_succ_ub l q : lb l (q + 1) = ub l q.
Proof.
  induction l as [|x t IH]; cbn [lb ub]; [reflexivity|].
  destruct (x <? q + 1) eqn:E1; destruct (x <=? q) eqn:E2; lia.
Qed.
Lemma lb_mono l q1 q2 : q1 <= q2 -> lb l q1 <= lb l q2.
Proof.
  intros Hq. induction l as [|x t IH]; cbn [lb]; [lia|].
  pose proof (lb_nonneg t q2). destruct (x <? q1) eqn:E1; destruct (x <? q2) eqn:E2; lia.
Qed.
Lemma ssortedb_sortedb l : ssortedb l = true -> sortedb l = true.
Proof.
  induction l as [|x t IH]; [reflexivity|]. destruct t as [|y t']; [reflexivity|].
  cbn [ssortedb sortedb]. intros H. apply andb_prop in H. destruct H as [H1 H2].
  specialize (IH H2). apply andb_true_intro. split; [lia|exact IH].
Qed.
Lemma ssortedb_tail x t : ssortedb (x :: t) = true -> ssortedb t = true.
Proof. destruct t as [|y t']; cbn [ssortedb]; [reflexivity|]. intros H. apply andb_prop in H. tauto. Qed.

(* all elements of a sorted list lie between its head and its last *)
Lemma sorted_nth_mono l a b : sortedb l = true -> 0 <= a <= b -> b < zlen l ->
  nth (Z.to_nat a) l 0 <= nth (Z.to_nat b) l 0.
Proof.
  revert a b. induction l as [|x t IH]; intros a b Hs Hab Hb; [unfold zlen in Hb; cbn in Hb; lia|].
  rewrite zlen_cons in Hb. destruct (Z.eq_dec b 0) as [->|Hb0].
  - replace a with 0 by lia. lia.
  - rewrite (nth_cons_pos x t b) by lia. destruct (Z.eq_dec a 0) as [->|Ha0].
    + cbn [Z.to_nat nth]. eapply sortedb_head_le; eauto. apply nth_In. unfold zlen in Hb. lia.
    + rewrite (nth_cons_pos x t a) by lia. apply IH; [eapply sortedb_tail; eauto|lia|lia].
Qed.

Lemma last_z_nth l : l <> [] -> last_z l = nth (Z.to_nat (zlen l - 1)) l 0.
Proof.
  intros Hne. unfold last_z, zlen. replace (Z.to_nat (Z.of_nat (length l) - 1)) with (length l - 1)%nat by lia.
  induction l as [|x t IH]; [congruence|]. destruct t as [|y t']; [reflexivity|].
  cbn [last length] in *. rewrite IH by congruence. cbn. rewrite Nat.sub_0_r. reflexivity.
Qed.

(* lb is determined by the partition property *)
Lemma lb_unique l q k : sortedb l = true -> 0 <= k <= zlen l ->
  (forall t, 0 <= t < k -> nth (Z.to_nat t) l 0 < q) ->
  (forall t, k <= t < zlen l -> q <= nth (Z.to_nat t) l 0) -> lb l q = k.
Proof.
  intros Hs Hk H1 H2. destruct (lb_spec l q Hs) as [S1 S2].
  pose proof (lb_nonneg l q) as Hn. pose proof (lb_le_len l q) as Hl.
  destruct (Z.lt_trichotomy (lb l q) k) as [Hlt|[Heq|Hgt]]; [|assumption|].
  - specialize (H1 (lb l q) ltac:(lia)). specialize (S2 (lb l q) ltac:(lia)). lia.
  - specialize (S1 k ltac:(lia)). specialize (H2 k ltac:(lia)). lia.
Qed.
Lemma ub_all l q : (forall x, In x l -> x <= q) -> ub l q = zlen l.
Proof.
  induction l as [|x t IH]; intros H; [reflexivity|]. cbn [ub]. rewrite zlen_cons.
  pose proof (H x (or_introl eq_refl)). destruct (x <=? q) eqn:E; [|lia].
  rewrite IH; [lia|]. intros y Hy. apply H. right; assumption.
Qed.

(* ---------- the high bit vector, with division instead of shifts ---------- *)
Fixpoint hbuild (P : Z) (vals : list Z) (last : Z) : list bool :=
  match vals with
  | [] => []
  | v :: rest => repeat false (Z.to_nat (v / P - last)) ++ true :: hbuild P rest (v / P)
  end.
Lemma ef_high_build_eq wl vals last : 0 <= wl -> ef_high_build wl vals last = hbuild (2 ^ wl) vals last.
Proof.
  intros Hw. revert last. induction vals as [|v rest IH]; intros last; [reflexivity|].
  cbn [ef_high_build hbuild]. rewrite Z.shiftr_div_pow2 by lia. rewrite IH. reflexivity.
Qed.

(* high part of the last value (or `last` when there is none) *)
Fixpoint hlast (P : Z) (vals : list Z) (last : Z) : Z :=
  match vals with [] => last | v :: rest => hlast P rest (v / P) end.
Definition hok (P : Z) (vals : list Z) (last : Z) : Prop :=
  match vals with [] => True | v :: _ => last <= v / P end.

Lemma hok_tail P v rest : 0 < P -> sortedb (v :: rest) = true -> hok P rest (v / P).
Proof.
  intros HP Hs. destruct rest as [|y r]; [exact I|]. cbn [hok].
  cbn [sortedb] in Hs. apply andb_prop in Hs. destruct Hs as [Hvy _].
  apply Z.div_le_mono; lia.
Qed.
Lemma hlast_ge P vals last : 0 < P -> sortedb vals = true -> hok P vals last -> last <= hlast P vals last.
Proof.
  intros HP. revert last. induction vals as [|v rest IH]; intros last Hs Hok; cbn [hlast]; [lia|].
  cbn [hok] in Hok. specialize (IH (v / P) (sortedb_tail _ _ Hs) (hok_tail P v rest HP Hs)). lia.
Qed.
Lemma hlast_last P vals last : vals <> [] -> hlast P vals last = last_z vals / P.
Proof.
  revert last. induction vals as [|v rest IH]; intros last Hne; [congruence|].
  cbn [hlast]. destruct rest as [|y r]; [reflexivity|]. rewrite IH by congruence. reflexivity.
Qed.
Lemma hbuild_len P vals last : 0 < P -> sortedb vals = true -> hok P vals last ->
  zlen (hbuild P vals last) = zlen vals + hlast P vals last - last.
Proof.
  intros HP. revert last. induction vals as [|v rest IH]; intros last Hs Hok; cbn [hbuild hlast].
  - unfold zlen; cbn; lia.
  - cbn [hok] in Hok. rewrite zlen_app, zlen_repeat, !zlen_cons.
    rewrite IH; [lia|eapply sortedb_tail; eauto|apply hok_tail; auto].
Qed.

(* position of the j-th zero: j-1 zeros and the values with high part <= last+j-1 precede it *)
Lemma hb_select0 P vals : 0 < P -> forall last pad j pos, sortedb vals = true -> hok P vals last ->
  1 <= j <= hlast P vals last - last + Z.of_nat pad ->
  select_from false (hbuild P vals last ++ repeat false pad) j pos = Ok (pos + (j - 1) + lb vals ((last + j) * P)).
Proof.
  intros HP. induction vals as [|v rest IH]; intros last pad j pos Hs Hok Hj; cbn [hbuild hlast lb] in *.
  - cbn [app]. rewrite <- (app_nil_r (repeat false pad)). rewrite select_run_in by lia. f_equal; lia.
  - cbn [hok] in Hok. rewrite <- app_assoc. cbn [app].
    pose proof (hlast_ge P rest (v / P) HP (sortedb_tail _ _ Hs) (hok_tail P v rest HP Hs)) as Hge.
    assert (Hv1 : (v / P) * P <= v < (v / P + 1) * P).
    { pose proof (Z.div_mod v P ltac:(lia)). pose proof (Z.mod_pos_bound v P HP). lia. }
    destruct (Z.le_gt_cases j (v / P - last)) as [Hle|Hgt].
    + rewrite select_run_in by lia. assert (E : v <? (last + j) * P = false) by nia. rewrite E. f_equal; lia.
    + rewrite select_run_skip by lia. cbn [select_from eqb].
      rewrite IH; [|eapply sortedb_tail; eauto|apply hok_tail; auto|lia].
      assert (E : v <? (last + j) * P = true) by nia. rewrite E.
      replace (v / P + (j - Z.of_nat (Z.to_nat (v / P - last)))) with (last + j) by lia. f_equal; lia.
Qed.

(* position of the j-th one: j-1 ones and (high part of value j-1) - last zeros precede it *)
Lemma hb_select1 P vals : 0 < P -> forall last tl j pos, sortedb vals = true -> hok P vals last ->
  1 <= j <= zlen vals ->
  select_from true (hbuild P vals last ++ tl) j pos = Ok (pos + (j - 1) + nth (Z.to_nat (j - 1)) vals 0 / P - last).
Proof.
  intros HP. induction vals as [|v rest IH]; intros last tl j pos Hs Hok Hj.
  - unfold zlen in Hj; cbn in Hj; lia.
  - cbn [hbuild hok] in *. rewrite zlen_cons in Hj. rewrite <- app_assoc. cbn [app].
    change false with (negb true). rewrite select_run_other. cbn [select_from eqb].
    destruct (j =? 1) eqn:E.
    + assert (j = 1) by lia. subst j. replace (Z.to_nat (1 - 1)) with 0%nat by lia. cbn [nth]. f_equal; lia.
    + rewrite IH; [|eapply sortedb_tail; eauto|apply hok_tail; auto|lia].
      rewrite (nth_cons_pos v rest (j - 1)) by lia. f_equal; lia.
Qed.

(* the one bit of value t sits at position t + high(t) - last *)
Lemma hb_nth_one P vals : 0 < P -> forall last tl t, sortedb vals = true -> hok P vals last ->
  0 <= t < zlen vals ->
  nth (Z.to_nat (t + nth (Z.to_nat t) vals 0 / P - last)) (hbuild P vals last ++ tl) false = true.
Proof.
  intros HP. induction vals as [|v rest IH]; intros last tl t Hs Hok Ht.
  - unfold zlen in Ht; cbn in Ht; lia.
  - cbn [hbuild hok] in *. rewrite zlen_cons in Ht. rewrite <- app_assoc. cbn [app].
    destruct (Z.eq_dec t 0) as [->|Ht0].
    + cbn [Z.to_nat nth]. rewrite nth_app_r by (rewrite zlen_repeat; lia).
      rewrite zlen_repeat. replace (0 + v / P - last - Z.of_nat (Z.to_nat (v / P - last))) with 0 by lia. reflexivity.
    + rewrite (nth_cons_pos v rest t) by lia.
      pose proof (hok_tail P v rest HP Hs) as Hok'. pose proof (sortedb_tail _ _ Hs) as Hs'.
      assert (Hmono : v / P <= nth (Z.to_nat (t - 1)) rest 0 / P).
      { apply Z.div_le_mono; [lia|]. eapply sortedb_head_le; eauto. apply nth_In. unfold zlen in Ht. lia. }
      rewrite nth_app_r by (rewrite zlen_repeat; lia). rewrite zlen_repeat.
      rewrite nth_cons_pos by lia.
      specialize (IH (v / P) tl (t - 1) Hs' Hok' ltac:(lia)).
      rewrite <- IH. f_equal. lia.
Qed.

(* strictly between the one bits of values t and t+1 there are only zeros *)
Lemma hb_nth_gap P vals : 0 < P -> forall last tl t q, sortedb vals = true -> hok P vals last ->
  0 <= t -> t + 1 < zlen vals ->
  t + nth (Z.to_nat t) vals 0 / P - last < q < t + 1 + nth (Z.to_nat (t + 1)) vals 0 / P - last ->
  nth (Z.to_nat q) (hbuild P vals last ++ tl) false = false.
Proof.
  intros HP. induction vals as [|v rest IH]; intros last tl t q Hs Hok Ht0 Ht Hq.
  - unfold zlen in Ht; cbn in Ht; lia.
  - cbn [hbuild hok] in *. rewrite zlen_cons in Ht. rewrite <- app_assoc. cbn [app].
    pose proof (hok_tail P v rest HP Hs) as Hok'. pose proof (sortedb_tail _ _ Hs) as Hs'.
    rewrite (nth_cons_pos v rest (t + 1)) in Hq by lia.
    destruct (Z.eq_dec t 0) as [->|Htn].
    + cbn [Z.to_nat nth] in Hq. replace (0 + 1 - 1) with 0 in Hq by lia.
      destruct rest as [|y r]; [unfold zlen in Ht; cbn in Ht; lia|].
      cbn [Z.to_nat nth] in Hq. cbn [hok] in Hok'.
      rewrite nth_app_r by (rewrite zlen_repeat; lia). rewrite zlen_repeat.
      rewrite nth_cons_pos by lia. cbn [hbuild]. rewrite <- app_assoc.
      rewrite nth_app_l by (rewrite zlen_repeat; lia). apply nth_repeat_Z.
    + rewrite (nth_cons_pos v rest t) in Hq by lia.
      assert (Hmono : v / P <= nth (Z.to_nat (t - 1)) rest 0 / P).
      { apply Z.div_le_mono; [lia|]. eapply sortedb_head_le; eauto. apply nth_In. unfold zlen in Ht. lia. }
      rewrite nth_app_r by (rewrite zlen_repeat; lia). rewrite zlen_repeat.
      rewrite nth_cons_pos by lia.
      apply (IH (v / P) tl (t - 1)); try assumption; try lia.
      replace (t - 1 + 1) with (t + 1 - 1) by lia. lia.
Qed.

(* ---------- prev_one ---------- *)
Lemma prev_one_none l idx pos best :
  (forall q, pos <= q <= idx -> nth (Z.to_nat (q - pos)) l false = false) -> prev_one l idx pos best = best.
Proof.
  revert pos best. induction l as [|x t IH]; intros pos best H; cbn [prev_one]; [reflexivity|].
  destruct (pos >? idx) eqn:E; [reflexivity|].
  pose proof (H pos ltac:(lia)) as Hx. replace (pos - pos) with 0 in Hx by lia. cbn in Hx. subst x.
  apply IH. intros q Hq. specialize (H q ltac:(lia)). rewrite nth_cons_pos in H by lia.
  etransitivity; [|exact H]. f_equal. lia.
Qed.
Lemma prev_one_spec l idx pos best p : pos <= p <= idx ->
  nth (Z.to_nat (p - pos)) l false = true ->
  (forall q, p < q <= idx -> nth (Z.to_nat (q - pos)) l false = false) ->
  prev_one l idx pos best = Some p.
Proof.
  revert pos best. induction l as [|x t IH]; intros pos best Hp H1 H0.
  - destruct (Z.to_nat (p - pos)); discriminate.
  - cbn [prev_one]. destruct (pos >? idx) eqn:E; [lia|].
    destruct (Z.eq_dec p pos) as [->|Hne].
    + replace (pos - pos) with 0 in H1 by lia. cbn in H1. subst x.
      apply prev_one_none. intros q Hq. specialize (H0 q ltac:(lia)).
      rewrite nth_cons_pos in H0 by lia. etransitivity; [|exact H0]. f_equal. lia.
    + apply IH; [lia| |].
      * rewrite nth_cons_pos in H1 by lia. etransitivity; [|exact H1]. f_equal. lia.
      * intros q Hq. specialize (H0 q Hq). rewrite nth_cons_pos in H0 by lia. etransitivity; [|exact H0]. f_equal. lia.
Qed.

(* ---------- the binary search ---------- *)
Lemma ef_bsearch_spec fuel : forall low lo count x k,
  0 <= lo -> 0 <= count < 2 ^ Z.of_nat fuel -> lo + count <= zlen low -> lo <= k <= lo + count ->
  (forall t, lo <= t < k -> nth (Z.to_nat t) low 0 < x) ->
  (forall t, k <= t < lo + count -> x <= nth (Z.to_nat t) low 0) ->
  ef_bsearch (S fuel) low lo count x = Ok k.
Proof.
  induction fuel as [|f IH]; intros low lo count x k Hlo Hc Hlen Hk H1 H2.
  - cbn [Z.of_nat Z.pow] in Hc. cbn [ef_bsearch]. destruct (count >? 0) eqn:E; [lia|]. f_equal; lia.
  - remember (S f) as sf. cbn [ef_bsearch]. destruct (count >? 0) eqn:E; [|f_equal; lia].
    assert (Hpow : 2 ^ Z.of_nat sf = 2 * 2 ^ Z.of_nat f).
    { subst sf. rewrite Nat2Z.inj_succ, Z.pow_succ_r by lia. reflexivity. }
    assert (Hstep : 0 <= count / 2 < count /\ count - (count / 2 + 1) <= count / 2).
    { pose proof (Z.div_mod count 2 ltac:(lia)). pose proof (Z.mod_pos_bound count 2 ltac:(lia)). lia. }
    assert (Hhalf : count / 2 < 2 ^ Z.of_nat f).
    { apply Z.div_lt_upper_bound; lia. }
    rewrite (nth_res_ok low (lo + count / 2) 0) by lia. cbn [bind].
    destruct (nth (Z.to_nat (lo + count / 2)) low 0 <? x) eqn:Em; subst sf.
    + apply IH; try lia.
      * destruct (Z.le_gt_cases k (lo + count / 2)) as [Hle|Hgt]; [|lia].
        specialize (H2 (lo + count / 2) ltac:(lia)). lia.
      * intros t Ht. apply H1. lia.
      * intros t Ht. apply H2. lia.
    + apply IH; try lia.
      * destruct (Z.le_gt_cases k (lo + count / 2)) as [Hle|Hgt]; [lia|].
        specialize (H1 (lo + count / 2) ltac:(lia)). lia.
      * intros t Ht. apply H1. lia.
      * intros t Ht. destruct (Z.le_gt_cases k (lo + count / 2)) as [Hle|Hgt].
        -- apply H2. lia.
        -- specialize (H1 (lo + count / 2) ltac:(lia)). lia.
Qed.

(* ---------- bit operations as division ---------- *)
Lemma land_mask wl v : 0 <= wl -> Z.land v (2 ^ wl - 1) = v mod 2 ^ wl.
Proof. intros Hw. replace (2 ^ wl - 1) with (Z.ones wl) by (rewrite Z.ones_equiv; lia). apply Z.land_ones; lia. Qed.
Lemma pow_pos wl : 0 <= wl -> 0 < 2 ^ wl.
Proof. intros. apply Z.pow_pos_nonneg; lia. Qed.

Lemma get_buckets_eq wl x : 0 <= wl -> 0 <= x -> get_buckets (x + 1) wl = x / 2 ^ wl + 1.
Proof.
  intros Hw Hx. unfold get_buckets. rewrite Z.shiftr_div_pow2, land_mask by lia.
  pose proof (pow_pos wl Hw) as HP. set (P := 2 ^ wl) in *. clearbody P.
  pose proof (Z.div_mod x P ltac:(lia)). pose proof (Z.mod_pos_bound x P HP).
  pose proof (Z.div_mod (x + 1) P ltac:(lia)). pose proof (Z.mod_pos_bound (x + 1) P HP).
  destruct ((x + 1) mod P =? 0) eqn:E; nia.
Qed.

(* ---------- the fields of ef_build ---------- *)
Section Build.
  Variables (wl : Z) (vals : list Z).
  Hypothesis Hwl : 0 <= wl.
  Hypothesis Hne : vals <> [].
  Hypothesis Hs : sortedb vals = true.
  Hypothesis Hhd : 0 <= hd 0 vals.
  Let P := 2 ^ wl.

  Lemma build_hok : hok P vals 0.
  Proof.
    destruct vals as [|v r]; [exact I|]. cbn [hok hd] in *. apply Z.div_pos; [lia|apply pow_pos; lia].
  Qed.
  Lemma build_last_nonneg : 0 <= last_z vals.
  Proof.
    rewrite last_z_nth by assumption. destruct vals as [|v r] eqn:Ev; [congruence|].
    cbn [hd] in Hhd. rewrite zlen_cons.
    pose proof (sorted_nth_mono (v :: r) 0 (1 + zlen r - 1) Hs) as Hm. pose proof (zlen_nonneg r).
    rewrite zlen_cons in Hm. specialize (Hm ltac:(lia) ltac:(lia)). change (nth (Z.to_nat 0) (v :: r) 0) with v in Hm. lia.
  Qed.
  Lemma ef_build_size : ef_size (ef_build wl vals) = last_z vals + 1.
  Proof. destruct vals; [congruence|reflexivity]. Qed.
  Lemma ef_build_wl : ef_wl (ef_build wl vals) = wl.
  Proof. destruct vals; [congruence|reflexivity]. Qed.
  Lemma ef_build_low : ef_low (ef_build wl vals) = map (fun v => v mod P) vals.
  Proof.
    destruct vals as [|v r]; [congruence|]. cbn [ef_build ef_low]. apply map_ext. intros a. apply land_mask; lia.
  Qed.
  Lemma ef_build_high : ef_high (ef_build wl vals) = hbuild P vals 0 ++ repeat false 1.
  Proof.
    pose proof build_hok as Hok. pose proof build_last_nonneg as Hl.
    pose proof (hbuild_len P vals 0 (pow_pos wl Hwl) Hs Hok) as Hlen.
    rewrite hlast_last in Hlen by assumption.
    destruct vals as [|v r] eqn:Ev; [congruence|]. cbn [ef_build ef_high]. rewrite <- Ev in *.
    rewrite ef_high_build_eq by lia. fold P. rewrite get_buckets_eq by lia. fold P. rewrite Hlen.
    f_equal. f_equal. lia.
  Qed.
End Build.

Lemma sorted_le_last l x : sortedb l = true -> In x l -> x <= last_z l.
Proof.
  intros Hs Hin. assert (Hne : l <> []) by (destruct l; [contradiction|congruence]).
  rewrite last_z_nth by assumption. destruct (In_nth l x 0 Hin) as [n [Hn <-]].
  replace n with (Z.to_nat (Z.of_nat n)) at 1 by lia.
  apply sorted_nth_mono; unfold zlen; try assumption; lia.
Qed.
Lemma nth_map_mod P l t : nth (Z.to_nat t) (map (fun v => v mod P) l) (0 mod P) = nth (Z.to_nat t) l 0 mod P.
Proof. apply (map_nth (fun v => v mod P)). Qed.
Lemma div_mod_recompose v P : 0 < P -> v mod P + v / P * P = v.
Proof. intros HP. pose proof (Z.div_mod v P ltac:(lia)). lia. Qed.

Section Pred.
  Variables (wl : Z) (vals : list Z).
  Hypothesis Hwl : 0 <= wl.
  Hypothesis Hne : vals <> [].
  Hypothesis Hss : ssortedb vals = true.
  Hypothesis Hhd : hd 0 vals = 0.
  Let P := 2 ^ wl.
  Let e := ef_build wl vals.

  Lemma P_pos : 0 < P. Proof. apply pow_pos; assumption. Qed.
  Lemma Hs : sortedb vals = true. Proof. apply ssortedb_sortedb; assumption. Qed.
  Lemma Hhd' : 0 <= hd 0 vals. Proof. lia. Qed.
  Lemma len_pos : 1 <= zlen vals.
  Proof. destruct vals; [congruence|]. rewrite zlen_cons. pose proof (zlen_nonneg l). lia. Qed.

  (* branch 1: i >= size - 1 *)
  Lemma ef_pred_last i : last_z vals <= i ->
    ef_pred e i = Ok (ub vals i - 1, nth (Z.to_nat (ub vals i - 1)) vals 0).
  Proof.
    intros Hi. pose proof P_pos as HP. pose proof Hs as Hs. pose proof Hhd' as Hh. pose proof len_pos as Hl.
    assert (Eub : ub vals i = zlen vals).
    { apply ub_all. intros x Hx. pose proof (sorted_le_last vals x Hs Hx). lia. }
    rewrite Eub. unfold ef_pred, select1, e.
    rewrite ef_build_size, ef_build_wl, ef_build_low, ef_build_high by assumption. fold P.
    assert (E1 : i >=? last_z vals + 1 - 1 = true) by lia. rewrite E1.
    rewrite zlen_map. rewrite (nth_res_ok _ (zlen vals - 1) (0 mod P)) by (rewrite zlen_map; lia).
    cbn [bind]. assert (E2 : zlen vals <=? 0 = false) by lia. rewrite E2.
    assert (Hok : hok P vals 0) by (apply build_hok; assumption).
    rewrite (hb_select1 P vals HP 0 _ (zlen vals) 0 Hs Hok) by lia.
    cbn [bind]. rewrite nth_map_mod. rewrite Z.shiftl_mul_pow2 by lia. fold P.
    f_equal. f_equal. set (v := nth (Z.to_nat (zlen vals - 1)) vals 0).
    replace (0 + (zlen vals - 1) + v / P - 0 + 1 - zlen vals) with (v / P) by lia.
    apply div_mod_recompose; assumption.
  Qed.

  (* ---- branch 2: 0 <= i < last ---- *)
  Lemma lb_head0 q : lb vals q = if 0 <? q then 1 + lb (tl vals) q else 0.
  Proof. destruct vals as [|v r]; [congruence|]. cbn [hd] in Hhd. subst v. reflexivity. Qed.
  Lemma lb_lt_len q : q <= last_z vals -> lb vals q < zlen vals.
  Proof.
    intros Hq. pose proof (lb_le_len vals q) as Hle. pose proof len_pos as Hl.
    destruct (Z.eq_dec (lb vals q) (zlen vals)) as [E|]; [|lia].
    destruct (lb_spec vals q Hs) as [S1 _]. specialize (S1 (zlen vals - 1) ltac:(lia)).
    rewrite <- last_z_nth in S1 by assumption. lia.
  Qed.
  Lemma hlast_eq : hlast P vals 0 = last_z vals / P.
  Proof. apply hlast_last; assumption. Qed.
  Lemma hokP : hok P vals 0.
  Proof. apply build_hok; try assumption. apply Hs. apply Hhd'. Qed.
  Lemma high_len : zlen (ef_high e) = zlen vals + last_z vals / P + 1.
  Proof.
    unfold e. rewrite ef_build_high; try assumption; [|apply Hs|apply Hhd']. fold P.
    rewrite zlen_app, zlen_repeat, hbuild_len; [|apply P_pos|apply Hs|apply hokP]. rewrite hlast_eq. lia.
  Qed.

  (* select0 never leaves the population for bucket numbers up to the last value's *)
  Lemma sel0_ok h : 0 <= h <= last_z vals / P ->
    select0 e (h + 1) = Ok (h + lb vals ((h + 1) * P)).
  Proof.
    intros Hh. unfold select0, e. rewrite ef_build_high; try assumption; [|apply Hs|apply Hhd']. fold P.
    assert (E : h + 1 <=? 0 = false) by lia. rewrite E.
    rewrite hb_select0; [|apply P_pos|apply Hs|apply hokP|rewrite hlast_eq; lia].
    f_equal. rewrite !Z.add_0_l. lia.
  Qed.

  Section Branch2.
    Variable i : Z.
    Hypothesis Hi0 : 0 <= i.
    Hypothesis Hi1 : i < last_z vals.
    Let hv := (i + 1) / P.
    Let RH := lb vals ((hv + 1) * P).
    Let RL0 := lb vals (hv * P).
    Let K := lb vals (i + 1).

    Lemma hv_bounds : 0 <= hv <= last_z vals / P /\ hv * P <= i + 1 < (hv + 1) * P.
    Proof.
      pose proof P_pos as HP. unfold hv. split.
      - split; [apply Z.div_pos; lia|apply Z.div_le_mono; lia].
      - pose proof (Z.div_mod (i + 1) P ltac:(lia)). pose proof (Z.mod_pos_bound (i + 1) P HP). lia.
    Qed.
    Lemma ranks : 0 <= RL0 <= K /\ 1 <= K <= RH /\ K < zlen vals /\ RH <= zlen vals.
    Proof.
      destruct hv_bounds as [_ [Hb1 Hb2]]. unfold RL0, K, RH.
      pose proof (lb_nonneg vals (hv * P)). pose proof (lb_mono vals (hv * P) (i + 1) Hb1).
      pose proof (lb_mono vals (i + 1) ((hv + 1) * P) ltac:(lia)).
      pose proof (lb_lt_len (i + 1) ltac:(lia)). pose proof (lb_le_len vals ((hv + 1) * P)).
      pose proof (lb_head0 (i + 1)) as Hh. pose proof (lb_nonneg (tl vals) (i + 1)).
      destruct (0 <? i + 1) eqn:E; lia.
    Qed.
    Lemma rank_lo0_eq :
      (if hv =? 0 then Ok 0 else do s <- select0 e hv; Ok (s - hv + 1)) = Ok RL0.
    Proof.
      destruct hv_bounds as [Hh _]. destruct (hv =? 0) eqn:E.
      - unfold RL0. assert (hv = 0) as -> by lia. rewrite lb_head0. cbn. reflexivity.
      - pose proof (sel0_ok (hv - 1) ltac:(lia)) as Hsel. replace (hv - 1 + 1) with hv in Hsel by lia.
        rewrite Hsel. cbn [bind]. unfold RL0. f_equal. lia.
    Qed.

    Lemma in_bucket_mod v : hv * P <= v < (hv + 1) * P -> v / P = hv /\ v mod P = v - hv * P.
    Proof.
      intros Hv. pose proof P_pos as HP.
      pose proof (Z.div_mod v P ltac:(lia)). pose proof (Z.mod_pos_bound v P HP).
      assert (v / P = hv) by nia. split; [assumption|]. nia.
    Qed.
    Lemma in_bucket t : RL0 <= t < RH -> hv * P <= nth (Z.to_nat t) vals 0 < (hv + 1) * P.
    Proof.
      intros Ht. pose proof ranks as Hr.
      destruct (lb_spec vals (hv * P) Hs) as [_ S2]. destruct (lb_spec vals ((hv + 1) * P) Hs) as [S1 _].
      fold RL0 in S2. fold RH in S1. specialize (S2 t ltac:(lia)). specialize (S1 t ltac:(lia)). lia.
    Qed.

    Lemma low_eq : ef_low e = map (fun v => v mod P) vals.
    Proof. unfold e. rewrite ef_build_low; try assumption; [reflexivity|apply Hs|apply Hhd']. Qed.
    Lemma high_eq : ef_high e = hbuild P vals 0 ++ repeat false 1.
    Proof. unfold e. rewrite ef_build_high; try assumption; [reflexivity|apply Hs|apply Hhd']. Qed.

    Hypothesis Hlen : zlen vals < 2 ^ 62.

    Lemma bsearch_eq :
      ef_bsearch 70 (ef_low e) RL0 (RH - RL0) ((i + 1) mod P) = Ok K.
    Proof.
      pose proof ranks as Hr. destruct hv_bounds as [_ Hb].
      destruct (in_bucket_mod (i + 1) Hb) as [_ Ei].
      rewrite low_eq.
      destruct (lb_spec vals (i + 1) Hs) as [S1 S2]. fold K in S1, S2.
      apply ef_bsearch_spec; try rewrite zlen_map; try lia.
      - intros t Ht. replace 0 with (0 mod P) at 2 by (apply Z.mod_0_l; pose proof P_pos; lia).
        rewrite nth_map_mod. destruct (in_bucket_mod _ (in_bucket t ltac:(lia))) as [_ ->].
        specialize (S1 t ltac:(lia)). lia.
      - intros t Ht. replace 0 with (0 mod P) at 1 by (apply Z.mod_0_l; pose proof P_pos; lia).
        rewrite nth_map_mod. destruct (in_bucket_mod _ (in_bucket t ltac:(lia))) as [_ ->].
        specialize (S2 t ltac:(lia)). lia.
    Qed.

    Let R := K - 1.
    Lemma neighbours : nth (Z.to_nat R) vals 0 <= i /\ i + 1 <= nth (Z.to_nat K) vals 0 /\
      0 <= nth (Z.to_nat R) vals 0 / P <= hv /\ hv <= nth (Z.to_nat K) vals 0 / P.
    Proof.
      pose proof ranks as Hr. pose proof P_pos as HP.
      destruct (lb_spec vals (i + 1) Hs) as [S1 S2]. fold K in S1, S2.
      specialize (S1 R ltac:(unfold R; lia)). specialize (S2 K ltac:(lia)).
      assert (H0 : 0 <= nth (Z.to_nat R) vals 0).
      { pose proof (sorted_nth_mono vals 0 R Hs ltac:(unfold R; lia) ltac:(unfold R; lia)) as Hm.
        change (Z.to_nat 0) with 0%nat in Hm. pose proof Hhd as Hh0.
        destruct vals; [congruence|]. cbn [hd nth] in *. lia. }
      repeat split; try lia.
      - apply Z.div_pos; lia.
      - unfold hv. apply Z.div_le_mono; lia.
      - unfold hv. apply Z.div_le_mono; lia.
    Qed.

    Lemma high_read : exists hb, nth_res (ef_high e) (hv + R) = Ok hb /\
      (if hb then Ok hv
       else match prev_one (ef_high e) (hv + R) 0 None with Some p => Ok (p - R) | None => Err OutOfBounds end)
      = Ok (nth (Z.to_nat R) vals 0 / P).
    Proof.
      pose proof ranks as Hr. pose proof P_pos as HP. destruct neighbours as [N1 [N2 [N3 N4]]].
      destruct hv_bounds as [Hh _]. pose proof high_len as HL. pose proof hokP as Hok. pose proof Hs as Hsd.
      exists (nth (Z.to_nat (hv + R)) (ef_high e) false). split.
      - apply nth_res_ok. unfold R. lia.
      - rewrite high_eq. set (vR := nth (Z.to_nat R) vals 0) in *.
        assert (Hone : nth (Z.to_nat (R + vR / P - 0)) (hbuild P vals 0 ++ repeat false 1) false = true).
        { apply hb_nth_one; try assumption. unfold R; lia. }
        destruct (Z.eq_dec (vR / P) hv) as [Eq|Hneq].
        + replace (hv + R) with (R + vR / P - 0) by lia. rewrite Hone. f_equal. lia.
        + assert (Hgap : forall q, R + vR / P < q <= hv + R ->
                     nth (Z.to_nat q) (hbuild P vals 0 ++ repeat false 1) false = false).
          { intros q Hq. apply (hb_nth_gap P vals HP 0 _ R q); try assumption; try (unfold R; lia).
            fold vR. replace (R + 1) with K by (unfold R; lia). lia. }
          rewrite (Hgap (hv + R)) by lia.
          rewrite (prev_one_spec _ (hv + R) 0 None (R + vR / P)).
          * f_equal. lia.
          * unfold R. lia.
          * rewrite Z.sub_0_r in *. exact Hone.
          * intros q Hq. rewrite Z.sub_0_r. apply Hgap. lia.
    Qed.

    Lemma size_eq : ef_size e = last_z vals + 1.
    Proof. unfold e. apply ef_build_size; try assumption; [apply Hs|apply Hhd']. Qed.
    Lemma wl_eq : ef_wl e = wl.
    Proof. unfold e. apply ef_build_wl; try assumption; [apply Hs|apply Hhd']. Qed.

    Lemma ef_pred_inner : ef_pred e i = Ok (R, nth (Z.to_nat R) vals 0).
    Proof.
      pose proof ranks as Hr. pose proof P_pos as HP. destruct hv_bounds as [Hh Hb].
      unfold ef_pred. cbv zeta. rewrite size_eq, wl_eq.
      assert (E1 : i >=? last_z vals + 1 - 1 = false) by lia. rewrite E1.
      rewrite land_mask by assumption.
      rewrite !Z.shiftr_div_pow2 by assumption. fold P. fold hv.
      rewrite (sel0_ok hv Hh). fold RH. cbn [bind].
      assert (E2 : hv + RH - hv =? 0 = false) by lia. rewrite E2.
      rewrite rank_lo0_eq. cbn [bind].
      replace (hv + RH - hv) with RH by lia. rewrite bsearch_eq. cbn [bind].
      replace (hv + RH - (RH - (K - 1))) with (hv + R) by (unfold R; lia). fold R.
      destruct high_read as [hb [Hrd Hh2]]. rewrite Hrd. cbn [bind]. rewrite Hh2. cbn [bind].
      rewrite low_eq. rewrite (nth_res_ok _ R (0 mod P)) by (rewrite zlen_map; unfold R; lia).
      cbn [bind]. rewrite nth_map_mod. rewrite Z.shiftl_mul_pow2 by assumption. fold P.
      rewrite div_mod_recompose by assumption. reflexivity.
    Qed.
  End Branch2.

  Theorem ef_pred_spec_sec i : 0 <= i -> zlen vals < 2 ^ 62 ->
    ef_pred e i = Ok (ub vals i - 1, nth (Z.to_nat (ub vals i - 1)) vals 0).
  Proof.
    intros Hi Hlen. destruct (Z.le_gt_cases (last_z vals) i) as [Hge|Hlt].
    - apply ef_pred_last; assumption.
    - rewrite (ef_pred_inner i Hi Hlt Hlen). rewrite lb_succ_ub. reflexivity.
  Qed.
End Pred.

(* ================= main theorems ================= *)
(* `zlen vals < 2^62` is needed: ef_bsearch carries a fixed fuel of 70 (model artefact; any real
   container is far below that). *)
Theorem ef_pred_spec : forall wl vals i,
  0 <= wl -> vals <> [] -> ssortedb vals = true -> hd 0 vals = 0 -> 0 <= i -> zlen vals < 2 ^ 62 ->
  ef_pred (ef_build wl vals) i = Ok (ub vals i - 1, nth (Z.to_nat (ub vals i - 1)) vals 0).
Proof. intros wl vals i Hwl Hne Hss Hhd Hi Hlen. apply ef_pred_spec_sec; assumption. Qed.

Theorem ef_pred_no_error : forall wl vals i,
  0 <= wl -> vals <> [] -> ssortedb vals = true -> hd 0 vals = 0 -> 0 <= i -> zlen vals < 2 ^ 62 ->
  exists r o, ef_pred (ef_build wl vals) i = Ok (r, o).
Proof. intros. eexists. eexists. apply ef_pred_spec; assumption. Qed.

(* the returned index is a valid one and its value is the rightmost one <= i *)
Lemma ub_nonneg l q : 0 <= ub l q.
Proof. induction l as [|x t IH]; cbn [ub]; [lia|]. destruct (x <=? q); lia. Qed.
Lemma ub_le_len l q : ub l q <= zlen l.
Proof. induction l as [|x t IH]; [unfold zlen; cbn; lia|]. cbn [ub]. rewrite zlen_cons. pose proof (zlen_nonneg t). destruct (x <=? q); lia. Qed.
Corollary ef_pred_rightmost : forall wl vals i r o,
  0 <= wl -> vals <> [] -> ssortedb vals = true -> hd 0 vals = 0 -> 0 <= i -> zlen vals < 2 ^ 62 ->
  ef_pred (ef_build wl vals) i = Ok (r, o) ->
  0 <= r < zlen vals /\ o = nth (Z.to_nat r) vals 0 /\ o <= i /\
  (forall t, r < t < zlen vals -> i < nth (Z.to_nat t) vals 0).
Proof.
  intros wl vals i r o Hwl Hne Hss Hhd Hi Hlen Hp.
  rewrite ef_pred_spec in Hp by assumption. injection Hp as <- <-.
  pose proof (ssortedb_sortedb _ Hss) as Hs. rewrite <- lb_succ_ub.
  destruct (lb_spec vals (i + 1) Hs) as [S1 S2]. pose proof (lb_le_len vals (i + 1)).
  assert (1 <= lb vals (i + 1)).
  { destruct vals as [|v rest]; [congruence|]. cbn [hd] in Hhd. subst v. cbn [lb].
    pose proof (lb_nonneg rest (i + 1)). destruct (0 <? i + 1) eqn:E; lia. }
  repeat split; try lia.
  - specialize (S1 (lb vals (i + 1) - 1) ltac:(lia)). lia.
  - intros t Ht. specialize (S2 t ltac:(lia)). lia.
Qed.

(* ---------- decoding: the structure stores exactly the values ---------- *)
Lemma ef_decode_zeros wl low (m : nat) h z :
  ef_decode wl low (repeat false m ++ h) z = ef_decode wl low h (z + Z.of_nat m).
Proof.
  revert z. induction m as [|m IH]; intros z.
  - cbn [repeat app]. f_equal. lia.
  - cbn [repeat app ef_decode]. rewrite IH. f_equal. lia.
Qed.
Lemma ef_decode_hbuild wl vals : 0 <= wl -> forall last (pad : nat), sortedb vals = true -> hok (2 ^ wl) vals last ->
  ef_decode wl (map (fun v => v mod 2 ^ wl) vals) (hbuild (2 ^ wl) vals last ++ repeat false pad) last = vals.
Proof.
  intros Hwl. pose proof (pow_pos wl Hwl) as HP.
  induction vals as [|v rest IH]; intros last pad Hs Hok.
  - cbn [map hbuild app]. rewrite <- (app_nil_r (repeat false pad)). rewrite ef_decode_zeros. reflexivity.
  - cbn [map hbuild hok] in *. rewrite <- app_assoc. rewrite ef_decode_zeros. cbn [app ef_decode].
    replace (last + Z.of_nat (Z.to_nat (v / 2 ^ wl - last))) with (v / 2 ^ wl) by lia.
    rewrite Z.shiftl_mul_pow2 by assumption. rewrite div_mod_recompose by assumption.
    f_equal. apply IH; [eapply sortedb_tail; eauto|apply hok_tail; auto].
Qed.

Theorem ef_values_build : forall wl vals,
  0 <= wl -> sortedb vals = true -> 0 <= hd 0 vals -> ef_values (ef_build wl vals) = vals.
Proof.
  intros wl vals Hwl Hs Hhd. destruct vals as [|v rest] eqn:Ev; [reflexivity|]. rewrite <- Ev in *.
  assert (Hne : vals <> []) by (rewrite Ev; congruence).
  unfold ef_values. rewrite ef_build_wl, ef_build_low, ef_build_high by assumption.
  apply ef_decode_hbuild; try assumption. apply build_hok; assumption.
Qed.
Corollary ef_values_build_strict : forall wl vals,
  0 <= wl -> ssortedb vals = true -> hd 0 vals = 0 -> ef_values (ef_build wl vals) = vals.
Proof. intros wl vals Hwl Hss Hhd. apply ef_values_build; [assumption|apply ssortedb_sortedb; assumption|lia]. Qed.

Print Assumptions ef_pred_spec.
Print Assumptions ef_pred_no_error.
Print Assumptions ef_pred_rightmost.
Print Assumptions ef_values_build.

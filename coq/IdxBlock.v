(* IdxBlock.v — one segment, one evaluation: from "the fed points of the block are within eps + 1/2
   of the reported line, slope >= 0" and the floating-point interface `eval_ok` to bounds on the
   value Segment::operator() returns, and on min(value, next intercept). *)
Require Import Base Fp PlaModel PlaSpec GenLeaf IndexModel IndexProofs IdxFed IdxSeg.
From Coq Require Import ZifyBool.
Local Open Scope Z_scope.

(* the floating-point interface: one evaluation of segment s (exact slope dy/dx) at key k >= sg_key s *)
Definition eval_ok (c : cfg) (dx dy : Z) (s : segment) (k : Z) : Prop :=
  (exists t, seg_eval c s k = t + sg_icpt s /\ 0 <= t /\ ev_close dx dy (k - sg_key s) t)
  \/ (2 ^ 32 <= seg_eval c s k /\ 2 ^ 32 * dx <= dy * (k - sg_key s)).

(* the same interface with one more way out: the computed and the exact value are both at or above a
   threshold T that the caller knows to be at or above the cap min(., next intercept) of the level
   (T = level size + eps in level_query_split).  eval_ok is the special case where that disjunct is
   not needed; for Floating = float it is what holds in the zone [2^22, 2^33) of exact positions where
   the product is neither within 1/2 of the exact value nor known to reach 2^32 (FloatOkCap.v). *)
Definition eval_ok_cap (T : Z) (c : cfg) (dx dy : Z) (s : segment) (k : Z) : Prop :=
  eval_ok c dx dy s k \/ (T <= seg_eval c s k /\ T * dx <= dy * (k - sg_key s)).

Lemma eval_ok_cap_of T c dx dy s k : eval_ok c dx dy s k -> eval_ok_cap T c dx dy s k.
Proof. intros H. left. exact H. Qed.

(* |dy/dx * (x - first) + icpt - y| <= eps + 1/2 *)
Definition close_at (eps dx dy first icpt : Z) (p : Z * Z) : Prop :=
  2 * Z.abs (dy * (fst p - first) + (icpt - snd p) * dx) <= (2 * eps + 1) * dx.

Lemma ev_lower eps dx dy first icpt p k t :
  0 < dx -> 0 <= dy -> fst p <= k -> close_at eps dx dy first icpt p ->
  ev_close dx dy (k - first) t -> snd p - eps - 1 <= t + icpt.
Proof.
  destruct p as [xp yp]. unfold close_at, ev_close. cbn [fst snd]. intros Hdx Hdy Hk Hc [H1 _].
  assert (Hm : dy * (xp - first) <= dy * (k - first)) by nia.
  assert (2 * dx * (t + icpt) > 2 * dx * (yp - eps - 2)) by nia.
  nia.
Qed.

Lemma ev_upper eps dx dy first icpt p k t :
  0 < dx -> 0 <= dy -> k <= fst p -> close_at eps dx dy first icpt p ->
  ev_close dx dy (k - first) t -> t + icpt <= snd p + eps.
Proof.
  destruct p as [xp yp]. unfold close_at, ev_close. cbn [fst snd]. intros Hdx Hdy Hk Hc [_ H2].
  assert (Hm : dy * (k - first) <= dy * (xp - first)) by nia.
  assert (2 * dx * (t + icpt) < 2 * dx * (yp + eps + 1)) by nia.
  nia.
Qed.

Lemma far_upper_T T eps dx dy first icpt p k :
  0 < dx -> 0 <= dy -> k <= fst p -> close_at eps dx dy first icpt p ->
  T * dx <= dy * (k - first) -> T + icpt <= snd p + eps.
Proof.
  destruct p as [xp yp]. unfold close_at. cbn [fst snd]. intros Hdx Hdy Hk Hc Hf.
  assert (Hm : dy * (k - first) <= dy * (xp - first)) by nia.
  assert (2 * dx * (T + icpt) < 2 * dx * (yp + eps + 1)) by nia.
  nia.
Qed.

Lemma far_upper eps dx dy first icpt p k :
  0 < dx -> 0 <= dy -> k <= fst p -> close_at eps dx dy first icpt p ->
  2 ^ 32 * dx <= dy * (k - first) -> 2 ^ 32 + icpt <= snd p + eps.
Proof. exact (far_upper_T (2 ^ 32) eps dx dy first icpt p k). Qed.

Lemma eval_nonneg c dx dy s k : eval_ok c dx dy s k -> 0 <= sg_icpt s -> 0 <= seg_eval c s k.
Proof. intros [(t & -> & Ht & _)|[H _]] Hi; lia. Qed.

Lemma eval_lower c eps dx dy s k p :
  eval_ok c dx dy s k -> 0 < dx -> 0 <= dy -> fst p <= k ->
  close_at eps dx dy (sg_key s) (sg_icpt s) p -> snd p - eps - 1 <= 2 ^ 32 ->
  snd p - eps - 1 <= seg_eval c s k.
Proof.
  intros [(t & -> & Ht & Hc)|[H _]] Hdx Hdy Hk Hcl Hb; [|lia].
  eapply ev_lower; eauto.
Qed.

Lemma eval_upper_cap c eps dx dy s k p cap :
  eval_ok c dx dy s k -> 0 < dx -> 0 <= dy -> k <= fst p ->
  close_at eps dx dy (sg_key s) (sg_icpt s) p -> cap < 2 ^ 32 -> 0 <= sg_icpt s ->
  Z.min (seg_eval c s k) cap <= snd p + eps.
Proof.
  intros [(t & -> & Ht & Hc)|[H Hf]] Hdx Hdy Hk Hcl Hcap Hi.
  - pose proof (ev_upper eps dx dy (sg_key s) (sg_icpt s) p k t Hdx Hdy Hk Hcl Hc). lia.
  - pose proof (far_upper eps dx dy (sg_key s) (sg_icpt s) p k Hdx Hdy Hk Hcl Hf). lia.
Qed.

(* the three consumers again, for eval_ok_cap *)
Lemma eval_cap_nonneg T c dx dy s k : eval_ok_cap T c dx dy s k -> 0 <= T -> 0 <= sg_icpt s -> 0 <= seg_eval c s k.
Proof. intros [H|[H _]] HT Hi; [exact (eval_nonneg c dx dy s k H Hi) | lia]. Qed.

Lemma eval_cap_lower T c eps dx dy s k p :
  eval_ok_cap T c dx dy s k -> 0 < dx -> 0 <= dy -> fst p <= k ->
  close_at eps dx dy (sg_key s) (sg_icpt s) p -> snd p - eps - 1 <= 2 ^ 32 -> snd p - eps - 1 <= T ->
  snd p - eps - 1 <= seg_eval c s k.
Proof.
  intros [H|[H _]] Hdx Hdy Hk Hcl Hb HbT; [|lia].
  exact (eval_lower c eps dx dy s k p H Hdx Hdy Hk Hcl Hb).
Qed.

Lemma eval_cap_upper_cap T c eps dx dy s k p cap :
  eval_ok_cap T c dx dy s k -> 0 < dx -> 0 <= dy -> k <= fst p ->
  close_at eps dx dy (sg_key s) (sg_icpt s) p -> cap < 2 ^ 32 -> cap <= T -> 0 <= sg_icpt s ->
  Z.min (seg_eval c s k) cap <= snd p + eps.
Proof.
  intros [H|[H Hf]] Hdx Hdy Hk Hcl Hcap HcapT Hi.
  - exact (eval_upper_cap c eps dx dy s k p cap H Hdx Hdy Hk Hcl Hcap Hi).
  - pose proof (far_upper_T T eps dx dy (sg_key s) (sg_icpt s) p k Hdx Hdy Hk Hcl Hf). lia.
Qed.

(* a flat segment (slope 0): the interface says the value is the intercept *)
Lemma eval_flat c s k : eval_ok c 1 0 s k -> seg_eval c s k = sg_icpt s.
Proof.
  intros [(t & -> & Ht & [H1 H2])|[_ H]]; [|lia]. lia.
Qed.

Lemma seg_of_cseg_spec c cs s : segment_of_cseg c cs = Ok s ->
  sg_key s = c_first cs /\ sg_icpt s = snd (cseg_line cs (c_first cs)) /\ 0 <= sg_icpt s < 2 ^ 32.
Proof.
  unfold segment_of_cseg. destruct (cseg_line cs (c_first cs)) as [sl icpt]. cbn [snd].
  destruct (icpt >? 2 ^ 32 - 1) eqn:E1; [discriminate|].
  destruct (icpt <? 0) eqn:E2; [discriminate|].
  intros H. injection H as <-. cbn [sg_key sg_icpt]. repeat split; lia.
Qed.

Lemma line_ok_close c eps cs b s : line_ok eps cs b -> segment_of_cseg c cs = Ok s ->
  let sl := fst (cseg_line cs (c_first cs)) in
  0 < fst sl /\ 0 <= snd sl /\ sg_key s = fst (hd (0, 0) b) /\
  Forall (close_at eps (fst sl) (snd sl) (sg_key s) (sg_icpt s)) b.
Proof.
  intros (Hne & Hf & Hdx & Hdy & Hcl) Hs sl.
  destruct (seg_of_cseg_spec c cs s Hs) as (Hk & Hi & _).
  split; [exact Hdx|]. split; [exact Hdy|]. split; [rewrite Hk; exact Hf|].
  eapply Forall_impl; [|exact Hcl]. intros [x y]. unfold reported_line_close, close_at.
  rewrite Hk, Hi. subst sl. destruct (cseg_line cs (c_first cs)) as [sl icpt]. cbn [fst snd]. tauto.
Qed.

Lemma close_at_first eps dx dy x icpt y : 0 < dx -> close_at eps dx dy x icpt (x, y) -> y - eps <= icpt <= y + eps.
Proof. unfold close_at. cbn [fst snd]. intros Hdx H. rewrite Z.sub_diag, Z.mul_0_r, Z.add_0_l in H. nia. Qed.

Lemma incr_hd_min (a : Z * Z) t p : incr (a :: t) -> In p (a :: t) -> fst a <= fst p /\ snd a <= snd p.
Proof.
  cbn [incr]. intros [Hf _] [<-|Hp]; [lia|]. rewrite Forall_forall in Hf. destruct (Hf p Hp). lia.
Qed.

Definition next_ok (eps k cap : Z) (g2 : list (list (Z * Z))) : Prop :=
  match g2 with
  | [] => True
  | b' :: _ => b' <> [] /\ k < fst (hd (0, 0) b') /\
               snd (hd (0, 0) b') - eps <= cap <= snd (hd (0, 0) b') + eps
  end.

Lemma hd_In_ne (b : list (Z * Z)) : b <> [] -> In (hd (0, 0) b) b.
Proof. destruct b; [contradiction|]. left. reflexivity. Qed.

Section Level.
  Variables (c : cfg) (eps dx dy k cap T : Z) (s : segment).
  Variables (g1 g2 : list (list (Z * Z))) (b : list (Z * Z)).
  Hypothesis Hincr : incr (concat g1 ++ b ++ concat g2).
  Hypothesis Hb : b <> [].
  Hypothesis Hdx : 0 < dx.
  Hypothesis Hdy : 0 <= dy.
  Hypothesis Hclose : Forall (close_at eps dx dy (sg_key s) (sg_icpt s)) b.
  Hypothesis Hev : eval_ok_cap T c dx dy s k.
  Hypothesis Hkey : fst (hd (0, 0) b) <= k.
  Hypothesis Hnext : next_ok eps k cap g2.

  Lemma hd_In_b : In (hd (0, 0) b) b.
  Proof. apply hd_In_ne. exact Hb. Qed.

  Lemma g2_after p q : In p b -> In q (concat g2) -> plt p q.
  Proof.
    intros Hp Hq. apply incr_app in Hincr. destruct Hincr as (_ & H & _).
    apply incr_app in H. destruct H as (_ & _ & H). apply H; assumption.
  Qed.
  Lemma g1_before p q : In p (concat g1) -> In q b -> plt p q.
  Proof.
    intros Hp Hq. apply incr_app in Hincr. destruct Hincr as (_ & _ & H).
    apply H; [exact Hp | apply in_or_app; left; exact Hq].
  Qed.

  Lemma g2_gt q : In q (concat g2) -> k < fst q /\ cap <= snd q + eps.
  Proof.
    intros Hq. destruct g2 as [|b' g2']; [contradiction|]. cbn [next_ok] in Hnext.
    destruct Hnext as (Hb' & Hk & Hc). cbn [concat] in Hq.
    destruct b' as [|a t]; [contradiction|]. cbn [hd] in *.
    assert (Hi : incr ((a :: t) ++ concat g2')).
    { apply incr_app in Hincr. destruct Hincr as (_ & H & _). apply incr_app in H.
      destruct H as (_ & H & _). exact H. }
    cbn [app] in Hi, Hq. destruct (incr_hd_min a _ q Hi Hq). lia.
  Qed.

  Hypothesis Hsmall : forall p, In p b -> snd p - eps - 1 <= 2 ^ 32 /\ snd p - eps - 1 <= T.

  (* a point of the block at or before k whose rank is at least that of Q *)
  Lemma block_point Q : In Q (concat g1 ++ b ++ concat g2) -> fst Q <= k ->
    exists P, In P b /\ fst P <= k /\ snd Q <= snd P.
  Proof.
    intros HQ Hx. apply in_app_or in HQ. destruct HQ as [HQ|HQ].
    - exists (hd (0, 0) b). split; [exact hd_In_b|]. split; [exact Hkey|].
      destruct (g1_before Q _ HQ hd_In_b). lia.
    - apply in_app_or in HQ. destruct HQ as [HQ|HQ].
      + exists Q. split; [exact HQ|]. split; [exact Hx | lia].
      + destruct (g2_gt Q HQ). lia.
  Qed.

  Lemma level_lower Q : In Q (concat g1 ++ b ++ concat g2) -> fst Q <= k ->
    (g2 = [] -> snd Q - eps - 1 <= cap) ->
    snd Q - eps - 1 <= Z.min (seg_eval c s k) cap.
  Proof.
    intros HQ Hx Hcap. destruct (block_point Q HQ Hx) as (P & HP & HPx & HPy).
    assert (Hclp : close_at eps dx dy (sg_key s) (sg_icpt s) P) by (rewrite Forall_forall in Hclose; auto).
    pose proof (eval_cap_lower T c eps dx dy s k P Hev Hdx Hdy HPx Hclp (proj1 (Hsmall P HP)) (proj2 (Hsmall P HP))) as Hl.
    apply Z.min_glb; [lia|].
    pose proof (g2_after P) as HA. clear Hl Hclp HQ.
    destruct g2 as [|b' g2']; [apply Hcap; reflexivity|].
    cbn [next_ok] in Hnext. destruct Hnext as (Hb' & Hk & Hc).
    assert (Hin : In (hd (0, 0) b') (concat (b' :: g2'))).
    { cbn [concat]. apply in_or_app. left. destruct b'; [contradiction|]. left. reflexivity. }
    destruct (HA _ HP Hin). lia.
  Qed.

  Lemma level_upper Q' : In Q' (concat g1 ++ b ++ concat g2) -> k <= fst Q' ->
    cap < 2 ^ 32 -> cap <= T -> 0 <= sg_icpt s ->
    Z.min (seg_eval c s k) cap <= snd Q' + eps.
  Proof.
    intros HQ Hx Hcap HcapT Hi. apply in_app_or in HQ. destruct HQ as [HQ|HQ].
    - destruct (g1_before Q' _ HQ hd_In_b). lia.
    - apply in_app_or in HQ. destruct HQ as [HQ|HQ].
      + assert (Hclp : close_at eps dx dy (sg_key s) (sg_icpt s) Q') by (rewrite Forall_forall in Hclose; auto).
        exact (eval_cap_upper_cap T c eps dx dy s k Q' cap Hev Hdx Hdy Hx Hclp Hcap HcapT Hi).
      + destruct (g2_gt Q' HQ). lia.
  Qed.
End Level.

(* ---- the fed points around a query key ---- *)
Section Rank.
  Variables (kt : ktype) (data : list Z).
  Hypothesis Hne : data <> [].
  Hypothesis Hs : sortedb data = true.
  Hypothesis Hw : nowrap kt data.
  Variable k : Z.
  Let n := zlen data.
  Let r := lb data k.

  Lemma lb_dat : (forall i, 0 <= i < r -> dat data i < k) /\ (forall i, r <= i < n -> k <= dat data i).
  Proof. exact (lb_spec data k Hs). Qed.

  Lemma r_range : 0 <= r <= n.
  Proof. split; [apply lb_nonneg | apply lb_le_len]. Qed.

  (* the first-occurrence point at index lb(k) is at or after k *)
  Lemma claimB : r < n -> In (dat data r, r) (fed_spec kt data) /\ k <= dat data r.
  Proof.
    intros Hr. destruct lb_dat as [L1 L2]. pose proof r_range as Hrr.
    split; [|apply L2; lia]. apply (spec_first_occ kt data Hne Hs Hw).
    split; [fold n; lia|]. destruct (Z.eq_dec r 0) as [E|E]; [left; exact E|right].
    pose proof (L1 (r - 1) ltac:(lia)). pose proof (L2 r ltac:(lia)). lia.
  Qed.

  Lemma present_at_r : In k data -> r < n /\ dat data r = k.
  Proof.
    intros Hin. destruct lb_dat as [L1 L2]. pose proof r_range as Hrr.
    destruct (In_nth data k 0 Hin) as (i & Hi & Ei).
    assert (Hdi : dat data (Z.of_nat i) = k) by (unfold dat; rewrite Nat2Z.id; exact Ei).
    assert (Hir : r <= Z.of_nat i).
    { destruct (Z_lt_ge_dec (Z.of_nat i) r) as [Hlt|Hge]; [|lia]. pose proof (L1 (Z.of_nat i) ltac:(lia)). lia. }
    assert (Hin' : Z.of_nat i < n) by (unfold n, zlen; lia).
    split; [lia|].
    pose proof (sorted_dat_mono data r (Z.of_nat i) Hs ltac:(lia) ltac:(fold n; lia)).
    pose proof (L2 r ltac:(lia)). lia.
  Qed.

  (* a fed point at or before k whose rank is at least lb(k) - 1 (lb(k) when k is present) *)
  Lemma claimA : dat data 0 <= k ->
    exists Q, In Q (fed_spec kt data) /\ fst Q <= k /\ r - 1 <= snd Q /\ (In k data -> r <= snd Q).
  Proof.
    intros Hk0. destruct lb_dat as [L1 L2]. pose proof r_range as Hrr.
    pose proof (n_pos kt data Hne Hs Hw) as Hn1. fold n in Hn1.
    destruct (in_dec Z.eq_dec k data) as [Hin|Hnin].
    { destruct (present_at_r Hin) as [Hr Ek]. destruct (claimB Hr) as [HB _].
      exists (dat data r, r). cbn [fst snd]. split; [exact HB|]. split; [lia|]. split; lia. }
    destruct (Z.eq_dec r 0) as [E0|E0].
    { exists (dat data 0, 0). cbn [fst snd]. split; [|split; [exact Hk0|split; [lia|contradiction]]].
      apply (spec_first_occ kt data Hne Hs Hw). split; [fold n; lia | left; reflexivity]. }
    pose proof (L1 (r - 1) ltac:(lia)) as He. set (e := dat data (r - 1)) in *.
    assert (Hfo : first_occ data (r - 1) \/ (2 <= r /\ dat data (r - 2) = e)).
    { destruct (Z.eq_dec r 1) as [E1|E1]; [left; split; [fold n; lia | left; lia]|].
      pose proof (sorted_dat_mono data (r - 2) (r - 1) Hs ltac:(lia) ltac:(fold n; lia)) as Hm.
      fold e in Hm. destruct (Z_lt_ge_dec (dat data (r - 2)) e) as [Hlt|Hge].
      - left. split; [fold n; lia|]. right. replace (r - 1 - 1) with (r - 2) by lia. exact Hlt.
      - right. split; lia. }
    destruct Hfo as [Hfo|[Hr2 Hrun]].
    { exists (e, r - 1). cbn [fst snd]. split; [apply (spec_first_occ kt data Hne Hs Hw); exact Hfo|].
      split; [lia|]. split; [lia|contradiction]. }
    destruct (Z.eq_dec r n) as [En|En].
    { exists (last data 0 + 1, n). cbn [fst snd]. split; [apply (spec_closing kt data Hne Hs Hw)|].
      rewrite (last_is data Hne). fold n. rewrite <- En. fold e. split; [lia|]. split; [lia|contradiction]. }
    pose proof (L2 r ltac:(lia)) as Hkr.
    destruct (Z_lt_ge_dec (e + 1) (dat data r)) as [Hgap|Hnogap].
    - exists (e + 1, r - 1). cbn [fst snd].
      split; [|split; [lia|split; [lia|contradiction]]].
      apply (spec_guard kt data Hne Hs Hw (r - 1)). unfold run_end. fold n.
      replace (r - 1 - 1) with (r - 2) by lia. replace (r - 1 + 1) with r by lia. fold e.
      repeat split; lia.
    - exfalso. apply Hnin. replace k with (dat data r) by lia. apply dat_In. fold n. lia.
  Qed.
End Rank.

Definition seg_of (c : cfg) (cs : cseg) (s : segment) : Prop := segment_of_cseg c cs = Ok s.
Definition slope_of (cs : cseg) : slp := fst (cseg_line cs (c_first cs)).

(* the position predicted by the segment responsible for k at one level, capped by the next intercept *)
Theorem level_query_split c kt eps data (g1 g2 : list (list (Z * Z))) b cs (c2 : list cseg) s (S2 : list segment) k cap :
  data <> [] -> sortedb data = true -> nowrap kt data -> zlen data < 2 ^ 32 -> 0 <= eps ->
  concat (g1 ++ b :: g2) = fed_spec kt data ->
  line_ok eps cs b -> seg_of c cs s -> Forall2 (line_ok eps) c2 g2 -> Forall2 (seg_of c) c2 S2 ->
  eval_ok_cap (zlen data + eps) c (fst (slope_of cs)) (snd (slope_of cs)) s k ->
  sg_key s <= k ->
  match S2 with s' :: _ => k < sg_key s' /\ cap = sg_icpt s' | [] => cap = zlen data end ->
  let r := lb data k in
  let pos := Z.min (seg_eval c s k) cap in
  r - eps - 2 <= pos <= r + eps /\ (In k data -> r - eps - 1 <= pos) /\ 0 <= pos.
Proof.
  intros Hne Hs Hw Hn32 Heps Hcat Hlo Hso Hl2 Hs2 Hev Hkey Hnx r pos.
  set (n := zlen data) in *.
  destruct (line_ok_close c eps cs b s Hlo Hso) as (Hdx & Hdy & Hk0 & Hcl). fold (slope_of cs) in Hdx, Hdy, Hcl.
  destruct (seg_of_cseg_spec c cs s Hso) as (_ & _ & Hicpt).
  assert (Hb : b <> []) by (destruct Hlo; assumption).
  assert (Hincr : incr (concat g1 ++ b ++ concat g2)).
  { pose proof (fed_spec_incr kt data Hne Hs Hw) as Hi. rewrite <- Hcat in Hi.
    rewrite concat_app in Hi. cbn [concat] in Hi. exact Hi. }
  assert (Hfed : forall p, In p (concat g1 ++ b ++ concat g2) <-> In p (fed_spec kt data)).
  { intros p. rewrite <- Hcat, concat_app. cbn [concat]. reflexivity. }
  assert (Hrank : forall p, In p (concat g1 ++ b ++ concat g2) -> 0 <= snd p <= n).
  { intros p Hp. apply Hfed in Hp. apply (spec_only kt data Hne Hs Hw) in Hp. exact (fed_kind_rank data p Hp). }
  assert (Hnext : next_ok eps k cap g2 /\ 0 <= cap < 2 ^ 32 /\ (g2 = [] -> cap = n) /\ cap <= n + eps).
  { inversion Hl2 as [|cs' b' c2' g2' Hlo' Hl2' E1 E2]; subst.
    - inversion Hs2; subst. cbn [next_ok]. pose proof (zlen_ge0 data). fold n in H. repeat split; try lia.
    - inversion Hs2 as [|cs'' s' c2'' S2' Hso' Hs2' E3 E4]; subst. destruct Hnx as [Hk1 ->].
      destruct (line_ok_close c eps cs' b' s' Hlo' Hso') as (Hdx' & _ & Hk' & Hcl').
      destruct (seg_of_cseg_spec c cs' s' Hso') as (_ & _ & Hicpt').
      assert (Hb' : b' <> []) by (destruct Hlo'; assumption).
      assert (Hrk' : snd (hd (0, 0) b') <= n).
      { assert (Hin' : In (hd (0, 0) b') (concat g1 ++ b ++ concat (b' :: g2'))).
        { apply in_or_app. right. apply in_or_app. right. cbn [concat]. apply in_or_app. left.
          apply hd_In_ne. exact Hb'. }
        pose proof (Hrank _ Hin'). lia. }
      destruct b' as [|[x y] t]; [contradiction|]. cbn [hd fst snd] in *.
      apply Forall_inv in Hcl'. rewrite Hk' in Hcl'.
      pose proof (close_at_first eps _ _ x (sg_icpt s') y Hdx' Hcl') as Hcf.
      split; [|split; [exact Hicpt' | split; [discriminate | lia]]]. cbn [next_ok hd fst snd]. split; [exact Hb'|].
      rewrite <- Hk'. split; [exact Hk1 | exact Hcf]. }
  destruct Hnext as (Hnext & Hcap & Hcapn & HcapT).
  rewrite Hk0 in Hkey.
  assert (Hsmall : forall p, In p b -> snd p - eps - 1 <= 2 ^ 32 /\ snd p - eps - 1 <= n + eps).
  { intros p Hp. assert (Hp' : In p (concat g1 ++ b ++ concat g2)) by (apply in_or_app; right; apply in_or_app; left; exact Hp).
    pose proof (Hrank p Hp'). lia. }
  pose proof (r_range data k) as Hrr. fold r n in Hrr.
  assert (Hk00 : dat data 0 <= k).
  { assert (Hin0 : In (dat data 0, 0) (fed_spec kt data)).
    { apply (spec_first_occ kt data Hne Hs Hw). split; [|left; reflexivity].
      pose proof (n_pos kt data Hne Hs Hw). lia. }
    apply Hfed in Hin0.
    assert (Hh : In (hd (0,0) b) (concat g1 ++ b ++ concat g2)) by (apply in_or_app; right; apply in_or_app; left; apply hd_In_ne; exact Hb).
    destruct (Z_lt_ge_dec (fst (hd (0, 0) b)) (dat data 0)) as [Hlt|Hge]; [|lia].
    pose proof (incr_In_lt _ _ _ Hincr Hh Hin0 Hlt) as Hy. cbn [snd] in Hy.
    pose proof (Hrank _ Hh). lia. }
  destruct (claimA kt data Hne Hs Hw k Hk00) as (Q & HQ & HQx & HQy & HQp). fold r in HQy, HQp.
  apply Hfed in HQ.
  assert (Hlow : snd Q - eps - 1 <= pos).
  { apply (level_lower c eps _ _ k cap (n + eps) s g1 g2 b Hincr Hb Hdx Hdy Hcl Hev Hkey Hnext Hsmall Q HQ HQx).
    intros E. rewrite (Hcapn E). pose proof (Hrank Q HQ). lia. }
  assert (Hpos0 : 0 <= pos).
  { unfold pos. apply Z.min_glb; [|lia]. apply (eval_cap_nonneg _ c _ _ s k Hev); lia. }
  split; [split; [lia|]|split; [intros Hin; specialize (HQp Hin); lia | exact Hpos0]].
  destruct (Z.eq_dec r n) as [En|En].
  - (* k beyond the last key: the cap decides *)
    unfold pos. destruct g2 as [|b' g2'] eqn:Eg; [rewrite (Hcapn eq_refl); lia|].
    cbn [next_ok] in Hnext. destruct Hnext as (Hb' & _ & Hc).
    assert (Hin : In (hd (0, 0) b') (concat g1 ++ b ++ concat (b' :: g2'))).
    { apply in_or_app. right. apply in_or_app. right. cbn [concat]. apply in_or_app. left.
      destruct b'; [contradiction|]. left. reflexivity. }
    pose proof (Hrank _ Hin). lia.
  - destruct (claimB kt data Hne Hs Hw k ltac:(fold n r; lia)) as [HB HBk]. fold r in HB, HBk.
    apply Hfed in HB.
    pose proof (level_upper c eps _ _ k cap (n + eps) s g1 g2 b Hincr Hb Hdx Hdy Hcl Hev Hkey Hnext (dat data r, r) HB HBk ltac:(lia) HcapT ltac:(lia)) as Hu.
    cbn [snd] in Hu. exact Hu.
Qed.
Print Assumptions level_query_split.

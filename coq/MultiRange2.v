(* MultiRange2.v — MultiRange.v's Section Range with the inner-index contract (C02) asked only at the
   queries that contains() and the RangeIterator actually issue: `okq` is any set of admissible query
   codes; contains(p) needs okq (encode p); range(pmin, pmax) needs okq (encode pmin) and okq of every
   BIGMIN computed from a stored code outside the box.  (MultiRange.v asks the contract at every
   q >= 0, which the real index cannot give at q = its reserved value.)  The proofs are those of
   MultiRange.v, threaded with the admissibility facts. *)
Require Import Base Fp PlaModel GenLeaf IndexModel IndexProofs MultiModel MultiMorton MultiRange.
From Coq Require Import ZifyBool.
Local Open Scope Z_scope.

Section Range2.
  Variable m : mcfg.
  Hypothesis Hwf : wf_mcfg m.
  Variable mu : multi.
  Variable data : list Z.
  Hypothesis Hdata : mu_data mu = data.
  Hypothesis Hsorted : sortedb data = true.
  Hypothesis Hcodes : Forall (fun c => 0 <= c < 2 ^ (m_dims m * field_bits m)) data.
  (* property C02 of the inner index, asked only at the admissible queries *)
  Variable okq : Z -> Prop.
  Hypothesis Hrange : forall q, 0 <= q -> okq q -> exists lo hi,
    multi_range_of m mu q = Ok (lo, hi) /\ 0 <= lo /\ lo <= lb data q /\ lb data q <= hi /\ hi <= zlen data.

  Local Notation D := (m_dims m).
  Local Notation F := (field_bits m).
  Local Notation n := (zlen data).
  Local Notation dat i := (nth (Z.to_nat i) data 0).

  Lemma range_lb q : 0 <= q -> okq q -> exists r,
    multi_range_of m mu q = Ok r /\ lb_range data (fst r) (snd r) q = lb data q.
  Proof.
    intros Hq Hokq. destruct (Hrange q Hq Hokq) as (lo & hi & E & H0 & H1 & H2 & H3).
    exists (lo, hi). split; [exact E|]. cbn [fst snd]. apply lb_range_eq; assumption.
  Qed.

  Lemma dat_code i : 0 <= i < n -> 0 <= dat i < 2 ^ (D * F).
  Proof.
    intros Hi. rewrite Forall_forall in Hcodes. apply Hcodes. apply nth_In. unfold zlen in Hi. lia.
  Qed.

  Lemma decode_eqb_code x p : 0 <= x < 2 ^ (D * F) -> zlen p = D -> coords_ok F p ->
    forallb2 Z.eqb (decode m x) p = (x =? encode m p).
  Proof.
    intros Hx Hl Hp. apply Bool.eq_true_iff_eq. rewrite forallb2_eqb, Z.eqb_eq. split; intros H.
    - rewrite <- H. symmetry. apply encode_decode_wf; assumption.
    - rewrite H. apply decode_encode_wf; assumption.
  Qed.

  Theorem contains_spec p : zlen p = D -> coords_ok F p -> okq (encode m p) ->
    multi_contains m mu p = Ok (existsb (Z.eqb (encode m p)) data).
  Proof.
    intros Hl Hp Hokp. unfold multi_contains. rewrite Hdata.
    pose proof (encode_range m Hwf p Hl) as Hz.
    destruct (range_lb (encode m p) ltac:(lia) Hokp) as (r & E & Elb). rewrite E. cbn [bind]. rewrite Elb.
    rewrite (existsb_eqb_sorted _ _ Hsorted).
    pose proof (lb_nonneg data (encode m p)) as Hnn. pose proof (lb_le_len data (encode m p)) as Hle.
    destruct (lb data (encode m p) =? n) eqn:En.
    - replace (lb data (encode m p) <? n) with false by lia. reflexivity.
    - replace (lb data (encode m p) <? n) with true by lia. cbn [andb].
      rewrite (nth_res_ok data _ 0) by lia. cbn [bind].
      rewrite decode_eqb_code; [reflexivity|apply dat_code; lia|assumption|assumption].
  Qed.

  (* ---- the query box ---- *)
  Variable w : Z.
  Hypothesis Hw : 0 <= w <= F.
  Hypothesis Hbigmin : bigmin_spec_w m w.
  Variables pmin pmax : list Z.
  Hypothesis Lmin : zlen pmin = D.
  Hypothesis Lmax : zlen pmax = D.
  Hypothesis Cmin : coords_ok w pmin.
  Hypothesis Cmax : coords_ok w pmax.
  Hypothesis Hbox : Forall2 Z.le pmin pmax.
  Local Notation zmin := (encode m pmin).
  Local Notation zmax := (encode m pmax).
  Local Notation inb := (box_zcontains m zmin zmax).
  (* the queries the iterator issues are admissible: the code of the lower corner, and every BIGMIN
     computed from a stored code outside the box *)
  Hypothesis Hqmin : okq zmin.
  Hypothesis Hqskip : forall x, In x data -> x <= zmax -> inb x = false -> okq (bigmin m x zmin zmax).

  Lemma coords_ok_mono p : coords_ok w p -> coords_ok F p.
  Proof.
    unfold coords_ok. apply Forall_impl. intros x Hx.
    assert (2 ^ w <= 2 ^ F) by (apply Z.pow_le_mono_r; lia). lia.
  Qed.

  Lemma zmin_code : 0 <= zmin < 2 ^ (D * F).
  Proof. apply encode_range; assumption. Qed.
  Lemma zmax_code : 0 <= zmax < 2 ^ (D * F).
  Proof. apply encode_range; assumption. Qed.

  Lemma inb_bounds c : 0 <= c < 2 ^ (D * F) -> inb c = true -> zmin <= c <= zmax.
  Proof.
    intros Hc Hb. apply (box_zcontains_bounds m Hwf); try assumption; [apply zmin_code|apply zmax_code].
  Qed.

  Lemma zmin_le_zmax : zmin <= zmax.
  Proof.
    apply (inb_bounds zmax zmax_code).
    apply (box_zcontains_spec_wf m Hwf); try assumption; try (apply coords_ok_mono; assumption).
    split; [assumption|apply Forall2_le_refl].
  Qed.

  Lemma dat_mono i j : 0 <= i <= j -> j < n -> dat i <= dat j.
  Proof. intros Hij Hj. unfold zlen in Hj. apply sorted_nth_le; [assumption|lia]. Qed.

  (* ---- advance(): finds the next position whose code is inside the box ---- *)
  Definition adv_post (it it' : Z) : Prop :=
    it <= it' <= n /\ (forall j, it <= j < it' -> inb (dat j) = false) /\ (it' < n -> inb (dat it') = true).

  Lemma advance_loop_spec : forall fuel it miss, 0 <= it <= n -> 0 <= miss -> n - it < Z.of_nat fuel ->
    exists it' miss', advance_loop fuel m mu zmin zmax it miss = Ok (mkRiter it' miss') /\
                      0 <= miss' /\ adv_post it it'.
  Proof.
    induction fuel as [|f IH]; intros it miss Hit Hmiss Hfuel; [lia|].
    cbn [advance_loop]. rewrite Hdata.
    destruct (it <? n) eqn:Eit.
    2:{ exists n, miss. split; [reflexivity|]. split; [lia|]. split; [lia|]. split; intros; lia. }
    rewrite (nth_res_ok data it 0) by lia. cbn [bind].
    pose proof (dat_code it ltac:(lia)) as Hx.
    destruct (dat it <=? zmax) eqn:Ezm.
    2:{ exists n, miss. split; [reflexivity|]. split; [lia|]. split; [lia|]. split; [|lia].
        intros j Hj. destruct (inb (dat j)) eqn:Ej; [|reflexivity].
        pose proof (inb_bounds (dat j) (dat_code j ltac:(lia)) Ej).
        pose proof (dat_mono it j ltac:(lia) ltac:(lia)). lia. }
    destruct (inb (dat it)) eqn:Ein.
    { exists it, miss. split; [reflexivity|]. split; [lia|]. split; [lia|].
      split; [intros; lia|intros _; exact Ein]. }
    destruct (miss + 1 >? miss_threshold) eqn:Eth.
    - cbv zeta.
      pose proof (Hbigmin pmin pmax (dat it) Lmin Lmax Cmin Cmax Hbox ltac:(lia) Ein) as Hb. cbv zeta in Hb.
      set (bmin := bigmin m (dat it) zmin zmax) in *.
      destruct Hb as (Hgt & Hbin & Hleast).
      assert (Hokb : okq bmin).
      { apply Hqskip; [apply nth_In; unfold zlen in *; lia|lia|exact Ein]. }
      destruct (range_lb bmin ltac:(lia) Hokb) as (r & E & Elb). rewrite E. cbn [bind]. rewrite Elb.
      replace (lb data bmin - 1 + 1) with (lb data bmin) by lia.
      destruct (lb_spec data bmin Hsorted) as [Hlt Hge].
      pose proof (lb_le_len data bmin) as Hlen.
      assert (Hadv : it < lb data bmin).
      { destruct (Z_lt_ge_dec it (lb data bmin)) as [|Hc]; [assumption|].
        specialize (Hge it ltac:(lia)). lia. }
      destruct (IH (lb data bmin) 0 ltac:(lia) ltac:(lia) ltac:(lia)) as (it' & miss' & E2 & Hm & Hlo & Hno & Hin).
      exists it', miss'. split; [exact E2|]. split; [lia|]. split; [lia|]. split; [|exact Hin].
      intros j Hj. destruct (Z_lt_ge_dec j (lb data bmin)) as [Hjl|Hjg]; [|apply Hno; lia].
      destruct (inb (dat j)) eqn:Ej; [|reflexivity].
      pose proof (Hlt j ltac:(lia)) as Hjb. pose proof (dat_mono it j ltac:(lia) ltac:(lia)) as Hmono.
      destruct (Z.eq_dec (dat j) (dat it)) as [Eq|Hne]; [rewrite Eq in Ej; congruence|].
      pose proof (Hleast (dat j) ltac:(lia) Ej). lia.
    - destruct (IH (it + 1) (miss + 1) ltac:(lia) ltac:(lia) ltac:(lia)) as (it' & miss' & E & Hm & Hlo & Hno & Hin).
      exists it', miss'. split; [exact E|]. split; [lia|]. split; [lia|]. split; [|exact Hin].
      intros j Hj. destruct (Z.eq_dec j it) as [->|Hne]; [exact Ein|apply Hno; lia].
  Qed.

  Lemma riter_advance_spec it miss : 0 <= it < n -> 0 <= miss ->
    exists it' miss', riter_advance m mu zmin zmax (mkRiter it miss) = Ok (mkRiter it' miss') /\
                      0 <= miss' /\ adv_post (it + 1) it'.
  Proof.
    intros Hit Hmiss. unfold riter_advance. cbn [ri_it ri_miss].
    replace (miss =? -1) with false by lia. rewrite Hdata.
    apply advance_loop_spec; [lia|lia|]. unfold zlen. lia.
  Qed.

  Lemma skipn_dat a : 0 <= a < n ->
    skipn (Z.to_nat a) data = dat a :: skipn (Z.to_nat (a + 1)) data.
  Proof.
    intros Ha. unfold zlen in Ha. rewrite skipn_cons_nth by lia.
    replace (Z.to_nat (a + 1)) with (S (Z.to_nat a)) by lia. reflexivity.
  Qed.

  (* positions outside the box contribute nothing to the filtered suffix *)
  Lemma filter_skip : forall (k : nat) a, 0 <= a -> a + Z.of_nat k <= n ->
    (forall j, a <= j < a + Z.of_nat k -> inb (dat j) = false) ->
    filter inb (skipn (Z.to_nat a) data) = filter inb (skipn (Z.to_nat (a + Z.of_nat k)) data).
  Proof.
    induction k as [|k IH]; intros a Ha Hb Hno.
    - rewrite Z.add_0_r. reflexivity.
    - rewrite skipn_dat by lia. cbn [filter]. rewrite (Hno a) by lia.
      rewrite (IH (a + 1)) by (try lia; intros j Hj; apply Hno; lia).
      do 3 f_equal. lia.
  Qed.

  Lemma filter_skip_to a b : 0 <= a <= b -> b <= n ->
    (forall j, a <= j < b -> inb (dat j) = false) ->
    filter inb (skipn (Z.to_nat a) data) = filter inb (skipn (Z.to_nat b) data).
  Proof.
    intros Hab Hb Hno. replace b with (a + Z.of_nat (Z.to_nat (b - a))) by lia.
    apply filter_skip; [lia|lia|]. intros j Hj. apply Hno. lia.
  Qed.

  (* ---- the for-loop over the iterator ---- *)
  Lemma range_collect_spec : forall fuel it miss, 0 <= it <= n -> 0 <= miss ->
    (it < n -> inb (dat it) = true) -> n - it < Z.of_nat fuel ->
    range_collect fuel m mu zmin zmax (mkRiter it miss) =
    Ok (map (decode m) (filter inb (skipn (Z.to_nat it) data))).
  Proof.
    induction fuel as [|f IH]; intros it miss Hit Hmiss Hin Hfuel; [lia|].
    cbn [range_collect ri_it]. rewrite Hdata.
    destruct (it >=? n) eqn:Eit.
    - rewrite skipn_all2 by (unfold zlen in *; lia). reflexivity.
    - rewrite (nth_res_ok data it 0) by lia. cbn [bind].
      destruct (riter_advance_spec it miss ltac:(lia) Hmiss) as (it' & miss' & E & Hm & Hlo & Hno & Hin').
      rewrite E. cbn [bind].
      rewrite (IH it' miss') by (try assumption; lia). cbn [bind].
      rewrite (skipn_dat it) by lia. cbn [filter]. rewrite Hin by lia. cbn [map].
      rewrite (filter_skip_to (it + 1) it') by (try assumption; lia). reflexivity.
  Qed.

  (* ---- RangeIterator(min, max) ---- *)
  Lemma riter_init_spec : exists it miss,
    riter_init m mu pmin pmax = Ok (mkRiter it miss, zmin, zmax) /\ 0 <= miss /\ adv_post 0 it.
  Proof.
    unfold riter_init. pose proof zmin_le_zmax as Hle. pose proof zmin_code as Hzc.
    replace (zmin >? zmax) with false by lia.
    destruct (range_lb zmin ltac:(lia) Hqmin) as (r & E & Elb). rewrite E. cbn [bind]. rewrite Hdata, Elb.
    pose proof (lb_nonneg data zmin) as Hnn. pose proof (lb_le_len data zmin) as Hlen.
    destruct (lb_spec data zmin Hsorted) as [Hlt Hge].
    assert (Hbefore : forall j, 0 <= j < lb data zmin -> inb (dat j) = false).
    { intros j Hj. destruct (inb (dat j)) eqn:Ej; [|reflexivity].
      pose proof (inb_bounds (dat j) (dat_code j ltac:(lia)) Ej). specialize (Hlt j Hj). lia. }
    destruct (lb data zmin =? n) eqn:En.
    - exists (lb data zmin), 0. split; [reflexivity|]. split; [lia|].
      split; [lia|]. split; [exact Hbefore|lia].
    - rewrite (nth_res_ok data _ 0) by lia. cbn [bind].
      destruct (inb (dat (lb data zmin))) eqn:Ein.
      + exists (lb data zmin), 0. split; [reflexivity|]. split; [lia|].
        split; [lia|]. split; [exact Hbefore|intros _; exact Ein].
      + destruct (riter_advance_spec (lb data zmin) 0 ltac:(lia) ltac:(lia)) as (it' & miss' & E2 & Hm & Hlo & Hno & Hin').
        rewrite E2. cbn [bind]. exists it', miss'. split; [reflexivity|]. split; [lia|].
        split; [lia|]. split; [|exact Hin'].
        intros j Hj. destruct (Z_lt_ge_dec j (lb data zmin)) as [Hjl|Hjg]; [apply Hbefore; lia|].
        destruct (Z.eq_dec j (lb data zmin)) as [->|Hne]; [exact Ein|apply Hno; lia].
  Qed.

  (* iterating range(pmin, pmax) to end() yields exactly the stored codes inside the box, with
     multiplicity, in increasing code order; OutOfFuel cannot occur *)
  Theorem range_spec :
    multi_range m mu pmin pmax = Ok (map (decode m) (filter inb data)).
  Proof.
    unfold multi_range. destruct riter_init_spec as (it & miss & E & Hm & Hlo & Hno & Hin).
    rewrite E. cbn [bind]. rewrite Hdata.
    rewrite range_collect_spec by (try assumption; unfold zlen in *; lia).
    rewrite <- (filter_skip_to 0 it) by (try assumption; lia). reflexivity.
  Qed.

  (* ---- the same, in terms of points ---- *)

  Lemma inb_in_boxb c : inb c = in_boxb pmin pmax (decode m c).
  Proof.
    apply Bool.eq_true_iff_eq. unfold in_boxb.
    rewrite andb_true_iff, !forallb2_leb, (box_zcontains_decode m Hwf).
    rewrite !(decode_encode_wf m Hwf) by (try assumption; apply coords_ok_mono; assumption).
    pose proof (decode_length m c) as Lc. pose proof (D_pos m Hwf) as HD.
    unfold zlen in Lmin, Lmax. split.
    - intros H. split; (apply Forall2_nth_intro; [lia|]); intros k Hk;
        specialize (H (Z.of_nat k) ltac:(lia)); rewrite Nat2Z.id in H; lia.
    - intros [H1 H2] i Hi.
      pose proof (Forall2_nth_elim _ _ _ H1 (Z.to_nat i) ltac:(lia)).
      pose proof (Forall2_nth_elim _ _ _ H2 (Z.to_nat i) ltac:(lia)). lia.
  Qed.

  (* exactly the stored points inside the box [pmin, pmax], in code order, with multiplicity *)
  Theorem range_spec_points :
    multi_range m mu pmin pmax = Ok (filter (in_boxb pmin pmax) (map (decode m) data)).
  Proof.
    rewrite range_spec, filter_map_comm. do 2 f_equal. apply filter_ext. intros c. apply inb_in_boxb.
  Qed.
End Range2.

Print Assumptions contains_spec.
Print Assumptions range_spec_points.

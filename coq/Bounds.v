(* Bounds.v — C17 (the part that is logic): every model read is a checked read (nth_res -> Err OutOfBounds,
   select -> Err UBSelect, end() dereference -> Err UBDerefEnd), so "the operation returns Ok" IS
   "no access outside the structures" at the model level.  These corollaries collect that fact from the
   functional theorems. Heap lifetime, allocator behaviour and library internals are not modelled. *)
Require Import Base Fp PlaModel GenLeaf IndexModel VariantsModel EfPred BucketTop MappedModel MappedQueries MappedFile
               DynModel DynSpec DynCoreLemmas DynCoreInv DynCoreRefine DynCoreQuery DynCoreTotal DynCoreLB DynCore.
Local Open Scope Z_scope.

Definition in_bounds {A} (r : res A) : Prop :=
  r <> Err OutOfBounds /\ r <> Err UBSelect /\ r <> Err UBDerefEnd /\ r <> Err UBShift /\ r <> Err UBDivZero.

Lemma ok_in_bounds {A} (r : res A) a : r = Ok a -> in_bounds r.
Proof. intros ->. repeat split; discriminate. Qed.

(* Elias-Fano predecessor: no select beyond the population, no read outside low/high *)
Theorem no_oob_ef_pred : forall wl vals i,
  0 <= wl -> vals <> [] -> ssortedb vals = true -> hd 0 vals = 0 -> 0 <= i -> zlen vals < 2 ^ 62 ->
  in_bounds (ef_pred (ef_build wl vals) i).
Proof.
  intros wl vals i H1 H2 H3 H4 H5 H6.
  eapply ok_in_bounds. apply ef_pred_spec; assumption.
Qed.

(* Bucketing: the table lookup top[j], top[j+1] and prev(upper_bound(slice)) stay inside the arrays *)
Theorem no_oob_bucketing_segment_for_key :
  forall (bc : bcfg) (segs : list segment) (first_key last_key key : Z) (top : list Z) (step : Z),
  ksigned (c_kt (b_cfg bc)) = false -> 0 <= kbits (c_kt (b_cfg bc)) -> 0 <= b_tls bc ->
  sortedb (map sg_key segs) = true -> hd 0 (map sg_key segs) = first_key -> segs <> [] ->
  0 <= first_key -> first_key <= key <= last_key -> last_key < kmax (c_kt (b_cfg bc)) ->
  build_top_level bc segs first_key last_key = Ok (top, step) ->
  forall b : bucketing, bk_first b = first_key -> bk_segments b = segs -> bk_top b = top -> bk_step b = step ->
  in_bounds (bucketing_segment_for_key bc b key).
Proof.
  intros. eapply ok_in_bounds. eapply bucketing_segment_for_key_spec; eassumption.
Qed.

(* Mapped: the exponential search past the range never reads at or beyond end() *)
Theorem no_oob_mapped_upper_bound : forall (c : cfg) (m : mapped) (q : Z) (data : list Z) (lo hi : Z),
  mp_data m = data -> sortedb data = true -> mapped_range c m q = Ok (lo, hi) -> range_ok data q lo hi ->
  zlen data < 2 ^ 62 -> in_bounds (mapped_upper_bound c m q) /\ in_bounds (mapped_count c m q).
Proof.
  intros c m q data lo hi H1 H2 H3 H4 H5. split; eapply ok_in_bounds.
  - eapply MappedQueries.upper_bound_spec; eassumption.
  - eapply MappedQueries.count_spec; eassumption.
Qed.

(* Dynamic: find / lower_bound / insert / erase never leave the level and index arrays *)
Section DynBounds.
Context {P : Type} (ops : pgmops P) (kmax : Z).
Hypothesis Hc : pgm_contract ops kmax.
Hypothesis Hbuild0 : pg_build ops [] = Ok (pg_empty ops).

Theorem no_oob_dyn_find : forall d m q, ghist ops kmax d m -> sizes_ok d -> q < kmax -> in_bounds (dfind ops d q).
Proof.
  intros d m q Hh Hs Hq. destruct (C05_find ops kmax Hc Hbuild0 d m q Hh Hs Hq) as [r [Hr _]].
  eapply ok_in_bounds; eassumption.
Qed.

Theorem no_oob_dyn_lower_bound : forall d m q, ghist ops kmax d m -> sizes_ok d -> q < kmax -> in_bounds (lower_bound ops d q).
Proof.
  intros d m q Hh Hs Hq. destruct (C05_lower_bound ops kmax Hc Hbuild0 d m q Hh Hs Hq) as [r [Hr _]].
  eapply ok_in_bounds; eassumption.
Qed.

Theorem no_oob_dyn_insert : forall d k v, Inv ops kmax d -> size_ok d -> sizes_ok d -> k < kmax -> d_tomb d <> Some v ->
  in_bounds (insert_or_assign ops d k v).
Proof.
  intros d k v Hi H1 H2 H3 H4. destruct (insert_total ops kmax Hc Hbuild0 d k v Hi H1 H2 H3 H4) as [d' Hd].
  eapply ok_in_bounds; eassumption.
Qed.
End DynBounds.

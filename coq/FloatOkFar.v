(* FloatOkFar.v — the second disjunct of `eval_ok` (IdxBlock.v): when the exact position
   dy*(k-key)/dx is at least 2^33, the computed Segment::operator() value is at least 2^32
   (the relative rounding error of the product is far below 1/2, and values >= 2^63 saturate). *)
From Coq Require Import ZArith Reals Lra Lia Bool.
From Flocq Require Import Core Relative BinarySingleNaN.
Require Import Base Fp PlaModel GenLeaf IndexModel IndexProofs IdxBlock FloatOkLemmas FloatOk.
Local Open Scope Z_scope.

Lemma one_plus_low e a : (Rabs e <= a)%R -> (a <= / 16)%R -> (15 / 16 <= 1 + e)%R.
Proof. intros H Ha. unfold Rabs in H. destruct (Rcase_abs e); lra. Qed.

Lemma prod_low E e1 e2 e3 e4 :
  (0 <= E)%R -> (15 / 16 <= 1 + e1)%R -> (15 / 16 <= 1 + e2)%R -> (15 / 16 <= 1 + e3)%R -> (15 / 16 <= 1 + e4)%R ->
  (E / 2 <= E * (1 + e1) * (1 + e2) * (1 + e3) * (1 + e4))%R.
Proof.
  intros HE H1 H2 H3 H4.
  assert (A1 : (15 / 16 * E <= E * (1 + e1))%R) by nra.
  assert (A2 : (15 / 16 * (15 / 16 * E) <= E * (1 + e1) * (1 + e2))%R) by nra.
  assert (A3 : (15 / 16 * (15 / 16 * (15 / 16 * E)) <= E * (1 + e1) * (1 + e2) * (1 + e3))%R) by nra.
  assert (A4 : (15 / 16 * (15 / 16 * (15 / 16 * (15 / 16 * E))) <= E * (1 + e1) * (1 + e2) * (1 + e3) * (1 + e4))%R) by nra.
  lra.
Qed.

Lemma bpow_small_16 e : e <= -4 -> (bpow radix2 e <= / 16)%R.
Proof. intros H. change (/ 16)%R with (bpow radix2 (-4)). apply bpow_le. exact H. Qed.

Lemma exact_ge dx dy dk n : 0 < dx -> n * dx <= dy * dk -> (IZR n <= IZR dy * IZR dk / IZR dx)%R.
Proof.
  intros Hdx H. assert (HX : (0 < IZR dx)%R) by (now apply IZR_lt).
  apply IZR_le in H. rewrite !mult_IZR in H.
  apply Rmult_le_reg_r with (IZR dx); [exact HX|].
  replace (IZR dy * IZR dk / IZR dx * IZR dx)%R with (IZR dy * IZR dk)%R by (field; lra). exact H.
Qed.

(* the computed product is at least half the exact one *)
Lemma product_low c dx dy dk : 0 < dx < 2 ^ 64 -> 0 <= dy < 2 ^ 64 -> 0 <= dk < 2 ^ 64 ->
  let p := mul64 (slope_to_floating c (dx, dy)) (ofZ64 dk) in
  is_finite p = true /\ (0 <= B2R p)%R /\ (IZR dy * IZR dk / IZR dx / 2 <= B2R p)%R.
Proof.
  intros Hdx Hdy Hdk p.
  destruct (product_R c dx dy dk Hdx Hdy Hdk)
    as (Fp & P0 & e1 & e2 & e3 & e4 & E1 & E2 & E3 & E4 & V). cbv zeta in *. fold p in Fp, P0, V.
  split; [exact Fp|]. split; [exact P0|]. rewrite V.
  set (E := (IZR dy * IZR dk / IZR dx)%R).
  assert (E0 : (0 <= E)%R).
  { unfold E. apply Rmult_le_pos; [apply Rmult_le_pos; apply IZR_le; lia|].
    left. apply Rinv_0_lt_compat. apply IZR_lt. lia. }
  apply prod_low; [exact E0| | | |].
  - apply (one_plus_low e1 _ E1). apply bpow_small_16. lia.
  - apply (one_plus_low e2 _ E2). apply bpow_small_16. unfold fprec. destruct (c_fdouble c); lia.
  - apply (one_plus_low e3 _ E3). apply bpow_small_16. lia.
  - apply (one_plus_low e4 _ E4). apply bpow_small_16. lia.
Qed.

(* the tail of Segment::operator() for a finite product >= 2^32: the value is >= 2^32 *)
Lemma seg_eval_big c s k :
  let p := mul64 (sg_slope s) (ofZ64 (key_diff c k (sg_key s))) in
  is_finite p = true -> (IZR (2 ^ 32) <= B2R p)%R -> 0 <= sg_icpt s < 2 ^ 32 ->
  2 ^ 32 <= seg_eval c s k.
Proof.
  intros p Hf Hp Hi. unfold seg_eval. cbv zeta. fold p.
  assert (P0 : (0 <= B2R p)%R).
  { eapply Rle_trans; [|exact Hp]. apply IZR_le. lia. }
  assert (T : truncZ p = Some (Zfloor (B2R p))).
  { rewrite truncZ_finite by exact Hf. now rewrite Ztrunc_floor. }
  set (t := Zfloor (B2R p)) in *.
  assert (Ht : 2 ^ 32 <= t) by (apply Zfloor_lub; exact Hp).
  rewrite T. destruct (t >=? 2 ^ 63) eqn:Eb; [lia|].
  assert (Ht2 : t < 2 ^ 63) by (rewrite Z.geb_leb in Eb; apply Z.leb_gt in Eb; lia).
  assert (P1 : (B2R p < bpow radix2 63)%R).
  { rewrite <- IZR_pow2 by lia. eapply Rlt_le_trans; [apply Zfloor_ub|]. fold t.
    rewrite <- plus_IZR. apply IZR_le. lia. }
  destruct (double_to_size_t_floor c p Hf (conj P0 P1)) as [_ D]. fold t in D.
  rewrite D. unfold wrapU. rewrite Z.mod_small by lia. lia.
Qed.

Theorem eval_ok_far c dx dy s k :
  0 < dx < 2 ^ 64 -> 0 <= dy < 2 ^ 64 ->
  sg_slope s = slope_to_floating c (dx, dy) -> 0 <= sg_icpt s < 2 ^ 32 ->
  0 <= k - sg_key s < 2 ^ 64 -> key_diff c k (sg_key s) = k - sg_key s ->
  2 ^ 33 * dx <= dy * (k - sg_key s) -> eval_ok c dx dy s k.
Proof.
  intros Hdx Hdy Hs Hi Hdk Hkd Hfar. right. split; [|lia].
  destruct (product_low c dx dy (k - sg_key s) Hdx Hdy Hdk) as (Fp & P0 & PL). cbv zeta in *.
  pose proof (seg_eval_big c s k) as SE. cbv zeta in SE. rewrite Hs, Hkd in SE.
  apply SE; [exact Fp | | exact Hi].
  pose proof (exact_ge dx dy (k - sg_key s) (2 ^ 33) ltac:(lia) Hfar) as HE.
  change (2 ^ 33) with (2 * 2 ^ 32) in HE. rewrite mult_IZR in HE. lra.
Qed.

Corollary eval_ok_far_std c dx dy s k : std_width c ->
  0 < dx < 2 ^ 64 -> 0 <= dy < 2 ^ 64 -> sg_slope s = slope_to_floating c (dx, dy) ->
  0 <= sg_icpt s < 2 ^ 32 -> 0 <= k - sg_key s < 2 ^ kbits (c_kt c) ->
  2 ^ 33 * dx <= dy * (k - sg_key s) -> eval_ok c dx dy s k.
Proof.
  intros W Hdx Hdy Hs Hi Hk Hb.
  assert (2 ^ kbits (c_kt c) <= 2 ^ 64) by (destruct W as [E|[E|[E|E]]]; rewrite E; lia).
  apply eval_ok_far; auto; [lia|now apply key_diff_exact].
Qed.

(* double slopes: every evaluation satisfies the interface *)
Corollary eval_ok_double_all c dx dy s k : std_width c ->
  0 < dx < 2 ^ 64 -> 0 <= dy < 2 ^ 64 -> sg_slope s = slope_to_floating c (dx, dy) ->
  0 <= sg_icpt s < 2 ^ 32 -> 0 <= k - sg_key s < 2 ^ kbits (c_kt c) ->
  c_fdouble c = true -> eval_ok c dx dy s k.
Proof.
  intros W Hdx Hdy Hs Hi Hk Hf.
  destruct (Z_lt_ge_dec (dy * (k - sg_key s)) (2 ^ 50 * dx)) as [Hlt|Hge].
  - apply eval_ok_double_std; assumption.
  - apply eval_ok_far_std; try assumption. lia.
Qed.

Print Assumptions eval_ok_far.
Print Assumptions eval_ok_double_all.

(* MultiModel.v — MultidimensionalPGMIndex: Morton coding through pdep/pext (morton_nd.hpp),
   box test, bigmin / load, RangeIterator (constructor + advance), contains. *)
Require Import Base Fp PlaModel GenLeaf IndexModel.
Local Open Scope Z_scope.

Record mcfg := mkMcfg {
  m_dims : Z;              (* Dimensions in {2,3,4} *)
  m_tbits : Z;             (* digits of T: 32 or 64 *)
  m_cfg : cfg              (* PGMIndex<T, Epsilon, EpsilonRecursive, Floating> over the codes *)
}.
Definition field_bits (m : mcfg) : Z := m_tbits m / m_dims m.

(* BMI2 pdep / pext by their bit-serial definition (Intel pseudo-code); 64 mask bits *)
Fixpoint pdep_aux (fuel : nat) (src mask pos : Z) : Z :=
  match fuel with
  | O => 0
  | S f =>
      if mask =? 0 then 0
      else if Z.odd mask then (if Z.odd src then 2 ^ pos else 0) + pdep_aux f (Z.div2 src) (Z.div2 mask) (pos + 1)
      else pdep_aux f src (Z.div2 mask) (pos + 1)
  end.
Definition pdep (src mask : Z) : Z := pdep_aux 64 src mask 0.
Fixpoint pext_aux (fuel : nat) (src mask outpos : Z) : Z :=
  match fuel with
  | O => 0
  | S f =>
      if mask =? 0 then 0
      else if Z.odd mask then (if Z.odd src then 2 ^ outpos else 0) + pext_aux f (Z.div2 src) (Z.div2 mask) (outpos + 1)
      else pext_aux f (Z.div2 src) (Z.div2 mask) outpos
  end.
Definition pext (src mask : Z) : Z := pext_aux 64 src mask 0.

(* BuildSelector<FieldBits>(Dimensions): bits 0, D, 2D, ... *)
Fixpoint selector_aux (n : nat) (d : Z) : Z :=
  match n with O => 0 | S O => 1 | S k => Z.lor (Z.shiftl (selector_aux k d) d) 1 end.
Definition selector (m : mcfg) : Z := selector_aux (Z.to_nat (field_bits m)) (m_dims m).
Definition wrapT (m : mcfg) (z : Z) : Z := wrapU (m_tbits m) z.

(* morton::Encode / Decode (T arithmetic) *)
Fixpoint encode_aux (m : mcfg) (coords : list Z) (i : Z) : Z :=
  match coords with
  | [] => 0
  | c :: rest => Z.lor (pdep (wrapT m c) (wrapT m (Z.shiftl (selector m) i))) (encode_aux m rest (i + 1))
  end.
Definition encode (m : mcfg) (coords : list Z) : Z := encode_aux m coords 0.
Definition decode (m : mcfg) (code : Z) : list Z :=
  map (fun i => pext code (wrapT m (Z.shiftl (selector m) i))) (zseq 0 (Z.to_nat (m_dims m))).

(* box_zcontains: per-dimension masked comparison (selector is a uint64_t here, not truncated to T) *)
Definition box_zcontains (m : mcfg) (zmin zmax p : Z) : bool :=
  forallb (fun i => let msk := wrapU 64 (Z.shiftl (selector m) i) in
                    (Z.land zmin msk <=? Z.land p msk) && (Z.land p msk <=? Z.land zmax msk))
          (zseq 0 (Z.to_nat (m_dims m))).

Definition lo_set (k : Z) : Z := 2 ^ k - 1.
Definition bits_hi (x : Z) : Z := if x <=? 0 then 0 else Z.log2 x.

(* load(target, pattern, bit_position, dimension) *)
Definition load (m : mcfg) (target pattern bit_position dimension : Z) : Z :=
  let sel := wrapU 64 (Z.shiftl (selector m) dimension) in
  let mask := wrapU 64 (Z.lnot (pdep (lo_set bit_position) sel)) in
  wrapT m (Z.lor (Z.land target mask) (pdep pattern sel)).

Definition bit (x b : Z) : Z := if Z.testbit x b then 1 else 0.

(* bigmin(xd, min, max): loop over b = hi_bit .. 0 *)
Fixpoint bigmin_loop (m : mcfg) (bs : list Z) (xd zmin zmax bigmin : Z) : Z :=
  match bs with
  | [] => bigmin
  | b :: rest =>
      let bits := b / m_dims m + 1 in
      let dim := b mod m_dims m in
      let decision := 4 * bit xd b + 2 * bit zmin b + bit zmax b in
      if decision =? 1 then
        bigmin_loop m rest xd zmin (load m zmax (lo_set (bits - 1)) bits dim)
                    (load m zmin (wrapT m (2 ^ (bits - 1))) bits dim)
      else if decision =? 3 then zmin
      else if decision =? 4 then bigmin
      else if decision =? 5 then bigmin_loop m rest xd (load m zmin (wrapT m (2 ^ (bits - 1))) bits dim) zmax bigmin
      else bigmin_loop m rest xd zmin zmax bigmin
  end.
Definition bigmin (m : mcfg) (xd zmin zmax : Z) : Z :=
  let hi_bit := Z.max (Z.max (bits_hi xd) (bits_hi zmin)) (bits_hi zmax) in
  bigmin_loop m (rev (zseq 0 (Z.to_nat (hi_bit + 1)))) xd zmin zmax 0.

(* ---- the container ---- *)
Record multi := mkMulti { mu_data : list Z; mu_ix : index }.

Fixpoint insert_sorted (x : Z) (l : list Z) : list Z :=
  match l with [] => [x] | y :: t => if x <=? y then x :: l else y :: insert_sorted x t end.
Definition sort_codes (l : list Z) : list Z := fold_right insert_sorted [] l.

Definition multi_build (m : mcfg) (points : list (list Z)) : res multi :=
  if existsb (fun p => existsb (fun x => BIT_WIDTH x >=? field_bits m) p) points then Err ThrowRuntimeError else
  let data := sort_codes (map (encode m) points) in
  do ix <- build (m_cfg m) data;
  Ok (mkMulti data ix).

Definition multi_range_of (m : mcfg) (mu : multi) (q : Z) : res (Z * Z) :=
  do a <- search (m_cfg m) (mu_ix mu) q;
  if (a_lo a <? 0) || (a_hi a >? zlen (mu_data mu)) || (a_hi a <? a_lo a) then Err OutOfBounds
  else Ok (a_lo a, a_hi a).

Fixpoint forallb2 {A} (f : A -> A -> bool) (l1 l2 : list A) : bool :=
  match l1, l2 with
  | [], [] => true
  | a :: t1, b :: t2 => f a b && forallb2 f t1 t2
  | _, _ => false
  end.

(* contains(p): lower_bound inside the PGM range, then compare the decoded element *)
Definition multi_contains (m : mcfg) (mu : multi) (p : list Z) : res bool :=
  let zp := encode m p in
  do r <- multi_range_of m mu zp;
  let it := lb_range (mu_data mu) (fst r) (snd r) zp in
  if it =? zlen (mu_data mu) then Ok false
  else do x <- nth_res (mu_data mu) it; Ok (forallb2 Z.eqb (decode m x) p).

(* ---- RangeIterator ---- *)
Record riter := mkRiter { ri_it : Z; ri_miss : Z }.          (* it = index into data; n = end() *)

(* advance(): returns the new iterator; the current point is decode(data[it]) when it < n *)
Fixpoint advance_loop (fuel : nat) (m : mcfg) (mu : multi) (zmin zmax : Z) (it miss : Z) : res riter :=
  match fuel with
  | O => Err OutOfFuel
  | S f =>
      let n := zlen (mu_data mu) in
      if it <? n then
        do x <- nth_res (mu_data mu) it;
        if x <=? zmax then
          if box_zcontains m zmin zmax x then Ok (mkRiter it miss)
          else if miss + 1 >? miss_threshold then
            let bmin := bigmin m x zmin zmax in
            do r <- multi_range_of m mu bmin;
            (* it = lower_bound(range, bmin); --it; then the ++it at the end of the loop body *)
            let it' := lb_range (mu_data mu) (fst r) (snd r) bmin - 1 + 1 in
            advance_loop f m mu zmin zmax it' 0
          else advance_loop f m mu zmin zmax (it + 1) (miss + 1)
        else Ok (mkRiter n miss)                       (* *it > zmax: it = end() *)
      else Ok (mkRiter n miss)
  end.

Definition riter_advance (m : mcfg) (mu : multi) (zmin zmax : Z) (r : riter) : res riter :=
  if ri_miss r =? -1 then Ok (mkRiter (ri_it r + 1) (-1))
  else advance_loop (S (S (length (mu_data mu)))) m mu zmin zmax (ri_it r + 1) (ri_miss r).

(* RangeIterator(super, min, max) *)
Definition riter_init (m : mcfg) (mu : multi) (pmin pmax : list Z) : res (riter * Z * Z) :=
  let zmin := encode m pmin in
  let zmax := encode m pmax in
  if zmin >? zmax then Err ThrowInvalidArgument else
  do r <- multi_range_of m mu zmin;
  let it := lb_range (mu_data mu) (fst r) (snd r) zmin in
  if it =? zlen (mu_data mu) then Ok (mkRiter it 0, zmin, zmax) else
  do x <- nth_res (mu_data mu) it;
  if box_zcontains m zmin zmax x then Ok (mkRiter it 0, zmin, zmax)
  else do r2 <- riter_advance m mu zmin zmax (mkRiter it 0); Ok (r2, zmin, zmax).

(* for (it = range(min,max); it != end(); ++it) collect *it *)
Fixpoint range_collect (fuel : nat) (m : mcfg) (mu : multi) (zmin zmax : Z) (r : riter) : res (list (list Z)) :=
  match fuel with
  | O => Err OutOfFuel
  | S f =>
      if ri_it r >=? zlen (mu_data mu) then Ok []
      else
        do x <- nth_res (mu_data mu) (ri_it r);
        do r' <- riter_advance m mu zmin zmax r;
        do tl <- range_collect f m mu zmin zmax r';
        Ok (decode m x :: tl)
  end.
Definition multi_range (m : mcfg) (mu : multi) (pmin pmax : list Z) : res (list (list Z)) :=
  do i <- riter_init m mu pmin pmax;
  let '(r, zmin, zmax) := i in
  range_collect (S (S (length (mu_data mu)))) m mu zmin zmax r.
